import Lk.GenProbe
import Mathlib.Analysis.SpecialFunctions.Log.Basic
import Mathlib.Analysis.SpecialFunctions.Trigonometric.Basic
import Mathlib.Analysis.SpecialFunctions.Trigonometric.Inverse
import Mathlib.Tactic.Linarith
import Mathlib.Tactic.NormNum

noncomputable instance : XTrans ℝ := ⟨Real.exp, Real.log, Real.sin, Real.cos, Real.sqrt, Real.arcsin⟩
open Gen

/-- "fails with one error": value 0 and the slot updated by exactly one `setErr` with a non-empty message -/
def FailsWith (r : M (ℝ × Slot)) (error : Slot) : Prop :=
  ∃ msg : String, msg ≠ "" ∧ r = (do let e ← setErr error 1 msg; pure (0, e))

theorem EdgeEnergy_hit (T : Tables ℝ) (Z shell : Int) (error : Slot)
    (h : 1 ≤ Z ∧ Z ≤ 120 ∧ 0 ≤ shell ∧ shell < 28) (hv : 0 < T.EdgeEnergy_arr Z.toNat shell.toNat) :
    EdgeEnergy T Z shell error = pure (T.EdgeEnergy_arr Z.toNat shell.toNat, error) := by
  obtain ⟨h1, h2, h3, h4⟩ := h
  have a1 : ¬ Z < 1 := by omega
  have a2 : ¬ Z > 120 := by omega
  have a3 : ¬ shell < 0 := by omega
  have a4 : ¬ shell ≥ 28 := by omega
  have a5 : Z < 121 ∧ shell < 28 ∧ 0 ≤ Z ∧ 0 ≤ shell := by omega
  have a6 : ¬ T.EdgeEnergy_arr Z.toNat shell.toNat ≤ 0 := not_le.mpr hv
  simp [EdgeEnergy, rd2, bind, Except.bind, pure, Except.pure, a1, a2, a3, a4, a5]
  norm_num [a6]

theorem EdgeEnergy_miss (T : Tables ℝ) (Z shell : Int) (error : Slot)
    (h : ¬ (1 ≤ Z ∧ Z ≤ 120 ∧ 0 ≤ shell ∧ shell < 28 ∧ 0 < T.EdgeEnergy_arr Z.toNat shell.toNat)) :
    FailsWith (EdgeEnergy T Z shell error) error := by
  by_cases hZ : Z < 1 ∨ Z > 120
  · refine ⟨"Z out of range", by decide, ?_⟩
    rcases hZ with hZ | hZ <;>
      simp [EdgeEnergy, bind, Except.bind, pure, Except.pure, hZ] <;> (try norm_num) <;>
      (by_cases h1 : Z < 1 <;> simp [h1, hZ] <;> norm_num)
  · have a1 : ¬ Z < 1 := by omega
    have a2 : ¬ Z > 120 := by omega
    by_cases hs : shell < 0 ∨ shell ≥ 28
    · refine ⟨"Unknown shell macro provided", by decide, ?_⟩
      rcases hs with hs | hs <;>
        simp [EdgeEnergy, bind, Except.bind, pure, Except.pure, a1, a2, hs] <;> (try norm_num) <;>
        (by_cases h1 : shell < 0 <;> simp [h1, hs] <;> norm_num)
    · have a3 : ¬ shell < 0 := by omega
      have a4 : ¬ shell ≥ 28 := by omega
      have a5 : Z < 121 ∧ shell < 28 ∧ 0 ≤ Z ∧ 0 ≤ shell := by omega
      have hv : T.EdgeEnergy_arr Z.toNat shell.toNat ≤ 0 := by
        by_contra hc; exact h ⟨by omega, by omega, by omega, by omega, lt_of_not_ge hc⟩
      refine ⟨"Invalid shell for this atomic number", by decide, ?_⟩
      simp [EdgeEnergy, rd2, bind, Except.bind, pure, Except.pure, a1, a2, a3, a4, a5]
      norm_num [hv]

#print axioms EdgeEnergy_hit
#print axioms EdgeEnergy_miss
