import Lk.Core3
import Mathlib.Analysis.SpecialFunctions.Log.Basic
import Mathlib.Analysis.SpecialFunctions.Trigonometric.Basic
import Mathlib.Analysis.SpecialFunctions.Trigonometric.Inverse
import Mathlib.Tactic.Ring
import Mathlib.Tactic.Linarith
import Mathlib.Tactic.NormNum

noncomputable instance : XTrans ℝ := ⟨Real.exp, Real.log, Real.sin, Real.cos, Real.sqrt, Real.arcsin⟩

/-- what C03 says about one call made with an empty slot, for a strictly positive quantity -/
def Outcome (r : M (ℝ × Slot)) : Prop :=
  (∃ v, 0 < v ∧ r = .ok (v, .empty)) ∨ (∃ e : Err, e.msg ≠ "" ∧ r = .ok (0, .full e))
theorem Outcome.failure (e : Err) (hm : e.msg ≠ "") : Outcome (.ok (0, .full e)) := Or.inr ⟨e, hm, rfl⟩
theorem Outcome.success (v : ℝ) (hv : 0 < v) : Outcome (.ok (v, .empty)) := Or.inl ⟨v, hv, rfl⟩

def PosContract (f : Slot → M (ℝ × Slot)) : Prop := Outcome (f .empty)

theorem CS_Total_contract (T : Tables ℝ) (P : Parts ℝ) (Z : Int) (E : ℝ)
    (hP : PosContract (P.CS_Photo Z E)) (hR : PosContract (P.CS_Rayl Z E)) (hC : PosContract (P.CS_Compt Z E)) :
    PosContract (CS_Total T P Z E) := by
  unfold PosContract CS_Total rd1i
  by_cases hZ1 : Z < 1
  · simp [hZ1, setErr, bind, Except.bind, pure, Except.pure]; norm_num; exact .failure ⟨1, "Z out of range"⟩ (by decide)
  by_cases hZ2 : Z > 120
  · simp [hZ1, hZ2, setErr, bind, Except.bind, pure, Except.pure]; norm_num; exact .failure ⟨1, "Z out of range"⟩ (by decide)
  have hb : (0 ≤ Z ∧ Z < (121:Nat)) := by omega
  simp only [hZ1, hZ2, hb, if_false, if_true, and_self]
  by_cases hn : T.NE_Photo Z.toNat < 0 ∨ T.NE_Rayl Z.toNat < 0 ∨ T.NE_Compt Z.toNat < 0
  · rcases hn with h | h | h <;>
    · by_cases a : T.NE_Photo Z.toNat < 0 <;> by_cases b : T.NE_Rayl Z.toNat < 0 <;>
        simp [*, setErr, bind, Except.bind, pure, Except.pure] <;> norm_num <;>
        exact .failure ⟨1, "Z out of range"⟩ (by decide)
  · push_neg at hn
    obtain ⟨n1, n2, n3⟩ := hn
    by_cases hE : E ≤ 0
    · simp [not_lt.mpr n1, not_lt.mpr n2, not_lt.mpr n3, setErr, bind, Except.bind, pure, Except.pure]
      norm_num [hE]; exact .failure ⟨1, "Energy must be strictly positive"⟩ (by decide)
    · simp [not_lt.mpr n1, not_lt.mpr n2, not_lt.mpr n3, bind, Except.bind, pure, Except.pure]
      norm_num [hE]
      rcases hP with ⟨p, hp, ep⟩ | ⟨e, hm, ep⟩
      · rcases hR with ⟨r, hr, er⟩ | ⟨e, hm, er⟩
        · rcases hC with ⟨c, hc, ec⟩ | ⟨e, hm, ec⟩
          · simp [ep, er, ec, hp.ne', hr.ne', hc.ne']; exact .success _ (by positivity)
          · simp [ep, er, ec, hp.ne', hr.ne']; exact .failure e hm
        · simp [ep, er, hp.ne']; exact .failure e hm
      · simp [ep]; exact .failure e hm
#print axioms CS_Total_contract
