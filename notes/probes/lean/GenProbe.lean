import Lk.Core3

namespace Gen
structure Tables (α : Type) where
  AtomicLevelWidth_arr : Nat → Nat → α
  AtomicWeight_arr : Nat → α
  Auger_Rates : Nat → Nat → α
  Auger_Yields : Nat → Nat → α
  CosKron_arr : Nat → Nat → α
  EdgeEnergy_arr : Nat → Nat → α
  ElementDensity_arr : Nat → α
  FluorYield_arr : Nat → Nat → α
  JumpFactor_arr : Nat → Nat → α

section
variable {α : Type} [Add α] [Sub α] [Mul α] [Div α] [Neg α] [LT α] [LE α] [OfScientific α]
  [DecidableLT α] [DecidableLE α] [DecidableEq α] [XTrans α]

def EdgeEnergy (T : Tables α) (Z : Int) (shell : Int) (error : Slot) : M (α × Slot) := do
  let mut error := error
  let mut edge_energy := (0.0 : α)
  if (← (do if (← (pure (decide (Z < (1 : Int))) : M Bool)) then pure true else (pure (decide (Z > (120 : Int))) : M Bool))) then
    error ← setErr error 1 "Z out of range"
    return ((0.0 : α), error)
  if (← (do if (← (pure (decide (shell < (0 : Int))) : M Bool)) then pure true else (pure (decide (shell ≥ (28 : Int))) : M Bool))) then
    error ← setErr error 1 "Unknown shell macro provided"
    return ((0.0 : α), error)
  let t1 ← rd2 "EdgeEnergy_arr" 121 28 T.EdgeEnergy_arr Z shell
  edge_energy := t1
  if (← (pure (decide (edge_energy ≤ (0.0 : α))) : M Bool)) then
    error ← setErr error 1 "Invalid shell for this atomic number"
    return ((0.0 : α), error)
  return (edge_energy, error)

def AtomicWeight (T : Tables α) (Z : Int) (error : Slot) : M (α × Slot) := do
  let mut error := error
  let mut atomic_weight := (0.0 : α)
  if (← (do if (← (pure (decide (Z < (1 : Int))) : M Bool)) then pure true else (pure (decide (Z > (120 : Int))) : M Bool))) then
    error ← setErr error 1 "Z out of range"
    return ((0.0 : α), error)
  let t1 ← rd1 "AtomicWeight_arr" 121 T.AtomicWeight_arr Z
  atomic_weight := t1
  if (← (pure (decide (atomic_weight ≤ (0.0 : α))) : M Bool)) then
    error ← setErr error 1 "Z out of range"
    return ((0.0 : α), error)
  return (atomic_weight, error)

def FluorYield (T : Tables α) (Z : Int) (shell : Int) (error : Slot) : M (α × Slot) := do
  let mut error := error
  let mut fluor_yield := (0.0 : α)
  if (← (do if (← (pure (decide (Z < (1 : Int))) : M Bool)) then pure true else (pure (decide (Z > (120 : Int))) : M Bool))) then
    error ← setErr error 1 "Z out of range"
    return ((0.0 : α), error)
  if (← (do if (← (pure (decide (shell < (0 : Int))) : M Bool)) then pure true else (pure (decide (shell ≥ (28 : Int))) : M Bool))) then
    error ← setErr error 1 "Unknown shell macro provided"
    return ((0.0 : α), error)
  let t1 ← rd2 "FluorYield_arr" 121 28 T.FluorYield_arr Z shell
  fluor_yield := t1
  if (← (pure (decide (fluor_yield ≤ (0.0 : α))) : M Bool)) then
    error ← setErr error 1 "Invalid shell for this atomic number"
    return ((0.0 : α), error)
  return (fluor_yield, error)

def JumpFactor (T : Tables α) (Z : Int) (shell : Int) (error : Slot) : M (α × Slot) := do
  let mut error := error
  let mut jump_factor := (0.0 : α)
  if (← (do if (← (pure (decide (Z < (1 : Int))) : M Bool)) then pure true else (pure (decide (Z > (120 : Int))) : M Bool))) then
    error ← setErr error 1 "Z out of range"
    return ((0.0 : α), error)
  if (← (do if (← (pure (decide (shell < (0 : Int))) : M Bool)) then pure true else (pure (decide (shell ≥ (28 : Int))) : M Bool))) then
    error ← setErr error 1 "Unknown shell macro provided"
    return ((0.0 : α), error)
  let t1 ← rd2 "JumpFactor_arr" 121 28 T.JumpFactor_arr Z shell
  jump_factor := t1
  if (← (pure (decide (jump_factor ≤ (0.0 : α))) : M Bool)) then
    error ← setErr error 1 "Invalid shell for this atomic number"
    return ((0.0 : α), error)
  return (jump_factor, error)

def CosKronTransProb (T : Tables α) (Z : Int) (trans : Int) (error : Slot) : M (α × Slot) := do
  let mut error := error
  let mut trans_prob := (0.0 : α)
  if (← (do if (← (pure (decide (Z < (1 : Int))) : M Bool)) then pure true else (pure (decide (Z > (120 : Int))) : M Bool))) then
    error ← setErr error 1 "Z out of range"
    return ((0.0 : α), error)
  if (← (do if (← (pure (decide (trans < (1 : Int))) : M Bool)) then pure true else (pure (decide (trans ≥ (15 : Int))) : M Bool))) then
    error ← setErr error 1 "Unknown Coster-Kronig transition macro provided"
    return ((0.0 : α), error)
  let t1 ← rd2 "CosKron_arr" 121 15 T.CosKron_arr Z trans
  trans_prob := t1
  if (← (pure (decide (trans_prob ≤ (0.0 : α))) : M Bool)) then
    error ← setErr error 1 "Invalid Coster-Kronig transition for this atomic number"
    return ((0.0 : α), error)
  return (trans_prob, error)

def AtomicLevelWidth (T : Tables α) (Z : Int) (shell : Int) (error : Slot) : M (α × Slot) := do
  let mut error := error
  let mut atomic_level_width := (0.0 : α)
  if (← (do if (← (pure (decide (Z < (1 : Int))) : M Bool)) then pure true else (pure (decide (Z > (120 : Int))) : M Bool))) then
    error ← setErr error 1 "Z out of range"
    return ((0.0 : α), error)
  if (← (do if (← (pure (decide (shell < (0 : Int))) : M Bool)) then pure true else (pure (decide (shell ≥ (28 : Int))) : M Bool))) then
    error ← setErr error 1 "Unknown shell macro provided"
    return ((0.0 : α), error)
  let t1 ← rd2 "AtomicLevelWidth_arr" 121 28 T.AtomicLevelWidth_arr Z shell
  atomic_level_width := t1
  if (← (pure (decide (atomic_level_width ≤ (0.0 : α))) : M Bool)) then
    error ← setErr error 1 "Invalid shell for this atomic number"
    return ((0.0 : α), error)
  return (atomic_level_width, error)

def ElementDensity (T : Tables α) (Z : Int) (error : Slot) : M (α × Slot) := do
  let mut error := error
  let mut element_density := (0.0 : α)
  if (← (do if (← (pure (decide (Z < (1 : Int))) : M Bool)) then pure true else (pure (decide (Z > (120 : Int))) : M Bool))) then
    error ← setErr error 1 "Z out of range"
    return ((0.0 : α), error)
  let t1 ← rd1 "ElementDensity_arr" 121 T.ElementDensity_arr Z
  element_density := t1
  if (← (pure (decide (element_density ≤ (0.0 : α))) : M Bool)) then
    error ← setErr error 1 "Z out of range"
    return ((0.0 : α), error)
  return (element_density, error)

def AugerRate (T : Tables α) (Z : Int) (auger_trans : Int) (error : Slot) : M (α × Slot) := do
  let mut error := error
  let mut rv := (0.0 : α)
  if (← (do if (← (pure (decide (Z > (120 : Int))) : M Bool)) then pure true else (pure (decide (Z < (1 : Int))) : M Bool))) then
    error ← setErr error 1 "Z out of range"
    return ((0.0 : α), error)
  if (← (do if (← (pure (decide (auger_trans < (0 : Int))) : M Bool)) then pure true else (pure (decide (auger_trans > (995 : Int))) : M Bool))) then
    error ← setErr error 1 "Unknown Auger transition macro provided"
    return ((0.0 : α), error)
  let t1 ← rd2 "Auger_Rates" 121 996 T.Auger_Rates Z auger_trans
  rv := t1
  if (← (pure (decide (rv ≤ (0.0 : α))) : M Bool)) then
    error ← setErr error 1 "Invalid Auger transition macro for this atomic number"
    return ((0.0 : α), error)
  return (rv, error)

def AugerYield (T : Tables α) (Z : Int) (shell : Int) (error : Slot) : M (α × Slot) := do
  let mut error := error
  let mut rv := (0.0 : α)
  if (← (do if (← (pure (decide (Z > (120 : Int))) : M Bool)) then pure true else (pure (decide (Z < (1 : Int))) : M Bool))) then
    error ← setErr error 1 "Z out of range"
    return ((0.0 : α), error)
  else
    if (← (do if (← (pure (decide (shell < (0 : Int))) : M Bool)) then pure true else (pure (decide (shell > (8 : Int))) : M Bool))) then
      error ← setErr error 1 "Unknown shell macro provided"
      return ((0.0 : α), error)
  let t1 ← rd2 "Auger_Yields" 121 9 T.Auger_Yields Z shell
  rv := t1
  if (← (pure (decide (rv ≤ (0.0 : α))) : M Bool)) then
    error ← setErr error 1 "Invalid shell for this atomic number"
    return ((0.0 : α), error)
  return (rv, error)

end
end Gen
