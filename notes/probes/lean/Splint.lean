/-! prototype: the bisection of splint.c as a fuel-recursive function, and its bracket theorem (core Lean only) -/

/-- `while (khi-klo > 1) { k = (khi+klo) >> 1; if (xa[k] > x) khi = k; else klo = k; }` -/
def bisect (gt : Nat → Bool) : Nat → Nat → Nat → Nat × Nat
  | 0, klo, khi => (klo, khi)
  | fuel+1, klo, khi =>
    if khi - klo > 1 then
      let k := (khi + klo) / 2
      if gt k then bisect gt fuel klo k else bisect gt fuel k khi
    else (klo, khi)

/-- invariant-carrying statement: with enough fuel the loop ends with adjacent indices that
    still bracket: `¬ gt klo` (i.e. xa[klo] ≤ x) and (`gt khi` or khi is the original upper end). -/
theorem bisect_spec (gt : Nat → Bool) (n : Nat) :
    ∀ fuel klo khi, klo < khi → khi ≤ n → khi - klo ≤ fuel + 1 →
      gt klo = false → (gt khi = true ∨ khi = n) →
      let r := bisect gt fuel klo khi
      r.1 + 1 = r.2 ∧ klo ≤ r.1 ∧ r.2 ≤ khi ∧ gt r.1 = false ∧ (gt r.2 = true ∨ r.2 = n) := by
  intro fuel
  induction fuel with
  | zero =>
    intro klo khi h1 h2 h3 h4 h5
    simp only [bisect]
    refine ⟨by omega, Nat.le_refl _, Nat.le_refl _, h4, h5⟩
  | succ f ih =>
    intro klo khi h1 h2 h3 h4 h5
    simp only [bisect]
    by_cases hw : khi - klo > 1
    · simp only [hw, if_true]
      by_cases hg : gt ((khi + klo) / 2) = true
      · simp only [hg, if_true]
        have := ih klo ((khi + klo) / 2) (by omega) (by omega) (by omega) h4 (Or.inl hg)
        obtain ⟨a, b, c, d, e⟩ := this
        exact ⟨a, b, by omega, d, e⟩
      · have hg' : gt ((khi + klo) / 2) = false := by cases h : gt ((khi + klo) / 2) <;> simp_all
        simp only [hg', Bool.false_eq_true, if_false]
        have := ih ((khi + klo) / 2) khi (by omega) h2 (by omega) hg' h5
        obtain ⟨a, b, c, d, e⟩ := this
        exact ⟨a, by omega, c, d, e⟩
    · simp only [hw, if_false]
      exact ⟨by omega, Nat.le_refl _, Nat.le_refl _, h4, h5⟩

#print axioms bisect_spec
