import Mathlib.Analysis.SpecialFunctions.Log.Deriv
import Mathlib.Analysis.SpecialFunctions.Trigonometric.Deriv
import Mathlib.Analysis.SpecialFunctions.Integrals.Basic
import Mathlib.MeasureTheory.Integral.IntervalIntegral.FundThmCalculus
import Mathlib.Tactic.Ring
import Mathlib.Tactic.FieldSimp
import Mathlib.Tactic.Linarith
import Mathlib.Tactic.Positivity

open Real

/-- differential Klein–Nishina as in scattering.c (a = E/MEC2, r = RE2) -/
noncomputable def dcsKN (r a θ : ℝ) : ℝ :=
  let c := cos θ
  let t1 := (1 - c) * a
  let t2 := 1 + t1
  (r / 2) * (1 + c * c + t1 * t1 / t2) / t2 / t2

/-- total Klein–Nishina as in scattering.c -/
noncomputable def csKN (r a : ℝ) : ℝ :=
  let b := 1 + 2 * a
  2 * π * r * ((1 + a) / (a*a*a) * (2 * a * (1 + a) / b - log b) + 0.5 * log b / a - (1 + 3 * a) / (b*b))

/-- antiderivative in u = 1 + a (1 - cos θ) -/
noncomputable def G (a u : ℝ) : ℝ :=
  -1/u + (1/(a*a)) * (-(a+1)^2/u - 2*(a+1)*log u + u) + log u + 2/u - 1/(2*u^2)

noncomputable def F (r a θ : ℝ) : ℝ := (π * r / a) * G a (1 + a * (1 - cos θ))

theorem hasDerivAt_F (r a θ : ℝ) (ha : 0 < a) :
    HasDerivAt (F r a) (dcsKN r a θ * (2 * π * sin θ)) θ := by
  have hu : 0 < 1 + a * (1 - cos θ) := by
    have : cos θ ≤ 1 := cos_le_one θ
    have : 0 ≤ a * (1 - cos θ) := mul_nonneg ha.le (by linarith)
    linarith
  have hu' : HasDerivAt (fun θ => 1 + a * (1 - cos θ)) (a * sin θ) θ := by
    have h1 : HasDerivAt (fun θ => cos θ) (-sin θ) θ := hasDerivAt_cos θ
    have h2 := ((hasDerivAt_const θ (1:ℝ)).sub h1).const_mul a |>.const_add 1
    refine (h2.congr_of_eventuallyEq (Filter.Eventually.of_forall (fun v => ?_))).congr_deriv ?_
    · simp
    · simp
  set u := 1 + a * (1 - cos θ) with hudef
  have hG : HasDerivAt (G a) (1/u^2 + (1/(a*a)) * ((a+1)^2/u^2 - 2*(a+1)/u + 1) + 1/u - 2/u^2 + 1/u^3) u := by
    have hid : HasDerivAt (fun u : ℝ => u) 1 u := hasDerivAt_id u
    have hinv : HasDerivAt (fun u : ℝ => u⁻¹) (-(u^2)⁻¹) u := hasDerivAt_inv hu.ne'
    have hlog : HasDerivAt (fun u : ℝ => log u) u⁻¹ u := hasDerivAt_log hu.ne'
    have hsq : HasDerivAt (fun u : ℝ => (u^2)⁻¹) (-(2*u)/(u^2)^2) u := by
      have := (hasDerivAt_pow 2 u).inv (pow_ne_zero 2 hu.ne')
      refine (this.congr_of_eventuallyEq (Filter.Eventually.of_forall (fun v => ?_))).congr_deriv ?_
      · simp
      · simp
    have H := (((hinv.const_mul (-1)).add
        ((((hinv.const_mul (-(a+1)^2)).sub (hlog.const_mul (2*(a+1)))).add hid).const_mul (1/(a*a)))).add hlog).add
        (hinv.const_mul 2) |>.sub (hsq.const_mul (1/2))
    refine (H.congr_of_eventuallyEq (Filter.Eventually.of_forall (fun v => ?_))).congr_deriv ?_
    · unfold G; simp only [Pi.add_apply, Pi.sub_apply]; ring
    · field_simp; ring
  have hcomp := (hG.comp θ hu').const_mul (π * r / a)
  unfold F
  refine (hcomp.congr_of_eventuallyEq (Filter.Eventually.of_forall (fun v => ?_))).congr_deriv ?_
  · simp [Function.comp]
  unfold dcsKN
  simp only
  have e1 : (1 - cos θ) * a = u - 1 := by rw [hudef]; ring
  have e2 : 1 + (1 - cos θ) * a = u := by rw [hudef]; ring
  have e3 : cos θ = (a + 1 - u) / a := by rw [hudef]; field_simp; ring
  rw [e2, e1, e3]
  field_simp
  ring

theorem t2_pos (a θ : ℝ) (ha : 0 < a) : 0 < 1 + (1 - cos θ) * a := by
  have : cos θ ≤ 1 := cos_le_one θ
  have : 0 ≤ (1 - cos θ) * a := mul_nonneg (by linarith) ha.le
  linarith

theorem continuous_integrand (r a : ℝ) (ha : 0 < a) :
    Continuous (fun θ => dcsKN r a θ * (2 * π * sin θ)) := by
  unfold dcsKN
  simp only
  have h : ∀ θ : ℝ, 1 + (1 - cos θ) * a ≠ 0 := fun θ => (t2_pos a θ ha).ne'
  fun_prop (disch := exact h _)

theorem csKN_is_integral (r a : ℝ) (ha : 0 < a) :
    ∫ θ in (0:ℝ)..π, dcsKN r a θ * (2 * π * sin θ) = csKN r a := by
  rw [intervalIntegral.integral_eq_sub_of_hasDerivAt (fun θ _ => hasDerivAt_F r a θ ha)
      ((continuous_integrand r a ha).intervalIntegrable _ _)]
  unfold F G csKN
  simp only [cos_pi, cos_zero]
  have hb : (0:ℝ) < 1 + 2 * a := by linarith
  have e : 1 + a * (1 - -1) = 1 + 2 * a := by ring
  rw [e]
  simp only [sub_self, mul_zero, add_zero, log_one]
  field_simp
  ring

#print axioms csKN_is_integral
