/-! prototype of Core: outcomes, slot, monad -/
inductive UBKind | oob (what : String) | intOverflow | badFnIndex
deriving Repr, DecidableEq
inductive NFKind | divZero | logDomain | sqrtDomain | asinDomain
deriving Repr, DecidableEq

inductive Abort | ub (k : UBKind) | nf (k : NFKind) | overwrite
deriving Repr, DecidableEq

structure Err where
  code : Nat
  msg : String
deriving Repr, DecidableEq

inductive Slot | null | empty | full (e : Err)
deriving Repr, DecidableEq

abbrev M := Except Abort

def M.ub {β} (k : UBKind) : M β := .error (.ub k)
def M.nf {β} (k : NFKind) : M β := .error (.nf k)

def setErr (sl : Slot) (code : Nat) (msg : String) : M Slot :=
  match sl with
  | .null => pure .null
  | .empty => pure (.full ⟨code, msg⟩)
  | .full _ => .error .overwrite

class XTrans (α : Type) where
  exp : α → α
  log : α → α
  sin : α → α
  cos : α → α
  sqrt : α → α
  asin : α → α

instance : XTrans Float := ⟨Float.exp, Float.log, Float.sin, Float.cos, Float.sqrt, Float.asin⟩

section
variable {α : Type} [Add α] [Sub α] [Mul α] [Div α] [Neg α] [LT α] [LE α] [OfScientific α]
  [DecidableLT α] [DecidableLE α] [DecidableEq α] [XTrans α]

def rd1 (name : String) (n : Nat) (f : Nat → α) (i : Int) : M α :=
  if 0 ≤ i ∧ i < n then pure (f i.toNat) else M.ub (.oob name)
def rd2 (name : String) (n m : Nat) (f : Nat → Nat → α) (i j : Int) : M α :=
  if 0 ≤ i ∧ i < n ∧ 0 ≤ j ∧ j < m then pure (f i.toNat j.toNat) else M.ub (.oob name)
def rd1i (name : String) (n : Nat) (f : Nat → Int) (i : Int) : M Int :=
  if 0 ≤ i ∧ i < n then pure (f i.toNat) else M.ub (.oob name)

def ddiv (a b : α) : M α := if b = 0.0 then M.nf .divZero else pure (a / b)
def dlog (a : α) : M α := if a ≤ 0.0 then M.nf .logDomain else pure (XTrans.log a)

end
