#!/usr/bin/env python3
"""Design probe (NOT the framework): translate simple xraylib accessor functions from the clang JSON AST
into Lean `do`-notation over `Except Abort`, to check that the pipeline AST -> Lean def -> lake build works."""
import json, subprocess, sys, re

CLANG = ['clang-14','-I/repo/include','-I/repo/_build','-I/repo/src','-DHAVE_CONFIG_H','-D_GNU_SOURCE',
         '-Xclang','-ast-dump=json','-fsyntax-only']

class Unsupported(Exception): pass

def strip(n):
    while n.get('kind') in ('ImplicitCastExpr','ParenExpr','CStyleCastExpr','ConstantExpr') :
        n = n['inner'][0]
    return n

def qt(n): return n.get('type',{}).get('qualType','')

def lit_float(v):
    f = float(v); r = repr(f)
    if 'e' in r or 'E' in r:
        m,e = r.lower().split('e'); 
        if '.' not in m: m += '.0'
        return f'({m}e{int(e)} : α)'
    if '.' not in r: r += '.0'
    return f'({r} : α)'

class Tr:
    def __init__(self, globals_):
        self.g = globals_      # name -> dims list
        self.tmp = 0
        self.pre = []          # monadic pre-statements for the current expression
    def fresh(self):
        self.tmp += 1; return f't{self.tmp}'
    # --- expressions: returns (leanExpr, isDouble)
    def expr(self, n):
        k = n.get('kind')
        if k in ('ImplicitCastExpr','CStyleCastExpr'):
            inner = n['inner'][0]; ck = n.get('castKind')
            e, d = self.expr(inner)
            if ck == 'IntegralToFloating':
                if strip(inner).get('kind') == 'IntegerLiteral': return (f'({strip(inner)["value"]}.0 : α)', True)
                return (f'(XNum.ofInt {e} : α)', True)
            if ck in ('LValueToRValue','NoOp','IntegralCast','FunctionToPointerDecay','ArrayToPointerDecay'): return (e, d)
            raise Unsupported(f'cast {ck}')
        if k in ('ParenExpr','ConstantExpr'): 
            e,d = self.expr(n['inner'][0]); return (f'({e})', d)
        if k == 'IntegerLiteral': return (f'({n["value"]} : Int)', False)
        if k == 'FloatingLiteral': return (lit_float(n['value']), True)
        if k == 'DeclRefExpr': 
            return (n['referencedDecl']['name'], qt(n) == 'double')
        if k == 'UnaryOperator' and n['opcode'] == '-':
            e,d = self.expr(n['inner'][0]); return (f'(-{e})', d)
        if k == 'BinaryOperator':
            op = n['opcode']; a,da = self.expr(n['inner'][0]); b,db = self.expr(n['inner'][1])
            if op in ('+','-','*'): return (f'({a} {op} {b})', da or db)
            if op in ('<','>','<=','>=','=='):
                lop = {'<':'<','>':'>','<=':'≤','>=':'≥','==':'='}[op]
                return (f'decide ({a} {lop} {b})', False)
            raise Unsupported('binop '+op)
        if k == 'ArraySubscriptExpr':
            idx = []; cur = n
            while strip(cur).get('kind') == 'ArraySubscriptExpr':
                cur = strip(cur); i,_ = self.expr(cur['inner'][1]); idx.insert(0, i); cur = cur['inner'][0]
            base = strip(cur)
            name = base['referencedDecl']['name']
            dims = self.g[name]
            t = self.fresh()
            if len(idx) == 1: self.pre.append(f'let {t} ← rd1 "{name}" {dims[0]} T.{name} {idx[0]}')
            elif len(idx) == 2: self.pre.append(f'let {t} ← rd2 "{name}" {dims[0]} {dims[1]} T.{name} {idx[0]} {idx[1]}')
            else: raise Unsupported('3d')
            return (t, True)
        raise Unsupported(k)
    # --- conditions with short circuit: returns lean Bool expr after emitting monadic pre-statements
    def cond(self, n):
        n0 = strip(n)
        if n0.get('kind') == 'BinaryOperator' and n0['opcode'] in ('||','&&'):
            # short-circuit: build a monadic Bool
            a = self.cond_m(n0['inner'][0]); b = self.cond_m(n0['inner'][1])
            if n0['opcode'] == '||': return f'(do if (← {a}) then pure true else {b})'
            return f'(do if (← {a}) then {b} else pure false)'
        return self.cond_m(n)
    def cond_m(self, n):
        n0 = strip(n)
        if n0.get('kind') == 'BinaryOperator' and n0['opcode'] in ('||','&&'):
            return self.cond(n0)
        save = self.pre; self.pre = []
        e,_ = self.expr(n0)
        pre = self.pre; self.pre = save
        if pre: return '(do ' + '; '.join(pre) + f'; pure ({e}) : M Bool)'
        return f'(pure ({e}) : M Bool)'
    # --- statements
    def stmts(self, ss, ind):
        out = []
        for s in ss: out += self.stmt(s, ind)
        return out
    def stmt(self, s, ind):
        p = ' '*ind; k = s.get('kind')
        if k == 'CompoundStmt': return self.stmts(s.get('inner',[]), ind)
        if k == 'DeclStmt':
            out = []
            for v in s['inner']:
                if 'inner' in v:
                    self.pre = []; e,_ = self.expr(v['inner'][0])
                    out += [p+x for x in self.pre] + [p+f'let mut {v["name"]} := {e}']
                else:
                    init = '(0.0 : α)' if qt(v)=='double' else '(0 : Int)'
                    out.append(p+f'let mut {v["name"]} := {init}')
            return out
        if k == 'IfStmt':
            c = self.cond(s['inner'][0])
            out = [p+f'if (← {c}) then']
            out += self.stmt(s['inner'][1], ind+2) or [p+'  pure ()']
            if len(s['inner']) > 2:
                out.append(p+'else'); out += self.stmt(s['inner'][2], ind+2)
            return out
        if k == 'ReturnStmt':
            self.pre = []; e,d = self.expr(s['inner'][0])
            return [p+x for x in self.pre] + [p+f'return ({e}, error)']
        if k == 'BinaryOperator' and s['opcode'] == '=':
            lhs = strip(s['inner'][0]); self.pre = []; e,_ = self.expr(s['inner'][1])
            return [p+x for x in self.pre] + [p+f'{lhs["referencedDecl"]["name"]} := {e}']
        if k == 'CallExpr':
            callee = strip(s['inner'][0])['referencedDecl']['name']
            if callee == 'xrl_set_error_literal':
                msg = strip(s['inner'][3])['value']
                return [p+f'error ← setErr error 1 {msg}']
            raise Unsupported('call '+callee)
        raise Unsupported('stmt '+str(k))

def translate(cfile, fnames):
    d = json.loads(subprocess.run(CLANG+[cfile], capture_output=True, text=True).stdout)
    globs = {}
    for n in d['inner']:
        if n.get('kind') == 'VarDecl':
            m = re.findall(r'\[(\d+)\]', qt(n))
            if m: globs[n['name']] = [int(x) for x in m]
    out = []
    for n in d['inner']:
        if n.get('kind') == 'FunctionDecl' and n.get('name') in fnames:
            body = [c for c in n.get('inner',[]) if c.get('kind') == 'CompoundStmt']
            if not body: continue
            params = [c for c in n['inner'] if c.get('kind') == 'ParmVarDecl']
            ps = ' '.join(f'({q["name"]} : {"α" if qt(q)=="double" else "Int"})' for q in params if q['name'] != 'error')
            tr = Tr(globs)
            lines = tr.stmts(body[0]['inner'], 2)
            out.append(f'def {n["name"]} (T : Tables α) {ps} (error : Slot) : M (α × Slot) := do\n  let mut error := error\n' + '\n'.join(lines) + '\n')
    return out

if __name__ == '__main__':
    jobs = [('/repo/src/edges.c',['EdgeEnergy']), ('/repo/src/atomicweight.c',['AtomicWeight']),
            ('/repo/src/fluor_yield.c',['FluorYield']), ('/repo/src/jump.c',['JumpFactor']),
            ('/repo/src/coskron.c',['CosKronTransProb']), ('/repo/src/atomiclevelwidth.c',['AtomicLevelWidth']),
            ('/repo/src/densities.c',['ElementDensity']), ('/repo/src/auger_trans.c',['AugerRate','AugerYield'])]
    defs=[]
    for f,names in jobs: defs += translate(f,names)
    body='\n'.join(defs)
    tabs=sorted(set(re.findall(r'T\.(\w+)', body)))
    def ty(name): return 'Nat → Nat → α' if re.search(r'rd2 "%s"'%name, body) else 'Nat → α'
    print('import Lk.Core3\n\nnamespace Gen\nstructure Tables (α : Type) where')
    for t in tabs: print(f'  {t} : {ty(t)}')
    print('\nsection\nvariable {α : Type} [Add α] [Sub α] [Mul α] [Div α] [Neg α] [LT α] [LE α] [OfScientific α]\n  [DecidableLT α] [DecidableLE α] [DecidableEq α] [XTrans α]\n')
    print(body)
    print('end\nend Gen')
