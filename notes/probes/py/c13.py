import ctypes, math
L=ctypes.CDLL('/repo/_build/src/libxrl.so')
class Cx(ctypes.Structure): _fields_=[('re',ctypes.c_double),('im',ctypes.c_double)]
class Atom(ctypes.Structure): _fields_=[('Z',ctypes.c_int),('fraction',ctypes.c_double),('x',ctypes.c_double),('y',ctypes.c_double),('z',ctypes.c_double)]
class Cr(ctypes.Structure): _fields_=[('name',ctypes.c_char_p),('a',ctypes.c_double),('b',ctypes.c_double),('c',ctypes.c_double),('alpha',ctypes.c_double),('beta',ctypes.c_double),('gamma',ctypes.c_double),('volume',ctypes.c_double),('n_atom',ctypes.c_int),('atom',ctypes.POINTER(Atom))]
L.Crystal_GetCrystal.restype=ctypes.POINTER(Cr); L.Crystal_GetCrystal.argtypes=[ctypes.c_char_p,ctypes.c_void_p,ctypes.c_void_p]
L.Crystal_GetCrystalsList.restype=ctypes.POINTER(ctypes.c_char_p); L.Crystal_GetCrystalsList.argtypes=[ctypes.c_void_p,ctypes.POINTER(ctypes.c_int),ctypes.c_void_p]
P=L.Crystal_F_H_StructureFactor_Partial; P.restype=Cx; P.argtypes=[ctypes.POINTER(Cr),ctypes.c_double,ctypes.c_int,ctypes.c_int,ctypes.c_int,ctypes.c_double,ctypes.c_double,ctypes.c_int,ctypes.c_int,ctypes.c_int,ctypes.c_void_p]
D=L.Crystal_dSpacing; D.restype=ctypes.c_double; D.argtypes=[ctypes.POINTER(Cr),ctypes.c_int,ctypes.c_int,ctypes.c_int,ctypes.c_void_p]
V=L.Crystal_UnitCellVolume; V.restype=ctypes.c_double; V.argtypes=[ctypes.POINTER(Cr),ctypes.c_void_p]
B=L.Bragg_angle; B.restype=ctypes.c_double; B.argtypes=[ctypes.POINTER(Cr),ctypes.c_double,ctypes.c_int,ctypes.c_int,ctypes.c_int,ctypes.c_void_p]
n=ctypes.c_int(); lst=L.Crystal_GetCrystalsList(None,ctypes.byref(n),None)
names=[lst[i] for i in range(n.value)]
print(n.value, names[:5])
worst=dict(add=0,friedel=0,zero=0,vol=0,inv=0,scale=0,bragg=0); nanb=0
for nm in names:
    c=L.Crystal_GetCrystal(nm,None,None)
    cr=c.contents
    worst['vol']=max(worst['vol'],abs(V(c,None)-cr.volume)/cr.volume)
    for (h,k,l) in [(1,1,1),(2,0,-1),(3,1,2),(-1,4,0)]:
        for E in (8.0,25.0):
            f=lambda a,b,cc,hh=h,kk=k,ll=l: P(c,E,hh,kk,ll,0.9,1.0,a,b,cc,None)
            full=f(2,2,2); s=[f(2,0,0),f(0,2,0),f(0,0,2)]
            worst['add']=max(worst['add'],abs(full.re-sum(x.re for x in s))+abs(full.im-sum(x.im for x in s)))
            a=P(c,E,h,k,l,0.9,1.0,2,2,0,None); b=P(c,E,-h,-k,-l,0.9,1.0,2,2,0,None)
            worst['friedel']=max(worst['friedel'],abs(a.re-b.re)+abs(a.im+b.im))
        d=D(c,h,k,l,None); worst['inv']=max(worst['inv'],abs(d-D(c,-h,-k,-l,None))/d)
        worst['scale']=max(worst['scale'],abs(d/3-D(c,3*h,3*k,3*l,None))/d)
        for E in (0.3,8.0,25.0):
            th=B(c,E,h,k,l,None)
            if th!=th: nanb+=1
            else: worst['bragg']=max(worst['bragg'],abs(2*d*math.sin(th)-12.39841930/E))
    z=P(c,8.0,0,0,0,0.9,1.0,2,0,0,None)
    tot=sum(cr.atom[i].fraction*cr.atom[i].Z for i in range(cr.n_atom))*0.9
    worst['zero']=max(worst['zero'],abs(z.re-tot)+abs(z.im))
print(worst,'NaN bragg:',nanb)
