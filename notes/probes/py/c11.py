import re,collections
src=open('/repo/src/pr_data.c').read()
xv=open('/repo/src/xrayvars.c').read()
names=re.findall(r'"([^"]+)"',re.search(r'char AugerName\[\]\[9\] = \{(.*?)\};',xv,re.S).group(1))
def parts(n):
    init,fin=n.split('-'); hs=re.findall(r'[KLMNOPQ]\d?',fin); return init,hs
def isCK(n):
    init,hs=parts(n)
    return any(h[0]==init[0] for h in hs)   # a final hole in the same principal shell
# AugerYield2_prdata lists
y2=re.search(r'static double AugerYield2_prdata.*?\n}\n',src,re.S).group(0)
blocks=re.split(r'(?:else )?if \(shell == (\w+)_SHELL\) \{',y2)
for i in range(1,len(blocks),2):
    sh=blocks[i]; lst=[m.replace('_','-',1) for m in re.findall(r'Individual\[Z\]\[(\w+)_AUGER\]',blocks[i+1])]
    spec=[n for n in names if parts(n)[0]==sh and isCK(n)]
    print('Yield2',sh,'code',len(lst),'spec',len(spec),'code-only',sorted(set(lst)-set(spec))[:8],'spec-only',sorted(set(spec)-set(lst))[:40], 'dups', [k for k,v in collections.Counter(lst).items() if v>1])
# shells with no block
for sh in ['K','L3','M5']:
    print(sh,'CK spec count',len([n for n in names if parts(n)[0]==sh and isCK(n)]))
ar=re.search(r'static double AugerRate_prdata.*?\n}\n',src,re.S).group(0)
cases=[m.replace('_','-',1) for m in re.findall(r'case (\w+)_AUGER:',ar)]
spec=[n for n in names if isCK(n)]
print('Rate switch: code',len(cases),'spec',len(spec),'code-only',sorted(set(cases)-set(spec))[:10],'spec-only',sorted(set(spec)-set(cases))[:60])
# bucket boundaries
print(re.findall(r'auger_trans < (\w+)',ar))
inits=[parts(n)[0] for n in names]
first={}
for i,s in enumerate(inits): first.setdefault(s,i)
print(first, names[-1])
