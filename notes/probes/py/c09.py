import ctypes, math, itertools
L=ctypes.CDLL('/repo/_build/src/libxrl.so')
def F(name,args):
    f=getattr(L,name); f.restype=ctypes.c_double; f.argtypes=args+[ctypes.c_void_p]; return lambda *a: f(*a,None)
ii=[ctypes.c_int,ctypes.c_int]; iid=[ctypes.c_int,ctypes.c_int,ctypes.c_double]
Edge=F('EdgeEnergy',ii); Jump=F('JumpFactor',ii); CK=F('CosKronTransProb',ii); FY=F('FluorYield',ii); RR=F('RadRate',ii)
Photo=F('CS_Photo',[ctypes.c_int,ctypes.c_double]); FS=F('CS_FluorShell',iid); FL=F('CS_FluorLine',iid)
K,L1,L2,L3=0,1,2,3
bad_order=[]
for Z in range(1,121):
    e=[Edge(Z,s) for s in (K,L1,L2,L3)]
    pres=[x for x in e if x>0]
    if any(pres[i]<=pres[i+1] for i in range(len(pres)-1)): bad_order.append((Z,e))
    # gaps: L2 present but L1 absent etc
    if (e[1]==0 and (e[2]>0 or e[3]>0)) or (e[2]==0 and e[3]>0): bad_order.append((Z,'gap',e))
print('edge order problems:',bad_order[:10])
def spec_shell(Z,sh,E):
    e=[Edge(Z,s) for s in (K,L1,L2,L3)]; J=[Jump(Z,s) for s in (K,L1,L2,L3)]
    f12,f13,fp13,f23=CK(Z,1),CK(Z,2),CK(Z,3),CK(Z,4)
    w=FY(Z,sh); ph=Photo(Z,E)
    def above(s): return e[s]>0 and E>e[s]
    def tau(s):
        if not above(s): return 0.0
        if J[s]==0: return None
        t=(J[s]-1)/J[s]
        for sp in range(s):
            if above(sp):
                if J[sp]==0: return None
                t/=J[sp]
        return t
    if not above(sh): return 0.0
    t=[tau(s) for s in range(4)]
    if sh==K: V=t[K]
    elif sh==L1: V=t[L1]
    elif sh==L2:
        if t[L2] is None or t[L1] is None: return 0.0
        if t[L1]>0 and f12==0: return 0.0
        V=t[L2]+f12*t[L1]
    else:
        if any(x is None for x in t[1:]): return 0.0
        if t[L2]>0 and f23==0: return 0.0
        if t[L1]>0 and (f13+fp13==0 or f12==0 or f23==0): return 0.0
        V=t[L3]+f23*t[L2]+(f13+fp13+f12*f23)*t[L1]
    if V is None or w==0 or ph==0: return 0.0
    return ph*V*w
n=0; mism=[]
for Z in range(1,101):
    es=[Edge(Z,s) for s in range(4)]
    Es=set()
    for x in es:
        if x>0: Es.update([x*(1-1e-9),x,x*(1+1e-9),x*1.3,x*0.9])
    Es.update([1.0,5.0,30.0,150.0])
    for sh in range(4):
        for E in sorted(Es):
            a=FS(Z,sh,E); b=spec_shell(Z,sh,E); n+=1
            if abs(a-b)>1e-12*max(abs(a),abs(b),1e-300): mism.append((Z,sh,E,a,b))
print('cases',n,'mismatches',len(mism)); print(mism[:12])
