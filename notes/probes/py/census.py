import json,subprocess,sys,collections,os
FILES="atomicweight auger_trans coskron cross_sections crystal_diffraction fi fii fluor_yield radrate scattering splint atomiclevelwidth comptonprofiles cs_barns cs_cp cs_line densities edges fluor_lines jump kissel_pe polarized refractive_indices xrf_cross_sections_aux xrf_cross_sections_aux-private pr_data xraylib-parser xraylib-nist-compounds xraylib-radionuclides xraylib-error xrayfiles".split()
stmt_ok={'CompoundStmt','DeclStmt','IfStmt','ReturnStmt','ForStmt','SwitchStmt','CaseStmt','DefaultStmt','BreakStmt','ContinueStmt','NullStmt'}
expr_ok={'BinaryOperator','UnaryOperator','CompoundAssignOperator','ImplicitCastExpr','CStyleCastExpr','DeclRefExpr','IntegerLiteral','FloatingLiteral','ArraySubscriptExpr','CallExpr','ParenExpr','ConditionalOperator','StringLiteral','MemberExpr','InitListExpr','VarDecl','UnaryExprOrTypeTraitExpr','ConstantExpr'}
L2=set("atomicweight auger_trans coskron cross_sections fi fii fluor_yield radrate scattering atomiclevelwidth comptonprofiles cs_barns cs_cp cs_line densities edges fluor_lines jump kissel_pe polarized refractive_indices xrf_cross_sections_aux xrf_cross_sections_aux-private".split())
report={}
for f in FILES:
    out=subprocess.run(['clang-14','-I/repo/include','-I/repo/_build','-I/repo/src','-DHAVE_CONFIG_H','-D_GNU_SOURCE','-Xclang','-ast-dump=json','-fsyntax-only','/repo/src/%s.c'%f],capture_output=True,text=True).stdout
    d=json.loads(out)
    curfile=None
    for n in d['inner']:
        loc=n.get('loc',{})
        if 'file' in loc: curfile=loc['file']
        elif 'spellingLoc' in loc and 'file' in loc['spellingLoc']: curfile=loc['spellingLoc']['file']
        if n.get('kind')!='FunctionDecl': continue
        body=[c for c in n.get('inner',[]) if c.get('kind')=='CompoundStmt']
        if not body: continue
        if not (curfile or '').endswith('/src/%s.c'%f): continue
        kinds=collections.Counter(); odd=collections.Counter(); ext=set(); unops=collections.Counter()
        def walk(x):
            k=x.get('kind'); kinds[k]+=1
            if k not in stmt_ok and k not in expr_ok: odd[k]+=1
            if k=='UnaryOperator': unops[x.get('opcode')]+=1
            if k=='CallExpr':
                # callee
                c=x['inner'][0]
                while c.get('kind') in ('ImplicitCastExpr','ParenExpr'): c=c['inner'][0]
                if c.get('kind')=='DeclRefExpr': ext.add(c['referencedDecl']['name'])
                else: ext.add('<indirect:%s>'%c.get('kind'))
            for c in x.get('inner',[]): walk(c)
        walk(body[0])
        report[(f,n['name'])]=(kinds,odd,ext,unops)
allfuncs=set(name for (_,name) in report)
print("functions with bodies:",len(report))
# L2 summary
oddL2=collections.Counter(); extL2=collections.Counter(); unL2=collections.Counter()
for (f,name),(kinds,odd,ext,unops) in report.items():
    if f in L2 or (f=='pr_data' and name in('AugerYield_prdata','AugerYield2_prdata','AugerRate_prdata')) or (f=='crystal_diffraction' and name in ('c_abs','c_mul','Bragg_angle','Q_scattering_amplitude','Atomic_Factors','Crystal_F_H_StructureFactor','Crystal_F_H_StructureFactor2','Crystal_F_H_StructureFactor_Partial','Crystal_F_H_StructureFactor_Partial2','Crystal_UnitCellVolume','Crystal_dSpacing')) or f=='splint':
        for k,v in odd.items(): oddL2[(k,f,name)]+=v
        for e in ext:
            if e not in allfuncs: extL2[e]+=1
        for k,v in unops.items(): unL2[k]+=v
print("L2 odd node kinds:"); 
for k,v in sorted(oddL2.items(), key=lambda kv: str(kv[0])): print("  ",k,v)
print("L2 external callees:",dict(extL2))
print("L2 unary ops:",dict(unL2))
n=sum(1 for (f,name) in report if f in L2)
print("L2 function count",n)
