import re,collections
src=open('/repo/src/xrf_cross_sections_aux-private.c').read()
xv=open('/repo/src/xrayvars.c').read()
names=re.findall(r'"([^"]+)"',re.search(r'char AugerName\[\]\[9\] = \{(.*?)\};',xv,re.S).group(1))
shells=['K','L1','L2','L3','M1','M2','M3','M4','M5']
def holes(n):
    init,fin=n.split('-')
    hs=re.findall(r'[KLMNOPQ]\d?',fin)
    return init,hs
funcs=re.findall(r'double (P(\w\d)_get_cross_sections_constant_(\w+))\(int Z, int shell\) \{(.*?)\n\}',src,re.S)
bad=0
for fname,target,kind,body in funcs:
    # split by 'if (shell == X_SHELL)'
    parts=re.split(r'(?:else )?if \(shell == (\w+)_SHELL\) \{',body)
    for i in range(1,len(parts),2):
        source=parts[i]; blk=parts[i+1]
        terms=collections.Counter()
        for m in re.finditer(r'(?:(\d+)\s*\*\s*)?AugerRate\(Z,\s*(\w+)_AUGER',blk):
            terms[m.group(2).replace('_','-',1)]+=int(m.group(1) or 1)
        spec=collections.Counter()
        for n in names:
            init,hs=holes(n)
            if init==source:
                c=hs.count(target)
                if c: spec[n]+=c
        rad=re.findall(r'FluorYield\(Z, (\w+)_SHELL, NULL\) \* RadRate\(Z, (\w+)_LINE',blk)
        ay=re.findall(r'AugerYield\(Z, (\w+)_SHELL',blk)
        ok = terms==spec
        if not ok:
            bad+=1
            print(fname,source,'MISMATCH: code-only',dict(terms-spec),'spec-only',dict(spec-terms))
        if kind=='full' and (not rad or rad[0]!=(source,source+target)): print(fname,source,'rad term',rad)
        if ay!=[source]: print(fname,source,'augeryield',ay)
print('functions',len(funcs),'mismatches',bad)
