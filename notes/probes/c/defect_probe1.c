#include <stdio.h>
#include <math.h>
#include "xraylib.h"
int main(){
  xrl_error *e=NULL;
  struct compoundData *cd = CompoundParser("Rf", &e);
  printf("Rf: cd=%p err=%s\n", (void*)cd, e?e->message:"(none)");
  if(cd){printf(" n=%d mf0=%g molar=%g\n", cd->nElements, cd->massFractions[0], cd->molarMass);}
  xrl_clear_error(&e);
  cd = CompoundParser("RfO2", &e);
  printf("RfO2: cd=%p err=%s\n", (void*)cd, e?e->message:"(none)");
  if(cd){printf(" n=%d mf0=%g mf1=%g molar=%g\n", cd->nElements, cd->massFractions[0], cd->massFractions[1], cd->molarMass);}
  xrl_clear_error(&e);
  double v = LineEnergy(82, L3P23_LINE, &e); printf("L3P23 Pb=%g err=%s\n", v, e?e->message:"-"); xrl_clear_error(&e);
  printf("L3O45 Pb=%g L3P2=%g L3P3=%g\n", LineEnergy(82,L3O45_LINE,NULL), LineEnergy(82,L3P2_LINE,NULL), LineEnergy(82,L3P3_LINE,NULL));
  v = ElectronConfig(26, K_SHELL, &e); printf("ElectronConfig Fe K=%g err=%s\n", v, e?e->message:"-"); xrl_clear_error(&e);
  v = CS_Photo_Partial(26, K_SHELL, 10.0, &e); printf("CS_Photo_Partial=%g err=%s\n", v, e?e->message:"-"); xrl_clear_error(&e);
  v = CS_Total_Kissel(26, 10.0, &e); printf("CS_Total_Kissel=%g err=%s\n", v, e?e->message:"-"); xrl_clear_error(&e);
  v = CS_FluorLine_Kissel(26, KL3_LINE, 10.0, &e); printf("CS_FluorLine_Kissel=%g err=%s\n", v, e?e->message:"-"); xrl_clear_error(&e);
  v = CS_Photo(26, 1e3*(1+1e-9), &e); printf("CS_Photo(26,1000(1+1e-9))=%.15g err=%s\n", v, e?e->message:"-"); xrl_clear_error(&e);
  v = CS_Photo(26, 1e3, &e); printf("CS_Photo(26,1000)=%.15g err=%s\n", v, e?e->message:"-"); xrl_clear_error(&e);
  v = CS_Photo(26, 1.0, &e); printf("CS_Photo(26,1)=%.15g err=%s\n", v, e?e->message:"-"); xrl_clear_error(&e);
  v = CS_Photo(26, 0.1, &e); printf("CS_Photo(26,0.1)=%.15g err=%s\n", v, e?e->message:"-"); xrl_clear_error(&e);
  return 0;
}
