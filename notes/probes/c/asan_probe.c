#include <stdio.h>
#include <stdlib.h>
#include <string.h>
#include <limits.h>
#include "xraylib.h"
double ElectronConfig_Biggs(int Z, int shell, xrl_error **error);
int main(int argc, char**argv){
  int t = atoi(argv[1]);
  xrl_error *e=NULL;
  if (t==1) printf("%g\n", ElectronConfig_Biggs(26, -1, &e));
  if (t==2) printf("%g\n", LineEnergy(26, INT_MIN, &e));
  if (t==3) { Crystal_Array *a = Crystal_ArrayInit(1,&e); Crystal_Struct *c = Crystal_GetCrystal("Si", NULL, &e);
     free(c->name); c->name=strdup("A1"); printf("add1 %d\n", Crystal_AddCrystal(c,a,&e));
     free(c->name); c->name=strdup("A2"); printf("add2 %d\n", Crystal_AddCrystal(c,a,&e));
     Crystal_Struct *g = Crystal_GetCrystal("A2", a, &e); printf("get %p\n",(void*)g); }
  if (t==4) { Crystal_Struct *c = Crystal_GetCrystal("Si", NULL, &e); printf("%g\n", Bragg_angle(c, 0.5, 1,1,1,&e)); printf("err=%p\n",(void*)e);}
  if (t==5) { xrlComplex z = Crystal_F_H_StructureFactor(NULL, 10.0, 0,0,0, 1.0, 1.0, &e); printf("%g\n", z.re);}
  if (t==6) { printf("%g\n", Refractive_Index_Re("H2O", -1.0, 1.0, &e)); printf("err=%s\n", e?e->message:"-"); xrl_clear_error(&e);}
  if (t==7) { struct compoundData *cd = CompoundParser("Uu", &e); printf("%p %s\n",(void*)cd, e?e->message:"-"); xrl_clear_error(&e);}
  if (t==8) { struct compoundDataNIST *c = GetCompoundDataNISTByName(NULL, &e); printf("%p %s\n",(void*)c, e?e->message:"-"); xrl_clear_error(&e);}
  if (t==9) { Crystal_Array *a = Crystal_ArrayInit(0,&e); Crystal_Struct *c = Crystal_GetCrystal("Si", NULL, &e);
     printf("add1 %d\n", Crystal_AddCrystal(c,a,&e)); Crystal_Free(c); Crystal_ArrayFree(a);}
  return 0;
}
