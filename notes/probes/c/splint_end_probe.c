#include <stdio.h>
#include <math.h>
#include "xraylib.h"
int main(){
  /* find upper end of CS_Rayl table for Fe by bisection on error */
  double lo=1.0, hi=1e7; 
  for(int i=0;i<200;i++){ double mid=sqrt(lo*hi); if (CS_Rayl(26,mid,NULL)>0) lo=mid; else hi=mid; }
  printf("largest accepted E for CS_Rayl(26): %.17g  ln(1000E)=%.17g\n", lo, log(lo*1000));
  double x=1e6/1000.0; /* guess: last knot = ln(1e6 eV)? */
  for (double E=800; E<=1001; E+=100) printf("E=%g -> %g\n",E,CS_Rayl(26,E,NULL));
  xrl_error *e=NULL;
  double Eknot=exp(13.815510558)/1000.0;
  printf("exp(13.815510558)/1000=%.17g CS=%.17g\n",Eknot, CS_Rayl(26,Eknot,&e)); if(e){printf("err %s\n",e->message); xrl_clear_error(&e);}
  double E2=Eknot*(1+5e-8);
  printf("E2=%.17g CS=%.17g\n",E2, CS_Rayl(26,E2,&e)); if(e){printf("err %s\n",e->message); xrl_clear_error(&e);}
  double E3=Eknot*(1+2e-7);
  printf("E3=%.17g CS=%.17g\n",E3, CS_Rayl(26,E3,&e)); if(e){printf("err %s\n",e->message); xrl_clear_error(&e);}
  return 0;}
