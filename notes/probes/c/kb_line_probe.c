#include <stdio.h>
#include "xraylib.h"
int main(){
  for (int Z=48; Z<=60; Z+=4) printf("Z=%d KB=%g KM2=%g KN3=%g KO(energy)=%g KO rate=%g KB rate=%g\n", Z, LineEnergy(Z,KB_LINE,NULL), LineEnergy(Z,KM2_LINE,NULL), LineEnergy(Z,KN3_LINE,NULL), LineEnergy(Z,KO_LINE,NULL), RadRate(Z,KO_LINE,NULL), RadRate(Z,KB_LINE,NULL));
  return 0;}
