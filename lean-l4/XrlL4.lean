import XrlL4.Table
