/-
  C15, "every lookup returns an independent deep copy": a pointer-level model in which sharing CAN be expressed.

  The lookup functions of the two catalogue modules (src/xraylib-nist-compounds.c: GetCompoundDataNISTByName / ByIndex,
  FreeCompoundDataNIST; src/xraylib-radionuclides.c: GetRadioNuclideDataByName / ByIndex, FreeRadioNuclideData) are
  straight-line code on their success path: a struct is allocated and every member is either assigned from the static
  entry, duplicated with `xrl_strdup`, or allocated with `malloc` and filled with `memcpy`.  tools/c15_copy.py
  transliterates these statements from the clang AST of the working tree into `Step` lists (`Gen/C15Copy.lean`), together
  with the member lists of the two structs and the statements of the two `Free…` functions.

  Here:
  * `classify` says, member by member, what such a statement list does to the member: scalar copy, string duplicate, deep
    array copy (allocation and `memcpy` of the SAME element type and the SAME count member), pointer assignment
    (`shared`), nothing (`missing`) or something else (`broken`);
  * the heap is a list of cells (arrays and structs are separate cells, a freed cell is a tombstone, the static catalogue
    lives below `nstatic` and must not be released); `copyRec` executes a classification on it: a deep member gets a fresh
    cell, a `shared` member gets the POINTER of the static entry;
  * theorems, for ANY heap, ANY static entry and ANY classification in which every member is scalar / duplicated / deep
    (`AllDeep`): the copy leaves every existing cell as it was (`copy_frame`), every pointer in the new struct points to
    a cell that did not exist before, all different (`copy_fresh`), overwriting or releasing cells that did not exist before
    cannot change an existing one (`write_above`, `free_above`), and the `Free…` function releases exactly the new cells
    without touching a static one (`free_releases`); with one `shared` member the release is undefined behaviour
    (`shared_member_breaks`: the model does express sharing).
  Props/C15.lean instantiates this on the extracted statement lists (`decide`): replacing the deep copy of one member by a
  pointer assignment in the C makes `AllDeep (classify …)` false.

  Core Lean only.
-/
namespace XrlL4
namespace Copy

/-! ### what was extracted -/

/-- a statement of the success path of a lookup function; `src` is the static entry (`compoundDataNISTList[i]` or `rv->`) -/
inductive Step where
  | allocSelf (struct : String)                              -- key = malloc(sizeof(struct S))
  | strdup (f g : String)                                    -- key->f = xrl_strdup(src.g)
  | assign (f g : String)                                    -- key->f = src.g
  | malloc (f elem count : String)                           -- key->f = malloc(sizeof(elem) * src.count)
  | memcpy (f g elem count : String)                         -- memcpy(key->f, src.g, sizeof(elem) * src.count)
  | other (text : String)                                    -- anything else on the success path
  deriving DecidableEq, Repr

inductive FreeStep where
  | field (f : String)                                       -- free(p->f)
  | self                                                     -- free(p)
  | other (text : String)
  deriving DecidableEq, Repr

/-- member types of the struct declaration -/
inductive FieldTy where
  | int | dbl
  | str                                                      -- char *
  | arr (elem : String)                                      -- int * / double *
  deriving DecidableEq, Repr

/-- what a statement list does to one member -/
inductive Kind where
  | scalar
  | dupStr
  | deepArr (count : String)
  | shared
  | missing
  | broken
  deriving DecidableEq, Repr

def Step.target : Step → Option String
  | .strdup f _ | .assign f _ | .malloc f _ _ | .memcpy f _ _ _ => some f
  | _ => none

def kindOf (fields : List (String × FieldTy)) (steps : List Step) (f : String) (ty : FieldTy) : Kind :=
  match ty, steps.filter (fun s => s.target == some f) with
  | _, [] => .missing
  | .int, [.assign _ g] => if g == f then .scalar else .broken
  | .dbl, [.assign _ g] => if g == f then .scalar else .broken
  | .str, [.strdup _ g] => if g == f then .dupStr else .broken
  | .str, [.assign _ _] => .shared
  | .arr e, [.malloc _ e1 c1, .memcpy _ g e2 c2] =>
      if g == f && e1 == e && e2 == e && c1 == c2 && fields.lookup c1 == some .int then .deepArr c1 else .broken
  | .arr _, [.assign _ _] => .shared
  | _, _ => .broken

/-- the classification of a lookup function: one kind per member of the struct, in declaration order; `none` when the
statement list does not start with the allocation of the struct or contains a statement of an unknown form -/
def classify (struct : String) (fields : List (String × FieldTy)) (steps : List Step) : Option (List (String × Kind)) :=
  match steps with
  | .allocSelf s :: rest =>
      if s == struct && rest.all (fun st => st.target.isSome) then some (fields.map (fun (f, ty) => (f, kindOf fields rest f ty)))
      else none
  | _ => none

def Kind.isDeep : Kind → Bool
  | .scalar | .dupStr | .deepArr _ => true
  | _ => false

def AllDeep (ks : List (String × Kind)) : Bool := ks.all (fun k => k.2.isDeep)

/-- the `Free…` function releases every pointer member once, then the struct -/
def FreeMatches (fields : List (String × FieldTy)) (frees : List FreeStep) : Bool :=
  frees == (fields.filterMap (fun (f, ty) => match ty with | .str | .arr _ => some (FreeStep.field f) | _ => none)) ++ [.self]

/-! ### the heap -/

inductive Val where
  | num (v : Int)
  | ptr (a : Nat)
  deriving DecidableEq, Repr

inductive Cell where
  | arr (xs : List Int)                    -- an array of scalars (a string: its characters)
  | struct (fs : List (String × Val))      -- a struct
  deriving DecidableEq, Repr

/-- `none`: released -/
abbrev Heap := List (Option Cell)

def read (h : Heap) (a : Nat) : Option Cell := (h[a]?).join
def alloc (h : Heap) (c : Cell) : Heap × Nat := (h ++ [some c], h.length)
def write (h : Heap) (a : Nat) (c : Cell) : Heap := h.set a (some c)
/-- `free`: undefined (`none`) for a static object and for a cell that is not live -/
def free (nstatic : Nat) (h : Heap) (a : Nat) : Option Heap :=
  if a < nstatic then none else
  match read h a with
  | some _ => some (h.set a none)
  | none => none

/-- copy one member of the static entry `src` (its members: `sf`) -/
def copyField (h : Heap) (sf : List (String × Val)) (f : String) : Kind → Option (Heap × Val)
  | .scalar =>
      match sf.lookup f with
      | some (.num n) => some (h, .num n)
      | _ => none
  | .shared => (sf.lookup f).map (fun v => (h, v))
  | .dupStr =>
      match sf.lookup f with
      | some (.ptr p) =>
        match read h p with
        | some (.arr xs) => let (h', a) := alloc h (.arr xs); some (h', .ptr a)
        | _ => none
      | _ => none
  | .deepArr c =>
      match sf.lookup f, sf.lookup c with
      | some (.ptr p), some (.num n) =>
        match read h p with
        | some (.arr xs) => if n.toNat ≤ xs.length then let (h', a) := alloc h (.arr (xs.take n.toNat)); some (h', .ptr a) else none
        | _ => none
      | _, _ => none
  | .missing => none
  | .broken => none

def copyFields (sf : List (String × Val)) : List (String × Kind) → Heap → Option (Heap × List (String × Val))
  | [], h => some (h, [])
  | (f, k) :: ks, h =>
      match copyField h sf f k with
      | none => none
      | some (h1, v) =>
        match copyFields sf ks h1 with
        | none => none
        | some (h2, vs) => some (h2, (f, v) :: vs)

/-- a lookup: the members are copied, then the struct is stored in a new cell whose address is returned.
(The C allocates the struct first; cells are separate, so the order of allocation does not matter for what follows.) -/
def copyRec (ks : List (String × Kind)) (h : Heap) (src : Nat) : Option (Heap × Nat) :=
  match read h src with
  | some (.struct sf) =>
    match copyFields sf ks h with
    | some (h1, vs) => some (alloc h1 (.struct vs))
    | none => none
  | _ => none

/-! ### theorems -/

theorem read_alloc_lt (h : Heap) (c : Cell) {a : Nat} (ha : a < h.length) : read (alloc h c).1 a = read h a := by
  simp [read, alloc, List.getElem?_append_left ha]

theorem read_alloc_self (h : Heap) (c : Cell) : read (alloc h c).1 (alloc h c).2 = some c := by
  simp [read, alloc]

theorem length_alloc (h : Heap) (c : Cell) : (alloc h c).1.length = h.length + 1 := by simp [alloc]

/-- overwriting a cell changes no other cell -/
theorem write_above (h : Heap) (a b : Nat) (c : Cell) (hne : a ≠ b) : read (write h a c) b = read h b := by
  simp [read, write, List.getElem?_set_ne hne]

/-- releasing a cell changes no other cell -/
theorem free_above {ns : Nat} {h h' : Heap} {a : Nat} (hf : free ns h a = some h') (b : Nat) (hne : a ≠ b) : read h' b = read h b := by
  unfold free at hf
  split at hf
  · cases hf
  · split at hf
    · injection hf with hf; subst hf; simp [read, List.getElem?_set_ne hne]
    · cases hf

theorem free_length {ns : Nat} {h h' : Heap} {a : Nat} (hf : free ns h a = some h') : h'.length = h.length := by
  unfold free at hf
  split at hf
  · cases hf
  · split at hf
    · injection hf with hf; subst hf; simp
    · cases hf

/-- a copied member only appends cells -/
theorem copyField_grows {h h' : Heap} {sf : List (String × Val)} {f : String} {k : Kind} {v : Val}
    (hc : copyField h sf f k = some (h', v)) :
    h.length ≤ h'.length ∧ ∀ a, a < h.length → read h' a = read h a := by
  cases k with
  | scalar =>
    simp only [copyField] at hc
    split at hc
    · injection hc with hc; injection hc with h1 _; subst h1
      exact ⟨Nat.le_refl _, fun _ _ => rfl⟩
    · cases hc
  | shared =>
    simp only [copyField, Option.map_eq_some_iff] at hc
    obtain ⟨_, _, hc⟩ := hc
    injection hc with h1 _; subst h1
    exact ⟨Nat.le_refl _, fun _ _ => rfl⟩
  | missing | broken => simp [copyField] at hc
  | dupStr =>
    simp only [copyField] at hc
    split at hc
    · split at hc
      · injection hc with hc; injection hc with h1 _; subst h1
        exact ⟨by simp [alloc], fun a ha => read_alloc_lt h _ ha⟩
      · cases hc
    · cases hc
  | deepArr c =>
    simp only [copyField] at hc
    split at hc
    · split at hc
      · split at hc
        · injection hc with hc; injection hc with h1 _; subst h1
          exact ⟨by simp [alloc], fun a ha => read_alloc_lt h _ ha⟩
        · cases hc
      · cases hc
    · cases hc

/-- a deep member's value is a number, or the address of ONE new cell -/
theorem copyField_fresh {h h' : Heap} {sf : List (String × Val)} {f : String} {k : Kind} {v : Val}
    (hk : k.isDeep = true) (hc : copyField h sf f k = some (h', v)) :
    ∀ p, v = .ptr p → p = h.length ∧ h'.length = h.length + 1 ∧ (read h' p).isSome = true := by
  intro p hp
  cases k with
  | scalar =>
    simp only [copyField] at hc
    split at hc
    · injection hc with hc; injection hc with _ h2; subst h2; cases hp
    · cases hc
  | shared | missing | broken => simp [Kind.isDeep] at hk
  | dupStr =>
    simp only [copyField] at hc
    split at hc
    · split at hc
      · injection hc with hc; injection hc with h1 h2; subst h1; subst h2
        injection hp with hp; subst hp
        exact ⟨rfl, by simp [alloc], by simp [read, alloc]⟩
      · cases hc
    · cases hc
  | deepArr c =>
    simp only [copyField] at hc
    split at hc
    · split at hc
      · split at hc
        · injection hc with hc; injection hc with h1 h2; subst h1; subst h2
          injection hp with hp; subst hp
          exact ⟨rfl, by simp [alloc], by simp [read, alloc]⟩
        · cases hc
      · cases hc
    · cases hc

/-- **the copy leaves every existing cell as it was** (whatever the classification) -/
theorem copyFields_frame {sf : List (String × Val)} : ∀ (ks : List (String × Kind)) (h h' : Heap) (vs : List (String × Val)),
    copyFields sf ks h = some (h', vs) → h.length ≤ h'.length ∧ ∀ a, a < h.length → read h' a = read h a
  | [], h, h', vs, hc => by
      simp only [copyFields, Option.some.injEq, Prod.mk.injEq] at hc
      obtain ⟨rfl, _⟩ := hc
      exact ⟨Nat.le_refl _, fun _ _ => rfl⟩
  | (f, k) :: ks, h, h', vs, hc => by
      simp only [copyFields] at hc
      split at hc
      · cases hc
      · next h1 v h1eq =>
        split at hc
        · cases hc
        · next h2 vs2 h2eq =>
          injection hc with hc; injection hc with e1 _; subst e1
          obtain ⟨g1, g2⟩ := copyField_grows h1eq
          obtain ⟨g3, g4⟩ := copyFields_frame ks h1 h2 vs2 h2eq
          exact ⟨Nat.le_trans g1 g3, fun a ha => by rw [g4 a (Nat.lt_of_lt_of_le ha g1), g2 a ha]⟩

theorem copy_frame {ks : List (String × Kind)} {h h' : Heap} {src key : Nat} (hc : copyRec ks h src = some (h', key)) :
    h.length ≤ key ∧ key < h'.length ∧ ∀ a, a < h.length → read h' a = read h a := by
  unfold copyRec at hc
  split at hc
  · split at hc
    · next h1 vs heq =>
      injection hc with hc; injection hc with e1 e2; subst e1; subst e2
      obtain ⟨g1, g2⟩ := copyFields_frame ks h h1 vs heq
      refine ⟨by simpa [alloc] using g1, by simp [alloc], fun a ha => ?_⟩
      have := read_alloc_lt h1 (.struct vs) (Nat.lt_of_lt_of_le ha g1)
      simp only [alloc] at this ⊢
      rw [this, g2 a ha]
    · cases hc
  · cases hc

/-- the addresses stored in a member list, in member order -/
def ptrsOf : List (String × Val) → List Nat
  | [] => []
  | (_, .ptr p) :: vs => p :: ptrsOf vs
  | (_, .num _) :: vs => ptrsOf vs

/-- strictly increasing addresses in `[lo, hi)` of cells that are live in `h` -/
def Fresh (lo hi : Nat) (h : Heap) (ps : List Nat) : Prop :=
  ps.Pairwise (· < ·) ∧ ∀ p ∈ ps, lo ≤ p ∧ p < hi ∧ (read h p).isSome = true

theorem copyFields_fresh {sf : List (String × Val)} : ∀ (ks : List (String × Kind)) (h h' : Heap) (vs : List (String × Val)),
    AllDeep ks = true → copyFields sf ks h = some (h', vs) → Fresh h.length h'.length h' (ptrsOf vs)
  | [], h, h', vs, _, hc => by
      simp only [copyFields, Option.some.injEq, Prod.mk.injEq] at hc
      obtain ⟨rfl, rfl⟩ := hc
      exact ⟨List.Pairwise.nil, fun p hm => by cases hm⟩
  | (f, k) :: ks, h, h', vs, hd, hc => by
      simp only [copyFields] at hc
      split at hc
      · cases hc
      · next h1 v h1eq =>
        split at hc
        · cases hc
        · next h2 vs2 h2eq =>
          injection hc with hc; injection hc with e1 e2; subst e1; subst e2
          have hd' : k.isDeep = true ∧ AllDeep ks = true := by simpa [AllDeep] using hd
          obtain ⟨ih1, ih2⟩ := copyFields_fresh ks h1 h2 vs2 hd'.2 h2eq
          obtain ⟨g1, _⟩ := copyField_grows h1eq
          obtain ⟨g3, g4⟩ := copyFields_frame ks h1 h2 vs2 h2eq
          cases v with
          | num n =>
            exact ⟨ih1, fun p hp => by
              obtain ⟨a, b, c⟩ := ih2 p hp
              exact ⟨Nat.le_trans g1 a, b, c⟩⟩
          | ptr p0 =>
            obtain ⟨e0, e1, e2⟩ := copyField_fresh hd'.1 h1eq p0 rfl
            refine ⟨List.Pairwise.cons (fun q hq => ?_) ih1, fun p hp => ?_⟩
            · obtain ⟨a, _, _⟩ := ih2 q hq
              omega
            · rcases List.mem_cons.mp hp with rfl | hp
              · refine ⟨by omega, by omega, ?_⟩
                rw [g4 p (by omega)]; exact e2
              · obtain ⟨a, b, c⟩ := ih2 p hp
                exact ⟨by omega, b, c⟩

/-- **every pointer of the copy points to a cell that did not exist before the call; they are all different, different
from the struct itself, and none of them is a static object** -/
theorem copy_fresh {ks : List (String × Kind)} {h h' : Heap} {src key : Nat} (hd : AllDeep ks = true)
    (hc : copyRec ks h src = some (h', key)) :
    ∃ vs, read h' key = some (.struct vs) ∧ Fresh h.length key h' (ptrsOf vs) := by
  unfold copyRec at hc
  split at hc
  · split at hc
    · next h1 vs heq =>
      injection hc with hc; injection hc with e1 e2; subst e1; subst e2
      obtain ⟨f1, f2⟩ := copyFields_fresh ks h h1 vs hd heq
      refine ⟨vs, read_alloc_self h1 _, f1, fun p hp => ?_⟩
      obtain ⟨a, b, c⟩ := f2 p hp
      refine ⟨a, by simpa [alloc] using b, ?_⟩
      have := read_alloc_lt h1 (.struct vs) b
      simp only [alloc] at this ⊢
      rw [this]; exact c
    · cases hc
  · cases hc

/-! ### release -/

def freeAddrs (ns : Nat) : List Nat → Heap → Option Heap
  | [], h => some h
  | p :: ps, h =>
      match free ns h p with
      | some h' => freeAddrs ns ps h'
      | none => none

/-- releasing distinct live non-static cells succeeds, empties exactly those cells and changes no other -/
theorem freeAddrs_ok (ns : Nat) : ∀ (ps : List Nat) (h : Heap), ps.Nodup → (∀ p ∈ ps, ns ≤ p ∧ (read h p).isSome = true) →
    ∃ h', freeAddrs ns ps h = some h' ∧ h'.length = h.length ∧ (∀ p ∈ ps, read h' p = none) ∧ ∀ a, a ∉ ps → read h' a = read h a
  | [], h, _, _ => ⟨h, rfl, rfl, fun _ hm => (nomatch hm), fun _ _ => rfl⟩
  | p :: ps, h, hnd, hl => by
      obtain ⟨hp1, hp2⟩ := hl p (List.mem_cons_self ..)
      have hnd' := List.nodup_cons.mp hnd
      have hf : free ns h p = some (h.set p none) := by
        unfold free
        rw [if_neg (by omega)]
        cases hr : read h p with
        | none => rw [hr] at hp2; cases hp2
        | some c => rfl
      have hl' : ∀ q ∈ ps, ns ≤ q ∧ (read (h.set p none) q).isSome = true := by
        intro q hq
        obtain ⟨a, b⟩ := hl q (List.mem_cons_of_mem _ hq)
        refine ⟨a, ?_⟩
        have hne : p ≠ q := fun e => hnd'.1 (e ▸ hq)
        rw [free_above hf q hne]; exact b
      obtain ⟨h', e1, e2, e3, e4⟩ := freeAddrs_ok ns ps (h.set p none) hnd'.2 hl'
      refine ⟨h', by simp only [freeAddrs, hf, e1], by simpa using e2, ?_, ?_⟩
      · intro q hq
        rcases List.mem_cons.mp hq with rfl | hq
        · rw [e4 q hnd'.1]
          have hlt : q < h.length := by
            cases hr : h[q]? with
            | none => simp [read, hr] at hp2
            | some _ => exact (List.getElem?_eq_some_iff.mp hr).1
          simp [read, List.getElem?_set_self hlt]
        · exact e3 q hq
      · intro a ha
        have : a ≠ p ∧ a ∉ ps := by simpa using ha
        rw [e4 a this.2, free_above hf a (Ne.symm this.1)]

/-- the addresses a `Free…` statement list releases, given the members of the struct at `key` -/
def freeTargets (fs : List (String × Val)) (key : Nat) : List FreeStep → Option (List Nat)
  | [] => some []
  | .field f :: rest =>
      match fs.lookup f, freeTargets fs key rest with
      | some (.ptr p), some ps => some (p :: ps)
      | _, _ => none
  | .self :: rest => (freeTargets fs key rest).map (key :: ·)
  | .other _ :: _ => none

/-- the `Free…` function: every named member must hold a pointer; the cells are released in statement order -/
def freeRec (nstatic : Nat) (frees : List FreeStep) (h : Heap) (key : Nat) : Option Heap :=
  match read h key with
  | some (.struct fs) =>
    match freeTargets fs key frees with
    | some ps => freeAddrs nstatic ps h
    | none => none
  | _ => none

/-- the statement list that releases exactly the pointers of a classification, then the struct -/
def freeProgram (ks : List (String × Kind)) : List FreeStep :=
  (ks.filterMap (fun fk => match fk.2 with | .dupStr | .deepArr _ | .shared => some (FreeStep.field fk.1) | _ => none)) ++ [.self]

def fieldSteps (ks : List (String × Kind)) : List FreeStep :=
  ks.filterMap (fun fk => match fk.2 with | .dupStr | .deepArr _ | .shared => some (FreeStep.field fk.1) | _ => none)

theorem copyFields_names {sf : List (String × Val)} : ∀ (ks : List (String × Kind)) (h h' : Heap) (vs : List (String × Val)),
    copyFields sf ks h = some (h', vs) → vs.map (·.1) = ks.map (·.1)
  | [], h, h', vs, hc => by
      simp only [copyFields, Option.some.injEq, Prod.mk.injEq] at hc
      obtain ⟨_, rfl⟩ := hc; rfl
  | (f, k) :: ks, h, h', vs, hc => by
      simp only [copyFields] at hc
      split at hc
      · cases hc
      · next h1 v h1eq =>
        split at hc
        · cases hc
        · next h2 vs2 h2eq =>
          injection hc with hc; injection hc with _ e2; subst e2
          simp [copyFields_names ks h1 h2 vs2 h2eq]

theorem lookup_of_mem_nodup : ∀ (l : List (String × Val)), (l.map (·.1)).Nodup → ∀ f v, (f, v) ∈ l → l.lookup f = some v
  | [], _, _, _, hm => nomatch hm
  | (g, w) :: l, hnd, f, v, hm => by
      rw [List.map_cons, List.nodup_cons] at hnd
      rcases List.mem_cons.mp hm with e | hm'
      · injection e with e1 e2; subst e1; subst e2; simp [List.lookup]
      · have hne : f ≠ g := fun e => hnd.1 (e ▸ List.mem_map_of_mem (f := (·.1)) hm')
        have : (f == g) = false := by simpa using hne
        simp only [List.lookup, this]
        exact lookup_of_mem_nodup l hnd.2 f v hm'

/-- the release list of a deep classification names exactly the pointers stored by the copy, in member order -/
theorem freeTargets_fields {sf : List (String × Val)} (all : List (String × Val)) (key : Nat) (tail : List FreeStep) :
    ∀ (ks : List (String × Kind)) (h h' : Heap) (vs : List (String × Val)), AllDeep ks = true →
      copyFields sf ks h = some (h', vs) → (∀ f v, (f, v) ∈ vs → all.lookup f = some v) →
      freeTargets all key (fieldSteps ks ++ tail) = (freeTargets all key tail).map (ptrsOf vs ++ ·)
  | [], h, h', vs, _, hc, _ => by
      simp only [copyFields, Option.some.injEq, Prod.mk.injEq] at hc
      obtain ⟨_, rfl⟩ := hc
      simp [fieldSteps, ptrsOf]
  | (f, k) :: ks, h, h', vs, hd, hc, hl => by
      simp only [copyFields] at hc
      split at hc
      · cases hc
      · next h1 v h1eq =>
        split at hc
        · cases hc
        · next h2 vs2 h2eq =>
          injection hc with hc; injection hc with _ e2; subst e2
          have hd' : k.isDeep = true ∧ AllDeep ks = true := by simpa [AllDeep] using hd
          have ih := freeTargets_fields all key tail ks h1 h2 vs2 hd'.2 h2eq (fun f' v' hm => hl f' v' (List.mem_cons_of_mem _ hm))
          have hv := hl f v (List.mem_cons_self ..)
          cases k with
          | scalar =>
            simp only [copyField] at h1eq
            split at h1eq
            · injection h1eq with h1eq; injection h1eq with _ ev; subst ev
              simpa [fieldSteps, ptrsOf] using ih
            · cases h1eq
          | shared | missing | broken => simp [Kind.isDeep] at hd'
          | dupStr =>
            have hp : ∃ p, v = .ptr p := by
              simp only [copyField] at h1eq
              split at h1eq
              · split at h1eq
                · injection h1eq with h1eq; injection h1eq with _ ev; exact ⟨_, ev.symm⟩
                · cases h1eq
              · cases h1eq
            obtain ⟨p, rfl⟩ := hp
            have : fieldSteps ((f, Kind.dupStr) :: ks) = .field f :: fieldSteps ks := by simp [fieldSteps]
            rw [this, List.cons_append, freeTargets, hv]
            simp only [fieldSteps] at ih ⊢
            rw [ih]
            cases freeTargets all key tail <;> simp [ptrsOf]
          | deepArr c =>
            have hp : ∃ p, v = .ptr p := by
              simp only [copyField] at h1eq
              split at h1eq
              · split at h1eq
                · split at h1eq
                  · injection h1eq with h1eq; injection h1eq with _ ev; exact ⟨_, ev.symm⟩
                  · cases h1eq
                · cases h1eq
              · cases h1eq
            obtain ⟨p, rfl⟩ := hp
            have : fieldSteps ((f, Kind.deepArr c) :: ks) = .field f :: fieldSteps ks := by simp [fieldSteps]
            rw [this, List.cons_append, freeTargets, hv]
            simp only [fieldSteps] at ih ⊢
            rw [ih]
            cases freeTargets all key tail <;> simp [ptrsOf]

/-- **the `Free…` function releases exactly what the lookup allocated**: for a deep classification with pairwise different
member names, after `copyRec` the release list `fieldSteps ks ++ [self]` succeeds (no static object, no cell twice), leaves
every cell that existed before the lookup as it was and empties every cell the lookup created. -/
theorem free_releases {ks : List (String × Kind)} {h h' : Heap} {src key : Nat} {ns : Nat} (hns : ns ≤ h.length)
    (hd : AllDeep ks = true) (hnd : (ks.map (·.1)).Nodup) (hc : copyRec ks h src = some (h', key)) :
    ∃ h'', freeRec ns (fieldSteps ks ++ [.self]) h' key = some h'' ∧
      (∀ a, a < h.length → read h'' a = read h a) ∧
      ∀ vs, read h' key = some (.struct vs) → ∀ p ∈ key :: ptrsOf vs, read h'' p = none := by
  obtain ⟨vs, hkey, hfr1, hfr2⟩ := copy_fresh hd hc
  obtain ⟨k1, k2, k3⟩ := copy_frame hc
  have hvs : vs.map (·.1) = ks.map (·.1) := by
    unfold copyRec at hc
    split at hc
    · split at hc
      · next h1 vs' heq =>
        injection hc with hc; injection hc with e1 e2; subst e1; subst e2
        have hk2 : vs' = vs := by simpa [read, alloc] using hkey
        subst hk2
        exact copyFields_names ks h h1 vs' heq
      · cases hc
    · cases hc
  have hcf : ∃ h1, copyFields (match read h src with | some (.struct sf) => sf | _ => []) ks h = some (h1, vs) := by
    unfold copyRec at hc
    split at hc
    · next sf hsf =>
      split at hc
      · next h1 vs' heq =>
        injection hc with hc; injection hc with e1 e2; subst e1; subst e2
        have hk2 : vs' = vs := by simpa [read, alloc] using hkey
        subst hk2
        exact ⟨h1, by simpa [hsf] using heq⟩
      · cases hc
    · cases hc
  obtain ⟨h1, hcf⟩ := hcf
  have hlook : ∀ f v, (f, v) ∈ vs → vs.lookup f = some v := lookup_of_mem_nodup vs (by rw [hvs]; exact hnd)
  have htargets : freeTargets vs key (fieldSteps ks ++ [.self]) = some (ptrsOf vs ++ [key]) := by
    rw [freeTargets_fields vs key [.self] ks h h1 vs hd hcf hlook]
    simp [freeTargets]
  have hnodup : (ptrsOf vs ++ [key]).Nodup := by
    rw [List.nodup_append]
    refine ⟨hfr1.imp (fun hlt => Nat.ne_of_lt hlt), by simp, ?_⟩
    intro a ha b hb
    rw [List.mem_singleton] at hb; subst hb
    exact Nat.ne_of_lt (hfr2 a ha).2.1
  have hlive : ∀ p ∈ ptrsOf vs ++ [key], ns ≤ p ∧ (read h' p).isSome = true := by
    intro p hp
    rcases List.mem_append.mp hp with hp | hp
    · obtain ⟨a, _, c⟩ := hfr2 p hp
      exact ⟨Nat.le_trans hns a, c⟩
    · rw [List.mem_singleton] at hp; subst hp
      exact ⟨Nat.le_trans hns k1, by rw [hkey]; rfl⟩
  obtain ⟨h'', e1, _, e3, e4⟩ := freeAddrs_ok ns (ptrsOf vs ++ [key]) h' hnodup hlive
  refine ⟨h'', by simp only [freeRec, hkey, htargets, e1], ?_, ?_⟩
  · intro a ha
    rw [e4 a ?_, k3 a ha]
    intro hm
    rcases List.mem_append.mp hm with hm | hm
    · have := (hfr2 a hm).1; omega
    · rw [List.mem_singleton] at hm; omega
  · intro vs' hvs' p hp
    rw [hkey] at hvs'
    injection hvs' with hvs'; injection hvs' with hvs'; subst hvs'
    apply e3
    rcases List.mem_cons.mp hp with rfl | hp
    · simp
    · simp [hp]

def demoHeap : Heap := [some (.arr [72, 50, 79]), some (.struct [("name", .ptr 0), ("n", .num 1)])]
def demoShared : List (String × Kind) := [("name", .shared), ("n", .scalar)]
def demoDeep : List (String × Kind) := [("name", .dupStr), ("n", .scalar)]

/-- the model DOES express sharing: with one pointer member assigned instead of copied, the member of the copy is the
static cell itself (what is written through the copy is written into the catalogue), and the release is undefined;
with the member duplicated the same calls are fine -/
theorem shared_member_breaks :
    (∃ h' key, copyRec demoShared demoHeap 1 = some (h', key) ∧ read h' key = some (.struct [("name", .ptr 0), ("n", .num 1)]) ∧
      freeRec 2 (fieldSteps demoShared ++ [.self]) h' key = none) ∧
    (∃ h' key, copyRec demoDeep demoHeap 1 = some (h', key) ∧ read h' key = some (.struct [("name", .ptr 2), ("n", .num 1)]) ∧
      freeRec 2 (fieldSteps demoDeep ++ [.self]) h' key = some (demoHeap ++ [none, none])) := by
  refine ⟨⟨_, _, rfl, ?_, ?_⟩, ⟨_, _, rfl, ?_, ?_⟩⟩ <;> decide

end Copy
end XrlL4
