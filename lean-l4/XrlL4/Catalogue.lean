/-
  C15 — the built-in catalogues.

  1. Entry types of the generated tables (`Gen/C15.lean`).
  2. `Catalogue`: a hand-written model of the three ways the library addresses a catalogue — by name
     (`lfind` with `strcmp`: first match; src/xraylib-nist-compounds.c:34-86, src/xraylib-radionuclides.c:38-100,
     src/crystal_diffraction.c Crystal_GetCrystal), by index (bounds check, then the array cell;
     xraylib-nist-compounds.c:88-110, xraylib-radionuclides.c:102-135) and the name list
     (xraylib-nist-compounds.c:112-131) — over an *abstract* entry list, with the theorems that these three
     agree for ANY entry list whose names are pairwise distinct.
  3. A small heap model of "every lookup returns an independent deep copy".

  Core Lean only: `CatDriver.lean` (the model executable of the correspondence run) imports this file.
-/
set_option linter.unusedSectionVars false

namespace XrlL4

/-- `compoundDataNISTList[i]`: name code, nElements, Elements, massFractions and density in units of `nistScale⁻¹` -/
structure NistEntry where
  name : Nat
  n : Nat
  elems : List Nat
  fracs : List Nat
  density : Nat
  deriving Repr

/-- `nuclideDataList[i]` -/
structure NuclideEntry where
  name : Nat
  Z : Nat
  A : Nat
  N : Nat
  Zx : Nat
  nX : Nat
  lines : List Int
  xint : List Nat
  nG : Nat
  gE : List Nat
  gI : List Nat
  deriving Repr

/-- one crystal of the generated table: name, `n_atom`, declared length of its atom array, atoms (Z, fraction, x, y, z) -/
structure CrystalEntry where
  name : Nat
  nAtom : Nat
  nDecl : Nat
  atoms : List (Int × Int × Int × Int × Int)
  deriving Repr

namespace Catalogue

variable {κ α : Type} [DecidableEq κ]

/-- lookup by name: linear search, first entry whose name compares equal -/
def byName (c : List (κ × α)) (k : κ) : Option (κ × α) := c.find? (fun e => e.1 = k)

/-- lookup by index: `if (i < 0 || i >= n) error; else entry i` -/
def byIndex (c : List (κ × α)) (i : Int) : Option (κ × α) := if i < 0 then none else c[i.toNat]?

/-- the name list, in catalogue order -/
def names (c : List (κ × α)) : List κ := c.map (·.1)

theorem byIndex_out_of_range (c : List (κ × α)) (i : Int) (h : i < 0 ∨ (c.length : Int) ≤ i) :
    byIndex c i = none := by
  unfold byIndex
  split
  · rfl
  · rename_i hn
    rcases h with h | h
    · exact absurd h hn
    · apply List.getElem?_eq_none; omega

theorem byIndex_in_range (c : List (κ × α)) (i : Int) (h0 : 0 ≤ i) (h1 : i < c.length) :
    ∃ e, byIndex c i = some e ∧ e ∈ c := by
  unfold byIndex
  have hlt : i.toNat < c.length := by omega
  rw [if_neg (by omega)]
  exact ⟨c[i.toNat], List.getElem?_eq_getElem hlt, List.getElem_mem hlt⟩

theorem byIndex_mem {c : List (κ × α)} {i : Int} {e : κ × α} (h : byIndex c i = some e) : e ∈ c := by
  unfold byIndex at h
  split at h
  · cases h
  · exact List.mem_of_getElem? h

theorem byName_of_mem : ∀ {c : List (κ × α)} {e : κ × α}, (names c).Nodup → e ∈ c → byName c e.1 = some e
  | [], _, _, he => by cases he
  | x :: xs, e, hd, he => by
      unfold byName
      have hd' : x.1 ∉ names xs ∧ (names xs).Nodup := by simpa [names] using hd
      by_cases hx : x.1 = e.1
      · rw [List.find?_cons_of_pos (by simpa using hx)]
        rcases List.mem_cons.mp he with rfl | he'
        · rfl
        · exact absurd (hx ▸ List.mem_map_of_mem (f := (·.1)) he') hd'.1
      · rw [List.find?_cons_of_neg (by simpa using hx)]
        rcases List.mem_cons.mp he with rfl | he'
        · exact absurd rfl hx
        · exact byName_of_mem (c := xs) hd'.2 he'

/-- **by-index and by-name agree**: the entry at index `i` is the one its own name finds -/
theorem byName_byIndex {c : List (κ × α)} (hd : (names c).Nodup) {i : Int} {e : κ × α}
    (h : byIndex c i = some e) : byName c e.1 = some e :=
  byName_of_mem hd (byIndex_mem h)

/-- whatever by-name returns sits at some valid index and carries the requested name -/
theorem byName_some {c : List (κ × α)} {k : κ} {e : κ × α} (h : byName c k = some e) :
    e.1 = k ∧ ∃ i : Int, 0 ≤ i ∧ i < c.length ∧ byIndex c i = some e := by
  unfold byName at h
  refine ⟨by simpa using List.find?_some h, ?_⟩
  obtain ⟨n, hn, hg⟩ := List.mem_iff_getElem.mp (List.mem_of_find?_eq_some h)
  refine ⟨n, by omega, by omega, ?_⟩
  unfold byIndex
  rw [if_neg (by omega)]
  simp [hg, hn]

/-- by-name fails exactly on the names that are not in the list -/
theorem byName_none_iff {c : List (κ × α)} {k : κ} : byName c k = none ↔ k ∉ names c := by
  unfold byName names
  rw [List.find?_eq_none]
  constructor
  · intro h hk
    obtain ⟨e, he, rfl⟩ := List.mem_map.mp hk
    exact absurd (by simp) (h e he)
  · intro h e he
    simp only [decide_eq_true_eq]
    intro hk; exact h (hk ▸ List.mem_map_of_mem (f := (·.1)) he)

/-- **the list and by-index agree**: the `i`-th listed name is the name of entry `i`; same length -/
theorem names_get (c : List (κ × α)) (i : Nat) : (names c)[i]? = (byIndex c (i : Int)).map (·.1) := by
  unfold names byIndex
  rw [if_neg (by omega)]
  simp

theorem names_length (c : List (κ × α)) : (names c).length = c.length := by simp [names]

/-! ### independent deep copies

Heap cells are numbered; a lookup allocates a fresh cell holding a copy of the entry
(`malloc` + `xrl_strdup` + `memcpy`, xraylib-nist-compounds.c:66-74,99-108); the catalogue itself is static data. -/

structure Heap (β : Type) where
  cells : List (Option β)        -- `none`: freed

def Heap.alloc {β} (h : Heap β) (v : β) : Heap β × Nat := (⟨h.cells ++ [some v]⟩, h.cells.length)

def Heap.write {β} (h : Heap β) (p : Nat) (v : β) : Heap β := ⟨h.cells.set p (some v)⟩

def Heap.free {β} (h : Heap β) (p : Nat) : Heap β := ⟨h.cells.set p none⟩

def Heap.read {β} (h : Heap β) (p : Nat) : Option β := (h.cells[p]?).join

/-- by-index lookup returning a pointer to a fresh copy -/
def lookupCopy (c : List (κ × α)) (h : Heap (κ × α)) (i : Int) : Heap (κ × α) × Option Nat :=
  match byIndex c i with
  | none => (h, none)
  | some e => let (h', p) := h.alloc e; (h', some p)

theorem alloc_fresh {β} (h : Heap β) (v : β) : (h.alloc v).2 = h.cells.length ∧ (h.alloc v).1.read (h.alloc v).2 = some v := by
  simp [Heap.alloc, Heap.read]

theorem alloc_preserves {β} (h : Heap β) (v : β) (q : Nat) (hq : q < h.cells.length) : (h.alloc v).1.read q = h.read q := by
  simp [Heap.alloc, Heap.read, List.getElem?_append_left hq]

/-- writing through, or freeing, one copy changes no other cell -/
theorem write_other {β} (h : Heap β) (p q : Nat) (v : β) (hne : p ≠ q) : (h.write p v).read q = h.read q := by
  simp [Heap.write, Heap.read, List.getElem?_set_ne hne]

theorem free_other {β} (h : Heap β) (p q : Nat) (hne : p ≠ q) : (h.free p).read q = h.read q := by
  simp [Heap.free, Heap.read, List.getElem?_set_ne hne]

/-- **deep-copy independence**: two lookups give distinct cells; after overwriting and freeing the first copy the second
still reads the catalogue entry, and a further lookup still returns it (the catalogue is not reachable from a copy). -/
theorem deep_copy_independent (c : List (κ × α)) (h : Heap (κ × α)) (i j : Int) (e f junk : κ × α)
    (hi : byIndex c i = some e) (hj : byIndex c j = some f) :
    let r1 := lookupCopy c h i
    let r2 := lookupCopy c r1.1 j
    ∃ p q, r1.2 = some p ∧ r2.2 = some q ∧ p ≠ q ∧
      (((r2.1.write p junk).free p).read q = some f) ∧
      (lookupCopy c ((r2.1.write p junk).free p) i).2.isSome = true := by
  simp only [lookupCopy, hi, hj]
  refine ⟨h.cells.length, (h.alloc e).1.cells.length, rfl, rfl, ?_, ?_, rfl⟩
  · simp [Heap.alloc]
  · have hne : h.cells.length ≠ (h.alloc e).1.cells.length := by simp [Heap.alloc]
    rw [free_other _ _ _ hne, write_other _ _ _ _ hne]
    exact (alloc_fresh _ f).2

end Catalogue
end XrlL4
