/-
  Definitions and helper lemmas used by the statements of Props/C15.lean (nothing here mentions the generated tables):
  names as byte strings (the header macro spelled from a catalogue name, `strcmp` order, decimal digits), the
  `Addressable` statement and its proof from the generic theorems of `Catalogue.lean`.
-/
import XrlL4.Catalogue

namespace XrlL4.C15
open XrlL4 XrlL4.Catalogue

theorem forall_of_all {α : Type} {p : α → Prop} [DecidablePred p] {l : List α}
    (h : l.all (fun a => decide (p a)) = true) : ∀ a ∈ l, p a := by
  intro a ha
  exact of_decide_eq_true ((List.all_eq_true.mp h) a ha)

/-! ## names as byte strings -/

/-- big-endian bytes of a name code -/
def bytesAux : Nat → Nat → List Nat → List Nat
  | 0, _, acc => acc
  | f + 1, n, acc => if n = 0 then acc else bytesAux f (n / 256) (n % 256 :: acc)

def bytes (n : Nat) : List Nat := bytesAux 80 n []

def codeOf (l : List Nat) : Nat := l.foldl (fun a c => a * 256 + c) 0

def isDigit (c : Nat) : Bool := 48 ≤ c && c ≤ 57
def isUpper (c : Nat) : Bool := 65 ≤ c && c ≤ 90
def isLower (c : Nat) : Bool := 97 ≤ c && c ≤ 122

/-- The index macro of a catalogue name, as the headers spell it: letters upper-cased, digits kept, blank and `-`
become `_`, every other character (`,` `/` `(` `)` …) dropped. -/
def macroSuffix : List Nat → List Nat
  | [] => []
  | c :: cs =>
      if isLower c then (c - 32) :: macroSuffix cs
      else if isUpper c || isDigit c then c :: macroSuffix cs
      else if c = 32 || c = 45 then 95 :: macroSuffix cs
      else macroSuffix cs

def macroName (pfx name : Nat) : Nat := codeOf (bytes pfx ++ macroSuffix (bytes name))

def lookupMacro (n : Nat) : List (Nat × Int) → Option Int
  | [] => none
  | e :: l => if e.1 = n then some e.2 else lookupMacro n l

/-- `strcmp` order on two names (byte-wise lexicographic; a proper prefix is smaller) -/
def strLt : List Nat → List Nat → Bool
  | [], [] => false
  | [], _ :: _ => true
  | _ :: _, [] => false
  | a :: as, b :: bs => if a < b then true else if a = b then strLt as bs else false

def strSorted : List Nat → Bool
  | [] => true
  | [_] => true
  | a :: b :: l => strLt (bytes a) (bytes b) && strSorted (b :: l)

/-- decimal digits of a number, as ASCII bytes -/
def digitsAux : Nat → Nat → List Nat → List Nat
  | 0, _, acc => acc
  | f + 1, n, acc => if n < 10 then (48 + n) :: acc else digitsAux f (n / 10) ((48 + n % 10) :: acc)

def digits (n : Nat) : List Nat := digitsAux 12 n []

def ascending : List Nat → Bool
  | [] => true
  | [_] => true
  | a :: b :: l => decide (a < b) && ascending (b :: l)

/-! ## the three ways of addressing a catalogue agree -/

theorem names_map {α : Type} (l : List α) (f : α → Nat) : names (l.map fun e => (f e, e)) = l.map f := by
  simp [names, Function.comp_def]

/-- For each catalogue: index i ∈ [0,n) yields an entry, its name finds the same entry, it is the i-th listed name;
indices outside [0,n) fail; names not listed fail. -/
def Addressable {α : Type} (c : List (Nat × α)) : Prop :=
    (∀ i : Int, 0 ≤ i → i < c.length → ∃ e, byIndex c i = some e ∧ byName c e.1 = some e ∧ (names c)[i.toNat]? = some e.1) ∧
    (∀ i : Int, i < 0 ∨ (c.length : Int) ≤ i → byIndex c i = none) ∧
    (∀ k e, byName c k = some e → e.1 = k ∧ ∃ i : Int, 0 ≤ i ∧ i < c.length ∧ byIndex c i = some e) ∧
    (∀ k, k ∉ names c → byName c k = none) ∧ (names c).length = c.length

theorem addressable {α : Type} (c : List (Nat × α)) (hd : (names c).Nodup) : Addressable c := by
  refine ⟨?_, byIndex_out_of_range c, fun k e h => byName_some h, fun k h => byName_none_iff.mpr h, names_length c⟩
  intro i h0 h1
  obtain ⟨e, he, _⟩ := byIndex_in_range c i h0 h1
  refine ⟨e, he, byName_byIndex hd he, ?_⟩
  have := names_get c i.toNat
  rw [show ((i.toNat : Nat) : Int) = i by omega, he] at this
  simpa using this

end XrlL4.C15
