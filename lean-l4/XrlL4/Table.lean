/-
  Finite name/value tables and their linear Boolean checkers (C20, C15).

  Specifications (`Agree`, `Complete`, `ProtosAgree`, …) are stated over plain list membership; the
  checkers are merge-walks over tables sorted by the `Nat` code of the name and are what the kernel
  evaluates (`decide +kernel`).  Each checker has a soundness lemma `checker = true → specification`,
  so the property theorems in `Props/` state the specification, not the checker.

  Core Lean only (no Mathlib).
-/
namespace XrlL4

/-- One published constant.  `n`: base-256 code of the name; `k`: 0 integer (`a`), 1 exact decimal
`a · 10^b` with `a` not divisible by 10, 2 expression (`a` = code of the canonical token string). -/
structure E where
  n : Nat
  k : Nat
  a : Int
  b : Int
  deriving DecidableEq, Repr

def E.sameVal (x y : E) : Bool := x.k == y.k && x.a == y.a && x.b == y.b

/-! ### sortedness -/

/-- strictly ascending names, linear -/
def sortedB : List Nat → Bool
  | [] => true
  | [_] => true
  | a :: b :: l => decide (a < b) && sortedB (b :: l)

def Sorted (l : List Nat) : Prop := l.Pairwise (· < ·)

theorem sortedB_sound : ∀ l, sortedB l = true → Sorted l
  | [], _ => List.Pairwise.nil
  | [a], _ => by simp [Sorted]
  | a :: b :: l, h => by
      simp only [sortedB, Bool.and_eq_true, decide_eq_true_eq] at h
      have ih : Sorted (b :: l) := sortedB_sound (b :: l) h.2
      unfold Sorted at ih ⊢
      have ih' := List.pairwise_cons.mp ih
      refine List.pairwise_cons.mpr ⟨?_, ih⟩
      intro x hx
      rcases List.mem_cons.mp hx with rfl | hx
      · exact h.1
      · exact Nat.lt_trans h.1 (ih'.1 x hx)

theorem Sorted.head_lt {a : Nat} {l : List Nat} (h : Sorted (a :: l)) : ∀ x ∈ l, a < x :=
  (List.pairwise_cons.mp h).1

theorem Sorted.tail {a : Nat} {l : List Nat} (h : Sorted (a :: l)) : Sorted l :=
  (List.pairwise_cons.mp h).2

/-! ### constants: a binding table against the C table -/

/-- Every constant the binding publishes under a C name has the C value. -/
def Agree (B H : List E) : Prop := ∀ b ∈ B, ∀ h ∈ H, b.n = h.n → b.sameVal h = true

/-- … except for the names in `X`. -/
def AgreeExcept (X : List Nat) (B H : List E) : Prop :=
  ∀ b ∈ B, b.n ∉ X → ∀ h ∈ H, b.n = h.n → b.sameVal h = true

/-- the binding publishes name `n`, the C headers define it, and the values differ -/
def DisagreeAt (n : Nat) (B H : List E) : Prop :=
  ∃ b ∈ B, ∃ h ∈ H, b.n = n ∧ h.n = n ∧ b.sameVal h = false

/-- merge-walk; both tables strictly ascending by name -/
def agreeWalk (X : List Nat) : Nat → List E → List E → Bool
  | 0, _, _ => false
  | _ + 1, [], _ => true
  | _ + 1, _ :: _, [] => true
  | f + 1, b :: bs, h :: hs =>
      if b.n < h.n then agreeWalk X f bs (h :: hs)
      else if b.n = h.n then (b.sameVal h || X.contains b.n) && agreeWalk X f bs hs
      else agreeWalk X f (b :: bs) hs

def agreeB (X : List Nat) (B H : List E) : Bool :=
  sortedB (B.map (·.n)) && sortedB (H.map (·.n)) && agreeWalk X (B.length + H.length + 1) B H

theorem agreeWalk_sound (X : List Nat) : ∀ (f : Nat) (B H : List E),
    Sorted (B.map (·.n)) → Sorted (H.map (·.n)) → agreeWalk X f B H = true → AgreeExcept X B H
  | 0, _, _, _, _, h => by simp [agreeWalk] at h
  | _ + 1, [], _, _, _, _ => by intro b hb; cases hb
  | _ + 1, _ :: _, [], _, _, _ => by intro b _ _ h hh; cases hh
  | f + 1, b :: bs, h :: hs, sB, sH, hw => by
      have sB' : Sorted (bs.map (·.n)) := Sorted.tail (a := b.n) (by simpa using sB)
      have sH' : Sorted (hs.map (·.n)) := Sorted.tail (a := h.n) (by simpa using sH)
      have hBlt : ∀ b' ∈ bs, b.n < b'.n := by
        intro b' hb'
        exact Sorted.head_lt (a := b.n) (l := bs.map (·.n)) (by simpa using sB) b'.n (List.mem_map_of_mem hb')
      have hHlt : ∀ h' ∈ hs, h.n < h'.n := by
        intro h' hh'
        exact Sorted.head_lt (a := h.n) (l := hs.map (·.n)) (by simpa using sH) h'.n (List.mem_map_of_mem hh')
      unfold agreeWalk at hw
      by_cases c1 : b.n < h.n
      · rw [if_pos c1] at hw
        have ih := agreeWalk_sound X f bs (h :: hs) sB' sH hw
        intro b' hb' nx h' hh' e
        rcases List.mem_cons.mp hb' with rfl | hb'
        · -- b itself is below every C name
          rcases List.mem_cons.mp hh' with rfl | hh'
          · exact absurd e (Nat.ne_of_lt c1)
          · exact absurd e (Nat.ne_of_lt (Nat.lt_trans c1 (hHlt h' hh')))
        · exact ih b' hb' nx h' hh' e
      · rw [if_neg c1] at hw
        by_cases c2 : b.n = h.n
        · rw [if_pos c2, Bool.and_eq_true, Bool.or_eq_true] at hw
          have ih := agreeWalk_sound X f bs hs sB' sH' hw.2
          intro b' hb' nx h' hh' e
          rcases List.mem_cons.mp hb' with rfl | hb'
          · rcases List.mem_cons.mp hh' with rfl | hh'
            · rcases hw.1 with v | x
              · exact v
              · exact absurd (List.contains_iff_mem.mp x) nx
            · have := hHlt h' hh'; omega
          · rcases List.mem_cons.mp hh' with rfl | hh'
            · have := hBlt b' hb'; omega
            · exact ih b' hb' nx h' hh' e
        · rw [if_neg c2] at hw
          have ih := agreeWalk_sound X f (b :: bs) hs sB sH' hw
          intro b' hb' nx h' hh' e
          rcases List.mem_cons.mp hh' with rfl | hh'
          · rcases List.mem_cons.mp hb' with rfl | hb'
            · exact absurd e c2
            · have := hBlt b' hb'; omega
          · exact ih b' hb' nx h' hh' e

theorem agreeB_sound {X : List Nat} {B H : List E} (h : agreeB X B H = true) : AgreeExcept X B H := by
  simp only [agreeB, Bool.and_eq_true] at h
  exact agreeWalk_sound X _ B H (sortedB_sound _ h.1.1) (sortedB_sound _ h.1.2) h.2

theorem agreeExcept_nil {B H : List E} : AgreeExcept [] B H ↔ Agree B H := by
  constructor
  · intro h b hb; exact h b hb (by simp)
  · intro h b hb _; exact h b hb

/-- every name of `X` is a real disagreement (decided entry by entry) -/
def disagreeB (X : List Nat) (B H : List E) : Bool :=
  X.all fun n =>
    match B.find? (fun b => b.n == n), H.find? (fun h => h.n == n) with
    | some b, some h => !(b.sameVal h)
    | _, _ => false

theorem disagreeB_sound {X : List Nat} {B H : List E} (hd : disagreeB X B H = true) :
    ∀ n ∈ X, DisagreeAt n B H := by
  intro n hn
  have := (List.all_eq_true.mp hd) n hn
  split at this
  · rename_i b h eb eh
    refine ⟨b, List.mem_of_find?_eq_some eb, h, List.mem_of_find?_eq_some eh, ?_, ?_, ?_⟩
    · have := List.find?_some eb; simpa using this
    · have := List.find?_some eh; simpa using this
    · simpa using this
  · cases this

/-- The full statement holds exactly when the list of known disagreements is empty. -/
theorem agree_iff_no_known {X : List Nat} {B H : List E}
    (hp : AgreeExcept X B H) (hd : ∀ n ∈ X, DisagreeAt n B H) : Agree B H ↔ X = [] := by
  constructor
  · intro ha
    cases X with
    | nil => rfl
    | cons n t =>
        obtain ⟨b, hb, h, hh, e1, e2, ne⟩ := hd n (by simp)
        have := ha b hb h hh (e1.trans e2.symm)
        rw [this] at ne; cases ne
  · intro hx; subst hx; exact agreeExcept_nil.mp hp

/-! ### families: every C name of a family is published by the binding -/

def Complete (F B : List Nat) : Prop := ∀ n ∈ F, n ∈ B

def CompleteExcept (X F B : List Nat) : Prop := ∀ n ∈ F, n ∉ X → n ∈ B

/-- merge-walk over ascending lists (sortedness is needed for completeness of the walk, not for soundness) -/
def completeWalk (X : List Nat) : Nat → List Nat → List Nat → Bool
  | 0, _, _ => false
  | _ + 1, [], _ => true
  | f + 1, n :: fs, [] => X.contains n && completeWalk X f fs []
  | f + 1, n :: fs, b :: bs =>
      if b < n then completeWalk X f (n :: fs) bs
      else if b = n then completeWalk X f fs (b :: bs)
      else X.contains n && completeWalk X f fs (b :: bs)

def completeB (X F B : List Nat) : Bool := completeWalk X (F.length + B.length + 1) F B

theorem completeWalk_sound (X : List Nat) : ∀ (f : Nat) (F B : List Nat),
    completeWalk X f F B = true → ∀ n ∈ F, n ∉ X → n ∈ B
  | 0, _, _, h => by simp [completeWalk] at h
  | _ + 1, [], _, _ => by intro n hn; cases hn
  | f + 1, n :: fs, [], h => by
      simp only [completeWalk, Bool.and_eq_true] at h
      intro m hm nx
      rcases List.mem_cons.mp hm with rfl | hm
      · exact absurd (List.contains_iff_mem.mp h.1) nx
      · exact completeWalk_sound X f fs [] h.2 m hm nx
  | f + 1, n :: fs, b :: bs, h => by
      unfold completeWalk at h
      by_cases c1 : b < n
      · rw [if_pos c1] at h
        intro m hm nx
        exact List.mem_cons_of_mem _ (completeWalk_sound X f (n :: fs) bs h m hm nx)
      · rw [if_neg c1] at h
        by_cases c2 : b = n
        · rw [if_pos c2] at h
          intro m hm nx
          rcases List.mem_cons.mp hm with rfl | hm
          · rw [c2]; exact List.mem_cons_self
          · exact completeWalk_sound X f fs (b :: bs) h m hm nx
        · rw [if_neg c2, Bool.and_eq_true] at h
          intro m hm nx
          rcases List.mem_cons.mp hm with rfl | hm
          · exact absurd (List.contains_iff_mem.mp h.1) nx
          · exact completeWalk_sound X f fs (b :: bs) h.2 m hm nx

theorem completeB_sound {X F B : List Nat} (h : completeB X F B = true) : CompleteExcept X F B :=
  completeWalk_sound X _ F B h

theorem completeExcept_nil {F B : List Nat} : CompleteExcept [] F B ↔ Complete F B := by
  constructor
  · intro h n hn; exact h n hn (by simp)
  · intro h n hn _; exact h n hn

/-- every name of `X` belongs to the family and is really absent from the binding -/
def missingB (X F B : List Nat) : Bool := X.all fun n => F.contains n && B.all (fun b => b != n)

theorem missingB_sound {X F B : List Nat} (h : missingB X F B = true) : ∀ n ∈ X, n ∈ F ∧ n ∉ B := by
  intro n hn
  have := (List.all_eq_true.mp h) n hn
  rw [Bool.and_eq_true] at this
  refine ⟨List.contains_iff_mem.mp this.1, ?_⟩
  intro hb
  have := (List.all_eq_true.mp this.2) n hb
  simp at this

theorem complete_iff_no_known {X F B : List Nat}
    (hp : CompleteExcept X F B) (hm : ∀ n ∈ X, n ∈ F ∧ n ∉ B) : Complete F B ↔ X = [] := by
  constructor
  · intro hc
    cases X with
    | nil => rfl
    | cons n t => exact absurd (hc n (hm n (by simp)).1) (hm n (by simp)).2
  · intro hx; subst hx; exact completeExcept_nil.mp hp

/-! ### prototypes -/

/-- A declared function.  Types are coded `100·class + pointee` (class: 0 void, 1 int, 2 double, 3 pointer,
4 `xrlComplex` by value, 5 `size_t`, 6 float, 7 `struct compoundData` by value); pointee 0 on the binding
side means "the language does not say" (Fortran `TYPE(C_PTR)`, Pascal `pointer`). -/
structure P where
  n : Nat
  ret : Nat
  args : List Nat
  deriving DecidableEq, Repr

def tyOk (b c : Nat) : Bool := b / 100 == c / 100 && (b % 100 == 0 || b % 100 == c % 100)

def tysOk : List Nat → List Nat → Bool
  | [], [] => true
  | b :: bs, c :: cs => tyOk b c && tysOk bs cs
  | _, _ => false

/-- same arity, every argument and the result agree under the type map -/
def P.ok (b c : P) : Bool := tyOk b.ret c.ret && tysOk b.args c.args

/-- Every function the binding declares is a C function of that name with the same arity and types. -/
def ProtosAgree (B H : List P) : Prop := ∀ b ∈ B, ∃ h ∈ H, h.n = b.n ∧ b.ok h = true

def ProtosAgreeExcept (X : List Nat) (B H : List P) : Prop :=
  ∀ b ∈ B, b.n ∉ X → ∃ h ∈ H, h.n = b.n ∧ b.ok h = true

def ProtoWrongAt (n : Nat) (B H : List P) : Prop :=
  ∃ b ∈ B, b.n = n ∧ ∀ h ∈ H, h.n = n → b.ok h = false

/-- merge-walk: `B` ascending (duplicates allowed), `H` ascending -/
def protoWalk (X : List Nat) : Nat → List P → List P → Bool
  | 0, _, _ => false
  | _ + 1, [], _ => true
  | f + 1, b :: bs, [] => X.contains b.n && protoWalk X f bs []
  | f + 1, b :: bs, h :: hs =>
      if h.n < b.n then protoWalk X f (b :: bs) hs
      else if h.n = b.n then (b.ok h || X.contains b.n) && protoWalk X f bs (h :: hs)
      else X.contains b.n && protoWalk X f bs (h :: hs)

def protoB (X : List Nat) (B H : List P) : Bool := protoWalk X (B.length + H.length + 1) B H

theorem protoWalk_sound (X : List Nat) : ∀ (f : Nat) (B H : List P),
    protoWalk X f B H = true → ProtosAgreeExcept X B H
  | 0, _, _, h => by simp [protoWalk] at h
  | _ + 1, [], _, _ => by intro b hb; cases hb
  | f + 1, b :: bs, [], h => by
      simp only [protoWalk, Bool.and_eq_true] at h
      intro b' hb' nx
      rcases List.mem_cons.mp hb' with rfl | hb'
      · exact absurd (List.contains_iff_mem.mp h.1) nx
      · exact protoWalk_sound X f bs [] h.2 b' hb' nx
  | f + 1, b :: bs, h :: hs, hw => by
      unfold protoWalk at hw
      by_cases c1 : h.n < b.n
      · rw [if_pos c1] at hw
        intro b' hb' nx
        obtain ⟨h', hh', e⟩ := protoWalk_sound X f (b :: bs) hs hw b' hb' nx
        exact ⟨h', List.mem_cons_of_mem _ hh', e⟩
      · rw [if_neg c1] at hw
        by_cases c2 : h.n = b.n
        · rw [if_pos c2, Bool.and_eq_true, Bool.or_eq_true] at hw
          intro b' hb' nx
          rcases List.mem_cons.mp hb' with rfl | hb'
          · rcases hw.1 with v | x
            · exact ⟨h, List.mem_cons_self, c2, v⟩
            · exact absurd (List.contains_iff_mem.mp x) nx
          · exact protoWalk_sound X f bs (h :: hs) hw.2 b' hb' nx
        · rw [if_neg c2, Bool.and_eq_true] at hw
          intro b' hb' nx
          rcases List.mem_cons.mp hb' with rfl | hb'
          · exact absurd (List.contains_iff_mem.mp hw.1) nx
          · exact protoWalk_sound X f bs (h :: hs) hw.2 b' hb' nx

theorem protoB_sound {X : List Nat} {B H : List P} (h : protoB X B H = true) : ProtosAgreeExcept X B H :=
  protoWalk_sound X _ B H h

theorem protosAgreeExcept_nil {B H : List P} : ProtosAgreeExcept [] B H ↔ ProtosAgree B H := by
  constructor
  · intro h b hb; exact h b hb (by simp)
  · intro h b hb _; exact h b hb

def protoWrongB (X : List Nat) (B H : List P) : Bool :=
  X.all fun n => B.any fun b => b.n == n && H.all fun h => h.n != n || !(b.ok h)

theorem protoWrongB_sound {X : List Nat} {B H : List P} (hd : protoWrongB X B H = true) :
    ∀ n ∈ X, ProtoWrongAt n B H := by
  intro n hn
  have := (List.all_eq_true.mp hd) n hn
  obtain ⟨b, hb, hp⟩ := List.any_eq_true.mp this
  rw [Bool.and_eq_true] at hp
  refine ⟨b, hb, by simpa using hp.1, ?_⟩
  intro h hh e
  have := (List.all_eq_true.mp hp.2) h hh
  simp [e] at this
  exact this

theorem protos_iff_no_known {X : List Nat} {B H : List P}
    (hp : ProtosAgreeExcept X B H) (hd : ∀ n ∈ X, ProtoWrongAt n B H) : ProtosAgree B H ↔ X = [] := by
  constructor
  · intro ha
    cases X with
    | nil => rfl
    | cons n t =>
        obtain ⟨b, hb, e, hall⟩ := hd n (by simp)
        obtain ⟨h, hh, e2, ok⟩ := ha b hb
        have := hall h hh (e2.trans e)
        rw [ok] at this; cases this
  · intro hx; subst hx; exact protosAgreeExcept_nil.mp hp

/-! ### small membership checkers (quadratic; used on tables of a few dozen entries) -/

def allMemB (A B : List Nat) : Bool := A.all fun a => B.contains a

theorem allMemB_sound {A B : List Nat} (h : allMemB A B = true) : ∀ a ∈ A, a ∈ B := by
  intro a ha
  exact List.contains_iff_mem.mp ((List.all_eq_true.mp h) a ha)

def allMemPairB (A B : List (Nat × Nat)) : Bool := A.all fun a => B.contains a

theorem allMemPairB_sound {A B : List (Nat × Nat)} (h : allMemPairB A B = true) : ∀ a ∈ A, a ∈ B := by
  intro a ha
  exact List.contains_iff_mem.mp ((List.all_eq_true.mp h) a ha)

end XrlL4
