/-
  Finite name/value tables and their linear Boolean checkers (C20, C15).

  Specifications (`Agree`, `Complete`, `ProtosAgree`, …) are stated over plain list membership; the
  checkers are merge-walks over tables sorted by the `Nat` code of the name and are what the kernel
  evaluates (`decide +kernel`).  Each checker has a soundness lemma `checker = true → specification`,
  so the property theorems in `Props/` state the specification, not the checker.

  Core Lean only (no Mathlib).
-/
namespace XrlL4

/-- One published constant.  `n`: base-256 code of the name; `k`: 0 integer (`a`), 1 exact decimal
`a · 10^b` with `a` not divisible by 10, 2 expression (`a` = code of the canonical token string). -/
structure E where
  n : Nat
  k : Nat
  a : Int
  b : Int
  deriving DecidableEq, Repr

def E.sameVal (x y : E) : Bool := x.k == y.k && x.a == y.a && x.b == y.b

/-! ### sortedness -/

/-- strictly ascending names, linear -/
def sortedB : List Nat → Bool
  | [] => true
  | [_] => true
  | a :: b :: l => decide (a < b) && sortedB (b :: l)

def Sorted (l : List Nat) : Prop := l.Pairwise (· < ·)

theorem sortedB_sound : ∀ l, sortedB l = true → Sorted l
  | [], _ => List.Pairwise.nil
  | [a], _ => by simp [Sorted]
  | a :: b :: l, h => by
      simp only [sortedB, Bool.and_eq_true, decide_eq_true_eq] at h
      have ih : Sorted (b :: l) := sortedB_sound (b :: l) h.2
      unfold Sorted at ih ⊢
      have ih' := List.pairwise_cons.mp ih
      refine List.pairwise_cons.mpr ⟨?_, ih⟩
      intro x hx
      rcases List.mem_cons.mp hx with rfl | hx
      · exact h.1
      · exact Nat.lt_trans h.1 (ih'.1 x hx)

theorem Sorted.head_lt {a : Nat} {l : List Nat} (h : Sorted (a :: l)) : ∀ x ∈ l, a < x :=
  (List.pairwise_cons.mp h).1

theorem Sorted.tail {a : Nat} {l : List Nat} (h : Sorted (a :: l)) : Sorted l :=
  (List.pairwise_cons.mp h).2

/-! ### constants: a binding table against the C table -/

/-- Every constant the binding publishes under a C name has the C value. -/
def Agree (B H : List E) : Prop := ∀ b ∈ B, ∀ h ∈ H, b.n = h.n → b.sameVal h = true

/-- … except for the names in `X`. -/
def AgreeExcept (X : List Nat) (B H : List E) : Prop :=
  ∀ b ∈ B, b.n ∉ X → ∀ h ∈ H, b.n = h.n → b.sameVal h = true

/-- the binding publishes name `n`, the C headers define it, and the values differ -/
def DisagreeAt (n : Nat) (B H : List E) : Prop :=
  ∃ b ∈ B, ∃ h ∈ H, b.n = n ∧ h.n = n ∧ b.sameVal h = false

/-- merge-walk; both tables strictly ascending by name -/
def agreeWalk (X : List Nat) : Nat → List E → List E → Bool
  | 0, _, _ => false
  | _ + 1, [], _ => true
  | _ + 1, _ :: _, [] => true
  | f + 1, b :: bs, h :: hs =>
      if b.n < h.n then agreeWalk X f bs (h :: hs)
      else if b.n = h.n then (b.sameVal h || X.contains b.n) && agreeWalk X f bs hs
      else agreeWalk X f (b :: bs) hs

def agreeB (X : List Nat) (B H : List E) : Bool :=
  sortedB (B.map (·.n)) && sortedB (H.map (·.n)) && agreeWalk X (B.length + H.length + 1) B H

theorem agreeWalk_sound (X : List Nat) : ∀ (f : Nat) (B H : List E),
    Sorted (B.map (·.n)) → Sorted (H.map (·.n)) → agreeWalk X f B H = true → AgreeExcept X B H
  | 0, _, _, _, _, h => by simp [agreeWalk] at h
  | _ + 1, [], _, _, _, _ => by intro b hb; cases hb
  | _ + 1, _ :: _, [], _, _, _ => by intro b _ _ h hh; cases hh
  | f + 1, b :: bs, h :: hs, sB, sH, hw => by
      have sB' : Sorted (bs.map (·.n)) := Sorted.tail (a := b.n) (by simpa using sB)
      have sH' : Sorted (hs.map (·.n)) := Sorted.tail (a := h.n) (by simpa using sH)
      have hBlt : ∀ b' ∈ bs, b.n < b'.n := by
        intro b' hb'
        exact Sorted.head_lt (a := b.n) (l := bs.map (·.n)) (by simpa using sB) b'.n (List.mem_map_of_mem hb')
      have hHlt : ∀ h' ∈ hs, h.n < h'.n := by
        intro h' hh'
        exact Sorted.head_lt (a := h.n) (l := hs.map (·.n)) (by simpa using sH) h'.n (List.mem_map_of_mem hh')
      unfold agreeWalk at hw
      by_cases c1 : b.n < h.n
      · rw [if_pos c1] at hw
        have ih := agreeWalk_sound X f bs (h :: hs) sB' sH hw
        intro b' hb' nx h' hh' e
        rcases List.mem_cons.mp hb' with rfl | hb'
        · -- b itself is below every C name
          rcases List.mem_cons.mp hh' with rfl | hh'
          · exact absurd e (Nat.ne_of_lt c1)
          · exact absurd e (Nat.ne_of_lt (Nat.lt_trans c1 (hHlt h' hh')))
        · exact ih b' hb' nx h' hh' e
      · rw [if_neg c1] at hw
        by_cases c2 : b.n = h.n
        · rw [if_pos c2, Bool.and_eq_true, Bool.or_eq_true] at hw
          have ih := agreeWalk_sound X f bs hs sB' sH' hw.2
          intro b' hb' nx h' hh' e
          rcases List.mem_cons.mp hb' with rfl | hb'
          · rcases List.mem_cons.mp hh' with rfl | hh'
            · rcases hw.1 with v | x
              · exact v
              · exact absurd (List.contains_iff_mem.mp x) nx
            · have := hHlt h' hh'; omega
          · rcases List.mem_cons.mp hh' with rfl | hh'
            · have := hBlt b' hb'; omega
            · exact ih b' hb' nx h' hh' e
        · rw [if_neg c2] at hw
          have ih := agreeWalk_sound X f (b :: bs) hs sB sH' hw
          intro b' hb' nx h' hh' e
          rcases List.mem_cons.mp hh' with rfl | hh'
          · rcases List.mem_cons.mp hb' with rfl | hb'
            · exact absurd e c2
            · have := hBlt b' hb'; omega
          · exact ih b' hb' nx h' hh' e

theorem agreeB_sound {X : List Nat} {B H : List E} (h : agreeB X B H = true) : AgreeExcept X B H := by
  simp only [agreeB, Bool.and_eq_true] at h
  exact agreeWalk_sound X _ B H (sortedB_sound _ h.1.1) (sortedB_sound _ h.1.2) h.2

theorem agreeExcept_nil {B H : List E} : AgreeExcept [] B H ↔ Agree B H := by
  constructor
  · intro h b hb; exact h b hb (by simp)
  · intro h b hb _; exact h b hb

/-- every name of `X` is a real disagreement (decided entry by entry) -/
def disagreeB (X : List Nat) (B H : List E) : Bool :=
  X.all fun n =>
    match B.find? (fun b => b.n == n), H.find? (fun h => h.n == n) with
    | some b, some h => !(b.sameVal h)
    | _, _ => false

theorem disagreeB_sound {X : List Nat} {B H : List E} (hd : disagreeB X B H = true) :
    ∀ n ∈ X, DisagreeAt n B H := by
  intro n hn
  have := (List.all_eq_true.mp hd) n hn
  split at this
  · rename_i b h eb eh
    refine ⟨b, List.mem_of_find?_eq_some eb, h, List.mem_of_find?_eq_some eh, ?_, ?_, ?_⟩
    · have := List.find?_some eb; simpa using this
    · have := List.find?_some eh; simpa using this
    · simpa using this
  · cases this

/-- The full statement holds exactly when the list of known disagreements is empty. -/
theorem agree_iff_no_known {X : List Nat} {B H : List E}
    (hp : AgreeExcept X B H) (hd : ∀ n ∈ X, DisagreeAt n B H) : Agree B H ↔ X = [] := by
  constructor
  · intro ha
    cases X with
    | nil => rfl
    | cons n t =>
        obtain ⟨b, hb, h, hh, e1, e2, ne⟩ := hd n (by simp)
        have := ha b hb h hh (e1.trans e2.symm)
        rw [this] at ne; cases ne
  · intro hx; subst hx; exact agreeExcept_nil.mp hp

/-! ### families: every C name of a family is published by the binding -/

def Complete (F B : List Nat) : Prop := ∀ n ∈ F, n ∈ B

def CompleteExcept (X F B : List Nat) : Prop := ∀ n ∈ F, n ∉ X → n ∈ B

/-- merge-walk over ascending lists (sortedness is needed for completeness of the walk, not for soundness) -/
def completeWalk (X : List Nat) : Nat → List Nat → List Nat → Bool
  | 0, _, _ => false
  | _ + 1, [], _ => true
  | f + 1, n :: fs, [] => X.contains n && completeWalk X f fs []
  | f + 1, n :: fs, b :: bs =>
      if b < n then completeWalk X f (n :: fs) bs
      else if b = n then completeWalk X f fs (b :: bs)
      else X.contains n && completeWalk X f fs (b :: bs)

def completeB (X F B : List Nat) : Bool := completeWalk X (F.length + B.length + 1) F B

theorem completeWalk_sound (X : List Nat) : ∀ (f : Nat) (F B : List Nat),
    completeWalk X f F B = true → ∀ n ∈ F, n ∉ X → n ∈ B
  | 0, _, _, h => by simp [completeWalk] at h
  | _ + 1, [], _, _ => by intro n hn; cases hn
  | f + 1, n :: fs, [], h => by
      simp only [completeWalk, Bool.and_eq_true] at h
      intro m hm nx
      rcases List.mem_cons.mp hm with rfl | hm
      · exact absurd (List.contains_iff_mem.mp h.1) nx
      · exact completeWalk_sound X f fs [] h.2 m hm nx
  | f + 1, n :: fs, b :: bs, h => by
      unfold completeWalk at h
      by_cases c1 : b < n
      · rw [if_pos c1] at h
        intro m hm nx
        exact List.mem_cons_of_mem _ (completeWalk_sound X f (n :: fs) bs h m hm nx)
      · rw [if_neg c1] at h
        by_cases c2 : b = n
        · rw [if_pos c2] at h
          intro m hm nx
          rcases List.mem_cons.mp hm with rfl | hm
          · rw [c2]; exact List.mem_cons_self
          · exact completeWalk_sound X f fs (b :: bs) h m hm nx
        · rw [if_neg c2, Bool.and_eq_true] at h
          intro m hm nx
          rcases List.mem_cons.mp hm with rfl | hm
          · exact absurd (List.contains_iff_mem.mp h.1) nx
          · exact completeWalk_sound X f fs (b :: bs) h.2 m hm nx

theorem completeB_sound {X F B : List Nat} (h : completeB X F B = true) : CompleteExcept X F B :=
  completeWalk_sound X _ F B h

theorem completeExcept_nil {F B : List Nat} : CompleteExcept [] F B ↔ Complete F B := by
  constructor
  · intro h n hn; exact h n hn (by simp)
  · intro h n hn _; exact h n hn

/-- every name of `X` belongs to the family and is really absent from the binding -/
def missingB (X F B : List Nat) : Bool := X.all fun n => F.contains n && B.all (fun b => b != n)

theorem missingB_sound {X F B : List Nat} (h : missingB X F B = true) : ∀ n ∈ X, n ∈ F ∧ n ∉ B := by
  intro n hn
  have := (List.all_eq_true.mp h) n hn
  rw [Bool.and_eq_true] at this
  refine ⟨List.contains_iff_mem.mp this.1, ?_⟩
  intro hb
  have := (List.all_eq_true.mp this.2) n hb
  simp at this

theorem complete_iff_no_known {X F B : List Nat}
    (hp : CompleteExcept X F B) (hm : ∀ n ∈ X, n ∈ F ∧ n ∉ B) : Complete F B ↔ X = [] := by
  constructor
  · intro hc
    cases X with
    | nil => rfl
    | cons n t => exact absurd (hc n (hm n (by simp)).1) (hm n (by simp)).2
  · intro hx; subst hx; exact completeExcept_nil.mp hp

/-! ### prototypes -/

/-- A declared function.  Types are coded `100·class + pointee` (class: 0 void, 1 int, 2 double, 3 pointer,
4 `xrlComplex` by value, 5 `size_t`, 6 float, 7 `struct compoundData` by value); pointee 0 on the binding
side means "the language does not say" (Fortran `TYPE(C_PTR)`, Pascal `pointer`). -/
structure P where
  n : Nat
  ret : Nat
  args : List Nat
  deriving DecidableEq, Repr

def tyOk (b c : Nat) : Bool := b / 100 == c / 100 && (b % 100 == 0 || b % 100 == c % 100)

def tysOk : List Nat → List Nat → Bool
  | [], [] => true
  | b :: bs, c :: cs => tyOk b c && tysOk bs cs
  | _, _ => false

/-- same arity, every argument and the result agree under the type map -/
def P.ok (b c : P) : Bool := tyOk b.ret c.ret && tysOk b.args c.args

/-- Every function the binding declares is a C function of that name with the same arity and types. -/
def ProtosAgree (B H : List P) : Prop := ∀ b ∈ B, ∃ h ∈ H, h.n = b.n ∧ b.ok h = true

def ProtosAgreeExcept (X : List Nat) (B H : List P) : Prop :=
  ∀ b ∈ B, b.n ∉ X → ∃ h ∈ H, h.n = b.n ∧ b.ok h = true

def ProtoWrongAt (n : Nat) (B H : List P) : Prop :=
  ∃ b ∈ B, b.n = n ∧ ∀ h ∈ H, h.n = n → b.ok h = false

/-- merge-walk: `B` ascending (duplicates allowed), `H` ascending -/
def protoWalk (X : List Nat) : Nat → List P → List P → Bool
  | 0, _, _ => false
  | _ + 1, [], _ => true
  | f + 1, b :: bs, [] => X.contains b.n && protoWalk X f bs []
  | f + 1, b :: bs, h :: hs =>
      if h.n < b.n then protoWalk X f (b :: bs) hs
      else if h.n = b.n then (b.ok h || X.contains b.n) && protoWalk X f bs (h :: hs)
      else X.contains b.n && protoWalk X f bs (h :: hs)

def protoB (X : List Nat) (B H : List P) : Bool := protoWalk X (B.length + H.length + 1) B H

theorem protoWalk_sound (X : List Nat) : ∀ (f : Nat) (B H : List P),
    protoWalk X f B H = true → ProtosAgreeExcept X B H
  | 0, _, _, h => by simp [protoWalk] at h
  | _ + 1, [], _, _ => by intro b hb; cases hb
  | f + 1, b :: bs, [], h => by
      simp only [protoWalk, Bool.and_eq_true] at h
      intro b' hb' nx
      rcases List.mem_cons.mp hb' with rfl | hb'
      · exact absurd (List.contains_iff_mem.mp h.1) nx
      · exact protoWalk_sound X f bs [] h.2 b' hb' nx
  | f + 1, b :: bs, h :: hs, hw => by
      unfold protoWalk at hw
      by_cases c1 : h.n < b.n
      · rw [if_pos c1] at hw
        intro b' hb' nx
        obtain ⟨h', hh', e⟩ := protoWalk_sound X f (b :: bs) hs hw b' hb' nx
        exact ⟨h', List.mem_cons_of_mem _ hh', e⟩
      · rw [if_neg c1] at hw
        by_cases c2 : h.n = b.n
        · rw [if_pos c2, Bool.and_eq_true, Bool.or_eq_true] at hw
          intro b' hb' nx
          rcases List.mem_cons.mp hb' with rfl | hb'
          · rcases hw.1 with v | x
            · exact ⟨h, List.mem_cons_self, c2, v⟩
            · exact absurd (List.contains_iff_mem.mp x) nx
          · exact protoWalk_sound X f bs (h :: hs) hw.2 b' hb' nx
        · rw [if_neg c2, Bool.and_eq_true] at hw
          intro b' hb' nx
          rcases List.mem_cons.mp hb' with rfl | hb'
          · exact absurd (List.contains_iff_mem.mp hw.1) nx
          · exact protoWalk_sound X f bs (h :: hs) hw.2 b' hb' nx

theorem protoB_sound {X : List Nat} {B H : List P} (h : protoB X B H = true) : ProtosAgreeExcept X B H :=
  protoWalk_sound X _ B H h

theorem protosAgreeExcept_nil {B H : List P} : ProtosAgreeExcept [] B H ↔ ProtosAgree B H := by
  constructor
  · intro h b hb; exact h b hb (by simp)
  · intro h b hb _; exact h b hb

def protoWrongB (X : List Nat) (B H : List P) : Bool :=
  X.all fun n => B.any fun b => b.n == n && H.all fun h => h.n != n || !(b.ok h)

theorem protoWrongB_sound {X : List Nat} {B H : List P} (hd : protoWrongB X B H = true) :
    ∀ n ∈ X, ProtoWrongAt n B H := by
  intro n hn
  have := (List.all_eq_true.mp hd) n hn
  obtain ⟨b, hb, hp⟩ := List.any_eq_true.mp this
  rw [Bool.and_eq_true] at hp
  refine ⟨b, hb, by simpa using hp.1, ?_⟩
  intro h hh e
  have := (List.all_eq_true.mp hp.2) h hh
  simp [e] at this
  exact this

theorem protos_iff_no_known {X : List Nat} {B H : List P}
    (hp : ProtosAgreeExcept X B H) (hd : ∀ n ∈ X, ProtoWrongAt n B H) : ProtosAgree B H ↔ X = [] := by
  constructor
  · intro ha
    cases X with
    | nil => rfl
    | cons n t =>
        obtain ⟨b, hb, e, hall⟩ := hd n (by simp)
        obtain ⟨h, hh, e2, ok⟩ := ha b hb
        have := hall h hh (e2.trans e)
        rw [ok] at this; cases this
  · intro hx; subst hx; exact protosAgreeExcept_nil.mp hp

/-! ### small membership checkers (quadratic; used on tables of a few dozen entries) -/

def allMemB (A B : List Nat) : Bool := A.all fun a => B.contains a

theorem allMemB_sound {A B : List Nat} (h : allMemB A B = true) : ∀ a ∈ A, a ∈ B := by
  intro a ha
  exact List.contains_iff_mem.mp ((List.all_eq_true.mp h) a ha)

def allMemPairB (A B : List (Nat × Nat)) : Bool := A.all fun a => B.contains a

theorem allMemPairB_sound {A B : List (Nat × Nat)} (h : allMemPairB A B = true) : ∀ a ∈ A, a ∈ B := by
  intro a ha
  exact List.contains_iff_mem.mp ((List.all_eq_true.mp h) a ha)

/-! ### wrapper ↔ bound symbol, visible signatures, record layouts (C20; added by the C20 clause audit) -/

/-- `c` is a function of the C table that returns `void` (a destructor / setter: the only C functions a wrapper may call
besides the one it is named after) -/
def isVoidFn (H : List P) (c : Nat) : Bool := H.any fun h => h.n == c && h.ret == 0

/-- Every (wrapper published as `w`, C function `c` it binds and calls) pair has `w = c`, or `c` is a helper: a `void` C
function or one of the listed libc functions. -/
def BindsSame (H : List P) (libc : List Nat) (calls : List (Nat × Nat)) : Prop :=
  ∀ p ∈ calls, p.1 = p.2 ∨ isVoidFn H p.2 = true ∨ p.2 ∈ libc

def bindsSameB (H : List P) (libc : List Nat) (calls : List (Nat × Nat)) : Bool :=
  calls.all fun p => p.1 == p.2 || isVoidFn H p.2 || libc.contains p.2

theorem bindsSameB_sound {H : List P} {libc : List Nat} {calls : List (Nat × Nat)}
    (h : bindsSameB H libc calls = true) : BindsSame H libc calls := by
  intro p hp
  have := (List.all_eq_true.mp h) p hp
  simp only [Bool.or_eq_true, beq_iff_eq] at this
  rcases this with (e | v) | l
  · exact Or.inl e
  · exact Or.inr (Or.inl v)
  · exact Or.inr (Or.inr (List.contains_iff_mem.mp l))

/-- Every wrapper named after a C function really binds and calls that function, unless it is one of the listed native
re-implementations (which bind nothing at all). -/
def BindsOwn (named native : List Nat) (calls : List (Nat × Nat)) : Prop :=
  ∀ w ∈ named, (w, w) ∈ calls ∨ w ∈ native

/-- the wrappers that bind the C function of their own name -/
def diagOf (calls : List (Nat × Nat)) : List Nat := (calls.filter fun p => p.1 == p.2).map (·.1)

/-- merge-walk (`named` and `calls` ascending), linear -/
def bindsOwnB (named native : List Nat) (calls : List (Nat × Nat)) : Bool :=
  completeB native named (diagOf calls)

theorem bindsOwnB_sound {named native : List Nat} {calls : List (Nat × Nat)}
    (h : bindsOwnB named native calls = true) : BindsOwn named native calls := by
  have h' := completeB_sound h
  intro w hw
  by_cases hn : w ∈ native
  · exact Or.inr hn
  · left
    have hm := h' w hw hn
    obtain ⟨p, hp, e⟩ := List.mem_map.mp hm
    have hp' := List.mem_filter.mp hp
    have e2 : p.1 = p.2 := by simpa using hp'.2
    have : p = (w, w) := by
      cases p with
      | mk a b => simp only at e e2; subst e; subst e2; rfl
    rw [← this]; exact hp'.1

/-- all pairs are diagonal (a foreign declaration published under its own name binds the C symbol of that name) -/
def allDiagB (l : List (Nat × Nat)) : Bool := l.all fun p => p.1 == p.2

theorem allDiagB_sound {l : List (Nat × Nat)} (h : allDiagB l = true) : ∀ p ∈ l, p.1 = p.2 := by
  intro p hp
  simpa using (List.all_eq_true.mp h) p hp

/-- parameter types a wrapper supplies itself and does not show to its caller: `xrl_error **` (302), the `int *` length
out-parameter of the list functions (304), the `Crystal_Array *` catalogue argument (307) -/
def hiddenTy (t : Nat) : Bool := t == 302 || t == 304 || t == 307

/-- the signature a wrapper shows to its caller -/
def P.vis (p : P) : P := { p with args := p.args.filter fun t => !hiddenTy t }

/-- One routine of an IDL declaration set: C spelling of the name, 1 = FUNCTION / 0 = PROCEDURE, minimum and maximum
number of positional arguments. -/
structure R where
  n : Nat
  fn : Nat
  min : Nat
  max : Nat
  deriving DecidableEq, Repr

/-- the routine is a C function of that name; it takes exactly the C function's visible parameters; an IDL FUNCTION wraps a
C function that returns a value -/
def R.ok (r : R) (h : P) : Bool :=
  h.n == r.n && r.min == r.max && r.max == h.vis.args.length && (r.fn == 0 || h.ret != 0)

def RoutinesAgree (B : List R) (H : List P) : Prop := ∀ r ∈ B, ∃ h ∈ H, r.ok h = true

/-- merge-walk: `B` and `H` ascending by name, linear -/
def routineWalk : Nat → List R → List P → Bool
  | 0, _, _ => false
  | _ + 1, [], _ => true
  | _ + 1, _ :: _, [] => false
  | f + 1, r :: rs, h :: hs =>
      if h.n < r.n then routineWalk f (r :: rs) hs else r.ok h && routineWalk f rs (h :: hs)

def routinesB (B : List R) (H : List P) : Bool := routineWalk (B.length + H.length + 1) B H

theorem routineWalk_sound : ∀ (f : Nat) (B : List R) (H : List P), routineWalk f B H = true → RoutinesAgree B H
  | 0, _, _, h => by simp [routineWalk] at h
  | _ + 1, [], _, _ => by intro r hr; cases hr
  | _ + 1, _ :: _, [], h => by simp [routineWalk] at h
  | f + 1, r :: rs, h :: hs, hw => by
      unfold routineWalk at hw
      by_cases c1 : h.n < r.n
      · rw [if_pos c1] at hw
        intro r' hr'
        obtain ⟨x, hx, ok⟩ := routineWalk_sound f (r :: rs) hs hw r' hr'
        exact ⟨x, List.mem_cons_of_mem _ hx, ok⟩
      · rw [if_neg c1, Bool.and_eq_true] at hw
        intro r' hr'
        rcases List.mem_cons.mp hr' with rfl | hr'
        · exact ⟨h, List.mem_cons_self, hw.1⟩
        · exact routineWalk_sound f rs (h :: hs) hw.2 r' hr'

theorem routinesB_sound {B : List R} {H : List P} (h : routinesB B H = true) : RoutinesAgree B H :=
  routineWalk_sound _ B H h

/-- A record type: name of the C struct it stands for and the fields (name, type code) in declaration order. -/
structure S where
  n : Nat
  fields : List (Nat × Nat)
  deriving DecidableEq, Repr

/-- same number of fields, same names in the same order, types agree under the type map -/
def fieldsOk : List (Nat × Nat) → List (Nat × Nat) → Bool
  | [], [] => true
  | b :: bs, c :: cs => b.1 == c.1 && tyOk b.2 c.2 && fieldsOk bs cs
  | _, _ => false

/-- Every record the binding declares is a C struct with the same field sequence. -/
def StructsAgree (B H : List S) : Prop := ∀ b ∈ B, ∃ h ∈ H, h.n = b.n ∧ fieldsOk b.fields h.fields = true

def structsB (B H : List S) : Bool := B.all fun b => H.any fun h => h.n == b.n && fieldsOk b.fields h.fields

theorem structsB_sound {B H : List S} (h : structsB B H = true) : StructsAgree B H := by
  intro b hb
  have := (List.all_eq_true.mp h) b hb
  obtain ⟨x, hx, ok⟩ := List.any_eq_true.mp this
  rw [Bool.and_eq_true] at ok
  exact ⟨x, hx, by simpa using ok.1, ok.2⟩

/-- every declared member is a member of the C struct with an agreeing type (declarations that do not fix the layout) -/
def fieldsSub (b c : List (Nat × Nat)) : Bool := b.all fun f => c.any fun g => g.1 == f.1 && tyOk f.2 g.2

def StructMembersAgree (B H : List S) : Prop := ∀ b ∈ B, ∃ h ∈ H, h.n = b.n ∧ fieldsSub b.fields h.fields = true

def structMembersB (B H : List S) : Bool := B.all fun b => H.any fun h => h.n == b.n && fieldsSub b.fields h.fields

theorem structMembersB_sound {B H : List S} (h : structMembersB B H = true) : StructMembersAgree B H := by
  intro b hb
  have := (List.all_eq_true.mp h) b hb
  obtain ⟨x, hx, ok⟩ := List.any_eq_true.mp this
  rw [Bool.and_eq_true] at ok
  exact ⟨x, hx, by simpa using ok.1, ok.2⟩

/-- every name of `X` is a member of one of the families and absent from the binding (several families, one known list) -/
theorem complete_all_iff_no_known {X B : List Nat} {Fs : List (List Nat)}
    (hp : ∀ F ∈ Fs, CompleteExcept X F B) (hm : ∀ n ∈ X, (∃ F ∈ Fs, n ∈ F) ∧ n ∉ B) :
    (∀ F ∈ Fs, Complete F B) ↔ X = [] := by
  constructor
  · intro hc
    cases X with
    | nil => rfl
    | cons n t =>
        obtain ⟨⟨F, hF, hn⟩, hb⟩ := hm n (by simp)
        exact absurd (hc F hF n hn) hb
  · intro hx; subst hx
    intro F hF
    exact completeExcept_nil.mp (hp F hF)

/-- merge-walk: no element of `A` occurs in `B` (both strictly ascending), linear -/
def disjointWalk : Nat → List Nat → List Nat → Bool
  | 0, _, _ => false
  | _ + 1, [], _ => true
  | _ + 1, _ :: _, [] => true
  | f + 1, a :: as, b :: bs =>
      if a < b then disjointWalk f as (b :: bs) else if a = b then false else disjointWalk f (a :: as) bs

theorem disjointWalk_sound : ∀ (f : Nat) (A B : List Nat), Sorted A → Sorted B → disjointWalk f A B = true →
    ∀ a ∈ A, a ∉ B
  | 0, _, _, _, _, h => by simp [disjointWalk] at h
  | _ + 1, [], _, _, _, _ => by intro a ha; cases ha
  | _ + 1, _ :: _, [], _, _, _ => by intro a _ hb; cases hb
  | f + 1, a :: as, b :: bs, sA, sB, hw => by
      have sA' := Sorted.tail sA
      have sB' := Sorted.tail sB
      have hA := Sorted.head_lt sA
      have hB := Sorted.head_lt sB
      unfold disjointWalk at hw
      by_cases c1 : a < b
      · rw [if_pos c1] at hw
        have ih := disjointWalk_sound f as (b :: bs) sA' sB hw
        intro x hx hxb
        rcases List.mem_cons.mp hx with rfl | hx
        · rcases List.mem_cons.mp hxb with rfl | hxb
          · exact Nat.lt_irrefl _ c1
          · have := hB x hxb; omega
        · exact ih x hx hxb
      · rw [if_neg c1] at hw
        by_cases c2 : a = b
        · rw [if_pos c2] at hw; cases hw
        · rw [if_neg c2] at hw
          have ih := disjointWalk_sound f (a :: as) bs sA sB' hw
          intro x hx hxb
          rcases List.mem_cons.mp hxb with rfl | hxb
          · rcases List.mem_cons.mp hx with rfl | hx
            · exact c2 rfl
            · have := hA x hx; omega
          · exact ih x hx hxb

/-- merge-walk: the elements of `X` that were not met in `F` (exact when both are ascending; for soundness only
"an element is dropped only when it was met in `F`" matters) -/
def subtractWalk : Nat → List Nat → List Nat → List Nat
  | 0, X, _ => X
  | _ + 1, [], _ => []
  | _ + 1, x :: xs, [] => x :: xs
  | f + 1, x :: xs, b :: bs =>
      if x < b then x :: subtractWalk f xs (b :: bs)
      else if x = b then subtractWalk f xs bs
      else subtractWalk f (x :: xs) bs

theorem subtractWalk_sound : ∀ (f : Nat) (X F : List Nat), ∀ n ∈ X, n ∈ F ∨ n ∈ subtractWalk f X F
  | 0, _, _, n, hn => Or.inr (by simpa [subtractWalk] using hn)
  | _ + 1, [], _, n, hn => by cases hn
  | _ + 1, x :: xs, [], n, hn => Or.inr (by simpa [subtractWalk] using hn)
  | f + 1, x :: xs, b :: bs, n, hn => by
      unfold subtractWalk
      by_cases c1 : x < b
      · rw [if_pos c1]
        rcases List.mem_cons.mp hn with rfl | hn
        · exact Or.inr List.mem_cons_self
        · rcases subtractWalk_sound f xs (b :: bs) n hn with h | h
          · exact Or.inl h
          · exact Or.inr (List.mem_cons_of_mem _ h)
      · rw [if_neg c1]
        by_cases c2 : x = b
        · rw [if_pos c2]
          rcases List.mem_cons.mp hn with rfl | hn
          · exact Or.inl (by rw [c2]; exact List.mem_cons_self)
          · rcases subtractWalk_sound f xs bs n hn with h | h
            · exact Or.inl (List.mem_cons_of_mem _ h)
            · exact Or.inr h
        · rw [if_neg c2]
          rcases subtractWalk_sound f (x :: xs) bs n hn with h | h
          · exact Or.inl (List.mem_cons_of_mem _ h)
          · exact Or.inr h

/-- what is left of `X` after subtracting every list of `Fs` -/
def subtractAll : List Nat → List (List Nat) → List Nat
  | X, [] => X
  | X, F :: Fs => subtractAll (subtractWalk (X.length + F.length + 1) X F) Fs

theorem subtractAll_sound : ∀ (Fs : List (List Nat)) (X : List Nat), ∀ n ∈ X, (∃ F ∈ Fs, n ∈ F) ∨ n ∈ subtractAll X Fs
  | [], _, n, hn => Or.inr (by simpa [subtractAll] using hn)
  | F :: Fs, X, n, hn => by
      rcases subtractWalk_sound (X.length + F.length + 1) X F n hn with h | h
      · exact Or.inl ⟨F, List.mem_cons_self, h⟩
      · rcases subtractAll_sound Fs _ n h with ⟨G, hG, hn'⟩ | h'
        · exact Or.inl ⟨G, List.mem_cons_of_mem _ hG, hn'⟩
        · exact Or.inr (by simpa [subtractAll] using h')

/-- every name of `X` belongs to one of the families and is absent from the binding; linear in all tables -/
def missingAnyB (X : List Nat) (Fs : List (List Nat)) (B : List Nat) : Bool :=
  (subtractAll X Fs).isEmpty && sortedB X && sortedB B && disjointWalk (X.length + B.length + 1) X B

theorem missingAnyB_sound {X B : List Nat} {Fs : List (List Nat)} (h : missingAnyB X Fs B = true) :
    ∀ n ∈ X, (∃ F ∈ Fs, n ∈ F) ∧ n ∉ B := by
  simp only [missingAnyB, Bool.and_eq_true] at h
  intro n hn
  refine ⟨?_, disjointWalk_sound _ X B (sortedB_sound _ h.1.1.2) (sortedB_sound _ h.1.2) h.2 n hn⟩
  rcases subtractAll_sound Fs X n hn with e | r
  · exact e
  · rw [List.isEmpty_iff.mp h.1.1.1] at r; cases r

/-- a native re-implementation has no foreign declaration in its scope -/
def nativeFreeB (native : List Nat) (calls : List (Nat × Nat)) : Bool :=
  native.all fun w => calls.all fun p => p.1 != w

theorem nativeFreeB_sound {native : List Nat} {calls : List (Nat × Nat)} (h : nativeFreeB native calls = true) :
    ∀ w ∈ native, ∀ p ∈ calls, p.1 ≠ w := by
  intro w hw p hp
  have := (List.all_eq_true.mp ((List.all_eq_true.mp h) w hw)) p hp
  simpa using this

end XrlL4
