/-
  C15 — built-in databases are self-consistent and addressable in every documented way.

  Tables (`Gen.C15.*`) are regenerated on every check by tools/gen_c15.py from the repository's current sources
  (and, for the line energies, from the library built from the working tree).  Everything below is decided by the
  kernel (`decide +kernel`) on exact scaled integers; no `Float`.

  The generic part — by-name, by-index and the list agree for ANY entry list with distinct names, out-of-range
  index ⇒ error, deep copies are independent — is proved in `XrlL4/Catalogue.lean` and instantiated here on the
  shipped catalogues (whose names are shown distinct).
-/
import XrlL4.CatalogueSpec
import XrlL4.Gen.C15

namespace XrlL4.C15
open XrlL4 XrlL4.Gen.C15 XrlL4.Catalogue

/-! ## 1. Mendeleev table -/

/-- the table as a catalogue keyed by symbol, payload Z -/
def mendelCat : List (Nat × Nat) := mendel.map fun e => (e.2, e.1)

/-- `AtomicNumberToSymbol` (src/xraylib-parser.c:455-462): `MendelArray[Z-1].name` for 1 ≤ Z ≤ MENDEL_MAX -/
def symbolOf (Z : Nat) : Option Nat := (byIndex mendelCat ((Z : Int) - 1)).map (·.1)

/-- `SymbolToAtomicNumber` (src/xraylib-parser.c:464-479): first entry with that name → its `Zatom` -/
def zOf (s : Nat) : Option Nat := (byName mendelCat s).map (·.2)

theorem mendel_size : mendel.length = MENDEL_MAX ∧ mendel.map (·.1) = List.range' 1 MENDEL_MAX ∧ (names mendelCat).Nodup := by
  decide +kernel

/-- **symbol ↔ atomic number is a bijection** between {1..MENDEL_MAX} and the symbols of the table -/
theorem mendel_bijection :
    (∀ Z : Nat, 1 ≤ Z → Z ≤ MENDEL_MAX → ∃ s, symbolOf Z = some s ∧ zOf s = some Z) ∧
    (∀ s Z : Nat, zOf s = some Z → 1 ≤ Z ∧ Z ≤ MENDEL_MAX ∧ symbolOf Z = some s) ∧
    (∀ Z : Nat, Z = 0 ∨ MENDEL_MAX < Z → symbolOf Z = none) := by
  refine ⟨?_, ?_, ?_⟩
  · have h : (List.range' 1 MENDEL_MAX).all (fun Z => decide (∃ s ∈ names mendelCat, symbolOf Z = some s ∧ zOf s = some Z)) = true := by
      decide +kernel
    intro Z h1 h2
    obtain ⟨s, _, hs⟩ := forall_of_all h Z (List.mem_range'_1.mpr ⟨h1, by omega⟩)
    exact ⟨s, hs⟩
  · have h : mendelCat.all (fun e => decide (1 ≤ e.2 ∧ e.2 ≤ MENDEL_MAX ∧ symbolOf e.2 = some e.1)) = true := by decide +kernel
    intro s Z hz
    unfold zOf at hz
    cases hb : byName mendelCat s with
    | none => rw [hb] at hz; cases hz
    | some e =>
        rw [hb] at hz
        have hZ : e.2 = Z := by simpa using hz
        have hs := (byName_some hb).1
        have := forall_of_all h e (List.mem_of_find?_eq_some hb)
        rw [hZ, hs] at this
        exact this
  · intro Z hZ
    unfold symbolOf
    rw [byIndex_out_of_range]
    · rfl
    · have hl : mendelCat.length = MENDEL_MAX := by decide +kernel
      rcases hZ with h | h
      · left; omega
      · right; rw [hl]; omega

/-- the sorted twin used by the parser's `bsearch` is the same table, in strictly ascending `strcmp` order -/
theorem mendel_sorted_twin :
    mendelSorted.length = mendel.length ∧ (∀ e ∈ mendelSorted, e ∈ mendel) ∧ (∀ e ∈ mendel, e ∈ mendelSorted) ∧
    strSorted (mendelSorted.map (·.2)) = true := by
  refine ⟨by decide +kernel, ?_, ?_, by decide +kernel⟩
  · exact forall_of_all (by decide +kernel)
  · exact forall_of_all (by decide +kernel)

/-! ## 2. NIST compounds -/

/-- |Σ massFractions − 1| ≤ 2·10⁻⁶ is what the shipped table satisfies (worst entry: "Glass, Pyrex", 1.000002);
the design's 10⁻⁵ follows. -/
def nistTol : Nat := 2 * nistScale / 1000000

def NistOk (e : NistEntry) : Prop :=
  e.n = e.elems.length ∧ e.n = e.fracs.length ∧ 0 < e.n ∧
  ascending e.elems = true ∧ (∀ z ∈ e.elems, 1 ≤ z ∧ z ≤ ZMAX) ∧
  (∀ f ∈ e.fracs, 0 < f) ∧
  e.fracs.sum ≤ nistScale + nistTol ∧ nistScale ≤ e.fracs.sum + nistTol ∧
  0 < e.density

instance : DecidablePred NistOk := fun e => by unfold NistOk; exact inferInstance

theorem nist_wellformed : nist.length = nNist ∧ (nist.map (·.name)).Nodup ∧ ∀ e ∈ nist, NistOk e :=
  ⟨by decide +kernel, by decide +kernel, forall_of_all (by decide +kernel)⟩

/-- the i-th entry's macro (`NIST_COMPOUND_` ++ spelled name) is defined and equals i; there are exactly as many macros
as entries, so macros and entries correspond one to one -/
def MacrosMatch (pfx : Nat) (names : List Nat) (macros : List (Nat × Int)) : Prop :=
  macros.length = names.length ∧
  ∀ p ∈ names.zipIdx, lookupMacro (macroName pfx p.1) macros = some (p.2 : Int)

instance (pfx : Nat) (ns : List Nat) (ms : List (Nat × Int)) : Decidable (MacrosMatch pfx ns ms) := by
  unfold MacrosMatch; exact inferInstance

theorem nist_macros_match_order : MacrosMatch nistPrefix (nist.map (·.name)) nistMacros := by
  refine ⟨by decide +kernel, forall_of_all (by decide +kernel)⟩

/-! ## 3. radionuclides -/

/-- energy (floor(keV·10⁹)) the library returns for line macro `l` of element `Z`; only single-line macros (negative)
occur in the catalogue -/
def lineEnergy (Z : Nat) (l : Int) : Nat :=
  match lineRows.find? (fun r => r.1 = Z) with
  | none => 0
  | some r => if l < 0 then r.2.getD ((-l).toNat - 1) 0 else 0

/-- the name a nuclide must carry: decimal A followed by the symbol of Z -/
def nuclideName (e : NuclideEntry) : Option Nat := (symbolOf e.Z).map fun s => codeOf (digits e.A ++ bytes s)

def NuclideOk (e : NuclideEntry) : Prop :=
  e.A = e.Z + e.N ∧
  nuclideName e = some e.name ∧
  e.nX = e.lines.length ∧ e.nX = e.xint.length ∧ e.nG = e.gE.length ∧ e.nG = e.gI.length ∧
  1 ≤ e.Zx ∧ e.Zx ≤ ZMAX ∧
  (∀ l ∈ e.lines, l < 0 ∧ 0 < lineEnergy e.Zx l) ∧
  (∀ x ∈ e.xint, 0 < x) ∧ (∀ x ∈ e.gE, 0 < x) ∧ (∀ x ∈ e.gI, 0 < x)

instance : DecidablePred NuclideOk := fun e => by unfold NuclideOk; exact inferInstance

theorem nuclide_wellformed : nuclides.length = nNuclides ∧ (nuclides.map (·.name)).Nodup ∧ ∀ e ∈ nuclides, NuclideOk e :=
  ⟨by decide +kernel, by decide +kernel, forall_of_all (by decide +kernel)⟩

theorem nuclide_macros : MacrosMatch nuclidePrefix (nuclides.map (·.name)) nuclideMacros := by
  refine ⟨by decide +kernel, forall_of_all (by decide +kernel)⟩

/-! ## 4. crystals -/

def CrystalOk (c : CrystalEntry) : Prop :=
  c.nAtom = c.atoms.length ∧ c.nDecl = c.nAtom ∧ 0 < c.nAtom ∧
  ∀ a ∈ c.atoms, 1 ≤ a.1 ∧ a.1 ≤ (ZMAX : Int) ∧ 0 < a.2.1 ∧ a.2.1 ≤ (crystalScale : Int)

instance : DecidablePred CrystalOk := fun c => by unfold CrystalOk; exact inferInstance

/-- valid atomic number and occupancy in (0, 1] for every atom of every crystal; the table is in strictly ascending
`strcmp` order (by-name lookup is a `bsearch`, src/crystal_diffraction.c:56-60), hence names are distinct -/
theorem crystal_atoms_valid :
    crystals.length = nCrystals ∧ strSorted (crystals.map (·.name)) = true ∧ (crystals.map (·.name)).Nodup ∧
    ∀ c ∈ crystals, CrystalOk c :=
  ⟨by decide +kernel, by decide +kernel, by decide +kernel, forall_of_all (by decide +kernel)⟩

/-! ## 5. the three ways of addressing agree — the generic theorems, instantiated on the shipped catalogues -/

def nistCat : List (Nat × NistEntry) := nist.map fun e => (e.name, e)
def nuclideCat : List (Nat × NuclideEntry) := nuclides.map fun e => (e.name, e)
def crystalCat : List (Nat × CrystalEntry) := crystals.map fun e => (e.name, e)

theorem lookups_agree_nist : Addressable nistCat := addressable nistCat (by rw [nistCat, names_map]; exact nist_wellformed.2.1)
theorem lookups_agree_nuclides : Addressable nuclideCat := addressable nuclideCat (by rw [nuclideCat, names_map]; exact nuclide_wellformed.2.1)
theorem lookups_agree_crystals : Addressable crystalCat := addressable crystalCat (by rw [crystalCat, names_map]; exact crystal_atoms_valid.2.2.1)
theorem lookups_agree_mendel : Addressable mendelCat := addressable mendelCat mendel_size.2.2

/-- non-vacuity: the hypothesis of the generic theorems holds for a concrete non-trivial list, and fails when a name repeats -/
example : (names [((1 : Nat), "a"), (2, "b"), (3, "c")]).Nodup := by decide
example : byName [((1 : Nat), "a"), (1, "b")] 1 ≠ byIndex [((1 : Nat), "a"), (1, "b")] 1 := by decide
example : nist.length = 180 ∧ nuclides.length = 10 ∧ crystals.length = 38 ∧ mendel.length = 107 := by decide +kernel
example : macroName nistPrefix (codeOf (bytes 0x41622c20632d64)) = codeOf (bytes nistPrefix ++ [65, 66, 95, 67, 95, 68]) := by decide +kernel

end XrlL4.C15
