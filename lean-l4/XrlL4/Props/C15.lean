/-
  C15 — built-in databases are self-consistent and addressable in every documented way.

  Tables (`Gen.C15.*`) are regenerated on every check by tools/gen_c15.py from the repository's current sources
  (and, for the line energies, from the library built from the working tree).  Everything below is decided by the
  kernel (`decide +kernel`) on exact scaled integers; no `Float`.

  The generic part — by-name, by-index and the list agree for ANY entry list with distinct names, out-of-range
  index ⇒ error, deep copies are independent — is proved in `XrlL4/Catalogue.lean` and instantiated here on the
  shipped catalogues (whose names are shown distinct).
-/
import XrlL4.CatalogueSpec
import XrlL4.Gen.C15
import XrlL4.Gen.C15Copy

namespace XrlL4.C15
open XrlL4 XrlL4.Gen.C15 XrlL4.Catalogue

/-! ## 1. Mendeleev table -/

/-- the table as a catalogue keyed by symbol, payload Z -/
def mendelCat : List (Nat × Nat) := mendel.map fun e => (e.2, e.1)

/-- `AtomicNumberToSymbol` (src/xraylib-parser.c:455-462): `MendelArray[Z-1].name` for 1 ≤ Z ≤ MENDEL_MAX -/
def symbolOf (Z : Nat) : Option Nat := (byIndex mendelCat ((Z : Int) - 1)).map (·.1)

/-- `SymbolToAtomicNumber` (src/xraylib-parser.c:464-479): first entry with that name → its `Zatom` -/
def zOf (s : Nat) : Option Nat := (byName mendelCat s).map (·.2)

theorem mendel_size : mendel.length = MENDEL_MAX ∧ mendel.map (·.1) = List.range' 1 MENDEL_MAX ∧ (names mendelCat).Nodup := by
  decide +kernel

/-- **symbol ↔ atomic number is a bijection** between {1..MENDEL_MAX} and the symbols of the table -/
theorem mendel_bijection :
    (∀ Z : Nat, 1 ≤ Z → Z ≤ MENDEL_MAX → ∃ s, symbolOf Z = some s ∧ zOf s = some Z) ∧
    (∀ s Z : Nat, zOf s = some Z → 1 ≤ Z ∧ Z ≤ MENDEL_MAX ∧ symbolOf Z = some s) ∧
    (∀ Z : Nat, Z = 0 ∨ MENDEL_MAX < Z → symbolOf Z = none) := by
  refine ⟨?_, ?_, ?_⟩
  · have h : (List.range' 1 MENDEL_MAX).all (fun Z => decide (∃ s ∈ names mendelCat, symbolOf Z = some s ∧ zOf s = some Z)) = true := by
      decide +kernel
    intro Z h1 h2
    obtain ⟨s, _, hs⟩ := forall_of_all h Z (List.mem_range'_1.mpr ⟨h1, by omega⟩)
    exact ⟨s, hs⟩
  · have h : mendelCat.all (fun e => decide (1 ≤ e.2 ∧ e.2 ≤ MENDEL_MAX ∧ symbolOf e.2 = some e.1)) = true := by decide +kernel
    intro s Z hz
    unfold zOf at hz
    cases hb : byName mendelCat s with
    | none => rw [hb] at hz; cases hz
    | some e =>
        rw [hb] at hz
        have hZ : e.2 = Z := by simpa using hz
        have hs := (byName_some hb).1
        have := forall_of_all h e (List.mem_of_find?_eq_some hb)
        rw [hZ, hs] at this
        exact this
  · intro Z hZ
    unfold symbolOf
    rw [byIndex_out_of_range]
    · rfl
    · have hl : mendelCat.length = MENDEL_MAX := by decide +kernel
      rcases hZ with h | h
      · left; omega
      · right; rw [hl]; omega

/-- the sorted twin used by the parser's `bsearch` is the same table, in strictly ascending `strcmp` order -/
theorem mendel_sorted_twin :
    mendelSorted.length = mendel.length ∧ (∀ e ∈ mendelSorted, e ∈ mendel) ∧ (∀ e ∈ mendel, e ∈ mendelSorted) ∧
    strSorted (mendelSorted.map (·.2)) = true := by
  refine ⟨by decide +kernel, ?_, ?_, by decide +kernel⟩
  · exact forall_of_all (by decide +kernel)
  · exact forall_of_all (by decide +kernel)

/-! ## 2. NIST compounds -/

/-- |Σ massFractions − 1| ≤ 2·10⁻⁶ is what the shipped table satisfies (worst entry: "Glass, Pyrex", 1.000002);
the design's 10⁻⁵ follows. -/
def nistTol : Nat := 2 * nistScale / 1000000

def NistOk (e : NistEntry) : Prop :=
  e.n = e.elems.length ∧ e.n = e.fracs.length ∧ 0 < e.n ∧
  ascending e.elems = true ∧ (∀ z ∈ e.elems, 1 ≤ z ∧ z ≤ ZMAX) ∧
  (∀ f ∈ e.fracs, 0 < f) ∧
  e.fracs.sum ≤ nistScale + nistTol ∧ nistScale ≤ e.fracs.sum + nistTol ∧
  0 < e.density

instance : DecidablePred NistOk := fun e => by unfold NistOk; exact inferInstance

theorem nist_wellformed : nist.length = nNist ∧ (nist.map (·.name)).Nodup ∧ ∀ e ∈ nist, NistOk e :=
  ⟨by decide +kernel, by decide +kernel, forall_of_all (by decide +kernel)⟩

/-- the i-th entry's macro (`NIST_COMPOUND_` ++ spelled name) is defined and equals i; there are exactly as many macros
as entries, so macros and entries correspond one to one -/
def MacrosMatch (pfx : Nat) (names : List Nat) (macros : List (Nat × Int)) : Prop :=
  macros.length = names.length ∧
  ∀ p ∈ names.zipIdx, lookupMacro (macroName pfx p.1) macros = some (p.2 : Int)

instance (pfx : Nat) (ns : List Nat) (ms : List (Nat × Int)) : Decidable (MacrosMatch pfx ns ms) := by
  unfold MacrosMatch; exact inferInstance

theorem nist_macros_match_order : MacrosMatch nistPrefix (nist.map (·.name)) nistMacros := by
  refine ⟨by decide +kernel, forall_of_all (by decide +kernel)⟩

/-! ## 3. radionuclides -/

/-- energy (floor(keV·10⁹)) the library returns for line macro `l` of element `Z`; only single-line macros (negative)
occur in the catalogue -/
def lineEnergy (Z : Nat) (l : Int) : Nat :=
  match lineRows.find? (fun r => r.1 = Z) with
  | none => 0
  | some r => if l < 0 then r.2.getD ((-l).toNat - 1) 0 else 0

/-- the name a nuclide must carry: decimal A followed by the symbol of Z -/
def nuclideName (e : NuclideEntry) : Option Nat := (symbolOf e.Z).map fun s => codeOf (digits e.A ++ bytes s)

def NuclideOk (e : NuclideEntry) : Prop :=
  e.A = e.Z + e.N ∧
  nuclideName e = some e.name ∧
  e.nX = e.lines.length ∧ e.nX = e.xint.length ∧ e.nG = e.gE.length ∧ e.nG = e.gI.length ∧
  1 ≤ e.Zx ∧ e.Zx ≤ ZMAX ∧
  (∀ l ∈ e.lines, l < 0 ∧ 0 < lineEnergy e.Zx l) ∧
  (∀ x ∈ e.xint, 0 < x) ∧ (∀ x ∈ e.gE, 0 < x) ∧ (∀ x ∈ e.gI, 0 < x)

instance : DecidablePred NuclideOk := fun e => by unfold NuclideOk; exact inferInstance

theorem nuclide_wellformed : nuclides.length = nNuclides ∧ (nuclides.map (·.name)).Nodup ∧ ∀ e ∈ nuclides, NuclideOk e :=
  ⟨by decide +kernel, by decide +kernel, forall_of_all (by decide +kernel)⟩

theorem nuclide_macros : MacrosMatch nuclidePrefix (nuclides.map (·.name)) nuclideMacros := by
  refine ⟨by decide +kernel, forall_of_all (by decide +kernel)⟩

/-! ## 4. crystals -/

def CrystalOk (c : CrystalEntry) : Prop :=
  c.nAtom = c.atoms.length ∧ c.nDecl = c.nAtom ∧ 0 < c.nAtom ∧
  ∀ a ∈ c.atoms, 1 ≤ a.1 ∧ a.1 ≤ (ZMAX : Int) ∧ 0 < a.2.1 ∧ a.2.1 ≤ (crystalScale : Int)

instance : DecidablePred CrystalOk := fun c => by unfold CrystalOk; exact inferInstance

/-- valid atomic number and occupancy in (0, 1] for every atom of every crystal; the table is in strictly ascending
`strcmp` order (by-name lookup is a `bsearch`, src/crystal_diffraction.c:56-60), hence names are distinct -/
theorem crystal_atoms_valid :
    crystals.length = nCrystals ∧ strSorted (crystals.map (·.name)) = true ∧ (crystals.map (·.name)).Nodup ∧
    ∀ c ∈ crystals, CrystalOk c :=
  ⟨by decide +kernel, by decide +kernel, by decide +kernel, forall_of_all (by decide +kernel)⟩

/-! ## 5. the three ways of addressing agree — the generic theorems, instantiated on the shipped catalogues -/

def nistCat : List (Nat × NistEntry) := nist.map fun e => (e.name, e)
def nuclideCat : List (Nat × NuclideEntry) := nuclides.map fun e => (e.name, e)
def crystalCat : List (Nat × CrystalEntry) := crystals.map fun e => (e.name, e)

theorem lookups_agree_nist : Addressable nistCat := addressable nistCat (by rw [nistCat, names_map]; exact nist_wellformed.2.1)
theorem lookups_agree_nuclides : Addressable nuclideCat := addressable nuclideCat (by rw [nuclideCat, names_map]; exact nuclide_wellformed.2.1)
theorem lookups_agree_crystals : Addressable crystalCat := addressable crystalCat (by rw [crystalCat, names_map]; exact crystal_atoms_valid.2.2.1)
theorem lookups_agree_mendel : Addressable mendelCat := addressable mendelCat mendel_size.2.2

/-- non-vacuity: the hypothesis of the generic theorems holds for a concrete non-trivial list, and fails when a name repeats -/
example : (names [((1 : Nat), "a"), (2, "b"), (3, "c")]).Nodup := by decide
example : byName [((1 : Nat), "a"), (1, "b")] 1 ≠ byIndex [((1 : Nat), "a"), (1, "b")] 1 := by decide
example : nist.length = 180 ∧ nuclides.length = 10 ∧ crystals.length = 38 ∧ mendel.length = 107 := by decide +kernel
example : macroName nistPrefix (codeOf (bytes 0x41622c20632d64)) = codeOf (bytes nistPrefix ++ [65, 66, 95, 67, 95, 68]) := by decide +kernel

/-! ## 6. every lookup returns an independent deep copy — pointer level

`Gen/C15Copy.lean` holds the statements with which the four lookup functions build the struct they return, and the
statements of the two `Free…` functions, transliterated from the clang AST of the working tree (tools/c15_copy.py).
`Copy.classify` reads off, member by member, whether it is copied, duplicated, deep-copied or merely pointer-assigned;
the theorems of `XrlL4/CopyModel.lean` then hold for ANY heap and ANY static entry. -/

open XrlL4.Copy XrlL4.Gen.C15Copy

/-- what `GetCompoundDataNISTByIndex` / `…ByName` must do to the members of `struct compoundDataNIST` -/
def nistKinds : List (String × Kind) :=
  [("name", .dupStr), ("nElements", .scalar), ("Elements", .deepArr "nElements"), ("massFractions", .deepArr "nElements"), ("density", .scalar)]

/-- what `GetRadioNuclideDataByIndex` / `…ByName` must do to the members of `struct radioNuclideData` -/
def nuclideKinds : List (String × Kind) :=
  [("name", .dupStr), ("Z", .scalar), ("A", .scalar), ("N", .scalar), ("Z_xray", .scalar), ("nXrays", .scalar),
   ("XrayLines", .deepArr "nXrays"), ("XrayIntensities", .deepArr "nXrays"), ("nGammas", .scalar),
   ("GammaEnergies", .deepArr "nGammas"), ("GammaIntensities", .deepArr "nGammas")]

/-- **the code of the working tree copies every member**: both NIST lookup functions duplicate the name, copy the scalars,
and allocate + `memcpy` each array with the element type of the member and the count member `nElements`; no member is
pointer-assigned, none is forgotten; `FreeCompoundDataNIST` releases exactly the three pointer members, then the struct. -/
theorem nist_lookups_copy_every_member :
    classify nistStruct nistFields nistByIndex = some nistKinds ∧ classify nistStruct nistFields nistByName = some nistKinds ∧
    AllDeep nistKinds = true ∧ (nistKinds.map (·.1)).Nodup ∧ nistFree = fieldSteps nistKinds ++ [.self] ∧ FreeMatches nistFields nistFree = true := by
  decide

theorem nuclide_lookups_copy_every_member :
    classify nuclideStruct nuclideFields nuclideByIndex = some nuclideKinds ∧ classify nuclideStruct nuclideFields nuclideByName = some nuclideKinds ∧
    AllDeep nuclideKinds = true ∧ (nuclideKinds.map (·.1)).Nodup ∧ nuclideFree = fieldSteps nuclideKinds ++ [.self] ∧
    FreeMatches nuclideFields nuclideFree = true := by
  decide

/-- what the ByName functions do before the success branch (the temporary key of `lfind`, released again), and the failure
guards of the ByIndex functions, are the ones the lookup model `Catalogue.byName` / `byIndex` stands for -/
theorem lookup_preludes_as_modelled :
    nistByNamePrelude = ["guard (key == NULL)", "guard (compoundString == NULL)", "key->name = xrl_strdup(compoundString)",
      "nelp = nCompoundDataNISTList", "rv = lfind(key, compoundDataNISTList, &nelp, sizeof(struct compoundDataNIST), CompareCompoundDataNIST)",
      "free(key->name)"] ∧
    nuclideByNamePrelude = ["guard (key == NULL)", "guard (radioNuclideString == NULL)", "key->name = xrl_strdup(radioNuclideString)",
      "nelp = nNuclideDataList", "rv = lfind(key, nuclideDataList, &nelp, sizeof(struct radioNuclideData), CompareRadioNuclideData)",
      "free(key->name)"] ∧
    nistByIndexGuards = ["if ((compoundIndex < 0) || (compoundIndex >= nCompoundDataNISTList))", "if (key == NULL)"] ∧
    nuclideByIndexGuards = ["if ((radioNuclideIndex < 0) || (radioNuclideIndex >= nNuclideDataList))", "if (key == NULL)"] := by
  decide

/-- **every lookup returns an independent deep copy** (NIST compounds and radionuclides, by name and by index): on any heap
`h` whose first `ns` cells are the static catalogue, for any static entry `src`, a successful lookup
* returns a struct in a cell that did not exist before and leaves every existing cell as it was,
* stores in it only pointers to cells that did not exist before, pairwise different, all live,
* so that whatever the caller writes to or releases among those cells cannot change an existing cell (`write_above`, `free_above`),
* and the `Free…` function of the working tree succeeds on it (no static object, no cell twice), leaves every cell that existed
  before the lookup as it was, and empties the struct and every cell it pointed to. -/
theorem catalogue_copies_independent (ks : List (String × Kind)) (hks : ks = nistKinds ∨ ks = nuclideKinds)
    (h h' : Heap) (ns src key : Nat) (hns : ns ≤ h.length) (hc : copyRec ks h src = some (h', key)) :
    h.length ≤ key ∧ (∀ a, a < h.length → read h' a = read h a) ∧
    (∃ vs, read h' key = some (.struct vs) ∧ Fresh h.length key h' (ptrsOf vs) ∧
      ∃ h'', freeRec ns (fieldSteps ks ++ [.self]) h' key = some h'' ∧ (∀ a, a < h.length → read h'' a = read h a) ∧
        ∀ p ∈ key :: ptrsOf vs, read h'' p = none) := by
  have hd : AllDeep ks = true ∧ (ks.map (·.1)).Nodup := by
    rcases hks with rfl | rfl
    · exact ⟨nist_lookups_copy_every_member.2.2.1, nist_lookups_copy_every_member.2.2.2.1⟩
    · exact ⟨nuclide_lookups_copy_every_member.2.2.1, nuclide_lookups_copy_every_member.2.2.2.1⟩
  obtain ⟨k1, _, k3⟩ := copy_frame hc
  obtain ⟨vs, hv1, hv2⟩ := copy_fresh hd.1 hc
  obtain ⟨h'', f1, f2, f3⟩ := free_releases hns hd.1 hd.2 hc
  exact ⟨k1, k3, vs, hv1, hv2, h'', f1, f2, f3 vs hv1⟩

/-- non-vacuity: a static "Water" entry (name, 2 elements, fractions, density) is looked up: the copy's pointers are the three
new cells 4, 5, 6, the struct is cell 7; `FreeCompoundDataNIST` then empties exactly cells 4..7 -/
def demoNist : Heap :=
  [some (.arr [87, 97, 116, 101, 114]), some (.arr [1, 8]), some (.arr [111894, 888106]),
   some (.struct [("name", .ptr 0), ("nElements", .num 2), ("Elements", .ptr 1), ("massFractions", .ptr 2), ("density", .num 1000000)])]

example : copyRec nistKinds demoNist 3 =
    some (demoNist ++ [some (.arr [87, 97, 116, 101, 114]), some (.arr [1, 8]), some (.arr [111894, 888106]),
      some (.struct [("name", .ptr 4), ("nElements", .num 2), ("Elements", .ptr 5), ("massFractions", .ptr 6), ("density", .num 1000000)])], 7) := by
  decide

example : (copyRec nistKinds demoNist 3).bind (fun r => freeRec 4 nistFree r.1 r.2) = some (demoNist ++ [none, none, none, none]) := by decide

/-- were `Elements` pointer-assigned (`key->Elements = rv->Elements`), the classification would say `shared` and the hypotheses of
`catalogue_copies_independent` would fail -/
example : classify nistStruct nistFields
    [.allocSelf "compoundDataNIST", .strdup "name" "name", .assign "nElements" "nElements", .assign "Elements" "Elements",
     .malloc "massFractions" "double" "nElements", .memcpy "massFractions" "massFractions" "double" "nElements", .assign "density" "density"] =
    some [("name", .dupStr), ("nElements", .scalar), ("Elements", .shared), ("massFractions", .deepArr "nElements"), ("density", .scalar)] := by
  decide

end XrlL4.C15
