/-
  C20 — every language binding declares the C API with the same constants and types.

  All tables (`Gen.C20.*`) are regenerated from the repository's current files by
  `tools/gen_c20.py` on every check; the statements below are the specifications of `Table.lean`
  (`Agree`, `Complete`, `ProtosAgree`, plain membership), decided in the kernel through the linear
  checkers and their soundness lemmas.

  Where the shipped files violate the statement there are three items side by side: the full statement
  as `def …_full : Prop`; `…_partial`, which excludes exactly the names of `Gen.C20.known_…` (the entries of
  `known_findings.txt` / `notes/proposed_findings/C20.txt` that reproduce on the current files); and
  `…_full_fails`, which proves — from one kernel-checked witness per excluded name — that the full
  statement holds iff that list is empty, i.e. it is refuted as long as one known finding reproduces.
-/
import XrlL4.Table
import XrlL4.Gen.C20

namespace XrlL4.C20
open XrlL4 XrlL4.Gen.C20

/-! ## 1. constants -/

/-- Fortran module `fortran/xraylib_wrap.F90`: every PARAMETER / ENUMERATOR with a C name has the C value. -/
def constants_agree_fortran_full : Prop := Agree const_fortran cconst

theorem constants_agree_fortran_partial : AgreeExcept known_const_fortran const_fortran cconst :=
  agreeB_sound (by decide +kernel)

theorem constants_agree_fortran_full_fails : constants_agree_fortran_full ↔ known_const_fortran = [] :=
  agree_iff_no_known constants_agree_fortran_partial (disagreeB_sound (by decide +kernel))

/-- Pascal unit `pascal/xraylib_const.pas`. -/
def constants_agree_pascal_full : Prop := Agree const_pascal cconst

theorem constants_agree_pascal_partial : AgreeExcept known_const_pascal const_pascal cconst :=
  agreeB_sound (by decide +kernel)

theorem constants_agree_pascal_full_fails : constants_agree_pascal_full ↔ known_const_pascal = [] :=
  agree_iff_no_known constants_agree_pascal_partial (disagreeB_sound (by decide +kernel))

/-- IDL: `idl/xraylib.pro` and the five files it `.run`s. -/
def constants_agree_idl_full : Prop := Agree const_idl cconst

theorem constants_agree_idl_partial : AgreeExcept known_const_idl const_idl cconst :=
  agreeB_sound (by decide +kernel)

theorem constants_agree_idl_full_fails : constants_agree_idl_full ↔ known_const_idl = [] :=
  agree_iff_no_known constants_agree_idl_partial (disagreeB_sound (by decide +kernel))

/-- Java `public static final` constants of `java/Xraylib.java`. -/
theorem constants_agree_java : Agree const_java cconst :=
  agreeExcept_nil.mp (agreeB_sound (by decide +kernel))

/-- Cython: every `NAME = xrl.X` of `xraylib_np.pyx`, through the alias `X "C_NAME"` of the `.pxd`, has the value
of the C macro called `NAME`. -/
theorem constants_agree_cython : Agree const_cython cconst :=
  agreeExcept_nil.mp (agreeB_sound (by decide +kernel))

/-! ## 2. families -/

theorem families_complete_fortran :
    Complete fam_SHELL names_fortran ∧ Complete fam_LINE names_fortran ∧ Complete fam_TRANS names_fortran ∧
    Complete fam_AUGER names_fortran ∧ Complete fam_NIST_COMPOUND names_fortran ∧ Complete fam_RADIO_NUCLIDE names_fortran :=
  ⟨completeExcept_nil.mp (completeB_sound (by decide +kernel)), completeExcept_nil.mp (completeB_sound (by decide +kernel)),
   completeExcept_nil.mp (completeB_sound (by decide +kernel)), completeExcept_nil.mp (completeB_sound (by decide +kernel)),
   completeExcept_nil.mp (completeB_sound (by decide +kernel)), completeExcept_nil.mp (completeB_sound (by decide +kernel))⟩

theorem families_complete_pascal :
    Complete fam_SHELL names_pascal ∧ Complete fam_LINE names_pascal ∧ Complete fam_TRANS names_pascal ∧
    Complete fam_AUGER names_pascal ∧ Complete fam_NIST_COMPOUND names_pascal ∧ Complete fam_RADIO_NUCLIDE names_pascal :=
  ⟨completeExcept_nil.mp (completeB_sound (by decide +kernel)), completeExcept_nil.mp (completeB_sound (by decide +kernel)),
   completeExcept_nil.mp (completeB_sound (by decide +kernel)), completeExcept_nil.mp (completeB_sound (by decide +kernel)),
   completeExcept_nil.mp (completeB_sound (by decide +kernel)), completeExcept_nil.mp (completeB_sound (by decide +kernel))⟩

theorem families_complete_java :
    Complete fam_SHELL names_java ∧ Complete fam_LINE names_java ∧ Complete fam_TRANS names_java ∧
    Complete fam_AUGER names_java ∧ Complete fam_NIST_COMPOUND names_java ∧ Complete fam_RADIO_NUCLIDE names_java :=
  ⟨completeExcept_nil.mp (completeB_sound (by decide +kernel)), completeExcept_nil.mp (completeB_sound (by decide +kernel)),
   completeExcept_nil.mp (completeB_sound (by decide +kernel)), completeExcept_nil.mp (completeB_sound (by decide +kernel)),
   completeExcept_nil.mp (completeB_sound (by decide +kernel)), completeExcept_nil.mp (completeB_sound (by decide +kernel))⟩

theorem families_complete_idl :
    Complete fam_SHELL names_idl ∧ Complete fam_LINE names_idl ∧ Complete fam_TRANS names_idl ∧
    Complete fam_AUGER names_idl ∧ Complete fam_NIST_COMPOUND names_idl ∧ Complete fam_RADIO_NUCLIDE names_idl :=
  ⟨completeExcept_nil.mp (completeB_sound (by decide +kernel)), completeExcept_nil.mp (completeB_sound (by decide +kernel)),
   completeExcept_nil.mp (completeB_sound (by decide +kernel)), completeExcept_nil.mp (completeB_sound (by decide +kernel)),
   completeExcept_nil.mp (completeB_sound (by decide +kernel)), completeExcept_nil.mp (completeB_sound (by decide +kernel))⟩

/-- Cython publishes the shell, line, Coster–Kronig and Auger families (it publishes no NIST-compound or radionuclide
index at all; the check verifies on every run that this is still so). -/
def families_complete_cython_full : Prop :=
  Complete fam_SHELL names_cython ∧ Complete fam_LINE names_cython ∧ Complete fam_TRANS names_cython ∧
  Complete fam_AUGER names_cython

theorem families_complete_cython_partial :
    Complete fam_SHELL names_cython ∧ CompleteExcept known_fam_cython fam_LINE names_cython ∧
    Complete fam_TRANS names_cython ∧ Complete fam_AUGER names_cython :=
  ⟨completeExcept_nil.mp (completeB_sound (by decide +kernel)), completeB_sound (by decide +kernel),
   completeExcept_nil.mp (completeB_sound (by decide +kernel)), completeExcept_nil.mp (completeB_sound (by decide +kernel))⟩

theorem families_complete_cython_full_fails : families_complete_cython_full ↔ known_fam_cython = [] := by
  have hp := families_complete_cython_partial
  have hl := complete_iff_no_known hp.2.1 (missingB_sound (X := known_fam_cython) (by decide +kernel))
  constructor
  · intro h; exact hl.mp h.2.1
  · intro h; exact ⟨hp.1, hl.mpr h, hp.2.2.1, hp.2.2.2⟩

/-! ## 3. prototypes -/

/-- Fortran: all `BIND(C,NAME=…)` interface bodies of `xraylib_wrap.F90` and `xraylib_wrap_generated.F90`. -/
theorem prototypes_agree_fortran : ProtosAgree proto_fortran cproto :=
  protosAgreeExcept_nil.mp (protoB_sound (by decide +kernel))

/-- Pascal: all `cdecl; external` declarations of `xraylib.pas` and `xraylib_impl.pas`. -/
def prototypes_agree_pascal_full : Prop := ProtosAgree proto_pascal cproto

theorem prototypes_agree_pascal_partial : ProtosAgreeExcept known_proto_pascal proto_pascal cproto :=
  protoB_sound (by decide +kernel)

theorem prototypes_agree_pascal_full_fails : prototypes_agree_pascal_full ↔ known_proto_pascal = [] :=
  protos_iff_no_known prototypes_agree_pascal_partial (protoWrongB_sound (by decide +kernel))

/-- Cython: the function declarations of `xraylib_np_c.pxd`. -/
def prototypes_agree_cython_full : Prop := ProtosAgree proto_cython cproto

theorem prototypes_agree_cython_partial : ProtosAgreeExcept known_proto_cython proto_cython cproto :=
  protoB_sound (by decide +kernel)

theorem prototypes_agree_cython_full_fails : prototypes_agree_cython_full ↔ known_proto_cython = [] :=
  protos_iff_no_known prototypes_agree_cython_partial (protoWrongB_sound (by decide +kernel))

/-- SWIG (`src/xraylib.i`) takes constants and prototypes from the C headers by `%include`; what it adds by hand —
`%ignore`/`%newobject` targets and typemap / `%apply` patterns `type name` — must name declarations, respectively
(parameter name, type) or (function, result type) pairs, that the C headers really have (otherwise the directive
silently applies to nothing). -/
theorem prototypes_agree_swig :
    (∀ n ∈ swig_name_refs, n ∈ c_decl_names) ∧ (∀ p ∈ swig_param_refs, p ∈ c_params) :=
  ⟨allMemB_sound (by decide +kernel), allMemPairB_sound (by decide +kernel)⟩

/-- C++ (`cplusplus/xraylib++.h`) includes `xraylib.h`; every function it wraps by name (`_XRL_FUNCTION(f)`, `::f(`)
is declared by the C headers (types are checked by the C++ compiler against those headers). -/
theorem prototypes_agree_cpp : ∀ n ∈ cpp_name_refs, n ∈ c_decl_names :=
  allMemB_sound (by decide +kernel)

/-! ## 4. exported symbols, versions -/

/-- every function declared in the public headers is a defined dynamic symbol of the library linked from the
working tree with `-fvisibility=hidden` -/
theorem declared_is_exported : Complete declared exported :=
  completeExcept_nil.mp (completeB_sound (by decide +kernel))

def lookupInt (n : Nat) : List E → Option Int
  | [] => none
  | e :: l => if e.n = n then (if e.k = 0 then some e.a else none) else lookupInt n l

/-- every build / packaging file states the version `XRAYLIB_MAJOR.XRAYLIB_MINOR.XRAYLIB_MICRO` of `include/xraylib.h` -/
theorem versions_agree : ∀ v ∈ versions,
    some v.2.1 = lookupInt name_XRAYLIB_MAJOR cconst ∧ some v.2.2.1 = lookupInt name_XRAYLIB_MINOR cconst ∧
    some v.2.2.2 = lookupInt name_XRAYLIB_MICRO cconst := by
  have h : (versions.all fun v => decide (some v.2.1 = lookupInt name_XRAYLIB_MAJOR cconst) &&
      decide (some v.2.2.1 = lookupInt name_XRAYLIB_MINOR cconst) &&
      decide (some v.2.2.2 = lookupInt name_XRAYLIB_MICRO cconst)) = true := by decide +kernel
  intro v hv
  have := (List.all_eq_true.mp h) v hv
  simp only [Bool.and_eq_true, decide_eq_true_eq] at this
  exact ⟨this.1.1, this.1.2, this.2⟩

/-! ## 5. IDL COMMON block, Cython wrapper bodies -/

/-- IDL: a constant reaches IDL procedures only through `COMMON XRAYLIB`: every name that `idl/*.pro` assigns is a member
of the block and every member is assigned (1662 names, sorted lists, merge walk) -/
theorem idl_common_exact : Complete idl_assigned idl_common ∧ Complete idl_common idl_assigned :=
  ⟨completeExcept_nil.mp (completeB_sound (by decide +kernel)), completeExcept_nil.mp (completeB_sound (by decide +kernel))⟩

/-- Cython (`python/xraylib_np.pyx`): a wrapper published under the name of a C function calls that C function and no
other function of the C API -/
theorem cython_bodies_bind_same_name : ∀ p ∈ cython_calls, p.1 = p.2 := by
  have h : (cython_calls.all fun p => decide (p.1 = p.2)) = true := by decide +kernel
  intro p hp
  simpa using (List.all_eq_true.mp h) p hp

/-! ## non-vacuity: the tables the statements range over are the big ones, and the excluded sets are small -/

example : cconst.length ≥ 1600 ∧ const_fortran.length ≥ 1600 ∧ const_pascal.length ≥ 1600 ∧ const_java.length ≥ 1600 ∧
    const_idl.length ≥ 1600 ∧ const_cython.length ≥ 1400 := by decide +kernel
example : known_const_fortran.length ≤ 3 ∧ known_const_idl.length ≤ 4 ∧ known_const_pascal.length ≤ 1 ∧
    known_fam_cython.length ≤ 2 ∧ known_proto_pascal.length ≤ 7 ∧ known_proto_cython.length ≤ 27 := by decide +kernel
example : proto_fortran.length ≥ 170 ∧ proto_pascal.length ≥ 150 ∧ proto_cython.length ≥ 70 ∧ cproto.length ≥ 170 ∧
    declared.length ≥ 130 ∧ versions.length ≥ 6 ∧ idl_common.length ≥ 1600 ∧ cython_calls.length ≥ 60 := by decide +kernel
/-- the checker is not trivially true: a one-entry binding table with a wrong value is rejected -/
example : agreeB [] [⟨5, 0, 1, 0⟩] [⟨5, 0, 2, 0⟩] = false := by decide
example : completeB [] [5] [4, 6] = false := by decide
example : protoB [] [⟨5, 200, [100]⟩] [⟨5, 200, [100, 302]⟩] = false := by decide

end XrlL4.C20
