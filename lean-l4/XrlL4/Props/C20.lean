/-
  C20 — every language binding declares the C API with the same constants and types.

  All tables (`Gen.C20.*`) are regenerated from the repository's current files by
  `tools/gen_c20.py` on every check; the statements below are the specifications of `Table.lean`
  (`Agree`, `Complete`, `ProtosAgree`, plain membership), decided in the kernel through the linear
  checkers and their soundness lemmas.

  Where the shipped files violate the statement there are three items side by side: the full statement
  as `def …_full : Prop`; `…_partial`, which excludes exactly the names of `Gen.C20.known_…` (the entries of
  `known_findings.txt` / `notes/proposed_findings/C20.txt` that reproduce on the current files); and
  `…_full_fails`, which proves — from one kernel-checked witness per excluded name — that the full
  statement holds iff that list is empty, i.e. it is refuted as long as one known finding reproduces.

  Sections 6–10 (clause audit): wrapper name ↔ bound C symbol for Fortran / Pascal / the IDL glue, the public Pascal
  declarations (`xraylib_iface.pas`), the two IDL routine declaration sets, record layouts, the library's own build
  definition (`src/meson.build`, `src/Makefile.am`), the libtool triple, SWIG's `-includeall`.  Every table they range
  over has a lower bound in `audit_tables_nonvacuous`.
-/
import XrlL4.Table
import XrlL4.Gen.C20

namespace XrlL4.C20
open XrlL4 XrlL4.Gen.C20

/-! ## 1. constants -/

/-- Fortran module `fortran/xraylib_wrap.F90`: every PARAMETER / ENUMERATOR with a C name has the C value. -/
def constants_agree_fortran_full : Prop := Agree const_fortran cconst

theorem constants_agree_fortran_partial : AgreeExcept known_const_fortran const_fortran cconst :=
  agreeB_sound (by decide +kernel)

theorem constants_agree_fortran_full_fails : constants_agree_fortran_full ↔ known_const_fortran = [] :=
  agree_iff_no_known constants_agree_fortran_partial (disagreeB_sound (by decide +kernel))

/-- Pascal unit `pascal/xraylib_const.pas`. -/
def constants_agree_pascal_full : Prop := Agree const_pascal cconst

theorem constants_agree_pascal_partial : AgreeExcept known_const_pascal const_pascal cconst :=
  agreeB_sound (by decide +kernel)

theorem constants_agree_pascal_full_fails : constants_agree_pascal_full ↔ known_const_pascal = [] :=
  agree_iff_no_known constants_agree_pascal_partial (disagreeB_sound (by decide +kernel))

/-- IDL: `idl/xraylib.pro` and the five files it `.run`s. -/
def constants_agree_idl_full : Prop := Agree const_idl cconst

theorem constants_agree_idl_partial : AgreeExcept known_const_idl const_idl cconst :=
  agreeB_sound (by decide +kernel)

theorem constants_agree_idl_full_fails : constants_agree_idl_full ↔ known_const_idl = [] :=
  agree_iff_no_known constants_agree_idl_partial (disagreeB_sound (by decide +kernel))

/-- Java `public static final` constants of `java/Xraylib.java`. -/
theorem constants_agree_java : Agree const_java cconst :=
  agreeExcept_nil.mp (agreeB_sound (by decide +kernel))

/-- Cython: every `NAME = xrl.X` of `xraylib_np.pyx`, through the alias `X "C_NAME"` of the `.pxd`, has the value
of the C macro called `NAME`. -/
theorem constants_agree_cython : Agree const_cython cconst :=
  agreeExcept_nil.mp (agreeB_sound (by decide +kernel))

/-! ## 2. families -/

theorem families_complete_fortran :
    Complete fam_SHELL names_fortran ∧ Complete fam_LINE names_fortran ∧ Complete fam_TRANS names_fortran ∧
    Complete fam_AUGER names_fortran ∧ Complete fam_NIST_COMPOUND names_fortran ∧ Complete fam_RADIO_NUCLIDE names_fortran :=
  ⟨completeExcept_nil.mp (completeB_sound (by decide +kernel)), completeExcept_nil.mp (completeB_sound (by decide +kernel)),
   completeExcept_nil.mp (completeB_sound (by decide +kernel)), completeExcept_nil.mp (completeB_sound (by decide +kernel)),
   completeExcept_nil.mp (completeB_sound (by decide +kernel)), completeExcept_nil.mp (completeB_sound (by decide +kernel))⟩

theorem families_complete_pascal :
    Complete fam_SHELL names_pascal ∧ Complete fam_LINE names_pascal ∧ Complete fam_TRANS names_pascal ∧
    Complete fam_AUGER names_pascal ∧ Complete fam_NIST_COMPOUND names_pascal ∧ Complete fam_RADIO_NUCLIDE names_pascal :=
  ⟨completeExcept_nil.mp (completeB_sound (by decide +kernel)), completeExcept_nil.mp (completeB_sound (by decide +kernel)),
   completeExcept_nil.mp (completeB_sound (by decide +kernel)), completeExcept_nil.mp (completeB_sound (by decide +kernel)),
   completeExcept_nil.mp (completeB_sound (by decide +kernel)), completeExcept_nil.mp (completeB_sound (by decide +kernel))⟩

theorem families_complete_java :
    Complete fam_SHELL names_java ∧ Complete fam_LINE names_java ∧ Complete fam_TRANS names_java ∧
    Complete fam_AUGER names_java ∧ Complete fam_NIST_COMPOUND names_java ∧ Complete fam_RADIO_NUCLIDE names_java :=
  ⟨completeExcept_nil.mp (completeB_sound (by decide +kernel)), completeExcept_nil.mp (completeB_sound (by decide +kernel)),
   completeExcept_nil.mp (completeB_sound (by decide +kernel)), completeExcept_nil.mp (completeB_sound (by decide +kernel)),
   completeExcept_nil.mp (completeB_sound (by decide +kernel)), completeExcept_nil.mp (completeB_sound (by decide +kernel))⟩

theorem families_complete_idl :
    Complete fam_SHELL names_idl ∧ Complete fam_LINE names_idl ∧ Complete fam_TRANS names_idl ∧
    Complete fam_AUGER names_idl ∧ Complete fam_NIST_COMPOUND names_idl ∧ Complete fam_RADIO_NUCLIDE names_idl :=
  ⟨completeExcept_nil.mp (completeB_sound (by decide +kernel)), completeExcept_nil.mp (completeB_sound (by decide +kernel)),
   completeExcept_nil.mp (completeB_sound (by decide +kernel)), completeExcept_nil.mp (completeB_sound (by decide +kernel)),
   completeExcept_nil.mp (completeB_sound (by decide +kernel)), completeExcept_nil.mp (completeB_sound (by decide +kernel))⟩

/-- Cython (`python/xraylib_np.pyx`): all six families.  The module publishes no NIST-compound or radionuclide index at all
and lacks two line macros; each of these is an entry of `known_findings.txt` (a family that is absent as a whole is one
entry, and `known_fam_cython` then lists all its members). -/
def families_complete_cython_full : Prop :=
  Complete fam_SHELL names_cython ∧ Complete fam_LINE names_cython ∧ Complete fam_TRANS names_cython ∧
  Complete fam_AUGER names_cython ∧ Complete fam_NIST_COMPOUND names_cython ∧ Complete fam_RADIO_NUCLIDE names_cython

theorem families_complete_cython_partial :
    CompleteExcept known_fam_cython fam_SHELL names_cython ∧ CompleteExcept known_fam_cython fam_LINE names_cython ∧
    CompleteExcept known_fam_cython fam_TRANS names_cython ∧ CompleteExcept known_fam_cython fam_AUGER names_cython ∧
    CompleteExcept known_fam_cython fam_NIST_COMPOUND names_cython ∧
    CompleteExcept known_fam_cython fam_RADIO_NUCLIDE names_cython :=
  ⟨completeB_sound (by decide +kernel), completeB_sound (by decide +kernel), completeB_sound (by decide +kernel),
   completeB_sound (by decide +kernel), completeB_sound (by decide +kernel), completeB_sound (by decide +kernel)⟩

/-- the six families, as one list (used only to state `families_complete_cython_full_fails`'s witness check) -/
def fams6 : List (List Nat) := [fam_SHELL, fam_LINE, fam_TRANS, fam_AUGER, fam_NIST_COMPOUND, fam_RADIO_NUCLIDE]

theorem families_complete_cython_full_fails : families_complete_cython_full ↔ known_fam_cython = [] := by
  have hp := families_complete_cython_partial
  have hm := missingAnyB_sound (X := known_fam_cython) (Fs := fams6) (B := names_cython) (by decide +kernel)
  have m0 : fam_SHELL ∈ fams6 := .head _
  have m1 : fam_LINE ∈ fams6 := .tail _ (.head _)
  have m2 : fam_TRANS ∈ fams6 := .tail _ (.tail _ (.head _))
  have m3 : fam_AUGER ∈ fams6 := .tail _ (.tail _ (.tail _ (.head _)))
  have m4 : fam_NIST_COMPOUND ∈ fams6 := .tail _ (.tail _ (.tail _ (.tail _ (.head _))))
  have m5 : fam_RADIO_NUCLIDE ∈ fams6 := .tail _ (.tail _ (.tail _ (.tail _ (.tail _ (.head _)))))
  have cases6 : ∀ (Q : List Nat → Prop), Q fam_SHELL → Q fam_LINE → Q fam_TRANS → Q fam_AUGER → Q fam_NIST_COMPOUND →
      Q fam_RADIO_NUCLIDE → ∀ F ∈ fams6, Q F := by
    intro Q q0 q1 q2 q3 q4 q5 F hF
    cases hF with
    | head => exact q0
    | tail _ hF => cases hF with
      | head => exact q1
      | tail _ hF => cases hF with
        | head => exact q2
        | tail _ hF => cases hF with
          | head => exact q3
          | tail _ hF => cases hF with
            | head => exact q4
            | tail _ hF => cases hF with
              | head => exact q5
              | tail _ hF => cases hF
  have h := complete_all_iff_no_known (X := known_fam_cython) (B := names_cython) (Fs := fams6)
    (cases6 (fun F => CompleteExcept known_fam_cython F names_cython) hp.1 hp.2.1 hp.2.2.1 hp.2.2.2.1 hp.2.2.2.2.1 hp.2.2.2.2.2) hm
  constructor
  · intro hf
    exact h.mp (cases6 (fun F => Complete F names_cython) hf.1 hf.2.1 hf.2.2.1 hf.2.2.2.1 hf.2.2.2.2.1 hf.2.2.2.2.2)
  · intro hx
    have a := h.mpr hx
    exact ⟨a _ m0, a _ m1, a _ m2, a _ m3, a _ m4, a _ m5⟩

/-! ## 3. prototypes -/

/-- Fortran: all `BIND(C,NAME=…)` interface bodies of `xraylib_wrap.F90` and `xraylib_wrap_generated.F90`. -/
theorem prototypes_agree_fortran : ProtosAgree proto_fortran cproto :=
  protosAgreeExcept_nil.mp (protoB_sound (by decide +kernel))

/-- Pascal: all `cdecl; external` declarations of `xraylib.pas` and `xraylib_impl.pas`. -/
def prototypes_agree_pascal_full : Prop := ProtosAgree proto_pascal cproto

theorem prototypes_agree_pascal_partial : ProtosAgreeExcept known_proto_pascal proto_pascal cproto :=
  protoB_sound (by decide +kernel)

theorem prototypes_agree_pascal_full_fails : prototypes_agree_pascal_full ↔ known_proto_pascal = [] :=
  protos_iff_no_known prototypes_agree_pascal_partial (protoWrongB_sound (by decide +kernel))

/-- Cython: the function declarations of `xraylib_np_c.pxd`. -/
def prototypes_agree_cython_full : Prop := ProtosAgree proto_cython cproto

theorem prototypes_agree_cython_partial : ProtosAgreeExcept known_proto_cython proto_cython cproto :=
  protoB_sound (by decide +kernel)

theorem prototypes_agree_cython_full_fails : prototypes_agree_cython_full ↔ known_proto_cython = [] :=
  protos_iff_no_known prototypes_agree_cython_partial (protoWrongB_sound (by decide +kernel))

/-- SWIG (`src/xraylib.i`) takes constants and prototypes from the C headers by `%include`; what it adds by hand —
`%ignore`/`%newobject` targets and typemap / `%apply` patterns `type name` — must name declarations, respectively
(parameter name, type) or (function, result type) pairs, that the C headers really have (otherwise the directive
silently applies to nothing). -/
theorem prototypes_agree_swig :
    (∀ n ∈ swig_name_refs, n ∈ c_decl_names) ∧ (∀ p ∈ swig_param_refs, p ∈ c_params) :=
  ⟨allMemB_sound (by decide +kernel), allMemPairB_sound (by decide +kernel)⟩

/-- C++ (`cplusplus/xraylib++.h`) includes `xraylib.h`; every function it wraps by name (`_XRL_FUNCTION(f)`, `::f(`)
is declared by the C headers.  (The C++ compiler checks the CALL inside a wrapper against those headers, but it converts
silently — an `int` parameter forwarded to a `double` argument compiles; the wrappers' own declared types are the subject of
`prototypes_agree_cpp_types`.) -/
theorem prototypes_agree_cpp : ∀ n ∈ cpp_name_refs, n ∈ c_decl_names :=
  allMemB_sound (by decide +kernel)

/-- C++: every wrapper of `xraylib++.h` — each instantiation of a wrapper template, each hand-written free function, each method of
`Crystal::Struct` (which passes its member `cs` first), each free function that forwards to such a method, the copy constructor and the
destructor — is declared with the arity, the parameter types and the result type of the C function it wraps, as that function shows
itself to a caller (`P.vis`: the `xrl_error **` slot, the `int *` count out-parameter and the `Crystal_Array *` catalogue argument are
supplied by the wrapper), under the type map `std::string` / `const char *` ↦ `char *`, `std::complex<double>` ↦ `xrlComplex`,
`Struct &` / a returned `Struct` ↦ `Crystal_Struct *`, value class ↦ pointer to its C struct, `std::vector<std::string>` ↦ `char **`.
`proto_cpp` is keyed by the wrapped C function; the wrapper ↦ C function map is the one C18 extracts from the wrapper bodies. -/
theorem prototypes_agree_cpp_types : ProtosAgree proto_cpp (cproto.map P.vis) :=
  protosAgreeExcept_nil.mp (protoB_sound (by decide +kernel))

/-- the table of `prototypes_agree_cpp_types` is the real one (an extractor that silently reads nothing, or only the templates, fails here): at
least 120 wrappers of at least 110 different C functions, 90 of them with two or more parameters, 20 with a result other than `double`, 15 that
take the crystal (`Crystal_Struct *`, code 306); and every row names a function of the C table -/
theorem cpp_types_nonvacuous :
    proto_cpp.length ≥ 120 ∧ (proto_cpp.map (·.n)).eraseDups.length ≥ 110 ∧
    (proto_cpp.filter fun p => p.args.length ≥ 2).length ≥ 90 ∧ (proto_cpp.filter fun p => p.ret != 200).length ≥ 20 ∧
    (proto_cpp.filter fun p => p.args.contains 306).length ≥ 15 ∧ (proto_cpp.all fun p => cproto.any fun h => h.n == p.n) = true := by
  decide +kernel

/-! ## 4. exported symbols, versions -/

/-- every function declared in the public headers is a defined dynamic symbol of the library linked from the
working tree with `-fvisibility=hidden` -/
theorem declared_is_exported : Complete declared exported :=
  completeExcept_nil.mp (completeB_sound (by decide +kernel))

def lookupInt (n : Nat) : List E → Option Int
  | [] => none
  | e :: l => if e.n = n then (if e.k = 0 then some e.a else none) else lookupInt n l

/-- every build / packaging file states the version `XRAYLIB_MAJOR.XRAYLIB_MINOR.XRAYLIB_MICRO` of `include/xraylib.h` -/
theorem versions_agree : ∀ v ∈ versions,
    some v.2.1 = lookupInt name_XRAYLIB_MAJOR cconst ∧ some v.2.2.1 = lookupInt name_XRAYLIB_MINOR cconst ∧
    some v.2.2.2 = lookupInt name_XRAYLIB_MICRO cconst := by
  have h : (versions.all fun v => decide (some v.2.1 = lookupInt name_XRAYLIB_MAJOR cconst) &&
      decide (some v.2.2.1 = lookupInt name_XRAYLIB_MINOR cconst) &&
      decide (some v.2.2.2 = lookupInt name_XRAYLIB_MICRO cconst)) = true := by decide +kernel
  intro v hv
  have := (List.all_eq_true.mp h) v hv
  simp only [Bool.and_eq_true, decide_eq_true_eq] at this
  exact ⟨this.1.1, this.1.2, this.2⟩

/-! ## 5. IDL COMMON block, Cython wrapper bodies -/

/-- IDL: a constant reaches IDL procedures only through `COMMON XRAYLIB`: every name that `idl/*.pro` assigns is a member
of the block and every member is assigned (1662 names, sorted lists, merge walk) -/
theorem idl_common_exact : Complete idl_assigned idl_common ∧ Complete idl_common idl_assigned :=
  ⟨completeExcept_nil.mp (completeB_sound (by decide +kernel)), completeExcept_nil.mp (completeB_sound (by decide +kernel))⟩

/-- Cython (`python/xraylib_np.pyx`): a wrapper published under the name of a C function calls that C function and no
other function of the C API -/
theorem cython_bodies_bind_same_name : ∀ p ∈ cython_calls, p.1 = p.2 := by
  have h : (cython_calls.all fun p => decide (p.1 = p.2)) = true := by decide +kernel
  intro p hp
  simpa using (List.all_eq_true.mp h) p hp

/-! ## 6. wrapper name ↔ bound C symbol (Fortran `BIND(C,NAME=…)`, Pascal `external … name '…'`, IDL glue) -/

/-- Fortran (`fortran/xraylib_wrap.F90`, `xraylib_wrap_generated.F90`): an interface body of the module's own INTERFACE block
is bound to the C symbol of its own name; a module procedure binds and calls, besides `void` helper functions (`xrlFree`,
`xrl_error_free`, `Free…`) and libc `strlen`, only the C function it is named after; and every module procedure named after a
C function does bind and call it, unless it is a native re-implementation without any foreign declaration. -/
theorem fortran_wrappers_bind_same_name :
    (∀ p ∈ fortran_direct, p.1 = p.2) ∧ BindsSame cproto libc_names fortran_calls ∧
    BindsOwn fortran_named fortran_native fortran_calls ∧ (∀ w ∈ fortran_native, ∀ p ∈ fortran_calls, p.1 ≠ w) :=
  ⟨allDiagB_sound (by decide +kernel), bindsSameB_sound (by decide +kernel), bindsOwnB_sound (by decide +kernel),
   nativeFreeB_sound (by decide +kernel)⟩

/-- Pascal (`pascal/xraylib.pas` with `xraylib_iface.pas` / `xraylib_impl.pas` included): the same three statements for the
`external` declarations of the interface section and the procedures of the implementation section. -/
theorem pascal_wrappers_bind_same_name :
    (∀ p ∈ pascal_direct, p.1 = p.2) ∧ BindsSame cproto libc_names pascal_calls ∧
    BindsOwn pascal_named pascal_native pascal_calls ∧ (∀ w ∈ pascal_native, ∀ p ∈ pascal_calls, p.1 ≠ w) :=
  ⟨allDiagB_sound (by decide +kernel), bindsSameB_sound (by decide +kernel), bindsOwnB_sound (by decide +kernel),
   nativeFreeB_sound (by decide +kernel)⟩

/-- IDL (`idl/xraylib_idl.c`): the glue function `IDL_<x>` registered under the IDL name `"NAME"` calls, besides `void`
helpers, only the C function whose name is `NAME` (ignoring case), and it does call it — for every registered routine. -/
theorem idl_wrappers_bind_same_name :
    BindsSame cproto libc_names idl_calls ∧ BindsOwn idl_named idl_native idl_calls ∧ idl_native = [] ∧
    (∀ r ∈ idl_sysfun, r.n ∈ idl_named) := by
  refine ⟨bindsSameB_sound (by decide +kernel), bindsOwnB_sound (by decide +kernel), by decide +kernel, ?_⟩
  have h : (idl_sysfun.all fun r => idl_named.contains r.n) = true := by decide +kernel
  intro r hr
  exact List.contains_iff_mem.mp ((List.all_eq_true.mp h) r hr)

/-! ## 7. Pascal: public declarations (incl. the previously unread `xraylib_iface.pas`) -/

/-- every non-external function the unit declares in its interface section is a C function of that name whose visible
parameters (all but `xrl_error **`, the `int *` length out-parameter and the `Crystal_Array *` catalogue) and result have the
declared types (`string` ↦ `char *`, `TStringArray` ↦ `char **`, `P…` ↦ pointer to the record) -/
theorem pascal_public_signatures_agree : ProtosAgree pascal_public (cproto.map P.vis) :=
  protosAgreeExcept_nil.mp (protoB_sound (by decide +kernel))

/-- `xraylib_iface.pas` declares exactly the functions `xraylib_impl.pas` defines, with textually identical headers -/
theorem pascal_iface_matches_impl : pascal_iface = pascal_impl := by decide +kernel

/-! ## 8. IDL routine declarations: the fourth hand-written declaration set -/

/-- `idl/libxrlidl.dlm` and the `IDL_SYSFUN_DEF2` tables of `idl/xraylib_idl.c`: every routine is a C function (name compared
without case), takes exactly its visible parameters (min = max = their number), and an IDL FUNCTION wraps a C function that
returns a value -/
theorem idl_routines_agree : RoutinesAgree idl_dlm cproto ∧ RoutinesAgree idl_sysfun cproto :=
  ⟨routinesB_sound (by decide +kernel), routinesB_sound (by decide +kernel)⟩

/-- the two IDL declaration sets are the same set of (name, FUNCTION/PROCEDURE, min, max) -/
theorem idl_sources_same : idl_dlm = idl_sysfun := by decide +kernel

/-! ## 9. record layouts -/

/-- Fortran `TYPE, BIND(C)`: same fields (names compared without case), same order, same C types as the C struct; `TYPE(C_PTR)`
matches any pointer -/
theorem struct_layouts_agree_fortran : StructsAgree struct_fortran struct_c_uc :=
  structsB_sound (by decide +kernel)

/-- Pascal records (`{$PACKRECORDS C}`): `array of T` / `PAnsiChar` ↦ pointer, `longint` ↦ `int`, enumeration ↦ `int` -/
theorem struct_layouts_agree_pascal : StructsAgree struct_pascal struct_c_uc :=
  structsB_sound (by decide +kernel)

/-- Cython `cdef extern` structs take the layout from the header; every member they declare is a member of the C struct with
that type -/
theorem struct_members_agree_cython : StructMembersAgree struct_cython struct_c :=
  structMembersB_sound (by decide +kernel)

/-- C++ (`cplusplus/xraylib++.h`): the value classes `compoundData`, `compoundDataNIST`, `radioNuclideData`, `Crystal::Atom`, `Crystal::Struct` are what the
wrappers hand out in place of the C structs (each has a constructor from a pointer / reference to its struct, whose initialiser list copies field by
field).  Every data member is declared with the type of the field it is a copy of, under the map `int` / `double` / `float` ↦ the same scalar,
`std::string` ↦ `char *`, `std::vector<T>` ↦ `T *` (with its count field an `int` field of the struct), `std::vector<Atom>` ↦ `Crystal_Atom *`; a
declared type outside the map (code 900) agrees with no field.  (The C++ compiler does not object to `const int nAtomsAll` initialised from the
`double` field: it narrows silently.)  `struct_cpp` is keyed by the mirrored C struct; the member ↦ field map is the one C18 extracts from the
constructors. -/
theorem struct_members_agree_cpp : StructMembersAgree struct_cpp struct_c :=
  structMembersB_sound (by decide +kernel)

/-- the table of `struct_members_agree_cpp` is the real one: at least 5 classes with at least 37 (field, type) rows, every one of them a struct of the
C table; it contains the rows `compoundData.nAtomsAll : double` and `Crystal_Struct.atom : Crystal_Atom *`; at least 13 rows are vectors / strings
(pointer class), at least 14 `double`, at least 10 `int`; and no row carries the code of an unmapped type -/
theorem struct_members_cpp_nonvacuous :
    struct_cpp.length ≥ 5 ∧ (struct_cpp.map (·.fields.length)).sum ≥ 37 ∧
    (struct_cpp.all fun s => struct_c.any fun h => h.n == s.n) = true ∧
    (struct_cpp.any fun s => s.n == name_compoundData && s.fields.contains (name_nAtomsAll, 200)) = true ∧
    (struct_cpp.any fun s => s.n == name_Crystal_Struct && s.fields.contains (name_atom, 313)) = true ∧
    ((struct_cpp.map fun s => (s.fields.filter fun f => f.2 / 100 == 3).length).sum ≥ 13) ∧
    ((struct_cpp.map fun s => (s.fields.filter fun f => f.2 == 200).length).sum ≥ 14) ∧
    ((struct_cpp.map fun s => (s.fields.filter fun f => f.2 == 100).length).sum ≥ 10) ∧
    (struct_cpp.all fun s => s.fields.all fun f => f.2 / 100 != 9) = true := by
  decide +kernel

/-- the upper-case copy of the C struct table is the C struct table (same structs, same type sequences) -/
theorem struct_c_uc_is_struct_c :
    struct_c_uc.map (fun s => (s.n, s.fields.map (·.2))) = struct_c.map (fun s => (s.n, s.fields.map (·.2))) := by
  decide +kernel

/-! ## 10. the library's build definition, libtool version, SWIG -/

/-- the C sources of `library('xrl', …)` in `src/meson.build` are those of `libxrl_la_SOURCES` in `src/Makefile.am`, the
library whose symbols `declared_is_exported` ranges over was compiled from exactly these, and both build definitions hide
symbols by default and define `XRL_EXTERN` as that build did -/
theorem library_sources_agree :
    lib_sources_meson = lib_sources_automake ∧ lib_sources_built = lib_sources_meson ∧ ∀ p ∈ lib_build_facts, p.2 = 1 := by
  refine ⟨by decide +kernel, by decide +kernel, ?_⟩
  have h : (lib_build_facts.all fun p => p.2 == 1) = true := by decide +kernel
  intro p hp
  simpa using (List.all_eq_true.mp h) p hp

/-- `configure.ac` and `meson.build` state the same libtool current:revision:age, and every hard-coded library major number
(`External_library` of `pascal/xraylib.pas`) is current − age -/
theorem libtool_versions_agree :
    (∀ x ∈ libtool_triples, ∀ y ∈ libtool_triples, x.2 = y.2) ∧
    (∀ t ∈ libtool_triples, ∀ s ∈ soname_refs, s.2 + t.2.2.2 = t.2.1) := by
  have h1 : (libtool_triples.all fun x => libtool_triples.all fun y => decide (x.2 = y.2)) = true := by decide +kernel
  have h2 : (libtool_triples.all fun t => soname_refs.all fun s => decide (s.2 + t.2.2.2 = t.2.1)) = true := by
    decide +kernel
  constructor
  · intro x hx y hy
    simpa using (List.all_eq_true.mp ((List.all_eq_true.mp h1) x hx)) y hy
  · intro t ht s hs
    simpa using (List.all_eq_true.mp ((List.all_eq_true.mp h2) t ht)) s hs

/-- SWIG sees the constants and prototypes of the sub-headers only because every build file runs it with `-includeall`
(or `src/xraylib.i` would have to `%include` each public header itself) -/
theorem swig_reaches_all_headers : (∀ p ∈ swig_invocations, p.2 = 1) ∨ swig_unincluded = [] := by
  have h : ((swig_invocations.all fun p => p.2 == 1) || swig_unincluded.isEmpty) = true := by decide +kernel
  rw [Bool.or_eq_true] at h
  rcases h with h | h
  · left; intro p hp; simpa using (List.all_eq_true.mp h) p hp
  · right; exact List.isEmpty_iff.mp h

/-! ## non-vacuity: the tables the statements range over are the big ones, and the excluded sets are small -/

example : cconst.length ≥ 1600 ∧ const_fortran.length ≥ 1600 ∧ const_pascal.length ≥ 1600 ∧ const_java.length ≥ 1600 ∧
    const_idl.length ≥ 1600 ∧ const_cython.length ≥ 1400 := by decide +kernel
example : known_const_fortran.length ≤ 3 ∧ known_const_idl.length ≤ 4 ∧ known_const_pascal.length ≤ 1 ∧
    known_fam_cython.length ≤ 192 ∧ known_proto_pascal.length ≤ 7 ∧ known_proto_cython.length ≤ 27 := by decide +kernel
example : proto_fortran.length ≥ 170 ∧ proto_pascal.length ≥ 150 ∧ proto_cython.length ≥ 70 ∧ cproto.length ≥ 170 ∧
    declared.length ≥ 130 ∧ versions.length ≥ 9 ∧ idl_common.length ≥ 1600 ∧ cython_calls.length ≥ 60 := by decide +kernel
/-- the tables of sections 6–10 are the real ones: an extractor that silently reads nothing fails here -/
theorem audit_tables_nonvacuous :
    fortran_calls.length ≥ 160 ∧ fortran_direct.length ≥ 6 ∧ fortran_named.length ≥ 145 ∧ fortran_native.length ≤ 1 ∧
    pascal_calls.length ≥ 140 ∧ pascal_direct.length ≥ 18 ∧ pascal_named.length ≥ 138 ∧ pascal_native.length ≤ 1 ∧
    idl_calls.length ≥ 140 ∧ idl_named.length ≥ 140 ∧ idl_dlm.length ≥ 140 ∧ idl_sysfun.length ≥ 140 ∧
    pascal_public.length ≥ 140 ∧ pascal_iface.length ≥ 128 ∧ pascal_impl.length ≥ 128 ∧
    struct_c.length ≥ 8 ∧ struct_fortran.length ≥ 10 ∧ struct_pascal.length ≥ 7 ∧ struct_cython.length ≥ 1 ∧
    (struct_c.map (·.fields.length)).sum ≥ 44 ∧ (struct_fortran.map (·.fields.length)).sum ≥ 60 ∧
    (struct_pascal.map (·.fields.length)).sum ≥ 41 ∧
    lib_sources_meson.length ≥ 32 ∧ lib_sources_built.length ≥ 32 ∧ lib_build_facts.length ≥ 4 ∧
    libtool_triples.length ≥ 2 ∧ soname_refs.length ≥ 3 ∧ swig_invocations.length ≥ 6 ∧ versions.length ≥ 9 ∧
    libc_names.length ≤ 1 := by decide +kernel

/-! ## 11. Java constants that are loaded at run time

Twelve constants of `java/Xraylib.java` (`ZMAX … R_E`) are `public static int|double NAME;` fields without initialiser: the static
initialiser `XRayInit()` fills them, in a fixed order, from the leading scalars of `xraylib.dat`, and the build-time generator
`java/pr_data_java.c` writes those scalars from locals initialised with C expressions.  `const_java_dynamic` pairs each field with the
value of the expression written into the slot it is read from (tools/extract_bindings.py `java_dynamic_feed` lexes both ends). -/

/-- every run-time loaded Java constant that carries a C name receives exactly the value of the C macro of that name -/
theorem constants_agree_java_dynamic : Agree const_java_dynamic cconst :=
  agreeExcept_nil.mp (agreeB_sound (by decide +kernel))

/-- the fields `XRayInit()` fills from the head of `xraylib.dat` are exactly the fields declared without initialiser, each read with the
`get…()` of its declared type (so none of them stays 0, and none is filled from a value of the other width); and every one of them is
covered by `const_java_dynamic`: no slot is written from an expression the extractor could not evaluate -/
theorem java_dynamic_fields_exact : java_dynamic_read = java_dynamic_declared ∧ java_dynamic_unevaluated = [] := by decide +kernel

/-- slot by slot, the generator writes a scalar of the type the Java side reads (same number of scalars, same widths: the tables that
follow in the file are not shifted) -/
theorem java_dynamic_slots_agree : java_dynamic_slot_types = java_dynamic_read_types := by decide +kernel

/-- the tables of this section are the real ones: twelve fields on /repo, every one of them named after a constant of the C headers -/
theorem java_dynamic_nonvacuous :
    const_java_dynamic.length ≥ 10 ∧ java_dynamic_declared.length ≥ 10 ∧
    (const_java_dynamic.filter fun e => cconst.any fun h => h.n == e.n).length ≥ 10 := by decide +kernel

example : bindsSameB [⟨5, 200, []⟩, ⟨6, 0, []⟩] [9] [(5, 5), (5, 6), (5, 9)] = true := by decide
example : bindsSameB [⟨5, 200, []⟩, ⟨7, 200, []⟩] [] [(5, 7)] = false := by decide
example : bindsOwnB [5] [] [(5, 6)] = false := by decide
example : routinesB [⟨5, 1, 2, 2⟩] [⟨5, 200, [100, 200, 302]⟩] = true := by decide
example : routinesB [⟨5, 1, 2, 2⟩] [⟨5, 200, [100, 302]⟩] = false := by decide
example : routinesB [⟨5, 1, 1, 1⟩] [⟨5, 0, [100]⟩] = false := by decide
example : bindsOwnB [5, 7] [7] [(5, 5), (5, 6)] = true := by decide
example : structsB [⟨5, [(1, 100), (2, 300)]⟩] [⟨5, [(1, 100), (2, 305)]⟩] = true := by decide
example : structsB [⟨5, [(2, 300), (1, 100)]⟩] [⟨5, [(1, 100), (2, 305)]⟩] = false := by decide
example : structsB [⟨5, [(1, 200)]⟩] [⟨5, [(1, 100)]⟩] = false := by decide
/-- the C++ member comparison is not trivially true: `int nAtomsAll` against the struct's `double nAtomsAll` is rejected, so is an unmapped type (900)
and a `std::vector<int>` against a `double *` field; the shipped shape is accepted whatever the member order -/
example : structMembersB [⟨5, [(1, 100), (2, 100)]⟩] [⟨5, [(1, 100), (2, 200), (3, 304)]⟩] = false := by decide
example : structMembersB [⟨5, [(2, 900)]⟩] [⟨5, [(1, 100), (2, 200)]⟩] = false := by decide
example : structMembersB [⟨5, [(3, 304)]⟩] [⟨5, [(1, 100), (3, 305)]⟩] = false := by decide
example : structMembersB [⟨5, [(3, 304), (2, 200), (1, 100)]⟩] [⟨5, [(1, 100), (2, 200), (3, 304)]⟩] = true := by decide
/-- the checker is not trivially true: a one-entry binding table with a wrong value is rejected -/
example : agreeB [] [⟨5, 0, 1, 0⟩] [⟨5, 0, 2, 0⟩] = false := by decide
example : completeB [] [5] [4, 6] = false := by decide
example : protoB [] [⟨5, 200, [100]⟩] [⟨5, 200, [100, 302]⟩] = false := by decide
/-- the C++ comparison is not trivially true: `int rel_angle` against the C prototype's `double` is rejected, the error slot is invisible -/
example : protoB [] [⟨5, 400, [306, 200, 100]⟩] ([⟨5, 400, [306, 200, 200, 302]⟩].map P.vis) = false := by decide
example : protoB [] [⟨5, 400, [306, 200, 200]⟩] ([⟨5, 400, [306, 200, 200, 302]⟩].map P.vis) = true := by decide

end XrlL4.C20
