/-
  Model executable of the C15 correspondence run: the `Catalogue` model (XrlL4/Catalogue.lean) over the entry lists that
  tools/gen_c15.py extracted from the sources (files `cat_<kind>.txt`: name TAB payload), answering the protocol of
  harness/c15_drv.c.  Usage: cat-model <aux dir> < lines
-/
import XrlL4.Catalogue
open XrlL4 Catalogue

def loadCat (path : String) : IO (List (String × String)) := do
  let txt ← IO.FS.readFile path
  return (txt.splitOn "\n").filterMap fun l =>
    if l.isEmpty then none else
    match l.splitOn "\t" with
    | [n, p] => some (n, p)
    | _ => none

def showEntry : Option (String × String) → String
  | some (n, p) => s!"ok {n}\t{p}"
  | none => "err"

def showList (c : List (String × String)) : String :=
  "ok " ++ toString (names c).length ++ String.join ((names c).map fun n => "\t" ++ n)

/-- reserved argument of the `*_name` / `mendel_z` lines: harness/c15_drv.c calls the lookup with a NULL pointer instead of a
string.  A NULL name is not a name: the documented answer is an error and NULL / 0
(GetCompoundDataNISTByName, GetRadioNuclideDataByName, Crystal_GetCrystal, SymbolToAtomicNumber). -/
def nullToken : String := "%NULL%"

def answer (nist nuc cry men : List (String × String)) (line : String) : String :=
  let parts := line.splitOn "\t"
  let cmd := parts.headD ""
  let a1 := parts.getD 1 ""
  let pick (k : String) := if k == "nist" then nist else if k == "nuclide" then nuc else cry
  if a1 == nullToken && (cmd == "mendel_z" || cmd.endsWith "_name") then "err" else
  match cmd with
  | "mendel_sym" =>      -- AtomicNumberToSymbol: Z in [1, MENDEL_MAX] -> MendelArray[Z-1].name  (xraylib-parser.c:455-462)
      match a1.toInt? with
      | some z => (match byIndex men (z - 1) with | some e => s!"ok {e.1}" | none => "err")
      | none => "err"
  | "mendel_z" => (match byName men a1 with | some e => s!"ok {e.2}" | none => "err")
  | "nist_name" => showEntry (byName nist a1)
  | "nuclide_name" => showEntry (byName nuc a1)
  | "crystal_name" => showEntry (byName cry a1)
  | "nist_idx" => showEntry (a1.toInt?.bind (byIndex nist))
  | "nuclide_idx" => showEntry (a1.toInt?.bind (byIndex nuc))
  | "nist_list" => showList nist
  | "nuclide_list" => showList nuc
  | "crystal_list" => showList cry
  | "copy_list" => "ok independent"
  | _ =>
      if cmd.startsWith "copy_" then
        match a1.toInt?.bind (byIndex (pick (cmd.drop 5).toString)) with
        | some _ => "ok independent"
        | none => "err"
      else "bad unknown command " ++ cmd

partial def loop (h : IO.FS.Stream) (out : IO.FS.Stream) (f : String → String) : IO Unit := do
  let l ← h.getLine
  if l.isEmpty then return
  let l := if l.endsWith "\n" then (l.dropEnd 1).toString else l
  out.putStrLn (f l)
  loop h out f

def main (args : List String) : IO UInt32 := do
  let dir := args.headD "."
  let nist ← loadCat s!"{dir}/cat_nist.txt"
  let nuc ← loadCat s!"{dir}/cat_nuclide.txt"
  let cry ← loadCat s!"{dir}/cat_crystal.txt"
  let men ← loadCat s!"{dir}/cat_mendel.txt"
  loop (← IO.getStdin) (← IO.getStdout) (answer nist nuc cry men)
  return 0
