#!/bin/sh
# Prebuild the lean-l4 project (C15, C20): regenerate the tables from /repo as found (VERIF_REPO honoured) and build
# both property modules and the catalogue model executable, so that later `./check C15|C20` runs only re-elaborate
# what changed.  Nothing is written under /repo; C artefacts live in a scratch directory that is removed.
set -e
cd "$(dirname "$0")/.."
./check C20 --tier quick >/dev/null || true
./check C15 --tier quick >/dev/null || true
cd lean-l4 && lake build XrlL4.Table XrlL4.Catalogue XrlL4.Props.C15 XrlL4.Props.C20 cat-model
