"""Build the C artefacts of /repo's *current working tree* in a scratch directory.

Nothing is installed and nothing is written under /repo or /verif; the scratch directory is
returned to the caller, who removes it (see Scratch)."""
import os, subprocess, shutil, tempfile, hashlib, glob, sys
from concurrent.futures import ThreadPoolExecutor

REPO = os.environ.get('VERIF_REPO', '/repo')
VERIF = os.path.dirname(os.path.dirname(os.path.abspath(__file__)))
GUARD = 'XRAYLIB_VERIF'

SHARED = ['atomicweight.c','auger_trans.c','coskron.c','cross_sections.c','crystal_diffraction.c','fi.c','fii.c',
          'fluor_yield.c','radrate.c','scattering.c','splint.c','xraylib-aux.c','xraylib-error.c','xrayvars.c']
PRDATA_LIB = SHARED + ['xrayglob.c','xrayfiles.c','xrf_cross_sections_aux-private.c']
LIBXRL = SHARED + ['atomiclevelwidth.c','comptonprofiles.c','cs_barns.c','cs_cp.c','cs_line.c','densities.c','edges.c',
          'fluor_lines.c','jump.c','kissel_pe.c','polarized.c','refractive_indices.c','xrayfiles_inline.c',
          'xraylib-nist-compounds.c','xraylib-parser.c','xraylib-radionuclides.c','xrf_cross_sections_aux.c']

CONFIG_H = '''#pragma once
#define HAVE_COMPLEX_H
#define HAVE_STRDUP 1
#define HAVE_STRNDUP 1
#define PACKAGE_TARNAME "xraylib"
#define PACKAGE_VERSION "%s"
#define VERSION "%s"
#define XRL_EXTERN __attribute__((visibility("default"))) extern
'''

class BuildError(Exception):
    pass

def _feature_macros(repo):
    """HAVE_<FUNCTION> macros as the project's OWN build description decides them: every function named in a `funcs` list of meson.build
    (`cc.has_function(f)` -> HAVE_<F>) that the C library of this machine provides (link test, as meson does it).  The fixed text above is what the
    unchanged tree needs; a working tree that adds a feature test (seeded change C16-12: `uselocale`) must be built WITH the code that test enables,
    or every check verifies a library nobody ships.  On the unchanged tree this adds nothing."""
    import re
    try: txt = open(os.path.join(repo, 'meson.build')).read()
    except OSError: return ''
    names = []
    for m in re.finditer(r'^\s*funcs\s*\+?=\s*\[(.*?)\]', txt, re.S | re.M):
        names += re.findall(r"'([A-Za-z_]\w*)'", m.group(1))
    out = ''
    for f in dict.fromkeys(names):
        macro = 'HAVE_' + re.sub(r'\W', '_', f).upper()
        if re.search(r'#define %s\b' % macro, CONFIG_H): continue
        try:
            ok = subprocess.run(['clang-14', '-x', 'c', '-', '-o', '/dev/null', '-w'], input='char %s(); int main(void) { return %s(); }\n' % (f, f),
                                capture_output=True, text=True, timeout=60).returncode == 0
        except Exception: ok = False
        if ok: out += '#define %s 1\n' % macro
    return out
CONFIG_H += _feature_macros(REPO)

def run(cmd, **kw):
    p = subprocess.run(cmd, capture_output=True, text=True, **kw)
    if p.returncode != 0:
        raise BuildError('command failed: %s\n%s\n%s' % (' '.join(cmd), p.stdout[-4000:], p.stderr[-4000:]))
    return p

def project_version(repo=REPO):
    import re
    try:
        m = re.search(r"version:\s*'([^']+)'", open(os.path.join(repo, 'meson.build')).read())
        return m.group(1)
    except Exception:
        return '0.0.0'

class Scratch:
    """mktemp -d outside /repo and /verif, removed on exit (also on failure)."""
    def __init__(self, prefix='xrlv.'):
        base = '/var/tmp' if os.path.isdir('/var/tmp') else tempfile.gettempdir()
        self.dir = tempfile.mkdtemp(prefix=prefix, dir=base)
    def __enter__(self): return self
    def __exit__(self, *a):
        shutil.rmtree(self.dir, ignore_errors=True)
    def path(self, *p): return os.path.join(self.dir, *p)

def cflags(repo, bdir):
    return ['-DHAVE_CONFIG_H', '-D_GNU_SOURCE', '-D' + GUARD, '-I' + bdir, '-I' + repo, '-I' + os.path.join(repo, 'src'),
            '-I' + os.path.join(repo, 'include')]

def ast_flags(repo=REPO, bdir=None):
    """flags for clang -ast-dump (same defines/includes as the build)"""
    return cflags(repo, bdir)

def compile_many(cc, flags, srcs, odir, jobs=16):
    os.makedirs(odir, exist_ok=True)
    objs = []
    def one(src):
        o = os.path.join(odir, os.path.basename(src) + '.o')
        run([cc] + flags + ['-c', src, '-o', o])
        return o
    with ThreadPoolExecutor(max_workers=jobs) as ex:
        objs = list(ex.map(one, srcs))
    return objs

def build_prdata(sc, repo=REPO, data_root=None, bname='b'):
    """compile libprdata + pr_data.c (no sanitizer, -O1), run it -> xrayglob_inline.c.  Returns path.
    `data_root`: directory containing `data/` (default: the repository itself)"""
    bdir = sc.path(bname); os.makedirs(bdir, exist_ok=True)
    v = project_version(repo)
    with open(os.path.join(bdir, 'config.h'), 'w') as f: f.write(CONFIG_H % (v, v))
    fl = cflags(repo, bdir) + ['-O1', '-g0', '-w']
    srcs = [os.path.join(repo, 'src', s) for s in PRDATA_LIB + ['pr_data.c']]
    if os.path.isdir(sc.path('o_prdata')) and os.path.exists(sc.path('prdata')):
        objs = []
    else:
        objs = compile_many('clang-14', fl, srcs, sc.path('o_prdata'))
    exe = sc.path('prdata')
    if not os.path.exists(exe):
        run(['clang-14'] + objs + ['-lm', '-o', exe])
    out = os.path.join(bdir, 'xrayglob_inline.c')
    p = subprocess.run([exe, data_root or repo, out], capture_output=True, text=True)
    if p.returncode != 0:
        raise BuildError('prdata failed (exit %d): %s %s' % (p.returncode, p.stdout[-2000:], p.stderr[-2000:]))
    return out

def build_lib(sc, repo=REPO, san='address,undefined', opt='-O1', extra=(), tag='san', cc='clang-14', srcs=None):
    """compile libxrl sources (+ generated tables) into objects; returns list of objects and flags.
    `srcs`: C files of src/ to compile instead of LIBXRL (C20 passes the list it reads from src/meson.build)"""
    bdir = sc.path('b')
    inline = os.path.join(bdir, 'xrayglob_inline.c')
    if not os.path.exists(inline): build_prdata(sc, repo)
    fl = cflags(repo, bdir) + [opt, '-g', '-w', '-fno-omit-frame-pointer'] + list(extra)
    if san: fl += ['-fsanitize=' + san, '-fno-sanitize-recover=all']
    srcs = [os.path.join(repo, 'src', s) for s in (LIBXRL if srcs is None else srcs)]
    objs = compile_many(cc, fl, srcs, sc.path('o_' + tag))
    # the 19 MB table file: no sanitizer instrumentation needed for constant data, but keep ASan redzones on globals
    tfl = cflags(repo, bdir) + ['-O0', '-g0', '-w']
    if san and 'address' in san: tfl += ['-fsanitize=address']
    if san and 'thread' in san: tfl += ['-fsanitize=thread']
    o = sc.path('o_' + tag, 'xrayglob_inline.c.o')
    run([cc] + tfl + ['-c', inline, '-o', o])
    return objs + [o], fl

def link(sc, objs, srcs, out, fl, libs=('-lm',), cc='clang-14'):
    run([cc] + fl + list(srcs) + list(objs) + list(libs) + ['-o', out])
    return out

def tree_hash(repo=REPO, subdirs=('src', 'include', 'data', 'cplusplus')):
    h = hashlib.sha256()
    for sd in subdirs:
        for root, dirs, files in sorted(os.walk(os.path.join(repo, sd))):
            dirs.sort()
            for fn in sorted(files):
                p = os.path.join(root, fn)
                h.update(p.encode()); 
                with open(p, 'rb') as f: h.update(hashlib.sha256(f.read()).digest())
    return h.hexdigest()

if __name__ == '__main__':
    import time
    with Scratch() as sc:
        t = time.time(); build_prdata(sc); print('prdata', time.time() - t)
        t = time.time(); objs, fl = build_lib(sc); print('lib', time.time() - t, len(objs))
        print(os.path.getsize(sc.path('b', 'xrayglob_inline.c')))

def vector_lengths(inline_path, out_path, tables):
    """Parse the generated xrayglob_inline.c: allocated length of every `static double __NAME_i[_j]` heap vector.
    `tables`: name -> dims of the pointer table.  Writes lines `name flatindex len`."""
    import re
    txt = open(inline_path).read()
    pat = re.compile(r'static (?:double|int) __(\w+?)_(\d+)(?:_(\d+))?\[(\d*)\]\s*(=?)')
    out = []
    for m in pat.finditer(txt):
        name = m.group(1)
        if name not in tables: continue
        dims = tables[name]
        i = int(m.group(2)); j = m.group(3)
        flat = i if j is None else i * dims[1] + int(j)
        if m.group(4):
            ln = int(m.group(4))     # `[1]` dummy: one zero-initialised element
        else:
            e = txt.index(';', m.end())
            body = txt[m.end():e]
            ln = body.count(',') + 1
        out.append('%s %d %d' % (name, flat, ln))
    with open(out_path, 'w') as f: f.write('\n'.join(out) + '\n')
    return len(out)

def build_prdrv(sc, auxdir, repo=REPO, san='address,undefined'):
    """the build-time driver: libprdata sources + harness/prdrv.c (which #includes src/pr_data.c) + the generated dumper"""
    bdir = sc.path('b')
    fl = cflags(repo, bdir) + ['-O1', '-g', '-w', '-fno-omit-frame-pointer', '-DPRDATA_PHASE', '-I' + auxdir, '-I' + os.path.join(VERIF, 'harness')]
    if san: fl += ['-fsanitize=' + san, '-fno-sanitize-recover=all']
    srcs = [os.path.join(repo, 'src', s) for s in PRDATA_LIB]
    objs = compile_many('clang-14', fl, srcs, sc.path('o_prdrv'))
    exe = sc.path('prdrv')
    run(['clang-14'] + fl + [os.path.join(VERIF, 'harness', 'prdrv.c'), os.path.join(auxdir, 'dump_gen.c')] + objs + ['-lm', '-o', exe])
    return exe
