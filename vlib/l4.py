"""Machinery shared by the checks that live in the lake project /verif/lean-l4 (C15, C20): finite tables regenerated
from the sources on every run and decided in the Lean kernel.  Mirrors vlib/core.py + vlib/runner.py for that
project (own lock, own Gen directory), re-using their audit / evidence / replay helpers."""
import os, sys, re, json, time, subprocess, fcntl, random

from . import cbuild, core
from .cbuild import VERIF, REPO, Scratch, BuildError
from .core import log, ALLOWED_AXIOMS, strip_comments

L4_DIR = os.path.join(VERIF, 'lean-l4')
GEN_DIR = os.path.join(L4_DIR, 'XrlL4', 'Gen')
TOOLS = os.path.join(VERIF, 'tools')
TRUSTED_BASE = [
    'Lean 4.33 kernel (lake build in lean-l4/; `decide +kernel` evaluates the Boolean checkers of XrlL4/Table.lean, whose soundness lemmas are proved in the same file; thorough tier: leanchecker re-check)',
    'axioms allowed in property theorems: propext, Classical.choice, Quot.sound (audited by #print axioms on every run)',
    'the extractors (tools/extract_bindings.py, tools/extract_catalogues.py): small per-language lexers that abort on any line they cannot classify; '
    'the C side is validated on every run against clang (macro set = `clang -dM -E`, every value printed by a compiled program, every prototype accepted by the compiler as a function-pointer initialiser)',
    'clang-14 preprocessor / parser / code generator, nm, the system linker',
]


class Lock:
    def __init__(self): self.path = os.path.join(L4_DIR, '.verif.lock')
    def __enter__(self):
        self.f = open(self.path, 'w'); fcntl.flock(self.f, fcntl.LOCK_EX); return self
    def __exit__(self, *a):
        fcntl.flock(self.f, fcntl.LOCK_UN); self.f.close()


class Ctx:
    def __init__(self, prop, tier, seed):
        self.prop, self.tier, self.seed = prop, tier, seed
        self.t0 = time.time(); self.sc = Scratch(); self.timings = {}; self.notes = []
        self.rng = random.Random(seed * 1000003 + int(re.sub(r'\D', '', prop) or 0))
        self.aux = self.sc.path('aux'); os.makedirs(self.aux, exist_ok=True)
    def tick(self, name, t): self.timings[name] = round(time.time() - t, 2)
    def close(self): self.sc.__exit__(None, None, None)


def lake_build(ctx, targets):
    t = time.time()
    p = subprocess.run(['lake', 'build'] + list(targets), cwd=L4_DIR, capture_output=True, text=True)
    ctx.tick('lake_build', t)
    return p.returncode == 0, p.stdout + p.stderr


def run_tool(ctx, script, args, name):
    """-> (returncode, stderr).  0 ok, 3 broken tie (reason in <aux>/<name>_tie.json)"""
    t = time.time()
    p = subprocess.run([sys.executable, os.path.join(TOOLS, script)] + list(args), capture_output=True, text=True, env=dict(os.environ, VERIF_REPO=REPO))
    ctx.tick(name, t)
    if p.returncode not in (0, 3):
        raise BuildError('%s crashed: %s' % (script, p.stderr[-3000:]))
    return p.returncode, p.stderr


def sources(extra_gen):
    out = [os.path.join(L4_DIR, 'XrlL4', 'Table.lean'), os.path.join(L4_DIR, "XrlL4", "Catalogue.lean"), os.path.join(L4_DIR, "XrlL4", "CatalogueSpec.lean"), os.path.join(L4_DIR, 'CatDriver.lean')]
    for root, dirs, files in os.walk(os.path.join(L4_DIR, 'XrlL4', 'Props')):
        out += [os.path.join(root, f) for f in files if f.endswith('.lean')]
    out += [os.path.join(GEN_DIR, g) for g in extra_gen]
    return [p for p in out if os.path.exists(p)]


def theorems_of(path, namespace):
    txt = strip_comments(open(path).read())
    return ['%s.%s' % (namespace, m) for m in re.findall(r'^\s*theorem\s+([\w\.\']+)', txt, flags=re.M)]


def print_axioms(ctx, module, names):
    src = 'import %s\n' % module + ''.join('#print axioms %s\n' % n for n in names)
    path = ctx.sc.path('Audit.lean'); open(path, 'w').write(src)
    t = time.time()
    p = subprocess.run(['lake', 'env', 'lean', path], cwd=L4_DIR, capture_output=True, text=True)
    ctx.tick('axioms', t)
    res = {}; txt = p.stdout + p.stderr
    for m in re.finditer(r"'([^']+)' depends on axioms: \[([^\]]*)\]|'([^']+)' does not depend on any axioms", txt):
        if m.group(1): res[m.group(1)] = [a.strip() for a in m.group(2).replace('\n', ' ').split(',') if a.strip()]
        else: res[m.group(3)] = []
    return res, txt


def failing_theorems(build_log, props_file):
    rel = os.path.relpath(props_file, L4_DIR)
    lines = [int(x) for m in re.findall(re.escape(rel) + r':(\d+):\d+: error|error: ' + re.escape(rel) + r':(\d+)', build_log) for x in m if x]
    try: src = open(props_file).read().splitlines()
    except OSError: return []
    names = []
    for ln in lines:
        for i in range(min(ln, len(src)) - 1, -1, -1):
            m = re.match(r'\s*(?:theorem|example)\s*([\w\.\']*)', src[i])
            if m:
                nm = m.group(1) or 'example@%d' % (i + 1)
                if nm not in names: names.append(nm)
                break
    return names


def first_errors(txt, n=8):
    errs = re.findall(r'error: [^\n]*(?:\n(?!error:|info:|trace:|✖|✔)[^\n]*){0,5}', txt)
    return '\n'.join(errs[:n])[:4000]


def load_findings(prop):
    """the ONLY file that can suppress a violation is /verif/known_findings.txt"""
    return list(core.load_known_findings().get(prop, []))


def audit(ctx, module, props_file, namespace, gen_files, ok_build, problems):
    """forbidden constructs + #print axioms; -> (theorems, axioms dict, n discharged)"""
    bad = core.audit_sources(sources(gen_files))
    if bad: problems.append('forbidden construct in Lean sources: ' + '; '.join(bad[:5]))
    theorems = theorems_of(props_file, namespace)
    axioms = {}
    if ok_build and theorems:
        axioms, txt = print_axioms(ctx, module, theorems)
        for th in theorems:
            if th not in axioms: problems.append('axiom audit: no report for %s' % th)
            else:
                extra = set(axioms[th]) - ALLOWED_AXIOMS
                if extra: problems.append('axiom audit: %s depends on %s' % (th, sorted(extra)))
    n_dis = 0 if not ok_build else sum(1 for th in theorems if th in axioms and not (set(axioms[th]) - ALLOWED_AXIOMS))
    return theorems, axioms, n_dis


def leanchecker(ctx, module, problems):
    t = time.time()
    p = subprocess.run(['lake', 'env', 'leanchecker', module], cwd=L4_DIR, capture_output=True, text=True)
    ctx.tick('leanchecker', t)
    if p.returncode != 0: problems.append('leanchecker rejected %s: %s' % (module, (p.stdout + p.stderr)[-400:]))
    else: ctx.notes.append('leanchecker re-checked %s' % module)


def guarded(prop, level, fn, tier, seed, replay):
    """run fn(ctx, replay) -> exit code; a build failure of the working tree / harness is a failed check"""
    ctx = Ctx(prop, tier, seed)
    try:
        return fn(ctx, replay)
    except BuildError as e:
        log('BUILD ERROR', str(e)[:3000])
        body = 'check %s could not build the working tree or its own harness:\n%s\n' % (prop, str(e)[:4000])
        path = core.write_replay(ctx, body, 'txt')
        print('VIOLATION property=%s replay=%s no-failing-input-found' % (prop, path))
        core.write_evidence(ctx, level, dict(obligations=1, discharged=0, checker_cmd='cd lean-l4 && lake build', trusted_base=TRUSTED_BASE,
                            explanation='build failed: ' + str(e)[:500], evaluations=1, distinct_nontrivial=0), 1)
        return 1
    finally:
        ctx.close()
