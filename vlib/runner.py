"""The flow every ./check follows (DESIGN §2.7)."""
import os, sys, re, json, time, traceback
from . import core
from .core import Ctx, Lock, log, LEAN_DIR, VERIF

class Check:
    """per-property plug-in; see props/*.py"""
    id = None
    module = None            # 'Xrl.Props.C01'
    namespace = None         # 'Xrl.C01'
    level = 'proof'
    need_c = True
    extra_trusted = []
    assumptions = []
    nonvacuity = []          # names of `example`/theorem witnesses expected in the props file (checked by name)

    def props_file(self):
        return os.path.join(LEAN_DIR, *self.module.split('.')) + '.lean'

    extra_modules = []       # further Props modules of the same property: [(module, namespace)]

    def all_modules(self):
        return ([(self.module, self.namespace)] if self.module else []) + list(self.extra_modules)

    def corr_lines(self, ctx):
        """protocol lines on which generated model and real library are compared"""
        return []

    def search(self, ctx):
        """violation search: specification vs real library.  -> (n_evaluated, [violation dict(key, got, expected, what)], stats)"""
        return 0, [], {}

    def extra_steps(self, ctx, rep):
        """property-specific additional ties (loader comparison, kernel tables, …); append to rep['problems']"""
        pass

def sample(lst, k, rng):
    if len(lst) <= k: return list(lst)
    idx = sorted(rng.sample(range(len(lst)), k))
    return [lst[i] for i in idx]

def run(check, tier, seed, replay=None):
    ctx = Ctx(check.id, tier, seed)
    rep = dict(problems=[], proof_broken=[], tie_broken=[], violations=[], known=[])
    status = 1
    try:
        status = _run(check, ctx, rep, replay)
    except core.BuildError as e:
        # the working tree does not build: that is not a property violation we can attribute, but it is a failed check
        log('BUILD ERROR', str(e)[:3000])
        body = 'check %s could not build the working tree or its own harness:\n%s\n' % (check.id, str(e)[:4000])
        path = core.write_replay(ctx, body, 'txt')
        print('VIOLATION property=%s replay=%s no-failing-input-found' % (check.id, path))
        core.write_evidence(ctx, check.level, dict(obligations=1, discharged=0, checker_cmd='lake build ' + str(check.module),
                            trusted_base=core.TRUSTED_BASE, explanation='build failed: ' + str(e)[:500], evaluations=1, distinct_nontrivial=0), 1)
        status = 1
    finally:
        ctx.close()
    return status

def _run(check, ctx, rep, replay):
    known = core.load_known_findings().get(check.id, [])
    # ---- 1. C artefacts, regeneration, 2. lake build --------------------------------------------
    if check.need_c:
        ctx.build_c()
    with Lock():
        gen_ok = ctx.regenerate()
        if ctx.gen_errors:
            rep['tie_broken'] += ctx.gen_errors
        t = time.time()
        ok_exe, log_exe = ctx.lake_build(['xrl-model'])
        ok_props, log_props = ctx.lake_build([m for m, _ in check.all_modules()]) if check.module else (True, '')
    if not ok_exe:
        rep['tie_broken'].append('generated model does not compile: ' + _first_errors(log_exe))
    failing = []
    if not ok_props:
        failing = []
        for m, _ in check.all_modules():
            failing += core.failing_theorems(log_props, os.path.join(LEAN_DIR, *m.split('.')) + '.lean')
        rep['proof_broken'] = failing or ['(module %s does not build)' % check.module]
        rep['proof_log'] = _first_errors(log_props, 12)
    # ---- 3. audit -----------------------------------------------------------------------------------
    bad = core.audit_sources(core.lean_sources())
    if bad:
        rep['problems'].append('forbidden construct in Lean sources: ' + '; '.join(bad[:5]))
    theorems = []; axioms = {}
    for m, ns in check.all_modules():
        ths = core.theorems_of(os.path.join(LEAN_DIR, *m.split('.')) + '.lean', ns)
        theorems += ths
        if ok_props and ths:
            # one audit file per module: modules of one property need not be importable together
            ax, txt = core.print_axioms(ctx, m, ths)
            axioms.update(ax)
    if ok_props and theorems:
        for th in theorems:
            if th not in axioms:
                rep['problems'].append('axiom audit: no report for %s' % th)
            else:
                extra = set(axioms[th]) - core.ALLOWED_AXIOMS
                if extra: rep['problems'].append('axiom audit: %s depends on %s' % (th, sorted(extra)))
    # non-vacuity witnesses present
    if check.module:
        src = open(check.props_file()).read()
        for w in check.nonvacuity:
            if not re.search(r'\b%s\b' % re.escape(w), src):
                rep['problems'].append('non-vacuity witness %s missing from %s' % (w, check.module))
    if ctx.tier == 'thorough' and ok_props and check.module:
        import subprocess
        t = time.time()
        p = subprocess.run(['lake', 'env', 'leanchecker', check.module], cwd=LEAN_DIR, capture_output=True, text=True)
        ctx.tick('leanchecker', t)
        if p.returncode != 0:
            rep['problems'].append('leanchecker rejected %s: %s' % (check.module, (p.stdout + p.stderr)[-400:]))
        else:
            ctx.notes.append('leanchecker re-checked %s' % check.module)
    # ---- 5. correspondence ---------------------------------------------------------------------------
    stats = {}
    n_corr = 0; mism = []
    samples = []
    if check.need_c:
        ctx.build_drivers()
        if ok_exe:
            lines = _corpus(check) + check.corr_lines(ctx)
            if replay:
                lines = [l.strip() for l in open(replay) if l.strip() and not l.startswith('#')]
            t = time.time()
            c_out = ctx.run_c(lines)
            m_out = ctx.run_model(lines)
            ctx.tick('correspondence', t)
            n_corr = len(lines)
            dist = {}
            for l, c, m in zip(lines, c_out, m_out):
                fn = l.split(' ')[0]
                d = dist.setdefault(fn, dict(calls=0, ok=0, err=0, nonfinite=0, ub=0))
                d['calls'] += 1
                pm = core.parse_answer(m)
                if pm['kind'] == 'ok': d['ok' if pm['slot'] in ('E', 'N') and not pm['slot'].startswith('F') else 'err'] += 1
                elif pm['kind'] == 'abort': d['ub' if pm['why'] == 'ub' else 'nonfinite'] += 1
                if not core.answers_agree(c, m, stats):
                    mism.append((l, c, m))
            stats['distribution'] = dist
            samples = [dict(line=l, impl=c, model=m) for l, c, m in sample(list(zip(lines, c_out, m_out)), 6, ctx.rng)]
            if mism:
                rep['tie_broken'].append('model and implementation disagree on %d of %d lines; first: %s | impl: %s | model: %s' % (
                    len(mism), n_corr, mism[0][0], mism[0][1], mism[0][2]))
    check.extra_steps(ctx, rep)
    # ---- violation search (always run: it is cheap; it decides what a broken proof/tie means) ---------
    n_search, viols, sstats = (0, [], {})
    if check.need_c:
        t = time.time()
        n_search, viols, sstats = check.search(ctx)
        ctx.tick('search', t)
    stats.update(sstats)
    # ---- the same calls again in the same process (and once more in reverse order): "returns X" must not depend on history
    if check.need_c and getattr(check, 'repeat_probe', True):
        t = time.time()
        try:
            base = [l for l in (check.corr_lines(ctx) if not replay else []) if l.endswith(' E')]
            # whole groups of calls that differ only in their last integer argument are kept together (the stride pass of run_c_twice
            # needs both (Z, m) and (Z, m - 256) to be there), groups chosen by the seeded generator up to the budget
            budget = 30000 if ctx.tier == 'quick' else 200000
            if len(base) <= budget: probe = base
            else:
                groups = {}
                for l in base:
                    tk_ = l.split(' ')
                    ints = [k for k in range(1, len(tk_)) if tk_[k].lstrip('-').isdigit()]
                    k = ints[-1] if ints else len(tk_)
                    groups.setdefault((tk_[0], tuple(tk_[1:k] + tk_[k + 1:])), []).append(l)
                keys = sorted(groups); ctx.rng.shuffle(keys)
                probe = []
                for k in keys:
                    if len(probe) >= budget: break
                    probe += groups[k]
            if probe:
                a1, a2, a3, a4 = ctx.run_c_twice(probe)
                nrep = 0
                for l, x, y, z, w in zip(probe, a1, a2, a3, a4):
                    if x != y or x != z or x != w:
                        nrep += 1
                        if nrep <= 20:
                            viols.append(dict(key=l + ' ; ' + l, got='first call: %s | same call again in the same process: %s | in the argument-reversed order: %s | in a shuffled order: %s' % (x, y, z, w),
                                              expected='the same result every time', what='the result of a call depends on the calls made before it'))
                n_search += 3 * len(probe); stats['repeat_probe'] = dict(calls=len(probe), history_dependent=nrep)
            # ---- the optional error slot: "passing no slot changes nothing but the reporting" — every probed call once more without a slot
            #      (seeded changes C02-11, C10-11, C12-12, C01-11: failure detected through `*error`, i.e. only when a slot is given)
            if probe:
                nl = [l[:-1] + 'N' for l in probe]
                an = ctx.run_c(nl)
                nnull = 0
                for l, x, y in zip(probe, a1, an):
                    px, py = core.parse_answer(x), core.parse_answer(y)
                    if px['kind'] != 'ok' or py['kind'] != 'ok':
                        bad = px['kind'] != py['kind']
                    else:
                        vx = px['vals']; vy = py['vals']
                        bad = len(vx) != len(vy) or any(not (a == b or (a != a and b != b)) for a, b in zip(vx, vy))
                    if bad:
                        nnull += 1
                        if nnull <= 20:
                            viols.append(dict(key=l[:-1] + 'N', got=y, expected='the value returned with an error slot: %s' % x, what='the result of a call depends on whether the optional error slot is passed'))
                n_search += len(probe); stats['null_slot_probe'] = dict(calls=len(probe), differing=nnull)
        except core.BuildError:
            pass
        ctx.tick('repeat_probe', t)
    # an answer `bad-op` comes from OUR driver (no dispatch entry), never from the library: that is a broken tie, not a violation
    nb = [v for v in viols if str(v.get('got', '')).startswith('bad-op')]
    if nb:
        viols = [v for v in viols if v not in nb]
        rep['tie_broken'].append('the C driver has no dispatch entry for %s (%d search cases not evaluated)' % (sorted({v['key'].split(' ')[0] for v in nb})[:6], len(nb)))
    new_viols = []
    for v in viols:
        hit = [k for k in known if k[0] == v['key']]
        if hit: rep['known'].append((v, hit[0]))
        else: new_viols.append(v)
    # ---- report --------------------------------------------------------------------------------------
    exit_code = 0
    printed = set()
    for v, k in rep['known']:
        msg = 'KNOWN-FINDING: property=%s %s: %s' % (check.id, k[0], k[1])
        if msg not in printed: print(msg); printed.add(msg)
    broken = rep['proof_broken'] or rep['tie_broken'] or rep['problems']
    if new_viols:
        body = '# violation of %s found by the violation search (specification vs the real library)\n' % check.id
        for v in new_viols[:50]:
            body += '# expected: %s\n# got:      %s\n# %s\n%s\n' % (v.get('expected'), v.get('got'), v.get('what', ''), v['key'])
        if broken:
            body += '\n# broken obligations: %s\n' % json.dumps(dict(proof=rep['proof_broken'], tie=rep['tie_broken'], other=rep['problems']))[:3000]
        path = core.write_replay(ctx, body)
        print('VIOLATION property=%s replay=%s' % (check.id, path))
        exit_code = 1
    elif broken:
        body = '# %s is no longer shown to hold; no failing input was found by the search (%d cases)\n' % (check.id, n_search)
        if rep['proof_broken']:
            body += '# theorems that no longer check: %s\n# %s\n' % (', '.join(rep['proof_broken']), rep.get('proof_log', '').replace('\n', '\n# '))
        for tb in rep['tie_broken']: body += '# correspondence / translation broken: %s\n' % tb
        for pb in rep['problems']: body += '# %s\n' % pb
        for l, c, m in mism[:50]: body += '%s\n' % l
        path = core.write_replay(ctx, body)
        print('VIOLATION property=%s replay=%s no-failing-input-found' % (check.id, path))
        exit_code = 1
    n_obl = len(theorems)
    n_dis = 0 if not ok_props else sum(1 for th in theorems if th in axioms and not (set(axioms[th]) - core.ALLOWED_AXIOMS))
    # theorems of a sibling project audited by an extra step (C01: lean-loader) count as obligations of this property too
    n_obl += int(ctx.coverage.get('loader_theorems', 0)); n_dis += int(ctx.coverage.get('loader_theorems_discharged', 0))
    cov = dict(obligations=max(n_obl, 1), discharged=n_dis,
               checker_cmd='cd lean && lake build %s  (then `#print axioms` on each theorem)' % check.module,
               trusted_base=core.TRUSTED_BASE + list(check.extra_trusted),
               theorems=[dict(name=th, axioms=axioms.get(th)) for th in theorems],
               traces_validated_against_impl=n_corr, correspondence_mismatches=len(mism),
               search_cases=n_search, search_violations=len(new_viols), known_findings_reproduced=len(rep['known']),
               evaluations=n_corr + n_search,
               distinct_nontrivial=stats.get('distinct_nontrivial', 0),
               rule=stats.get('rule', ''),
               samples=samples + stats.get('samples', []),
               max_rel_dev_model_vs_impl=stats.get('max_rel_dev', 0.0),
               distribution=stats.get('distribution', {}),
               untranslated=sorted(ctx.meta['failed'].keys()) if ctx.meta else None,
               provenance={f: d.get('sha') for f, d in (ctx.meta['functions'].items() if ctx.meta else [])} if getattr(check, 'functions', None) is None
                          else {f: ctx.meta['functions'].get(f, {}).get('sha') for f in check.functions} if ctx.meta else {},
               broken=dict(proof=rep['proof_broken'], tie=rep['tie_broken'], other=rep['problems']),
               extra=dict({k: v for k, v in stats.items() if k not in ('distribution', 'samples', 'rule', 'distinct_nontrivial', 'max_rel_dev')}, **{'extra_steps': dict(ctx.coverage)} if ctx.coverage else {}))
    core.write_evidence(ctx, check.level, cov, len(new_viols) + (1 if broken and not new_viols else 0), check.assumptions)
    log('%s %s: exit %d  (%.1fs; theorems %d/%d; corr %d lines, %d mismatches; search %d cases, %d violations, %d known)' % (
        check.id, ctx.tier, exit_code, time.time() - ctx.t0, n_dis, n_obl, n_corr, len(mism), n_search, len(new_viols), len(rep['known'])))
    return exit_code

def _first_errors(txt, n=6):
    errs = re.findall(r'error: [^\n]*(?:\n(?!error:|info:|trace:|✖|✔)[^\n]*){0,6}', txt)
    return '\n'.join(errs[:n])[:4000]

def _corpus(check):
    d = os.path.join(VERIF, 'corpus')
    out = []
    if os.path.isdir(d):
        for f in sorted(os.listdir(d)):
            if f.startswith(check.id) and f.endswith('.lines'):
                out += [l.strip() for l in open(os.path.join(d, f)) if l.strip() and not l.startswith('#')]
    return out
