"""Shared machinery of ./check: build, regenerate, prove, audit, correspond, search, report."""
import random, os, sys, re, json, time, subprocess, struct, hashlib, fcntl, shutil, random, math

from . import cbuild
from .cbuild import VERIF, REPO, Scratch, BuildError

LEAN_DIR = os.path.join(VERIF, 'lean')
GEN_DIR = os.path.join(LEAN_DIR, 'Xrl', 'Gen')
EVID_DIR = os.path.join(VERIF, 'evidence')
REPLAY_DIR = os.path.join(EVID_DIR, 'replay')
ALLOWED_AXIOMS = {'propext', 'Classical.choice', 'Quot.sound'}
TRUSTED_BASE = [
    'Lean 4.33 kernel (lake build; thorough tier: leanchecker re-check of the property module)',
    'axioms allowed in property theorems: propext, Classical.choice, Quot.sound (audited by #print axioms on every run)',
    'tools/c2lean.py + clang-14 JSON AST: C -> Lean translation, checked on every run by the correspondence harness (Float reading of the generated model vs the library compiled from the working tree, ASan+UBSan)',
    'Mathlib (module-wise, proofs only)',
    'modelled, not verified: IEEE-754 rounding/overflow (theorems are over the reals), libm, the C compiler, libc',
]

# ------------------------------------------------------------------------------------------------

def hx(x):
    return 'x%016x' % struct.unpack('<Q', struct.pack('<d', float(x)))[0]

def unhx(s):
    return struct.unpack('<d', struct.pack('<Q', int(s[1:], 16)))[0]

def log(*a):
    print(*a, file=sys.stderr, flush=True)

class Lock:
    """serialise regeneration + lake build across concurrently started checks"""
    def __init__(self): self.path = os.path.join(LEAN_DIR, '.verif.lock')
    def __enter__(self):
        self.f = open(self.path, 'w'); fcntl.flock(self.f, fcntl.LOCK_EX); return self
    def __exit__(self, *a):
        fcntl.flock(self.f, fcntl.LOCK_UN); self.f.close()

class Ctx:
    def __init__(self, prop, tier='quick', seed=0):
        self.prop = prop; self.tier = tier; self.seed = seed
        self.t0 = time.time()
        self.sc = Scratch()
        self.rng = random.Random(seed * 1000003 + int(re.sub(r'\D', '', prop) or 0))
        self.notes = []
        self.meta = None
        self.gen_errors = []       # UNSUPPORTED lines of the translator (broken tie)
        self.build_error = None
        self.coverage = {}
        self.timings = {}

    def close(self):
        self.sc.__exit__(None, None, None)

    def tick(self, name, t):
        self.timings[name] = round(time.time() - t, 2)

    # ---- step 1: C artefacts + regeneration ------------------------------------------------
    def build_c(self, san='address,undefined', tag='san'):
        t = time.time()
        cbuild.build_prdata(self.sc, REPO)
        self.objs, self.cfl = cbuild.build_lib(self.sc, REPO, san=san, tag=tag)
        self.tick('c_build', t)

    def regenerate(self):
        """c2lean + header extraction into lean/Xrl/Gen (caller holds the lock)"""
        t = time.time()
        aux = self.sc.path('aux'); os.makedirs(aux, exist_ok=True)
        env = dict(os.environ, VERIF_REPO=REPO)
        p = subprocess.run([sys.executable, os.path.join(VERIF, 'tools', 'gen.py'), self.sc.path('b'), GEN_DIR, aux],
                           capture_output=True, text=True, env=env)
        self.gen_errors = [l for l in p.stdout.splitlines() if l.startswith('UNSUPPORTED')]
        if p.returncode not in (0, 3):
            raise BuildError('gen.py crashed: ' + p.stderr[-3000:])
        p2 = subprocess.run([sys.executable, os.path.join(VERIF, 'tools', 'extract_headers.py'), self.sc.path('b'), GEN_DIR, aux],
                            capture_output=True, text=True, env=env)
        if p2.returncode != 0:
            self.gen_errors.append('UNSUPPORTED headers: ' + p2.stderr[-500:])
        try:
            self.meta = json.load(open(os.path.join(aux, 'gen_meta.json')))
        except OSError:
            self.meta = None
        self.tick('regenerate', t)
        return p.returncode == 0 and p2.returncode == 0

    def build_drivers(self, extra_inc=None):
        t = time.time()
        aux = self.sc.path('aux')
        cbuild.link(self.sc, self.objs, [os.path.join(VERIF, 'harness', 'cdrv.c')], self.sc.path('cdrv'), self.cfl + ['-I' + aux, '-I' + os.path.join(VERIF, 'harness')])
        cbuild.link(self.sc, self.objs, [os.path.join(aux, 'dump_gen.c')], self.sc.path('dump'), self.cfl)
        cbuild.vector_lengths(self.sc.path('b', 'xrayglob_inline.c'), self.sc.path('lens.txt'),
                              {k: v['dims'] for k, v in self.meta['tables'].items() if v['ptr']})
        p = subprocess.run([self.sc.path('dump'), self.sc.path('dump.bin'), self.sc.path('dump.idx'), self.sc.path('lens.txt')],
                           capture_output=True, text=True)
        if p.returncode != 0:
            raise BuildError('table dump failed: ' + p.stderr[-2000:])
        self.tick('drivers', t)

    # ---- step 2: lake --------------------------------------------------------------------------
    def lake_build(self, targets):
        t = time.time()
        p = subprocess.run(['lake', 'build'] + list(targets), cwd=LEAN_DIR, capture_output=True, text=True)
        self.tick('lake_build', t)
        out = p.stdout + p.stderr
        return p.returncode == 0, out

    def model_exe(self):
        return os.path.join(LEAN_DIR, '.lake', 'build', 'bin', 'xrl-model')

    # ---- step 5: drivers -------------------------------------------------------------------------
    def run_c(self, lines, exe=None, env=None, chunk=4000):
        """run the real library on `lines`; a sanitizer abort becomes the answer `died <summary>`.
        Lines are executed in chunks (fresh process each, 8 in parallel): every call is independent of
        the others for the numeric API; stateful families pass chunk=None to keep one process."""
        exe = exe or self.sc.path('cdrv')
        e = dict(os.environ, ASAN_OPTIONS='detect_leaks=0:abort_on_error=0:halt_on_error=1', UBSAN_OPTIONS='print_stacktrace=0')
        if env: e.update(env)
        def run_chunk(ls):
            out = []; i = 0
            while i < len(ls):
                try:
                    p = subprocess.run([exe], input='\n'.join(ls[i:]) + '\n', capture_output=True, text=True, env=e, timeout=900)
                except subprocess.TimeoutExpired as ex:
                    # an endless loop / deadlock in the library under test must not hang the check: the line at which the output stops `died`
                    class P: pass
                    p = P(); p.returncode = -9
                    p.stdout = ex.stdout.decode('latin1') if isinstance(ex.stdout, bytes) else (ex.stdout or '')
                    p.stderr = 'SUMMARY: no answer within 900 s (hang)'
                got = p.stdout.splitlines()
                if len(got) > len(ls) - i: got = got[:len(ls) - i]
                out += got; i += len(got)
                if i < len(ls):
                    if p.returncode == 0:
                        raise BuildError('C driver stopped early without a diagnostic at line: ' + ls[i])
                    m = re.search(r'(runtime error: [^\n]*|ERROR: AddressSanitizer: [^\n]*|SUMMARY: [^\n]*)', p.stderr)
                    out.append('died ' + (m.group(1)[:160] if m else 'exit %d' % p.returncode))
                    i += 1
            return out
        if not chunk or len(lines) <= chunk:
            return run_chunk(lines)
        from concurrent.futures import ThreadPoolExecutor
        chunks = [lines[i:i + chunk] for i in range(0, len(lines), chunk)]
        with ThreadPoolExecutor(max_workers=12) as ex:
            res = list(ex.map(run_chunk, chunks))
        return [x for r in res for x in r]

    def run_c_twice(self, lines, chunk=2000):
        """every chunk is executed four times in ONE process, in different orders: as given, as given again, sorted with the
        argument order reversed (consecutive calls then share their LAST arguments and differ in the first: what a cache keyed
        by a subset of the arguments gets wrong), and in a seeded shuffle.  -> the four answer lists, each in the order of
        `lines`.  A result that depends on what was called before shows as a difference between the passes."""
        from concurrent.futures import ThreadPoolExecutor
        chunks = [lines[i:i + chunk] for i in range(0, len(lines), chunk)]
        def work(arg):
            ci, ls = arg
            n = len(ls)
            o3 = sorted(range(n), key=lambda i: (ls[i].split(' ')[0], ls[i].split(' ')[:0:-1]))
            o4 = list(range(n)); random.Random(self.seed * 7919 + ci).shuffle(o4)
            # fifth pass: consecutive calls share all arguments but the last integer one, which steps by a power of two (256, 128, ...):
            # what a memo keyed on the low bits of a macro gets wrong (seeded change C01-12: key (Z << 8) | (line & 0xff))
            def stride_key(i):
                t = ls[i].split(' ')
                ints = [k for k in range(1, len(t)) if t[k].lstrip('-').isdigit()]
                if not ints: return (t[0], tuple(t[1:]), 0, 0)
                k = ints[-1]; v = int(t[k])
                return (t[0], tuple(t[1:k] + t[k + 1:]), v & 0xff, v)
            o5 = sorted(range(n), key=stride_key)
            out = self.run_c(ls + ls + [ls[i] for i in o3] + [ls[i] for i in o4] + [ls[i] for i in o5], chunk=None)
            a3 = [None] * n; a4 = [None] * n; a5 = [None] * n
            for k, i in enumerate(o3): a3[i] = out[2 * n + k]
            for k, i in enumerate(o4): a4[i] = out[3 * n + k]
            for k, i in enumerate(o5): a5[i] = out[4 * n + k]
            # a difference in the stride pass is reported through the shuffled-order slot
            a4 = [w if w != x else v for x, w, v in zip(out[:n], a4, a5)]
            return out[:n], out[n:2 * n], a3, a4
        with ThreadPoolExecutor(max_workers=12) as ex:
            res = list(ex.map(work, enumerate(chunks)))
        return tuple([x for r in res for x in r[k]] for k in range(4))

    def build_prdrv(self):
        """build-time driver (harness/prdrv.c) + dump of the RAW tables as prdata holds them"""
        t = time.time()
        self.prdrv = cbuild.build_prdrv(self.sc, self.sc.path('aux'), REPO)
        p = subprocess.run([self.prdrv, REPO, '--dump', self.sc.path('pdump.bin'), self.sc.path('pdump.idx'), self.sc.path('lens.txt')],
                           capture_output=True, text=True)
        if p.returncode != 0:
            raise BuildError('prdata-phase dump failed: ' + p.stderr[-2000:])
        self.tick('prdrv', t)

    def build_kissel_config(self, kind='synth'):
        """further data configurations of the Kissel table, built through the real prdata with the same code objects:
        kind='real'  (suffix R): data/kissel_pe.dat REGENERATED from the raw files of data/kissel by tools/regen_kissel.py
                     (a port of data/kissel/kissel.pro) — the configuration the properties name;
        kind='synth' (suffix K): a synthetic, well-formed, non-physical table (tools/synth_kissel.py) whose values stress
                     branches the physical table never reaches.
        -> suffix; binaries cdrv<suffix>, dump<suffix>, tables dump<suffix>.bin"""
        suf = {'real': 'R', 'synth': 'K'}[kind]
        if suf in getattr(self, 'kissel_ready', set()): return suf
        t = time.time()
        root = self.sc.path('kroot' + suf); os.makedirs(os.path.join(root, 'data'), exist_ok=True)
        for f in os.listdir(os.path.join(REPO, 'data')):
            src = os.path.join(REPO, 'data', f); dst = os.path.join(root, 'data', f)
            if f != 'kissel_pe.dat' and not os.path.exists(dst): os.symlink(src, dst)
        if kind == 'synth':
            lines = ['EdgeEnergy %d %d N' % (Z, s) for Z in range(1, 121) for s in range(28)]
            out = self.run_c(lines)
            with open(self.sc.path('edges.txt'), 'w') as f:
                for l, o in zip(lines, out):
                    p = parse_answer(o)
                    if p['kind'] == 'ok' and p['vals'][0] > 0:
                        _, Z, s_, _ = l.split(); f.write('%s %s %.17g\n' % (Z, s_, p['vals'][0]))
            p = subprocess.run([sys.executable, os.path.join(VERIF, 'tools', 'synth_kissel.py'), self.sc.path('edges.txt'),
                                os.path.join(root, 'data', 'kissel_pe.dat')], capture_output=True, text=True)
            if p.returncode != 0: raise BuildError('synth_kissel.py failed: ' + p.stderr[-1000:])
        else:
            p = subprocess.run([sys.executable, os.path.join(VERIF, 'tools', 'regen_kissel.py'), os.path.join(REPO, 'data', 'kissel'),
                                os.path.join(root, 'data', 'kissel_pe.dat')], capture_output=True, text=True)
            if p.returncode != 0: raise BuildError('regen_kissel.py failed: ' + p.stderr[-1000:])
        inline = cbuild.build_prdata(self.sc, REPO, data_root=root, bname='b' + suf)
        o = self.sc.path('o_san', 'xrayglob_inline_%s.c.o' % suf)
        cbuild.run(['clang-14'] + cbuild.cflags(REPO, self.sc.path('b')) + ['-O0', '-g0', '-w', '-fsanitize=address', '-c', inline, '-o', o])
        objs = [x for x in self.objs if not x.endswith('xrayglob_inline.c.o')] + [o]
        aux = self.sc.path('aux')
        cbuild.link(self.sc, objs, [os.path.join(VERIF, 'harness', 'cdrv.c')], self.sc.path('cdrv' + suf), self.cfl + ['-I' + aux, '-I' + os.path.join(VERIF, 'harness')])
        cbuild.link(self.sc, objs, [os.path.join(aux, 'dump_gen.c')], self.sc.path('dump' + suf), self.cfl)
        cbuild.vector_lengths(inline, self.sc.path('lens%s.txt' % suf), {k: v['dims'] for k, v in self.meta['tables'].items() if v['ptr']})
        p = subprocess.run([self.sc.path('dump' + suf), self.sc.path('dump%s.bin' % suf), self.sc.path('dump%s.idx' % suf), self.sc.path('lens%s.txt' % suf)], capture_output=True, text=True)
        if p.returncode != 0: raise BuildError('table dump (Kissel configuration %s) failed: ' % kind + p.stderr[-2000:])
        self.kissel_ready = getattr(self, 'kissel_ready', set()) | {suf}
        self.tick('kissel_config_' + kind, t)
        return suf

    def run_prdrv(self, lines):
        class A: pass
        exe = self.sc.path('prdrv.sh')
        if not os.path.exists(exe):
            with open(exe, 'w') as f: f.write('#!/bin/sh\nexec %s %s\n' % (self.prdrv, REPO))
            os.chmod(exe, 0o755)
        return self.run_c(lines, exe=exe, chunk=20000)

    def run_model(self, lines, dump='dump'):
        p = subprocess.run([self.model_exe(), self.sc.path(dump + '.bin'), self.sc.path(dump + '.idx')],
                           input='\n'.join(lines) + '\n', capture_output=True, text=True)
        if p.returncode != 0:
            raise BuildError('model driver failed: ' + p.stderr[-2000:])
        return p.stdout.splitlines()

# ------------------------------------------------------------------------------------------------
# comparison of answers

REL_TOL = 1e-13

def close(a, b, rel=REL_TOL):
    if a == b: return True
    if math.isnan(a) or math.isnan(b): return False
    return abs(a - b) <= rel * max(abs(a), abs(b)) + 1e-300

def parse_answer(s):
    """-> dict(kind=ok|abort|died|bad, vals=[floats/ints], slot=str)"""
    t = s.split(' ')
    if t[0] == 'ok':
        vals = []; i = 1
        while i < len(t) and (t[i].startswith('x') or re.fullmatch(r'-?\d+', t[i])):
            vals.append(unhx(t[i]) if t[i].startswith('x') else int(t[i])); i += 1
        slot = ' '.join(t[i:])
        return dict(kind='ok', vals=vals, slot=slot)
    if t[0] == 'abort': return dict(kind='abort', why=t[1] if len(t) > 1 else '', detail=' '.join(t[2:]))
    if t[0] == 'died': return dict(kind='died', detail=' '.join(t[1:]))
    return dict(kind='bad', text=s)

def answers_agree(c, m, stats=None):
    """correspondence: model outcome vs real outcome for one line"""
    if c == m: return True
    pc, pm = parse_answer(c), parse_answer(m)
    if pc['kind'] == 'ok' and pm['kind'] == 'ok':
        if pc['slot'] != pm['slot'] or len(pc['vals']) != len(pm['vals']): return False
        for a, b in zip(pc['vals'], pm['vals']):
            if isinstance(a, int) or isinstance(b, int):
                if a != b: return False
            elif not close(a, b):
                return False
            elif stats is not None and a != b:
                d = abs(a - b) / max(abs(a), abs(b)); stats['max_rel_dev'] = max(stats.get('max_rel_dev', 0.0), d)
        return True
    if pc['kind'] == 'died' and pm['kind'] == 'abort' and pm['why'] == 'ub': return True
    if pc['kind'] == 'ok' and pm['kind'] == 'abort' and pm['why'] == 'nf':
        return any(isinstance(v, float) and not math.isfinite(v) for v in pc['vals'])
    return False

def expect_agrees(c, e, rel=1e-9, stats=None):
    """violation search: real outcome `c` vs expectation `e` (`value x..` | `fails`) computed by the specification"""
    pc = parse_answer(c)
    if e == 'fails':
        # sentinel 0 and exactly one stored error with non-empty message (slot E) / nothing observable (slot N)
        if pc['kind'] != 'ok': return False
        if not pc['vals'] or pc['vals'][0] != 0: return False
        if pc['slot'] == 'N': return True
        m = re.fullmatch(r'F(\d+):(.+)', pc['slot'], re.S)
        return bool(m) and int(m.group(1)) <= 5
    if e.startswith('value '):
        if pc['kind'] != 'ok': return False
        if pc['slot'] not in ('E', 'N'): return False
        v = unhx(e.split(' ')[1])
        a = pc['vals'][0]
        if not (isinstance(a, float) and math.isfinite(a)): return False
        ok = close(a, v, rel)
        if ok and stats is not None and a != v:
            stats['max_rel_dev_spec'] = max(stats.get('max_rel_dev_spec', 0.0), abs(a - v) / max(abs(a), abs(v)))
        return ok
    return True     # `skip`: the specification makes no claim for this input

# ------------------------------------------------------------------------------------------------
# audit

FORBIDDEN = re.compile(r'\b(sorry|admit|native_decide|bv_decide|implemented_by|unsafe)\b|^axiom |maxHeartbeats 0')

def strip_comments(txt):
    txt = re.sub(r'/-.*?-/', '', txt, flags=re.S)
    return re.sub(r'--.*', '', txt)

def audit_sources(paths):
    bad = []
    for p in paths:
        try: txt = strip_comments(open(p).read())
        except OSError: continue
        for i, l in enumerate(txt.splitlines(), 1):
            if FORBIDDEN.search(l): bad.append('%s:%d: %s' % (os.path.relpath(p, VERIF), i, l.strip()[:120]))
    return bad

def lean_sources():
    out = []
    for root, dirs, files in os.walk(os.path.join(LEAN_DIR, 'Xrl')):
        for f in files:
            if f.endswith('.lean'): out.append(os.path.join(root, f))
    out.append(os.path.join(LEAN_DIR, 'Driver.lean'))
    return sorted(out)

def theorems_of(module_path, namespace):
    """names of the theorems stated in a Props file"""
    txt = strip_comments(open(module_path).read())
    return ['%s.%s' % (namespace, m) for m in re.findall(r'^\s*theorem\s+([\w\.\']+)', txt, flags=re.M)]

def print_axioms(ctx, module, names):
    mods = module if isinstance(module, (list, tuple)) else [module]
    src = ''.join('import %s\n' % m for m in mods) + ''.join('#print axioms %s\n' % n for n in names)
    path = ctx.sc.path('Audit.lean')
    open(path, 'w').write(src)
    p = subprocess.run(['lake', 'env', 'lean', path], cwd=LEAN_DIR, capture_output=True, text=True)
    res = {}
    txt = p.stdout + p.stderr
    for m in re.finditer(r"^'(.+?)' depends on axioms: \[([^\]]*)\]|^'(.+?)' does not depend on any axioms", txt, re.M):
        if m.group(1): res[m.group(1)] = [a.strip() for a in m.group(2).replace('\n', ' ').split(',') if a.strip()]
        else: res[m.group(3)] = []
    return res, txt

def failing_theorems(build_log, props_file):
    """map `error: Xrl/Props/Cxx.lean:LINE` to the enclosing theorem"""
    rel = os.path.relpath(props_file, LEAN_DIR)
    lines = [int(m) for m in re.findall(re.escape(rel) + r':(\d+):\d+: error|error: ' + re.escape(rel) + r':(\d+)', build_log) for m in m if m]
    try: src = open(props_file).read().splitlines()
    except OSError: return []
    names = []
    for ln in lines:
        for i in range(min(ln, len(src)) - 1, -1, -1):
            m = re.match(r'\s*theorem\s+([\w\.\']+)', src[i])
            if m:
                if m.group(1) not in names: names.append(m.group(1))
                break
    return names

# ------------------------------------------------------------------------------------------------
# evidence + reporting

def write_evidence(ctx, level, coverage, violations, assumptions=None):
    os.makedirs(EVID_DIR, exist_ok=True)
    ev = dict(property_id=ctx.prop, tier=ctx.tier, seed=ctx.seed, level=level, coverage=coverage,
              assumptions=assumptions or [], wall_s=round(time.time() - ctx.t0, 2), violations=violations,
              timings=ctx.timings, notes=ctx.notes)
    with open(os.path.join(EVID_DIR, ctx.prop + '.json'), 'w') as f:
        json.dump(ev, f, indent=1)

def write_replay(ctx, body, suffix='lines'):
    os.makedirs(REPLAY_DIR, exist_ok=True)
    h = hashlib.sha256(body.encode()).hexdigest()[:12]
    path = os.path.join(REPLAY_DIR, '%s-%s.%s' % (ctx.prop, h, suffix))
    open(path, 'w').write(body)
    return os.path.relpath(path, VERIF)

def load_known_findings():
    """known_findings.txt:  `finding: property=Cxx key=<exact call line or site> <what fails>` / `fixed: …`"""
    out = {}
    try:
        for l in open(os.path.join(VERIF, 'known_findings.txt')):
            l = l.strip()
            m = re.match(r'finding:\s+property=(C\d+)\s+key=\[([^\]]*)\]\s*(.*)', l)
            if m: out.setdefault(m.group(1), []).append((m.group(2), m.group(3)))
    except OSError:
        pass
    return out
