"""Infrastructure shared by the C18 (C++ wrappers) and C19 (Java port) checks: building the reference C driver
(harness/xdrv.c + allocwrap.c) against the library objects of the working tree, running a line-protocol driver with
restart-after-abort, parsing answers, a lake project other than /verif/lean, axiom audit."""
import os, re, sys, json, time, subprocess, fcntl
from concurrent.futures import ThreadPoolExecutor
from . import cbuild
from .cbuild import VERIF, REPO, BuildError

HARNESS = os.path.join(VERIF, 'harness')
WRAP = '-Wl,--wrap=malloc,--wrap=calloc,--wrap=realloc,--wrap=free,--wrap=strdup,--wrap=strndup,--wrap=vasprintf'
ALLOWED_AXIOMS = {'propext', 'Classical.choice', 'Quot.sound'}

def log(*a):
    print(*a, file=sys.stderr, flush=True)

class Lock:
    def __init__(self, path): self.path = path
    def __enter__(self):
        os.makedirs(os.path.dirname(self.path), exist_ok=True)
        self.f = open(self.path, 'w'); fcntl.flock(self.f, fcntl.LOCK_EX); return self
    def __exit__(self, *a):
        fcntl.flock(self.f, fcntl.LOCK_UN); self.f.close()

def build_c_driver(sc, objs, cfl, aux):
    """-> path of the C reference driver (xdrv_gen.inc must already be in `aux`)"""
    ao = sc.path('allocwrap.o')
    cbuild.run(['clang-14'] + cfl + ['-c', os.path.join(HARNESS, 'allocwrap.c'), '-o', ao])
    exe = sc.path('xdrv')
    cbuild.run(['clang-14'] + cfl + ['-I' + aux, os.path.join(HARNESS, 'xdrv.c'), ao] + list(objs) + ['-lm', WRAP, '-o', exe])
    return exe, ao

SAN_ENV = dict(ASAN_OPTIONS='detect_leaks=0:abort_on_error=0:halt_on_error=1:allocator_may_return_null=1', UBSAN_OPTIONS='print_stacktrace=0')

def run_driver(cmd, lines, env=None, chunk=4000, workers=12, cwd=None, ready=True):
    """Run `lines` through a line-protocol driver; one answer per line.  A process that dies while executing a line
    yields the answer `died <summary>` for that line and is restarted on the next one.  chunk=None keeps all lines in
    one process (stateful sessions)."""
    e = dict(os.environ); e.update(SAN_ENV)
    if env: e.update(env)
    def run_chunk(ls):
        out = []; i = 0; guard = 0
        while i < len(ls):
            p = subprocess.run(cmd, input='\n'.join(ls[i:]) + '\n', capture_output=True, text=True, env=e, cwd=cwd, errors='replace')
            got = p.stdout.splitlines()
            if ready:
                if not got or got[0] != 'ready':
                    raise BuildError('driver %s did not start: %s' % (cmd[0], (p.stderr or p.stdout)[-2000:]))
                got = got[1:]
            got = got[:len(ls) - i]
            out += got; i += len(got)
            if i < len(ls):
                if p.returncode == 0:
                    raise BuildError('driver %s stopped early without a diagnostic at line: %s' % (cmd[0], ls[i]))
                m = re.search(r'(runtime error: [^\n]*|ERROR: AddressSanitizer: [^\n]*|SUMMARY: [^\n]*|Exception in thread[^\n]*)', p.stderr)
                out.append('died ' + (m.group(1)[:200] if m else 'exit %d' % p.returncode))
                i += 1
                guard += 1
                if guard > 2000: raise BuildError('driver %s dies on every line' % cmd[0])
        return out
    if not lines: return []
    if not chunk or len(lines) <= chunk:
        return run_chunk(lines)
    chunks = [lines[i:i + chunk] for i in range(0, len(lines), chunk)]
    with ThreadPoolExecutor(max_workers=workers) as ex:
        res = list(ex.map(run_chunk, chunks))
    return [x for r in res for x in r]

def parse_c(ans):
    """C reference answer -> dict(kind='ok', vals=[tokens], code=None|int, live=int, msg=str) | dict(kind='died'|'bad')"""
    t = ans.split(' ')
    if t[0] == 'ok':
        j = len(t) - 1
        msg = None
        if t[j].startswith('m') and j >= 2 and re.fullmatch(r'L-?\d+', t[j - 1]): msg = t[j][1:]; j -= 1
        if not re.fullmatch(r'L-?\d+', t[j]): return dict(kind='bad', text=ans)
        live = int(t[j][1:]); slot = t[j - 1]
        code = None if slot == 'E' else int(slot[1:])
        return dict(kind='ok', vals=t[1:j - 1], code=code, live=live, msg=msg)
    if t[0] == 'died': return dict(kind='died', text=ans)
    return dict(kind='bad', text=ans)

def parse_w(ans):
    """wrapper-side answer (C++ / Java): ok <vals> [L<n>] | throw <class> [L<n>] m<msg>"""
    t = ans.split(' ')
    if t[0] == 'ok':
        live = None; vals = t[1:]
        if vals and re.fullmatch(r'L-?\d+', vals[-1]): live = int(vals[-1][1:]); vals = vals[:-1]
        return dict(kind='ok', vals=vals, live=live)
    if t[0] == 'throw':
        live = None; rest = t[2:]
        if rest and re.fullmatch(r'L-?\d+', rest[0]): live = int(rest[0][1:]); rest = rest[1:]
        msg = rest[0][1:] if rest and rest[0].startswith('m') else ''
        return dict(kind='throw', cls=t[1], live=live, msg=msg)
    if t[0] == 'died': return dict(kind='died', text=ans)
    return dict(kind='bad', text=ans)

# ---------------------------------------------------------------------------------------------- lake / audit

def lake_build(project, targets):
    p = subprocess.run(['lake', 'build'] + list(targets), cwd=project, capture_output=True, text=True)
    return p.returncode == 0, p.stdout + p.stderr

def first_errors(txt, n=8):
    errs = re.findall(r'error: [^\n]*(?:\n(?!error:|info:|trace:|✖|✔|warning:)[^\n]*){0,8}', txt)
    return '\n'.join(errs[:n])[:5000]

def print_axioms(project, scratch_file, module, names):
    src = 'import %s\n' % module + ''.join('#print axioms %s\n' % n for n in names)
    open(scratch_file, 'w').write(src)
    p = subprocess.run(['lake', 'env', 'lean', scratch_file], cwd=project, capture_output=True, text=True)
    res = {}
    txt = p.stdout + p.stderr
    for m in re.finditer(r"'([^']+)' depends on axioms: \[([^\]]*)\]|'([^']+)' does not depend on any axioms", txt):
        if m.group(1): res[m.group(1)] = [a.strip() for a in m.group(2).replace('\n', ' ').split(',') if a.strip()]
        else: res[m.group(3)] = []
    return res, txt

def lean_files(project, sub):
    out = []
    for root, dirs, files in os.walk(os.path.join(project, sub)):
        for f in files:
            if f.endswith('.lean'): out.append(os.path.join(root, f))
    return sorted(out)

def load_findings(prop, extra_file=None):
    """entries of /verif/known_findings.txt — the only file that can suppress a violation (`extra_file` is ignored)"""
    from . import core
    return list(core.load_known_findings().get(prop, []))
