"""Argument streams over the whole numeric API (every function the generated C dispatch knows), used by C03 and C04."""
import math
from .core import hx

INT_MIN, INT_MAX = -2147483648, 2147483647
POSITIVE = ('CS_', 'CSb_', 'DCS_', 'DCSb_', 'FF_Rayl', 'SF_Compt', 'AtomicWeight', 'ElementDensity', 'EdgeEnergy',
            'LineEnergy', 'FluorYield', 'JumpFactor', 'CosKronTransProb', 'RadRate', 'AtomicLevelWidth', 'ElectronConfig', 'AugerRate',
            'AugerYield', 'ComptonProfile', 'ComptonEnergy', 'PL', 'PM')

def int_values(name, multi, rng, tier, extreme):
    n = name.lower()
    ext = [INT_MIN, INT_MIN + 1, INT_MAX, INT_MAX - 1, -65536, 65536] if extreme else []
    if n == 'z':
        if not multi: return list(range(-3, 126)) + ext
        base = [-1, 0, 1, 2, 3, 4, 12, 13, 26, 47, 56, 82, 92, 93, 98, 99, 103, 104, 109, 120, 121]
        return base + [rng.randrange(1, 121) for _ in range(3 if tier == 'quick' else 25)] + ext
    if 'shell' in n:
        return list(range(-2, 33)) + ext
    if 'line' in n:
        if not multi: return list(range(-390, 8)) + ext
        base = [0, 1, 2, 3, 4, -1, -2, -3, -4, -16, -17, -24, -29, -30, -43, -58, -59, -63, -85, -86, -89, -90, -95, -102, -108, -113, -114, -219, -383, -384]
        return base + [-rng.randrange(1, 384) for _ in range(4 if tier == 'quick' else 40)] + ext
    if 'auger' in n:
        if not multi: return list(range(-3, 1000)) + ext
        return [-1, 0, 1, 239, 240, 299, 300, 443, 611, 746, 995, 996] + ext
    if 'trans' in n:
        return list(range(-2, 18)) + ext
    return [-1, 0, 1, 2, 3] + ext

def dbl_values(name, rng, tier):
    n = name.lower()
    if n in ('theta', 'phi'):
        return [0.0, 1.0, math.pi / 2, math.pi, -1.0, 7.0, 1e-9]
    if n == 'q':
        return [-1.0, 0.0, 1e-3, 0.5, 2.0, 30.0, 1e3, 1e9]
    if n == 'pz':
        return [-1.0, 0.0, 0.5, 1.0, 10.0, 100.0, 101.0, 1e3]
    if n.startswith('p') and len(n) <= 3:      # PK, PL1 … vacancy inputs of the cascade helpers
        return [0.0, 1.5]
    base = [-1.0, 0.0, 1e-6, 0.05, 0.5, 1.0, 1.0000001, 5.0, 8.979, 10.0, 30.0, 88.0, 100.0, 799.9, 800.03, 1000.0, 1e6]
    return base + [math.exp(rng.uniform(math.log(0.05), math.log(900))) for _ in range(2 if tier == 'quick' else 12)]

def lines_for(meta, rng, tier, extreme=False, only=None, budget=60000):
    """-> list of protocol lines (slot E), one block per function; functions with many parameters are thinned to `budget`"""
    out = []
    sigs = dict(meta.get('untranslated', {})); sigs.update(meta['functions'])      # untranslatable functions are still swept on the real library
    for f in sorted(sigs):
        fi = sigs[f]
        if fi['static'] or fi['outs'] or fi['ret'] not in ('double', 'int') or fi['file'] in ('pr_data.c', 'xrf_cross_sections_aux-private.c'): continue
        if only and f not in only: continue
        ps = [(n, t) for n, t in fi['params'] if t in ('int', 'double')]
        if any(t not in ('int', 'double', 'errpp') for _, t in fi['params']): continue
        nint = sum(1 for _, t in ps if t == 'int'); multi = (nint >= 2 and len(ps) >= 3) or len(ps) >= 3
        vals = []
        for n, t in ps:
            vals.append([str(v) for v in int_values(n, multi, rng, tier, extreme)] if t == 'int' else [hx(v) for v in dbl_values(n, rng, tier)])
        combos = [[]]
        # functions of integers only (scalar lookups by (Z, shell | line | transition | Auger macro)): the FULL discrete space, never thinned —
        # a defect confined to one (Z, macro) pair, e.g. LineEnergy(105..109, LA_LINE), must not depend on that pair being sampled
        full = all(t == 'int' for _, t in ps) and len(ps) <= 2
        for vs in vals:
            combos = [c + [v] for c in combos for v in vs]
            if not full and len(combos) > 4 * budget: combos = rng.sample(combos, 2 * budget)
        if not full and len(combos) > budget: combos = rng.sample(combos, budget)
        tail = ' E' if fi['has_error'] else ''
        out += ['%s %s%s' % (f, ' '.join(c), tail) for c in combos]
        # functions of two integers and real arguments: EVERY atomic number x every value of the second integer (all shells / transitions;
        # the structured list of lines / Auger macros in the quick tier, all of them in the thorough tier) at one or two typical real
        # arguments — an index error for one (Z, shell) pair must not depend on that pair being sampled
        if nint >= 2 and len(ps) >= 3 and ps[0][1] == 'int' and ps[1][1] == 'int' and all(t == 'double' for _, t in ps[2:]):
            n2 = ps[1][0].lower()
            second = int_values(ps[1][0], not ('shell' in n2 or 'trans' in n2 or tier == 'thorough'), rng, tier, False)
            typ = []
            for n_, _ in ps[2:]:
                nl = n_.lower()
                typ.append([0.5] if nl == 'pz' else [1.0] if nl in ('theta', 'phi') else [0.5] if nl == 'q' else [1.5] if (nl.startswith('p') and len(nl) <= 3) else [10.0, 0.5])
            dcomb = [[]]
            for vs in typ: dcomb = [c + [hx(v)] for c in dcomb for v in vs]
            for Z in range(-3, 126):
                for v2 in second:
                    for dc in dcomb:
                        out.append('%s %d %d %s%s' % (f, Z, v2, ' '.join(dc), tail))
    return out

# DCSP_* / DCSPb_* are non-negative only: the polarised Thomson factor 1 - sin^2(theta) cos^2(phi) vanishes for
# scattering along the polarisation direction (proved: C12.dcsp_thoms_zero_witness), so 0 without an error is correct there.
def is_positive_quantity(fn):
    return fn.startswith(POSITIVE) and not fn.startswith(('Fi', 'Fii'))
