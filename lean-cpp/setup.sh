#!/bin/sh
# Run once after a fresh restore (offline): extract the wrapper table of cplusplus/xraylib++.h from /repo as found
# (tools/extract_cpp.py needs only config.h, written here into a scratch directory) and build the whole lean-cpp
# project (core Lean only, no Mathlib: < 1 min).  Nothing of /repo is compiled permanently.
set -e
cd "$(dirname "$0")/.."
python3 - <<'PY'
import sys, os, subprocess
sys.path.insert(0, os.getcwd())
from vlib import cbuild, xdrv
with cbuild.Scratch() as sc:
    b = sc.path('b'); os.makedirs(b)
    v = cbuild.project_version(cbuild.REPO)
    open(os.path.join(b, 'config.h'), 'w').write(cbuild.CONFIG_H % (v, v))
    with xdrv.Lock(os.path.join('lean-cpp', '.verif.lock')):
        p = subprocess.run([sys.executable, 'tools/extract_cpp.py', b, 'lean-cpp/XrlCpp/Gen', sc.path('aux')], capture_output=True, text=True,
                           env=dict(os.environ, VERIF_REPO=cbuild.REPO))
        print(p.stdout, p.stderr[-500:])
        ok, out = xdrv.lake_build('lean-cpp', ['XrlCpp', 'XrlCpp.Props.C18', 'xrlcpp-model'])
        print('lake build: ok' if ok else out[-3000:])
        sys.exit(0 if ok else 1)
PY
