-- Root of the `XrlCpp` library: model of the C++ wrapper protocol of xraylib (property C18).
import XrlCpp.Hand.Cpp
import XrlCpp.Hand.Struct
import XrlCpp.Spec.Table
import XrlCpp.Lemmas.PE
import XrlCpp.Gen.Tables
