-- Root of the `XrlCpp` library: model of the C++ wrapper protocol of xraylib (property C18).
import XrlCpp.Hand.Cpp
import XrlCpp.Hand.Struct
import XrlCpp.Hand.Value
import XrlCpp.Spec.Table
import XrlCpp.Spec.Value
import XrlCpp.Lemmas.PE
import XrlCpp.Lemmas.Table
import XrlCpp.Lemmas.Value
import XrlCpp.Gen.Tables
