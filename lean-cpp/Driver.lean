import XrlCpp.Hand.Cpp
import XrlCpp.Hand.Struct
import XrlCpp.Gen.Tables
/-!
`xrlcpp-model`: the executable reading of the hand model, driven by ./check C18.

* `wrap <releases 0|1> <E | F<code>> <resBlocks> <kept> [<message, %-escaped>]`
  — the observed behaviour of one C call; answers what `wrap Gen.pe` says the wrapper does:
  `ret <live>` or `throw <class> <live> <m<message> | ->`.
* `wrapw <C function> <releases> <E | F<code>> <resBlocks> <kept> [<message>]` — the same, through the extracted table
  entry that forwards to `<C function>`: an entry without the `_process_error` statement returns instead of throwing.
* `hist <op>*` with ops `g<c>` get, `n<c>` make, `c<i>` copy, `d<i>` destroy, `k<i>` call, `p<c>` pod, `r<i>` read
  — answers `ok <event>* L<live C objects>` (`u` unit, `s` skipped, `v<c>` value) or `fault <kind>`.
-/
open XrlCpp XrlCpp.Own

def kindName : ExnKind → String
  | .badAlloc => "bad_alloc"
  | .invalidArgument => "invalid_argument"
  | .runtimeError => "runtime_error"

def doWrap (t : List String) : String :=
  match t with
  | rel :: slot :: rb :: kept :: rest =>
    let msg := rest.headD ""
    let s : Slot := if slot == "E" then .empty else .full ⟨(slot.drop 1).toNat!, msg⟩
    let f : CFun Unit Unit := fun _ => { val := (), slot := s, resBlocks := rb.toNat!, kept := kept.toNat! }
    let r := wrap Gen.pe ({ conv := fun u => u, releases := rel == "1" } : Conv Unit Unit) f ()
    match r.out with
    | .ok _ => s!"ret {r.live}"
    | .error x => s!"throw {kindName x.kind} {r.live} " ++ (match x.what with | some m => "m" ++ m | none => "-")
  | _ => "bad-line"

/-- `wrapw <C function> …`: the same through the table entry that forwards to `<C function>` (its `checked` flag);
    no such entry: the plain protocol -/
def doWrapW (t : List String) : String :=
  match t with
  | callee :: rel :: slot :: rb :: kept :: rest =>
    match Gen.wrappers.find? (fun w => w.callee == callee && w.kind != .pattern && w.kind != .delegate) with
    | none => doWrap (rel :: slot :: rb :: kept :: rest)
    | some w =>
      let msg := rest.headD ""
      let s : Slot := if slot == "E" then .empty else .full ⟨(slot.drop 1).toNat!, msg⟩
      let f : CFun Unit Unit := fun _ => { val := (), slot := s, resBlocks := rb.toNat!, kept := kept.toNat! }
      let r := wrapEntry Gen.pe w ({ conv := fun u => u, releases := rel == "1" } : Conv Unit Unit) f ()
      match r.out with
      | .ok _ => s!"ret {r.live}"
      | .error x => s!"throw {kindName x.kind} {r.live} " ++ (match x.what with | some m => "m" ++ m | none => "-")
  | _ => "bad-line"

def parseOp (s : String) : Option Op :=
  let n := (s.drop 1).toNat!
  match s.front with
  | 'g' => some (.get n) | 'n' => some (.make n) | 'c' => some (.copy n) | 'd' => some (.destroy n)
  | 'k' => some (.call n) | 'p' => some (.pod n) | 'r' => some (.read n) | _ => none

def doHist (t : List String) : String :=
  match run St.init (t.filterMap parseOp) with
  | .error .useAfterFree => "fault use-after-free"
  | .error .doubleFree => "fault double-free"
  | .ok (s, evs) =>
    "ok " ++ " ".intercalate (evs.map fun | .unit => "u" | .skipped => "s" | .value c => s!"v{c}") ++ s!" L{s.liveCount}"

partial def loop (h : IO.FS.Stream) (out : IO.FS.Stream) : IO Unit := do
  let l ← h.getLine
  if l.isEmpty then return
  let t := ((l.replace "\n" "").splitOn " ").filter (· ≠ "")
  match t with
  | "wrap" :: r => out.putStrLn (doWrap r)
  | "wrapw" :: r => out.putStrLn (doWrapW r)
  | "hist" :: r => out.putStrLn (doHist r)
  | _ => out.putStrLn "bad-line"
  loop h out

def main : IO Unit := do
  loop (← IO.getStdin) (← IO.getStdout)
