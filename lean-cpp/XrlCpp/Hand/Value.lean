import XrlCpp.Hand.Cpp
/-!
# What the extracted return terms and field maps *mean*: an evaluator over C results

`RetE`, `FInit` and `ClassMap` (Hand/Cpp.lean) are syntax read off the header.  This file gives them their reading as
functions from what the C call produced to what the wrapper hands back, so that "returns the same value (or an object
with the same field contents)" can be stated about the extracted table instead of an abstract conversion.

Values are untyped and flat: a `double` is its 64 bits as an integer, so "the same value" is equality.
Core Lean only.
-/
namespace XrlCpp

/-- the value of one field of a C struct / of one data member of a class of the header -/
inductive FVal where
  | num (n : Int)                            -- `int`, or the bits of a `double`
  | str (s : String)                         -- `char *` / `std::string`: the characters
  | nums (l : List Int)                      -- `int *` / `double *` (its elements) / `std::vector` of numbers
  | recs (l : List (List (String × Int)))    -- `Crystal_Atom *` / `std::vector<Atom>`: per element, the fields by name
  | ptr                                      -- the adopted C pointer itself (`Crystal::Struct::cs`)
  | undef
  deriving DecidableEq, Repr

/-- a value returned by a C function or by a wrapper -/
inductive Val where
  | num (n : Int)                        -- `int` / `double`
  | str (s : String)                     -- `char *` / `std::string`
  | strs (l : List String)               -- `char **` (all entries of the array) / `std::vector<std::string>`
  | cplx (re im : Int)                   -- `std::complex<double>`
  | obj (fs : List (String × FVal))      -- a C struct (returned by value or behind the returned pointer) / an object of the header
  | unit
  | undef
  deriving DecidableEq, Repr

/-- what a C call produced besides the error slot -/
structure COut where
  val : Val              -- the returned value
  outs : Nat → Int       -- what it stored through its k-th argument (`int *nCrystals`)

/-- one `Atom` built from one `Crystal_Atom` through the member initialisers `am` of `Atom`'s constructor -/
def atomField (a : List (String × Int)) : FInit → Int
  | .scalar s => (a.lookup s).getD 0
  | _ => 0

def evalAtom (am : List (String × FInit)) (a : List (String × Int)) : List (String × Int) :=
  am.map (fun i => (i.1, atomField a i.2))

/-- one member initialiser, read against the fields `fs` of the object it reads from -/
def evalInit (am : List (String × FInit)) (fs : List (String × FVal)) : FInit → FVal
  | .scalar s => (fs.lookup s).getD .undef
  | .string s => (fs.lookup s).getD .undef         -- `std::string(char *)`: the same characters
  | .range s c =>
      match fs.lookup s, fs.lookup c with
      | some (.nums l), some (.num n) => .nums (l.take n.toNat)
      | _, _ => .undef
  | .atoms s c =>
      match fs.lookup s, fs.lookup c with
      | some (.recs l), some (.num n) => .recs ((l.take n.toNat).map (evalAtom am))
      | _, _ => .undef
  | .adopt => .ptr
  | _ => .undef

/-- the object a converting constructor builds from the C struct `fs`: its data members by name -/
def evalObject (am : List (String × FInit)) (m : ClassMap) (fs : List (String × FVal)) : List (String × FVal) :=
  m.inits.map (fun i => (i.1, evalInit am fs i.2))

/-- the converting constructor of class `cls` in the extracted table (its single parameter is a C struct) -/
def findPodCtor (cms : List ClassMap) (cls : String) : Option ClassMap :=
  cms.find? (fun m => m.cls == cls && m.src != "" && m.src != "self")

/-- member initialisers of `Crystal::Atom`'s converting constructor -/
def atomInits (cms : List ClassMap) : List (String × FInit) :=
  match findPodCtor cms "Crystal::Atom" with
  | some m => m.inits
  | none => []

/-- the value a wrapper hands back, given what the C call produced -/
def evalRet (cms : List ClassMap) (o : COut) : RetE → Val
  | .res => o.val
  | .field e n =>
      match evalRet cms o e with
      | .obj fs => (match fs.lookup n with | some (.num x) => .num x | some (.str s) => .str s | _ => .undef)
      | _ => .undef
  | .complex a b =>
      match evalRet cms o a, evalRet cms o b with
      | .num x, .num y => .cplx x y
      | _, _ => .undef
  | .string e => (match evalRet cms o e with | .str s => .str s | _ => .undef)
  | .elems c e n =>
      match evalRet cms o e, n with
      | .strs l, .outArg k => if c == "std::string" then .strs (l.take (o.outs k).toNat) else .undef
      | _, _ => .undef
  | .object cls e =>
      match evalRet cms o e, findPodCtor cms cls with
      | .obj fs, some m => .obj (evalObject (atomInits cms) m fs)
      | _, _ => .undef
  | .adopt e => evalRet cms o e
  | .none => .unit
  | _ => .undef

end XrlCpp
