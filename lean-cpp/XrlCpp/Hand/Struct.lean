/-!
# Ownership model of the C++ wrapper objects (`cplusplus/xraylib++.h`), property C18

`xrlpp::Crystal::Struct` keeps, next to value copies of the fields, a private pointer `cs` to a C `Crystal_Struct`
that every method dereferences (xraylib++.h:198-245) and that the destructor releases (`Crystal_Free(cs)`, :298-301).
An object comes into being in three ways, all of which give it a `Crystal_Struct` of its own:

* `GetCrystal` (:324-330): `Crystal_GetCrystal` returns a *copy* made by `Crystal_MakeCopy`
  (src/crystal_diffraction.c:227); the private constructor adopts it (`cs(_struct)`, :308-320);
* the public constructor (:247-278): `xrl_malloc` + `xrl_strdup` + `xrl_malloc`, filled from the arguments;
* the copy constructor (:280-296): `cs = ::Crystal_MakeCopy(_struct.cs, &error)` — reads the *source's* C object.

There is no assignment (all data members are `const`) and no move constructor (a copy constructor is declared).
`compoundData`, `compoundDataNIST`, `radioNuclideData` (:85-160) are pure value classes: their private constructors copy
every array of the POD into a `std::vector`/`std::string`, after which the wrapper releases the POD (:382-453).

The model: a heap of C objects (address ↦ contents, `none` = not live), a table of C++ objects, and the operations
above as a step function that **faults** on use-after-free and double free.  `Props/C18.lean` proves that no history
faults, that a method always sees the contents its object was built from, and that the heap holds exactly the C
objects owned by live C++ objects.

Core Lean only.
-/
namespace XrlCpp.Own

/-- field contents of a C object (abstract) -/
abbrev Content := Nat

/-- a live C++ wrapper object: the value copies of the fields, and the owned `Crystal_Struct*`
    (`none` for the value classes, which keep no pointer) -/
structure Obj where
  fields : Content
  cs : Option Nat
  deriving DecidableEq, Repr

structure St where
  heap : Nat → Option Content      -- C heap: address ↦ contents of the live `Crystal_Struct`/POD there
  next : Nat                       -- allocation frontier (fresh addresses)
  objs : Nat → Option Obj          -- C++ objects by creation index; `none` = not yet created or destroyed
  nobjs : Nat

def St.init : St := { heap := fun _ => none, next := 0, objs := fun _ => none, nobjs := 0 }

inductive Op where
  | get (c : Content)      -- `GetCrystal(name)`: C allocates a copy with contents `c`; the new object adopts it
  | make (c : Content)     -- public constructor with field values `c`
  | copy (i : Nat)         -- copy constructor from object `i`
  | destroy (i : Nat)      -- destructor of object `i`
  | call (i : Nat)         -- any method of object `i` (`Bragg_angle`, …): dereferences `cs`
  | pod (c : Content)      -- `CompoundParser` & co.: C returns a POD with contents `c`, the class copies it, the POD is freed
  | read (i : Nat)         -- read the public members of object `i`
  deriving DecidableEq, Repr

inductive Fault where
  | useAfterFree
  | doubleFree
  deriving DecidableEq, Repr

/-- what an operation lets the program observe -/
inductive Ev where
  | unit
  | value (c : Content)    -- the contents a method / member read was computed from
  | skipped                -- the operation names no live object (C++ scoping rules exclude it): nothing happens
  deriving DecidableEq, Repr

def upd {β : Type} (f : Nat → β) (k : Nat) (v : β) : Nat → β := fun x => if x = k then v else f x

/-- allocate a C object with contents `c` and let a new C++ object with value fields `fl` own it -/
def St.adopt (s : St) (c fl : Content) : St :=
  { heap := upd s.heap s.next (some c), next := s.next + 1,
    objs := upd s.objs s.nobjs (some { fields := fl, cs := some s.next }), nobjs := s.nobjs + 1 }

def step (s : St) : Op → Except Fault (St × Ev)
  | .get c => .ok (s.adopt c c, .unit)
  | .make c => .ok (s.adopt c c, .unit)
  | .copy i =>
      match s.objs i with
      | none => .ok (s, .skipped)
      | some o =>
        match o.cs with
        | none => -- value class: member-wise copy
            .ok ({ s with objs := upd s.objs s.nobjs (some o), nobjs := s.nobjs + 1 }, .unit)
        | some a =>
          match s.heap a with
          | none => .error .useAfterFree          -- Crystal_MakeCopy reads *_struct.cs
          | some c => .ok (s.adopt c o.fields, .unit)
  | .destroy i =>
      match s.objs i with
      | none => .ok (s, .skipped)
      | some o =>
        match o.cs with
        | none => .ok ({ s with objs := upd s.objs i none }, .unit)
        | some a =>
          match s.heap a with
          | none => .error .doubleFree            -- Crystal_Free(cs) on a released object
          | some _ => .ok ({ s with heap := upd s.heap a none, objs := upd s.objs i none }, .unit)
  | .call i =>
      match s.objs i with
      | none => .ok (s, .skipped)
      | some o =>
        match o.cs with
        | none => .ok (s, .value o.fields)
        | some a =>
          match s.heap a with
          | none => .error .useAfterFree
          | some c => .ok (s, .value c)
  | .pod c =>
      -- C allocates the POD at `s.next`; the private constructor copies it; `Free…(pod)` releases it at once
      .ok ({ s with next := s.next + 1, objs := upd s.objs s.nobjs (some { fields := c, cs := none }), nobjs := s.nobjs + 1 }, .unit)
  | .read i =>
      match s.objs i with
      | none => .ok (s, .skipped)
      | some o => .ok (s, .value o.fields)

def run (s : St) : List Op → Except Fault (St × List Ev)
  | [] => .ok (s, [])
  | op :: ops =>
    match step s op with
    | .error f => .error f
    | .ok (s', ev) =>
      match run s' ops with
      | .error f => .error f
      | .ok (s'', evs) => .ok (s'', ev :: evs)

/-- number of live C objects among the first `n` addresses (executable; the driver compares it with the live-block
    counter of the real run) -/
def St.liveCount (s : St) : Nat := (List.range s.next).countP (fun a => (s.heap a).isSome)

end XrlCpp.Own
