/-!
# Hand model of the C++ wrapper protocol of xraylib (`cplusplus/xraylib++.h`), property C18

Mirrors the header **as it is**:

* `_XRL_FUNCTION(_name)` (xraylib++.h:27-41): both overloads do
  `xrl_error *error = nullptr; double rv = ::_name(<args>, &error); _process_error(error); return rv;`
* `_process_error` (xraylib++.h:45-56): `if (!error) return; switch (error->code) { case XRL_ERROR_MEMORY: throw
  std::bad_alloc(); case XRL_ERROR_INVALID_ARGUMENT: throw std::invalid_argument(error->message); default: throw
  std::runtime_error(error->message); }` — the error object is **not** released on any throwing path.
* the hand-written wrappers (xraylib++.h:58-83, 198-245, 324-453) follow the same three statements and then convert
  the C result: scalar copy, `xrlComplex → std::complex`, `char* → std::string` + `xrlFree`, POD → class (element-wise
  copies into `std::vector`, xraylib++.h:97-104,125-137,152-158) + `Free…`, `char** → vector<string>` + `xrlFree` of
  every element and of the array, or adoption of the `Crystal_Struct*` by `Crystal::Struct` (xraylib++.h:308-320).

The description of `_process_error` (`PE`) and of every wrapper (`Wrapper`) is *data*: the check re-extracts both from
the clang AST of the working tree on every run (`XrlCpp/Gen/Tables.lean`), `headerPE` below is the literal reading of
the lines cited above, and `Props/C18.lean` relates the two.

Core Lean only (this file is linked into the `xrlcpp-model` executable).
-/
namespace XrlCpp

/-! ## C side: error slot and result of a call -/

/-- `xrl_error_code` (include/xraylib-error.h:25-32); C stores an `int`, so any value is representable -/
abbrev ErrCode := Nat
def XRL_ERROR_MEMORY : ErrCode := 0
def XRL_ERROR_INVALID_ARGUMENT : ErrCode := 1
def XRL_ERROR_IO : ErrCode := 2
def XRL_ERROR_TYPE : ErrCode := 3
def XRL_ERROR_UNSUPPORTED : ErrCode := 4
def XRL_ERROR_RUNTIME : ErrCode := 5

/-- `struct _xrl_error { xrl_error_code code; char *message; }` (include/xraylib-error.h:44-48) -/
structure CErr where
  code : ErrCode
  msg : String
  deriving DecidableEq, Repr

/-- the wrapper's local `xrl_error *error = nullptr` after the C call: still NULL, or set -/
inductive Slot where
  | empty
  | full (e : CErr)
  deriving DecidableEq, Repr

/-- an error object is two heap blocks: the struct and its message
    (src/xraylib-error.c:48-50 `malloc` + `xrl_strdup_vprintf`, :79-81 `malloc` + `xrl_strdup`) -/
def errBlocks : Nat := 2

/-- Observable behaviour of one C call made with the address of an empty slot.
    `resBlocks`: heap blocks owned by the returned object (0 for scalars, and 0 when nothing is returned);
    `kept`: blocks the C library itself keeps alive across the call on purpose (the copy `Crystal_AddCrystal` stores in
    the built-in array) or by a defect of its own (property C04) — not the wrapper's to release. -/
structure CRes (V : Type) where
  val : V
  slot : Slot
  resBlocks : Nat
  kept : Nat

/-- a C function behaviour: any function from arguments to observable results (no assumption) -/
abbrev CFun (A V : Type) := A → CRes V

/-! ## C++ side -/

inductive ExnKind where
  | badAlloc          -- std::bad_alloc
  | invalidArgument   -- std::invalid_argument
  | runtimeError      -- std::runtime_error
  deriving DecidableEq, Repr

/-- a thrown exception; `what = none` when the class is constructed without the C message
    (`std::bad_alloc()` has no message constructor) -/
structure Exn where
  kind : ExnKind
  what : Option String
  deriving DecidableEq, Repr

/-- what `_process_error` does, as data: `cases` are the `case <code>:` labels in order with the exception class thrown
    and whether `error->message` is passed to its constructor; `dflt` is the `default:` label; `frees` says whether
    the error object is released before the throw. -/
structure PE where
  cases : List (ErrCode × ExnKind × Bool)
  dflt : ExnKind × Bool
  frees : Bool
  deriving DecidableEq, Repr

/-- literal reading of xraylib++.h:45-56 -/
def headerPE : PE :=
  { cases := [(XRL_ERROR_MEMORY, .badAlloc, false), (XRL_ERROR_INVALID_ARGUMENT, .invalidArgument, true)],
    dflt := (.runtimeError, true),
    frees := false }

/-- the same with the error released before throwing (notes/proposed_fixes/C18-1.diff) -/
def fixedPE : PE := { headerPE with frees := true }

/-- `switch (error->code)`: the first label equal to the code, else `default` -/
def PE.select (pe : PE) (code : ErrCode) : ExnKind × Bool :=
  match pe.cases.find? (fun c => c.1 == code) with
  | some c => c.2
  | none => pe.dflt

def PE.exn (pe : PE) (e : CErr) : Exn :=
  let s := pe.select e.code
  { kind := s.1, what := if s.2 then some e.msg else none }

/-- outcome of a wrapper call: value or exception, and the heap blocks (of those the call created) that are still
    live once the caller has dropped the returned object / caught the exception -/
structure WRes (W : Type) where
  out : Except Exn W
  live : Nat

/-- conversion of the C result into the C++ result.  `releases`: after converting, the wrapper releases the C object
    (`FreeCompoundData(cd)`, `xrlFree(rv)`, …) or hands it to an owner whose destructor releases it
    (`Crystal::Struct`, xraylib++.h:298-301,308-320). -/
structure Conv (V W : Type) where
  conv : V → W
  releases : Bool

def Conv.id (V : Type) : Conv V V := { conv := fun v => v, releases := true }

/-- The wrapper protocol (xraylib++.h:27-41 and every hand-written wrapper):
    call with `&error`, `_process_error(error)`, convert, release, return. -/
def wrap {A V W : Type} (pe : PE) (cv : Conv V W) (f : CFun A V) (a : A) : WRes W :=
  let r := f a
  match r.slot with
  | .empty =>
      { out := .ok (cv.conv r.val),
        live := r.kept + (if cv.releases then 0 else r.resBlocks) }
  | .full e =>
      -- thrown from `_process_error`, i.e. before the conversion and before any release of the result
      { out := .error (pe.exn e),
        live := r.kept + r.resBlocks + (if pe.frees then 0 else errBlocks) }

/-- scalar wrappers: `_XRL_FUNCTION`, `SymbolToAtomicNumber`, the `Crystal::Struct` methods -/
def wrapScalar {A V : Type} (pe : PE) (f : CFun A V) (a : A) : WRes V := wrap pe (Conv.id V) f a

/-! ## Specification side (written from the property text) -/

/-- "throws invalid_argument for argument errors, bad_alloc for memory errors, runtime_error otherwise" -/
def specKind (code : ErrCode) : ExnKind :=
  if code = XRL_ERROR_INVALID_ARGUMENT then .invalidArgument
  else if code = XRL_ERROR_MEMORY then .badAlloc
  else .runtimeError

/-- "carrying the C message": `std::bad_alloc` cannot carry one (it has no such constructor); the other two do -/
def specExn (e : CErr) : Exn :=
  { kind := specKind e.code, what := if specKind e.code = .badAlloc then none else some e.msg }

/-- `_process_error` does what the property asks for every code -/
def PE.Conforms (pe : PE) : Prop := ∀ e : CErr, pe.exn e = specExn e

/-- the C side of the contract the leak statement needs (properties C03/C04): a failing call returns no object -/
def CRes.Clean {V : Type} (r : CRes V) : Prop := ∀ e, r.slot = .full e → r.resBlocks = 0

/-! ## Wrapper table: types shared with the generated `Gen/Tables.lean` -/

inductive Ty where
  | int | double | str | errpp | cs | carr | outd | outi | void | cplx | cstr | strlist | cd | cdn | rnd | other
  deriving DecidableEq, Repr

/-- one argument of the forwarded C call, as written in the wrapper body -/
inductive Arg where
  | param (i : Nat)      -- the wrapper's i-th parameter, passed unchanged
  | cstr (i : Nat)       -- `<i-th parameter>.c_str()`
  | pack (i : Nat)       -- `args...` (uninstantiated template pattern)
  | err                  -- `&error`
  | null                 -- `nullptr`
  | thisCs               -- the member `cs` of `*this`
  | paramCs (i : Nat)    -- the member `cs` of the i-th parameter (copy constructor)
  | outLocal             -- address of a local (`&nCrystals`)
  | other
  deriving DecidableEq, Repr

inductive WKind where
  | pattern      -- uninstantiated `_XRL_FUNCTION` overload
  | inst         -- instantiation of a `_XRL_FUNCTION` overload with the C prototype's argument types
  | plain        -- hand-written free function
  | method       -- member of Crystal::Struct
  | ctor         -- constructor of Crystal::Struct
  | delegate     -- free function forwarding to a method of its first parameter
  deriving DecidableEq, Repr

/-- the value a wrapper hands back, as a term over the result of the forwarded C call (read off the body by
    `tools/extract_cpp.py`: locals are substituted by their initialisers, so `char *rv = ::f(…); std::string rv2(rv);
    …; return rv2;` is `string res`) -/
inductive RetE where
  | res                                       -- the value returned by the forwarded call, unchanged (`return rv;`)
  | param (i : Nat)                           -- the i-th parameter of the function
  | outArg (k : Nat)                          -- the local whose address is the k-th argument of the C call (`&nCrystals`)
  | field (e : RetE) (name : String)          -- `e.name` / `e->name`
  | complex (re im : RetE)                    -- `std::complex<double>(re, im)`
  | string (e : RetE)                         -- `std::string(e)` from a `char *`
  | elems (ctor : String) (e count : RetE)    -- a vector of `ctor(e[i])` for `i = 0 … count-1`, in this order
  | object (cls : String) (e : RetE)          -- an object of class `cls` built from `e` by the converting constructor of the header
  | adopt (e : RetE)                          -- stored in the member `cs` of the object under construction
  | none                                      -- no value (`void`, constructors)
  | other                                     -- anything else
  deriving DecidableEq, Repr

/-- one member initialiser of a constructor of the header; `src`/`count` name members of the object it reads (`p`) -/
inductive FInit where
  | scalar (src : String)            -- `m(p->src)` / `m(p.src)`: the same value
  | string (src : String)            -- `m(p->src)` with `m` a `std::string` and `src` a `char *`
  | range (src count : String)       -- `m(p->src, p->src + p->count)`: the first `count` elements, in order
  | atoms (src count : String)       -- `m(_create_atom_vector(p->src, p->count))`
  | param (i : Nat)                  -- `m(<i-th constructor parameter>)`
  | sizeOf (i : Nat)                 -- `m(<i-th constructor parameter>.size())`
  | adopt                            -- `cs(p)`: the pointer itself is kept
  | other
  deriving DecidableEq, Repr

/-- a constructor of a class of the header: the class, the parameter list, what its single parameter is (a C struct,
    "self" for the copy constructor, "" for the public constructor from values) and the member initialisers in order -/
structure ClassMap where
  cls : String
  sig : String
  src : String
  inits : List (String × FInit)
  deriving DecidableEq, Repr

inductive CFieldKind where
  | scalar | string | array | atoms | other
  deriving DecidableEq, Repr

/-- a C struct of include/*.h with its fields in declaration order (`array`: `int *` / `double *`, `atoms`: `Crystal_Atom *`) -/
structure CStruct where
  name : String
  fields : List (String × CFieldKind)
  deriving DecidableEq, Repr

/-- right-hand side of an assignment `cs->f = …` in the public constructor of `Crystal::Struct` -/
inductive CsSrc where
  | param (i : Nat)                -- the i-th constructor parameter
  | member (m : String)            -- the member `m` of the object under construction
  | strdupParam (i : Nat)          -- `xrl_strdup(<i-th parameter>.c_str())`
  | allocStruct                    -- `xrl_malloc(sizeof(Crystal_Struct))`
  | allocAtoms (count : CsSrc)     -- `xrl_malloc(sizeof(Crystal_Atom) * count)`
  | other
  deriving DecidableEq, Repr

/-- `cs-><arr>[i].<fld> = <vec>[i].<src>` inside the copy loop of the public constructor -/
structure AtomAssign where
  arr : String
  fld : String
  src : String
  vec : CsSrc
  deriving DecidableEq, Repr

/-- body of the public constructor: the assignments to `cs` / `cs->f` in order, and the loops (bound, assignments) -/
structure OwnCtor where
  sig : String
  assigns : List (String × CsSrc)
  loops : List (CsSrc × List AtomAssign)
  deriving DecidableEq, Repr

/-- a helper of the header that calls no C function (`_create_atom_vector`): its result as a term over its parameters -/
structure Helper where
  name : String
  ret : RetE
  deriving DecidableEq, Repr

structure CProto where
  name : String
  ret : Ty
  params : List Ty
  deriving DecidableEq, Repr

structure Wrapper where
  scope : String         -- enclosing scopes below `xrlpp::`, e.g. "Crystal::Struct::"
  base : String          -- unqualified name
  sig : String           -- constructors only: the parameter list, to tell the three constructors apart
  kind : WKind
  params : List Ty       -- wrapper parameters (`str` = `const std::string &`)
  callee : String        -- the C function (or, for `delegate`, the method) it forwards to
  args : List Arg        -- arguments of that call, in order
  checked : Bool         -- the statement after the call is `_process_error(error)`
  release : String       -- how the C result is released: "" (nothing to release), the release function, "adopt"
  ret : RetE             -- the value handed back, as a term over the C result
  deriving DecidableEq, Repr

def Wrapper.name (w : Wrapper) : String := w.scope ++ w.base ++ w.sig

/-- The protocol as one table entry describes it: `_process_error(error)` is consulted only if the entry says the
    statement is there.  Without it the wrapper goes on to the return expression whatever C reported, and the error
    object (if any) stays behind. -/
def wrapEntry {A V W : Type} (pe : PE) (w : Wrapper) (cv : Conv V W) (f : CFun A V) (a : A) : WRes W :=
  if w.checked then wrap pe cv f a
  else
    let r := f a
    { out := .ok (cv.conv r.val),
      live := r.kept + (if cv.releases then 0 else r.resBlocks) + (match r.slot with | .empty => 0 | .full _ => errBlocks) }

def CProto.hasErr (p : CProto) : Bool := p.params.contains Ty.errpp

end XrlCpp
