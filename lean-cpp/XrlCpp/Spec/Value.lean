import XrlCpp.Hand.Value
import XrlCpp.Spec.Table
/-!
# "The same value, or an object with the same field contents" — written from the text of C18

Against the C struct declarations extracted from `include/*.h` (`CStruct`): what a well-formed C result looks like
(`OutFits`: every declared field present with a value of its kind, every array as long as its count field says — the
C side's own obligation, properties C03/C04), and when a C++ value is "the same" (`SameValue`).
-/
namespace XrlCpp.Spec
open XrlCpp

def atomNames (cs : List CStruct) : List String :=
  match findStruct cs "Crystal_Atom" with
  | some s => s.fields.map (fun f => f.1)
  | none => []

/-- the field `f` of a C struct value: present, of its kind, arrays as long as their count field says -/
def fieldFits (sname : String) (names : List String) (fs : List (String × FVal)) (f : String × CFieldKind) : Bool :=
  match f.2 with
  | .scalar => (match fs.lookup f.1 with | some (.num _) => true | _ => false)
  | .string => (match fs.lookup f.1 with | some (.str _) => true | _ => false)
  | .array =>
      match countOf sname f.1 with
      | some c =>
          (match fs.lookup f.1, fs.lookup c with
           | some (.nums l), some (.num n) => l.length == n.toNat
           | _, _ => false)
      | none => false
  | .atoms =>
      match countOf sname f.1 with
      | some c =>
          (match fs.lookup f.1, fs.lookup c with
           | some (.recs l), some (.num n) => l.length == n.toNat && l.all (fun a => a.map (fun x => x.1) == names)
           | _, _ => false)
      | none => false
  | .other => false

def structFits (cs : List CStruct) (s : CStruct) (fs : List (String × FVal)) : Bool :=
  s.fields.all (fieldFits s.name (atomNames cs) fs)

/-- an object has the same field contents as the C struct value `fs`: for every declared field the member of the
    same name holds the same value; for the atom array: as many atoms, and atom by atom every field of
    `Crystal_Atom` the same -/
def SameContents (names : List String) (am : List (String × FInit)) (s : CStruct)
    (fs obj : List (String × FVal)) : Prop :=
  ∀ f ∈ s.fields,
    (f.2 ≠ .atoms → obj.lookup f.1 = fs.lookup f.1 ∧ fs.lookup f.1 ≠ none) ∧
    (f.2 = .atoms → ∃ l, fs.lookup f.1 = some (.recs l) ∧ obj.lookup f.1 = some (.recs (l.map (evalAtom am))) ∧
        ∀ a ∈ l, ∀ g ∈ names, (evalAtom am a).lookup g = a.lookup g)

/-- the C struct a C return type points to -/
def structOf : Ty → String
  | .cd => "compoundData"
  | .cdn => "compoundDataNIST"
  | .rnd => "radioNuclideData"
  | .cs => "Crystal_Struct"
  | _ => ""

def isObjTy (t : Ty) : Bool := t == .cd || t == .cdn || t == .rnd || t == .cs

/-- a well-formed result of a C function of return type `t` (and count parameter among `cparams`) -/
def OutFits (cs : List CStruct) (t : Ty) (cparams : List Ty) (o : COut) : Prop :=
  match t with
  | .double => ∃ x, o.val = .num x
  | .int => ∃ x, o.val = .num x
  | .cplx => ∃ a b, o.val = .obj [("re", .num a), ("im", .num b)]
  | .cstr => ∃ s, o.val = .str s
  | .strlist => ∃ l, o.val = .strs l ∧ ∀ k, cparams[k]? = some .outi → l.length = (o.outs k).toNat
  | .void => True
  | t => isObjTy t = true ∧ ∃ s fs, findStruct cs (structOf t) = some s ∧ o.val = .obj fs ∧ structFits cs s fs = true

/-- an object with the same field contents as the C struct behind the pointer the C function returned -/
def SameObj (cs : List CStruct) (am : List (String × FInit)) (t : Ty) (o : COut) (v : Val) : Prop :=
  ∃ s fs obj, findStruct cs (structOf t) = some s ∧ o.val = .obj fs ∧ v = .obj obj ∧
    SameContents (atomNames cs) am s fs obj

/-- "the wrapper returns the same value (or an object with the same field contents)" -/
def SameValue (cs : List CStruct) (am : List (String × FInit)) (kind : WKind) (t : Ty) (o : COut) (v : Val) : Prop :=
  match t with
  | .double => v = o.val
  | .int => v = o.val
  | .cplx => ∃ a b, o.val = .obj [("re", .num a), ("im", .num b)] ∧ v = .cplx a b
  | .cstr => v = o.val
  | .strlist => v = o.val
  | .void => v = .unit
  | .cd => SameObj cs am .cd o v
  | .cdn => SameObj cs am .cdn o v
  | .rnd => SameObj cs am .rnd o v
  | .cs => if kind = .ctor then v = o.val       -- the copy constructor keeps the C object itself
           else SameObj cs am .cs o v
  | _ => False

/-- the tables the evaluator consults are the ones `field_maps_complete` judges: each C struct's class has its
    converting constructor, and that constructor passes `podMapOk`; `Atom`'s reads every field of `Crystal_Atom` -/
def mapsOk (cs : List CStruct) (cm : List (String × List String)) (cms : List ClassMap) : Bool :=
  classPod.all (fun cp =>
    match findPodCtor cms cp.1 with
    | some m => m.src == cp.2 && podMapOk cs (membersOf cm cp.1) m
    | none => false)

/-- `Atom`'s converting constructor reads every field of `Crystal_Atom` into the member of the same name -/
def atomsOk (cs : List CStruct) (cms : List ClassMap) : Bool :=
  (atomNames cs).all (fun g => (atomInits cms).lookup g == some (.scalar g))

/-- the class of the header that `retOk` names for a C return type -/
def classOfTy : Ty → String
  | .cd => "compoundData"
  | .cdn => "compoundDataNIST"
  | .rnd => "radioNuclideData"
  | .cs => "Crystal::Struct"
  | _ => ""

end XrlCpp.Spec
