import XrlCpp.Hand.Cpp
/-!
# What the property asks of the wrapper table (written from the text of C18, not from the header)

"Every public C function of the wrapped families has a wrapper; each wrapper calls the C function of its own name
with the same arity and argument order", checks the error after the call, and releases what C returned with the
release function that belongs to the returned type.  All checkers are Boolean so that the kernel decides them over
the extracted tables.
-/
namespace XrlCpp.Spec
open XrlCpp

/-- Public error-reporting C functions the C++ API does not expose *by design*: it only serves the built-in crystal
    array (every wrapper passes `nullptr` for `Crystal_Array*`), so creating a user array and filling an array from a
    file have no counterpart.  `xrl_propagate_error`/`xrl_clear_error` take an `xrl_error **` but are the error
    plumbing itself, not queries. -/
def notWrappedByDesign : List String :=
  ["Crystal_ArrayInit", "Crystal_ReadFile", "xrl_propagate_error", "xrl_clear_error"]

/-- a wrapper may differ from its callee in spelling only in these documented cases -/
def aliases : List (String × String) := [("XrayInit", "XRayInit")]

def findProto (ps : List CProto) (n : String) : Option CProto := ps.find? (fun p => p.name == n)

/-- "the C function of its own name": same identifier, or the identifier with the `Crystal_` prefix that the
    namespace `xrlpp::Crystal` replaces, or a documented alias; the copy constructor is the wrapper of `Crystal_MakeCopy` -/
def nameOk (w : Wrapper) : Bool :=
  w.base == w.callee || "Crystal_" ++ w.base == w.callee || aliases.contains (w.base, w.callee) ||
  (w.kind == .ctor && w.callee == "Crystal_MakeCopy")

/-- one forwarded argument against the C parameter type at its position -/
def argOk (params : List Ty) : Arg → Ty → Bool
  | .param i, .int => params[i]? == some .int
  | .param i, .double => params[i]? == some .double
  | .param i, .outd => params[i]? == some .outd
  | .cstr i, .str => params[i]? == some .str
  | .err, .errpp => true
  | .null, .carr => true
  | .thisCs, .cs => true
  | .paramCs i, .cs => params[i]? == some .cs
  | .outLocal, .outi => true
  | _, _ => false

def argsOk (params : List Ty) : List Arg → List Ty → Bool
  | [], [] => true
  | a :: as, t :: ts => argOk params a t && argsOk params as ts
  | _, _ => false

/-- the wrapper parameters that are forwarded, in the order in which the C call lists them -/
def forwarded : List Arg → List Nat
  | [] => []
  | .param i :: r => i :: forwarded r
  | .cstr i :: r => i :: forwarded r
  | .paramCs i :: r => i :: forwarded r
  | _ :: r => forwarded r

/-- the release that belongs to a C return type (include/xraylib-parser.h:71, -nist-compounds.h:81,
    -radionuclides.h:102, xraylib-parser.h:99,120, -crystal-diffraction.h:158-159) -/
def releaseOk : Ty → String → Bool
  | .cd, r => r == "FreeCompoundData"
  | .cdn, r => r == "FreeCompoundDataNIST"
  | .rnd, r => r == "FreeRadioNuclideData"
  | .cstr, r => r == "xrlFree"
  | .strlist, r => r == "xrlFree*"
  | .cs, r => r == "adopt"
  | _, r => r == ""

/-- "returns the same value (or an object with the same field contents)": the term the wrapper hands back, per C
    return type.  Scalars: the C result itself.  `xrlComplex {re, im}`: `std::complex<double>` whose real part is the
    field `re` and whose imaginary part is the field `im`.  `char *`: a `std::string` of it.  `char **` + count: the
    strings `list[0] … list[n-1]` in order, `n` being the local whose address is passed where the C prototype has its
    `int *` count parameter.  Pointer to a C struct: an object of the class that carries the struct's name, built
    from the C result by that class's converting constructor (whose field map `classMapOk` judges); the copy
    constructor of `Crystal::Struct` keeps the result of `Crystal_MakeCopy` in its member `cs`. -/
def retOk (kind : WKind) (ret : Ty) (cparams : List Ty) (e : RetE) : Bool :=
  match ret with
  | .double => e == .res
  | .int => e == .res
  | .cplx => e == .complex (.field .res "re") (.field .res "im")
  | .cstr => e == .string .res
  | .strlist =>
      match e with
      | .elems c .res (.outArg k) => c == "std::string" && cparams[k]? == some .outi
      | _ => false
  | .cd => e == .object "compoundData" .res
  | .cdn => e == .object "compoundDataNIST" .res
  | .rnd => e == .object "radioNuclideData" .res
  | .cs => if kind == .ctor then e == .adopt .res else e == .object "Crystal::Struct" .res
  | .void => e == .none
  | _ => false

/-- a concrete wrapper (instantiated template, free function, method, copy constructor) against its C prototype:
    own name, same arity, every wrapper parameter forwarded exactly once and in order, types agree, the error is
    checked right after the call, the result is released properly, and the value handed back is the one `retOk`
    asks for the C return type -/
def concreteOk (protos : List CProto) (w : Wrapper) : Bool :=
  match findProto protos w.callee with
  | none => false
  | some p =>
    nameOk w && argsOk w.params w.args p.params && forwarded w.args == List.range w.params.length &&
    (!p.hasErr || w.checked) && releaseOk p.ret w.release && retOk w.kind p.ret p.params w.ret

/-- the two uninstantiated `_XRL_FUNCTION` overloads: `(compound.c_str(), args..., &error)` and `(args..., &error)` -/
def patternOk (protos : List CProto) (w : Wrapper) : Bool :=
  match findProto protos w.callee with
  | none => false
  | some p =>
    w.base == w.callee && w.checked && p.hasErr && p.ret == .double && w.release == "" && w.ret == .res &&
    ((w.params == [.str, .other] && w.args == [.cstr 0, .pack 1, .err]) ||
     (w.params == [.other] && w.args == [.pack 0, .err]))

/-- free functions of `xrlpp::Crystal` that forward to the method of the same name of their first parameter -/
def delegateOk (ws : List Wrapper) (w : Wrapper) : Bool :=
  ws.any (fun m => m.kind == .method && m.base == w.callee && w.base == m.base && w.params == .cs :: m.params) &&
  w.args == (List.range w.params.length).map Arg.param && w.ret == .res      -- `return cs.method(…);`: the method's result, unchanged

def wrapperOk (protos : List CProto) (ws : List Wrapper) (dtorRelease : String) (w : Wrapper) : Bool :=
  match w.kind with
  | .pattern => patternOk protos w && ws.any (fun v => v.kind == .inst && v.base == w.base)
  | .inst => concreteOk protos w && w.base == w.callee
  | .plain => concreteOk protos w
  | .method => concreteOk protos w
  | .delegate => delegateOk ws w
  | .ctor =>
      if w.callee == "" then w.release == "adopt" && dtorRelease == "Crystal_Free" && w.ret == .none          -- adopting constructor
      else if w.callee == "xrl_malloc" then w.release == "own" && dtorRelease == "Crystal_Free" && w.ret == .none   -- public constructor
      else concreteOk protos w && dtorRelease == "Crystal_Free"

/-- a public function belongs to the wrapped families iff it reports errors through an `xrl_error **` -/
def needsWrapper (p : CProto) : Bool := p.hasErr && !notWrappedByDesign.contains p.name

/-- some *callable* wrapper (not a bare template pattern) forwards to `p` -/
def hasWrapper (ws : List Wrapper) (p : CProto) : Bool :=
  ws.any (fun w => w.callee == p.name && w.kind != .pattern && w.kind != .delegate)

/-! ## Field maps: "an object with the same field contents" -/

/-- the class of the header that stands for a C struct -/
def classPod : List (String × String) :=
  [("compoundData", "compoundData"), ("compoundDataNIST", "compoundDataNIST"), ("radioNuclideData", "radioNuclideData"),
   ("Crystal::Atom", "Crystal_Atom"), ("Crystal::Struct", "Crystal_Struct")]

/-- the field that holds the number of elements of an array field, from the comments of the C headers
    (xraylib-parser.h:55-62, -nist-compounds.h:25-31, -radionuclides.h, xraylib-defs.h `Crystal_Struct`) -/
def countOf : String → String → Option String
  | "compoundData", "Elements" => some "nElements"
  | "compoundData", "massFractions" => some "nElements"
  | "compoundData", "nAtoms" => some "nElements"
  | "compoundDataNIST", "Elements" => some "nElements"
  | "compoundDataNIST", "massFractions" => some "nElements"
  | "radioNuclideData", "XrayLines" => some "nXrays"
  | "radioNuclideData", "XrayIntensities" => some "nXrays"
  | "radioNuclideData", "GammaEnergies" => some "nGammas"
  | "radioNuclideData", "GammaIntensities" => some "nGammas"
  | "Crystal_Struct", "atom" => some "n_atom"
  | _, _ => none

/-- what the member named like the C field `f` must be initialised with: the field itself; for arrays its first
    `count` elements in order -/
def expectedInit (sname : String) (f : String × CFieldKind) : FInit :=
  match f.2 with
  | .scalar => .scalar f.1
  | .string => .string f.1
  | .array => match countOf sname f.1 with | some c => .range f.1 c | none => .other
  | .atoms => match countOf sname f.1 with | some c => .atoms f.1 c | none => .other
  | .other => .other

def findStruct (cs : List CStruct) (n : String) : Option CStruct := cs.find? (fun s => s.name == n)

/-- converting constructor from a C struct: every C field initialises the member of its own name with its own
    contents; the class has no other data member (but the adopted pointer `cs` of `Crystal::Struct`), and every
    member is initialised exactly once -/
def podMapOk (cs : List CStruct) (members : List String) (m : ClassMap) : Bool :=
  match findStruct cs m.src with
  | none => false
  | some s =>
    s.fields.all (fun f => m.inits.lookup f.1 == some (expectedInit s.name f)) &&
    members.all (fun x => s.fields.any (fun f => f.1 == x) || (x == "cs" && m.inits.lookup "cs" == some .adopt)) &&
    m.inits.map (fun i => i.1) == members

/-- copy constructor: every value member from the member of the same name of the source (the C object is copied by
    `Crystal_MakeCopy` in the body: wrapper entry with `ret = adopt res`) -/
def selfMapOk (members : List String) (m : ClassMap) : Bool :=
  m.inits.map (fun i => i.1) == members.filter (fun x => x != "cs") &&
  m.inits.all (fun i => i.2 == .scalar i.1)

/-- public constructor of `Crystal::Struct` from values: the members from the parameters, and the C struct it builds
    field by field from the same parameters / members — every field of `Crystal_Struct` gets the value of the member
    of its name, the name is duplicated, the atom array is allocated for `n_atom` atoms and filled element by
    element, field by field, from the vector that initialises the member `atom` -/
def ownCtorOk (cs : List CStruct) (members : List String) (m : ClassMap) (o : OwnCtor) : Bool :=
  match findStruct cs "Crystal_Struct", findStruct cs "Crystal_Atom" with
  | some s, some a =>
    m.inits.map (fun i => i.1) == members.filter (fun x => x != "cs") &&
    o.assigns.head? == some ("", .allocStruct) &&
    o.assigns.length == s.fields.length + 1 &&
    s.fields.all (fun f =>
      match f.2, m.inits.lookup f.1, o.assigns.lookup f.1 with
      | .scalar, some (.param i), some (.param j) => i == j
      | .scalar, some (.param _), some (.member x) => x == f.1
      | .scalar, some (.sizeOf _), some (.member x) => x == f.1           -- n_atom(atoms.size()); cs->n_atom = n_atom
      | .string, some (.param i), some (.strdupParam j) => i == j
      | .atoms, some (.param i), some (.allocAtoms (.member c)) =>
          countOf "Crystal_Struct" f.1 == some c && m.inits.lookup c == some (.sizeOf i) &&
          o.loops == [(.member c, a.fields.map (fun g => { arr := f.1, fld := g.1, src := g.1, vec := .param i }))]
      | _, _, _ => false)
  | _, _ => false

def membersOf (cm : List (String × List String)) (cls : String) : List String := (cm.lookup cls).getD []

def classMapOk (cs : List CStruct) (cm : List (String × List String)) (own : List OwnCtor) (m : ClassMap) : Bool :=
  if m.src == "" then own.any (fun o => o.sig == m.sig && ownCtorOk cs (membersOf cm m.cls) m o)
  else if m.src == "self" then selfMapOk (membersOf cm m.cls) m
  else classPod.contains (m.cls, m.src) && podMapOk cs (membersOf cm m.cls) m

/-- `_create_atom_vector(atoms, n)`: `Atom(atoms[0]) … Atom(atoms[n-1])`, which the `atoms` initialiser relies on -/
def atomVectorOk (hs : List Helper) : Bool :=
  hs.any (fun h => h.name == "Crystal::_create_atom_vector" && h.ret == .elems "Crystal::Atom" (.param 0) (.param 1))

/-! ## Error codes by name -/

/-- the property, per enumerator *name* of `xrl_error_code`: exception class, and whether the C message is carried -/
def specByName (n : String) : ExnKind × Bool :=
  if n == "XRL_ERROR_MEMORY" then (.badAlloc, false)
  else if n == "XRL_ERROR_INVALID_ARGUMENT" then (.invalidArgument, true)
  else (.runtimeError, true)

end XrlCpp.Spec
