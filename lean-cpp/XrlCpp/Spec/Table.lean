import XrlCpp.Hand.Cpp
/-!
# What the property asks of the wrapper table (written from the text of C18, not from the header)

"Every public C function of the wrapped families has a wrapper; each wrapper calls the C function of its own name
with the same arity and argument order", checks the error after the call, and releases what C returned with the
release function that belongs to the returned type.  All checkers are Boolean so that the kernel decides them over
the extracted tables.
-/
namespace XrlCpp.Spec
open XrlCpp

/-- Public error-reporting C functions the C++ API does not expose *by design*: it only serves the built-in crystal
    array (every wrapper passes `nullptr` for `Crystal_Array*`), so creating a user array and filling an array from a
    file have no counterpart.  `xrl_propagate_error`/`xrl_clear_error` take an `xrl_error **` but are the error
    plumbing itself, not queries. -/
def notWrappedByDesign : List String :=
  ["Crystal_ArrayInit", "Crystal_ReadFile", "xrl_propagate_error", "xrl_clear_error"]

/-- a wrapper may differ from its callee in spelling only in these documented cases -/
def aliases : List (String × String) := [("XrayInit", "XRayInit")]

def findProto (ps : List CProto) (n : String) : Option CProto := ps.find? (fun p => p.name == n)

/-- "the C function of its own name": same identifier, or the identifier with the `Crystal_` prefix that the
    namespace `xrlpp::Crystal` replaces, or a documented alias; the copy constructor is the wrapper of `Crystal_MakeCopy` -/
def nameOk (w : Wrapper) : Bool :=
  w.base == w.callee || "Crystal_" ++ w.base == w.callee || aliases.contains (w.base, w.callee) ||
  (w.kind == .ctor && w.callee == "Crystal_MakeCopy")

/-- one forwarded argument against the C parameter type at its position -/
def argOk (params : List Ty) : Arg → Ty → Bool
  | .param i, .int => params[i]? == some .int
  | .param i, .double => params[i]? == some .double
  | .param i, .outd => params[i]? == some .outd
  | .cstr i, .str => params[i]? == some .str
  | .err, .errpp => true
  | .null, .carr => true
  | .thisCs, .cs => true
  | .paramCs i, .cs => params[i]? == some .cs
  | .outLocal, .outi => true
  | _, _ => false

def argsOk (params : List Ty) : List Arg → List Ty → Bool
  | [], [] => true
  | a :: as, t :: ts => argOk params a t && argsOk params as ts
  | _, _ => false

/-- the wrapper parameters that are forwarded, in the order in which the C call lists them -/
def forwarded : List Arg → List Nat
  | [] => []
  | .param i :: r => i :: forwarded r
  | .cstr i :: r => i :: forwarded r
  | .paramCs i :: r => i :: forwarded r
  | _ :: r => forwarded r

/-- the release that belongs to a C return type (include/xraylib-parser.h:71, -nist-compounds.h:81,
    -radionuclides.h:102, xraylib-parser.h:99,120, -crystal-diffraction.h:158-159) -/
def releaseOk : Ty → String → Bool
  | .cd, r => r == "FreeCompoundData"
  | .cdn, r => r == "FreeCompoundDataNIST"
  | .rnd, r => r == "FreeRadioNuclideData"
  | .cstr, r => r == "xrlFree"
  | .strlist, r => r == "xrlFree*"
  | .cs, r => r == "adopt"
  | _, r => r == ""

/-- a concrete wrapper (instantiated template, free function, method, copy constructor) against its C prototype:
    own name, same arity, every wrapper parameter forwarded exactly once and in order, types agree, the error is
    checked right after the call, the result is released properly -/
def concreteOk (protos : List CProto) (w : Wrapper) : Bool :=
  match findProto protos w.callee with
  | none => false
  | some p =>
    nameOk w && argsOk w.params w.args p.params && forwarded w.args == List.range w.params.length &&
    (!p.hasErr || w.checked) && releaseOk p.ret w.release

/-- the two uninstantiated `_XRL_FUNCTION` overloads: `(compound.c_str(), args..., &error)` and `(args..., &error)` -/
def patternOk (protos : List CProto) (w : Wrapper) : Bool :=
  match findProto protos w.callee with
  | none => false
  | some p =>
    w.base == w.callee && w.checked && p.hasErr && p.ret == .double && w.release == "" &&
    ((w.params == [.str, .other] && w.args == [.cstr 0, .pack 1, .err]) ||
     (w.params == [.other] && w.args == [.pack 0, .err]))

/-- free functions of `xrlpp::Crystal` that forward to the method of the same name of their first parameter -/
def delegateOk (ws : List Wrapper) (w : Wrapper) : Bool :=
  ws.any (fun m => m.kind == .method && m.base == w.callee && w.base == m.base && w.params == .cs :: m.params) &&
  w.args == (List.range w.params.length).map Arg.param

def wrapperOk (protos : List CProto) (ws : List Wrapper) (dtorRelease : String) (w : Wrapper) : Bool :=
  match w.kind with
  | .pattern => patternOk protos w && ws.any (fun v => v.kind == .inst && v.base == w.base)
  | .inst => concreteOk protos w && w.base == w.callee
  | .plain => concreteOk protos w
  | .method => concreteOk protos w
  | .delegate => delegateOk ws w
  | .ctor =>
      if w.callee == "" then w.release == "adopt" && dtorRelease == "Crystal_Free"          -- adopting constructor
      else if w.callee == "xrl_malloc" then w.release == "own" && dtorRelease == "Crystal_Free"   -- public constructor
      else concreteOk protos w && dtorRelease == "Crystal_Free"

/-- a public function belongs to the wrapped families iff it reports errors through an `xrl_error **` -/
def needsWrapper (p : CProto) : Bool := p.hasErr && !notWrappedByDesign.contains p.name

/-- some *callable* wrapper (not a bare template pattern) forwards to `p` -/
def hasWrapper (ws : List Wrapper) (p : CProto) : Bool :=
  ws.any (fun w => w.callee == p.name && w.kind != .pattern && w.kind != .delegate)

end XrlCpp.Spec
