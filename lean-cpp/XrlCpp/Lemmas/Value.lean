import XrlCpp.Spec.Value
/-! Lemmas relating the evaluator of return terms / field maps (Hand/Value.lean) to "same value / same field contents"
(Spec/Value.lean).  No property theorem lives here. -/
namespace XrlCpp.Spec
open XrlCpp

theorem lookup_map_snd {β γ : Type} (g : β → γ) (l : List (String × β)) (k : String) :
    (l.map (fun i => (i.1, g i.2))).lookup k = (l.lookup k).map g := by
  induction l with
  | nil => rfl
  | cons h t ih =>
    obtain ⟨a, b⟩ := h
    simp only [List.map_cons, List.lookup_cons]
    cases hk : (k == a) <;> simp [ih]

theorem lookup_of_mem_keys {β : Type} (l : List (String × β)) (k : String) (h : k ∈ l.map (fun x => x.1)) :
    ∃ v, l.lookup k = some v := by
  induction l with
  | nil => simp at h
  | cons x t ih =>
    obtain ⟨a, b⟩ := x
    simp only [List.lookup_cons]
    cases hk : (k == a) with
    | true => exact ⟨b, rfl⟩
    | false =>
      simp only [List.map_cons, List.mem_cons] at h
      rcases h with h | h
      · rw [h] at hk; simp at hk
      · exact ih h

/-- an `Atom` built through initialisers that read the field `g` into the member `g` shows `g` unchanged -/
theorem evalAtom_lookup (am : List (String × FInit)) (a : List (String × Int)) (g : String)
    (hm : am.lookup g = some (.scalar g)) (hg : g ∈ a.map (fun x => x.1)) :
    (evalAtom am a).lookup g = a.lookup g := by
  obtain ⟨v, hv⟩ := lookup_of_mem_keys a g hg
  unfold evalAtom
  rw [lookup_map_snd (atomField a) am g, hm]
  simp [atomField, hv]

/-- the object a converting constructor that passes `podMapOk` builds from a well-formed C struct value has the same
    field contents -/
theorem evalObject_same (cs : List CStruct) (members : List String) (m : ClassMap) (s : CStruct)
    (am : List (String × FInit)) (names : List String)
    (hs : findStruct cs m.src = some s) (hm : podMapOk cs members m = true)
    (ham : ∀ g ∈ names, am.lookup g = some (.scalar g))
    (fs : List (String × FVal)) (hfit : s.fields.all (fieldFits s.name names fs) = true) :
    SameContents names am s fs (evalObject am m fs) := by
  unfold podMapOk at hm
  rw [hs] at hm
  simp only [Bool.and_eq_true] at hm
  intro f hf
  have h1 : m.inits.lookup f.1 = some (expectedInit s.name f) := by
    have := List.all_eq_true.mp hm.1.1 f hf
    simpa using this
  have h2 := List.all_eq_true.mp hfit f hf
  have hl : (evalObject am m fs).lookup f.1 = some (evalInit am fs (expectedInit s.name f)) := by
    unfold evalObject
    rw [lookup_map_snd (evalInit am fs) m.inits f.1, h1]; rfl
  obtain ⟨n, k⟩ := f
  cases k with
  | scalar =>
    refine ⟨fun _ => ?_, fun h => by cases h⟩
    simp only [fieldFits] at h2
    simp only [expectedInit, evalInit] at hl
    cases hv : fs.lookup n with
    | none => simp [hv] at h2
    | some v => simp [hl, hv]
  | string =>
    refine ⟨fun _ => ?_, fun h => by cases h⟩
    simp only [fieldFits] at h2
    simp only [expectedInit, evalInit] at hl
    cases hv : fs.lookup n with
    | none => simp [hv] at h2
    | some v => simp [hl, hv]
  | array =>
    refine ⟨fun _ => ?_, fun h => by cases h⟩
    simp only [fieldFits] at h2
    simp only [expectedInit] at hl
    cases hc : countOf s.name n with
    | none => simp [hc] at h2
    | some c =>
      simp only [hc] at h2 hl
      simp only [evalInit] at hl
      cases hv : fs.lookup n with
      | none => simp [hv] at h2
      | some v =>
        cases hn : fs.lookup c with
        | none => cases v <;> simp [hv, hn] at h2
        | some w =>
          cases v <;> cases w <;> simp [hv, hn] at h2
          rename_i l x
          simp only [hv, hn] at hl
          rw [hl]
          simp [List.take_of_length_le (Nat.le_of_eq h2)]
  | atoms =>
    refine ⟨fun h => absurd rfl h, fun _ => ?_⟩
    simp only [fieldFits] at h2
    simp only [expectedInit] at hl
    cases hc : countOf s.name n with
    | none => simp [hc] at h2
    | some c =>
      simp only [hc] at h2 hl
      simp only [evalInit] at hl
      cases hv : fs.lookup n with
      | none => simp [hv] at h2
      | some v =>
        cases hn : fs.lookup c with
        | none => cases v <;> simp [hv, hn] at h2
        | some w =>
          cases v <;> cases w <;> simp [hv, hn] at h2
          rename_i l x
          simp only [hv, hn] at hl
          refine ⟨l, rfl, ?_, ?_⟩
          · rw [hl, List.take_of_length_le (Nat.le_of_eq h2.1)]
          · intro a ha g hg
            have hk := h2.2 a ha
            exact evalAtom_lookup am a g (ham g hg) (by rw [hk]; exact hg)
  | other => simp [fieldFits] at h2

theorem mapsOk_find (cs : List CStruct) (cm : List (String × List String)) (cms : List ClassMap)
    (h : mapsOk cs cm cms = true) (cp : String × String) (hcp : cp ∈ classPod) :
    ∃ m, findPodCtor cms cp.1 = some m ∧ m.src = cp.2 ∧ podMapOk cs (membersOf cm cp.1) m = true := by
  have := List.all_eq_true.mp h cp hcp
  cases hf : findPodCtor cms cp.1 with
  | none => simp [hf] at this
  | some m =>
    simp only [hf, Bool.and_eq_true, beq_iff_eq] at this
    exact ⟨m, rfl, this.1, this.2⟩

/-- an object built by the converting constructor of the table from a well-formed C struct has the same contents -/
theorem object_case (cs : List CStruct) (cm : List (String × List String)) (cms : List ClassMap)
    (hmaps : mapsOk cs cm cms = true) (hatom : atomsOk cs cms = true)
    (cls pod : String) (hcp : (cls, pod) ∈ classPod) (o : COut) (s : CStruct) (fs : List (String × FVal))
    (hs : findStruct cs pod = some s) (hv : o.val = .obj fs) (hf : structFits cs s fs = true) :
    ∃ obj, evalRet cms o (.object cls .res) = .obj obj ∧ SameContents (atomNames cs) (atomInits cms) s fs obj := by
  obtain ⟨m, hm1, hm2, hm3⟩ := mapsOk_find cs cm cms hmaps (cls, pod) hcp
  refine ⟨evalObject (atomInits cms) m fs, ?_, ?_⟩
  · simp only [evalRet, hv, hm1]
  · apply evalObject_same cs (membersOf cm cls) m s (atomInits cms) (atomNames cs) (by rw [hm2]; exact hs) hm3
    · intro g hg
      have := List.all_eq_true.mp hatom g hg
      simpa using this
    · exact hf

/-- objects: the four pointer-to-struct return types -/
theorem ret_same_obj (cs : List CStruct) (cm : List (String × List String)) (cms : List ClassMap)
    (hmaps : mapsOk cs cm cms = true) (hatom : atomsOk cs cms = true)
    (t : Ty) (cls : String) (hcp : (cls, structOf t) ∈ classPod)
    (o : COut) (hfit : ∃ s fs, findStruct cs (structOf t) = some s ∧ o.val = .obj fs ∧ structFits cs s fs = true) :
    SameObj cs (atomInits cms) t o (evalRet cms o (.object cls .res)) := by
  obtain ⟨s, fs, hs, hv, hf⟩ := hfit
  obtain ⟨obj, h1, h2⟩ := object_case cs cm cms hmaps hatom cls (structOf t) hcp o s fs hs hv hf
  exact ⟨s, fs, obj, hs, hv, h1, h2⟩

/-- **the meaning of `retOk`**: a return term that passes it evaluates, on every well-formed C result, to the same
    value / an object with the same field contents -/
theorem ret_same_value (cs : List CStruct) (cm : List (String × List String)) (cms : List ClassMap)
    (hmaps : mapsOk cs cm cms = true) (hatom : atomsOk cs cms = true)
    (kind : WKind) (t : Ty) (cparams : List Ty) (e : RetE) (h : retOk kind t cparams e = true)
    (o : COut) (hfit : OutFits cs t cparams o) :
    SameValue cs (atomInits cms) kind t o (evalRet cms o e) := by
  cases t with
  | double => simp only [retOk, beq_iff_eq] at h; subst h; simp [SameValue, evalRet]
  | int => simp only [retOk, beq_iff_eq] at h; subst h; simp [SameValue, evalRet]
  | cstr =>
    simp only [retOk, beq_iff_eq] at h; subst h
    obtain ⟨s, hs⟩ := hfit
    simp [SameValue, evalRet, hs]
  | void => simp only [retOk, beq_iff_eq] at h; subst h; simp [SameValue, evalRet]
  | cplx =>
    simp only [retOk, beq_iff_eq] at h; subst h
    obtain ⟨a, b, hv⟩ := hfit
    refine ⟨a, b, hv, ?_⟩
    simp [evalRet, hv, List.lookup]
  | strlist =>
    obtain ⟨l, hv, hl⟩ := hfit
    cases e with
    | elems c e1 n =>
      cases e1 with
      | res =>
        cases n with
        | outArg k =>
          simp only [retOk, Bool.and_eq_true, beq_iff_eq] at h
          obtain ⟨hc, hk⟩ := h
          subst hc
          have := hl k hk
          simp [SameValue, evalRet, hv, List.take_of_length_le (Nat.le_of_eq this)]
        | _ => simp [retOk] at h
      | _ => simp [retOk] at h
    | _ => simp [retOk] at h
  | cd =>
    simp only [retOk, beq_iff_eq] at h; subst h
    exact ret_same_obj cs cm cms hmaps hatom .cd "compoundData" (by decide) o hfit.2
  | cdn =>
    simp only [retOk, beq_iff_eq] at h; subst h
    exact ret_same_obj cs cm cms hmaps hatom .cdn "compoundDataNIST" (by decide) o hfit.2
  | rnd =>
    simp only [retOk, beq_iff_eq] at h; subst h
    exact ret_same_obj cs cm cms hmaps hatom .rnd "radioNuclideData" (by decide) o hfit.2
  | cs =>
    simp only [retOk] at h
    by_cases hk : kind = .ctor
    · have hb : (kind == WKind.ctor) = true := by rw [hk]; rfl
      simp only [hb, if_true, beq_iff_eq] at h; subst h
      simp [SameValue, hk, evalRet]
    · have hb : (kind == WKind.ctor) = false := by cases kind <;> simp at hk ⊢
      simp only [hb, Bool.false_eq_true, if_false, beq_iff_eq] at h; subst h
      simp only [SameValue, if_neg hk]
      exact ret_same_obj cs cm cms hmaps hatom .cs "Crystal::Struct" (by decide) o hfit.2
  | _ => simp [retOk] at h

end XrlCpp.Spec
