import XrlCpp.Hand.Struct
/-! Invariant of the ownership model and its preservation (helper lemmas; no property theorem lives here). -/
namespace XrlCpp.Own

/-- every live owning object points at a live C object holding the contents the object was built from; no two
    objects share a C object; nothing is live at or beyond the allocation frontier; every live C object is owned -/
structure Inv (s : St) : Prop where
  owns : ∀ i o a, s.objs i = some o → o.cs = some a → s.heap a = some o.fields
  distinct : ∀ i j o p a, s.objs i = some o → s.objs j = some p → o.cs = some a → p.cs = some a → i = j
  fresh : ∀ a, s.next ≤ a → s.heap a = none
  owned : ∀ a c, s.heap a = some c → ∃ i o, s.objs i = some o ∧ o.cs = some a
  bound : ∀ i, s.nobjs ≤ i → s.objs i = none

theorem inv_init : Inv St.init := by
  constructor <;> intros <;> simp_all [St.init]

theorem upd_same {β : Type} (f : Nat → β) (k : Nat) (v : β) : upd f k v k = v := by simp [upd]
theorem upd_other {β : Type} (f : Nat → β) (k x : Nat) (v : β) (h : x ≠ k) : upd f k v x = f x := by simp [upd, h]

/-- allocating a C object with contents `c` for a new object whose value fields are also `c` keeps the invariant -/
theorem inv_adopt (s : St) (c : Content) (h : Inv s) : Inv (s.adopt c c) := by
  have hn : s.objs s.nobjs = none := h.bound _ (Nat.le_refl _)
  have hf : s.heap s.next = none := h.fresh _ (Nat.le_refl _)
  constructor
  · intro i o a hi ha
    by_cases e : i = s.nobjs
    · subst e
      simp [St.adopt, upd] at hi
      subst hi
      simp at ha
      subst ha
      simp [St.adopt, upd]
    · have hi' : s.objs i = some o := by simpa [St.adopt, upd, e] using hi
      have := h.owns i o a hi' ha
      have ne : a ≠ s.next := by
        intro ea; subst ea; rw [hf] at this; cases this
      simp [St.adopt, upd, ne, this]
  · intro i j o p a hi hj ha hp
    by_cases ei : i = s.nobjs <;> by_cases ej : j = s.nobjs
    · omega
    · subst ei
      simp [St.adopt, upd] at hi
      subst hi
      simp at ha
      subst ha
      have hj' : s.objs j = some p := by simpa [St.adopt, upd, ej] using hj
      have := h.owns j p _ hj' hp
      rw [hf] at this; cases this
    · subst ej
      simp [St.adopt, upd] at hj
      subst hj
      simp at hp
      subst hp
      have hi' : s.objs i = some o := by simpa [St.adopt, upd, ei] using hi
      have := h.owns i o _ hi' ha
      rw [hf] at this; cases this
    · have hi' : s.objs i = some o := by simpa [St.adopt, upd, ei] using hi
      have hj' : s.objs j = some p := by simpa [St.adopt, upd, ej] using hj
      exact h.distinct i j o p a hi' hj' ha hp
  · intro a ha
    have : a ≠ s.next := by simp [St.adopt] at ha; omega
    simp [St.adopt, upd, this]
    exact h.fresh a (by simp [St.adopt] at ha; omega)
  · intro a c' ha
    by_cases e : a = s.next
    · subst e
      exact ⟨s.nobjs, { fields := c, cs := some s.next }, by simp [St.adopt, upd], rfl⟩
    · have ha' : s.heap a = some c' := by simpa [St.adopt, upd, e] using ha
      obtain ⟨i, o, hi, ho⟩ := h.owned a c' ha'
      have : i ≠ s.nobjs := by
        intro ei; subst ei; rw [hn] at hi; cases hi
      exact ⟨i, o, by simp [St.adopt, upd, this, hi], ho⟩
  · intro i hi
    have : i ≠ s.nobjs := by simp [St.adopt] at hi; omega
    simp [St.adopt, upd, this]
    exact h.bound i (by simp [St.adopt] at hi; omega)

/-- the copy constructor: a fresh C object holding what the source's C object holds, which (by `owns`) is the
    source's value fields -/
theorem inv_adopt_copy (s : St) (i : Nat) (o : Obj) (a : Nat) (h : Inv s) (hi : s.objs i = some o) (ha : o.cs = some a) :
    s.heap a = some o.fields ∧ Inv (s.adopt o.fields o.fields) :=
  ⟨h.owns i o a hi ha, inv_adopt s o.fields h⟩

/-- a new value object (no C object kept) keeps the invariant; the frontier may advance -/
theorem inv_value (s : St) (o : Obj) (k : Nat) (ho : o.cs = none) (h : Inv s) :
    Inv { s with next := s.next + k, objs := upd s.objs s.nobjs (some o), nobjs := s.nobjs + 1 } := by
  have hn : s.objs s.nobjs = none := h.bound _ (Nat.le_refl _)
  constructor
  · intro i p a hi ha
    by_cases e : i = s.nobjs
    · subst e
      simp [upd] at hi
      subst hi
      rw [ho] at ha; cases ha
    · have hi' : s.objs i = some p := by simpa [upd, e] using hi
      exact h.owns i p a hi' ha
  · intro i j p q a hi hj ha hq
    by_cases ei : i = s.nobjs
    · subst ei
      simp [upd] at hi
      subst hi
      rw [ho] at ha; cases ha
    · by_cases ej : j = s.nobjs
      · subst ej
        simp [upd] at hj
        subst hj
        rw [ho] at hq; cases hq
      · have hi' : s.objs i = some p := by simpa [upd, ei] using hi
        have hj' : s.objs j = some q := by simpa [upd, ej] using hj
        exact h.distinct i j p q a hi' hj' ha hq
  · intro a ha
    exact h.fresh a (by simp at ha; omega)
  · intro a c ha
    obtain ⟨i, p, hi, hp⟩ := h.owned a c ha
    have : i ≠ s.nobjs := by
      intro ei; subst ei; rw [hn] at hi; cases hi
    exact ⟨i, p, by simp [upd, this, hi], hp⟩
  · intro i hi
    have : i ≠ s.nobjs := by simp at hi; omega
    simp [upd, this]
    exact h.bound i (by simp at hi; omega)

/-- destroying an owning object releases exactly its own C object -/
theorem inv_destroy_owner (s : St) (i : Nat) (o : Obj) (a : Nat) (h : Inv s) (hi : s.objs i = some o) (ha : o.cs = some a) :
    Inv { s with heap := upd s.heap a none, objs := upd s.objs i none } := by
  constructor
  · intro j p b hj hb
    by_cases e : j = i
    · subst e; simp [upd] at hj
    · have hj' : s.objs j = some p := by simpa [upd, e] using hj
      have ne : b ≠ a := by
        intro eb; subst eb
        exact e (h.distinct j i p o b hj' hi hb ha)
      simpa [upd, ne] using h.owns j p b hj' hb
  · intro j k p q b hj hk hb hq
    by_cases ej : j = i
    · subst ej; simp [upd] at hj
    · by_cases ek : k = i
      · subst ek; simp [upd] at hk
      · have hj' : s.objs j = some p := by simpa [upd, ej] using hj
        have hk' : s.objs k = some q := by simpa [upd, ek] using hk
        exact h.distinct j k p q b hj' hk' hb hq
  · intro b hb
    by_cases e : b = a
    · simp [upd, e]
    · simpa [upd, e] using h.fresh b hb
  · intro b c hb
    by_cases e : b = a
    · subst e; simp [upd] at hb
    · have hb' : s.heap b = some c := by simpa [upd, e] using hb
      obtain ⟨j, p, hj, hp⟩ := h.owned b c hb'
      have : j ≠ i := by
        intro ej; subst ej
        rw [hi] at hj; cases hj
        rw [ha] at hp; cases hp
        exact e rfl
      exact ⟨j, p, by simp [upd, this, hj], hp⟩
  · intro j hj
    by_cases e : j = i
    · simp [upd, e]
    · simpa [upd, e] using h.bound j hj

/-- destroying a value object touches no C object -/
theorem inv_destroy_value (s : St) (i : Nat) (o : Obj) (h : Inv s) (hi : s.objs i = some o) (ho : o.cs = none) :
    Inv { s with objs := upd s.objs i none } := by
  constructor
  · intro j p b hj hb
    by_cases e : j = i
    · subst e; simp [upd] at hj
    · have hj' : s.objs j = some p := by simpa [upd, e] using hj
      exact h.owns j p b hj' hb
  · intro j k p q b hj hk hb hq
    by_cases ej : j = i
    · subst ej; simp [upd] at hj
    · by_cases ek : k = i
      · subst ek; simp [upd] at hk
      · have hj' : s.objs j = some p := by simpa [upd, ej] using hj
        have hk' : s.objs k = some q := by simpa [upd, ek] using hk
        exact h.distinct j k p q b hj' hk' hb hq
  · exact h.fresh
  · intro b c hb
    obtain ⟨j, p, hj, hp⟩ := h.owned b c hb
    have : j ≠ i := by
      intro ej; subst ej
      rw [hi] at hj; cases hj
      rw [ho] at hp; cases hp
    exact ⟨j, p, by simp [upd, this, hj], hp⟩
  · intro j hj
    by_cases e : j = i
    · simp [upd, e]
    · simpa [upd, e] using h.bound j hj

/-- one step from a state satisfying the invariant never faults and re-establishes the invariant -/
theorem step_ok (s : St) (op : Op) (h : Inv s) : ∃ s' ev, step s op = .ok (s', ev) ∧ Inv s' := by
  cases op with
  | get c => exact ⟨_, _, rfl, inv_adopt s c h⟩
  | make c => exact ⟨_, _, rfl, inv_adopt s c h⟩
  | copy i =>
    cases hi : s.objs i with
    | none => exact ⟨s, .skipped, by simp [step, hi], h⟩
    | some o =>
      cases ha : o.cs with
      | none => exact ⟨_, _, by simp [step, hi, ha]; first | rfl | exact ⟨rfl, rfl⟩ | done, by simpa using inv_value s o 0 ha h⟩
      | some a =>
        obtain ⟨hh, hinv⟩ := inv_adopt_copy s i o a h hi ha
        exact ⟨_, _, by simp [step, hi, ha, hh]; first | rfl | exact ⟨rfl, rfl⟩ | done, hinv⟩
  | destroy i =>
    cases hi : s.objs i with
    | none => exact ⟨s, .skipped, by simp [step, hi], h⟩
    | some o =>
      cases ha : o.cs with
      | none => exact ⟨_, _, by simp [step, hi, ha]; first | rfl | exact ⟨rfl, rfl⟩ | done, inv_destroy_value s i o h hi ha⟩
      | some a =>
        have hh := h.owns i o a hi ha
        exact ⟨_, _, by simp [step, hi, ha, hh]; first | rfl | exact ⟨rfl, rfl⟩ | done, inv_destroy_owner s i o a h hi ha⟩
  | call i =>
    cases hi : s.objs i with
    | none => exact ⟨s, .skipped, by simp [step, hi], h⟩
    | some o =>
      cases ha : o.cs with
      | none => exact ⟨s, _, by simp [step, hi, ha]; first | rfl | exact ⟨rfl, rfl⟩ | done, h⟩
      | some a =>
        have hh := h.owns i o a hi ha
        exact ⟨s, _, by simp [step, hi, ha, hh]; first | rfl | exact ⟨rfl, rfl⟩ | done, h⟩
  | pod c => exact ⟨_, _, rfl, inv_value s { fields := c, cs := none } 1 rfl h⟩
  | read i =>
    cases hi : s.objs i with
    | none => exact ⟨s, .skipped, by simp [step, hi], h⟩
    | some o => exact ⟨s, _, by simp [step, hi]; first | rfl | exact ⟨rfl, rfl⟩ | done, h⟩

theorem run_ok (ops : List Op) : ∀ s, Inv s → ∃ s' evs, run s ops = .ok (s', evs) ∧ Inv s' := by
  induction ops with
  | nil => intro s h; exact ⟨s, [], rfl, h⟩
  | cons op ops ih =>
    intro s h
    obtain ⟨s1, ev, h1, i1⟩ := step_ok s op h
    obtain ⟨s2, evs, h2, i2⟩ := ih s1 i1
    exact ⟨s2, ev :: evs, by simp [run, h1, h2], i2⟩

/-- a state reached from the initial one by some history -/
def Reachable (s : St) : Prop := ∃ ops evs, run St.init ops = .ok (s, evs)

theorem reachable_inv (s : St) (h : Reachable s) : Inv s := by
  obtain ⟨ops, evs, hr⟩ := h
  obtain ⟨s', evs', hr', hi⟩ := run_ok ops St.init inv_init
  rw [hr] at hr'
  cases hr'
  exact hi

/-- a method call on a live object returns the object's own field contents -/
theorem call_value (s : St) (i : Nat) (o : Obj) (h : Inv s) (hi : s.objs i = some o) :
    step s (.call i) = .ok (s, .value o.fields) := by
  cases ha : o.cs with
  | none => simp [step, hi, ha]
  | some a => simp [step, hi, ha, h.owns i o a hi ha]

/-- no operation other than its own destructor changes a live object -/
theorem obj_stable (s s' : St) (op : Op) (ev : Ev) (i : Nat) (o : Obj) (h : Inv s) (hi : s.objs i = some o)
    (hop : op ≠ .destroy i) (hs : step s op = .ok (s', ev)) : s'.objs i = some o := by
  have hlt : i < s.nobjs := by
    apply Classical.byContradiction
    intro hn
    have := h.bound i (by omega)
    rw [hi] at this; cases this
  have hne : i ≠ s.nobjs := by omega
  cases op with
  | get c => simp [step] at hs; obtain ⟨rfl, _⟩ := hs; simp [St.adopt, upd, hne, hi]
  | make c => simp [step] at hs; obtain ⟨rfl, _⟩ := hs; simp [St.adopt, upd, hne, hi]
  | copy j =>
    cases hj : s.objs j with
    | none => simp [step, hj] at hs; obtain ⟨rfl, _⟩ := hs; exact hi
    | some p =>
      cases ha : p.cs with
      | none => simp [step, hj, ha] at hs; obtain ⟨rfl, _⟩ := hs; simp [upd, hne, hi]
      | some a =>
        have hh := h.owns j p a hj ha
        simp [step, hj, ha, hh] at hs; obtain ⟨rfl, _⟩ := hs; simp [St.adopt, upd, hne, hi]
  | destroy j =>
    have hji : i ≠ j := by intro e; subst e; exact hop rfl
    cases hj : s.objs j with
    | none => simp [step, hj] at hs; obtain ⟨rfl, _⟩ := hs; exact hi
    | some p =>
      cases ha : p.cs with
      | none => simp [step, hj, ha] at hs; obtain ⟨rfl, _⟩ := hs; simp [upd, hji, hi]
      | some a =>
        have hh := h.owns j p a hj ha
        simp [step, hj, ha, hh] at hs; obtain ⟨rfl, _⟩ := hs; simp [upd, hji, hi]
  | call j =>
    cases hj : s.objs j with
    | none => simp [step, hj] at hs; obtain ⟨rfl, _⟩ := hs; exact hi
    | some p =>
      cases ha : p.cs with
      | none => simp [step, hj, ha] at hs; obtain ⟨rfl, _⟩ := hs; exact hi
      | some a =>
        have hh := h.owns j p a hj ha
        simp [step, hj, ha, hh] at hs; obtain ⟨rfl, _⟩ := hs; exact hi
  | pod c => simp [step] at hs; obtain ⟨rfl, _⟩ := hs; simp [upd, hne, hi]
  | read j =>
    cases hj : s.objs j with
    | none => simp [step, hj] at hs; obtain ⟨rfl, _⟩ := hs; exact hi
    | some p => simp [step, hj] at hs; obtain ⟨rfl, _⟩ := hs; exact hi

/-- the copy constructor creates object number `s.nobjs` with the value fields of its source -/
theorem copy_obj (s s1 : St) (ev : Ev) (i : Nat) (o : Obj) (h : Inv s) (hi : s.objs i = some o)
    (hs : step s (.copy i) = .ok (s1, ev)) : ev = .unit ∧ ∃ c', s1.objs s.nobjs = some { fields := o.fields, cs := c' } := by
  cases ha : o.cs with
  | none =>
    simp [step, hi, ha] at hs
    obtain ⟨rfl, rfl⟩ := hs
    refine ⟨rfl, none, ?_⟩
    cases o
    simp_all [upd]
  | some a =>
    have hh := h.owns i o a hi ha
    simp [step, hi, ha, hh] at hs
    obtain ⟨rfl, rfl⟩ := hs
    exact ⟨rfl, some s.next, by simp [St.adopt, upd]⟩

end XrlCpp.Own
