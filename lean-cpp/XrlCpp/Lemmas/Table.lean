import XrlCpp.Spec.Table
/-! Consequences of the Boolean table checks of `Spec/Table.lean`, as propositions (no property theorem lives here). -/
namespace XrlCpp.Spec
open XrlCpp

/-- what `concreteOk` says about the returned value, the error check and the forwarding -/
theorem concreteOk_ret (protos : List CProto) (w : Wrapper) (h : concreteOk protos w = true) :
    ∃ p, findProto protos w.callee = some p ∧ retOk w.kind p.ret p.params w.ret = true ∧
      (p.hasErr = true → w.checked = true) ∧ forwarded w.args = List.range w.params.length ∧
      argsOk w.params w.args p.params = true ∧ releaseOk p.ret w.release = true := by
  unfold concreteOk at h
  cases hp : findProto protos w.callee with
  | none => simp [hp] at h
  | some p =>
    simp only [hp, Bool.and_eq_true, beq_iff_eq, Bool.or_eq_true, Bool.not_eq_eq_eq_not, Bool.not_true] at h
    obtain ⟨⟨⟨⟨⟨_, ha⟩, hf⟩, hc⟩, hr⟩, hret⟩ := h
    refine ⟨p, rfl, hret, ?_, hf, ha, hr⟩
    intro he
    rcases hc with hc | hc
    · rw [he] at hc; cases hc
    · exact hc

/-- every callable kind of entry goes through `concreteOk` -/
theorem wrapperOk_concrete (protos : List CProto) (ws : List Wrapper) (d : String) (w : Wrapper)
    (h : wrapperOk protos ws d w = true)
    (hk : w.kind = .inst ∨ w.kind = .plain ∨ w.kind = .method ∨ (w.kind = .ctor ∧ w.callee = "Crystal_MakeCopy")) :
    concreteOk protos w = true := by
  unfold wrapperOk at h
  rcases hk with hk | hk | hk | ⟨hk, hc⟩
  · simp only [hk, Bool.and_eq_true] at h; exact h.1
  · simpa only [hk] using h
  · simpa only [hk] using h
  · have h1 : (w.callee == "") = false := by rw [hc]; decide
    have h2 : (w.callee == "xrl_malloc") = false := by rw [hc]; decide
    simp only [hk, h1, h2, Bool.false_eq_true, if_false, Bool.and_eq_true] at h
    exact h.1

end XrlCpp.Spec
