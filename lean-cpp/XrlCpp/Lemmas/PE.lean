import XrlCpp.Hand.Cpp
/-! Helper lemmas about `_process_error` descriptions (no property theorem lives here). -/
namespace XrlCpp

/-- decidable sufficient condition for `PE.Conforms`: the labels 0 and 1 select the right classes, every other label
    and the default select `runtime_error` with the message -/
def PE.conformsB (pe : PE) : Bool :=
  pe.select XRL_ERROR_MEMORY == (.badAlloc, false) &&
  pe.select XRL_ERROR_INVALID_ARGUMENT == (.invalidArgument, true) &&
  pe.cases.all (fun c => c.1 == 0 || c.1 == 1 || c.2 == (ExnKind.runtimeError, true)) &&
  pe.dflt == (.runtimeError, true)

theorem find_other (cases : List (ErrCode × ExnKind × Bool)) (code : ErrCode)
    (h : cases.all (fun c => c.1 == 0 || c.1 == 1 || c.2 == (ExnKind.runtimeError, true)) = true)
    (h0 : code ≠ 0) (h1 : code ≠ 1) :
    ∀ c, cases.find? (fun c => c.1 == code) = some c → c.2 = (ExnKind.runtimeError, true) := by
  intro c hc
  have hm := List.mem_of_find?_eq_some hc
  have hp := List.find?_some hc
  have := List.all_eq_true.mp h c hm
  simp at hp
  simp at this
  rcases this with h' | h'
  · rcases h' with h' | h'
    · exact absurd (hp ▸ h') h0
    · exact absurd (hp ▸ h') h1
  · exact h'

theorem PE.conformsB_sound (pe : PE) (h : pe.conformsB = true) : pe.Conforms := by
  unfold PE.conformsB at h
  simp only [Bool.and_eq_true, beq_iff_eq] at h
  obtain ⟨⟨⟨hm, hi⟩, hall⟩, hd⟩ := h
  intro e
  unfold PE.exn specExn specKind
  by_cases c1 : e.code = XRL_ERROR_INVALID_ARGUMENT
  · simp [c1, hi]
  · by_cases c0 : e.code = XRL_ERROR_MEMORY
    · have : XRL_ERROR_MEMORY ≠ XRL_ERROR_INVALID_ARGUMENT := by decide
      simp [c0, hm, this]
    · have hsel : pe.select e.code = (ExnKind.runtimeError, true) := by
        unfold PE.select
        cases hf : pe.cases.find? (fun c => c.1 == e.code) with
        | none => simpa using hd
        | some c => simpa using find_other pe.cases e.code hall c0 c1 c hf
      simp [c0, c1, hsel]

end XrlCpp
