import XrlCpp.Hand.Cpp
import XrlCpp.Hand.Struct
import XrlCpp.Spec.Table
import XrlCpp.Lemmas.PE
import XrlCpp.Lemmas.Own
import XrlCpp.Gen.Tables
/-!
# Property C18 — the C++ wrappers return what C returns and throw exactly when C reports an error

Only property theorems (and the non-vacuity examples that go with them) live in this file.
`Gen.pe`, `Gen.cProtos`, `Gen.wrappers` are re-extracted from the working tree on every run.
-/
namespace XrlCpp.C18
open XrlCpp XrlCpp.Spec

/-! ## 1. The protocol: value iff success, the right exception iff error -/

/-- **wrap_spec.**  For every `_process_error` that conforms, every conversion, every C behaviour `f` and every
    argument: the wrapper returns (the conversion of) C's value iff C left the error slot empty, and throws iff C set
    an error — then `invalid_argument` for XRL_ERROR_INVALID_ARGUMENT, `bad_alloc` for XRL_ERROR_MEMORY,
    `runtime_error` for every other code, with C's message (except `bad_alloc`, which cannot carry one). -/
theorem wrap_spec {A V W : Type} (pe : PE) (hpe : pe.Conforms) (cv : Conv V W) (f : CFun A V) (a : A) :
    ((f a).slot = .empty ↔ (wrap pe cv f a).out = .ok (cv.conv (f a).val)) ∧
    ((∃ e, (f a).slot = .full e) ↔ (∃ x, (wrap pe cv f a).out = .error x)) ∧
    (∀ e, (f a).slot = .full e → (wrap pe cv f a).out = .error (specExn e)) := by
  unfold wrap
  cases h : (f a).slot with
  | empty => simp [h]
  | full e => simp [h, hpe e]

/-- **process_error_conforms.**  The `_process_error` extracted from the working tree maps every error code as the
    property asks (decided on the extracted description, extended to all codes by `PE.conformsB_sound`). -/
theorem process_error_conforms : Gen.pe.Conforms :=
  PE.conformsB_sound Gen.pe (by decide)

/-- the two theorems combined: what every extracted wrapper does, given that it follows the protocol -/
theorem wrap_spec_extracted {A V W : Type} (cv : Conv V W) (f : CFun A V) (a : A) :
    ((f a).slot = .empty ↔ (wrap Gen.pe cv f a).out = .ok (cv.conv (f a).val)) ∧
    ((∃ e, (f a).slot = .full e) ↔ (∃ x, (wrap Gen.pe cv f a).out = .error x)) ∧
    (∀ e, (f a).slot = .full e → (wrap Gen.pe cv f a).out = .error (specExn e)) :=
  wrap_spec Gen.pe process_error_conforms cv f a

/-- non-vacuity: a failing `AtomicWeight(0)`-like call throws `invalid_argument("Z out of range")`,
    a succeeding one returns its value -/
example : (wrapScalar headerPE (fun (_ : Int) => CRes.mk (0 : Int) (.full (CErr.mk XRL_ERROR_INVALID_ARGUMENT "Z out of range")) 0 0) 0).out
    = .error (Exn.mk .invalidArgument (some "Z out of range")) := rfl
example : (wrapScalar headerPE (fun (Z : Nat) => CRes.mk (Z + 1) .empty 0 0) 25).out = .ok 26 := rfl
example : headerPE.Conforms := PE.conformsB_sound headerPE (by decide)

/-! ## 2. The finite wrapper table -/

/-- **wrapper_table_complete.**  Over the tables extracted from `include/*.h` and `cplusplus/xraylib++.h`:
    every public C function of the wrapped families (it reports errors through an `xrl_error **` and is not excluded
    by design) has a callable wrapper; every wrapper entry forwards to the C function of its own name with the same
    arity, each wrapper parameter exactly once and in order with agreeing types, checks the error right after the
    call and releases the result with the release function of its type; every `_XRL_FUNCTION` pattern has its
    instantiation. -/
theorem wrapper_table_complete :
    (∀ p ∈ Gen.cProtos, needsWrapper p = true → hasWrapper Gen.wrappers p = true) ∧
    (∀ w ∈ Gen.wrappers, wrapperOk Gen.cProtos Gen.wrappers Gen.structDtorRelease w = true) := by
  constructor <;> decide +kernel

/-- non-vacuity: the table is not empty and contains wrappers of every kind -/
example : Gen.cProtos.length ≥ 100 ∧ (Gen.wrappers.filter (fun w => w.kind == .inst)).length ≥ 90 ∧
    Gen.wrappers.any (fun w => w.kind == .method) = true ∧ Gen.wrappers.any (fun w => w.kind == .ctor) = true := by decide +kernel

/-! ## 3. Leaks -/

/-- the full statement: neither path leaves a block of its own — after the call only what C itself keeps is live -/
def wrap_no_leak_full (pe : PE) : Prop :=
  ∀ (A V W : Type) (cv : Conv V W) (f : CFun A V) (a : A),
    cv.releases = true → (f a).Clean → (wrap pe cv f a).live = (f a).kept

/-- **wrap_no_leak_full_fails.**  With `_process_error` as the header has it, the full statement is false:
    the witness is any failing call (here the behaviour of `AtomicWeight(0)`) — the error object stays live. -/
theorem wrap_no_leak_full_fails : ¬ wrap_no_leak_full headerPE := by
  intro h
  have := h Int Int Int (Conv.id Int)
    (fun _ => CRes.mk 0 (.full (CErr.mk XRL_ERROR_INVALID_ARGUMENT "Z out of range")) 0 0) 0 rfl
    (by intro e _; rfl)
  revert this
  decide

/-- **wrap_no_leak_partial.**  For every `_process_error` description: the success path leaves nothing of its own,
    and the failure path leaves exactly the error object (two blocks) unless `_process_error` releases it. -/
theorem wrap_no_leak_partial {A V W : Type} (pe : PE) (cv : Conv V W) (f : CFun A V) (a : A)
    (hrel : cv.releases = true) (hclean : (f a).Clean) :
    ((f a).slot = .empty → (wrap pe cv f a).live = (f a).kept) ∧
    (∀ e, (f a).slot = .full e → (wrap pe cv f a).live = (f a).kept + (if pe.frees then 0 else errBlocks)) := by
  unfold wrap
  cases h : (f a).slot with
  | empty => simp [h, hrel]
  | full e => simp [h, hclean e h]

/-- **wrap_no_leak_fixed.**  Releasing the error before throwing (notes/proposed_fixes/C18-1.diff) gives the full statement. -/
theorem wrap_no_leak_fixed (pe : PE) (hf : pe.frees = true) : wrap_no_leak_full pe := by
  intro A V W cv f a hrel hclean
  have := wrap_no_leak_partial pe cv f a hrel hclean
  cases h : (f a).slot with
  | empty => exact this.1 h
  | full e => simpa [hf] using this.2 e h

/-- **extracted_pe_known.**  The `_process_error` of the working tree is the one read by hand, or that one with the
    error released; so the leak statement about the working tree is settled either way by the two theorems above. -/
theorem extracted_pe_known : Gen.pe = headerPE ∨ Gen.pe = fixedPE := by decide

theorem wrap_no_leak_extracted :
    (Gen.pe.frees = false → ¬ wrap_no_leak_full Gen.pe) ∧ (Gen.pe.frees = true → wrap_no_leak_full Gen.pe) := by
  refine ⟨?_, wrap_no_leak_fixed Gen.pe⟩
  intro hf
  rcases extracted_pe_known with h | h
  · rw [h]; exact wrap_no_leak_full_fails
  · have : Gen.pe.frees = true := by rw [h]; rfl
    rw [this] at hf; cases hf

/-- non-vacuity of the hypotheses of `wrap_no_leak_partial`: a POD-returning call (3 blocks) that succeeds -/
example : (wrap headerPE (Conv.mk (fun (n : Nat) => n) true) (fun (_ : String) => CRes.mk 7 .empty 3 0) "H2O").live = 0 := rfl

/-! ## 4. Wrapper objects stay valid after the C originals are released -/
open XrlCpp.Own

/-- **struct_no_fault.**  No history of constructions (from the catalogue, from fields, by copy, from a POD),
    destructions, method calls and member reads — in any order, on any objects — runs into a use-after-free or a
    double free, and the heap then holds exactly the C objects owned by live wrapper objects. -/
theorem struct_no_fault (ops : List Op) :
    ∃ s evs, run St.init ops = .ok (s, evs) ∧
      (∀ a c, s.heap a = some c → ∃ i o, s.objs i = some o ∧ o.cs = some a) := by
  obtain ⟨s, evs, hr, hi⟩ := run_ok ops St.init inv_init
  exact ⟨s, evs, hr, hi.owned⟩

/-- **struct_copy_independent.**  In any reachable state, take a live object `i` (a `Crystal::Struct` or one of the
    value classes): copy it, destroy the original, and call a method on the copy — nothing faults and the copy
    still answers from the contents of the original. -/
theorem struct_copy_independent (s : St) (hs : Reachable s) (i : Nat) (o : Obj) (hi : s.objs i = some o) :
    ∃ s1 s2, step s (.copy i) = .ok (s1, .unit) ∧ step s1 (.destroy i) = .ok (s2, .unit) ∧
      step s2 (.call s.nobjs) = .ok (s2, .value o.fields) := by
  have h := reachable_inv s hs
  have hlt : i < s.nobjs := by
    apply Classical.byContradiction
    intro hn
    have := h.bound i (by omega)
    rw [hi] at this; cases this
  have hne : i ≠ s.nobjs := by omega
  obtain ⟨s1, ev1, h1, i1⟩ := step_ok s (.copy i) h
  obtain ⟨hev, cs', hc⟩ := copy_obj s s1 ev1 i o h hi h1
  subst hev
  have hi1 : s1.objs i = some o := obj_stable s s1 (.copy i) _ i o h hi (by simp) h1
  obtain ⟨s2, ev2, h2, i2⟩ := step_ok s1 (.destroy i) i1
  have hev2 : ev2 = .unit := by
    cases ha : o.cs with
    | none => simp [step, hi1, ha] at h2; exact h2.2.symm
    | some a =>
      have hh := i1.owns i o a hi1 ha
      simp [step, hi1, ha, hh] at h2; exact h2.2.symm
  subst hev2
  have hc2 : s2.objs s.nobjs = some { fields := o.fields, cs := cs' } :=
    obj_stable s1 s2 (.destroy i) _ s.nobjs _ i1 hc (by simp; omega) h2
  exact ⟨s1, s2, h1, h2, call_value s2 s.nobjs { fields := o.fields, cs := cs' } i2 hc2⟩

/-- **struct_released_when_destroyed.**  Once every wrapper object of a reachable state is destroyed, no C object
    is live: the wrapper objects own their C objects and release them exactly once. -/
theorem struct_released_when_destroyed (s : St) (hs : Reachable s) (hnone : ∀ i, s.objs i = none) :
    ∀ a, s.heap a = none := by
  intro a
  have h := reachable_inv s hs
  cases hh : s.heap a with
  | none => rfl
  | some c =>
    obtain ⟨i, o, hi, _⟩ := h.owned a c hh
    rw [hnone i] at hi; cases hi

/-- non-vacuity: `GetCrystal`, copy, destroy the original, call the copy, then a parsed compound read after its POD is gone -/
example : (run St.init [.get 5, .copy 0, .destroy 0, .call 1, .pod 9, .read 2]).toOption.map (·.2)
    = some [.unit, .unit, .unit, .value 5, .unit, .value 9] := by decide
example : Reachable (St.init.adopt 5 5) := ⟨[.get 5], [.unit], rfl⟩

end XrlCpp.C18
