import XrlCpp.Hand.Cpp
import XrlCpp.Hand.Struct
import XrlCpp.Spec.Table
import XrlCpp.Lemmas.PE
import XrlCpp.Lemmas.Own
import XrlCpp.Lemmas.Table
import XrlCpp.Lemmas.Value
import XrlCpp.Gen.Tables
/-!
# Property C18 — the C++ wrappers return what C returns and throw exactly when C reports an error

Only property theorems (and the non-vacuity examples that go with them) live in this file.
`Gen.pe`, `Gen.cProtos`, `Gen.wrappers` are re-extracted from the working tree on every run.
-/
namespace XrlCpp.C18
open XrlCpp XrlCpp.Spec

/-! ## 1. The protocol: value iff success, the right exception iff error -/

/-- **wrap_spec.**  For every `_process_error` that conforms, every conversion, every C behaviour `f` and every
    argument: the wrapper returns (the conversion of) C's value iff C left the error slot empty, and throws iff C set
    an error — then `invalid_argument` for XRL_ERROR_INVALID_ARGUMENT, `bad_alloc` for XRL_ERROR_MEMORY,
    `runtime_error` for every other code, with C's message (except `bad_alloc`, which cannot carry one). -/
theorem wrap_spec {A V W : Type} (pe : PE) (hpe : pe.Conforms) (cv : Conv V W) (f : CFun A V) (a : A) :
    ((f a).slot = .empty ↔ (wrap pe cv f a).out = .ok (cv.conv (f a).val)) ∧
    ((∃ e, (f a).slot = .full e) ↔ (∃ x, (wrap pe cv f a).out = .error x)) ∧
    (∀ e, (f a).slot = .full e → (wrap pe cv f a).out = .error (specExn e)) := by
  unfold wrap
  cases h : (f a).slot with
  | empty => simp [h]
  | full e => simp [h, hpe e]

/-- **process_error_conforms.**  The `_process_error` extracted from the working tree maps every error code as the
    property asks (decided on the extracted description, extended to all codes by `PE.conformsB_sound`). -/
theorem process_error_conforms : Gen.pe.Conforms :=
  PE.conformsB_sound Gen.pe (by decide)

/-- **error_enum_as_modelled.**  The enumerators of `xrl_error_code` extracted from include/xraylib-error.h are the six
    the model names, with the values the model gives them. -/
theorem error_enum_as_modelled :
    Gen.errorCodes = [("XRL_ERROR_MEMORY", XRL_ERROR_MEMORY), ("XRL_ERROR_INVALID_ARGUMENT", XRL_ERROR_INVALID_ARGUMENT),
      ("XRL_ERROR_IO", XRL_ERROR_IO), ("XRL_ERROR_TYPE", XRL_ERROR_TYPE), ("XRL_ERROR_UNSUPPORTED", XRL_ERROR_UNSUPPORTED),
      ("XRL_ERROR_RUNTIME", XRL_ERROR_RUNTIME)] := by decide

/-- **process_error_every_code.**  For every enumerator the C library can put into an error object, by *name*, and
    every message: the extracted `_process_error` throws `std::bad_alloc` (no message) for XRL_ERROR_MEMORY,
    `std::invalid_argument(message)` for XRL_ERROR_INVALID_ARGUMENT and `std::runtime_error(message)` for
    XRL_ERROR_IO, _TYPE, _UNSUPPORTED and _RUNTIME. -/
theorem process_error_every_code :
    ∀ c ∈ Gen.errorCodes, ∀ msg : String,
      Gen.pe.exn ⟨c.2, msg⟩ = ⟨(specByName c.1).1, if (specByName c.1).2 then some msg else none⟩ := by
  intro c hc msg
  have h : Gen.pe.select c.2 = specByName c.1 :=
    (by decide : ∀ c ∈ Gen.errorCodes, Gen.pe.select c.2 = specByName c.1) c hc
  simp [PE.exn, h]

/-- non-vacuity: six enumerators, and the three classes all occur -/
example : Gen.errorCodes.length = 6 ∧ (Gen.errorCodes.map (fun c => (specByName c.1).1)).eraseDups.length = 3 := by decide

/-- the two theorems combined: what every extracted wrapper does, given that it follows the protocol -/
theorem wrap_spec_extracted {A V W : Type} (cv : Conv V W) (f : CFun A V) (a : A) :
    ((f a).slot = .empty ↔ (wrap Gen.pe cv f a).out = .ok (cv.conv (f a).val)) ∧
    ((∃ e, (f a).slot = .full e) ↔ (∃ x, (wrap Gen.pe cv f a).out = .error x)) ∧
    (∀ e, (f a).slot = .full e → (wrap Gen.pe cv f a).out = .error (specExn e)) :=
  wrap_spec Gen.pe process_error_conforms cv f a

/-- non-vacuity: a failing `AtomicWeight(0)`-like call throws `invalid_argument("Z out of range")`,
    a succeeding one returns its value -/
example : (wrapScalar headerPE (fun (_ : Int) => CRes.mk (0 : Int) (.full (CErr.mk XRL_ERROR_INVALID_ARGUMENT "Z out of range")) 0 0) 0).out
    = .error (Exn.mk .invalidArgument (some "Z out of range")) := rfl
example : (wrapScalar headerPE (fun (Z : Nat) => CRes.mk (Z + 1) .empty 0 0) 25).out = .ok 26 := rfl
example : headerPE.Conforms := PE.conformsB_sound headerPE (by decide)

/-! ## 2. The finite wrapper table -/

/-- **wrapper_table_complete.**  Over the tables extracted from `include/*.h` and `cplusplus/xraylib++.h`:
    every public C function of the wrapped families (it reports errors through an `xrl_error **` and is not excluded
    by design) has a callable wrapper; every wrapper entry forwards to the C function of its own name with the same
    arity, each wrapper parameter exactly once and in order with agreeing types, checks the error right after the
    call and releases the result with the release function of its type; every `_XRL_FUNCTION` pattern has its
    instantiation. -/
theorem wrapper_table_complete :
    (∀ p ∈ Gen.cProtos, needsWrapper p = true → hasWrapper Gen.wrappers p = true) ∧
    (∀ w ∈ Gen.wrappers, wrapperOk Gen.cProtos Gen.wrappers Gen.structDtorRelease w = true) := by
  constructor <;> decide +kernel

/-- **wrapper_returns_c_result.**  The part of the table check that the first clause of the property is about, on its
    own: every callable entry of the extracted table (template instantiation, free function, method, copy
    constructor) hands back the term `retOk` asks for the return type of its C function — the C result itself
    for `double`/`int`, `std::complex<double>(rv.re, rv.im)`, `std::string(rv)`, the `n` strings `list[0..n-1]` in
    order, an object of the class of the C struct built from the C result — and, when the C function can report an
    error, calls `_process_error(error)` as the statement right after the call, i.e. before the result is used. -/
theorem wrapper_returns_c_result :
    ∀ w ∈ Gen.wrappers, (w.kind = .inst ∨ w.kind = .plain ∨ w.kind = .method ∨ (w.kind = .ctor ∧ w.callee = "Crystal_MakeCopy")) →
      ∃ p, findProto Gen.cProtos w.callee = some p ∧ retOk w.kind p.ret p.params w.ret = true ∧
        (p.hasErr = true → w.checked = true) ∧ forwarded w.args = List.range w.params.length := by
  intro w hw hk
  obtain ⟨p, h1, h2, h3, h4, _⟩ := concreteOk_ret Gen.cProtos w
    (wrapperOk_concrete Gen.cProtos Gen.wrappers Gen.structDtorRelease w (wrapper_table_complete.2 w hw) hk)
  exact ⟨p, h1, h2, h3, h4⟩

/-- **field_maps_complete.**  "An object with the same field contents", over the member-initialiser lists extracted
    from the header and the struct declarations extracted from `include/*.h`: each of the five C structs has its
    class with a converting constructor; in it every C field initialises the member of its own name with its own
    contents (arrays: the first `count` elements in order, `count` being the field the C header documents), the
    class has no other data member, every member is initialised once.  The copy constructor of `Crystal::Struct`
    copies every member from the member of the same name; the public constructor builds the C struct field by
    field from the values it stores in the members (atoms element by element, field by field). -/
theorem field_maps_complete :
    (∀ cp ∈ classPod, ∃ m ∈ Gen.classMaps, m.cls = cp.1 ∧ m.src = cp.2) ∧
    (∀ m ∈ Gen.classMaps, classMapOk Gen.cStructs Gen.classMembers Gen.ownCtors m = true) ∧
    atomVectorOk Gen.helpers = true := by
  refine ⟨?_, ?_, ?_⟩ <;> decide +kernel

/-! ### What the extracted return terms mean

`evalRet` (Hand/Value.lean) reads a return term as a function from what the C call produced (`COut`: the returned
value, and what it stored through its output arguments) to the value the wrapper hands back; converting constructors
are read through the extracted member-initialiser lists.  `SameValue` / `SameContents` (Spec/Value.lean) is the first
clause of the property; `OutFits` says that the C result is well formed for its declared type (every field present,
every array as long as its count field says — the C side's obligation). -/

/-- **value_tables_ok.**  The extracted class maps, as the evaluator consults them: every C struct's class has a
    converting constructor that passes `podMapOk`, and `Atom`'s reads every field of `Crystal_Atom` into the member
    of the same name. -/
theorem value_tables_ok :
    mapsOk Gen.cStructs Gen.classMembers Gen.classMaps = true ∧ atomsOk Gen.cStructs Gen.classMaps = true := by
  constructor <;> decide +kernel

/-- **wrapper_value_same_as_c.**  For every callable entry of the extracted table, with `p` the prototype of its C
    function, and every well-formed C result `o`: the value the entry's return term evaluates to is the same value
    as C's — equal for `double`, `int`, `char *` (as `std::string`) and string lists (as `std::vector<std::string>`),
    `std::complex(re, im)` of the `xrlComplex {re, im}`, and for struct pointers an object whose member of the name of
    each C field holds that field's contents (the atom array: as many atoms, each with every `Crystal_Atom` field
    unchanged). -/
theorem wrapper_value_same_as_c :
    ∀ w ∈ Gen.wrappers, (w.kind = .inst ∨ w.kind = .plain ∨ w.kind = .method ∨ (w.kind = .ctor ∧ w.callee = "Crystal_MakeCopy")) →
      ∀ p, findProto Gen.cProtos w.callee = some p → ∀ o : COut, OutFits Gen.cStructs p.ret p.params o →
        SameValue Gen.cStructs (atomInits Gen.classMaps) w.kind p.ret o (evalRet Gen.classMaps o w.ret) := by
  intro w hw hk p hp o ho
  obtain ⟨p', hp', hret, _, _⟩ := wrapper_returns_c_result w hw hk
  rw [hp] at hp'
  cases hp'
  exact ret_same_value Gen.cStructs Gen.classMembers Gen.classMaps value_tables_ok.1 value_tables_ok.2
    w.kind p.ret p.params w.ret hret o ho

/-- **wrap_spec_table.**  The first two clauses of the property about the extracted table itself, the conversion being
    the entry's own return term and the error check the entry's own `checked` flag (`wrapEntry`): for every callable
    entry whose C function can report an error, every C behaviour `f` and every argument — if C leaves the error
    slot empty (and its result is well formed) the wrapper returns a value that is the same as C's; if C sets an
    error `e` the wrapper throws `specExn e` (class by code, C's message); and it throws only then. -/
theorem wrap_spec_table {A : Type} :
    ∀ w ∈ Gen.wrappers, (w.kind = .inst ∨ w.kind = .plain ∨ w.kind = .method ∨ (w.kind = .ctor ∧ w.callee = "Crystal_MakeCopy")) →
      ∀ p, findProto Gen.cProtos w.callee = some p → p.hasErr = true → ∀ (f : CFun A COut) (a : A),
        ((f a).slot = .empty → OutFits Gen.cStructs p.ret p.params (f a).val →
          ∃ v, (wrapEntry Gen.pe w ⟨fun o => evalRet Gen.classMaps o w.ret, true⟩ f a).out = .ok v ∧
            SameValue Gen.cStructs (atomInits Gen.classMaps) w.kind p.ret (f a).val v) ∧
        (∀ e, (f a).slot = .full e →
          (wrapEntry Gen.pe w ⟨fun o => evalRet Gen.classMaps o w.ret, true⟩ f a).out = .error (specExn e)) ∧
        ((∃ x, (wrapEntry Gen.pe w ⟨fun o => evalRet Gen.classMaps o w.ret, true⟩ f a).out = .error x) ↔
          ∃ e, (f a).slot = .full e) := by
  intro w hw hk p hp he f a
  obtain ⟨p', hp', _, hchk, _⟩ := wrapper_returns_c_result w hw hk
  rw [hp] at hp'
  cases hp'
  have hc : w.checked = true := hchk he
  have hs := wrap_spec_extracted ⟨fun o => evalRet Gen.classMaps o w.ret, true⟩ f a
  simp only [wrapEntry, hc, if_true]
  refine ⟨fun h0 hfit => ⟨_, hs.1.mp h0, wrapper_value_same_as_c w hw hk p hp (f a).val hfit⟩, hs.2.2, hs.2.1.symm⟩

/-- non-vacuity of `OutFits` and of the evaluation: a parsed compound (2 elements) converted through the extracted
    `compoundData` constructor, and an `xrlComplex` -/
example : structFits Gen.cStructs ⟨"compoundData", [("nElements", .scalar), ("Elements", .array), ("molarMass", .scalar)]⟩
    [("nElements", .num 2), ("Elements", .nums [1, 8]), ("molarMass", .num 18)] = true := by decide +kernel
example : evalRet Gen.classMaps ⟨.obj [("nElements", .num 2), ("nAtomsAll", .num 3), ("Elements", .nums [1, 8]),
      ("massFractions", .nums [11, 89]), ("nAtoms", .nums [2, 1]), ("molarMass", .num 18)], fun _ => 0⟩ (.object "compoundData" .res)
    = .obj [("nElements", .num 2), ("Elements", .nums [1, 8]), ("massFractions", .nums [11, 89]), ("nAtomsAll", .num 3),
      ("nAtoms", .nums [2, 1]), ("molarMass", .num 18)] := by decide +kernel
example : evalRet Gen.classMaps ⟨.obj [("re", .num 3), ("im", .num 4)], fun _ => 0⟩ (.complex (.field .res "re") (.field .res "im"))
    = .cplx 3 4 := by decide +kernel
example : OutFits Gen.cStructs .cplx [] ⟨.obj [("re", .num 3), ("im", .num 4)], fun _ => 0⟩ := ⟨3, 4, rfl⟩
/-- non-vacuity of the premises of `wrapper_value_same_as_c` / `wrap_spec_table`: the table has callable entries of every
    return type the property speaks about, each with its prototype, and those can report errors -/
example : [Ty.double, .int, .cplx, .cstr, .strlist, .cd, .cdn, .rnd, .cs].all (fun t =>
    Gen.wrappers.any (fun w => (w.kind == .plain || w.kind == .inst || w.kind == .method) &&
      (match findProto Gen.cProtos w.callee with | some p => p.ret == t && p.hasErr | none => false))) = true := by decide +kernel

/-- non-vacuity: the tables the two theorems range over are inhabited as expected -/
example : Gen.classMaps.length ≥ 7 ∧ Gen.cStructs.length = 6 ∧ Gen.ownCtors.length = 1 ∧
    (Gen.wrappers.filter (fun w => w.ret != .res && w.ret != .none)).length ≥ 14 := by decide +kernel

/-- non-vacuity: the table is not empty and contains wrappers of every kind -/
example : Gen.cProtos.length ≥ 100 ∧ (Gen.wrappers.filter (fun w => w.kind == .inst)).length ≥ 90 ∧
    Gen.wrappers.any (fun w => w.kind == .method) = true ∧ Gen.wrappers.any (fun w => w.kind == .ctor) = true := by decide +kernel

/-! ## 3. Leaks -/

/-- the full statement: neither path leaves a block of its own — after the call only what C itself keeps is live -/
def wrap_no_leak_full (pe : PE) : Prop :=
  ∀ (A V W : Type) (cv : Conv V W) (f : CFun A V) (a : A),
    cv.releases = true → (f a).Clean → (wrap pe cv f a).live = (f a).kept

/-- **wrap_no_leak_full_fails.**  With `_process_error` as the header has it, the full statement is false:
    the witness is any failing call (here the behaviour of `AtomicWeight(0)`) — the error object stays live. -/
theorem wrap_no_leak_full_fails : ¬ wrap_no_leak_full headerPE := by
  intro h
  have := h Int Int Int (Conv.id Int)
    (fun _ => CRes.mk 0 (.full (CErr.mk XRL_ERROR_INVALID_ARGUMENT "Z out of range")) 0 0) 0 rfl
    (by intro e _; rfl)
  revert this
  decide

/-- **wrap_no_leak_partial.**  For every `_process_error` description: the success path leaves nothing of its own,
    and the failure path leaves exactly the error object (two blocks) unless `_process_error` releases it. -/
theorem wrap_no_leak_partial {A V W : Type} (pe : PE) (cv : Conv V W) (f : CFun A V) (a : A)
    (hrel : cv.releases = true) (hclean : (f a).Clean) :
    ((f a).slot = .empty → (wrap pe cv f a).live = (f a).kept) ∧
    (∀ e, (f a).slot = .full e → (wrap pe cv f a).live = (f a).kept + (if pe.frees then 0 else errBlocks)) := by
  unfold wrap
  cases h : (f a).slot with
  | empty => simp [h, hrel]
  | full e => simp [h, hclean e h]

/-- **wrap_no_leak_fixed.**  Releasing the error before throwing (notes/proposed_fixes/C18-1.diff) gives the full statement. -/
theorem wrap_no_leak_fixed (pe : PE) (hf : pe.frees = true) : wrap_no_leak_full pe := by
  intro A V W cv f a hrel hclean
  have := wrap_no_leak_partial pe cv f a hrel hclean
  cases h : (f a).slot with
  | empty => exact this.1 h
  | full e => simpa [hf] using this.2 e h

/-- **extracted_pe_known.**  The `_process_error` of the working tree is the one read by hand, or that one with the
    error released; so the leak statement about the working tree is settled either way by the two theorems above. -/
theorem extracted_pe_known : Gen.pe = headerPE ∨ Gen.pe = fixedPE := by decide

theorem wrap_no_leak_extracted :
    (Gen.pe.frees = false → ¬ wrap_no_leak_full Gen.pe) ∧ (Gen.pe.frees = true → wrap_no_leak_full Gen.pe) := by
  refine ⟨?_, wrap_no_leak_fixed Gen.pe⟩
  intro hf
  rcases extracted_pe_known with h | h
  · rw [h]; exact wrap_no_leak_full_fails
  · have : Gen.pe.frees = true := by rw [h]; rfl
    rw [this] at hf; cases hf

/-- non-vacuity of the hypotheses of `wrap_no_leak_partial`: a POD-returning call (3 blocks) that succeeds -/
example : (wrap headerPE (Conv.mk (fun (n : Nat) => n) true) (fun (_ : String) => CRes.mk 7 .empty 3 0) "H2O").live = 0 := rfl

/-! ## 4. Wrapper objects stay valid after the C originals are released -/
open XrlCpp.Own

/-- **struct_no_fault.**  No history of constructions (from the catalogue, from fields, by copy, from a POD),
    destructions, method calls and member reads — in any order, on any objects — runs into a use-after-free or a
    double free, and the heap then holds exactly the C objects owned by live wrapper objects. -/
theorem struct_no_fault (ops : List Op) :
    ∃ s evs, run St.init ops = .ok (s, evs) ∧
      (∀ a c, s.heap a = some c → ∃ i o, s.objs i = some o ∧ o.cs = some a) := by
  obtain ⟨s, evs, hr, hi⟩ := run_ok ops St.init inv_init
  exact ⟨s, evs, hr, hi.owned⟩

/-- **struct_copy_independent.**  In any reachable state, take a live object `i` (a `Crystal::Struct` or one of the
    value classes): copy it, destroy the original, and call a method on the copy — nothing faults and the copy
    still answers from the contents of the original. -/
theorem struct_copy_independent (s : St) (hs : Reachable s) (i : Nat) (o : Obj) (hi : s.objs i = some o) :
    ∃ s1 s2, step s (.copy i) = .ok (s1, .unit) ∧ step s1 (.destroy i) = .ok (s2, .unit) ∧
      step s2 (.call s.nobjs) = .ok (s2, .value o.fields) := by
  have h := reachable_inv s hs
  have hlt : i < s.nobjs := by
    apply Classical.byContradiction
    intro hn
    have := h.bound i (by omega)
    rw [hi] at this; cases this
  have hne : i ≠ s.nobjs := by omega
  obtain ⟨s1, ev1, h1, i1⟩ := step_ok s (.copy i) h
  obtain ⟨hev, cs', hc⟩ := copy_obj s s1 ev1 i o h hi h1
  subst hev
  have hi1 : s1.objs i = some o := obj_stable s s1 (.copy i) _ i o h hi (by simp) h1
  obtain ⟨s2, ev2, h2, i2⟩ := step_ok s1 (.destroy i) i1
  have hev2 : ev2 = .unit := by
    cases ha : o.cs with
    | none => simp [step, hi1, ha] at h2; exact h2.2.symm
    | some a =>
      have hh := i1.owns i o a hi1 ha
      simp [step, hi1, ha, hh] at h2; exact h2.2.symm
  subst hev2
  have hc2 : s2.objs s.nobjs = some { fields := o.fields, cs := cs' } :=
    obj_stable s1 s2 (.destroy i) _ s.nobjs _ i1 hc (by simp; omega) h2
  exact ⟨s1, s2, h1, h2, call_value s2 s.nobjs { fields := o.fields, cs := cs' } i2 hc2⟩

/-- **struct_released_when_destroyed.**  Once every wrapper object of a reachable state is destroyed, no C object
    is live: the wrapper objects own their C objects and release them exactly once. -/
theorem struct_released_when_destroyed (s : St) (hs : Reachable s) (hnone : ∀ i, s.objs i = none) :
    ∀ a, s.heap a = none := by
  intro a
  have h := reachable_inv s hs
  cases hh : s.heap a with
  | none => rfl
  | some c =>
    obtain ⟨i, o, hi, _⟩ := h.owned a c hh
    rw [hnone i] at hi; cases hi

/-- non-vacuity: `GetCrystal`, copy, destroy the original, call the copy, then a parsed compound read after its POD is gone -/
example : (run St.init [.get 5, .copy 0, .destroy 0, .call 1, .pod 9, .read 2]).toOption.map (·.2)
    = some [.unit, .unit, .unit, .value 5, .unit, .value 9] := by decide
example : Reachable (St.init.adopt 5 5) := ⟨[.get 5], [.unit], rfl⟩

end XrlCpp.C18
