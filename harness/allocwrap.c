/* Live-block counter for the C18/C19 drivers.  Linked with
     -Wl,--wrap=malloc,--wrap=calloc,--wrap=realloc,--wrap=free,--wrap=strdup,--wrap=strndup,--wrap=vasprintf
   so that every allocation made by the xraylib objects compiled from the working tree (and by the header-only C++
   wrappers through xrl_malloc/xrl_strdup/xrlFree, which live in those objects) is counted; the C++ runtime's own
   operator new / exception storage does not go through these symbols and is not counted.  The counter is an
   observer of the correspondence run only.  xv_fail_after(n): the n-th allocation from now fails once (returns NULL),
   used to reach XRL_ERROR_MEMORY / std::bad_alloc. */
#include <stddef.h>
#include <stdarg.h>
#include <string.h>

void *__real_malloc(size_t);
void *__real_calloc(size_t, size_t);
void *__real_realloc(void *, size_t);
void __real_free(void *);
char *__real_strdup(const char *);
char *__real_strndup(const char *, size_t);
int __real_vasprintf(char **, const char *, va_list);

static long live = 0, total = 0, fail_at = 0;

long xv_live(void) { return live; }
long xv_total(void) { return total; }
void xv_fail_after(long n) { fail_at = n; }

static int should_fail(void) {
  total++;
  if (fail_at > 0 && --fail_at == 0) return 1;
  return 0;
}

void *__wrap_malloc(size_t n) {
  if (should_fail()) return NULL;
  void *p = __real_malloc(n);
  if (p) live++;
  return p;
}
void *__wrap_calloc(size_t a, size_t b) {
  if (should_fail()) return NULL;
  void *p = __real_calloc(a, b);
  if (p) live++;
  return p;
}
void *__wrap_realloc(void *q, size_t n) {
  if (should_fail()) return NULL;
  void *p = __real_realloc(q, n);
  if (q == NULL && p) live++;
  else if (q != NULL && n == 0 && p == NULL) live--;
  return p;
}
void __wrap_free(void *p) {
  if (p) live--;
  __real_free(p);
}
char *__wrap_strdup(const char *s) {
  if (should_fail()) return NULL;
  char *p = __real_strdup(s);
  if (p) live++;
  return p;
}
char *__wrap_strndup(const char *s, size_t n) {
  if (should_fail()) return NULL;
  char *p = __real_strndup(s, n);
  if (p) live++;
  return p;
}
int __wrap_vasprintf(char **out, const char *fmt, va_list ap) {
  if (should_fail()) { *out = NULL; return -1; }
  int r = __real_vasprintf(out, fmt, ap);
  if (r >= 0 && *out) live++;
  return r;
}
