/* Driver for the BUILD-TIME half of xraylib: includes src/pr_data.c (its main renamed) so that the static
   derivation functions are callable, loads the data files of the working tree exactly as prdata does
   (XRayInitFromPath), fills Auger_Rates / Auger_Yields as prdata's main does, and then either dumps the raw
   tables (`--dump bin idx lens`) or answers the line protocol on stdin. */
#define main prdata_main
#include "pr_data.c"
#undef main
#include <stdint.h>
#include "xrf_cross_sections_aux-private.h"

static double pd(const char *s) { uint64_t b = strtoull(s + 1, NULL, 16); double d; memcpy(&d, &b, 8); return d; }
static void pr_d(double d) { uint64_t b; memcpy(&b, &d, 8); printf("ok x%016llx", (unsigned long long)b); }
static void pr_i(int v) { printf("ok %d", v); }
static void pr_slot(char mode, xrl_error *e) {
  if (mode == 'N') printf(" N\n");
  else if (e == NULL) printf(" E\n");
  else { printf(" F%d:%s\n", (int)e->code, e->message ? e->message : "(null)"); xrl_error_free(e); }
}
#define SLOT(t) char mode = (t)[0]; xrl_error *e = NULL; xrl_error **ep = (mode == 'N') ? NULL : &e

#include "prdrv_gen.inc"

int dump_tables(int argc, char **argv);

int main(int argc, char **argv) {
  static char line[1 << 16];
  char *tok[64];
  int i, j;
  if (argc < 2) return 2;
  XRayInit();
  XRayInitFromPath(argv[1]);
  for (i = 0; i < ZMAX + 1; i++) {
    for (j = 0; j < AUGERNUM; j++) Auger_Rates[i][j] = AugerRate_prdata(i, j);
    for (j = 0; j < SHELLNUM_A; j++) Auger_Yields[i][j] = AugerYield_prdata(i, j);
  }
  if (argc >= 6 && !strcmp(argv[2], "--dump")) return dump_tables(argc - 2, argv + 2);
  setvbuf(stdout, NULL, _IOLBF, 0);
  while (fgets(line, sizeof line, stdin)) {
    int nt = 0;
    for (char *p = strtok(line, " \n"); p && nt < 64; p = strtok(NULL, " \n")) tok[nt++] = p;
    if (nt == 0) continue;
    if (!dispatch_gen(tok, nt)) printf("bad-op\n");
  }
  return 0;
}
