/* C13 correspondence driver: the numeric half of src/crystal_diffraction.c on the real library (built by
   ./check C13 from the working tree, ASan+UBSan).  Reads the line protocol on stdin, one request per line,
   one answer line per request.  The compiled Lean model (lean-c13/Driver.lean) answers the same requests.
   A sanitizer abort kills the process; the Python side records `died` for the line being executed and restarts
   the driver (re-sending the crystal definitions) after it.

   tokens: ints decimal, doubles x<16 hex digits> (IEEE bits), crystals by index into the list both sides share
           (`N` = NULL pointer), the error slot as E (address of an empty slot) or N (NULL).

   definitions
     crystal <id> <name> a b c alpha beta gamma volume natoms {Z fraction x y z}   -> def <id>
     builtin <id> <name>            the library's own entry (Crystal_GetCrystal)      -> def <id> | def-missing
     viaadd <id> <name> …           same payload as `crystal`; the struct (carrying a STALE volume) goes through Crystal_AddCrystal into a
                                    private array and what Crystal_GetCrystal hands out becomes crystal <id>      -> def <id> | def-missing
     viafile <path> <id> <name>     Crystal_ReadFile(path) into a private array, Crystal_GetCrystal(name) becomes crystal <id> -> def <id> | def-missing
     dump                           every built-in crystal in `crystal` syntax (ids 0..), then `end`
     allsafe <0|1>                  1: the oracle may call the library with any Miller indices (tree has repair C13-5)  -> def allsafe
     zeros                          knots of the Fi / Fii tables whose ordinate is exactly 0: `zeros {fi|fii}:Z:<E>...`
   calls                                                      answer
     vol   C S                      Crystal_UnitCellVolume    ok <v> <slot>
     dsp   C i j k S                Crystal_dSpacing          ok <v> <slot>
     bragg C E i j k S              Bragg_angle               ok <v> <slot>
     q     C E i j k rel S          Q_scattering_amplitude    ok <v> <slot>
     af    Z E q debye mask S       Atomic_Factors (mask bit 0/1/2: f0/f'/f'' pointer non-NULL)
                                                              ok <rc> <f0|-> <f'|-> <f''|-> <slot>
     fh    C E i j k debye rel S    Crystal_F_H_StructureFactor            ok <re> <im> <slot>
     fh2   …                        Crystal_F_H_StructureFactor2           ok <re> <im> <slot>
     fhp   C E i j k debye rel f0 fp fpp S   …_Partial                     ok <re> <im> <slot>
     fhp2  …                        …_Partial2                             ok <re> <im> <slot>
     stored2 C                      the volume member of the struct and Crystal_UnitCellVolume of it   ok <stored> <recomputed> E
     cabs  re im                    c_abs                     ok <v>
     cmul  re im re im              c_mul                     ok <re> <im>
   oracle inputs of the model (the elemental factors are PARAMETERS of the model; their values are read from the
   library in the same run and handed to the model) — these never touch the code under study except through its
   public scalar results, and never die:
     aux   C E i j k rel            -> aux d=<dSpacing|-> th=<Bragg|-> q=<Q|-> ; {Z:ff:fferr:fi:fierr:fii:fiierr}
                                       elemental values FF_Rayl(Z,q), Fi(Z,E), Fii(Z,E) for every distinct Zatom of C
     auxd  C E i j k rel            -> aux d=… th=… q=… ;            (no elemental values: Bragg / Q lines need none)
     auxaf Z E q                    -> aux d=- th=- q=<q> ; Z:…
   slot answers: N | E | F<code>:<message>     (err fields of aux: - | <code>/<message with blanks as _>) */
#include "config.h"
#include <stdio.h>
#include <stdlib.h>
#include <string.h>
#include <stdint.h>
#include <math.h>
#include "xraylib.h"
#include "xrayglob.h"

/* hidden-state poisoning: the library must not READ errno (or any other thread state the application may have left behind).
   Before every operation the driver leaves a different value there, as an application that has just overflowed a strtod, taken
   the log of a negative number or failed an allocation would; the answers must not depend on it.  (Seeded changes C02-9, C06-9,
   C07-9, C12-9, C15-10, C16-7: "errno == ERANGE" tests without clearing errno first.) */
#include <errno.h>
#include <fenv.h>
static void xv_poison_errno(void) { static unsigned k; static const int v[4] = {ERANGE, EDOM, ENOMEM, 0};
  /* likewise the floating-point exception flags an application may have raised (seeded change C05-11: fetestexcept without feclearexcept) */
  feclearexcept(FE_ALL_EXCEPT); if ((k >> 2) & 1) feraiseexcept(FE_DIVBYZERO | FE_INVALID | FE_OVERFLOW);
  errno = v[k++ & 3]; }

XRL_EXTERN void Crystal_F_H_StructureFactor2(Crystal_Struct* crystal, double energy, int i_miller, int j_miller, int k_miller, double debye_factor, double rel_angle, xrlComplex* result, xrl_error **error);
XRL_EXTERN void Crystal_F_H_StructureFactor_Partial2(Crystal_Struct* crystal, double energy, int i_miller, int j_miller, int k_miller, double debye_factor, double rel_angle, int f0_flag, int f_prime_flag, int f_prime2_flag, xrlComplex* result, xrl_error **error);
double c_abs(xrlComplex x);
xrlComplex c_mul(xrlComplex x, xrlComplex y);

#define MAXC 4096
static Crystal_Struct *cr[MAXC];
static int all_miller_safe = 0;   /* `allsafe 1`: the tree computes the cross terms of Crystal_dSpacing in double (repair C13-5) */

static double pd(const char *s) { uint64_t b = strtoull(s + 1, NULL, 16); double d; memcpy(&d, &b, 8); return d; }
static void pr_d(double d) { uint64_t b; memcpy(&b, &d, 8); printf(" x%016llx", (unsigned long long)b); }
static void pr_slot(char mode, xrl_error *e) {
  if (mode == 'N') printf(" N\n");
  else if (e == NULL) printf(" E\n");
  else { printf(" F%d:%s\n", (int)e->code, e->message ? e->message : "(null)"); xrl_error_free(e); }
}
#define SLOT(t) char mode = (t)[0]; xrl_error *e = NULL; xrl_error **ep = (mode == 'N') ? NULL : &e
static Crystal_Struct *C(const char *t) { if (t[0] == 'N') return NULL; return cr[atoi(t)]; }

static void pr_err_field(xrl_error *e) {
  if (!e) { putchar('-'); return; }
  printf("%d/", (int)e->code);
  for (const char *p = e->message ? e->message : ""; *p; p++) putchar(*p == ' ' ? '_' : *p);
  xrl_error_free(e);
}
static void pr_elem(int Z, double E, double q) {
  xrl_error *e = NULL; double v; uint64_t b;
  printf(" %d:", Z);
  v = FF_Rayl(Z, q, &e); memcpy(&b, &v, 8); printf("x%016llx:", (unsigned long long)b); pr_err_field(e); e = NULL;
  v = Fi(Z, E, &e); memcpy(&b, &v, 8); printf(":x%016llx:", (unsigned long long)b); pr_err_field(e); e = NULL;
  v = Fii(Z, E, &e); memcpy(&b, &v, 8); printf(":x%016llx:", (unsigned long long)b); pr_err_field(e);
}
static void pr_opt(const char *k, int have, double v) {
  uint64_t b; memcpy(&b, &v, 8);
  if (have) printf(" %s=x%016llx", k, (unsigned long long)b); else printf(" %s=-", k);
}

static void pr_crystal(int id, const Crystal_Struct *c) {
  printf("crystal %d %s", id, c->name); pr_d(c->a); pr_d(c->b); pr_d(c->c); pr_d(c->alpha); pr_d(c->beta); pr_d(c->gamma); pr_d(c->volume);
  printf(" %d", c->n_atom);
  for (int i = 0; i < c->n_atom; i++) { printf(" %d", c->atom[i].Zatom); pr_d(c->atom[i].fraction); pr_d(c->atom[i].x); pr_d(c->atom[i].y); pr_d(c->atom[i].z); }
  putchar('\n');
}

int main(void) {
  static char line[1 << 20];
  static char *t[1 << 16];
  setvbuf(stdout, NULL, _IOLBF, 0);
  while (fgets(line, sizeof line, stdin)) {
    xv_poison_errno();
    int n = 0;
    for (char *p = strtok(line, " \n"); p && n < (1 << 16); p = strtok(NULL, " \n")) t[n++] = p;
    if (n == 0) continue;
    const char *op = t[0];
    if ((!strcmp(op, "crystal") || !strcmp(op, "viaadd")) && n >= 11) {
      int id = atoi(t[1]), na = atoi(t[10]);
      if (id < 0 || id >= MAXC || n != 11 + 5 * na) { printf("bad-op\n"); continue; }
      Crystal_Struct *c = malloc(sizeof *c);
      c->name = strdup(t[2]);
      c->a = pd(t[3]); c->b = pd(t[4]); c->c = pd(t[5]); c->alpha = pd(t[6]); c->beta = pd(t[7]); c->gamma = pd(t[8]); c->volume = pd(t[9]);
      c->n_atom = na; c->atom = malloc((na ? na : 1) * sizeof(Crystal_Atom));
      for (int i = 0; i < na; i++) {
        char **a = t + 11 + 5 * i;
        c->atom[i].Zatom = atoi(a[0]); c->atom[i].fraction = pd(a[1]); c->atom[i].x = pd(a[2]); c->atom[i].y = pd(a[3]); c->atom[i].z = pd(a[4]);
      }
      if (op[0] == 'v') {
        /* user-supplied crystal through the public route; the caller's struct carries a stale volume */
        Crystal_Array *arr = Crystal_ArrayInit(2, NULL); Crystal_Struct *g = NULL;
        c->volume = c->volume * 1.25 + 1.0;
        if (arr && Crystal_AddCrystal(c, arr, NULL)) g = Crystal_GetCrystal(c->name, arr, NULL);
        Crystal_Free(c);                         /* the array holds its own copy, `g` is a copy of that */
        if (arr) Crystal_ArrayFree(arr);
        if (!g) { printf("def-missing\n"); continue; }
        c = g;
      }
      cr[id] = c; printf("def %d\n", id);
    } else if (!strcmp(op, "viafile") && n == 4) {
      int id = atoi(t[2]);
      Crystal_Array *arr = Crystal_ArrayInit(2, NULL); Crystal_Struct *g = NULL;
      if (arr && id >= 0 && id < MAXC && Crystal_ReadFile(t[1], arr, NULL)) g = Crystal_GetCrystal(t[3], arr, NULL);
      if (arr) Crystal_ArrayFree(arr);
      if (!g) printf("def-missing\n"); else { cr[id] = g; printf("def %d\n", id); }
    } else if (!strcmp(op, "stored2") && n == 2) {
      Crystal_Struct *c = C(t[1]);
      if (!c) { printf("ok"); pr_d(0.0); pr_d(0.0); printf(" N\n"); continue; }
      printf("ok"); pr_d(c->volume); pr_d(Crystal_UnitCellVolume(c, NULL)); printf(" E\n");
    } else if (!strcmp(op, "builtin") && n == 3) {
      int id = atoi(t[1]);
      Crystal_Struct *c = Crystal_GetCrystal(t[2], NULL, NULL);
      if (!c || id < 0 || id >= MAXC) printf("def-missing\n"); else { cr[id] = c; printf("def %d\n", id); }
    } else if (!strcmp(op, "allsafe") && n == 2) {
      all_miller_safe = atoi(t[1]); printf("def allsafe\n");
    } else if (!strcmp(op, "dump")) {
      int nc = 0; char **names = Crystal_GetCrystalsList(NULL, &nc, NULL);
      for (int i = 0; i < nc; i++) { Crystal_Struct *c = Crystal_GetCrystal(names[i], NULL, NULL); if (c) pr_crystal(i, c); }
      printf("end\n");
    } else if (!strcmp(op, "zeros")) {
      int cnt = 0;
      printf("zeros");
      for (int Z = 1; Z <= ZMAX && cnt < 24; Z++) {
        for (int k = 0; k < NE_Fii[Z] && cnt < 24; k++) if (Fii_arr[Z][k] == 0.0) { uint64_t b; memcpy(&b, &E_Fii_arr[Z][k], 8); printf(" fii:%d:x%016llx", Z, (unsigned long long)b); cnt++; break; }
        for (int k = 0; k < NE_Fi[Z] && cnt < 24; k++) if (Fi_arr[Z][k] == 0.0) { uint64_t b; memcpy(&b, &E_Fi_arr[Z][k], 8); printf(" fi:%d:x%016llx", Z, (unsigned long long)b); cnt++; break; }
      }
      putchar('\n');
    } else if (!strcmp(op, "inplace") && n == 6) {
      /* lattice scan: evaluate on a struct, change its cell IN PLACE (same address), evaluate again, and compare with a fresh struct
         that carries the same changed cell: the answers depend on the cell contents, not on the address they are stored at */
      Crystal_Struct *src = C(t[1]); double E = pd(t[2]); int h = atoi(t[3]), k = atoi(t[4]), l = atoi(t[5]);
      if (!src) { printf("inpl 1 1 1\n"); continue; }
      Crystal_Struct *c = Crystal_MakeCopy(src, NULL);
      double q0 = Q_scattering_amplitude(c, E, h, k, l, 1.0, NULL); xrlComplex f0 = Crystal_F_H_StructureFactor(c, E, h, k, l, 1.0, 1.0, NULL); double b0 = Bragg_angle(c, E, h, k, l, NULL);
      (void)q0; (void)f0; (void)b0;
      c->a *= 1.013; c->b *= 1.013; c->c *= 1.013; c->volume = Crystal_UnitCellVolume(c, NULL);
      double q1 = Q_scattering_amplitude(c, E, h, k, l, 1.0, NULL); xrlComplex f1 = Crystal_F_H_StructureFactor(c, E, h, k, l, 1.0, 1.0, NULL); double b1 = Bragg_angle(c, E, h, k, l, NULL);
      Crystal_Struct *d = Crystal_MakeCopy(c, NULL);
      double q2 = Q_scattering_amplitude(d, E, h, k, l, 1.0, NULL); xrlComplex f2 = Crystal_F_H_StructureFactor(d, E, h, k, l, 1.0, 1.0, NULL); double b2 = Bragg_angle(d, E, h, k, l, NULL);
      printf("inpl %d %d %d\n", memcmp(&q1, &q2, 8) == 0, memcmp(&f1, &f2, sizeof f1) == 0, memcmp(&b1, &b2, 8) == 0);
      Crystal_Free(c); Crystal_Free(d);
    } else if (!strcmp(op, "stored") && n == 2) {
      /* user-supplied crystal through the public route: a copy carrying a STALE volume (as a modified copy of another crystal
         would) is added to a private array and looked up again; prints the stored volume of what the array hands out */
      Crystal_Struct *src = C(t[1]);
      if (!src) { printf("ok"); pr_d(0.0); printf(" N\n"); continue; }
      Crystal_Array *arr = Crystal_ArrayInit(2, NULL);
      Crystal_Struct *cp = Crystal_MakeCopy(src, NULL);
      Crystal_Struct *g = NULL;
      if (arr && cp) {
        cp->volume = cp->volume * 1.25 + 1.0;
        if (Crystal_AddCrystal(cp, arr, NULL)) g = Crystal_GetCrystal(cp->name, arr, NULL);
      }
      printf("ok"); pr_d(g ? g->volume : 0.0); printf(g ? " E\n" : " N\n");
      Crystal_Free(g); Crystal_Free(cp); if (arr) Crystal_ArrayFree(arr);
    } else if (!strcmp(op, "vol") && n == 3) {
      SLOT(t[2]); double v = Crystal_UnitCellVolume(C(t[1]), ep); printf("ok"); pr_d(v); pr_slot(mode, e);
    } else if (!strcmp(op, "dsp") && n == 6) {
      SLOT(t[5]); double v = Crystal_dSpacing(C(t[1]), atoi(t[2]), atoi(t[3]), atoi(t[4]), ep); printf("ok"); pr_d(v); pr_slot(mode, e);
    } else if (!strcmp(op, "bragg") && n == 7) {
      SLOT(t[6]); double v = Bragg_angle(C(t[1]), pd(t[2]), atoi(t[3]), atoi(t[4]), atoi(t[5]), ep); printf("ok"); pr_d(v); pr_slot(mode, e);
    } else if (!strcmp(op, "q") && n == 8) {
      SLOT(t[7]); double v = Q_scattering_amplitude(C(t[1]), pd(t[2]), atoi(t[3]), atoi(t[4]), atoi(t[5]), pd(t[6]), ep); printf("ok"); pr_d(v); pr_slot(mode, e);
    } else if (!strcmp(op, "af") && n == 7) {
      SLOT(t[6]); int mask = atoi(t[5]); double f0 = 7e77, fp = 7e77, fpp = 7e77;
      int rc = Atomic_Factors(atoi(t[1]), pd(t[2]), pd(t[3]), pd(t[4]), (mask & 1) ? &f0 : NULL, (mask & 2) ? &fp : NULL, (mask & 4) ? &fpp : NULL, ep);
      printf("ok %d", rc);
      if (mask & 1) pr_d(f0); else printf(" -");
      if (mask & 2) pr_d(fp); else printf(" -");
      if (mask & 4) pr_d(fpp); else printf(" -");
      pr_slot(mode, e);
    } else if ((!strcmp(op, "fh") || !strcmp(op, "fh2")) && n == 9) {
      SLOT(t[8]); xrlComplex z = {7e77, 7e77};
      if (op[2] == '2') Crystal_F_H_StructureFactor2(C(t[1]), pd(t[2]), atoi(t[3]), atoi(t[4]), atoi(t[5]), pd(t[6]), pd(t[7]), &z, ep);
      else z = Crystal_F_H_StructureFactor(C(t[1]), pd(t[2]), atoi(t[3]), atoi(t[4]), atoi(t[5]), pd(t[6]), pd(t[7]), ep);
      printf("ok"); pr_d(z.re); pr_d(z.im); pr_slot(mode, e);
    } else if ((!strcmp(op, "fhp") || !strcmp(op, "fhp2")) && n == 12) {
      SLOT(t[11]); xrlComplex z = {7e77, 7e77};
      if (op[3] == '2') Crystal_F_H_StructureFactor_Partial2(C(t[1]), pd(t[2]), atoi(t[3]), atoi(t[4]), atoi(t[5]), pd(t[6]), pd(t[7]), atoi(t[8]), atoi(t[9]), atoi(t[10]), &z, ep);
      else z = Crystal_F_H_StructureFactor_Partial(C(t[1]), pd(t[2]), atoi(t[3]), atoi(t[4]), atoi(t[5]), pd(t[6]), pd(t[7]), atoi(t[8]), atoi(t[9]), atoi(t[10]), ep);
      printf("ok"); pr_d(z.re); pr_d(z.im); pr_slot(mode, e);
    } else if (!strcmp(op, "cabs") && n == 3) {
      xrlComplex x = {pd(t[1]), pd(t[2])}; printf("ok"); pr_d(c_abs(x)); putchar('\n');
    } else if (!strcmp(op, "cmul") && n == 5) {
      xrlComplex x = {pd(t[1]), pd(t[2])}, y = {pd(t[3]), pd(t[4])}, z = c_mul(x, y); printf("ok"); pr_d(z.re); pr_d(z.im); putchar('\n');
    } else if ((!strcmp(op, "aux") || !strcmp(op, "auxd")) && n == 7) {
      Crystal_Struct *c = C(t[1]); double E = pd(t[2]), q = 0, d = 0, th = 0; int i = atoi(t[3]), j = atoi(t[4]), k = atoi(t[5]);
      /* int products 2*i*j of Crystal_dSpacing overflow for |i*j| >= 2^30: keep the oracle calls inside the safe range */
      int safe = all_miller_safe || (i >= -32767 && i <= 32767 && j >= -32767 && j <= 32767 && k >= -32767 && k <= 32767);
      printf("aux");
      if (c && safe) { d = Crystal_dSpacing(c, i, j, k, NULL); th = Bragg_angle(c, E, i, j, k, NULL); }
      if (safe) q = Q_scattering_amplitude(c, E, i, j, k, pd(t[6]), NULL);
      pr_opt("d", c && safe, d); pr_opt("th", c && safe, th); pr_opt("q", safe, q);
      printf(" ;");
      if (c && safe && op[3] != 'd') for (int a = 0; a < c->n_atom; a++) {
        int Z = c->atom[a].Zatom, seen = 0;
        for (int b = 0; b < a; b++) if (c->atom[b].Zatom == Z) { seen = 1; break; }
        if (!seen) pr_elem(Z, E, q);
      }
      putchar('\n');
    } else if (!strcmp(op, "auxaf") && n == 4) {
      printf("aux d=- th=-"); pr_opt("q", 1, pd(t[3])); printf(" ;"); pr_elem(atoi(t[1]), pd(t[2]), pd(t[3])); putchar('\n');
    } else printf("bad-op\n");
  }
  return 0;
}
