/* C04 heap harness: call histories over the ALLOCATING part of the public API, every object released with its
   documented free function, allocation counter around each operation.

   Built by ./check C04 against the library objects compiled from the working tree with ASan+UBSan and linked with
   -Wl,--wrap=malloc,--wrap=calloc,--wrap=realloc,--wrap=free,--wrap=strdup,--wrap=strndup,--wrap=vasprintf.
   The oracle is the property text itself (no model needed): after a finished call and the release of what it handed
   out, the process holds no block allocated on behalf of that call (`d=0`), on success and on failure paths; no
   sanitizer report.  Operations that keep state on purpose (a user crystal array between `ainit` and `afree`) are
   balanced over the whole bracket: `afree` prints the balance since the matching `ainit`.

   One operation per line, strings %-escaped as in c07drv.c (`%` alone = empty string, `%00NULL` = NULL pointer):
     cp <s>                      CompoundParser + FreeCompoundData
     nistn <s> | nisti <i> | nistl          NIST catalogue by name / index / list (freed with xrlFree)
     radn <s> | radi <i> | radl             radionuclides
     z2s <Z> | s2z <s>
     cscp <k> <s> <E> <theta> <phi>         the k-th _CP function (0..20)
     ri <k> <s> <E> <density>               0 Re, 1 Im, 2 complex
     cget <s> | ccopy <s> | clist           built-in crystal array: lookup (a copy, released with Crystal_Free), MakeCopy+Free, names list
     ainit <n> | aadd <s> <newname> | aread <path> | aget <s> | alist | afree      one user crystal array at a time
     cfun <k> <crystal> <E> <h> <k> <l> <debye>   Bragg_angle, Q_scattering_amplitude, F_H, F_H_Partial, UnitCellVolume, dSpacing on a copy
     af <Z> <E> <q> <debye>                 Atomic_Factors
     err <k>                                xrl_error object life cycles (set / propagate / clear); k = 6..11: a later failing call
                                            is handed a slot that still holds an error (rc = 1 iff that error object is untouched)
     cfunp <crystal> <E> <h> <k> <l> <debye> <rel_angle> <f0_flag> <fp_flag> <fpp_flag> [<fn>]   Q_scattering_amplitude (fn = q) or
                                            Crystal_F_H_StructureFactor_Partial with every argument from the line
     cedge <crystal> <hmax> <ulps>          bulk: the Bragg cut-off energies hc/(2d) of every reflection in [-hmax,hmax]^3 and their neighbouring
                                            doubles through Bragg_angle / Q_scattering_amplitude / F_H / F_H_Partial; own one-line answer (see the op)
     null <k>                               ONE call with NULL at a pointer position the other operations never pass NULL at (list below,
                                            `null_call`); rc = 1 iff the behaviour is the documented one (error / no-op / NULL result)
     cpdeep <depth> <inner> | cplong <n> <unit> [<tail>]     CompoundParser on a string synthesised here: `inner` inside `depth` bracket
                                            pairs; `unit` repeated n times (+ tail) — longer than a protocol line may be
     acd <s1> <w1> <s2> <w2>                add_compound_data on two parsed compounds, result released with FreeCompoundData
     ahold <s> | adrop                      a copy looked up in the user array is KEPT across later mutations / afree; adrop uses and frees them
     misc <k>                               0 XRayInit, 1 the five deprecated setters/getters, 2 c_abs/c_mul <k> <re> <im> <re2> <im2>,
                                            3 xrl_strdup/xrl_strndup/xrl_malloc, 4 xrl_error_matches / xrl_error_copy on a live error
   Prefixes (in this order, each optional):  `F<n>:` the n-th allocation made from now on fails once (returns NULL);
     `N:` runs the operation WITHOUT an error slot;  `P:` hands the operation a slot that ALREADY holds an error.
   Answer:  `<rc> d=<live blocks after the operation and its releases minus before> e=<0|1 error object was set> c=<error code|-1> m=<message length> v=<x + bits of the numeric result | ->`
   (rc: 1/0 = non-NULL / NULL for constructors, value != 0 for numeric functions, count for lists)
   followed by ` ow=<1 iff the library printed its "xrl_error set over the top of a previous xrl_error" diagnostic during the operation>
   dg=<bytes of any other text the library wrote to the C stream stderr> fd=<open file descriptors after minus before>
   p=<-1 | 1 iff the pre-filled slot still holds the same error object, code and message> fa=<1 iff the armed allocation failure fired>`.
   The C stream `stderr` is pointed at a temporary file for that purpose (the sanitizers write to descriptor 2 directly). */
#include "config.h"
#include <stdio.h>
#include <stdlib.h>
#include <string.h>
#include <stdint.h>
#include <stdarg.h>
#include <locale.h>
#include <math.h>
#include <dirent.h>
#include <limits.h>
#include "xraylib.h"
#include "xraylib-aux.h"
#include "xraylib-error-private.h"

static long live_blocks = 0;
/* allocation-failure injection: when fail_at > 0 it is decremented by every allocation request that reaches the wrappers; the request
   that brings it to 0 fails (NULL, errno = ENOMEM) — once.  fail_hold > 0 suspends the countdown (allocations of the harness itself). */
static long fail_at = 0; static int fail_fired = 0; static int fail_hold = 0;
#include <errno.h>
static int failing(void) { if (fail_hold || fail_at <= 0) return 0; if (--fail_at == 0) { fail_fired = 1; errno = ENOMEM; return 1; } return 0; }
void *__real_malloc(size_t); void *__real_calloc(size_t, size_t); void *__real_realloc(void *, size_t);
void __real_free(void *); char *__real_strdup(const char *); char *__real_strndup(const char *, size_t);
int __real_vasprintf(char **, const char *, va_list);
void *__wrap_malloc(size_t n) { if (failing()) return NULL; void *p = __real_malloc(n); if (p) live_blocks++; return p; }
void *__wrap_calloc(size_t a, size_t b) { if (failing()) return NULL; void *p = __real_calloc(a, b); if (p) live_blocks++; return p; }
void *__wrap_realloc(void *q, size_t n) { if (failing()) return NULL; void *p = __real_realloc(q, n); if (!q && p) live_blocks++; return p; }
void __wrap_free(void *p) { if (p) live_blocks--; __real_free(p); }
char *__wrap_strdup(const char *s) { if (failing()) return NULL; char *p = __real_strdup(s); if (p) live_blocks++; return p; }
char *__wrap_strndup(const char *s, size_t n) { if (failing()) return NULL; char *p = __real_strndup(s, n); if (p) live_blocks++; return p; }
int __wrap_vasprintf(char **out, const char *fmt, va_list ap) { if (failing()) { *out = NULL; return -1; } int r = __real_vasprintf(out, fmt, ap); if (r >= 0 && *out) live_blocks++; return r; }
static char *h_strdup(const char *s) { fail_hold++; char *p = strdup(s); fail_hold--; return p; }     /* an allocation of the harness, handed to the library */

/* the library's diagnostics: C stream stderr -> temporary file, looked at after every operation */
static FILE *diag = NULL; static long diag_pos = 0; static int ow = 0; static long dgbytes = 0;
static void diag_check(void) {
  ow = 0; dgbytes = 0;
  if (!diag) return;
  fflush(diag); long cur = ftell(diag);
  if (cur > diag_pos) {
    static char buf[1 << 14]; long n = cur - diag_pos; if (n > (long)sizeof buf - 1) n = sizeof buf - 1;
    fseek(diag, diag_pos, SEEK_SET); n = (long)fread(buf, 1, (size_t)n, diag); buf[n > 0 ? n : 0] = 0; fseek(diag, cur, SEEK_SET);
    if (strstr(buf, "xrl_error set over the top of a previous xrl_error")) ow = 1; else dgbytes = cur - diag_pos;
    if (ow) { const char *q = buf; int k = 0; while ((q = strstr(q, "xrl_error set over the top")) != NULL) { k++; q++; } ow = k; }
  }
  diag_pos = cur;
}
static int open_fds(void) {
  int n = 0; fail_hold++; DIR *d = opendir("/proc/self/fd");
  if (d) { while (readdir(d)) n++; closedir(d); }
  fail_hold--; return n;
}

static int hexv(int c) { return c <= '9' ? c - '0' : (c | 32) - 'a' + 10; }
static char *unesc(const char *s, char *out) {
  char *o = out;
  if (!strcmp(s, "%00NULL")) return NULL;
  if (s[0] == '%' && s[1] == 0) { *o = 0; return out; }
  while (*s) {
    if (*s == '%' && s[1] && s[2]) { *o++ = (char)(hexv((unsigned char)s[1]) * 16 + hexv((unsigned char)s[2])); s += 3; }
    else *o++ = *s++;
  }
  *o = 0; return out;
}
static double dbl(const char *t) { if (t[0] == 'x') { uint64_t b = strtoull(t + 1, NULL, 16); double d; memcpy(&d, &b, 8); return d; } return strtod(t, NULL); }

typedef double (*cp1)(const char *, double, xrl_error **);
typedef double (*cp2)(const char *, double, double, xrl_error **);
typedef double (*cp3)(const char *, double, double, double, xrl_error **);
static cp1 F1[] = { CS_Total_CP, CS_Photo_CP, CS_Rayl_CP, CS_Compt_CP, CSb_Total_CP, CSb_Photo_CP, CSb_Rayl_CP, CSb_Compt_CP,
                    CS_Photo_Total_CP, CSb_Photo_Total_CP, CS_Total_Kissel_CP, CSb_Total_Kissel_CP, CS_Energy_CP };
static cp2 F2[] = { DCS_Rayl_CP, DCS_Compt_CP, DCSb_Rayl_CP, DCSb_Compt_CP };
static cp3 F3[] = { DCSP_Rayl_CP, DCSP_Compt_CP, DCSPb_Rayl_CP, DCSPb_Compt_CP };

static void free_list(char **l, int n) { if (!l) return; for (int i = 0; i < n; i++) xrlFree(l[i]); xrlFree(l); }
static int list_len(char **l) { int n = 0; if (l) while (l[n]) n++; return n; }
static int ecode = -1; static long emlen = 0;
/* per-operation state for the answer tail */
static int fd0 = 0; static xrl_error *p0 = NULL; static int pkeep = -1;
static int fin(xrl_error **e) {
  int had = *e != NULL; ecode = -1; emlen = 0;
  fail_at = 0;                                                          /* disarm: the library calls of the operation are over */
  if (p0) pkeep = (*e == p0 && (int)(*e)->code == (int)XRL_ERROR_RUNTIME && (*e)->message && !strcmp((*e)->message, "first error"));
  if (*e) { ecode = (int)(*e)->code; emlen = (*e)->message ? (long)strlen((*e)->message) : -1; xrl_clear_error(e); }
  return had;
}
static void ext(void) { fail_at = 0; diag_check(); printf(" ow=%d dg=%ld fd=%d p=%d fa=%d\n", ow, dgbytes, open_fds() - fd0, pkeep, fail_fired); }
static void tail(int isnum, double val) { uint64_t b; memcpy(&b, &val, 8); printf(" c=%d m=%ld v=%s%016llx", ecode, emlen, isnum ? "x" : "-", (unsigned long long)(isnum ? b : 0)); ext(); }

/* a small user array holding one renamed copy of Si (allocations of the harness: not failed, but counted — the caller balances) */
static Crystal_Array *one_crystal_array(void) {
  fail_hold++;
  Crystal_Array *A = Crystal_ArrayInit(2, NULL); Crystal_Struct *c = Crystal_GetCrystal("Si", NULL, NULL);
  if (A && c) Crystal_AddCrystal(c, A, NULL);
  Crystal_Free(c); fail_hold--; return A;
}

/* `null <k>`: NULL at pointer positions; -> 1 iff the documented behaviour (an error, a no-op, a NULL / complete result) was observed */
#define NULL_CALLS 26
static long null_call(int k, xrl_error **ep, xrl_error **slot) {
  long rc = 0; Crystal_Array *A = NULL;
  if (k == 0 || k == 1 || k == 10 || k == 24) A = one_crystal_array();
  switch (k) {
  case 0: rc = Crystal_ReadFile(NULL, A, ep) == 0; break;                            /* "NULL filenames are not allowed": XRL_ERROR_IO */
  case 1: rc = Crystal_AddCrystal(NULL, A, ep) == 0; break;                          /* CRYSTAL_NULL */
  case 2: rc = Crystal_MakeCopy(NULL, ep) == NULL; break;
  case 3: Crystal_Free(NULL); Crystal_ArrayFree(NULL); xrl_error_free(NULL); xrlFree(NULL); xrl_clear_error(NULL); rc = 1; break;   /* no-ops */
  case 4: FreeCompoundData(NULL); rc = 1; break;
  case 5: FreeCompoundDataNIST(NULL); rc = 1; break;
  case 6: FreeRadioNuclideData(NULL); rc = 1; break;
  case 7: { char **l = GetCompoundDataNISTList(NULL, ep); rc = list_len(l); free_list(l, (int)rc); } break;      /* the count pointer may be NULL */
  case 8: { char **l = GetRadioNuclideDataList(NULL, ep); rc = list_len(l); free_list(l, (int)rc); } break;
  case 9: { char **l = Crystal_GetCrystalsList(NULL, NULL, ep); rc = list_len(l); free_list(l, (int)rc); } break;
  case 10: { char **l = Crystal_GetCrystalsList(A, NULL, ep); rc = list_len(l); free_list(l, (int)rc); } break;
  case 11: case 12: case 13: case 14: case 15: case 16: case 17: {                   /* Atomic_Factors: every combination of NULL outputs */
    int m = k - 10; double f0 = -7, fp = -7, fpp = -7;
    rc = Atomic_Factors(26, 8.0, 1.0, 1.0, (m & 1) ? NULL : &f0, (m & 2) ? NULL : &fp, (m & 4) ? NULL : &fpp, ep);
    if (rc && ((!(m & 1) && f0 == -7) || (!(m & 2) && fp == -7) || (!(m & 4) && fpp == -7))) rc = 2;       /* an output that was asked for was not written */
  } break;
  case 18: rc = Atomic_Factors(26, 8.0, 1.0, -1.0, NULL, NULL, NULL, ep) == 0; break; /* bad Debye factor, no outputs */
  case 19: rc = xrl_error_copy(NULL) == NULL; break;
  case 20: rc = xrl_error_matches(NULL, XRL_ERROR_MEMORY) == 0 && xrl_error_matches(NULL, XRL_ERROR_RUNTIME) == 0; break;
  case 21: { xrl_error *before = slot ? *slot : NULL; xrl_propagate_error(ep, NULL); rc = !slot || *slot == before; } break;   /* diagnostic + no-op */
  case 22: { xrl_error *before = slot ? *slot : NULL; xrl_set_error_literal(ep, XRL_ERROR_IO, NULL); rc = !slot || *slot == before; } break;
  case 23: { xrl_error *before = slot ? *slot : NULL; const char *nofmt = NULL; if (!before) xrl_set_error(ep, XRL_ERROR_IO, nofmt); rc = !slot || *slot == before; } break;
  case 24: rc = Crystal_GetCrystal(NULL, A, ep) == NULL; break;
  case 25: { Crystal_Struct *c = Crystal_GetCrystal(NULL, NULL, ep); rc = c == NULL; } break;
  default: rc = -1;
  }
  fail_hold++; Crystal_ArrayFree(A); fail_hold--;
  return rc;
}

#include <fenv.h>
static void xv_poison_errno(void) { static unsigned k; static const int v[4] = {ERANGE, EDOM, ENOMEM, 0};
  /* likewise the floating-point exception flags an application may have raised (seeded change C05-11: fetestexcept without feclearexcept) */
  feclearexcept(FE_ALL_EXCEPT); if ((k >> 2) & 1) feraiseexcept(FE_DIVBYZERO | FE_INVALID | FE_OVERFLOW);
  errno = v[k++ & 3]; }   /* see harness/cdrv.c */
int main(void) {
  static char line[1 << 16], b1[1 << 16], b2[1 << 12];
  char *tok[16];
  Crystal_Array *arr = NULL; long arr_base = 0, arr_held0 = 0;
  static Crystal_Struct *held[16]; static double held_d[16], held_v[16]; static int held_n[16]; static char held_name[16][64]; int nheld = 0; long held_blocks = 0;
  setlocale(LC_ALL, "");      /* the process locale comes from the environment (the check runs the histories under C and under C.UTF-8) */
  setvbuf(stdout, NULL, _IOLBF, 1 << 12);
  printf("%s", "");
  diag = tmpfile(); if (diag) stderr = diag;
  while (fgets(line, sizeof line, stdin)) {
    xv_poison_errno();
    int nt = 0;
    for (char *p = strtok(line, " \n"); p && nt < 16; p = strtok(NULL, " \n")) tok[nt++] = p;
    if (nt == 0) continue;
    xrl_error *e = NULL; long base = live_blocks; long rc = 0; int had = 0; double val = 0.0; int isnum = 0;
    const char *op = tok[0];
    xrl_error **ep = &e;
    long arm = 0;
    fail_at = 0; fail_fired = 0; pkeep = -1; p0 = NULL;
    if (op[0] == 'F' && op[1] >= '0' && op[1] <= '9') { char *q; arm = strtol(op + 1, &q, 10); if (*q == ':') op = q + 1; else arm = 0; }
    if (op[0] == 'N' && op[1] == ':') { ep = NULL; op += 2; }      /* the same operation without an error slot */
    else if (op[0] == 'P' && op[1] == ':') {                       /* the slot already holds an error */
      op += 2; fail_hold++; xrl_set_error_literal(&e, XRL_ERROR_RUNTIME, "first error"); fail_hold--; p0 = e;
    }
    fd0 = open_fds(); diag_check();
    fail_at = arm;
    if (!strcmp(op, "cp") && nt == 2) { struct compoundData *cd = CompoundParser(unesc(tok[1], b1), ep); rc = cd != NULL; if (cd) FreeCompoundData(cd); }
    else if ((!strcmp(op, "cpdeep") && nt == 3) || (!strcmp(op, "cplong") && (nt == 3 || nt == 4))) {
      /* a formula too long / too deep for a protocol line, built here (memory of the harness: neither failed nor counted) */
      long n = atol(tok[1]); const char *u = unesc(tok[2], b1); if (!u) u = ""; const char *t = (nt == 4) ? unesc(tok[3], b2) : ""; if (!t) t = "";
      size_t lu = strlen(u), lt = strlen(t); if (n < 0) n = 0;
      size_t len = (op[2] == 'd') ? (size_t)(2 * n) + lu : (size_t)n * lu + lt;
      char *sbuf = __real_malloc(len + 1); if (!sbuf) { fail_at = 0; printf("bad-op\n"); continue; }
      if (op[2] == 'd') { memset(sbuf, '(', (size_t)n); memcpy(sbuf + n, u, lu); memset(sbuf + n + lu, ')', (size_t)n); }
      else { for (long i = 0; i < n; i++) memcpy(sbuf + (size_t)i * lu, u, lu); memcpy(sbuf + (size_t)n * lu, t, lt); }
      sbuf[len] = 0;
      struct compoundData *cd = CompoundParser(sbuf, ep); rc = cd != NULL; if (cd) { val = cd->molarMass; isnum = 1; FreeCompoundData(cd); }      /* v = molar mass: the composition does not depend on the nesting */
      __real_free(sbuf);
    }
    else if (!strcmp(op, "acd") && nt == 5) {
      struct compoundData *A = CompoundParser(unesc(tok[1], b1), ep), *B = A ? CompoundParser(unesc(tok[3], b2), ep) : NULL;
      if (A && B) { struct compoundData *C = add_compound_data(*A, dbl(tok[2]), *B, dbl(tok[4])); rc = C != NULL;
        if (C) { double sfr = 0; for (int i = 0; i < C->nElements; i++) sfr += C->massFractions[i]; val = sfr; isnum = 1; FreeCompoundData(C); } }
      if (A) FreeCompoundData(A); if (B) FreeCompoundData(B);
    }
    else if (!strcmp(op, "nistn") && nt == 2) { struct compoundDataNIST *c = GetCompoundDataNISTByName(unesc(tok[1], b1), ep); rc = c != NULL; if (c) FreeCompoundDataNIST(c); }
    else if (!strcmp(op, "nisti") && nt == 2) { struct compoundDataNIST *c = GetCompoundDataNISTByIndex(atoi(tok[1]), ep); rc = c != NULL; if (c) FreeCompoundDataNIST(c); }
    else if (!strcmp(op, "nistl")) { int n = 0; char **l = GetCompoundDataNISTList(&n, ep); rc = l ? n : 0; free_list(l, n); }
    else if (!strcmp(op, "radn") && nt == 2) { struct radioNuclideData *c = GetRadioNuclideDataByName(unesc(tok[1], b1), ep); rc = c != NULL; if (c) FreeRadioNuclideData(c); }
    else if (!strcmp(op, "radi") && nt == 2) { struct radioNuclideData *c = GetRadioNuclideDataByIndex(atoi(tok[1]), ep); rc = c != NULL; if (c) FreeRadioNuclideData(c); }
    else if (!strcmp(op, "radl")) { int n = 0; char **l = GetRadioNuclideDataList(&n, ep); rc = l ? n : 0; free_list(l, n); }
    else if (!strcmp(op, "z2s") && nt == 2) { char *s = AtomicNumberToSymbol(atoi(tok[1]), ep); rc = s != NULL; if (s) xrlFree(s); }
    else if (!strcmp(op, "s2z") && nt == 2) { rc = SymbolToAtomicNumber(unesc(tok[1], b1), ep); }
    else if (!strcmp(op, "cscp") && nt == 6) {
      int k = atoi(tok[1]); const char *s = unesc(tok[2], b1); double E = dbl(tok[3]), th = dbl(tok[4]), ph = dbl(tok[5]); double v;
      if (k < 13) v = F1[k](s, E, ep); else if (k < 17) v = F2[k - 13](s, E, th, ep); else v = F3[(k - 17) % 4](s, E, th, ph, ep);
      rc = v != 0.0; val = v; isnum = 1;
    }
    else if (!strcmp(op, "ri") && nt == 5) {
      int k = atoi(tok[1]); const char *s = unesc(tok[2], b1); double E = dbl(tok[3]), rho = dbl(tok[4]);
      if (k == 0) { val = Refractive_Index_Re(s, E, rho, ep); rc = val != 0.0; } else if (k == 1) { val = Refractive_Index_Im(s, E, rho, ep); rc = val != 0.0; }
      else { xrlComplex z = Refractive_Index(s, E, rho, ep); rc = z.re != 0.0 || z.im != 0.0; val = z.re + z.im; }
      isnum = 1;
    }
    else if (!strcmp(op, "cget") && nt == 2) { Crystal_Struct *c = Crystal_GetCrystal(unesc(tok[1], b1), NULL, ep); rc = c != NULL; Crystal_Free(c); }
    else if (!strcmp(op, "ccopy") && nt == 2) {
      Crystal_Struct *c = Crystal_GetCrystal(unesc(tok[1], b1), NULL, ep);
      if (c) { Crystal_Struct *d = Crystal_MakeCopy(c, ep); rc = d != NULL; Crystal_Free(d); Crystal_Free(c); }
    }
    else if (!strcmp(op, "cfun") && nt == 8) {      /* cfun <k> <crystal> <E> <h> <k> <l> <debye>: the numeric crystal functions on a copy of a built-in crystal */
      int k = atoi(tok[1]); double E = dbl(tok[3]); int h = atoi(tok[4]), kk = atoi(tok[5]), l = atoi(tok[6]); double deb = dbl(tok[7]);
      fail_hold++; Crystal_Struct *c = Crystal_GetCrystal(unesc(tok[2], b1), NULL, NULL); fail_hold--;
      /* an unknown name gives c = NULL: the functions must reject a NULL crystal with an error */
      if (k == 0) val = Bragg_angle(c, E, h, kk, l, ep);
      else if (k == 1) val = Q_scattering_amplitude(c, E, h, kk, l, 1.0, ep);
      else if (k == 2) { xrlComplex z = Crystal_F_H_StructureFactor(c, E, h, kk, l, deb, 1.0, ep); val = fabs(z.re) + fabs(z.im); }
      else if (k == 3) { xrlComplex z = Crystal_F_H_StructureFactor_Partial(c, E, h, kk, l, deb, 1.0, 2, 2, 2, ep); val = fabs(z.re) + fabs(z.im); }
      else if (k == 4) val = Crystal_UnitCellVolume(c, ep);
      else val = Crystal_dSpacing(c, h, kk, l, ep);
      rc = val != 0.0; isnum = 1;
      Crystal_Free(c);
    }
    else if (!strcmp(op, "cfunp") && (nt == 11 || nt == 12)) {   /* every argument of F_H_Partial (or, with a 12th token `q`, of Q_scattering_amplitude) from the line */
      double E = dbl(tok[2]); int h = atoi(tok[3]), kk = atoi(tok[4]), l = atoi(tok[5]); double deb = dbl(tok[6]), rel = dbl(tok[7]);
      fail_hold++; Crystal_Struct *c = Crystal_GetCrystal(unesc(tok[1], b1), NULL, NULL); fail_hold--;
      if (nt == 12) val = Q_scattering_amplitude(c, E, h, kk, l, rel, ep);
      else { xrlComplex z = Crystal_F_H_StructureFactor_Partial(c, E, h, kk, l, deb, rel, atoi(tok[8]), atoi(tok[9]), atoi(tok[10]), ep); val = fabs(z.re) + fabs(z.im); }
      rc = val != 0.0; isnum = 1;
      Crystal_Free(c);
    }
    else if (!strcmp(op, "cedge") && nt == 4) {
      /* cedge <crystal> <hmax> <ulps>: the Bragg cut-off of every reflection in the box [-hmax,hmax]^3 of a built-in crystal.  The cut-off
         energy E0 = KEV2ANGST / (2 d) is computed HERE from the library's own Crystal_dSpacing (bit-identical to what the library can compute
         from the same d), and E0 -ulps .. +ulps neighbouring doubles (sin(theta) = (hc/E)/(2d) runs through 1 - few ulp .. 1 + few ulp) go through
         Bragg_angle, Q_scattering_amplitude (rel_angle 1, 0.5, 1.5), Crystal_F_H_StructureFactor and _Partial (2,2,2), each with an error slot
         and without.  Judged here with the calling contract: no error -> every returned number finite; error -> 0 returned, code
         XRL_ERROR_INVALID_ARGUMENT, non-empty message; without a slot the bit-identical value.
         ONE answer line: `cedge name=<crystal> calls=<n> refl=<reflections> skipped=<d-spacing 0 / not finite> ok=<n> err=<n> nv=<violations> d=<blocks> ow=<overwrite diagnostics>`
         followed by ` | <fn 0..5> <h> <k> <l> x<energy bits> <S|N> x<re bits> x<im bits> e=<0|1> c=<code> m=<message length> w=<0 finite,1 non-finite,2 bad failure,3 slot/no-slot differ>`
         for the first 24 violations (fn: 0 Bragg_angle, 1..3 Q_scattering_amplitude rel 1/0.5/1.5, 4 F_H, 5 F_H_Partial). */
      int hmax = atoi(tok[2]), ulps = atoi(tok[3]); if (hmax < 0) hmax = 0; if (hmax > 12) hmax = 12; if (ulps < 0) ulps = 0; if (ulps > 16) ulps = 16;
      static const double rels[3] = { 1.0, 0.5, 1.5 };
      static char vbuf[24 * 160]; size_t vlen = 0; long ncall = 0, nrefl = 0, nskip = 0, nok = 0, nerr = 0, nv = 0;
      const char *cname = unesc(tok[1], b1);
      if (cname && cname[0] == '#') {                  /* `#<i>`: the i-th name of Crystal_GetCrystalsList(NULL) — `cedge end=<count>` beyond the list */
        int n = 0, i = atoi(cname + 1); fail_hold++; char **lst = Crystal_GetCrystalsList(NULL, &n, NULL); fail_hold--;
        if (!lst || i < 0 || i >= n) { free_list(lst, lst ? n : 0); fail_at = 0; printf("cedge end=%d\n", lst ? n : -1); continue; }
        snprintf(b2, sizeof b2, "%s", lst[i]); free_list(lst, n); cname = b2;
      }
      fail_hold++; Crystal_Struct *c = Crystal_GetCrystal(cname, NULL, NULL); fail_hold--;
      if (!c) { fail_at = 0; printf("bad-op\n"); continue; }
      vbuf[0] = 0;
      for (int h = -hmax; h <= hmax; h++) for (int kk = -hmax; kk <= hmax; kk++) for (int l = -hmax; l <= hmax; l++) {
        double d = Crystal_dSpacing(c, h, kk, l, NULL);
        if (!(d > 0.0) || !isfinite(d)) { nskip++; continue; }
        nrefl++;
        double E0 = KEV2ANGST / (2 * d);
        for (int j = -ulps; j <= ulps; j++) {
          double E = E0; for (int s = 0; s < abs(j); s++) E = nextafter(E, j < 0 ? 0.0 : INFINITY);
          for (int fn = 0; fn < 6; fn++) {
            double re[2] = { 0, 0 }, im[2] = { 0, 0 }; int he = 0, hc = -1; long hm = 0;
            for (int ns = 0; ns < 2; ns++) {               /* ns = 0: with an (empty) slot; 1: without */
              xrl_error *e2 = NULL; xrl_error **q = ns ? NULL : &e2; xrlComplex z = { 0, 0 };
              if (fn == 0) z.re = Bragg_angle(c, E, h, kk, l, q);
              else if (fn <= 3) z.re = Q_scattering_amplitude(c, E, h, kk, l, rels[fn - 1], q);
              else if (fn == 4) z = Crystal_F_H_StructureFactor(c, E, h, kk, l, 1.0, 1.0, q);
              else z = Crystal_F_H_StructureFactor_Partial(c, E, h, kk, l, 1.0, 1.0, 2, 2, 2, q);
              re[ns] = z.re; im[ns] = z.im; ncall++;
              if (!ns) { he = e2 != NULL; if (e2) { hc = (int)e2->code; hm = e2->message ? (long)strlen(e2->message) : -1; xrl_clear_error(&e2); } }
            }
            int w = -1, wn = -1;
            if (he) { nerr++; if (re[0] != 0.0 || im[0] != 0.0 || hc != (int)XRL_ERROR_INVALID_ARGUMENT || hm <= 0) w = 2; }
            else { nok++; if (!isfinite(re[0]) || !isfinite(im[0])) w = 1; }
            if (memcmp(&re[0], &re[1], 8) || memcmp(&im[0], &im[1], 8)) wn = 3;
            else if (!he && (!isfinite(re[1]) || !isfinite(im[1]))) wn = 1;
            for (int ns = 0; ns < 2; ns++) {
              int ww = ns ? wn : w; if (ww < 0) continue;
              nv++;
              if (nv <= 24) {
                uint64_t eb, rb, ib; memcpy(&eb, &E, 8); memcpy(&rb, &re[ns], 8); memcpy(&ib, &im[ns], 8);
                vlen += (size_t)snprintf(vbuf + vlen, sizeof vbuf - vlen, " | %d %d %d %d x%016llx %c x%016llx x%016llx e=%d c=%d m=%ld w=%d", fn, h, kk, l,
                                         (unsigned long long)eb, ns ? 'N' : 'S', (unsigned long long)rb, (unsigned long long)ib, ns ? 0 : he, ns ? -1 : hc, ns ? 0 : hm, ww);
              }
            }
          }
        }
      }
      snprintf(b2, sizeof b2, "%s", c->name ? c->name : "?");
      Crystal_Free(c);
      fail_at = 0; diag_check();
      printf("cedge name=%s calls=%ld refl=%ld skipped=%ld ok=%ld err=%ld nv=%ld d=%ld ow=%d%s\n", b2, ncall, nrefl, nskip, nok, nerr, nv, live_blocks - base, ow, vbuf);
      continue;
    }
    else if (!strcmp(op, "af") && nt == 5) {        /* af <Z> <E> <q> <debye> */
      double f0 = 0, fp = 0, fpp = 0;
      rc = Atomic_Factors(atoi(tok[1]), dbl(tok[2]), dbl(tok[3]), dbl(tok[4]), &f0, &fp, &fpp, ep);
      val = fabs(f0) + fabs(fp) + fabs(fpp); isnum = 1;
    }
    else if (!strcmp(op, "null") && nt == 2) { rc = null_call(atoi(tok[1]), ep, ep ? &e : NULL); }
    else if (!strcmp(op, "misc") && nt >= 2) {
      int k = atoi(tok[1]);
      if (k == 0) { XRayInit(); XRayInit(); rc = AtomicWeight(26, NULL) > 0; }
      else if (k == 1) { SetHardExit(1); SetExitStatus(3); rc = GetExitStatus() == 0; SetErrorMessages(0); rc = rc && GetErrorMessages() == 0; rc = rc && AtomicWeight(-1, NULL) == 0.0; }
      else if (k == 2 && nt == 6) { xrlComplex x = { dbl(tok[2]), dbl(tok[3]) }, y = { dbl(tok[4]), dbl(tok[5]) }; xrlComplex z = c_mul(x, y); val = c_abs(z); isnum = 1;
        rc = z.re == x.re * y.re - x.im * y.im && z.im == x.re * y.im + x.im * y.re; }
      else if (k == 3) { char *a = xrl_strdup("abc"), *b = xrl_strndup("abcdef", 4); void *m = xrl_malloc(24);
        rc = a && b && m && !strcmp(a, "abc") && !strcmp(b, "abcd"); if (m) memset(m, 0, 24); xrlFree(a); xrlFree(b); xrlFree(m); }
      else if (k == 4) { xrl_error *e2 = NULL; fail_hold++; xrl_set_error(&e2, XRL_ERROR_IO, "io %d", 7); fail_hold--;
        rc = xrl_error_matches(e2, XRL_ERROR_IO) == 1 && xrl_error_matches(e2, XRL_ERROR_MEMORY) == 0;
        xrl_error *c2 = xrl_error_copy(e2); rc = rc && (!c2 || (c2 != e2 && c2->code == e2->code && c2->message != e2->message && c2->message && !strcmp(c2->message, "io 7")));
        if (!c2 && !fail_fired) rc = 0; xrl_error_free(c2); xrl_error_free(e2); }
      else { fail_at = 0; printf("bad-op\n"); continue; }
    }
    else if (!strcmp(op, "bfill") && nt == 2) {
      /* fill the BUILT-IN crystal collection with renamed copies of Si until it refuses, then n more refused additions: what a
         successful addition keeps is owned by the collection; a REFUSED addition must leave no block behind (rc = successes) */
      int n = atoi(tok[1]); long leaked = 0; Crystal_Struct *src = Crystal_GetCrystal("Si", NULL, NULL);
      for (int i = 0, refused = 0; src && i < 600 + n && refused < n; i++) {
        char nm[32]; snprintf(nm, sizeof nm, "Fill%04d", i);
        Crystal_Struct *c = Crystal_MakeCopy(src, NULL); free(c->name); c->name = strdup(nm);
        long b0 = live_blocks; xrl_error *e2 = NULL;
        int ok = Crystal_AddCrystal(c, NULL, &e2);
        if (ok) rc++; else { refused++; }
        if (e2) { ecode = (int)e2->code; xrl_clear_error(&e2); }
        if (!ok) leaked += live_blocks - b0;
        Crystal_Free(c);
      }
      Crystal_Free(src);
      { int keep = ecode; printf("%ld d=%ld e=0", rc, leaked); ecode = keep; emlen = 0; tail(0, 0.0); } continue;
    }
    else if (!strcmp(op, "clist")) { int n = 0; char **l = Crystal_GetCrystalsList(NULL, &n, ep); rc = l ? n : 0; free_list(l, n); }
    else if (!strcmp(op, "ainit") && nt == 2) {
      if (arr) { fail_at = 0; printf("bad-op\n"); continue; }
      arr_base = live_blocks; arr_held0 = held_blocks; arr = Crystal_ArrayInit(atoi(tok[1]), ep); rc = arr != NULL;
      had = fin(&e);
      if (arr) printf("%ld d=%s e=%d", rc, "open", had); else printf("%ld d=%ld e=%d", rc, live_blocks - arr_base, had);     /* a refused array: nothing may be left */
      tail(0, 0.0); continue;
    }
    else if (!strcmp(op, "aadd") && nt == 3) {
      if (!arr) { fail_at = 0; printf("bad-op\n"); continue; }
      fail_hold++; Crystal_Struct *c = Crystal_GetCrystal(unesc(tok[1], b1), NULL, ep); fail_hold--;
      if (c) {
        fail_hold++; Crystal_Struct *d = Crystal_MakeCopy(c, ep); fail_hold--;
        if (d) { free(d->name); d->name = h_strdup(unesc(tok[2], b2)); rc = Crystal_AddCrystal(d, arr, ep); Crystal_Free(d); }
        Crystal_Free(c);
      }
      had = fin(&e); printf("%ld d=%s e=%d", rc, "open", had); tail(0, 0.0); continue;
    }
    else if (!strcmp(op, "aread") && nt == 2) {
      if (!arr) { fail_at = 0; printf("bad-op\n"); continue; }
      rc = Crystal_ReadFile(unesc(tok[1], b1), arr, ep);
      had = fin(&e); printf("%ld d=%s e=%d", rc, "open", had); tail(0, 0.0); continue;
    }
    else if (!strcmp(op, "aget") && nt == 2) {
      if (!arr) { fail_at = 0; printf("bad-op\n"); continue; }
      Crystal_Struct *c = Crystal_GetCrystal(unesc(tok[1], b1), arr, ep); rc = c != NULL;
      if (c) { Crystal_Struct *d = Crystal_MakeCopy(c, ep); Crystal_Free(d); Crystal_Free(c); }
      had = fin(&e); printf("%ld d=%s e=%d", rc, "open", had); tail(0, 0.0); continue;
    }
    else if (!strcmp(op, "ahold") && nt == 2) {       /* a copy handed out by the array stays with the caller across later mutations and afree */
      if (!arr || nheld == 16) { fail_at = 0; printf("bad-op\n"); continue; }
      long b0 = live_blocks; Crystal_Struct *c = Crystal_GetCrystal(unesc(tok[1], b1), arr, ep); rc = c != NULL;
      if (c) { held_d[nheld] = Crystal_dSpacing(c, 1, 1, 1, NULL); held_v[nheld] = Crystal_UnitCellVolume(c, NULL); held_n[nheld] = c->n_atom;
               snprintf(held_name[nheld], sizeof held_name[nheld], "%s", c->name ? c->name : ""); held[nheld++] = c; held_blocks += live_blocks - b0; }
      had = fin(&e); printf("%ld d=%s e=%d", rc, "open", had); tail(0, 0.0); continue;
    }
    else if (!strcmp(op, "adrop")) {                  /* use every kept copy (it must still be a complete crystal), then release it */
      long b0 = live_blocks; rc = nheld;
      for (int i = 0; i < nheld; i++) {
        Crystal_Struct *c = held[i]; double d1 = Crystal_dSpacing(c, 1, 1, 1, NULL), v1 = Crystal_UnitCellVolume(c, NULL);
        Crystal_Struct *d = Crystal_MakeCopy(c, NULL);      /* the copy is what it was when it was handed out (bit for bit), and can itself be copied */
        if (!d || memcmp(&d1, &held_d[i], 8) || memcmp(&v1, &held_v[i], 8) || !c->name || strncmp(c->name, held_name[i], 63) || c->n_atom != held_n[i] || (d && d->n_atom != c->n_atom)) rc = -1;
        Crystal_Free(d); Crystal_Free(c);
      }
      long dd = (live_blocks - b0) + held_blocks; nheld = 0; held_blocks = 0;
      fail_at = 0; ecode = -1; emlen = 0;
      if (arr) { arr_base += 0; printf("%ld d=%s e=0", rc, dd == 0 ? "open" : "held-imbalance"); } else printf("%ld d=%ld e=0", rc, dd);
      tail(0, 0.0); continue;
    }
    else if (!strcmp(op, "alist")) {
      if (!arr) { fail_at = 0; printf("bad-op\n"); continue; }
      int n = 0; char **l = Crystal_GetCrystalsList(arr, &n, ep); rc = l ? n : 0; free_list(l, n);
      had = fin(&e); printf("%ld d=%s e=%d", rc, "open", had); tail(0, 0.0); continue;
    }
    else if (!strcmp(op, "afree")) {
      if (!arr) { fail_at = 0; printf("bad-op\n"); continue; }
      Crystal_ArrayFree(arr); arr = NULL;
      ecode = -1; emlen = 0;
      printf("0 d=%ld e=0", live_blocks - arr_base - (held_blocks - arr_held0)); tail(0, 0.0); continue;
    }
    else if (!strcmp(op, "err") && nt == 2) {
      int k = atoi(tok[1]); xrl_error *e2 = NULL;
      if (k == 0) { xrl_set_error_literal(&e, XRL_ERROR_INVALID_ARGUMENT, "literal"); }
      else if (k == 1) { xrl_set_error(&e, XRL_ERROR_RUNTIME, "formatted %d %s", 42, "text"); }
      else if (k == 2) { xrl_set_error(&e2, XRL_ERROR_IO, "inner %g", 1.5); xrl_propagate_error(&e, e2); }
      else if (k == 3) { xrl_set_error_literal(&e2, XRL_ERROR_MEMORY, "dropped"); xrl_propagate_error(NULL, e2); }
      else if (k == 4) { xrl_set_error_literal(NULL, XRL_ERROR_MEMORY, "nowhere"); xrl_clear_error(NULL); xrl_clear_error(&e); }
      else if (k == 5) { xrl_set_error(&e, XRL_ERROR_TYPE, "%s", "copy me"); xrl_error *c = xrl_error_copy(e); xrl_error_free(c); }
      else if (k >= 6 && k <= 11) {
        /* an error object handed back by one call must not be affected by later calls: the slot still holds it when a later
           call fails (directly, or one level down through a temporary error that is propagated) */
        xrl_set_error_literal(&e, XRL_ERROR_RUNTIME, "first error");
        xrl_error *q0 = e; int c0 = (int)e->code; double f0 = 0, f1 = 0, f2 = 0;
        if (k == 6) DCS_Compt(26, 10.0, 0.0, &e);
        else if (k == 7) CS_Total_CP("H2O", -1.0, &e);
        else if (k == 8) Atomic_Factors(-1, 8.0, 1.0, 1.0, &f0, &f1, &f2, &e);
        else if (k == 9) AtomicWeight(-1, &e);
        else if (k == 10) { Crystal_Struct *c = Crystal_GetCrystal("Si", NULL, NULL); Crystal_F_H_StructureFactor(c, -1.0, 1, 1, 1, 1.0, 1.0, &e); Crystal_Free(c); }
        else CompoundParser("(", &e);
        rc = (e == q0 && e != NULL && (int)e->code == c0 && e->message && !strcmp(e->message, "first error"));
        had = fin(&e);
        if (arr) printf("%ld d=%s e=%d", rc, "open", had); else printf("%ld d=%ld e=%d", rc, live_blocks - base, had);
        tail(0, 0.0); continue;
      }
      rc = e != NULL;
    }
    else { fail_at = 0; if (e) xrl_clear_error(&e); printf("bad-op\n"); continue; }
    had = fin(&e);
    if (arr) printf("%ld d=%s e=%d", rc, "open", had);       /* inside a user-array bracket the balance is taken at afree */
    else printf("%ld d=%ld e=%d", rc, live_blocks - base, had);
    tail(isnum, val);
  }
  for (int i = 0; i < nheld; i++) Crystal_Free(held[i]);
  if (arr) { Crystal_ArrayFree(arr); ecode = -1; emlen = 0; printf("0 d=%ld e=0", live_blocks - arr_base - (held_blocks - arr_held0)); tail(0, 0.0); }
  return 0;
}
