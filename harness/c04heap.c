/* C04 heap harness: call histories over the ALLOCATING part of the public API, every object released with its
   documented free function, allocation counter around each operation.

   Built by ./check C04 against the library objects compiled from the working tree with ASan+UBSan and linked with
   -Wl,--wrap=malloc,--wrap=calloc,--wrap=realloc,--wrap=free,--wrap=strdup,--wrap=strndup,--wrap=vasprintf.
   The oracle is the property text itself (no model needed): after a finished call and the release of what it handed
   out, the process holds no block allocated on behalf of that call (`d=0`), on success and on failure paths; no
   sanitizer report.  Operations that keep state on purpose (a user crystal array between `ainit` and `afree`) are
   balanced over the whole bracket: `afree` prints the balance since the matching `ainit`.

   One operation per line, strings %-escaped as in c07drv.c (`%` alone = empty string, `%00NULL` = NULL pointer):
     cp <s>                      CompoundParser + FreeCompoundData
     nistn <s> | nisti <i> | nistl          NIST catalogue by name / index / list (freed with xrlFree)
     radn <s> | radi <i> | radl             radionuclides
     z2s <Z> | s2z <s>
     cscp <k> <s> <E> <theta> <phi>         the k-th _CP function (0..20)
     ri <k> <s> <E> <density>               0 Re, 1 Im, 2 complex
     cget <s> | ccopy <s> | clist           built-in crystal array: lookup (a copy, released with Crystal_Free), MakeCopy+Free, names list
     ainit <n> | aadd <s> <newname> | aread <path> | aget <s> | alist | afree      one user crystal array at a time
     cfun <k> <crystal> <E> <h> <k> <l> <debye>   Bragg_angle, Q_scattering_amplitude, F_H, F_H_Partial, UnitCellVolume, dSpacing on a copy
     af <Z> <E> <q> <debye>                 Atomic_Factors
     err <k>                                xrl_error object life cycles (set / propagate / clear); k = 6..11: a later failing call
                                            is handed a slot that still holds an error (rc = 1 iff that error object is untouched)
   A line prefixed `N:` runs the same operation WITHOUT an error slot.
   Answer:  `<rc> d=<live blocks after the operation and its releases minus before> e=<0|1 error object was set> c=<error code|-1> m=<message length> v=<x + bits of the numeric result | ->`
   (rc: 1/0 = non-NULL / NULL for constructors, value != 0 for numeric functions, count for lists) */
#include "config.h"
#include <stdio.h>
#include <stdlib.h>
#include <string.h>
#include <stdint.h>
#include <stdarg.h>
#include <locale.h>
#include <math.h>
#include "xraylib.h"
#include "xraylib-error-private.h"

static long live_blocks = 0;
void *__real_malloc(size_t); void *__real_calloc(size_t, size_t); void *__real_realloc(void *, size_t);
void __real_free(void *); char *__real_strdup(const char *); char *__real_strndup(const char *, size_t);
int __real_vasprintf(char **, const char *, va_list);
void *__wrap_malloc(size_t n) { void *p = __real_malloc(n); if (p) live_blocks++; return p; }
void *__wrap_calloc(size_t a, size_t b) { void *p = __real_calloc(a, b); if (p) live_blocks++; return p; }
void *__wrap_realloc(void *q, size_t n) { void *p = __real_realloc(q, n); if (!q && p) live_blocks++; return p; }
void __wrap_free(void *p) { if (p) live_blocks--; __real_free(p); }
char *__wrap_strdup(const char *s) { char *p = __real_strdup(s); if (p) live_blocks++; return p; }
char *__wrap_strndup(const char *s, size_t n) { char *p = __real_strndup(s, n); if (p) live_blocks++; return p; }
int __wrap_vasprintf(char **out, const char *fmt, va_list ap) { int r = __real_vasprintf(out, fmt, ap); if (r >= 0 && *out) live_blocks++; return r; }

static int hexv(int c) { return c <= '9' ? c - '0' : (c | 32) - 'a' + 10; }
static char *unesc(const char *s, char *out) {
  char *o = out;
  if (!strcmp(s, "%00NULL")) return NULL;
  if (s[0] == '%' && s[1] == 0) { *o = 0; return out; }
  while (*s) {
    if (*s == '%' && s[1] && s[2]) { *o++ = (char)(hexv((unsigned char)s[1]) * 16 + hexv((unsigned char)s[2])); s += 3; }
    else *o++ = *s++;
  }
  *o = 0; return out;
}
static double dbl(const char *t) { if (t[0] == 'x') { uint64_t b = strtoull(t + 1, NULL, 16); double d; memcpy(&d, &b, 8); return d; } return strtod(t, NULL); }

typedef double (*cp1)(const char *, double, xrl_error **);
typedef double (*cp2)(const char *, double, double, xrl_error **);
typedef double (*cp3)(const char *, double, double, double, xrl_error **);
static cp1 F1[] = { CS_Total_CP, CS_Photo_CP, CS_Rayl_CP, CS_Compt_CP, CSb_Total_CP, CSb_Photo_CP, CSb_Rayl_CP, CSb_Compt_CP,
                    CS_Photo_Total_CP, CSb_Photo_Total_CP, CS_Total_Kissel_CP, CSb_Total_Kissel_CP, CS_Energy_CP };
static cp2 F2[] = { DCS_Rayl_CP, DCS_Compt_CP, DCSb_Rayl_CP, DCSb_Compt_CP };
static cp3 F3[] = { DCSP_Rayl_CP, DCSP_Compt_CP, DCSPb_Rayl_CP, DCSPb_Compt_CP };

static void free_list(char **l, int n) { if (!l) return; for (int i = 0; i < n; i++) xrlFree(l[i]); xrlFree(l); }
static int ecode = -1; static long emlen = 0;
static int fin(xrl_error **e) { int had = *e != NULL; ecode = -1; emlen = 0; if (*e) { ecode = (int)(*e)->code; emlen = (*e)->message ? (long)strlen((*e)->message) : -1; xrl_clear_error(e); } return had; }
static void tail(int isnum, double val) { uint64_t b; memcpy(&b, &val, 8); printf(" c=%d m=%ld v=%s%016llx\n", ecode, emlen, isnum ? "x" : "-", (unsigned long long)(isnum ? b : 0)); }

int main(void) {
  static char line[1 << 16], b1[1 << 16], b2[1 << 12];
  char *tok[8];
  Crystal_Array *arr = NULL; long arr_base = 0;
  setlocale(LC_ALL, "");      /* the process locale comes from the environment (the check runs the histories under C and under C.UTF-8) */
  setvbuf(stdout, NULL, _IOLBF, 1 << 12);
  while (fgets(line, sizeof line, stdin)) {
    int nt = 0;
    for (char *p = strtok(line, " \n"); p && nt < 8; p = strtok(NULL, " \n")) tok[nt++] = p;
    if (nt == 0) continue;
    xrl_error *e = NULL; long base = live_blocks; long rc = 0; int had = 0; double val = 0.0; int isnum = 0;
    const char *op = tok[0];
    xrl_error **ep = &e;
    if (op[0] == 'N' && op[1] == ':') { ep = NULL; op += 2; }      /* the same operation without an error slot */
    if (!strcmp(op, "cp") && nt == 2) { struct compoundData *cd = CompoundParser(unesc(tok[1], b1), ep); rc = cd != NULL; if (cd) FreeCompoundData(cd); }
    else if (!strcmp(op, "nistn") && nt == 2) { struct compoundDataNIST *c = GetCompoundDataNISTByName(unesc(tok[1], b1), ep); rc = c != NULL; if (c) FreeCompoundDataNIST(c); }
    else if (!strcmp(op, "nisti") && nt == 2) { struct compoundDataNIST *c = GetCompoundDataNISTByIndex(atoi(tok[1]), ep); rc = c != NULL; if (c) FreeCompoundDataNIST(c); }
    else if (!strcmp(op, "nistl")) { int n = 0; char **l = GetCompoundDataNISTList(&n, ep); rc = n; free_list(l, n); }
    else if (!strcmp(op, "radn") && nt == 2) { struct radioNuclideData *c = GetRadioNuclideDataByName(unesc(tok[1], b1), ep); rc = c != NULL; if (c) FreeRadioNuclideData(c); }
    else if (!strcmp(op, "radi") && nt == 2) { struct radioNuclideData *c = GetRadioNuclideDataByIndex(atoi(tok[1]), ep); rc = c != NULL; if (c) FreeRadioNuclideData(c); }
    else if (!strcmp(op, "radl")) { int n = 0; char **l = GetRadioNuclideDataList(&n, ep); rc = n; free_list(l, n); }
    else if (!strcmp(op, "z2s") && nt == 2) { char *s = AtomicNumberToSymbol(atoi(tok[1]), ep); rc = s != NULL; if (s) xrlFree(s); }
    else if (!strcmp(op, "s2z") && nt == 2) { rc = SymbolToAtomicNumber(unesc(tok[1], b1), ep); }
    else if (!strcmp(op, "cscp") && nt == 6) {
      int k = atoi(tok[1]); const char *s = unesc(tok[2], b1); double E = dbl(tok[3]), th = dbl(tok[4]), ph = dbl(tok[5]); double v;
      if (k < 13) v = F1[k](s, E, ep); else if (k < 17) v = F2[k - 13](s, E, th, ep); else v = F3[(k - 17) % 4](s, E, th, ph, ep);
      rc = v != 0.0; val = v; isnum = 1;
    }
    else if (!strcmp(op, "ri") && nt == 5) {
      int k = atoi(tok[1]); const char *s = unesc(tok[2], b1); double E = dbl(tok[3]), rho = dbl(tok[4]);
      if (k == 0) { val = Refractive_Index_Re(s, E, rho, ep); rc = val != 0.0; } else if (k == 1) { val = Refractive_Index_Im(s, E, rho, ep); rc = val != 0.0; }
      else { xrlComplex z = Refractive_Index(s, E, rho, ep); rc = z.re != 0.0 || z.im != 0.0; val = z.re + z.im; }
      isnum = 1;
    }
    else if (!strcmp(op, "cget") && nt == 2) { Crystal_Struct *c = Crystal_GetCrystal(unesc(tok[1], b1), NULL, ep); rc = c != NULL; Crystal_Free(c); }
    else if (!strcmp(op, "ccopy") && nt == 2) {
      Crystal_Struct *c = Crystal_GetCrystal(unesc(tok[1], b1), NULL, ep);
      if (c) { Crystal_Struct *d = Crystal_MakeCopy(c, ep); rc = d != NULL; Crystal_Free(d); Crystal_Free(c); }
    }
    else if (!strcmp(op, "cfun") && nt == 8) {      /* cfun <k> <crystal> <E> <h> <k> <l> <debye>: the numeric crystal functions on a copy of a built-in crystal */
      int k = atoi(tok[1]); double E = dbl(tok[3]); int h = atoi(tok[4]), kk = atoi(tok[5]), l = atoi(tok[6]); double deb = dbl(tok[7]);
      Crystal_Struct *c = Crystal_GetCrystal(unesc(tok[2], b1), NULL, NULL);
      /* an unknown name gives c = NULL: the functions must reject a NULL crystal with an error */
      if (k == 0) val = Bragg_angle(c, E, h, kk, l, ep);
      else if (k == 1) val = Q_scattering_amplitude(c, E, h, kk, l, 1.0, ep);
      else if (k == 2) { xrlComplex z = Crystal_F_H_StructureFactor(c, E, h, kk, l, deb, 1.0, ep); val = fabs(z.re) + fabs(z.im); }
      else if (k == 3) { xrlComplex z = Crystal_F_H_StructureFactor_Partial(c, E, h, kk, l, deb, 1.0, 2, 2, 2, ep); val = fabs(z.re) + fabs(z.im); }
      else if (k == 4) val = Crystal_UnitCellVolume(c, ep);
      else val = Crystal_dSpacing(c, h, kk, l, ep);
      rc = val != 0.0; isnum = 1;
      Crystal_Free(c);
    }
    else if (!strcmp(op, "af") && nt == 5) {        /* af <Z> <E> <q> <debye> */
      double f0 = 0, fp = 0, fpp = 0;
      rc = Atomic_Factors(atoi(tok[1]), dbl(tok[2]), dbl(tok[3]), dbl(tok[4]), &f0, &fp, &fpp, ep);
      val = fabs(f0) + fabs(fp) + fabs(fpp); isnum = 1;
    }
    else if (!strcmp(op, "bfill") && nt == 2) {
      /* fill the BUILT-IN crystal collection with renamed copies of Si until it refuses, then n more refused additions: what a
         successful addition keeps is owned by the collection; a REFUSED addition must leave no block behind (rc = successes) */
      int n = atoi(tok[1]); long leaked = 0; Crystal_Struct *src = Crystal_GetCrystal("Si", NULL, NULL);
      for (int i = 0, refused = 0; src && i < 600 + n && refused < n; i++) {
        char nm[32]; snprintf(nm, sizeof nm, "Fill%04d", i);
        Crystal_Struct *c = Crystal_MakeCopy(src, NULL); free(c->name); c->name = strdup(nm);
        long b0 = live_blocks; xrl_error *e2 = NULL;
        int ok = Crystal_AddCrystal(c, NULL, &e2);
        if (ok) rc++; else { refused++; }
        if (e2) xrl_clear_error(&e2);
        if (!ok) leaked += live_blocks - b0;
        Crystal_Free(c);
      }
      Crystal_Free(src);
      printf("%ld d=%ld e=0", rc, leaked); tail(0, 0.0); continue;
    }
    else if (!strcmp(op, "clist")) { int n = 0; char **l = Crystal_GetCrystalsList(NULL, &n, ep); rc = n; free_list(l, n); }
    else if (!strcmp(op, "ainit") && nt == 2) {
      if (arr) { printf("bad-op\n"); continue; }
      arr_base = live_blocks; arr = Crystal_ArrayInit(atoi(tok[1]), ep); rc = arr != NULL;
      had = fin(&e); printf("%ld d=%s e=%d", rc, "open", had); tail(0, 0.0); continue;
    }
    else if (!strcmp(op, "aadd") && nt == 3) {
      if (!arr) { printf("bad-op\n"); continue; }
      Crystal_Struct *c = Crystal_GetCrystal(unesc(tok[1], b1), NULL, ep);
      if (c) {
        Crystal_Struct *d = Crystal_MakeCopy(c, ep);
        if (d) { free(d->name); d->name = strdup(unesc(tok[2], b2)); rc = Crystal_AddCrystal(d, arr, ep); Crystal_Free(d); }
        Crystal_Free(c);
      }
      had = fin(&e); printf("%ld d=%s e=%d", rc, "open", had); tail(0, 0.0); continue;
    }
    else if (!strcmp(op, "aread") && nt == 2) {
      if (!arr) { printf("bad-op\n"); continue; }
      rc = Crystal_ReadFile(unesc(tok[1], b1), arr, ep);
      had = fin(&e); printf("%ld d=%s e=%d", rc, "open", had); tail(0, 0.0); continue;
    }
    else if (!strcmp(op, "aget") && nt == 2) {
      if (!arr) { printf("bad-op\n"); continue; }
      Crystal_Struct *c = Crystal_GetCrystal(unesc(tok[1], b1), arr, ep); rc = c != NULL;
      if (c) { Crystal_Struct *d = Crystal_MakeCopy(c, ep); Crystal_Free(d); Crystal_Free(c); }
      had = fin(&e); printf("%ld d=%s e=%d", rc, "open", had); tail(0, 0.0); continue;
    }
    else if (!strcmp(op, "alist")) {
      if (!arr) { printf("bad-op\n"); continue; }
      int n = 0; char **l = Crystal_GetCrystalsList(arr, &n, ep); rc = n; free_list(l, n);
      had = fin(&e); printf("%ld d=%s e=%d", rc, "open", had); tail(0, 0.0); continue;
    }
    else if (!strcmp(op, "afree")) {
      if (!arr) { printf("bad-op\n"); continue; }
      Crystal_ArrayFree(arr); arr = NULL;
      printf("0 d=%ld e=0\n", live_blocks - arr_base); continue;
    }
    else if (!strcmp(op, "err") && nt == 2) {
      int k = atoi(tok[1]); xrl_error *e2 = NULL;
      if (k == 0) { xrl_set_error_literal(&e, XRL_ERROR_INVALID_ARGUMENT, "literal"); }
      else if (k == 1) { xrl_set_error(&e, XRL_ERROR_RUNTIME, "formatted %d %s", 42, "text"); }
      else if (k == 2) { xrl_set_error(&e2, XRL_ERROR_IO, "inner %g", 1.5); xrl_propagate_error(&e, e2); }
      else if (k == 3) { xrl_set_error_literal(&e2, XRL_ERROR_MEMORY, "dropped"); xrl_propagate_error(NULL, e2); }
      else if (k == 4) { xrl_set_error_literal(NULL, XRL_ERROR_MEMORY, "nowhere"); xrl_clear_error(NULL); xrl_clear_error(&e); }
      else if (k == 5) { xrl_set_error(&e, XRL_ERROR_TYPE, "%s", "copy me"); xrl_error *c = xrl_error_copy(e); xrl_error_free(c); }
      else if (k >= 6 && k <= 11) {
        /* an error object handed back by one call must not be affected by later calls: the slot still holds it when a later
           call fails (directly, or one level down through a temporary error that is propagated) */
        xrl_set_error_literal(&e, XRL_ERROR_RUNTIME, "first error");
        xrl_error *p0 = e; int c0 = (int)e->code; double f0 = 0, f1 = 0, f2 = 0;
        if (k == 6) DCS_Compt(26, 10.0, 0.0, &e);
        else if (k == 7) CS_Total_CP("H2O", -1.0, &e);
        else if (k == 8) Atomic_Factors(-1, 8.0, 1.0, 1.0, &f0, &f1, &f2, &e);
        else if (k == 9) AtomicWeight(-1, &e);
        else if (k == 10) { Crystal_Struct *c = Crystal_GetCrystal("Si", NULL, NULL); Crystal_F_H_StructureFactor(c, -1.0, 1, 1, 1, 1.0, 1.0, &e); Crystal_Free(c); }
        else CompoundParser("(", &e);
        rc = (e == p0 && e != NULL && (int)e->code == c0 && e->message && !strcmp(e->message, "first error"));
        had = fin(&e);
        if (arr) printf("%ld d=%s e=%d", rc, "open", had); else printf("%ld d=%ld e=%d", rc, live_blocks - base, had);
        tail(0, 0.0); continue;
      }
      rc = e != NULL;
    }
    else { printf("bad-op\n"); continue; }
    had = fin(&e);
    if (arr) printf("%ld d=%s e=%d", rc, "open", had);       /* inside a user-array bracket the balance is taken at afree */
    else printf("%ld d=%ld e=%d", rc, live_blocks - base, had);
    tail(isnum, val);
  }
  if (arr) { Crystal_ArrayFree(arr); printf("0 d=%ld e=0\n", live_blocks - arr_base); }
  return 0;
}
