/* Correspondence driver for the real library: reads the line protocol on stdin (see lean/Xrl/Core/Proto.lean),
   calls the function in-process and prints the answer.  Built by ./check against the library objects
   compiled from /repo's working tree (ASan+UBSan).  A sanitizer abort kills the process; the Python
   side records that as the answer to the line being executed and restarts the driver after it. */
#include "config.h"
#include <stdio.h>
#include <stdlib.h>
#include <string.h>
#include <stdint.h>
#include <math.h>
#include "xraylib.h"
#include "xrf_cross_sections_aux.h"

/* The library reports "xrl_error set over the top of a previous xrl_error" through fprintf(stderr, …) and carries on.  The
   model calls that outcome `abort overwrite`; to observe it here the C stream `stderr` (not file descriptor 2, which the
   sanitizers write to directly) is pointed at a temporary file, and a call during which that file grew is answered
   `abort overwrite` instead of `ok …`. */
static FILE *diag = NULL; static long diag_pos = 0; static int overwritten = 0;
static void diag_check(void) {
  if (!diag) return;
  fflush(diag); long cur = ftell(diag);
  overwritten = cur != diag_pos; diag_pos = cur;
}
/* Slot mode `P` (pre-filled; additive to the protocol of Proto.lean, used by the C03 search only): the call is handed a slot that
   ALREADY holds an error.  "No call ever stores an error over an existing one": afterwards the slot must hold the very same error
   object (same pointer, code, message).  The answer is `ok <value> P<1|0>:<number of overwrite diagnostics>`: the diagnostic is what the
   library is expected to print when a failing call finds the slot occupied, so it is reported, not turned into `abort overwrite`. */
void xrl_set_error_literal(xrl_error **err, xrl_error_code code, const char *message);
static char cur_mode = 'E'; static xrl_error *pre = NULL; static long pre_pos = 0;
static double pd(const char *s) { uint64_t b = strtoull(s + 1, NULL, 16); double d; memcpy(&d, &b, 8); return d; }
static void pr_d(double d) { uint64_t b; memcpy(&b, &d, 8); diag_check(); if (overwritten && cur_mode != 'P') printf("abort overwrite"); else printf("ok x%016llx", (unsigned long long)b); }
static void pr_i(int v) { diag_check(); if (overwritten && cur_mode != 'P') printf("abort overwrite"); else printf("ok %d", v); }
static void pr_slot(char mode, xrl_error *e) {
  if (mode == 'P') {
    int same = e != NULL && e == pre && (int)e->code == (int)XRL_ERROR_RUNTIME && e->message && !strcmp(e->message, "first error");
    int nd = 0;
    if (diag && diag_pos > pre_pos) {       /* count the diagnostics printed during the call */
      static char buf[1 << 14]; long n = diag_pos - pre_pos; if (n > (long)sizeof buf - 1) n = sizeof buf - 1;
      fseek(diag, pre_pos, SEEK_SET); n = (long)fread(buf, 1, (size_t)n, diag); buf[n > 0 ? n : 0] = 0; fseek(diag, diag_pos, SEEK_SET);
      for (const char *q = buf; (q = strstr(q, "xrl_error set over the top")) != NULL; q++) nd++;
    }
    printf(" P%d:%d\n", same, nd);
    if (e) xrl_error_free(e);
    overwritten = 0; cur_mode = 'E'; pre = NULL; return;
  }
  if (overwritten) { printf("\n"); if (e) xrl_error_free(e); overwritten = 0; return; }
  if (mode == 'N') printf(" N\n");
  else if (e == NULL) printf(" E\n");
  else { printf(" F%d:%s\n", (int)e->code, e->message ? e->message : "(null)"); xrl_error_free(e); }
}
#define SLOT(t) char mode = (t)[0]; xrl_error *e = NULL; xrl_error **ep = (mode == 'N') ? NULL : &e; cur_mode = mode; \
  if (mode == 'P') { xrl_set_error_literal(&e, XRL_ERROR_RUNTIME, "first error"); pre = e; diag_check(); pre_pos = diag_pos; }

/* hidden-state poisoning: the library must not READ errno (or any other thread state the application may have left behind).
   Before every operation the driver leaves a different value there, as an application that has just overflowed a strtod, taken
   the log of a negative number or failed an allocation would; the answers must not depend on it.  (Seeded changes C02-9, C06-9,
   C07-9, C12-9, C15-10, C16-7: "errno == ERANGE" tests without clearing errno first.) */
#include <errno.h>
#include <fenv.h>
static void xv_poison_errno(void) { static unsigned k; static const int v[4] = {ERANGE, EDOM, ENOMEM, 0};
  /* likewise the floating-point exception flags an application may have raised (seeded change C05-11: fetestexcept without feclearexcept) */
  feclearexcept(FE_ALL_EXCEPT); if ((k >> 2) & 1) feraiseexcept(FE_DIVBYZERO | FE_INVALID | FE_OVERFLOW);
  errno = v[k++ & 3]; }

#include "cdrv_gen.inc"
#ifdef CDRV_EXTRA
#include "cdrv_extra.inc"
#endif

int main(void) {
  static char line[1 << 16];
  char *tok[64];
  setvbuf(stdout, NULL, _IOLBF, 0);
  diag = tmpfile(); if (diag) stderr = diag;
  while (fgets(line, sizeof line, stdin)) {
    xv_poison_errno();
    int nt = 0;
    for (char *p = strtok(line, " \n"); p && nt < 64; p = strtok(NULL, " \n")) tok[nt++] = p;
    if (nt == 0) continue;
    if (!dispatch_gen(tok, nt)
#ifdef CDRV_EXTRA
        && !dispatch_extra(tok, nt)
#endif
       ) printf("bad-op\n");
  }
  return 0;
}
