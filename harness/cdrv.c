/* Correspondence driver for the real library: reads the line protocol on stdin (see lean/Xrl/Core/Proto.lean),
   calls the function in-process and prints the answer.  Built by ./check against the library objects
   compiled from /repo's working tree (ASan+UBSan).  A sanitizer abort kills the process; the Python
   side records that as the answer to the line being executed and restarts the driver after it. */
#include "config.h"
#include <stdio.h>
#include <stdlib.h>
#include <string.h>
#include <stdint.h>
#include <math.h>
#include "xraylib.h"
#include "xrf_cross_sections_aux.h"

static double pd(const char *s) { uint64_t b = strtoull(s + 1, NULL, 16); double d; memcpy(&d, &b, 8); return d; }
static void pr_d(double d) { uint64_t b; memcpy(&b, &d, 8); printf("ok x%016llx", (unsigned long long)b); }
static void pr_i(int v) { printf("ok %d", v); }
static void pr_slot(char mode, xrl_error *e) {
  if (mode == 'N') printf(" N\n");
  else if (e == NULL) printf(" E\n");
  else { printf(" F%d:%s\n", (int)e->code, e->message ? e->message : "(null)"); xrl_error_free(e); }
}
#define SLOT(t) char mode = (t)[0]; xrl_error *e = NULL; xrl_error **ep = (mode == 'N') ? NULL : &e

#include "cdrv_gen.inc"
#ifdef CDRV_EXTRA
#include "cdrv_extra.inc"
#endif

int main(void) {
  static char line[1 << 16];
  char *tok[64];
  setvbuf(stdout, NULL, _IOLBF, 0);
  while (fgets(line, sizeof line, stdin)) {
    int nt = 0;
    for (char *p = strtok(line, " \n"); p && nt < 64; p = strtok(NULL, " \n")) tok[nt++] = p;
    if (nt == 0) continue;
    if (!dispatch_gen(tok, nt)
#ifdef CDRV_EXTRA
        && !dispatch_extra(tok, nt)
#endif
       ) printf("bad-op\n");
  }
  return 0;
}
