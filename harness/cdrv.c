/* Correspondence driver for the real library: reads the line protocol on stdin (see lean/Xrl/Core/Proto.lean),
   calls the function in-process and prints the answer.  Built by ./check against the library objects
   compiled from /repo's working tree (ASan+UBSan).  A sanitizer abort kills the process; the Python
   side records that as the answer to the line being executed and restarts the driver after it. */
#include "config.h"
#include <stdio.h>
#include <stdlib.h>
#include <string.h>
#include <stdint.h>
#include <math.h>
#include "xraylib.h"
#include "xrf_cross_sections_aux.h"

/* The library reports "xrl_error set over the top of a previous xrl_error" through fprintf(stderr, …) and carries on.  The
   model calls that outcome `abort overwrite`; to observe it here the C stream `stderr` (not file descriptor 2, which the
   sanitizers write to directly) is pointed at a temporary file, and a call during which that file grew is answered
   `abort overwrite` instead of `ok …`. */
static FILE *diag = NULL; static long diag_pos = 0; static int overwritten = 0;
static void diag_check(void) {
  if (!diag) return;
  fflush(diag); long cur = ftell(diag);
  overwritten = cur != diag_pos; diag_pos = cur;
}
static double pd(const char *s) { uint64_t b = strtoull(s + 1, NULL, 16); double d; memcpy(&d, &b, 8); return d; }
static void pr_d(double d) { uint64_t b; memcpy(&b, &d, 8); diag_check(); if (overwritten) printf("abort overwrite"); else printf("ok x%016llx", (unsigned long long)b); }
static void pr_i(int v) { diag_check(); if (overwritten) printf("abort overwrite"); else printf("ok %d", v); }
static void pr_slot(char mode, xrl_error *e) {
  if (overwritten) { printf("\n"); if (e) xrl_error_free(e); overwritten = 0; return; }
  if (mode == 'N') printf(" N\n");
  else if (e == NULL) printf(" E\n");
  else { printf(" F%d:%s\n", (int)e->code, e->message ? e->message : "(null)"); xrl_error_free(e); }
}
#define SLOT(t) char mode = (t)[0]; xrl_error *e = NULL; xrl_error **ep = (mode == 'N') ? NULL : &e

#include "cdrv_gen.inc"
#ifdef CDRV_EXTRA
#include "cdrv_extra.inc"
#endif

int main(void) {
  static char line[1 << 16];
  char *tok[64];
  setvbuf(stdout, NULL, _IOLBF, 0);
  diag = tmpfile(); if (diag) stderr = diag;
  while (fgets(line, sizeof line, stdin)) {
    int nt = 0;
    for (char *p = strtok(line, " \n"); p && nt < 64; p = strtok(NULL, " \n")) tok[nt++] = p;
    if (nt == 0) continue;
    if (!dispatch_gen(tok, nt)
#ifdef CDRV_EXTRA
        && !dispatch_extra(tok, nt)
#endif
       ) printf("bad-op\n");
  }
  return 0;
}
