/* C16 tie: one process, one history.

   c16_hist hist  <ops> <regions>   execute every op of <ops> in this process, in order
   c16_hist fresh <ops> <regions>   execute every op in its own child forked from this process BEFORE it has made
                                    any library call: each child is a process without call history
   c16_hist one   <ops> <regions>   like hist, but meant to be exec'ed with a single op (a genuinely fresh process)

   Output: `R <index> <complete outcome of the op>` per op (see xrl_ops.h); appended to it, when the op had that effect:
     ` STDOUT+<n>`  the call wrote n bytes to standard output
     ` LOCALE><s>`  setlocale(LC_ALL, NULL) is <s> after the call and was something else before it (every category, per call)
     ` ARR!`        the CONTENTS of the built-in crystal array (entries, names, atoms, counts) differ from before the call
     ` FDS:<a>><b>` the number of open file descriptors (0..63) was a before the call and is b after it (every call, not only the file ops)
     ` APP!<probe>:<detail>`  a piece of C-library state that the APPLICATION has in progress across the call was disturbed by it (see "hidden
                    cursors" below): strtok, rand, lrand48, getenv, tm (localtime/gmtime buffer), asctime, tmpnam, strerror, getopt, stdin, stdout, lconv,
                    uselocale / threadlocale (the calling thread's own locale object: see XRLV_THREAD_LOCALE below)
   errno is carried from the end of one op to the start of the next (what the harness itself does in between — observers, protocol output —
   is invisible to the library, as in an application that makes the calls back to back); a process without history starts with errno = 0.
   Directives in <ops>:
     !state     S <LC_ALL locale string> | <LC_NUMERIC> | <cwd> | <FNV-1a of every data region> | <every locale category> |
                  <process state: hash of environ, sigaction of eight signals, signal mask, rounding mode, open descriptors, umask> |
                  <observations, NOT compared: errno as the last op left it, floating-point exception flags, tl=global|own|other:<CODESET of the thread's locale>>
     !snapshot  keep a copy of every data region
     !diff      D <address> <old byte> <new byte>  for the first bytes that differ from the snapshot
     !end       verify every retained object (error objects, crystal copies, compound data) against the
                rendering taken when it was handed out
   <regions>: `hexaddr hexsize object-file section` lines computed by the check from the link map: every
   .data/.bss/.rodata input section contributed by a libxrl object (all tables incl. the hidden static ones, and
   any static a query function might have grown).  Linked -no-pie so the addresses are absolute. */
#define _GNU_SOURCE
#include <locale.h>
#include <unistd.h>
#include <signal.h>
#include <fenv.h>
#include <fcntl.h>
#include <sys/stat.h>
#include <sys/wait.h>
#include <time.h>
#include <stdio_ext.h>
#include "xrl_ops.h"
#include "xrayglob.h"

/* The harness talks to the check on a DUPLICATE of the original standard output (`proto`); file descriptor 1 itself is pointed at a
   scratch file, so that anything the library writes to standard output is seen: a call after which that file has grown gets
   ` STDOUT+<bytes>` appended to its result (standard streams are process-global state; deprecation diagnostics go to stderr). */
static FILE *proto = NULL; static off_t stdout_seen = 0;
static long stray_stdout(void) { fflush(stdout); off_t n = lseek(1, 0, SEEK_CUR); long d = (long)(n - stdout_seen); stdout_seen = n; return d; }
#define printf(...) fprintf(proto, __VA_ARGS__)

typedef struct { unsigned char *a; size_t n; } region;
static region *regs; static int nregs; static unsigned char *snap; static size_t total;

__attribute__((no_sanitize("address", "undefined"))) static uint64_t hash_regions(void) {
  uint64_t h = 1469598103934665603ULL;
  for (int i = 0; i < nregs; i++) for (size_t k = 0; k < regs[i].n; k++) { h ^= regs[i].a[k]; h *= 1099511628211ULL; }
  return h;
}
__attribute__((no_sanitize("address", "undefined"))) static void raw_copy(unsigned char *d, const unsigned char *s, size_t n) { for (size_t k = 0; k < n; k++) d[k] = s[k]; }
__attribute__((no_sanitize("address", "undefined"))) static void diff_regions(void) {
  size_t off = 0; int shown = 0; size_t ndiff = 0;
  for (int i = 0; i < nregs; i++) { for (size_t k = 0; k < regs[i].n; k++) if (regs[i].a[k] != snap[off + k]) { ndiff++; if (shown < 24) { printf("D %lx %02x %02x\n", (unsigned long)(regs[i].a + k), snap[off + k], regs[i].a[k]); shown++; } } off += regs[i].n; }
  printf("diffbytes %zu\n", ndiff);
}
static void load_regions(const char *path) {
  FILE *f = fopen(path, "r"); if (!f) { perror(path); exit(2); }
  unsigned long a, n; char rest[512]; int cap = 0;
  while (fscanf(f, "%lx %lx %511[^\n]", &a, &n, rest) == 3) {
    if (nregs == cap) { cap = cap ? 2 * cap : 256; regs = realloc(regs, cap * sizeof *regs); }
    regs[nregs].a = (unsigned char *)a; regs[nregs].n = n; nregs++; total += n;
  }
  fclose(f);
}
extern char **environ;
/* process-global state other than locale / cwd / streams: observed without being disturbed */
static void process_state(char *out, size_t cap) {
  uint64_t h = 1469598103934665603ULL; int nenv = 0;
  for (char **e = environ; e && *e; e++, nenv++) for (const char *q = *e; ; q++) { h ^= (unsigned char)*q; h *= 1099511628211ULL; if (!*q) break; }
  size_t n = (size_t)snprintf(out, cap, "env=%d:%016llx sig=", nenv, (unsigned long long)h);
  static const int sigs[] = { SIGINT, SIGTERM, SIGSEGV, SIGFPE, SIGPIPE, SIGABRT, SIGALRM, SIGCHLD };
  for (size_t i = 0; i < sizeof sigs / sizeof *sigs && n < cap; i++) {
    struct sigaction sa; memset(&sa, 0, sizeof sa); sigaction(sigs[i], NULL, &sa);
    n += (size_t)snprintf(out + n, cap - n, "%d:%lx:%x,", sigs[i], (unsigned long)(uintptr_t)sa.sa_handler, (unsigned)sa.sa_flags);
  }
  sigset_t m; sigemptyset(&m); sigprocmask(SIG_BLOCK, NULL, &m); unsigned long mask = 0; for (int i = 1; i < 64; i++) if (sigismember(&m, i) == 1) mask |= 1UL << i;
  int nfd = 0; for (int fd = 0; fd < 1024; fd++) if (fcntl(fd, F_GETFD) != -1) nfd++;
  if (n < cap) n += (size_t)snprintf(out + n, cap - n, " mask=%lx round=%d fds=%d umask=", mask, fegetround(), nfd);
  { mode_t u = umask(0); umask(u); if (n < cap) n += (size_t)snprintf(out + n, cap - n, "%o", (unsigned)u); }
  /* the rand()/random()/lrand48() sequences are probed after EVERY op (app_check below), not here */
}
/* ---- hidden cursors of the C library that the APPLICATION has in progress across every library call -------------------------------------------
   "No call modifies process-global state": the C library keeps positions and result buffers in hidden process-global objects — the strtok
   position, the rand()/lrand48() sequences, the static buffers behind localtime/gmtime, asctime, tmpnam, strerror(unknown), the string getenv
   returned, getopt's optind/optarg/optopt/opterr, the positions and buffering modes of stdin/stdout, localeconv().  An application that is in the
   middle of a tokenisation, a pseudo-random sequence, an option scan, or that holds a pointer one of these functions returned, and then calls
   the library, must find all of them as it left them.  The harness plays that application: everything is armed once at the start of the history
   (in `fresh` mode: before the fork, so the child inherits the armed state), after EVERY op the next element of every sequence is taken and compared
   with what an undisturbed C library yields, buffers are compared with their snapshots; a sequence that is exhausted (or was disturbed) is re-armed.
   The violation is the op after which the application's sequence was disturbed: ` APP!<probe>:<detail>` is appended to its result. */
static const char TOK_TEXT[] = "alpha beta gamma delta epsilon zeta eta theta iota kappa lambda mu nu xi omicron pi rho sigma tau upsilon";
#define NTOK 20
static char tok_buf[sizeof TOK_TEXT]; static int tok_off[NTOK], tok_len[NTOK], tok_next;
static void tok_arm(void) { memcpy(tok_buf, TOK_TEXT, sizeof TOK_TEXT); char *p = strtok(tok_buf, " "); tok_next = (p == tok_buf) ? 1 : -1; }
#define NSEQ 48
static int rand_exp[NSEQ], seq_k; static long lr_exp[NSEQ];
static void seq_arm(void) {
  srand(20240928u); for (int i = 0; i < NSEQ; i++) rand_exp[i] = rand(); srand(20240928u);
  srand48(16092028L); for (int i = 0; i < NSEQ; i++) lr_exp[i] = lrand48(); srand48(16092028L); seq_k = 0;
}
static const char *env_p; static char env_snap[64];
static struct tm *tm_p; static struct tm tm_snap; static char *asc_p, asc_snap[64], *tmpnam_p, tmpnam_snap[L_tmpnam + 1], *serr_p, serr_snap[128];
static int opt_snap[3]; static char *optarg_snap; static long stdin_pos; static off_t stdin_off; static size_t out_bufsize; static int out_lbf;
static char lconv_snap[16];
/* The calling thread's OWN locale.  setlocale() speaks about the process locale only; a thread that has installed a locale object of its own with
   uselocale() — every thread of a program that formats numbers for a user while another thread parses files does — keeps it in a hidden per-thread
   slot of the C library.  With XRLV_THREAD_LOCALE=<name> in the environment the harness is that thread: before the history it installs
   uselocale(newlocale(LC_ALL_MASK, <name>, 0)) (in `fresh` mode before the fork: the child inherits it); after EVERY op the slot must still hold that very
   handle and the object must still answer nl_langinfo(CODESET / RADIXCHAR / THOUSEP) as it did (newlocale(mask, name, base) MODIFIES base).  Without the
   variable the slot must stay LC_GLOBAL_LOCALE: a call that leaves a locale object of its own installed has changed the thread's locale as well. */
#include <langinfo.h>
static locale_t app_loc = (locale_t)0; static char tl_snap[96];
static void tl_render(char *b, size_t n) { snprintf(b, n, "%s|%s|%s", nl_langinfo(CODESET), nl_langinfo(RADIXCHAR), nl_langinfo(THOUSEP)); }
static void tl_arm(void) {
  const char *nm = getenv("XRLV_THREAD_LOCALE");
  if (nm && *nm) { app_loc = newlocale(LC_ALL_MASK, nm, (locale_t)0); if (app_loc == (locale_t)0) app_loc = newlocale(LC_ALL_MASK, "C", (locale_t)0); }
  if (app_loc != (locale_t)0) uselocale(app_loc);
  tl_render(tl_snap, sizeof tl_snap);
}
static void app_arm(void) {
  tl_arm();
  int k = 0; tok_off[0] = 0;
  for (int i = 0; ; i++) { if (TOK_TEXT[i] == ' ' || !TOK_TEXT[i]) { tok_len[k] = i - tok_off[k]; k++; if (!TOK_TEXT[i] || k == NTOK) break; tok_off[k] = i + 1; } }
  tok_arm(); seq_arm();
  setenv("XRL_VERIF_APP", "value-the-application-holds-a-pointer-to", 1); env_p = getenv("XRL_VERIF_APP"); snprintf(env_snap, sizeof env_snap, "%s", env_p ? env_p : "");
  time_t t0 = 86400L * 366 + 3723; tm_p = localtime(&t0); if (tm_p) tm_snap = *tm_p;
  asc_p = tm_p ? asctime(tm_p) : NULL; snprintf(asc_snap, sizeof asc_snap, "%s", asc_p ? asc_p : "");
  tmpnam_p = tmpnam(NULL); snprintf(tmpnam_snap, sizeof tmpnam_snap, "%s", tmpnam_p ? tmpnam_p : "");
  serr_p = strerror(123456); snprintf(serr_snap, sizeof serr_snap, "%s", serr_p ? serr_p : "");
  opt_snap[0] = optind; opt_snap[1] = opterr; opt_snap[2] = optopt; optarg_snap = optarg;
  /* standard input: a scratch file of which the application has read the first line (so the stream holds a buffer and a position) */
  FILE *tf = tmpfile();
  if (tf) { for (int i = 0; i < 64; i++) fprintf(tf, "line %d of the application's standard input\n", i); fflush(tf); lseek(fileno(tf), 0, SEEK_SET); dup2(fileno(tf), 0);
            char l[128]; if (!fgets(l, sizeof l, stdin)) l[0] = 0; }
  stdin_pos = ftell(stdin); stdin_off = lseek(0, 0, SEEK_CUR);
  { static char app_outbuf[1024]; setvbuf(stdout, app_outbuf, _IOFBF, sizeof app_outbuf); }   /* the application gave stdout a buffer of its own (nothing has been written yet) */
  out_bufsize = __fbufsize(stdout); out_lbf = __flbf(stdout);
  struct lconv *lc = localeconv(); snprintf(lconv_snap, sizeof lconv_snap, "%s|%s", lc->decimal_point, lc->thousands_sep);
}
static void app_mark(char *out, size_t cap, const char *fmt, ...) {
  size_t n = strlen(out); if (n + 8 >= cap) return;
  va_list ap; va_start(ap, fmt); vsnprintf(out + n, cap - n, fmt, ap); va_end(ap);
  for (char *q = out + n + 1; *q; q++) if (*q == ' ' || *q == '\n') *q = '_';
}
static void tl_check(char *out, size_t cap) {
  locale_t want = app_loc != (locale_t)0 ? app_loc : LC_GLOBAL_LOCALE, now = uselocale((locale_t)0);
  if (now != want) {
    app_mark(out, cap, " APP!uselocale:the-calling-thread's-locale-was-%s,after-the-call-uselocale(0)-returns-%s", app_loc != (locale_t)0 ? "the-object-the-application-installed-with-uselocale()" : "LC_GLOBAL_LOCALE",
             now == LC_GLOBAL_LOCALE ? "LC_GLOBAL_LOCALE(the-process-locale)" : "another-locale-object");
    uselocale(want);
  }
  char b[96]; tl_render(b, sizeof b);
  if (strcmp(b, tl_snap)) { app_mark(out, cap, " APP!threadlocale:nl_langinfo(CODESET|RADIXCHAR|THOUSEP)-through-the-calling-thread's-locale-%s->%s", tl_snap, b); tl_render(tl_snap, sizeof tl_snap); }
}
static void app_check(char *out, size_t cap) {
  tl_check(out, cap);
  /* strtok: the next token of the application's own tokenisation */
  { char *p = strtok(NULL, " "); int want = tok_next;
    const char *exp = (want >= 0 && want < NTOK) ? tok_buf + tok_off[want] : NULL;
    int ok = (p == exp) && (p == NULL || (strlen(p) == (size_t)tok_len[want] && !memcmp(p, TOK_TEXT + tok_off[want], (size_t)tok_len[want])));
    if (!ok) {
      char got[96];
      if (!p) snprintf(got, sizeof got, "NULL");
      else if (p >= tok_buf && p < tok_buf + sizeof tok_buf) snprintf(got, sizeof got, "\"%.20s\"@%d", p, (int)(p - tok_buf));
      else snprintf(got, sizeof got, "a-pointer-outside-the-application's-buffer");
      if (exp) app_mark(out, cap, " APP!strtok:next-token-should-be-\"%.*s\"@%d-of-the-application's-buffer,got-%s", tok_len[want], TOK_TEXT + tok_off[want], tok_off[want], got);
      else app_mark(out, cap, " APP!strtok:tokenisation-should-be-exhausted(NULL),got-%s", got);
      tok_arm();
    } else if (p == NULL || ++tok_next == NTOK) tok_arm(); }      /* the last token was just taken: start over at once, so that a tokenisation is LIVE across every call */
  /* rand() / lrand48(): the next element of the application's pseudo-random sequences */
  { int r = rand(); long l = lrand48(); int bad = 0;
    if (r != rand_exp[seq_k]) { app_mark(out, cap, " APP!rand:element-%d-of-the-sequence-after-srand-should-be-%d,got-%d", seq_k, rand_exp[seq_k], r); bad = 1; }
    if (l != lr_exp[seq_k]) { app_mark(out, cap, " APP!lrand48:element-%d-of-the-sequence-after-srand48-should-be-%ld,got-%ld", seq_k, lr_exp[seq_k], l); bad = 1; }
    if (bad || ++seq_k == NSEQ) seq_arm(); }
  /* results of getenv / localtime / asctime / tmpnam / strerror the application still holds */
  { const char *e = getenv("XRL_VERIF_APP");
    if (e != env_p || !e || strcmp(e, env_snap)) { app_mark(out, cap, " APP!getenv:the-string-getenv-returned-%s", e != env_p ? "moved" : "changed"); env_p = e; snprintf(env_snap, sizeof env_snap, "%s", e ? e : ""); } }
  if (tm_p && memcmp(tm_p, &tm_snap, sizeof tm_snap)) { app_mark(out, cap, " APP!tm:the-struct-tm-localtime-returned-was-overwritten"); tm_snap = *tm_p; }
  if (asc_p && strcmp(asc_p, asc_snap)) { app_mark(out, cap, " APP!asctime:static-buffer-overwritten"); snprintf(asc_snap, sizeof asc_snap, "%s", asc_p); }
  if (tmpnam_p && strcmp(tmpnam_p, tmpnam_snap)) { app_mark(out, cap, " APP!tmpnam:static-buffer-overwritten"); snprintf(tmpnam_snap, sizeof tmpnam_snap, "%s", tmpnam_p); }
  if (serr_p && strcmp(serr_p, serr_snap)) { app_mark(out, cap, " APP!strerror:buffer-overwritten"); snprintf(serr_snap, sizeof serr_snap, "%s", serr_p); }
  if (optind != opt_snap[0] || opterr != opt_snap[1] || optopt != opt_snap[2] || optarg != optarg_snap) {
    app_mark(out, cap, " APP!getopt:optind/opterr/optopt-%d/%d/%d->%d/%d/%d%s", opt_snap[0], opt_snap[1], opt_snap[2], optind, opterr, optopt, optarg != optarg_snap ? ",optarg-changed" : "");
    opt_snap[0] = optind; opt_snap[1] = opterr; opt_snap[2] = optopt; optarg_snap = optarg; }
  { long p = ftell(stdin); off_t f = lseek(0, 0, SEEK_CUR);
    if (p != stdin_pos || f != stdin_off) { app_mark(out, cap, " APP!stdin:position-%ld(fd-%ld)->%ld(fd-%ld)", stdin_pos, (long)stdin_off, p, (long)f); stdin_pos = p; stdin_off = f; } }
  { size_t b = __fbufsize(stdout); int lb = __flbf(stdout);
    if (b != out_bufsize || lb != out_lbf) { app_mark(out, cap, " APP!stdout:buffering-%zu/%d->%zu/%d", out_bufsize, out_lbf, b, lb); out_bufsize = b; out_lbf = lb; } }
  { struct lconv *lc = localeconv(); char now[16]; snprintf(now, sizeof now, "%s|%s", lc->decimal_point, lc->thousands_sep);
    if (strcmp(now, lconv_snap)) { app_mark(out, cap, " APP!lconv:decimal_point|thousands_sep-%s->%s", lconv_snap, now); snprintf(lconv_snap, sizeof lconv_snap, "%s", now); } }
}
static int errno_carry = 0;          /* errno as the last op left it */
static int count_fds(int upto) { int n = 0; for (int fd = 0; fd < upto; fd++) if (fcntl(fd, F_GETFD) != -1) n++; return n; }
static void do_state(void) {
  char cwd[4096]; const char *la = setlocale(LC_ALL, NULL); 
  char lall[1024]; snprintf(lall, sizeof lall, "%s", la ? la : "(null)");
  const char *ln = setlocale(LC_NUMERIC, NULL);
  char lnum[256]; snprintf(lnum, sizeof lnum, "%s", ln ? ln : "(null)");
  static const int cats[] = { LC_CTYPE, LC_NUMERIC, LC_TIME, LC_COLLATE, LC_MONETARY, LC_MESSAGES, LC_PAPER, LC_NAME, LC_ADDRESS, LC_TELEPHONE, LC_MEASUREMENT, LC_IDENTIFICATION };
  static const char *catn[] = { "CTYPE", "NUMERIC", "TIME", "COLLATE", "MONETARY", "MESSAGES", "PAPER", "NAME", "ADDRESS", "TELEPHONE", "MEASUREMENT", "IDENTIFICATION" };
  char lc[2048]; size_t n = 0; lc[0] = 0;
  for (size_t i = 0; i < sizeof cats / sizeof *cats && n < sizeof lc; i++) { const char *v = setlocale(cats[i], NULL); n += (size_t)snprintf(lc + n, sizeof lc - n, "%s%s=%s", i ? "," : "", catn[i], v ? v : "(null)"); }
  char ps[1024]; process_state(ps, sizeof ps);
  int fe = fetestexcept(FE_ALL_EXCEPT);
  printf("S %s | %s | %s | %016llx | %s | %s | obs errno=%d fe=%x tl=%s:%s\n", lall, lnum, getcwd(cwd, sizeof cwd) ? cwd : "?", (unsigned long long)hash_regions(), lc, ps, errno_carry, (unsigned)fe,
         uselocale((locale_t)0) == LC_GLOBAL_LOCALE ? "global" : (app_loc != (locale_t)0 && uselocale((locale_t)0) == app_loc) ? "own" : "other", nl_langinfo(CODESET));
}
/* per-call observers: the locale (all categories) and the contents of the built-in crystal array */
static char loc_seen[1024]; static uint64_t arr_seen; static int fds_seen;
static void observers_reset(void) { const char *l = setlocale(LC_ALL, NULL); snprintf(loc_seen, sizeof loc_seen, "%s", l ? l : "(null)"); arr_seen = xrl_array_hash(&Crystal_arr); fds_seen = count_fds(64); }
static void observers_after(char *out, size_t cap) {
  const char *l = setlocale(LC_ALL, NULL); if (!l) l = "(null)";
  if (strcmp(l, loc_seen)) { size_t n = strlen(out); snprintf(out + n, cap - n, " LOCALE>%s", l); snprintf(loc_seen, sizeof loc_seen, "%s", l); for (char *q = out + n + 8; *q; q++) if (*q == ' ') *q = '_'; }
  uint64_t a = xrl_array_hash(&Crystal_arr);
  if (a != arr_seen) { strncat(out, " ARR!", cap - strlen(out) - 1); arr_seen = a; }
  int nf = count_fds(64);
  if (nf != fds_seen) { size_t n = strlen(out); snprintf(out + n, cap - n, " FDS:%d>%d", fds_seen, nf); fds_seen = nf; }
}
static void directive(const char *d, retained **keep) {
  if (!strcmp(d, "!state")) do_state();
  else if (!strcmp(d, "!snapshot")) { size_t off = 0; free(snap); snap = malloc(total); for (int i = 0; i < nregs; i++) { raw_copy(snap + off, regs[i].a, regs[i].n); off += regs[i].n; } printf("snapshot %zu bytes %d regions\n", total, nregs); }
  else if (!strcmp(d, "!diff")) diff_regions();
  else if (!strcmp(d, "!end")) { static char b[1 << 16]; obuf o = { b, 0, sizeof b }; b[0] = 0; retained_check(*keep, &o); *keep = NULL; fputs(b, proto); }
  else printf("bad-directive %s\n", d);
}

int main(int argc, char **argv) {
  if (argc < 4) { fprintf(stderr, "usage: c16_hist hist|fresh|one <ops> <regions>\n"); return 2; }
  int fresh = !strcmp(argv[1], "fresh");
  setlocale(LC_ALL, "");                 /* the application's locale comes from the environment the check sets */
  load_regions(argv[3]);
  FILE *f = fopen(argv[2], "r"); if (!f) { perror(argv[2]); return 2; }
  static char line[1 << 16], copy[1 << 16], out[1 << 18];
  char *tok[64]; retained *keep = NULL; int idx = 0;
  { int pfd = dup(1); proto = fdopen(pfd, "w"); setvbuf(proto, NULL, _IOLBF, 0);
    FILE *tf = tmpfile(); if (tf) { dup2(fileno(tf), 1); stdout_seen = 0; } }
  app_arm();                              /* the application's tokenisation / sequences / held buffers start here, before any library call */
  observers_reset();
  while (fgets(line, sizeof line, f)) {
    size_t L = strlen(line); while (L && (line[L - 1] == '\n' || line[L - 1] == '\r')) line[--L] = 0;
    if (!L || line[0] == '#') continue;
    if (line[0] == '!') {
      if (fresh && strcmp(line, "!state")) continue;
      if (fresh) { fflush(proto); pid_t p = fork(); if (p == 0) { directive(line, &keep); fflush(proto); _exit(0); } int st; waitpid(p, &st, 0); }
      else directive(line, &keep);
      continue;
    }
    strcpy(copy, line);
    int nt = xrl_split(copy, tok, 64);
    if (!nt) continue;
    obuf o = { out, 0, sizeof out }; out[0] = 0;
    if (fresh) {
      fflush(proto);
      pid_t p = fork();
      if (p == 0) { stdout_seen = lseek(1, 0, SEEK_CUR);      /* fd 1 shares its offset with the siblings: count from where THIS child starts */
                    errno = 0;                                /* a process without history */
                    int ok = xrl_op(&o, tok, nt, NULL); errno_carry = errno; long sd = stray_stdout(); if (sd) { char x[48]; snprintf(x, sizeof x, " STDOUT+%ld", sd); strncat(out, x, sizeof out - strlen(out) - 1); }
                    observers_after(out, sizeof out); app_check(out, sizeof out);
                    printf("R %d %s\n", idx, ok ? out : "bad-op"); fflush(proto); _exit(0); }
      int st; waitpid(p, &st, 0);
      if (!WIFEXITED(st) || WEXITSTATUS(st) != 0) printf("R %d died %d\n", idx, st);
    } else {
      printf("B %d\n", idx);               /* begin marker: a crash is attributed to this op */
      errno = errno_carry;
      int ok = xrl_op(&o, tok, nt, &keep); errno_carry = errno; long sd = stray_stdout(); if (sd) { char x[48]; snprintf(x, sizeof x, " STDOUT+%ld", sd); strncat(out, x, sizeof out - strlen(out) - 1); }
      observers_after(out, sizeof out); app_check(out, sizeof out);
      printf("R %d %s\n", idx, ok ? out : "bad-op");
    }
    idx++;
  }
  fclose(f);
  return 0;
}
