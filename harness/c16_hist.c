/* C16 tie: one process, one history.

   c16_hist hist  <ops> <regions>   execute every op of <ops> in this process, in order
   c16_hist fresh <ops> <regions>   execute every op in its own child forked from this process BEFORE it has made
                                    any library call: each child is a process without call history
   c16_hist one   <ops> <regions>   like hist, but meant to be exec'ed with a single op (a genuinely fresh process)

   Output: `R <index> <complete outcome of the op>` per op (see xrl_ops.h).  Directives in <ops>:
     !state     S <LC_ALL locale string> | <LC_NUMERIC> | <cwd> | <FNV-1a of every data region>
     !snapshot  keep a copy of every data region
     !diff      D <address> <old byte> <new byte>  for the first bytes that differ from the snapshot
     !end       verify every retained object (error objects, crystal copies, compound data) against the
                rendering taken when it was handed out
   <regions>: `hexaddr hexsize object-file section` lines computed by the check from the link map: every
   .data/.bss/.rodata input section contributed by a libxrl object (all tables incl. the hidden static ones, and
   any static a query function might have grown).  Linked -no-pie so the addresses are absolute. */
#define _GNU_SOURCE
#include <locale.h>
#include <unistd.h>
#include <sys/wait.h>
#include "xrl_ops.h"
#include "xrayglob.h"

/* The harness talks to the check on a DUPLICATE of the original standard output (`proto`); file descriptor 1 itself is pointed at a
   scratch file, so that anything the library writes to standard output is seen: a call after which that file has grown gets
   ` STDOUT+<bytes>` appended to its result (standard streams are process-global state; deprecation diagnostics go to stderr). */
static FILE *proto = NULL; static off_t stdout_seen = 0;
static long stray_stdout(void) { fflush(stdout); off_t n = lseek(1, 0, SEEK_CUR); long d = (long)(n - stdout_seen); stdout_seen = n; return d; }
#define printf(...) fprintf(proto, __VA_ARGS__)

typedef struct { unsigned char *a; size_t n; } region;
static region *regs; static int nregs; static unsigned char *snap; static size_t total;

__attribute__((no_sanitize("address", "undefined"))) static uint64_t hash_regions(void) {
  uint64_t h = 1469598103934665603ULL;
  for (int i = 0; i < nregs; i++) for (size_t k = 0; k < regs[i].n; k++) { h ^= regs[i].a[k]; h *= 1099511628211ULL; }
  return h;
}
__attribute__((no_sanitize("address", "undefined"))) static void raw_copy(unsigned char *d, const unsigned char *s, size_t n) { for (size_t k = 0; k < n; k++) d[k] = s[k]; }
__attribute__((no_sanitize("address", "undefined"))) static void diff_regions(void) {
  size_t off = 0; int shown = 0; size_t ndiff = 0;
  for (int i = 0; i < nregs; i++) { for (size_t k = 0; k < regs[i].n; k++) if (regs[i].a[k] != snap[off + k]) { ndiff++; if (shown < 24) { printf("D %lx %02x %02x\n", (unsigned long)(regs[i].a + k), snap[off + k], regs[i].a[k]); shown++; } } off += regs[i].n; }
  printf("diffbytes %zu\n", ndiff);
}
static void load_regions(const char *path) {
  FILE *f = fopen(path, "r"); if (!f) { perror(path); exit(2); }
  unsigned long a, n; char rest[512]; int cap = 0;
  while (fscanf(f, "%lx %lx %511[^\n]", &a, &n, rest) == 3) {
    if (nregs == cap) { cap = cap ? 2 * cap : 256; regs = realloc(regs, cap * sizeof *regs); }
    regs[nregs].a = (unsigned char *)a; regs[nregs].n = n; nregs++; total += n;
  }
  fclose(f);
}
static void do_state(void) {
  char cwd[4096]; const char *la = setlocale(LC_ALL, NULL); 
  char lall[1024]; snprintf(lall, sizeof lall, "%s", la ? la : "(null)");
  const char *ln = setlocale(LC_NUMERIC, NULL);
  printf("S %s | %s | %s | %016llx\n", lall, ln ? ln : "(null)", getcwd(cwd, sizeof cwd) ? cwd : "?", (unsigned long long)hash_regions());
}
static void directive(const char *d, retained **keep) {
  if (!strcmp(d, "!state")) do_state();
  else if (!strcmp(d, "!snapshot")) { size_t off = 0; free(snap); snap = malloc(total); for (int i = 0; i < nregs; i++) { raw_copy(snap + off, regs[i].a, regs[i].n); off += regs[i].n; } printf("snapshot %zu bytes %d regions\n", total, nregs); }
  else if (!strcmp(d, "!diff")) diff_regions();
  else if (!strcmp(d, "!end")) { static char b[1 << 16]; obuf o = { b, 0, sizeof b }; b[0] = 0; retained_check(*keep, &o); *keep = NULL; fputs(b, proto); }
  else printf("bad-directive %s\n", d);
}

int main(int argc, char **argv) {
  if (argc < 4) { fprintf(stderr, "usage: c16_hist hist|fresh|one <ops> <regions>\n"); return 2; }
  int fresh = !strcmp(argv[1], "fresh");
  setlocale(LC_ALL, "");                 /* the application's locale comes from the environment the check sets */
  load_regions(argv[3]);
  FILE *f = fopen(argv[2], "r"); if (!f) { perror(argv[2]); return 2; }
  static char line[1 << 16], copy[1 << 16], out[1 << 18];
  char *tok[64]; retained *keep = NULL; int idx = 0;
  { int pfd = dup(1); proto = fdopen(pfd, "w"); setvbuf(proto, NULL, _IOLBF, 0);
    FILE *tf = tmpfile(); if (tf) { dup2(fileno(tf), 1); stdout_seen = 0; } }
  while (fgets(line, sizeof line, f)) {
    size_t L = strlen(line); while (L && (line[L - 1] == '\n' || line[L - 1] == '\r')) line[--L] = 0;
    if (!L || line[0] == '#') continue;
    if (line[0] == '!') {
      if (fresh && strcmp(line, "!state")) continue;
      if (fresh) { fflush(proto); pid_t p = fork(); if (p == 0) { directive(line, &keep); fflush(proto); _exit(0); } int st; waitpid(p, &st, 0); }
      else directive(line, &keep);
      continue;
    }
    strcpy(copy, line);
    int nt = xrl_split(copy, tok, 64);
    if (!nt) continue;
    obuf o = { out, 0, sizeof out }; out[0] = 0;
    if (fresh) {
      fflush(proto);
      pid_t p = fork();
      if (p == 0) { int ok = xrl_op(&o, tok, nt, NULL); long sd = stray_stdout(); if (sd) { char x[48]; snprintf(x, sizeof x, " STDOUT+%ld", sd); strncat(out, x, sizeof out - strlen(out) - 1); }
                    printf("R %d %s\n", idx, ok ? out : "bad-op"); fflush(proto); _exit(0); }
      int st; waitpid(p, &st, 0);
      if (!WIFEXITED(st) || WEXITSTATUS(st) != 0) printf("R %d died %d\n", idx, st);
    } else {
      printf("B %d\n", idx);               /* begin marker: a crash is attributed to this op */
      int ok = xrl_op(&o, tok, nt, &keep); long sd = stray_stdout(); if (sd) { char x[48]; snprintf(x, sizeof x, " STDOUT+%ld", sd); strncat(out, x, sizeof out - strlen(out) - 1); }
      printf("R %d %s\n", idx, ok ? out : "bad-op");
    }
    idx++;
  }
  fclose(f);
  return 0;
}
