/* Self-test of tools/footprint.py (run by ./check C16 on every run): aliasing idioms with the write set the
   extractor must report.  The annotation lists the write set: the reported set must contain every listed object (soundness)
   and nothing else (so that a loss of precision is noticed too). */
#include <stdlib.h>
#include <string.h>
#include <stdio.h>
static double tbl[10]; double gtab[4][4]; static int counter;
struct S { double *p; int n; };
static struct S gs; double *ptab[4];

/* EXPECT direct_write: W=tbl */
void direct_write(int i) { tbl[i] = 1.0; }
/* EXPECT incr: W=counter */
int incr(void) { return counter++; }
/* EXPECT compound: W=gtab */
void compound(int i) { gtab[i][0] *= 2; }
/* EXPECT alias_local: W=tbl */
void alias_local(int i) { double *p = tbl; p += i; *p = 0; }
/* EXPECT alias_field: W=gs */
void alias_field(void) { struct S *s = &gs; s->n = 3; }
/* EXPECT through_table_ptr: W=ptab */
void through_table_ptr(int i) { ptab[i][2] = 1; }
static void callee_writes(double *q) { q[0] = 5; }
/* EXPECT pass_global: W=tbl */
void pass_global(void) { callee_writes(tbl); }
static void setint(int *p) { *p = 1; }
/* EXPECT pass_global_addr: W=counter */
void pass_global_addr(void) { setint(&counter); }
/* EXPECT memcpy_global: W=tbl */
void memcpy_global(const double *src) { memcpy(tbl, src, sizeof tbl); }
static int cmp(const void *a, const void *b) { return 0; }
/* EXPECT qsort_global: W=tbl */
void qsort_global(void) { qsort(tbl, 10, sizeof(double), cmp); }
/* EXPECT bsearch_result_write: W=tbl */
void bsearch_result_write(double k) { double *r = bsearch(&k, tbl, 10, sizeof(double), cmp); if (r) *r = 0; }
/* EXPECT local_static: W=local_static::buf */
double local_static(double x) { static double buf[4]; buf[0] = x; return buf[0]; }
/* EXPECT last_value_cache: W=last_value_cache::last_E,last_value_cache::last_r */
double last_value_cache(int Z, double E) { static double last_E, last_r; if (E == last_E) return last_r; last_E = E; last_r = Z * E; return last_r; }
/* EXPECT readonly: W= */
double readonly(int i, double *out) { double t = tbl[i] + gtab[1][1]; *out = t; return t; }
/* EXPECT copy_then_overwrite: W= */
struct S *copy_then_overwrite(struct S *in) { struct S *o = malloc(sizeof *o); *o = *in; o->p = malloc(8 * in->n); memcpy(o->p, in->p, 8 * in->n); return o; }
/* EXPECT copy_of_global_then_overwrite: W= */
struct S *copy_of_global_then_overwrite(void) { return copy_then_overwrite(&gs); }
/* EXPECT copy_no_overwrite: W=gs */
void copy_no_overwrite(void) { struct S *o = malloc(sizeof *o); *o = gs; o->p[0] = 1; free(o); }
static double *get(void) { return tbl; }
/* EXPECT returned_alias: W=tbl */
void returned_alias(void) { get()[1] = 2; }
/* EXPECT cond_alias: W=tbl */
void cond_alias(int c, double *mine) { double *p = c ? mine : tbl; *p = 1; }
/* EXPECT out_param_only: W= */
void out_param_only(double *y) { *y = 1; }
/* EXPECT free_global: W=gs */
void free_global(void) { free(gs.p); }
/* EXPECT normalise_in_place: W=gtab */
double normalise_in_place(int i) { double s = gtab[i][0] + gtab[i][1]; gtab[i][0] /= s; return gtab[i][0]; }
/* EXPECT loop_alias: W=tbl */
void loop_alias(int n) { double *p = 0; for (int i = 0; i < n; i++) { if (i == 3) p = tbl; if (p) p[i] = 0; } }
/* EXPECT struct_ptr_store: W=gs */
void struct_ptr_store(double *q) { gs.p = q; }
/* EXPECT via_struct_local: W=tbl */
void via_struct_local(void) { struct S s; s.p = tbl; s.n = 1; s.p[0] = 9; }
static void lvl2(double *q) { callee_writes(q); }
/* EXPECT callee_of_callee: W=tbl */
void callee_of_callee(void) { lvl2(tbl + 1); }
/* EXPECT strtod_end: W= */
double strtod_end(const char *s) { char *end; return strtod(s, &end); }
/* EXPECT sscanf_global: W=counter */
void sscanf_global(const char *s) { sscanf(s, "%d", &counter); }
/* EXPECT early_return_alias: W=tbl */
void early_return_alias(int c) { double *p = tbl; if (c) { p[0] = 1; return; } p = 0; }
/* EXPECT switch_alias: W=gtab */
void switch_alias(int c) { double *p = 0; double loc[2]; switch (c) { case 0: p = gtab[1]; break; default: p = loc; } p[0] = 1; }
/* EXPECT break_alias: W=tbl */
void break_alias(int n) { double *p = 0; double loc[2]; for (int i = 0; i < n; i++) { p = tbl; if (i == 2) break; p = loc; } p[0] = 1; }
/* EXPECT continue_alias: W=tbl */
void continue_alias(int n) { double *p = 0; double loc[2]; for (int i = 0; i < n; i++) { if (p) p[0] = 1; p = tbl; if (i & 1) continue; p = loc; } }
/* EXPECT dowhile_alias: W=gtab */
void dowhile_alias(int n) { double *p; double loc[2]; p = loc; do { p[0] = 1; p = gtab[0]; } while (--n > 0); }
/* EXPECT goto_alias: W=tbl */
int goto_alias(int c) { double *p = tbl; double loc[2]; if (c) goto out; p = loc; return 0; out: p[0] = 1; return 1; }
/* EXPECT addr_of_element: W=gtab */
void addr_of_element(void) { double *p = &gtab[2][3]; *p = 0; }
/* EXPECT unknown_extern: W=tbl */
extern void mystery(double *);
void unknown_extern(void) { mystery(tbl); }

/* ---- atomics (clang: AtomicExpr; __sync_*: builtin calls) ------------------------------------------------------------------------- */
/* EXPECT atomic_counter: W=counter */
int atomic_counter(void) { return __atomic_fetch_add(&counter, 1, __ATOMIC_RELAXED); }
/* EXPECT atomic_store_alias: W=tbl */
void atomic_store_alias(long v) { long *p = (long *)tbl; __atomic_store_n(p, v, __ATOMIC_SEQ_CST); }
/* EXPECT sync_counter: W=counter */
int sync_counter(void) { return __sync_fetch_and_add(&counter, 1); }
/* EXPECT atomic_local_only: W= */
int atomic_local_only(void) { int mine = 0; __atomic_store_n(&mine, 3, __ATOMIC_RELAXED); return mine; }
/* ---- integer <-> pointer round trips ----------------------------------------------------------------------------------------- */
#include <stdint.h>
/* EXPECT uintptr_roundtrip: W=tbl */
void uintptr_roundtrip(void) { uintptr_t u = (uintptr_t)tbl; double *p = (double *)u; *p = 1; }
/* EXPECT long_offset_roundtrip: W=gtab */
void long_offset_roundtrip(int i) { long a = (long)&gtab[0][0]; a += 8 * i; *(double *)a = 0; }
struct H { unsigned long handle; int n; };
/* EXPECT handle_in_struct: W=gs */
void handle_in_struct(void) { struct H h; h.handle = (unsigned long)&gs; h.n = 1; ((struct S *)h.handle)->n = 2; }
/* EXPECT ptrdiff_is_not_a_pointer: W= */
long ptrdiff_is_not_a_pointer(double *mine) { double loc[4]; long d = &tbl[3] - &tbl[0]; loc[d] = 1; mine[d] = 2; return d; }
/* ---- the stream of a stdio call is part of the footprint ------------------------------------------------------------------------ */
/* EXPECTX diag_stderr: X=fprintf@stderr */
void diag_stderr(void) { fprintf(stderr, "deprecated\n"); }
/* EXPECTX diag_stdout: X=fprintf@stdout,printf */
void diag_stdout(void) { fprintf(stdout, "x"); printf("y"); }
/* EXPECTX diag_unknown_stream: X=fprintf@other,fputs@stderr */
void diag_unknown_stream(FILE *f) { fprintf(f, "x"); fputs("y", stderr); }
/* ---- per-argument footprint: a mutator that falls back to a built-in object when handed NULL (VARIANT rows) ---------------------- */
struct Arr { int n; double *v; };
static struct Arr builtin_arr;
/* VARIANT add_dispatch: nonnull=1 */
/* EXPECT add_dispatch: W=builtin_arr */
/* EXPECT add_dispatch@user: W= */
int add_dispatch(double x, struct Arr *a) { if (a == NULL) a = &builtin_arr; a->v[a->n++] = x; return 1; }
/* VARIANT add_reassigned: nonnull=1 */
/* EXPECTT add_reassigned@user: W=builtin_arr */
int add_reassigned(double x, struct Arr *a, struct Arr *b) { a = b; if (!a) a = &builtin_arr; a->n = 0; return 1; }
/* VARIANT read_dispatch: nonnull=1 */
/* EXPECTT read_dispatch: W=builtin_arr */
/* EXPECTT read_dispatch@user: W= */
int read_dispatch(const char *s, struct Arr *a) {
  struct Arr *tmp; int i;
  if (a == NULL) a = &builtin_arr;
  tmp = malloc(sizeof *tmp);
  if (tmp == NULL) { return 0; }
  tmp->n = 0; tmp->v = malloc(64);
  if (!add_dispatch(1.0, tmp)) goto fail;
  for (i = 0; i < tmp->n; i++) if (!add_dispatch(tmp->v[i], a)) goto fail;
  free(tmp->v); free(tmp); return 1;
fail:
  free(tmp->v); free(tmp); return 0;
}
/* VARIANT read_unchecked: nonnull=1 */
/* EXPECTT read_unchecked@user: W=builtin_arr */
int read_unchecked(const char *s, struct Arr *a) { struct Arr *tmp = malloc(sizeof *tmp); add_dispatch(1.0, tmp); return add_dispatch(2.0, a); }
/* VARIANT read_after_label: nonnull=1 */
/* EXPECTT read_after_label@user: W=builtin_arr */
int read_after_label(int c, struct Arr *a) { struct Arr *tmp = NULL; if (c) goto use; tmp = malloc(sizeof *tmp); if (tmp == NULL) return 0; use: return add_dispatch(1.0, tmp); }
/* ---- errno: written by libc (allow-listed), but a READ that can see what an earlier call left behind is a dependence on hidden state ----- */
#include <errno.h>
/* EXPECTX errno_stale_check: X=strtod,__errno_location,errno@read */
int errno_stale_check(const char *s) { double d = strtod(s, NULL); if (errno == ERANGE) return -1; return d > 1; }
/* EXPECTX errno_cleared_check: X=strtod,__errno_location */
int errno_cleared_check(const char *s) { double d; errno = 0; d = strtod(s, NULL); if (errno == ERANGE) return -1; return d > 1; }
/* EXPECTX errno_cleared_in_loop: X=strtod,__errno_location */
int errno_cleared_in_loop(const char **s, int n) { int i, bad = 0; for (i = 0; i < n; i++) { errno = 0; strtod(s[i], NULL); if (errno) bad++; } return bad; }
/* EXPECTX errno_cleared_in_branch_only: X=strtod,__errno_location,errno@read */
int errno_cleared_in_branch_only(const char *s, int c) { if (c) { errno = 0; } strtod(s, NULL); return errno == ERANGE; }
/* EXPECTX errno_cleared_before_label: X=strtod,__errno_location,errno@read */
int errno_cleared_before_label(const char *s, int c) { if (c) goto conv; errno = 0; conv: strtod(s, NULL); return errno == ERANGE; }
/* EXPECTX errno_report_only: X=malloc,free,strerror,__errno_location */
const char *errno_report_only(size_t n) { void *p = malloc(n); if (p == NULL) return strerror(errno); free(p); return NULL; }
/* EXPECTX errno_save_restore: X=strtod,__errno_location */
double errno_save_restore(const char *s) { int saved = errno; double d = strtod(s, NULL); errno = saved; return d; }
/* EXPECTX errno_saved_then_used: X=strtod,__errno_location,errno@read */
double errno_saved_then_used(const char *s) { int saved = errno; double d = strtod(s, NULL); errno = saved; return saved ? -d : d; }
/* EXPECTX errno_copied_out: X=__errno_location,errno@read */
int errno_copied_out(void) { return errno; }
/* ---- what a function hands out: a "copy" that still points into its original, or that writes through its const argument, is not one ------ */
struct Msg { int code; char *text; };
/* EXPECTS deep_copy: ret=H pw= */
struct Msg *deep_copy(const struct Msg *m) { struct Msg *c = malloc(sizeof *c); c->code = m->code; c->text = strdup(m->text); return c; }
/* EXPECTS shallow_copy: ret=H,P:0 pw= */
struct Msg *shallow_copy(const struct Msg *m) { struct Msg *c = malloc(sizeof *c); c->code = m->code; c->text = m->text; return c; }
/* EXPECTS counted_copy: ret=H,P:0 pw=0 */
struct Msg *counted_copy(const struct Msg *m) { struct Msg *c = malloc(sizeof *c); c->code = m->code; c->text = m->text; ((int *)m->text)[-1]++; return c; }
