/* C17 tie: the real library under ThreadSanitizer.

   c17_threads run    <ops> <seed> [<crystal file>]
                                      every thread executes its script concurrently (all start at a barrier; a
                                      seeded per-thread PRNG inserts sched_yield()/short spins between calls)
   c17_threads serial <ops> <seed> [<crystal file>]
                                      the same scripts executed one thread after the other on the main thread
                                      Before any thread starts the main thread builds ONE user crystal array (eight built-in crystals added
                                      one by one + the crystals of <crystal file> through Crystal_ReadFile): `xrl_shared` of xrl_ops.h.  The
                                      threads only READ it (ops SharedGet / SharedList, crystal tokens `$name` = the entry itself, uncopied):
                                      reading a shared collection is promised safe; only its modification needs locking.
   c17_threads locale <nthreads> <iters> <formula>
                                      DESIGN §3 C17 search: <nthreads> threads call CS_Total_CP(<formula>) while one
                                      application thread holds LC_NUMERIC=C.utf8 and keeps asking for it

   c17_threads errshare <nthreads> <epochs> <seed> [serial]
                                      round `ErrorShare`: "errors are private heap objects owned by the caller's slot".  Per epoch the MAIN thread
                                      obtains error objects through the public API (failing calls of several families, the constructors) and makes,
                                      with xrl_error_copy, one copy (and copies of copies) per worker; it also takes copies of built-in crystals
                                      (Crystal_GetCrystal / Crystal_MakeCopy).  The objects are handed over race-free (a pthread barrier: after it
                                      every object belongs to exactly one thread); then ALL threads copy / compare / propagate / clear / free THEIR
                                      objects concurrently.  An error and its copies being independent objects, ThreadSanitizer must stay silent and
                                      every copy must carry the code and text recorded when the original was made (`E <thread> copies <n> mismatches
                                      <m>`; with `serial` the threads take turns: the reference output)

   c17_threads selfrace               two threads increment one plain int of the HARNESS without synchronisation: tells "ThreadSanitizer is not
                                      live at all" from "the library's objects are not instrumented / the library synchronises now" when the
                                      canary round of the check (two threads inserting into the built-in crystal array) stays silent

   <ops>: lines `<thread id> <op …>` (ops as in xrl_ops.h; each thread has its own error slots and objects).
   Output: `T <thread> <k> <complete outcome of the k-th op of that thread>`; a ThreadSanitizer report goes to
   stderr and makes the exit status 66 (TSAN_OPTIONS set by the check).  The model (Hand/Sched.lean) says: no
   report, and `run` output == `serial` output. */
#define _GNU_SOURCE
#include <pthread.h>
#include <sched.h>
#include <locale.h>
#include <unistd.h>
#include "xrl_ops.h"

#define MAXT 64
typedef struct { char **ops; char **res; int n, cap; int id; unsigned long long rng; } script;
static script S[MAXT];
static int nthreads;
static pthread_barrier_t bar;
static int concurrent;

static unsigned long long nextr(unsigned long long *s) { *s ^= *s << 13; *s ^= *s >> 7; *s ^= *s << 17; return *s; }

static void *worker(void *arg) {
  script *s = arg;
  char *buf = malloc(1 << 18), *copy = malloc(1 << 16); char *tok[64];
  if (concurrent) pthread_barrier_wait(&bar);
  for (int k = 0; k < s->n; k++) {
    if (concurrent) {
      unsigned r = (unsigned)(nextr(&s->rng) & 15);
      if (r == 0) sched_yield(); else if (r == 1) { for (volatile int j = 0; j < 2000; j++); } else if (r == 2) usleep(50);
    }
    strncpy(copy, s->ops[k], (1 << 16) - 1); copy[(1 << 16) - 1] = 0;
    int nt = xrl_split(copy, tok, 64);
    obuf o = { buf, 0, 1 << 18 }; buf[0] = 0;
    int ok = nt ? xrl_op(&o, tok, nt, NULL) : 0;
    s->res[k] = strdup(ok ? buf : "bad-op");
  }
  free(buf); free(copy);
  return NULL;
}

/* ---- the setlocale search ------------------------------------------------------------------------- */
static const char *formula; static int iters; static int stop_flag, running;
static long queries, changed;
static void *parser_thread(void *a) {
  (void)a;
  for (int i = 0; i < iters && !__atomic_load_n(&stop_flag, __ATOMIC_RELAXED); i++) {
    xrl_error *e = NULL; double v = CS_Total_CP(formula, 10.0 + (i % 7), &e);
    if (e) xrl_error_free(e);
    if (!(v > 0)) { fprintf(stderr, "parser thread: CS_Total_CP failed\n"); break; }
  }
  __atomic_fetch_sub(&running, 1, __ATOMIC_SEQ_CST);
  return NULL;
}
static void *holder_thread(void *a) {
  (void)a;
  for (long i = 0; i < 400L * iters && (i < 64 || __atomic_load_n(&running, __ATOMIC_SEQ_CST) > 0); i++) {
    const char *l = setlocale(LC_NUMERIC, NULL);        /* what an application thread legitimately does */
    queries++;
    if (strcmp(l, "C.utf8") != 0) changed++;
    if ((i & 63) == 0) sched_yield();
  }
  return NULL;
}

/* ---- round ErrorShare ----------------------------------------------------------------------------- */
#define ES_ERR 10
#define ES_CRY 3
typedef struct { xrl_error *err[ES_ERR]; Crystal_Struct *cry[ES_CRY]; long copies, mismatches; char first[400]; int id; } es_thread;
static es_thread ES[MAXT]; static int es_n, es_epochs, es_serial;
static int es_code[ES_ERR]; static char *es_text[ES_ERR]; static char *es_cry[ES_CRY];     /* what the originals said when they were made: harness memory, read-only later */
static pthread_barrier_t es_bar;
static char *es_render(const Crystal_Struct *c) { obuf o = { malloc(1 << 14), 0, 1 << 14 }; o.p[0] = 0; ob_crystal(&o, c); return o.p; }
static void es_note(es_thread *T, const char *what, int i, const char *exp, const char *got) {
  if (!T->mismatches++) snprintf(T->first, sizeof T->first, "%s %d expected{%.150s} got{%.150s}", what, i, exp ? exp : "~", got ? got : "~");
}
static void es_check_err(es_thread *T, int i, const xrl_error *e, const char *what) {
  T->copies++;
  if (!e || (int)e->code != es_code[i] || !e->message || strcmp(e->message, es_text[i])) es_note(T, what, i, es_text[i], e ? e->message : NULL);
}
static void es_work(es_thread *T, int rounds) {
  for (int r = 0; r < rounds; r++) {
    for (int i = 0; i < ES_ERR; i++) {
      if (!T->err[i]) continue;
      xrl_error *c = xrl_error_copy(T->err[i]);
      es_check_err(T, i, c, "copy");
      switch ((r + i + T->id) % 4) {
        case 0: xrl_error_free(c); break;
        case 1: xrl_error_free(T->err[i]); T->err[i] = c; break;                       /* the copy outlives what it was copied from */
        case 2: { xrl_error *slot = NULL; xrl_propagate_error(&slot, c); es_check_err(T, i, slot, "propagated");
                  if (!xrl_error_matches(slot, (xrl_error_code)es_code[i])) es_note(T, "matches", i, es_text[i], "0"); xrl_clear_error(&slot); break; }
        default: { xrl_error *d = xrl_error_copy(c); xrl_error_free(c); es_check_err(T, i, d, "copy-of-copy"); xrl_error_free(d); }
      }
      es_check_err(T, i, T->err[i], "own");
    }
    for (int i = 0; i < ES_CRY; i++) {
      if (!T->cry[i]) continue;
      Crystal_Struct *c = Crystal_MakeCopy(T->cry[i], NULL); char *now = es_render(c);
      T->copies++; if (strcmp(now, es_cry[i])) es_note(T, "crystal-copy", i, es_cry[i], now);
      free(now); (void)Crystal_UnitCellVolume(T->cry[i], NULL);
      if ((r + i) & 1) Crystal_Free(c); else { Crystal_Free(T->cry[i]); T->cry[i] = c; }
    }
  }
  for (int i = 0; i < ES_ERR; i++) if (T->err[i]) { es_check_err(T, i, T->err[i], "final"); xrl_error_free(T->err[i]); T->err[i] = NULL; }
  for (int i = 0; i < ES_CRY; i++) if (T->cry[i]) { char *now = es_render(T->cry[i]); if (strcmp(now, es_cry[i])) es_note(T, "crystal-final", i, es_cry[i], now); free(now); Crystal_Free(T->cry[i]); T->cry[i] = NULL; }
}
/* the main thread: fresh originals through the public API, one copy per worker */
static void es_produce(int epoch) {
  xrl_error *b[ES_ERR]; memset(b, 0, sizeof b); char nm[64];
  AtomicWeight(-1 - epoch % 3, &b[0]);
  snprintf(nm, sizeof nm, "NoSuchCrystal%d", epoch); Crystal_Struct *c0 = Crystal_GetCrystal(nm, NULL, &b[1]); Crystal_Free(c0);
  snprintf(nm, sizeof nm, "%dXx", epoch); { struct radioNuclideData *r = GetRadioNuclideDataByName(nm, &b[2]); if (r) FreeRadioNuclideData(r); }
  { struct compoundData *cd = CompoundParser(epoch & 1 ? "h2o" : "Fe2O3)", &b[3]); if (cd) FreeCompoundData(cd); }
  b[4] = xrl_error_new(XRL_ERROR_RUNTIME, "made by hand in epoch %d (%s)", epoch, "ErrorShare");
  xrl_set_error_literal(&b[5], XRL_ERROR_IO, "a literal message");
  { struct compoundDataNIST *n = GetCompoundDataNISTByName("Unobtainium", &b[6]); if (n) FreeCompoundDataNIST(n); }
  LineEnergy(26, epoch & 1 ? 0 : -2000, &b[7]);
  CS_Total_CP("Xx2O", 10.0, &b[8]);
  b[9] = xrl_error_new_literal(XRL_ERROR_TYPE, "");
  for (int i = 0; i < ES_ERR; i++) {
    free(es_text[i]); es_text[i] = NULL; es_code[i] = -1;
    if (!b[i]) { for (int t = 0; t < es_n; t++) ES[t].err[i] = NULL; continue; }
    es_code[i] = (int)b[i]->code; es_text[i] = strdup(b[i]->message ? b[i]->message : "");
    ES[0].err[i] = b[i];                                                            /* thread 0 keeps the original */
    for (int t = 1; t < es_n; t++) ES[t].err[i] = xrl_error_copy((i & 1) ? ES[t - 1].err[i] : b[i]);       /* odd i: a chain of copies of copies */
  }
  static const char *names[ES_CRY] = { "Si", "AlphaQuartz", "Muscovite" };
  for (int i = 0; i < ES_CRY; i++) {
    Crystal_Struct *c = Crystal_GetCrystal(names[(i + epoch) % ES_CRY], NULL, NULL);
    free(es_cry[i]); es_cry[i] = es_render(c);
    ES[0].cry[i] = c;
    for (int t = 1; t < es_n; t++) ES[t].cry[i] = c ? Crystal_MakeCopy((i & 1) ? ES[t - 1].cry[i] : c, NULL) : NULL;
  }
}
static void *es_worker(void *a) {
  es_thread *T = a;
  for (int ep = 0; ep < es_epochs; ep++) {
    if (T->id == 0) es_produce(ep);
    pthread_barrier_wait(&es_bar);                /* hand-over: from here on every object belongs to one thread */
    es_work(T, 60);
    pthread_barrier_wait(&es_bar);                /* everybody is done with the objects of this epoch */
  }
  return NULL;
}

static int selfrace_counter;
static void *selfrace_thread(void *a) { (void)a; for (int i = 0; i < 20000; i++) selfrace_counter++; return NULL; }

int main(int argc, char **argv) {
  if (argc >= 2 && !strcmp(argv[1], "selfrace")) {
    pthread_t a, b; pthread_create(&a, NULL, selfrace_thread, NULL); pthread_create(&b, NULL, selfrace_thread, NULL);
    pthread_join(a, NULL); pthread_join(b, NULL); printf("selfrace %d\n", selfrace_counter); return 0;
  }
  if (argc < 4) { fprintf(stderr, "usage\n"); return 2; }
  setlocale(LC_ALL, "");
  if (!strcmp(argv[1], "errshare")) {
    es_n = atoi(argv[2]); es_epochs = atoi(argv[3]); es_serial = argc > 5 && !strcmp(argv[5], "serial");
    if (es_n < 2) es_n = 2; if (es_n > MAXT) es_n = MAXT;
    for (int t = 0; t < es_n; t++) ES[t].id = t;
    if (es_serial) {
      for (int ep = 0; ep < es_epochs; ep++) { es_produce(ep); for (int t = 0; t < es_n; t++) es_work(&ES[t], 60); }
    } else {
      pthread_t th[MAXT]; pthread_barrier_init(&es_bar, NULL, (unsigned)es_n);
      for (int t = 0; t < es_n; t++) pthread_create(&th[t], NULL, es_worker, &ES[t]);
      for (int t = 0; t < es_n; t++) pthread_join(th[t], NULL);
    }
    for (int t = 0; t < es_n; t++) printf("E %d copies %ld mismatches %ld %s\n", t, ES[t].copies, ES[t].mismatches, ES[t].first);
    return 0;
  }
  if (!strcmp(argv[1], "locale")) {
    int n = atoi(argv[2]); iters = atoi(argv[3]); formula = argc > 4 ? argv[4] : "Ca5(PO4)3F";
    if (n > MAXT) n = MAXT;
    const char *got = setlocale(LC_NUMERIC, "C.utf8");
    printf("L holder-locale %s\n", got ? got : "(unavailable)");
    if (!got) return 3;
    pthread_t h, th[MAXT];
    running = n;
    pthread_create(&h, NULL, holder_thread, NULL);
    for (int i = 0; i < n; i++) pthread_create(&th[i], NULL, parser_thread, NULL);
    pthread_join(h, NULL); __atomic_store_n(&stop_flag, 1, __ATOMIC_RELAXED);
    for (int i = 0; i < n; i++) pthread_join(th[i], NULL);
    const char *fin = setlocale(LC_NUMERIC, NULL);
    printf("L queries %ld changed %ld final %s\n", queries, changed, fin ? fin : "(null)");
    return 0;
  }
  concurrent = !strcmp(argv[1], "run");
  xrl_shared_build(argc > 4 ? argv[4] : NULL);
  printf("A shared-array %d %016llx\n", xrl_shared ? xrl_shared->n_crystal : -1, (unsigned long long)(xrl_shared ? xrl_array_hash(xrl_shared) : 0));
  unsigned long long seed = strtoull(argv[3], NULL, 10) * 2654435761ULL + 88172645463325252ULL;
  FILE *f = fopen(argv[2], "r"); if (!f) { perror(argv[2]); return 2; }
  static char line[1 << 16];
  while (fgets(line, sizeof line, f)) {
    size_t L = strlen(line); while (L && (line[L - 1] == '\n' || line[L - 1] == '\r')) line[--L] = 0;
    if (!L || line[0] == '#') continue;
    char *sp = strchr(line, ' '); if (!sp) continue;
    int t = atoi(line); if (t < 0 || t >= MAXT) continue;
    script *s = &S[t];
    if (s->n == s->cap) { s->cap = s->cap ? 2 * s->cap : 64; s->ops = realloc(s->ops, s->cap * sizeof(char *)); s->res = realloc(s->res, s->cap * sizeof(char *)); }
    s->ops[s->n++] = strdup(sp + 1);
    if (t + 1 > nthreads) nthreads = t + 1;
  }
  fclose(f);
  for (int t = 0; t < nthreads; t++) { S[t].id = t; S[t].rng = seed + 0x9E3779B97F4A7C15ULL * (unsigned long long)(t + 1); }
  if (concurrent) {
    pthread_t th[MAXT];
    pthread_barrier_init(&bar, NULL, (unsigned)nthreads);
    for (int t = 0; t < nthreads; t++) pthread_create(&th[t], NULL, worker, &S[t]);
    for (int t = 0; t < nthreads; t++) pthread_join(th[t], NULL);
  } else {
    for (int t = 0; t < nthreads; t++) worker(&S[t]);
  }
  for (int t = 0; t < nthreads; t++) for (int k = 0; k < S[t].n; k++) printf("T %d %d %s\n", t, k, S[t].res[k]);
  /* the shared array after all threads are done: nobody may have modified it */
  printf("A shared-array %d %016llx\n", xrl_shared ? xrl_shared->n_crystal : -1, (unsigned long long)(xrl_shared ? xrl_array_hash(xrl_shared) : 0));
  return 0;
}
