/* C15 correspondence driver: the real catalogue functions of the library built from the working tree (ASan+UBSan),
 * driven by protocol lines on stdin, one answer line per input line.
 *
 *   lineenergies <Z>...            (argv mode: `c15_drv --lineenergies Z1 Z2 …` prints `Z line value|err` for line -1..-LINENUM)
 *   mendel_sym\t<Z>                ok <symbol> | err
 *   mendel_z\t<symbol>             ok <Z> | err
 *   nist_name\t<name>              ok <name>\t<payload> | err         payload = n|Z,..|w,..|density   (%.17g)
 *   nist_idx\t<i>                  same
 *   nist_list                      ok <n>\t<name>\t<name>…
 *   nuclide_name / nuclide_idx / nuclide_list      payload = Z|A|N|Z_xray|nXrays|lines|intensities|nGammas|energies|intensities
 *   crystal_name\t<name> / crystal_list            payload = a,b,c,alpha,beta,gamma|volume|n_atom|Z,f,x,y,z;…
 *   copy_nist\t<i>\t<perm>         deep-copy independence: three copies (by index, by name, by index), the first is overwritten,
 *   copy_nuclide\t<i>\t<perm>      the others are compared with a fresh copy, all are freed in the order <perm> (digits 0-3);
 *   copy_crystal\t<i>\t<perm>      -> ok independent | bad <what>
 *   copy_list\t<which>\t<perm>     list functions: two lists, first overwritten, compared, freed in order
 *   <kind>_name\t%NULL% / mendel_z\t%NULL%        the lookup is called with a NULL name (must answer err: NULL/0 and an error object)
 * An error answer additionally requires: result NULL/0, error object set with a non-empty message (else `bad …`). */
#include <stdio.h>
#include <stdlib.h>
#include <string.h>
#include "xraylib.h"

/* hidden-state poisoning: the library must not READ errno (or any other thread state the application may have left behind).
   Before every operation the driver leaves a different value there, as an application that has just overflowed a strtod, taken
   the log of a negative number or failed an allocation would; the answers must not depend on it.  (Seeded changes C02-9, C06-9,
   C07-9, C12-9, C15-10, C16-7: "errno == ERANGE" tests without clearing errno first.) */
#include <errno.h>
#include <fenv.h>
static void xv_poison_errno(void) { static unsigned k; static const int v[4] = {ERANGE, EDOM, ENOMEM, 0};
  /* likewise the floating-point exception flags an application may have raised (seeded change C05-11: fetestexcept without feclearexcept) */
  feclearexcept(FE_ALL_EXCEPT); if ((k >> 2) & 1) feraiseexcept(FE_DIVBYZERO | FE_INVALID | FE_OVERFLOW);
  errno = v[k++ & 3]; }

static char buf[1 << 16];
#define NULL_TOKEN "%NULL%"     /* reserved argument of the *_name / mendel_z lines: the function is called with a NULL pointer */

static int err_ok(xrl_error **e) {
  int ok = (*e != NULL && (*e)->message != NULL && (*e)->message[0] != 0);
  if (*e) { xrl_error_free(*e); *e = NULL; }
  return ok;
}

static void pr_nist(struct compoundDataNIST *c) {
  int i;
  printf("ok %s\t%d|", c->name, c->nElements);
  for (i = 0; i < c->nElements; i++) printf("%s%d", i ? "," : "", c->Elements[i]);
  printf("|");
  for (i = 0; i < c->nElements; i++) printf("%s%.17g", i ? "," : "", c->massFractions[i]);
  printf("|%.17g\n", c->density);
}

static void pr_nuc(struct radioNuclideData *r) {
  int i;
  printf("ok %s\t%d|%d|%d|%d|%d|", r->name, r->Z, r->A, r->N, r->Z_xray, r->nXrays);
  for (i = 0; i < r->nXrays; i++) printf("%s%d", i ? "," : "", r->XrayLines[i]);
  printf("|");
  for (i = 0; i < r->nXrays; i++) printf("%s%.17g", i ? "," : "", r->XrayIntensities[i]);
  printf("|%d|", r->nGammas);
  for (i = 0; i < r->nGammas; i++) printf("%s%.17g", i ? "," : "", r->GammaEnergies[i]);
  printf("|");
  for (i = 0; i < r->nGammas; i++) printf("%s%.17g", i ? "," : "", r->GammaIntensities[i]);
  printf("\n");
}

static void pr_cryst(Crystal_Struct *c) {
  int i;
  printf("ok %s\t%.17g,%.17g,%.17g,%.17g,%.17g,%.17g|%.17g|%d|", c->name, c->a, c->b, c->c, c->alpha, c->beta, c->gamma, c->volume, c->n_atom);
  for (i = 0; i < c->n_atom; i++)
    printf("%s%d,%.17g,%.17g,%.17g,%.17g", i ? ";" : "", c->atom[i].Zatom, c->atom[i].fraction, c->atom[i].x, c->atom[i].y, c->atom[i].z);
  printf("\n");
}

static void pr_list(char **l, int n) {
  int i, k = 0;
  if (l == NULL) { printf("err\n"); return; }
  while (l[k] != NULL) k++;
  if (k != n) { printf("bad list has %d entries before NULL, count says %d\n", k, n); return; }
  printf("ok %d", n);
  for (i = 0; i < n; i++) printf("\t%s", l[i]);
  printf("\n");
  for (i = 0; i < n; i++) xrlFree(l[i]);
  xrlFree(l);
}

/* ---- deep copies ------------------------------------------------------------------------------------------ */
static int same_nist(struct compoundDataNIST *a, struct compoundDataNIST *b) {
  return strcmp(a->name, b->name) == 0 && a->nElements == b->nElements && a->density == b->density &&
         memcmp(a->Elements, b->Elements, sizeof(int) * a->nElements) == 0 && memcmp(a->massFractions, b->massFractions, sizeof(double) * a->nElements) == 0 &&
         a->name != b->name && a->Elements != b->Elements && a->massFractions != b->massFractions;
}
static int same_nuc(struct radioNuclideData *a, struct radioNuclideData *b) {
  return strcmp(a->name, b->name) == 0 && a->Z == b->Z && a->A == b->A && a->N == b->N && a->Z_xray == b->Z_xray && a->nXrays == b->nXrays && a->nGammas == b->nGammas &&
         memcmp(a->XrayLines, b->XrayLines, sizeof(int) * a->nXrays) == 0 && memcmp(a->XrayIntensities, b->XrayIntensities, sizeof(double) * a->nXrays) == 0 &&
         memcmp(a->GammaEnergies, b->GammaEnergies, sizeof(double) * a->nGammas) == 0 && memcmp(a->GammaIntensities, b->GammaIntensities, sizeof(double) * a->nGammas) == 0 &&
         a->name != b->name && a->XrayLines != b->XrayLines && a->XrayIntensities != b->XrayIntensities && a->GammaEnergies != b->GammaEnergies && a->GammaIntensities != b->GammaIntensities;
}
/* every scalar of the cell (a, b, c, alpha, beta, gamma), the volume, n_atom and every field of every atom (field by field: the
 * padding bytes of Crystal_Atom are not part of the value), and no storage shared */
static int same_cryst(Crystal_Struct *a, Crystal_Struct *b) {
  int i;
  if (strcmp(a->name, b->name) != 0 || a->n_atom != b->n_atom) return 0;
  if (a->a != b->a || a->b != b->b || a->c != b->c || a->alpha != b->alpha || a->beta != b->beta || a->gamma != b->gamma || a->volume != b->volume) return 0;
  if (a->name == b->name || a->atom == b->atom) return 0;
  for (i = 0; i < a->n_atom; i++)
    if (a->atom[i].Zatom != b->atom[i].Zatom || a->atom[i].fraction != b->atom[i].fraction ||
        a->atom[i].x != b->atom[i].x || a->atom[i].y != b->atom[i].y || a->atom[i].z != b->atom[i].z) return 0;
  return 1;
}

static void copy_nist(int idx, const char *perm) {
  xrl_error *e = NULL; struct compoundDataNIST *c[4]; int i; const char *p;
  c[0] = GetCompoundDataNISTByIndex(idx, &e);
  if (!c[0]) { err_ok(&e); printf("err\n"); return; }
  c[1] = GetCompoundDataNISTByName(c[0]->name, &e);
  c[2] = GetCompoundDataNISTByIndex(idx, &e);
  if (!c[1] || !c[2]) { printf("bad second lookup failed\n"); return; }
  if (!same_nist(c[0], c[1]) || !same_nist(c[1], c[2]) || !same_nist(c[0], c[2])) { printf("bad copies share storage or differ\n"); return; }
  memset(c[0]->name, '#', strlen(c[0]->name));
  for (i = 0; i < c[0]->nElements; i++) { c[0]->Elements[i] = -7; c[0]->massFractions[i] = -1.5; }
  c[0]->density = -2.0;
  c[3] = GetCompoundDataNISTByIndex(idx, &e);
  if (!c[3] || !same_nist(c[1], c[3]) || !same_nist(c[2], c[3])) { printf("bad catalogue or sibling copy changed after mutation of a copy\n"); return; }
  for (p = perm; *p; p++) FreeCompoundDataNIST(c[*p - '0']);
  printf("ok independent\n");
}

static void copy_nuc(int idx, const char *perm) {
  xrl_error *e = NULL; struct radioNuclideData *c[4]; int i; const char *p;
  c[0] = GetRadioNuclideDataByIndex(idx, &e);
  if (!c[0]) { err_ok(&e); printf("err\n"); return; }
  c[1] = GetRadioNuclideDataByName(c[0]->name, &e);
  c[2] = GetRadioNuclideDataByIndex(idx, &e);
  if (!c[1] || !c[2]) { printf("bad second lookup failed\n"); return; }
  if (!same_nuc(c[0], c[1]) || !same_nuc(c[1], c[2]) || !same_nuc(c[0], c[2])) { printf("bad copies share storage or differ\n"); return; }
  memset(c[0]->name, '#', strlen(c[0]->name));
  for (i = 0; i < c[0]->nXrays; i++) { c[0]->XrayLines[i] = 7; c[0]->XrayIntensities[i] = -1.5; }
  for (i = 0; i < c[0]->nGammas; i++) { c[0]->GammaEnergies[i] = -3.0; c[0]->GammaIntensities[i] = -1.5; }
  c[0]->Z = -1;
  c[3] = GetRadioNuclideDataByIndex(idx, &e);
  if (!c[3] || !same_nuc(c[1], c[3]) || !same_nuc(c[2], c[3])) { printf("bad catalogue or sibling copy changed after mutation of a copy\n"); return; }
  for (p = perm; *p; p++) FreeRadioNuclideData(c[*p - '0']);
  printf("ok independent\n");
}

static void copy_cryst(int idx, const char *perm) {
  xrl_error *e = NULL; Crystal_Struct *c[4]; int i, n = 0; const char *p; char **l; char *name;
  l = Crystal_GetCrystalsList(NULL, &n, &e);
  if (!l || idx < 0 || idx >= n) { if (l) { for (i = 0; i < n; i++) xrlFree(l[i]); xrlFree(l); } printf("err\n"); return; }
  name = l[idx];
  c[0] = Crystal_GetCrystal(name, NULL, &e); c[1] = Crystal_GetCrystal(name, NULL, &e); c[2] = Crystal_MakeCopy(c[1], &e);
  if (!c[0] || !c[1] || !c[2]) { printf("bad lookup failed\n"); return; }
  if (!same_cryst(c[0], c[1]) || !same_cryst(c[1], c[2]) || !same_cryst(c[0], c[2])) { printf("bad copies share storage or differ\n"); return; }
  memset(c[0]->name, '#', strlen(c[0]->name));
  for (i = 0; i < c[0]->n_atom; i++) { c[0]->atom[i].Zatom = -7; c[0]->atom[i].fraction = -1.5; c[0]->atom[i].x = 9.0; c[0]->atom[i].y = 8.0; c[0]->atom[i].z = 7.0; }
  c[0]->a = -2.0; c[0]->b = -3.0; c[0]->c = -4.0; c[0]->alpha = -5.0; c[0]->beta = -6.0; c[0]->gamma = -7.0; c[0]->volume = -8.0;
  c[3] = Crystal_GetCrystal(name, NULL, &e);
  if (!c[3] || !same_cryst(c[1], c[3]) || !same_cryst(c[2], c[3])) { printf("bad catalogue or sibling copy changed after mutation of a copy\n"); return; }
  for (p = perm; *p; p++) Crystal_Free(c[*p - '0']);
  for (i = 0; i < n; i++) xrlFree(l[i]);
  xrlFree(l);
  printf("ok independent\n");
}

static void copy_list(const char *which, const char *perm) {
  xrl_error *e = NULL; char **l[2]; int n[2] = {0, 0}, i, k; const char *p;
  for (k = 0; k < 2; k++) {
    if (!strcmp(which, "nist")) l[k] = GetCompoundDataNISTList(&n[k], &e);
    else if (!strcmp(which, "nuclide")) l[k] = GetRadioNuclideDataList(&n[k], &e);
    else l[k] = Crystal_GetCrystalsList(NULL, &n[k], &e);
    if (!l[k]) { printf("bad list failed\n"); return; }
  }
  if (n[0] != n[1]) { printf("bad two lists of different length\n"); return; }
  for (i = 0; i < n[0]; i++) if (l[0][i] == l[1][i] || strcmp(l[0][i], l[1][i])) { printf("bad lists share strings or differ\n"); return; }
  for (i = 0; i < n[0]; i++) memset(l[0][i], '#', strlen(l[0][i]));
  {
    char **l2; int n2 = 0;
    if (!strcmp(which, "nist")) l2 = GetCompoundDataNISTList(&n2, &e);
    else if (!strcmp(which, "nuclide")) l2 = GetRadioNuclideDataList(&n2, &e);
    else l2 = Crystal_GetCrystalsList(NULL, &n2, &e);
    if (!l2 || n2 != n[1]) { printf("bad list failed after mutation\n"); return; }
    for (i = 0; i < n2; i++) if (strcmp(l2[i], l[1][i])) { printf("bad catalogue names changed after mutation of a list\n"); return; }
    for (i = 0; i < n2; i++) xrlFree(l2[i]);
    xrlFree(l2);
  }
  for (p = perm; *p; p++) { k = *p - '0'; for (i = 0; i < n[k]; i++) xrlFree(l[k][i]); xrlFree(l[k]); }
  printf("ok independent\n");
}

int main(int argc, char **argv) {
  xrl_error *e = NULL;
  XRayInit();
  if (argc > 1 && !strcmp(argv[1], "--lineenergies")) {
    int a, k;
    for (a = 2; a < argc; a++) {
      int Z = atoi(argv[a]);
      for (k = 1; k <= LINENUM; k++) {
        double v = LineEnergy(Z, -k, &e);
        if (e != NULL || v <= 0.0) { if (e) { xrl_error_free(e); e = NULL; } printf("%d %d err\n", Z, -k); }
        else printf("%d %d %.17g\n", Z, -k, v);
      }
    }
    return 0;
  }
  if (argc > 1 && !strcmp(argv[1], "--nuclide-zxray")) {       /* daughter elements, as the library reports them */
    int n = 0, i; char **l = GetRadioNuclideDataList(&n, &e);
    for (i = 0; i < n; i++) { struct radioNuclideData *r = GetRadioNuclideDataByIndex(i, &e); printf("%d\n", r->Z_xray); FreeRadioNuclideData(r); xrlFree(l[i]); }
    xrlFree(l);
    return 0;
  }
  while (fgets(buf, sizeof buf, stdin)) {
    xv_poison_errno();
    char *cmd, *a1, *a2;
    size_t n = strlen(buf);
    if (n && buf[n - 1] == '\n') buf[--n] = 0;
    cmd = buf; a1 = strchr(buf, '\t'); a2 = NULL;
    if (a1) { *a1++ = 0; }
    if (a1 && !strncmp(cmd, "copy_", 5)) { a2 = strchr(a1, '\t'); if (a2) *a2++ = 0; }
    if (a1 && !strcmp(a1, NULL_TOKEN) && (!strcmp(cmd, "mendel_z") || (strlen(cmd) > 5 && !strcmp(cmd + strlen(cmd) - 5, "_name")))) a1 = NULL;   /* a NULL name */
    if (!strcmp(cmd, "mendel_sym")) {
      char *s = AtomicNumberToSymbol(atoi(a1), &e);
      if (s) { if (e) printf("bad result and error\n"); else printf("ok %s\n", s); xrlFree(s); } else printf(err_ok(&e) ? "err\n" : "bad NULL without error\n");
    } else if (!strcmp(cmd, "mendel_z")) {
      int z = SymbolToAtomicNumber(a1, &e);
      if (z) { if (e) printf("bad result and error\n"); else printf("ok %d\n", z); } else printf(err_ok(&e) ? "err\n" : "bad 0 without error\n");
    } else if (!strcmp(cmd, "nist_name") || !strcmp(cmd, "nist_idx")) {
      struct compoundDataNIST *c = cmd[5] == 'n' ? GetCompoundDataNISTByName(a1, &e) : GetCompoundDataNISTByIndex(atoi(a1), &e);
      if (c) { if (e) printf("bad result and error\n"); else pr_nist(c); FreeCompoundDataNIST(c); } else printf(err_ok(&e) ? "err\n" : "bad NULL without error\n");
    } else if (!strcmp(cmd, "nuclide_name") || !strcmp(cmd, "nuclide_idx")) {
      struct radioNuclideData *c = cmd[8] == 'n' ? GetRadioNuclideDataByName(a1, &e) : GetRadioNuclideDataByIndex(atoi(a1), &e);
      if (c) { if (e) printf("bad result and error\n"); else pr_nuc(c); FreeRadioNuclideData(c); } else printf(err_ok(&e) ? "err\n" : "bad NULL without error\n");
    } else if (!strcmp(cmd, "crystal_name")) {
      Crystal_Struct *c = Crystal_GetCrystal(a1, NULL, &e);
      if (c) { if (e) printf("bad result and error\n"); else pr_cryst(c); Crystal_Free(c); } else printf(err_ok(&e) ? "err\n" : "bad NULL without error\n");
    } else if (!strcmp(cmd, "nist_list")) { int k = -1; char **l = GetCompoundDataNISTList(&k, &e); pr_list(l, k);
    } else if (!strcmp(cmd, "nuclide_list")) { int k = -1; char **l = GetRadioNuclideDataList(&k, &e); pr_list(l, k);
    } else if (!strcmp(cmd, "crystal_list")) { int k = -1; char **l = Crystal_GetCrystalsList(NULL, &k, &e); pr_list(l, k);
    } else if (!strcmp(cmd, "copy_nist")) copy_nist(atoi(a1), a2);
    else if (!strcmp(cmd, "copy_nuclide")) copy_nuc(atoi(a1), a2);
    else if (!strcmp(cmd, "copy_crystal")) copy_cryst(atoi(a1), a2);
    else if (!strcmp(cmd, "copy_list")) copy_list(a1, a2);
    else printf("bad unknown command %s\n", cmd);
    fflush(stdout);
  }
  return 0;
}
