/* C++ driver of the C18 check: the same line protocol as harness/xdrv.c, served through cplusplus/xraylib++.h.
   answer:  ok <value>* L<live-block delta>          the wrapper returned (objects are printed field by field *after*
                                                     the wrapper has released the C original)
            throw <class> L<live-block delta> m<%-escaped what()>
   The live-block delta (allocwrap.c) is taken after the returned object and the exception object are gone.
   Crystal queries that the header offers twice — as a method of Crystal::Struct and as a free function of namespace
   Crystal — are made through BOTH routes on every line:  <answer through the method> || <answer through the free function>.
   Sessions on process-wide collection state (the built-in crystal collection): besides the two wrapper routes StructAdd / StructAddF
   the collection is changed through the C API called directly from this process — CAdd (Crystal_AddCrystal(c, NULL)), CReadFile
   (Crystal_ReadFile(file, NULL)) — and CList answers the list query with the C function called directly here; the wrappers' own
   queries (Crystal_GetCrystalsList, Crystal_GetCrystal, …) are issued before and after every one of them.
   Built by ./check with clang++-14 -std=gnu++17, ASan+UBSan, against the library objects of the working tree. */
#include "config.h"
#include <cstdio>
#include <cstdlib>
#include <cstring>
#include <cstdint>
#include <string>
#include <vector>
#include <memory>
#include <new>
#include <typeinfo>
#include <unistd.h>
#include "xraylib++.h"

extern "C" { long xv_live(void); void xv_fail_after(long n); }

static double pd(const char *s) { uint64_t b = strtoull(s + 1, NULL, 16); double d; memcpy(&d, &b, 8); return d; }
static std::string ps(const char *s) {
  std::string r;
  for (const char *p = s + 1; *p;) {
    if (*p == '%' && p[1] && p[2]) { char h[3] = {p[1], p[2], 0}; r.push_back((char)strtol(h, NULL, 16)); p += 3; }
    else r.push_back(*p++);
  }
  return r;
}
static std::string esc(const std::string &s) {
  std::string r; char b[8];
  for (unsigned char c : s) {
    if ((c >= '0' && c <= '9') || (c >= 'A' && c <= 'Z') || (c >= 'a' && c <= 'z') || strchr("()._-+,", c)) r.push_back((char)c);
    else { snprintf(b, sizeof b, "%%%02x", c); r += b; }
  }
  return r;
}
static std::string out;
static void pr_d(double d) { uint64_t b; memcpy(&b, &d, 8); char t[32]; snprintf(t, sizeof t, " x%016llx", (unsigned long long)b); out += t; }
static void pr_i(int v) { out += " " + std::to_string(v); }
static void pr_s(const std::string &s) { out += " s" + esc(s); }
static void pr_c(const std::complex<double> &c) { pr_d(c.real()); pr_d(c.imag()); }

static std::string answer;      /* the answer of the last CALL */
static bool hold = false;       /* true: CALL leaves its answer in `answer` instead of printing it (two-route lines) */
static long armed = 0;          /* `!failalloc k` given on the previous line: a two-route line arms the same failure for its second route too */
#define CALL(...) do { \
    out.clear(); long l0 = xv_live(); std::string ek, em; \
    try { __VA_ARGS__; } \
    catch (const std::invalid_argument &x) { ek = "invalid_argument"; em = x.what(); } \
    catch (const std::bad_alloc &x) { ek = "bad_alloc"; em = ""; } \
    catch (const std::runtime_error &x) { ek = "runtime_error"; em = x.what(); } \
    catch (const std::exception &x) { ek = std::string("other:") + typeid(x).name(); em = x.what(); } \
    xv_fail_after(0); long d = xv_live() - l0; \
    if (ek.empty()) answer = "ok" + out + " L" + std::to_string(d); \
    else answer = "throw " + ek + " L" + std::to_string(d) + " m" + esc(em); \
    if (!hold) printf("%s\n", answer.c_str()); \
  } while (0)

#include "cppdrv_gen.inc"

using xrlpp::Crystal::Struct;

static void pr_cs(const Struct &c) {
  pr_s(c.name); pr_d(c.a); pr_d(c.b); pr_d(c.c); pr_d(c.alpha); pr_d(c.beta); pr_d(c.gamma); pr_d(c.volume); pr_i(c.n_atom);
  for (const auto &a : c.atom) { pr_i(a.Zatom); pr_d(a.fraction); pr_d(a.x); pr_d(a.y); pr_d(a.z); }
}
static void pr_list(const std::vector<std::string> &l) { pr_i((int)l.size()); for (const auto &s : l) pr_s(s); }
static void pr_cdn(const xrlpp::compoundDataNIST &c) {
  pr_s(c.name); pr_i(c.nElements);
  for (int z : c.Elements) pr_i(z);
  for (double m : c.massFractions) pr_d(m);
  pr_d(c.density);
}
static void pr_rnd(const xrlpp::radioNuclideData &r) {
  pr_s(r.name); pr_i(r.Z); pr_i(r.A); pr_i(r.N); pr_i(r.Z_xray); pr_i(r.nXrays);
  for (int l : r.XrayLines) pr_i(l);
  for (double x : r.XrayIntensities) pr_d(x);
  pr_i(r.nGammas);
  for (double x : r.GammaEnergies) pr_d(x);
  for (double x : r.GammaIntensities) pr_d(x);
}

#define IS(nm, n) (!strcmp(tok[0], nm) && nt == (n) + 2)
static int dispatch_hand(char **tok, int nt) {
  if (IS("CompoundParser", 1)) { std::string s = ps(tok[1]); CALL(
      auto cd = xrlpp::CompoundParser(s); pr_i(cd.nElements); for (int z : cd.Elements) pr_i(z); for (double m : cd.massFractions) pr_d(m);
      pr_d(cd.nAtomsAll); for (double n : cd.nAtoms) pr_d(n); pr_d(cd.molarMass)); return 1; }
  if (IS("AtomicNumberToSymbol", 1)) { int Z = atoi(tok[1]); CALL(pr_s(xrlpp::AtomicNumberToSymbol(Z))); return 1; }
  if (IS("SymbolToAtomicNumber", 1)) { std::string s = ps(tok[1]); CALL(pr_i(xrlpp::SymbolToAtomicNumber(s))); return 1; }
  if (IS("GetCompoundDataNISTByName", 1)) { std::string s = ps(tok[1]); CALL(pr_cdn(xrlpp::GetCompoundDataNISTByName(s))); return 1; }
  if (IS("GetCompoundDataNISTByIndex", 1)) { int k = atoi(tok[1]); CALL(pr_cdn(xrlpp::GetCompoundDataNISTByIndex(k))); return 1; }
  if (IS("GetCompoundDataNISTList", 0)) { CALL(pr_list(xrlpp::GetCompoundDataNISTList())); return 1; }
  if (IS("GetRadioNuclideDataByName", 1)) { std::string s = ps(tok[1]); CALL(pr_rnd(xrlpp::GetRadioNuclideDataByName(s))); return 1; }
  if (IS("GetRadioNuclideDataByIndex", 1)) { int k = atoi(tok[1]); CALL(pr_rnd(xrlpp::GetRadioNuclideDataByIndex(k))); return 1; }
  if (IS("GetRadioNuclideDataList", 0)) { CALL(pr_list(xrlpp::GetRadioNuclideDataList())); return 1; }
  if (IS("Refractive_Index", 3)) { std::string s = ps(tok[1]); double E = pd(tok[2]), d = pd(tok[3]); CALL(pr_c(xrlpp::Refractive_Index(s, E, d))); return 1; }
  if (IS("Atomic_FactorsM", 5)) { int Z = atoi(tok[1]); double E = pd(tok[2]), q = pd(tok[3]), df = pd(tok[4]); int mk = atoi(tok[5]);
    /* output slots selected by the mask; a NULL slot means "do not evaluate that factor" in C (its argument checks are skipped too) */
    CALL(double f0 = 0; double fp = 0; double fpp = 0; int r = xrlpp::Crystal::Atomic_Factors(Z, E, q, df, (mk & 1) ? &f0 : nullptr, (mk & 2) ? &fp : nullptr, (mk & 4) ? &fpp : nullptr); pr_i(r); if (r) { pr_d(f0); pr_d(fp); pr_d(fpp); }); return 1; }
  if (IS("Atomic_Factors", 4)) { int Z = atoi(tok[1]); double E = pd(tok[2]), q = pd(tok[3]), df = pd(tok[4]);
    CALL(double f0 = 0; double fp = 0; double fpp = 0; int r = xrlpp::Crystal::Atomic_Factors(Z, E, q, df, &f0, &fp, &fpp); pr_i(r); if (r) { pr_d(f0); pr_d(fp); pr_d(fpp); }); return 1; }
  if (IS("Crystal_GetCrystalsList", 0)) { CALL(pr_list(xrlpp::Crystal::GetCrystalsList())); return 1; }
  if (IS("Crystal_GetCrystal", 1)) { std::string s = ps(tok[1]); CALL(auto c = xrlpp::Crystal::GetCrystal(s); pr_cs(c)); return 1; }
  /* crystal queries: every line through the method AND through the free function of namespace Crystal (each on a fresh object) */
#define WITH_CS(m, f) { std::string s = ps(tok[1]); hold = true; \
    CALL(auto c = xrlpp::Crystal::GetCrystal(s); m); std::string a1 = answer; \
    if (armed) xv_fail_after(armed); \
    CALL(auto c = xrlpp::Crystal::GetCrystal(s); f); hold = false; \
    printf("%s || %s\n", a1.c_str(), answer.c_str()); return 1; }
  if (IS("Bragg_angle", 5)) WITH_CS(pr_d(c.Bragg_angle(pd(tok[2]), atoi(tok[3]), atoi(tok[4]), atoi(tok[5]))),
                                    pr_d(xrlpp::Crystal::Bragg_angle(c, pd(tok[2]), atoi(tok[3]), atoi(tok[4]), atoi(tok[5]))))
  if (IS("Q_scattering_amplitude", 6)) WITH_CS(pr_d(c.Q_scattering_amplitude(pd(tok[2]), atoi(tok[3]), atoi(tok[4]), atoi(tok[5]), pd(tok[6]))),
                                    pr_d(xrlpp::Crystal::Q_scattering_amplitude(c, pd(tok[2]), atoi(tok[3]), atoi(tok[4]), atoi(tok[5]), pd(tok[6]))))
  if (IS("Crystal_F_H_StructureFactor", 7)) WITH_CS(pr_c(c.F_H_StructureFactor(pd(tok[2]), atoi(tok[3]), atoi(tok[4]), atoi(tok[5]), pd(tok[6]), pd(tok[7]))),
                                    pr_c(xrlpp::Crystal::F_H_StructureFactor(c, pd(tok[2]), atoi(tok[3]), atoi(tok[4]), atoi(tok[5]), pd(tok[6]), pd(tok[7]))))
  if (IS("Crystal_F_H_StructureFactor_Partial", 10)) WITH_CS(
      pr_c(c.F_H_StructureFactor_Partial(pd(tok[2]), atoi(tok[3]), atoi(tok[4]), atoi(tok[5]), pd(tok[6]), pd(tok[7]), atoi(tok[8]), atoi(tok[9]), atoi(tok[10]))),
      pr_c(xrlpp::Crystal::F_H_StructureFactor_Partial(c, pd(tok[2]), atoi(tok[3]), atoi(tok[4]), atoi(tok[5]), pd(tok[6]), pd(tok[7]), atoi(tok[8]), atoi(tok[9]), atoi(tok[10]))))
  if (IS("Crystal_UnitCellVolume", 1)) WITH_CS(pr_d(c.UnitCellVolume()), pr_d(xrlpp::Crystal::UnitCellVolume(c)))
  if (IS("Crystal_dSpacing", 4)) WITH_CS(pr_d(c.dSpacing(atoi(tok[2]), atoi(tok[3]), atoi(tok[4]))), pr_d(xrlpp::Crystal::dSpacing(c, atoi(tok[2]), atoi(tok[3]), atoi(tok[4]))))
  /* ---- object-lifetime scenarios (C twins in xdrv.c) ---- */
  if (IS("StructCopy", 5)) { std::string s = ps(tok[1]); CALL(
      std::unique_ptr<Struct> a(new Struct(xrlpp::Crystal::GetCrystal(s))); Struct b(*a); a.reset();
      pr_cs(b); pr_d(b.UnitCellVolume()); pr_d(b.Bragg_angle(pd(tok[2]), atoi(tok[3]), atoi(tok[4]), atoi(tok[5])))); return 1; }
  if (IS("StructNew", 5)) { std::string s = ps(tok[1]); std::string nn = ps(tok[2]); CALL(
      std::unique_ptr<Struct> a(new Struct(xrlpp::Crystal::GetCrystal(s)));
      std::unique_ptr<Struct> k(new Struct(nn, a->a, a->b, a->c, a->alpha, a->beta, a->gamma, a->volume, a->atom)); a.reset();
      pr_cs(*k); pr_d(k->UnitCellVolume()); pr_d(k->dSpacing(atoi(tok[3]), atoi(tok[4]), atoi(tok[5])))); return 1; }
  /* StructAdd: through the method; StructAddF: through the free function (the call changes the built-in array, so one line = one route) */
  if (IS("StructAdd", 2) || IS("StructAddF", 2)) { std::string s = ps(tok[1]); std::string nn = ps(tok[2]); bool viaMethod = !strcmp(tok[0], "StructAdd"); CALL(
      std::unique_ptr<Struct> a(new Struct(xrlpp::Crystal::GetCrystal(s)));
      std::unique_ptr<Struct> k(new Struct(nn, a->a, a->b, a->c, a->alpha, a->beta, a->gamma, a->volume, a->atom)); a.reset();
      pr_i(viaMethod ? k->AddCrystal() : xrlpp::Crystal::AddCrystal(*k))); return 1; }
  /* ---- mutations of the built-in collection that do NOT pass through a wrapper, and the C answer to the list query in this process.
     The C driver (harness/xdrv.c) is sent the line of the same effect on its own collection: CAdd, CReadFile -> StructAdd; CList ->
     Crystal_GetCrystalsList (props/c18.py: c_line).  A C error is turned into the exception of the protocol by _process_error. ---- */
  if (IS("CAdd", 2)) { std::string s = ps(tok[1]); std::string nn = ps(tok[2]); CALL(
      xrl_error *er = nullptr; Crystal_Struct *c = ::Crystal_GetCrystal(s.c_str(), nullptr, &er); xrlpp::_process_error(er);
      Crystal_Struct *k = (Crystal_Struct *)xrl_malloc(sizeof(Crystal_Struct)); *k = *c; k->name = xrl_strdup(nn.c_str());
      k->atom = (Crystal_Atom *)xrl_malloc(sizeof(Crystal_Atom) * c->n_atom); for (int i = 0; i < c->n_atom; i++) k->atom[i] = c->atom[i];
      ::Crystal_Free(c); int r = ::Crystal_AddCrystal(k, nullptr, &er); ::Crystal_Free(k); xrlpp::_process_error(er); pr_i(r)); return 1; }
  if (IS("CReadFile", 2)) { std::string s = ps(tok[1]); std::string nn = ps(tok[2]); CALL(
      /* a crystal file with ONE entry: the built-in crystal `s` under the name `nn` (17 significant digits: the text converts back exactly) */
      xrl_error *er = nullptr; Crystal_Struct *c = ::Crystal_GetCrystal(s.c_str(), nullptr, &er); xrlpp::_process_error(er);
      const char *td = getenv("TMPDIR"); std::string path = std::string(td && *td ? td : "/tmp") + "/c18drv_XXXXXX";
      int fd = mkstemp(&path[0]); FILE *f = fd >= 0 ? fdopen(fd, "w") : nullptr;
      if (f) {
        fprintf(f, "#S 1 %s\n#UCELL %.17g %.17g %.17g %.17g %.17g %.17g\n#L  AtomicNumber  Fraction  X  Y  Z\n", nn.c_str(), c->a, c->b, c->c, c->alpha, c->beta, c->gamma);
        for (int i = 0; i < c->n_atom; i++) fprintf(f, "%d %.17g %.17g %.17g %.17g\n", c->atom[i].Zatom, c->atom[i].fraction, c->atom[i].x, c->atom[i].y, c->atom[i].z);
        fclose(f);
      }
      ::Crystal_Free(c);
      int r = ::Crystal_ReadFile(path.c_str(), nullptr, &er); unlink(path.c_str()); xrlpp::_process_error(er); pr_i(r)); return 1; }
  if (IS("CList", 0)) { CALL(
      xrl_error *er = nullptr; int n = 0; char **l = ::Crystal_GetCrystalsList(nullptr, &n, &er); xrlpp::_process_error(er);
      pr_i(n); for (int i = 0; i < n; i++) { pr_s(l[i]); ::xrlFree(l[i]); } ::xrlFree(l)); return 1; }
  if (IS("ProcessError", 2)) { int code = atoi(tok[1]); std::string m = ps(tok[2]); CALL(
      xrl_error *er = nullptr;
      if (code >= 0) { er = (xrl_error *)xrl_malloc(sizeof(xrl_error)); er->code = (xrl_error_code)code; er->message = xrl_strdup(m.c_str()); }
      xrlpp::_process_error(er)); return 1; }
  if (!strcmp(tok[0], "Hist")) {
    /* Hist <n> <name_0> … <name_{n-1}> <m> <formula_0> … <op>*  : a history of the ownership model (Hand/Struct.lean) on real objects.
       g<c> GetCrystal(name_c); n<c> public constructor from the fields of name_c; c<i> copy; d<i> destroy; k<i> method call
       (UnitCellVolume through `cs`); f<i> method call that walks the atom array of `cs` (real part of
       F_H_StructureFactor(8 keV, 111, 1, 1)); p<c> CompoundParser(formula_c); r<i> read the value members.
       Events: u, s (no such live object), v<bits of the observed number>; then L<live C blocks>, then Z<live after all destroyed>. */
    int n = atoi(tok[1]); std::vector<std::string> names, forms;
    for (int i = 0; i < n; i++) names.push_back(ps(tok[2 + i]));
    int m = atoi(tok[2 + n]);
    for (int i = 0; i < m; i++) forms.push_back(ps(tok[3 + n + i]));
    out.clear(); long l0 = xv_live(); std::string ek;
    {
      std::vector<std::unique_ptr<Struct>> cs; std::vector<std::unique_ptr<xrlpp::compoundData>> pods; std::vector<int> which;  /* object index -> (kind, slot) */
      std::vector<std::pair<int, size_t>> objs;
      try {
        for (int t = 4 + n + m - 1; t < nt; t++) {
          char op = tok[t][0]; size_t x = (size_t)atol(tok[t] + 1);
          auto live = [&](size_t i) { return i < objs.size() && objs[i].first >= 0 && (objs[i].first == 0 ? (bool)cs[objs[i].second] : (bool)pods[objs[i].second]); };
          switch (op) {
            case 'g': cs.emplace_back(new Struct(xrlpp::Crystal::GetCrystal(names.at(x)))); objs.push_back({0, cs.size() - 1}); out += " u"; break;
            case 'n': { Struct src(xrlpp::Crystal::GetCrystal(names.at(x)));
                        cs.emplace_back(new Struct(src.name + "_mk", src.a, src.b, src.c, src.alpha, src.beta, src.gamma, src.volume, src.atom));
                        objs.push_back({0, cs.size() - 1}); out += " u"; break; }
            case 'c': if (!live(x)) { out += " s"; break; }
                      if (objs[x].first == 0) { cs.emplace_back(new Struct(*cs[objs[x].second])); objs.push_back({0, cs.size() - 1}); }
                      else { pods.emplace_back(new xrlpp::compoundData(*pods[objs[x].second])); objs.push_back({1, pods.size() - 1}); }
                      out += " u"; break;
            /* m<i>: a new object MOVE-constructed from object i (the header declares no move constructor: this is a copy, and
               the source stays a full owner); w<i>: object i pushed twice into a std::vector<Struct> that then grows
               (re-allocation move/copy-constructs the elements), each element used and the vector destroyed: one new object
               (a copy of the last element) survives.  Both must behave exactly like `c<i>` in the ownership model. */
            case 'm': if (!live(x)) { out += " s"; break; }
                      if (objs[x].first == 0) { cs.emplace_back(new Struct(std::move(*cs[objs[x].second]))); objs.push_back({0, cs.size() - 1}); }
                      else { pods.emplace_back(new xrlpp::compoundData(std::move(*pods[objs[x].second]))); objs.push_back({1, pods.size() - 1}); }
                      out += " u"; break;
            case 'w': if (!live(x)) { out += " s"; break; }
                      if (objs[x].first == 0) {
                        std::vector<Struct> v; v.push_back(*cs[objs[x].second]); v.push_back(*cs[objs[x].second]);
                        v.reserve(v.capacity() + 9); v.push_back(Struct(*cs[objs[x].second]));
                        double acc = 0; for (auto &e : v) acc += e.UnitCellVolume();
                        (void)acc;
                        cs.emplace_back(new Struct(v.back())); objs.push_back({0, cs.size() - 1});
                      } else { pods.emplace_back(new xrlpp::compoundData(*pods[objs[x].second])); objs.push_back({1, pods.size() - 1}); }
                      out += " u"; break;
            case 'd': if (!live(x)) { out += " s"; break; }
                      if (objs[x].first == 0) cs[objs[x].second].reset(); else pods[objs[x].second].reset();
                      out += " u"; break;
            case 'k': if (!live(x)) { out += " s"; break; }
                      out += " v"; if (objs[x].first == 0) pr_d(cs[objs[x].second]->UnitCellVolume()); else pr_d(pods[objs[x].second]->molarMass); break;
            case 'f': if (!live(x)) { out += " s"; break; }
                      out += " v"; if (objs[x].first == 0) pr_d(cs[objs[x].second]->F_H_StructureFactor(8.0, 1, 1, 1, 1.0, 1.0).real()); else pr_d(pods[objs[x].second]->molarMass); break;
            case 'p': pods.emplace_back(new xrlpp::compoundData(xrlpp::CompoundParser(forms.at(x)))); objs.push_back({1, pods.size() - 1}); out += " u"; break;
            case 'r': if (!live(x)) { out += " s"; break; }
                      out += " v"; if (objs[x].first == 0) pr_d(cs[objs[x].second]->volume); else pr_d(pods[objs[x].second]->molarMass); break;
            default: out += " ?";
          }
        }
      } catch (const std::exception &x) { ek = x.what(); }
      out += " L" + std::to_string(xv_live() - l0);
    }
    if (ek.empty()) printf("ok%s Z%ld\n", out.c_str(), xv_live() - l0); else printf("throw in-history m%s\n", esc(ek).c_str());
    return 1;
  }
  if (!strcmp(tok[0], "!failalloc") && nt == 2) { armed = atol(tok[1]); xv_fail_after(armed); printf("set\n"); return 1; }
  return 0;
}

int main(void) {
  static char line[1 << 16];
  char *tok[256];
  setvbuf(stdout, NULL, _IOFBF, 1 << 16);
  xrlpp::XrayInit();
  printf("ready\n"); fflush(stdout);
  while (fgets(line, sizeof line, stdin)) {
    int nt = 0;
    for (char *p = strtok(line, " \n"); p && nt < 256; p = strtok(NULL, " \n")) tok[nt++] = p;
    if (nt == 0) continue;
    bool arming = !strcmp(tok[0], "!failalloc");
    if (!dispatch_gen(tok, nt) && !dispatch_hand(tok, nt)) printf("bad-op\n");
    if (!arming) armed = 0;
    fflush(stdout);
  }
  return 0;
}
