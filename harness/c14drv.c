/* C14 correspondence driver: executes ONE operation history over the crystal-container API of the real library
   (fresh process per history: the built-in array cannot be reset) and prints, after every operation, everything
   the property talks about.  The compiled Lean model (lean-crystals/Driver.lean) prints the same lines.

   usage: c14drv <history-file> <dir-with-generated-crystal-files> [dump]
          c14drv <list-file> - batch
     `dump`: print the built-in collection in history syntax (initial state of the model) and exit.
     `batch`: <list-file> holds one `<history-file> <dir>` pair per line; every history runs in a forked child
              (the built-in array cannot be reset, and a sanitizer abort must end one history only); the parent
              prints `history <file>` before and `exit <status>` after each on stdout, and `history <file>` on
              stderr, so that the diagnostics of a child can be attributed.

   history syntax (one op per line, tokens separated by blanks; doubles as x<16 hex digits>):
     pool <name>...                    names looked up in every live collection after every op
     init <cap>                        arrs[] += Crystal_ArrayInit(cap)
     add <arr> <src>                   Crystal_AddCrystal(src, arr)
     read <arr> <k|NOFILE|NULLNAME> …  Crystal_ReadFile("<dir>/f<k>.dat", arr)   (the rest of the line is for the model)
     get <arr> <name|~>                objs[] += Crystal_GetCrystal(name, arr)     (~ : NULL name)
     list <arr>                        Crystal_GetCrystalsList + release with xrlFree as documented
     copy <src>                        objs[] += Crystal_MakeCopy(src)
     free <j>                          Crystal_Free(objs[j])
     afree <i>                         Crystal_ArrayFree(arrs[i])
     scrib <j> <xbits>                 the caller overwrites every field it can reach through objs[j] (in place)
     addmany <arr> <count> <seed>      bulk: Crystal_AddCrystal of the generated crystals 0..count-1 of family <seed> (`gen_many`), one by one;
                                       answers `ret=<number accepted>/<index of the first refused one, -1 if none>` and the error of the first refusal
     readmany <arr> <k> <n> <seed>     bulk: Crystal_ReadFile("<dir>/f<k>.dat", arr); the file was written by props/c14.py and holds the
                                       generated crystals 0..n-1 of family <seed> in the syntax of data/Crystals.dat
   N:<op>  (add, addmany, read, readmany)  the same operation with a NULL error slot (`xrl_error **error` = NULL, as a caller that only looks at the
                                       return value writes it): the answer line carries the plain operation name and `err=-`; everything else — return value,
                                       refusals, the state observed afterwards — must be what the call with a slot gives.  addmany: every single addition without slot.
   <arr> = B (NULL: built-in) | A<i> ;  <src> = N (NULL) | O<j> | L <crystal>
   <crystal> = name a b c alpha beta gamma volume natoms {Z fraction x y z}
   A literal is built by the caller on the heap (struct, strdup'd name, atom vector) and released with Crystal_Free
   after the call, so that the block accounting of model and library is the same.

   Allocation accounting: malloc/calloc/realloc/free/strdup/strndup/vasprintf are interposed with -Wl,--wrap and
   counted; open FILE*s are observed as open descriptors in /proc/self/fd. */
#include "config.h"
#include <stdio.h>
#include <stdlib.h>
#include <string.h>
#include <stdint.h>
#include <stdarg.h>
#include <dirent.h>
#include <unistd.h>
#include <sys/wait.h>
#include "xraylib.h"
#include "xrayglob.h"

/* ---- allocation counter -------------------------------------------------------------------- */
static long live_blocks = 0;
void *__real_malloc(size_t); void *__real_calloc(size_t, size_t); void *__real_realloc(void *, size_t);
void __real_free(void *); char *__real_strdup(const char *); char *__real_strndup(const char *, size_t);
int __real_vasprintf(char **, const char *, va_list);
void *__wrap_malloc(size_t n) { void *p = __real_malloc(n); if (p) live_blocks++; return p; }
void *__wrap_calloc(size_t a, size_t b) { void *p = __real_calloc(a, b); if (p) live_blocks++; return p; }
void *__wrap_realloc(void *q, size_t n) { void *p = __real_realloc(q, n); if (!q && p) live_blocks++; if (q && n == 0 && !p) live_blocks--; return p; }
void __wrap_free(void *p) { if (p) live_blocks--; __real_free(p); }
char *__wrap_strdup(const char *s) { char *p = __real_strdup(s); if (p) live_blocks++; return p; }
char *__wrap_strndup(const char *s, size_t n) { char *p = __real_strndup(s, n); if (p) live_blocks++; return p; }
int __wrap_vasprintf(char **o, const char *f, va_list a) { int r = __real_vasprintf(o, f, a); if (r >= 0) live_blocks++; return r; }

static int open_fds(void) {
  int n = 0; DIR *d = opendir("/proc/self/fd"); struct dirent *e;
  if (!d) return -1;
  while ((e = readdir(d))) if (e->d_name[0] != '.') n++;
  closedir(d);
  return n - 1; /* the directory stream itself */
}

/* ---- tables of the caller ------------------------------------------------------------------ */
#define MAXH 1024
static Crystal_Array *arrs[MAXH]; static int arr_dead[MAXH]; static int n_arrs = 0;
static Crystal_Struct *objs[MAXH]; static int obj_dead[MAXH]; static int n_objs = 0;
static char *pool[256]; static int n_pool = 0;
static long base_live; static int base_fds;

static double pd(const char *s) { uint64_t b = strtoull(s + 1, NULL, 16); double d; memcpy(&d, &b, 8); return d; }
static uint64_t bits(double d) { uint64_t b; memcpy(&b, &d, 8); return b; }
static uint64_t fnv(uint64_t h, uint64_t w) { return (h ^ w) * 0x100000001b3ULL; }

static int verbose = 0;
static void pr_crystal(const Crystal_Struct *c) {
  uint64_t h = 0xcbf29ce484222325ULL; int i;
  h = fnv(h, bits(c->a)); h = fnv(h, bits(c->b)); h = fnv(h, bits(c->c));
  h = fnv(h, bits(c->alpha)); h = fnv(h, bits(c->beta)); h = fnv(h, bits(c->gamma));
  for (i = 0; i < c->n_atom; i++) {
    h = fnv(h, (uint64_t)(int64_t)c->atom[i].Zatom); h = fnv(h, bits(c->atom[i].fraction));
    h = fnv(h, bits(c->atom[i].x)); h = fnv(h, bits(c->atom[i].y)); h = fnv(h, bits(c->atom[i].z));
  }
  printf("%s n=%d h=%016llx v=x%016llx", c->name, c->n_atom, (unsigned long long)h, (unsigned long long)bits(c->volume));
  if (verbose) {
    printf(" [x%016llx x%016llx x%016llx x%016llx x%016llx x%016llx", (unsigned long long)bits(c->a), (unsigned long long)bits(c->b),
      (unsigned long long)bits(c->c), (unsigned long long)bits(c->alpha), (unsigned long long)bits(c->beta), (unsigned long long)bits(c->gamma));
    for (i = 0; i < c->n_atom; i++) printf(" %d x%016llx x%016llx x%016llx x%016llx", c->atom[i].Zatom, (unsigned long long)bits(c->atom[i].fraction),
      (unsigned long long)bits(c->atom[i].x), (unsigned long long)bits(c->atom[i].y), (unsigned long long)bits(c->atom[i].z));
    printf("]");
  }
}

static void pr_err(xrl_error **e) {
  if (*e == NULL) { printf(" err=-"); return; }
  printf(" err=%d:%s", (int)(*e)->code, (*e)->message ? (*e)->message : "(null)");
  xrl_clear_error(e);
}

static Crystal_Array *arr_of(const char *t) { return t[0] == 'B' ? NULL : arrs[atoi(t + 1)]; }

/* build a caller-owned crystal from tokens; returns number of tokens consumed */
static int mk_literal(char **t, Crystal_Struct **out) {
  Crystal_Struct *c = malloc(sizeof(Crystal_Struct)); int i, n;
  c->name = strdup(t[0]);
  c->a = pd(t[1]); c->b = pd(t[2]); c->c = pd(t[3]); c->alpha = pd(t[4]); c->beta = pd(t[5]); c->gamma = pd(t[6]);
  c->volume = pd(t[7]); n = atoi(t[8]); c->n_atom = n;
  c->atom = malloc(n * sizeof(Crystal_Atom));
  for (i = 0; i < n; i++) {
    char **a = t + 9 + 5 * i;
    c->atom[i].Zatom = atoi(a[0]); c->atom[i].fraction = pd(a[1]); c->atom[i].x = pd(a[2]); c->atom[i].y = pd(a[3]); c->atom[i].z = pd(a[4]);
  }
  *out = c;
  return 9 + 5 * n;
}

/* <src>: returns the pointer; *lit set when the caller has to release it afterwards */
static Crystal_Struct *src_of(char **t, Crystal_Struct **lit) {
  *lit = NULL;
  if (t[0][0] == 'N') return NULL;
  if (t[0][0] == 'O') return objs[atoi(t[0] + 1)];
  mk_literal(t + 1, lit);
  return *lit;
}

static void observe(void) {
  int i, k, a; xrl_error *e = NULL;
  printf("live %ld fds %d\n", live_blocks - base_live, open_fds() - base_fds);
  for (a = -1; a < n_arrs; a++) {
    Crystal_Array *ca = NULL; char nm[16];
    if (a >= 0) { if (arrs[a] == NULL || arr_dead[a]) continue; ca = arrs[a]; snprintf(nm, sizeof nm, "A%d", a); }
    else strcpy(nm, "B");
    if (a >= 0) {          /* raw walk of the public struct: count, capacity, order in memory */
      printf("%s n=%d alloc=%d\n", nm, ca->n_crystal, ca->n_alloc);
      for (i = 0; i < ca->n_crystal; i++) { printf("%s[%d] ", nm, i); pr_crystal(&ca->crystal[i]); printf("\n"); }
    }
    {                       /* the listing as the API gives it */
      int n = -7; char **l = Crystal_GetCrystalsList(ca, &n, &e);
      printf("%s list %d", nm, n);
      if (l) { for (i = 0; l[i]; i++) { printf(" %s", l[i]); xrlFree(l[i]); } xrlFree(l); }
      pr_err(&e); printf("\n");
    }
    for (k = 0; k < n_pool; k++) {   /* every lookup */
      Crystal_Struct *c = Crystal_GetCrystal(pool[k], ca, &e);
      printf("%s ? %s ", nm, pool[k]);
      if (c) { printf("F "); pr_crystal(c); Crystal_Free(c); } else printf("A");
      pr_err(&e); printf("\n");
    }
  }
  for (i = 0; i < n_objs; i++) if (objs[i] && !obj_dead[i]) { printf("O%d ", i); pr_crystal(objs[i]); printf("\n"); }
  fflush(stdout);
}

/* the initial state of the model: the built-in table read directly (the harness is linked with the objects of the
   library, so the private `Crystal_arr` is visible) - no API call is trusted here */
static void dump_builtin(void) {
  int i, j;
  for (i = 0; i < Crystal_arr.n_crystal; i++) {
    const Crystal_Struct *c = &Crystal_arr.crystal[i];
    printf("builtin %s x%016llx x%016llx x%016llx x%016llx x%016llx x%016llx x%016llx %d", c->name, (unsigned long long)bits(c->a), (unsigned long long)bits(c->b),
      (unsigned long long)bits(c->c), (unsigned long long)bits(c->alpha), (unsigned long long)bits(c->beta), (unsigned long long)bits(c->gamma),
      (unsigned long long)bits(c->volume), c->n_atom);
    for (j = 0; j < c->n_atom; j++) printf(" %d x%016llx x%016llx x%016llx x%016llx", c->atom[j].Zatom, (unsigned long long)bits(c->atom[j].fraction),
      (unsigned long long)bits(c->atom[j].x), (unsigned long long)bits(c->atom[j].y), (unsigned long long)bits(c->atom[j].z));
    printf("\n");
  }
}

/* the crystal number i of the generated family `seed` (bulk operations).  Pure integer arithmetic and dyadic fractions, so that the
   Lean driver (Driver.lean: genMany), props/c14.py (gen_many) and this function produce bit-identical doubles, and the decimal text of
   a generated file converts back exactly.  Names are pairwise different for i < 10007 and NOT in insertion order. */
static Crystal_Struct *gen_many(unsigned seed, unsigned i) {
  Crystal_Struct *c = malloc(sizeof(Crystal_Struct)); unsigned perm = (i * 7919u + 13u * seed) % 10007u, j, n = 1 + i % 4; char nm[64];
  snprintf(nm, sizeof nm, "M%u_%05u", seed % 1000u, perm);
  c->name = strdup(nm);
  c->a = 3 + perm % 11 + 0.25 * (i % 4); c->b = 4 + 0.5 * (i % 7); c->c = 5 + perm % 5;
  if (perm % 3 == 0) { c->alpha = 90; c->beta = 90; c->gamma = 90; }
  else if (perm % 3 == 1) { c->alpha = 90; c->beta = 90; c->gamma = 120; }
  else { c->alpha = 80 + i % 15; c->beta = 85 + perm % 9; c->gamma = 95 + i % 11; }
  c->volume = 0; c->n_atom = (int)n;
  c->atom = malloc(n * sizeof(Crystal_Atom));
  for (j = 0; j < n; j++) {
    c->atom[j].Zatom = (int)(1 + (perm + 13 * j) % 92); c->atom[j].fraction = (j % 2) ? 0.5 : 1.0;
    c->atom[j].x = ((i + j) % 8) / 8.0; c->atom[j].y = (perm % 4) / 4.0; c->atom[j].z = (j % 2) * 0.5;
  }
  return c;
}

static int run_history(const char *hist_path, const char *files_dir);

#include <errno.h>
#include <fenv.h>
static void xv_poison_errno(void) { static unsigned k; static const int v[4] = {ERANGE, EDOM, ENOMEM, 0};
  /* likewise the floating-point exception flags an application may have raised (seeded change C05-11: fetestexcept without feclearexcept) */
  feclearexcept(FE_ALL_EXCEPT); if ((k >> 2) & 1) feraiseexcept(FE_DIVBYZERO | FE_INVALID | FE_OVERFLOW);
  errno = v[k++ & 3]; }   /* see harness/cdrv.c */
int main(int argc, char **argv) {
  if (argc < 3) return 2;
  if (argc > 3 && !strcmp(argv[3], "dump")) { dump_builtin(); return 0; }
  if (argc > 3 && !strcmp(argv[3], "verbose")) verbose = 1;
  { static char obuf[1 << 16]; setvbuf(stdout, obuf, _IOFBF, sizeof obuf); }
  if (argc > 3 && !strcmp(argv[3], "batch")) {
    static char l[8192]; FILE *lf = fopen(argv[1], "r"); if (!lf) return 2;
    while (fgets(l, sizeof l, lf)) {
      char *h = strtok(l, " \n"), *d = strtok(NULL, " \n"); pid_t pid; int st = 0;
      if (!h || !d) continue;
      printf("history %s\n", h); fflush(stdout);
      fprintf(stderr, "history %s\n", h); fflush(stderr);
      pid = fork();
      if (pid < 0) return 2;
      if (pid == 0) { fclose(lf); _exit(run_history(h, d)); }
      waitpid(pid, &st, 0);
      printf("\nexit %d\n", WIFEXITED(st) ? WEXITSTATUS(st) : 128 + WTERMSIG(st)); fflush(stdout);
    }
    return 0;
  }
  return run_history(argv[1], argv[2]);
}

static int run_history(const char *hist_path, const char *files_dir) {
  static char line[1 << 20]; static char *tok[1 << 16];
  FILE *f; int opno = 0;
  const char *argv[3];
  argv[1] = hist_path; argv[2] = files_dir;
  f = fopen(argv[1], "r"); if (!f) return 2;
  base_live = live_blocks; base_fds = open_fds();
  while (fgets(line, sizeof line, f)) {
    xv_poison_errno();
    int nt = 0; xrl_error *e = NULL; char *p;
    for (p = strtok(line, " \n"); p && nt < (1 << 16); p = strtok(NULL, " \n")) tok[nt++] = p;
    if (nt == 0 || tok[0][0] == '#') continue;
    if (!strcmp(tok[0], "pool")) { int i; for (i = 1; i < nt && n_pool < 256; i++) pool[n_pool++] = strdup(tok[i]); base_live = live_blocks; continue; }
    if (!strcmp(tok[0], "builtin") || !strcmp(tok[0], "builtinfile")) continue;   /* initial state lines are for the model */
    int noslot = !strncmp(tok[0], "N:", 2); xrl_error **ep = noslot ? NULL : &e;
    if (noslot) tok[0] += 2;
    printf("op %d %s", opno++, tok[0]); fflush(stdout);
    if (!strcmp(tok[0], "init")) {
      Crystal_Array *a = Crystal_ArrayInit(atoi(tok[1]), &e);
      arrs[n_arrs] = a; arr_dead[n_arrs] = 0; n_arrs++;
      printf(" ret=%s", a ? "P" : "0");
    } else if (!strcmp(tok[0], "add")) {
      Crystal_Struct *lit; Crystal_Struct *s = src_of(tok + 2, &lit);
      int r = Crystal_AddCrystal(s, arr_of(tok[1]), ep);
      if (lit) Crystal_Free(lit);
      printf(" ret=%d", r);
    } else if (!strcmp(tok[0], "addmany")) {
      unsigned count = (unsigned)strtoul(tok[2], NULL, 10), seed = (unsigned)strtoul(tok[3], NULL, 10), i; int added = 0, first = -1, silent = 0;
      Crystal_Array *a = arr_of(tok[1]);
      for (i = 0; i < count; i++) {
        xrl_error *e1 = NULL; Crystal_Struct *lit = gen_many(seed, i);
        int r = Crystal_AddCrystal(lit, a, noslot ? NULL : &e1);
        Crystal_Free(lit);
        if (r == 1 && e1 == NULL) added++;
        else if (first < 0) { first = (int)i; e = e1; e1 = NULL; silent = (e == NULL); }
        if (e1) xrl_clear_error(&e1);
      }
      printf(" ret=%d/%d", added, first);
      if (silent && !noslot) { printf(" err=0:(refused without an error object)\n"); observe(); continue; }
    } else if (!strcmp(tok[0], "readmany")) {
      char path[4096]; int r;
      snprintf(path, sizeof path, "%s/f%s.dat", argv[2], tok[2]);
      r = Crystal_ReadFile(path, arr_of(tok[1]), ep);
      printf(" ret=%d", r);
    } else if (!strcmp(tok[0], "read")) {
      char path[4096]; int r;
      if (!strcmp(tok[2], "NULLNAME")) r = Crystal_ReadFile(NULL, arr_of(tok[1]), ep);
      else {
        if (!strcmp(tok[2], "NOFILE")) snprintf(path, sizeof path, "%s/does-not-exist.dat", argv[2]);
        else snprintf(path, sizeof path, "%s/f%s.dat", argv[2], tok[2]);
        r = Crystal_ReadFile(path, arr_of(tok[1]), ep);
      }
      printf(" ret=%d", r);
    } else if (!strcmp(tok[0], "get")) {
      Crystal_Struct *c = Crystal_GetCrystal(!strcmp(tok[2], "~") ? NULL : tok[2], arr_of(tok[1]), &e);
      objs[n_objs] = c; obj_dead[n_objs] = 0; n_objs++;
      printf(" ret=%s", c ? "P" : "0");
    } else if (!strcmp(tok[0], "list")) {
      int n = -7, i; char **l = Crystal_GetCrystalsList(arr_of(tok[1]), &n, &e);
      printf(" ret=%d", n);
      if (l) { for (i = 0; l[i]; i++) { printf(",%s", l[i]); xrlFree(l[i]); } xrlFree(l); }
    } else if (!strcmp(tok[0], "copy")) {
      Crystal_Struct *lit; Crystal_Struct *s = src_of(tok + 1, &lit);
      Crystal_Struct *c = Crystal_MakeCopy(s, &e);
      if (lit) Crystal_Free(lit);
      objs[n_objs] = c; obj_dead[n_objs] = 0; n_objs++;
      printf(" ret=%s", c ? "P" : "0");
    } else if (!strcmp(tok[0], "free")) {
      int j = atoi(tok[1]); Crystal_Free(objs[j]); obj_dead[j] = 1; printf(" ret=-");
    } else if (!strcmp(tok[0], "afree")) {
      int i = atoi(tok[1]); Crystal_ArrayFree(arrs[i]); arr_dead[i] = 1; printf(" ret=-");
    } else if (!strcmp(tok[0], "scrib")) {
      Crystal_Struct *c = objs[atoi(tok[1])]; double w = pd(tok[2]); int i; char *q;
      if (c) {
        for (q = c->name; *q; q++) *q = '#';
        c->a = c->b = c->c = c->alpha = c->beta = c->gamma = c->volume = w;
        for (i = 0; i < c->n_atom; i++) { c->atom[i].Zatom = 0; c->atom[i].fraction = c->atom[i].x = c->atom[i].y = c->atom[i].z = w; }
      }
      printf(" ret=-");
    } else { printf(" bad-op\n"); fflush(stdout); return 3; }
    pr_err(&e); printf("\n");
    observe();
  }
  printf("end\n");
  fflush(stdout);
  fclose(f);
  return 0;
}
