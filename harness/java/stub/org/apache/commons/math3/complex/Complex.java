/* Minimal stand-in for org.apache.commons.math3.complex.Complex (commons-math3 is not available offline).
   The xraylib Java sources use exactly: the constructor Complex(double, double) (Xraylib.java: Refractive_Index,
   Crystal_Struct.java: Crystal_F_H_StructureFactor_Partial) and nothing else; the driver reads the parts back with
   getReal()/getImaginary().  The check greps the sources on every run and fails if any other member is used. */
package org.apache.commons.math3.complex;

public class Complex {
  private final double real;
  private final double imaginary;
  public Complex(double real, double imaginary) { this.real = real; this.imaginary = imaginary; }
  public double getReal() { return real; }
  public double getImaginary() { return imaginary; }
}
