/* Java driver of the C19 check: serves the line protocol of harness/xdrv.c through the pure-Java implementation
   (com.github.tschoonj.xraylib.Xraylib, compiled from /repo/java by ./check, xraylib.dat built from the working tree).
   Methods are found by reflection on every call, so the driver follows the sources.
     request:  <method> <arg>* E      ints decimal, doubles x<16 hex digits>, strings s<%-escaped>;
                                      a parameter of type Crystal_Struct is given as the crystal's name
     answer:   ok <value>*            |  throw <exception class> m<%-escaped message>
     `!methods` lists the public static methods of Xraylib as name(type,...)->type.
   History sessions (the lines of one session are run in one process, in order; harness/xdrv.c speaks the same ops on the C side):
     @<k> <method> <arg>* E      call, answer as usual, and KEEP the returned object in slot k
     !mut <k> E                  write a sentinel into EVERY public mutable part of the object in slot k, found by reflection: every element of every
                                 array reachable through public fields and public zero-argument getters (elements that are objects are first mutated
                                 themselves, then replaced by a foreign instance), every non-final public field.  answer: ok <writes> <path>=<writes>*
     !show <k> E                 render the object in slot k
     !copy <j> <k> E             slot j = new T(slot k) through the public copy constructor of the object's class (ok 1), ok 0 if there is none
     !drop <k> E                 forget slot k
     $<k> as an argument         the object in slot k (for parameters of class type)
     `!classes` describes, for every class a public static method returns (and the classes reachable from it), the public fields
     (name:type:final|MUTABLE), the array-returning getters and whether a public copy constructor exists. */
import java.io.BufferedReader;
import java.io.InputStreamReader;
import java.io.PrintStream;
import java.io.BufferedOutputStream;
import java.lang.reflect.InvocationTargetException;
import java.lang.reflect.Array;
import java.lang.reflect.Constructor;
import java.lang.reflect.Field;
import java.lang.reflect.Method;
import java.lang.reflect.Modifier;
import java.nio.charset.StandardCharsets;
import java.nio.ByteBuffer;
import java.util.ArrayList;
import java.util.Arrays;
import java.util.IdentityHashMap;
import java.util.LinkedHashMap;
import java.util.LinkedHashSet;
import java.util.Set;
import java.util.HashMap;
import java.util.List;
import java.util.Map;
import com.github.tschoonj.xraylib.*;
import org.apache.commons.math3.complex.Complex;

public class XrlDrv {
  static String unesc(String s) {
    byte[] b = new byte[s.length()]; int n = 0;
    for (int i = 0; i < s.length();) {
      char c = s.charAt(i);
      if (c == '%' && i + 2 < s.length()) {
        b[n++] = (byte) Integer.parseInt(s.substring(i + 1, i + 3), 16); i += 3;
      } else { b[n++] = (byte) c; i++; }
    }
    return new String(b, 0, n, StandardCharsets.UTF_8);
  }
  static String esc(String s) {
    if (s == null) s = "(null)";
    StringBuilder r = new StringBuilder();
    for (byte x : s.getBytes(StandardCharsets.UTF_8)) {
      int c = x & 0xff;
      if ((c >= '0' && c <= '9') || (c >= 'A' && c <= 'Z') || (c >= 'a' && c <= 'z') || "()._-+,".indexOf(c) >= 0) r.append((char) c);
      else r.append(String.format("%%%02x", c));
    }
    return r.toString();
  }
  static void d(StringBuilder o, double v) { o.append(" x").append(String.format("%016x", Double.doubleToRawLongBits(v))); }
  static void i(StringBuilder o, int v) { o.append(' ').append(v); }
  static void s(StringBuilder o, String v) { o.append(" s").append(esc(v)); }

  static void render(StringBuilder o, Object r) {
    if (r == null) { return; }
    if (r instanceof Double) d(o, (Double) r);
    else if (r instanceof Integer) i(o, (Integer) r);
    else if (r instanceof String) s(o, (String) r);
    else if (r instanceof String[]) { String[] a = (String[]) r; i(o, a.length); for (String x : a) s(o, x); }
    else if (r instanceof double[]) { double[] a = (double[]) r; i(o, 1); for (double x : a) d(o, x); }      /* Atomic_Factors: C returns 1 and three outputs */
    else if (r instanceof Complex) { d(o, ((Complex) r).getReal()); d(o, ((Complex) r).getImaginary()); }
    else if (r instanceof compoundData) { compoundData c = (compoundData) r;
      i(o, c.nElements); for (int z : c.Elements) i(o, z); for (double m : c.massFractions) d(o, m); d(o, c.nAtomsAll); for (double n : c.nAtoms) d(o, n); d(o, c.molarMass); }
    else if (r instanceof compoundDataNIST) { compoundDataNIST c = (compoundDataNIST) r;
      s(o, c.name); i(o, c.nElements); for (int z : c.Elements) i(o, z); for (double m : c.massFractions) d(o, m); d(o, c.density); }
    else if (r instanceof radioNuclideData) { radioNuclideData c = (radioNuclideData) r;
      s(o, c.name); i(o, c.Z); i(o, c.A); i(o, c.N); i(o, c.Z_xray); i(o, c.nXrays); for (int l : c.XrayLines) i(o, l); for (double x : c.XrayIntensities) d(o, x);
      i(o, c.nGammas); for (double x : c.GammaEnergies) d(o, x); for (double x : c.GammaIntensities) d(o, x); }
    else if (r instanceof Crystal_Struct) { Crystal_Struct c = (Crystal_Struct) r;
      s(o, c.name); d(o, c.a); d(o, c.b); d(o, c.c); d(o, c.alpha); d(o, c.beta); d(o, c.gamma); d(o, c.volume); i(o, c.n_atom);
      for (Crystal_Atom a : c.atom) { i(o, a.Zatom); d(o, a.fraction); d(o, a.x); d(o, a.y); d(o, a.z); } }
    else o.append(" ?").append(r.getClass().getName());
  }


  /* ---------------------------------------------------------------- history sessions */
  static Object[] slots = new Object[16];
  static final String PKG = Xraylib.class.getPackage().getName();

  static boolean ours(Class<?> c) { return c != null && !c.isPrimitive() && !c.isArray() && c.getPackage() != null && c.getPackage().getName().equals(PKG); }

  /* a foreign instance of an element class: built from a byte pattern through the class's (protected) ByteBuffer constructor, which any
     subclass written by a user may call; else a copy of a neighbouring element; else null */
  static Object foreign(Class<?> comp, Object arr, int i) {
    try {
      Constructor<?> k = comp.getDeclaredConstructor(ByteBuffer.class);
      k.setAccessible(true);
      byte[] b = new byte[4096]; Arrays.fill(b, (byte) 0xC0);
      return k.newInstance(ByteBuffer.wrap(b));
    } catch (Throwable e) { /* next */ }
    try {
      int n = Array.getLength(arr);
      Object other = Array.get(arr, (i + 1) % n);
      if (n > 1 && other != null) return comp.getConstructor(comp).newInstance(other);
    } catch (Throwable e) { /* next */ }
    return null;
  }
  static Object sentinel(Class<?> t, int w) {
    if (t == int.class) return -(7770 + w);
    if (t == double.class) return -(1234.5 + w);
    if (t == long.class) return (long) -(7770 + w);
    if (t == float.class) return (float) -(1234.5 + w);
    if (t == short.class) return (short) -(77 + w);
    if (t == byte.class) return (byte) -(7 + w);
    if (t == char.class) return '#';
    if (t == boolean.class) return (w & 1) == 0;
    if (t == String.class) return "MUT" + w;
    return null;
  }
  static int mutate(Object o, String path, Map<String, Integer> rep, IdentityHashMap<Object, Boolean> seen, int depth) throws Exception {
    if (o == null || depth > 6 || seen.containsKey(o)) return 0;
    seen.put(o, true);
    Class<?> c = o.getClass();
    int w = 0;
    if (c.isArray()) {
      Class<?> comp = c.getComponentType();
      int n = Array.getLength(o);
      for (int i = 0; i < n; i++) {
        if (comp.isPrimitive() || comp == String.class) { Array.set(o, i, sentinel(comp, i)); w++; }
        else {
          Object old = Array.get(o, i);
          w += mutate(old, path + "[]", rep, seen, depth + 1);          /* the element the library may still refer to ... */
          Array.set(o, i, comp.isArray() ? null : foreign(comp, o, i)); w++;      /* ... and the array cell */
        }
      }
      rep.merge(path + "[*]", n, Integer::sum);
      return w;
    }
    if (!ours(c)) return 0;                 /* String, boxed numbers, Complex: no public mutable state (Complex: checked by !classes) */
    for (Field f : c.getFields()) {
      if (Modifier.isStatic(f.getModifiers())) continue;
      Object v = f.get(o);
      String p = path + "." + f.getName();
      if (v != null && (v.getClass().isArray() || ours(v.getClass()))) w += mutate(v, p, rep, seen, depth + 1);
      if (!Modifier.isFinal(f.getModifiers())) {
        Class<?> t = f.getType();
        Object sv = t.isArray() ? Array.newInstance(t.getComponentType(), 0) : sentinel(t, w);      /* object-typed fields other than String and arrays: null */
        f.set(o, sv); w++; rep.merge(p + "=", 1, Integer::sum);
      }
    }
    for (Method m : c.getMethods()) {       /* arrays handed out by public getters (compoundDataBase.getElements() ...) */
      if (Modifier.isStatic(m.getModifiers()) || m.getParameterCount() != 0 || !ours(m.getDeclaringClass())) continue;
      Class<?> rt = m.getReturnType();
      if (!rt.isArray() && !ours(rt)) continue;
      Object v;
      try { v = m.invoke(o); } catch (InvocationTargetException e) { continue; }
      w += mutate(v, path + "." + m.getName() + "()", rep, seen, depth + 1);
    }
    return w;
  }
  static void describe(Class<?> c, Set<Class<?>> done, StringBuilder o) {
    while (c.isArray()) c = c.getComponentType();
    if (c.isPrimitive() || c == String.class || !done.add(c)) return;
    StringBuilder d = new StringBuilder(c.getSimpleName()).append('{');
    List<Class<?>> next = new ArrayList<>();
    for (Field f : c.getFields()) {
      if (Modifier.isStatic(f.getModifiers())) continue;
      d.append(f.getName()).append(':').append(f.getType().getSimpleName()).append(':').append(Modifier.isFinal(f.getModifiers()) ? "final" : "MUTABLE").append(',');
      next.add(f.getType());
    }
    for (Method m : c.getMethods()) {
      if (Modifier.isStatic(m.getModifiers()) || m.getParameterCount() != 0 || m.getDeclaringClass() == Object.class) continue;
      if (m.getReturnType().isArray()) d.append(m.getName()).append("():").append(m.getReturnType().getSimpleName()).append(',');
    }
    boolean cc = false;
    try { cc = Modifier.isPublic(c.getConstructor(c).getModifiers()); } catch (NoSuchMethodException e) { /* none */ }
    d.append("copyctor=").append(cc ? "yes" : "no").append('}');
    o.append(' ').append(d);
    if (ours(c)) for (Class<?> n : next) describe(n, done, o);
  }

  static Map<String, List<Method>> methods = new HashMap<>();

  public static void main(String[] argv) throws Exception {
    for (Method m : Xraylib.class.getMethods()) {
      if (!Modifier.isStatic(m.getModifiers()) || m.getDeclaringClass() != Xraylib.class) continue;
      methods.computeIfAbsent(m.getName(), k -> new ArrayList<>()).add(m);
    }
    PrintStream out = new PrintStream(new BufferedOutputStream(System.out, 1 << 16), false, "US-ASCII");
    BufferedReader in = new BufferedReader(new InputStreamReader(System.in, StandardCharsets.US_ASCII));
    out.println("ready"); out.flush();
    String line;
    while ((line = in.readLine()) != null) {
      String[] t = line.trim().split(" +");
      if (t.length == 0 || t[0].isEmpty()) continue;
      if (t[0].equals("!methods")) {
        StringBuilder o = new StringBuilder("ok");
        for (List<Method> l : methods.values()) for (Method m : l) {
          StringBuilder sig = new StringBuilder(m.getName()).append('(');
          Class<?>[] p = m.getParameterTypes();
          for (int k = 0; k < p.length; k++) { if (k > 0) sig.append(','); sig.append(p[k].getSimpleName()); }
          sig.append(")->").append(m.getReturnType().getSimpleName());
          o.append(' ').append(sig);
        }
        out.println(o); out.flush(); continue;
      }
      if (t[0].equals("!classes")) {
        StringBuilder o = new StringBuilder("ok"); Set<Class<?>> done = new LinkedHashSet<>();
        for (List<Method> l : methods.values()) for (Method m : l) describe(m.getReturnType(), done, o);
        out.println(o); out.flush(); continue;
      }
      if (t[0].equals("!mut") || t[0].equals("!show") || t[0].equals("!drop") || t[0].equals("!copy")) {
        StringBuilder o = new StringBuilder("ok");
        try {
          int k = Integer.parseInt(t[1]);
          if (t[0].equals("!mut")) {
            Map<String, Integer> rep = new LinkedHashMap<>();
            Object v = slots[k];
            int w = mutate(v, v == null ? "null" : v.getClass().getSimpleName(), rep, new IdentityHashMap<>(), 0);
            i(o, w); for (Map.Entry<String, Integer> e : rep.entrySet()) o.append(' ').append(e.getKey().replace(' ', '_')).append(e.getValue());
          } else if (t[0].equals("!show")) {
            if (slots[k] == null) o = new StringBuilder("bad-op empty slot"); else render(o, slots[k]);
          } else if (t[0].equals("!drop")) { slots[k] = null; i(o, 0); }
          else {
            int src = Integer.parseInt(t[2]); Object v = slots[src]; int done = 0;
            if (v != null) try { slots[k] = v.getClass().getConstructor(v.getClass()).newInstance(v); done = 1; } catch (NoSuchMethodException e) { /* no copy constructor */ }
            i(o, done);
          }
          out.println(o);
        } catch (InvocationTargetException e) {
          Throwable c = e.getCause();
          out.println("throw " + c.getClass().getSimpleName() + " m" + esc(String.valueOf(c.getMessage())));
        } catch (Exception e) {
          out.println("throw " + e.getClass().getSimpleName() + " m" + esc(String.valueOf(e.getMessage())));
        }
        out.flush(); continue;
      }
      int keep = -1;
      if (t[0].startsWith("@")) { keep = Integer.parseInt(t[0].substring(1)); t = Arrays.copyOfRange(t, 1, t.length); }
      int nargs = t.length - 2;
      Method m = null;
      List<Method> cands = methods.get(t[0]);
      if (cands != null) for (Method c : cands) if (c.getParameterCount() == nargs) { m = c; break; }
      if (m == null) { out.println("bad-op"); out.flush(); continue; }
      StringBuilder o = new StringBuilder("ok");
      try {
        Class<?>[] p = m.getParameterTypes();
        Object[] a = new Object[nargs];
        for (int k = 0; k < nargs; k++) {
          String x = t[k + 1];
          if (x.startsWith("$")) { a[k] = slots[Integer.parseInt(x.substring(1))]; if (a[k] == null || !p[k].isInstance(a[k])) throw new IllegalStateException("driver: slot " + x + " does not hold a " + p[k].getSimpleName()); }
          else if (p[k] == int.class) a[k] = Integer.parseInt(x);
          else if (p[k] == double.class) a[k] = Double.longBitsToDouble(Long.parseUnsignedLong(x.substring(1), 16));
          else if (p[k] == String.class) a[k] = unesc(x.substring(1));
          else if (p[k] == Crystal_Struct.class) a[k] = Xraylib.Crystal_GetCrystal(unesc(x.substring(1)));
          else throw new IllegalStateException("driver: no parser for parameter type " + p[k]);
        }
        Object r = m.invoke(null, a);
        if (keep >= 0) slots[keep] = r;
        render(o, r);
        out.println(o);
      } catch (InvocationTargetException e) {
        Throwable c = e.getCause();
        out.println("throw " + c.getClass().getSimpleName() + " m" + esc(String.valueOf(c.getMessage())));
      } catch (IllegalStateException e) {
        out.println("bad-op " + esc(e.getMessage()));
      } catch (RuntimeException e) {       /* thrown while preparing an argument (e.g. Crystal_GetCrystal on an unknown name) */
        out.println("throw " + e.getClass().getSimpleName() + " m" + esc(String.valueOf(e.getMessage())));
      }
      out.flush();
    }
  }
}
