/* Java driver of the C19 check: serves the line protocol of harness/xdrv.c through the pure-Java implementation
   (com.github.tschoonj.xraylib.Xraylib, compiled from /repo/java by ./check, xraylib.dat built from the working tree).
   Methods are found by reflection on every call, so the driver follows the sources.
     request:  <method> <arg>* E      ints decimal, doubles x<16 hex digits>, strings s<%-escaped>;
                                      a parameter of type Crystal_Struct is given as the crystal's name
     answer:   ok <value>*            |  throw <exception class> m<%-escaped message>
     `!methods` lists the public static methods of Xraylib as name(type,...)->type. */
import java.io.BufferedReader;
import java.io.InputStreamReader;
import java.io.PrintStream;
import java.io.BufferedOutputStream;
import java.lang.reflect.InvocationTargetException;
import java.lang.reflect.Method;
import java.lang.reflect.Modifier;
import java.nio.charset.StandardCharsets;
import java.util.ArrayList;
import java.util.HashMap;
import java.util.List;
import java.util.Map;
import com.github.tschoonj.xraylib.*;
import org.apache.commons.math3.complex.Complex;

public class XrlDrv {
  static String unesc(String s) {
    byte[] b = new byte[s.length()]; int n = 0;
    for (int i = 0; i < s.length();) {
      char c = s.charAt(i);
      if (c == '%' && i + 2 < s.length()) {
        b[n++] = (byte) Integer.parseInt(s.substring(i + 1, i + 3), 16); i += 3;
      } else { b[n++] = (byte) c; i++; }
    }
    return new String(b, 0, n, StandardCharsets.UTF_8);
  }
  static String esc(String s) {
    if (s == null) s = "(null)";
    StringBuilder r = new StringBuilder();
    for (byte x : s.getBytes(StandardCharsets.UTF_8)) {
      int c = x & 0xff;
      if ((c >= '0' && c <= '9') || (c >= 'A' && c <= 'Z') || (c >= 'a' && c <= 'z') || "()._-+,".indexOf(c) >= 0) r.append((char) c);
      else r.append(String.format("%%%02x", c));
    }
    return r.toString();
  }
  static void d(StringBuilder o, double v) { o.append(" x").append(String.format("%016x", Double.doubleToRawLongBits(v))); }
  static void i(StringBuilder o, int v) { o.append(' ').append(v); }
  static void s(StringBuilder o, String v) { o.append(" s").append(esc(v)); }

  static void render(StringBuilder o, Object r) {
    if (r == null) { return; }
    if (r instanceof Double) d(o, (Double) r);
    else if (r instanceof Integer) i(o, (Integer) r);
    else if (r instanceof String) s(o, (String) r);
    else if (r instanceof String[]) { String[] a = (String[]) r; i(o, a.length); for (String x : a) s(o, x); }
    else if (r instanceof double[]) { double[] a = (double[]) r; i(o, 1); for (double x : a) d(o, x); }      /* Atomic_Factors: C returns 1 and three outputs */
    else if (r instanceof Complex) { d(o, ((Complex) r).getReal()); d(o, ((Complex) r).getImaginary()); }
    else if (r instanceof compoundData) { compoundData c = (compoundData) r;
      i(o, c.nElements); for (int z : c.Elements) i(o, z); for (double m : c.massFractions) d(o, m); d(o, c.nAtomsAll); for (double n : c.nAtoms) d(o, n); d(o, c.molarMass); }
    else if (r instanceof compoundDataNIST) { compoundDataNIST c = (compoundDataNIST) r;
      s(o, c.name); i(o, c.nElements); for (int z : c.Elements) i(o, z); for (double m : c.massFractions) d(o, m); d(o, c.density); }
    else if (r instanceof radioNuclideData) { radioNuclideData c = (radioNuclideData) r;
      s(o, c.name); i(o, c.Z); i(o, c.A); i(o, c.N); i(o, c.Z_xray); i(o, c.nXrays); for (int l : c.XrayLines) i(o, l); for (double x : c.XrayIntensities) d(o, x);
      i(o, c.nGammas); for (double x : c.GammaEnergies) d(o, x); for (double x : c.GammaIntensities) d(o, x); }
    else if (r instanceof Crystal_Struct) { Crystal_Struct c = (Crystal_Struct) r;
      s(o, c.name); d(o, c.a); d(o, c.b); d(o, c.c); d(o, c.alpha); d(o, c.beta); d(o, c.gamma); d(o, c.volume); i(o, c.n_atom);
      for (Crystal_Atom a : c.atom) { i(o, a.Zatom); d(o, a.fraction); d(o, a.x); d(o, a.y); d(o, a.z); } }
    else o.append(" ?").append(r.getClass().getName());
  }

  static Map<String, List<Method>> methods = new HashMap<>();

  public static void main(String[] argv) throws Exception {
    for (Method m : Xraylib.class.getMethods()) {
      if (!Modifier.isStatic(m.getModifiers()) || m.getDeclaringClass() != Xraylib.class) continue;
      methods.computeIfAbsent(m.getName(), k -> new ArrayList<>()).add(m);
    }
    PrintStream out = new PrintStream(new BufferedOutputStream(System.out, 1 << 16), false, "US-ASCII");
    BufferedReader in = new BufferedReader(new InputStreamReader(System.in, StandardCharsets.US_ASCII));
    out.println("ready"); out.flush();
    String line;
    while ((line = in.readLine()) != null) {
      String[] t = line.trim().split(" +");
      if (t.length == 0 || t[0].isEmpty()) continue;
      if (t[0].equals("!methods")) {
        StringBuilder o = new StringBuilder("ok");
        for (List<Method> l : methods.values()) for (Method m : l) {
          StringBuilder sig = new StringBuilder(m.getName()).append('(');
          Class<?>[] p = m.getParameterTypes();
          for (int k = 0; k < p.length; k++) { if (k > 0) sig.append(','); sig.append(p[k].getSimpleName()); }
          sig.append(")->").append(m.getReturnType().getSimpleName());
          o.append(' ').append(sig);
        }
        out.println(o); out.flush(); continue;
      }
      int nargs = t.length - 2;
      Method m = null;
      List<Method> cands = methods.get(t[0]);
      if (cands != null) for (Method c : cands) if (c.getParameterCount() == nargs) { m = c; break; }
      if (m == null) { out.println("bad-op"); out.flush(); continue; }
      StringBuilder o = new StringBuilder("ok");
      try {
        Class<?>[] p = m.getParameterTypes();
        Object[] a = new Object[nargs];
        for (int k = 0; k < nargs; k++) {
          String x = t[k + 1];
          if (p[k] == int.class) a[k] = Integer.parseInt(x);
          else if (p[k] == double.class) a[k] = Double.longBitsToDouble(Long.parseUnsignedLong(x.substring(1), 16));
          else if (p[k] == String.class) a[k] = unesc(x.substring(1));
          else if (p[k] == Crystal_Struct.class) a[k] = Xraylib.Crystal_GetCrystal(unesc(x.substring(1)));
          else throw new IllegalStateException("driver: no parser for parameter type " + p[k]);
        }
        Object r = m.invoke(null, a);
        render(o, r);
        out.println(o);
      } catch (InvocationTargetException e) {
        Throwable c = e.getCause();
        out.println("throw " + c.getClass().getSimpleName() + " m" + esc(String.valueOf(c.getMessage())));
      } catch (IllegalStateException e) {
        out.println("bad-op " + esc(e.getMessage()));
      } catch (RuntimeException e) {       /* thrown while preparing an argument (e.g. Crystal_GetCrystal on an unknown name) */
        out.println("throw " + e.getClass().getSimpleName() + " m" + esc(String.valueOf(e.getMessage())));
      }
      out.flush();
    }
  }
}
