/* Op interpreter shared by the C16 (history) and C17 (threads) harnesses.

   One op = one text line `<op> <arg> …`; its complete observable outcome (return value bit pattern, every field of
   a returned object, out-parameters, error code and message) is rendered into a caller-supplied buffer, so two
   executions of an op can be compared byte for byte.  Everything here is re-entrant: no static storage.

   Tokens: ints decimal; doubles `x<16 hex digits>` (bit pattern); strings %-escaped, `~` = NULL pointer;
   error-slot mode `E` (fresh empty slot) or `N` (NULL); crystals `@<name>` (a private copy obtained with
   Crystal_GetCrystal(name, NULL, NULL), released after the call) or `$<name>` (the entry of that name INSIDE the shared
   user array `xrl_shared`, not copied: several threads hand the same Crystal_Struct to the library; NULL without one).
   `retain-<op>`: objects the op hands out — results AND the error object of a failing call, whatever the op — are kept
   alive and re-rendered at the end of the history (history harness only).
   `add_compound_raw …`: add_compound_data on two mixtures the APPLICATION wrote into its own (stack) arrays — the op makes no other library call and no
   allocation, so in a process without history add_compound_data itself is the first user of the heap.
   `AppErrno <n>` / `AppFe <0|1>` are not library calls: they stand for what the APPLICATION (or any libc / libm call it made) may leave in
   the calling thread between two library calls — errno = n, the floating-point exception flags all raised / all cleared.  A query is a
   function of its arguments: what it returns must not depend on either.
   The dispatch of the functions with a generic signature is generated from the clang AST of the working tree on
   every run (xrl_ops_gen.inc, see tools/xrlops.py). */
#ifndef XRL_OPS_H
#define XRL_OPS_H
#include "config.h"
#include <stdio.h>
#include <stdlib.h>
#include <string.h>
#include <stdint.h>
#include <stdarg.h>
#include <errno.h>
#include <fenv.h>
#include "xraylib.h"
#include "xraylib-error-private.h"
#include "xrf_cross_sections_aux.h"

/* Under MemorySanitizer (the third build of the C16 history harness, both tiers: library AND harness compiled with -fsanitize=memory) every scalar of a returned object is
   tested for initialisation before it is rendered: a value the library never wrote is rendered as `UNINIT!` (and then unpoisoned, so that
   the rendering itself goes on) — uninitialised output is the purest form of "depends on the call history". */
#if defined(__has_feature)
# if __has_feature(memory_sanitizer)
#  include <sanitizer/msan_interface.h>
#  define XRL_MSAN 1
# endif
#endif

typedef struct { char *p; size_t n, cap; } obuf;

static void ob_put(obuf *o, const char *fmt, ...) {
  va_list ap; va_start(ap, fmt);
  if (o->n < o->cap) { int k = vsnprintf(o->p + o->n, o->cap - o->n, fmt, ap); if (k > 0) o->n += (size_t)k; if (o->n >= o->cap) o->n = o->cap - 1; }
  va_end(ap);
}
#ifdef XRL_MSAN
# define XRL_UNINIT(o, pv) do { if (__msan_test_shadow((pv), sizeof *(pv)) != -1) { ob_put((o), "UNINIT!"); __msan_unpoison((pv), sizeof *(pv)); } } while (0)
#else
# define XRL_UNINIT(o, pv) do { } while (0)
#endif
static void ob_d(obuf *o, double d) { XRL_UNINIT(o, &d); uint64_t b; memcpy(&b, &d, 8); ob_put(o, "x%016llx", (unsigned long long)b); }
static void ob_i(obuf *o, int v) { XRL_UNINIT(o, &v); ob_put(o, "%d", v); }           /* an int FIELD of a returned object */
static void ob_s(obuf *o, const char *s) {
  if (!s) { ob_put(o, "~"); return; }
  ob_put(o, "\"");
  for (; *s; s++) { if (*s <= ' ' || *s == '%' || *s == '"' || (unsigned char)*s >= 127) ob_put(o, "%%%02x", (unsigned char)*s); else ob_put(o, "%c", *s); }
  ob_put(o, "\"");
}
static double op_pd(const char *s) { uint64_t b = strtoull(s + 1, NULL, 16); double d; memcpy(&d, &b, 8); return d; }
static int op_pi(const char *s) { return (int)strtol(s, NULL, 10); }
/* in-place %-unescape; returns NULL for `~` */
static char *op_ps(char *s) {
  if (s[0] == '~' && s[1] == 0) return NULL;
  char *w = s;
  for (char *r = s; *r; ) {
    if (*r == '%' && r[1] && r[2]) { char h[3] = { r[1], r[2], 0 }; *w++ = (char)strtol(h, NULL, 16); r += 3; }
    else *w++ = *r++;
  }
  *w = 0; return s;
}
static void ob_err(obuf *o, char mode, xrl_error **e) {
  if (mode == 'N') { ob_put(o, " e:N"); return; }
  if (*e == NULL) { ob_put(o, " e:-"); return; }
  ob_put(o, " e:%d:", (int)(*e)->code); ob_s(o, (*e)->message);
}
/* objects retained across ops by the history harness (NULL in the other harnesses) */
typedef struct retained { int kind; void *obj; char *snap; struct retained *next; } retained;
static void retain(retained **keep, int kind, void *obj);

/* SLOT_END: `ret` (the op carries the `retain-` prefix and the harness keeps objects) -> the slot's error object stays alive */
#define SLOT(tok) char mode = (tok)[0]; xrl_error *e = NULL; xrl_error **ep = (mode == 'N') ? NULL : &e
#define SLOT_END  do { ob_err(o, mode, &e); if (e) { if (ret && keep) retain(keep, 0, e); else xrl_error_free(e); } } while (0)

static void ob_crystal(obuf *o, const Crystal_Struct *c) {
  if (!c) { ob_put(o, "crystal:~"); return; }
  ob_put(o, "crystal:"); ob_s(o, c->name);
  ob_put(o, " "); ob_d(o, c->a); ob_put(o, " "); ob_d(o, c->b); ob_put(o, " "); ob_d(o, c->c);
  ob_put(o, " "); ob_d(o, c->alpha); ob_put(o, " "); ob_d(o, c->beta); ob_put(o, " "); ob_d(o, c->gamma);
  ob_put(o, " "); ob_d(o, c->volume); ob_put(o, " n="); ob_i(o, c->n_atom);
  for (int i = 0; i < c->n_atom; i++) {
    ob_put(o, " ["); ob_i(o, c->atom[i].Zatom); ob_put(o, " "); ob_d(o, c->atom[i].fraction); ob_put(o, " "); ob_d(o, c->atom[i].x);
    ob_put(o, " "); ob_d(o, c->atom[i].y); ob_put(o, " "); ob_d(o, c->atom[i].z); ob_put(o, "]");
  }
}
/* EVERY field of the object: nElements, nAtomsAll, molarMass, and per element Elements[i], massFractions[i], nAtoms[i] */
static void ob_cd(obuf *o, const struct compoundData *cd) {
  if (!cd) { ob_put(o, "cd:~"); return; }
  ob_put(o, "cd:n="); ob_i(o, cd->nElements); ob_put(o, " "); ob_d(o, cd->nAtomsAll); ob_put(o, " "); ob_d(o, cd->molarMass);
  for (int i = 0; i < cd->nElements; i++) { ob_put(o, " ["); ob_i(o, cd->Elements[i]); ob_put(o, " "); ob_d(o, cd->massFractions[i]); ob_put(o, " "); ob_d(o, cd->nAtoms[i]); ob_put(o, "]"); }
}
static void ob_cdn(obuf *o, const struct compoundDataNIST *c) {
  if (!c) { ob_put(o, "cdn:~"); return; }
  ob_put(o, "cdn:"); ob_s(o, c->name); ob_put(o, " n="); ob_i(o, c->nElements); ob_put(o, " "); ob_d(o, c->density);
  for (int i = 0; i < c->nElements; i++) { ob_put(o, " ["); ob_i(o, c->Elements[i]); ob_put(o, " "); ob_d(o, c->massFractions[i]); ob_put(o, "]"); }
}
static void ob_rnd(obuf *o, const struct radioNuclideData *r) {
  if (!r) { ob_put(o, "rnd:~"); return; }
  ob_put(o, "rnd:"); ob_s(o, r->name); ob_put(o, " Z="); ob_i(o, r->Z); ob_put(o, " A="); ob_i(o, r->A); ob_put(o, " N="); ob_i(o, r->N);
  ob_put(o, " Zx="); ob_i(o, r->Z_xray); ob_put(o, " nX="); ob_i(o, r->nXrays); ob_put(o, " nG="); ob_i(o, r->nGammas);
  for (int i = 0; i < r->nXrays; i++) { ob_put(o, " ["); ob_i(o, r->XrayLines[i]); ob_put(o, " "); ob_d(o, r->XrayIntensities[i]); ob_put(o, "]"); }
  for (int i = 0; i < r->nGammas; i++) { ob_put(o, " ("); ob_d(o, r->GammaEnergies[i]); ob_put(o, " "); ob_d(o, r->GammaIntensities[i]); ob_put(o, ")"); }
}
static void ob_list(obuf *o, char **l, int n) {
  if (!l) { ob_put(o, "list:~"); return; }
  ob_put(o, "list:"); ob_i(o, n);
  for (int i = 0; l[i]; i++) { ob_put(o, " "); ob_s(o, l[i]); xrlFree(l[i]); }
  xrlFree(l);
}
/* `@name` -> private copy of a built-in crystal (NULL if the name is unknown) */
static Crystal_Struct *op_crystal(char *tok) { char *nm = op_ps(tok + 1); return nm ? Crystal_GetCrystal(nm, NULL, NULL) : NULL; }

/* The one piece of storage shared between threads: a USER crystal array built by the harness before any thread starts and only
   READ afterwards (C17: "only explicit modification of a shared crystal collection requires locking" — reading one does not). */
static Crystal_Array *xrl_shared = NULL;
static void xrl_shared_build(const char *file) {
  static const char *names[] = { "Si", "Ge", "Diamond", "AlphaQuartz", "LiF", "Beryl", "Muscovite", "TlAP", NULL };
  xrl_shared = Crystal_ArrayInit(2, NULL);            /* small on purpose: the array is extended while it is filled */
  for (int i = 0; names[i] && xrl_shared; i++) { Crystal_Struct *c = Crystal_GetCrystal(names[i], NULL, NULL); if (c) { Crystal_AddCrystal(c, xrl_shared, NULL); Crystal_Free(c); } }
  if (file && xrl_shared) Crystal_ReadFile(file, xrl_shared, NULL);
}
/* `$name` -> the entry inside the shared array itself (no copy) */
static Crystal_Struct *op_shared_entry(char *tok) {
  char *nm = op_ps(tok + 1);
  if (!nm || !xrl_shared) return NULL;
  for (int i = 0; i < xrl_shared->n_crystal; i++) if (!strcmp(xrl_shared->crystal[i].name, nm)) return &xrl_shared->crystal[i];
  return NULL;
}
/* FNV-1a over the CONTENTS of a crystal array (entries, names, atoms: also the heap blocks a link-map region cannot see) */
static uint64_t xrl_array_hash(const Crystal_Array *a) {
  uint64_t h = 1469598103934665603ULL;
#define FNV(p, n) do { const unsigned char *q_ = (const unsigned char *)(p); for (size_t k_ = 0; k_ < (size_t)(n); k_++) { h ^= q_[k_]; h *= 1099511628211ULL; } } while (0)
  FNV(&a->n_crystal, sizeof a->n_crystal); FNV(&a->n_alloc, sizeof a->n_alloc);
  for (int i = 0; i < a->n_crystal; i++) {
    const Crystal_Struct *c = &a->crystal[i];
    if (c->name) FNV(c->name, strlen(c->name) + 1);
    FNV(&c->a, 8); FNV(&c->b, 8); FNV(&c->c, 8); FNV(&c->alpha, 8); FNV(&c->beta, 8); FNV(&c->gamma, 8); FNV(&c->volume, 8); FNV(&c->n_atom, sizeof c->n_atom);
    for (int k = 0; k < c->n_atom && c->atom; k++) { FNV(&c->atom[k].Zatom, sizeof(int)); FNV(&c->atom[k].fraction, 8); FNV(&c->atom[k].x, 8); FNV(&c->atom[k].y, 8); FNV(&c->atom[k].z, 8); }
  }
#undef FNV
  return h;
}

#include "xrl_ops_gen.inc"     /* static int xrl_dispatch_gen(obuf *o, char **t, int nt, retained **keep, int ret) */

static char *snap_of(int kind, void *obj) {
  static const size_t CAP = 1 << 16;
  obuf b = { malloc(CAP), 0, CAP }; b.p[0] = 0;
  if (kind == 0) { xrl_error *e = obj; ob_put(&b, "err %d ", (int)e->code); ob_s(&b, e->message); }
  else if (kind == 1) ob_crystal(&b, obj);
  else if (kind == 2) ob_cd(&b, obj);
  else if (kind == 3) ob_cdn(&b, obj);
  else ob_rnd(&b, obj);
  return b.p;
}
static void retain(retained **keep, int kind, void *obj) {
  if (!obj) return;
  retained *r = malloc(sizeof *r); r->kind = kind; r->obj = obj; r->snap = snap_of(kind, obj); r->next = *keep; *keep = r;
}

/* xrl_error_new_valist needs a va_list */
static xrl_error *op_new_valist(xrl_error_code code, const char *fmt, ...) { va_list ap; va_start(ap, fmt); xrl_error *e = xrl_error_new_valist(code, fmt, ap); va_end(ap); return e; }
static void ob_arr(obuf *o, Crystal_Array *arr) {      /* complete contents of a user array, through the public lookups */
  int n = -7; char **l = Crystal_GetCrystalsList(arr, &n, NULL);
  ob_put(o, " n=%d", n);
  for (int i = 0; l && l[i]; i++) { Crystal_Struct *g = Crystal_GetCrystal(l[i], arr, NULL); ob_put(o, " {"); ob_crystal(o, g); ob_put(o, "}"); Crystal_Free(g); xrlFree(l[i]); }
  if (l) xrlFree(l);
}

/* execute one op; returns 0 for an unknown op.  `keep` != NULL: ops prefixed `retain-` keep their object alive. */
static int xrl_op(obuf *o, char **t, int nt, retained **keep) {
  const char *op = t[0];
  int ret = 0;
  if (!strncmp(op, "retain-", 7)) { ret = keep != NULL; op += 7; }
  if (!strcmp(op, "XRayInit")) { XRayInit(); ob_put(o, "v"); return 1; }
  if (!strcmp(op, "CompoundParser") && nt == 3) {
    SLOT(t[2]); struct compoundData *cd = CompoundParser(op_ps(t[1]), ep); ob_cd(o, cd); SLOT_END;
    if (cd) { if (ret) retain(keep, 2, cd); else FreeCompoundData(cd); } return 1; }
  if (!strcmp(op, "add_compound_data") && nt == 5) {
    struct compoundData *a = CompoundParser(op_ps(t[1]), NULL), *b = CompoundParser(op_ps(t[3]), NULL);
    if (a && b) { struct compoundData *c = add_compound_data(*a, op_pd(t[2]), *b, op_pd(t[4])); ob_cd(o, c); ob_put(o, " | "); ob_cd(o, a); ob_put(o, " | "); ob_cd(o, b); FreeCompoundData(c); }
    else ob_put(o, "unparsed");
    if (a) FreeCompoundData(a); if (b) FreeCompoundData(b); return 1; }
  if (!strcmp(op, "add_compound_raw") && nt == 9) {
    /* A nAtomsAll_A molarMass_A weight_A B nAtomsAll_B molarMass_B weight_B, with A, B = `Z/x<massFraction>/x<nAtoms>,…` (at most 16 elements):
       the two mixtures are written out by the APPLICATION into its own stack arrays — no library call and no allocation is needed to make them,
       so in a process without history add_compound_data itself is the first library call and the first user of the heap */
    int el[2][16]; double mf[2][16], na[2][16]; struct compoundData in[2];
    for (int s = 0; s < 2; s++) {
      int n = 0; char *q = t[1 + 4 * s];
      while (*q && n < 16) { char *e1; el[s][n] = (int)strtol(q, &e1, 10); if (*e1 != '/') break; mf[s][n] = op_pd(e1 + 1); char *e2 = strchr(e1 + 1, '/'); if (!e2) break;
                             na[s][n] = op_pd(e2 + 1); n++; q = strchr(e2, ','); if (!q) break; q++; }
      in[s].nElements = n; in[s].Elements = el[s]; in[s].massFractions = mf[s]; in[s].nAtoms = na[s]; in[s].nAtomsAll = op_pd(t[2 + 4 * s]); in[s].molarMass = op_pd(t[3 + 4 * s]);
    }
    if (in[0].nElements && in[1].nElements) { struct compoundData *c = add_compound_data(in[0], op_pd(t[4]), in[1], op_pd(t[8])); ob_cd(o, c); if (c) { if (ret) retain(keep, 2, c); else FreeCompoundData(c); } }
    else ob_put(o, "unparsed");
    return 1; }
  if (!strcmp(op, "NISTByName") && nt == 3) {
    SLOT(t[2]); struct compoundDataNIST *c = GetCompoundDataNISTByName(op_ps(t[1]), ep); ob_cdn(o, c); SLOT_END;
    if (c) { if (ret) retain(keep, 3, c); else FreeCompoundDataNIST(c); } return 1; }
  if (!strcmp(op, "NISTByIndex") && nt == 3) {
    SLOT(t[2]); struct compoundDataNIST *c = GetCompoundDataNISTByIndex(op_pi(t[1]), ep); ob_cdn(o, c); SLOT_END;
    if (c) { if (ret) retain(keep, 3, c); else FreeCompoundDataNIST(c); } return 1; }
  if (!strcmp(op, "NISTList") && nt == 2) {
    SLOT(t[1]); int n = -7; char **l = GetCompoundDataNISTList(&n, ep); ob_list(o, l, n); SLOT_END; return 1; }
  if (!strcmp(op, "RadByName") && nt == 3) {
    SLOT(t[2]); struct radioNuclideData *r = GetRadioNuclideDataByName(op_ps(t[1]), ep); ob_rnd(o, r); SLOT_END;
    if (r) { if (ret) retain(keep, 4, r); else FreeRadioNuclideData(r); } return 1; }
  if (!strcmp(op, "RadByIndex") && nt == 3) {
    SLOT(t[2]); struct radioNuclideData *r = GetRadioNuclideDataByIndex(op_pi(t[1]), ep); ob_rnd(o, r); SLOT_END;
    if (r) { if (ret) retain(keep, 4, r); else FreeRadioNuclideData(r); } return 1; }
  if (!strcmp(op, "RadList") && nt == 2) {
    SLOT(t[1]); int n = -7; char **l = GetRadioNuclideDataList(&n, ep); ob_list(o, l, n); SLOT_END; return 1; }
  if (!strcmp(op, "GetCrystal") && nt == 3) {
    SLOT(t[2]); Crystal_Struct *c = Crystal_GetCrystal(op_ps(t[1]), NULL, ep); ob_crystal(o, c); SLOT_END;
    if (c) { if (ret) retain(keep, 1, c); else Crystal_Free(c); } return 1; }
  if (!strcmp(op, "MakeCopy") && nt == 3) {
    SLOT(t[2]); Crystal_Struct *c = op_crystal(t[1]); Crystal_Struct *d = Crystal_MakeCopy(c, ep);
    ob_crystal(o, d); ob_put(o, " <- "); ob_crystal(o, c); SLOT_END; Crystal_Free(c); Crystal_Free(d); return 1; }
  if (!strcmp(op, "CrystalsList") && nt == 2) {
    SLOT(t[1]); int n = -7; char **l = Crystal_GetCrystalsList(NULL, &n, ep); ob_list(o, l, n); SLOT_END; return 1; }
  if (!strcmp(op, "Atomic_Factors") && nt == 7) {     /* Z E q debye flags slot; flags bit k set = pass pointer k */
    SLOT(t[6]); int fl = op_pi(t[5]); double f0 = -1, f1 = -1, f2 = -1;
    int r = Atomic_Factors(op_pi(t[1]), op_pd(t[2]), op_pd(t[3]), op_pd(t[4]), (fl & 1) ? &f0 : NULL, (fl & 2) ? &f1 : NULL, (fl & 4) ? &f2 : NULL, ep);
    ob_put(o, "i:"); ob_i(o, r); ob_put(o, " "); ob_d(o, f0); ob_put(o, " "); ob_d(o, f1); ob_put(o, " "); ob_d(o, f2); SLOT_END; return 1; }
  if (!strcmp(op, "PrivateArray") && nt == 4) {       /* name1 name2 slot: user-owned crystal array round trip */
    SLOT(t[3]); Crystal_Array *arr = Crystal_ArrayInit(8, ep);
    Crystal_Struct *c1 = op_crystal(t[1]), *c2 = op_crystal(t[2]);
    int r1 = c1 ? Crystal_AddCrystal(c1, arr, NULL) : -1, r2 = c2 ? Crystal_AddCrystal(c2, arr, NULL) : -1;
    int n = -7; char **l = Crystal_GetCrystalsList(arr, &n, NULL);
    ob_put(o, "add:%d,%d ", r1, r2); ob_list(o, l, n);
    if (c1) { Crystal_Struct *g = Crystal_GetCrystal(c1->name, arr, NULL); ob_put(o, " "); ob_crystal(o, g); Crystal_Free(g); }
    SLOT_END; Crystal_Free(c1); Crystal_Free(c2); Crystal_ArrayFree(arr); return 1; }
  if (!strcmp(op, "AddBuiltin") && nt == 4) {         /* source-name new-name slot: EXPLICIT insertion into the built-in array */
    SLOT(t[3]); Crystal_Struct *c = op_crystal(t[1]); int r = -1;
    if (c) { free(c->name); c->name = xrl_strdup(op_ps(t[2])); r = Crystal_AddCrystal(c, NULL, ep); }
    ob_put(o, "i:%d", r); SLOT_END; Crystal_Free(c); return 1; }
  if (!strcmp(op, "AddUser") && nt == 4) {            /* source-name new-name slot: Crystal_AddCrystal into a USER array (twice: the 2nd is a duplicate) */
    SLOT(t[3]); Crystal_Array *arr = Crystal_ArrayInit(1, NULL); Crystal_Struct *c = op_crystal(t[1]); int r1 = -1, r2 = -1;
    if (c && arr) { free(c->name); c->name = xrl_strdup(op_ps(t[2])); r1 = Crystal_AddCrystal(c, arr, NULL); r2 = Crystal_AddCrystal(c, arr, ep);
                    Crystal_Struct *d = Crystal_GetCrystal("Ge", NULL, NULL); if (d) { ob_put(o, "ge:%d ", Crystal_AddCrystal(d, arr, NULL)); Crystal_Free(d); } }
    ob_put(o, "i:%d,%d", r1, r2); if (arr) ob_arr(o, arr); SLOT_END; Crystal_Free(c); Crystal_ArrayFree(arr); return 1; }
  if (!strcmp(op, "ReadFileUser") && nt == 3) {       /* file slot: a SUCCESSFUL (or failing) Crystal_ReadFile into a user array */
    SLOT(t[2]); Crystal_Array *arr = Crystal_ArrayInit(0, NULL); int r = arr ? Crystal_ReadFile(op_ps(t[1]), arr, ep) : -1;
    ob_put(o, "i:%d", r); if (arr) ob_arr(o, arr); SLOT_END; Crystal_ArrayFree(arr); return 1; }
  if (!strcmp(op, "ReadFileBuiltin") && nt == 3) {    /* file slot: EXPLICIT insertion of a file's crystals into the built-in array */
    SLOT(t[2]); int r = Crystal_ReadFile(op_ps(t[1]), NULL, ep); ob_put(o, "i:%d", r); SLOT_END; return 1; }
  if (!strcmp(op, "ReadFileDir") && nt == 2) {        /* slot: Crystal_ReadFile of a path that opens but cannot be read (the working DIRECTORY), built-in array */
    SLOT(t[1]); int r = Crystal_ReadFile(".", NULL, ep); ob_put(o, "i:%d", r); SLOT_END; return 1; }
  if (!strcmp(op, "ReadFileDirUser") && nt == 2) {    /* slot: the same into a user array */
    SLOT(t[1]); Crystal_Array *arr = Crystal_ArrayInit(0, NULL); int r = arr ? Crystal_ReadFile(".", arr, ep) : -1;
    ob_put(o, "i:%d", r); if (arr) ob_arr(o, arr); SLOT_END; Crystal_ArrayFree(arr); return 1; }
  if (!strcmp(op, "AppErrno") && nt == 2) { errno = op_pi(t[1]); ob_put(o, "v"); return 1; }
  if (!strcmp(op, "AppFe") && nt == 2) { if (op_pi(t[1])) feraiseexcept(FE_ALL_EXCEPT); else feclearexcept(FE_ALL_EXCEPT); ob_put(o, "v"); return 1; }
  if (!strcmp(op, "SharedGet") && nt == 3) {           /* name slot: lookup (copy) in the shared user array */
    SLOT(t[2]); Crystal_Struct *c = xrl_shared ? Crystal_GetCrystal(op_ps(t[1]), xrl_shared, ep) : NULL; ob_crystal(o, c); SLOT_END;
    if (c) { if (ret) retain(keep, 1, c); else Crystal_Free(c); } return 1; }
  if (!strcmp(op, "SharedList") && nt == 2) {
    SLOT(t[1]); int n = -7; char **l = xrl_shared ? Crystal_GetCrystalsList(xrl_shared, &n, ep) : NULL; ob_list(o, l, n); SLOT_END; return 1; }
  if (!strcmp(op, "ErrorNew") && nt == 3) {            /* code text: the five private constructors called directly (xraylib-error-private.h) */
    int code = op_pi(t[1]); char *msg = op_ps(t[2]); xrl_error *a, *b, *c, *d = NULL, *f = NULL;
    a = xrl_error_new((xrl_error_code)code, "%s/%d/%g", msg ? msg : "(null)", code, 0.5 * code);
    b = xrl_error_new_literal((xrl_error_code)code, msg ? msg : "");
    c = op_new_valist((xrl_error_code)code, "<%s>", msg ? msg : "");
    xrl_set_error(&d, (xrl_error_code)code, "Z=%d %s", code, msg ? msg : ""); xrl_set_error_literal(&f, (xrl_error_code)code, msg ? msg : "");
    xrl_set_error(NULL, (xrl_error_code)code, "%s", "ignored"); xrl_set_error_literal(NULL, (xrl_error_code)code, "ignored");
    xrl_error *all[5] = { a, b, c, d, f };
    for (int i = 0; i < 5; i++) { if (all[i]) { ob_put(o, " %d:", (int)all[i]->code); ob_s(o, all[i]->message); } else ob_put(o, " ~");
      if (all[i]) { if (ret && i == 0) retain(keep, 0, all[i]); else xrl_error_free(all[i]); } }
    return 1; }
  if (!strcmp(op, "ErrorApi") && nt == 3) {            /* Z line: a failing call, then the error API on its error object */
    xrl_error *e = NULL, *d = NULL; double v = LineEnergy(op_pi(t[1]), op_pi(t[2]), &e);
    ob_d(o, v);
    if (e) {
      xrl_error *c = xrl_error_copy(e);
      ob_put(o, " copy:%d:", (int)c->code); ob_s(o, c->message);
      ob_put(o, " m:%d%d%d", xrl_error_matches(e, XRL_ERROR_INVALID_ARGUMENT), xrl_error_matches(e, XRL_ERROR_MEMORY), xrl_error_matches(NULL, XRL_ERROR_IO));
      xrl_propagate_error(&d, c); ob_put(o, " prop:%d", d == c); xrl_clear_error(&d); ob_put(o, " clr:%d", d == NULL);
      ob_put(o, " orig:%d:", (int)e->code); ob_s(o, e->message);
      if (ret) retain(keep, 0, e); else xrl_error_free(e);
    } else ob_put(o, " noerr");
    return 1; }
  if (!strcmp(op, "Aux") && nt == 3) {                 /* string n */
    char *s = op_ps(t[1]); char *a = xrl_strdup(s), *b = xrl_strndup(s, (size_t)op_pi(t[2])); void *m = xrl_malloc(24);
    ob_s(o, a); ob_put(o, " "); ob_s(o, b); ob_put(o, " m:%d", m != NULL); xrlFree(a); xrlFree(b); xrlFree(m); return 1; }
  if (!strcmp(op, "Deprecated") && nt == 2) {          /* which: prints the deprecation diagnostic on stderr */
    int w = op_pi(t[1]), r = 0;
    switch (w) { case 0: SetHardExit(1); break; case 1: SetExitStatus(2); break; case 2: r = GetExitStatus(); break;
                 case 3: SetErrorMessages(1); break; default: r = GetErrorMessages(); }
    ob_put(o, "i:%d", r); return 1; }
  {
    char *tt[40]; if (nt > 40) return 0;
    for (int i = 0; i < nt; i++) tt[i] = t[i];
    tt[0] = (char *)op;
    return xrl_dispatch_gen(o, tt, nt, keep, ret);
  }
}

/* verify the retained objects against the snapshot taken when they were created; releases them */
static int retained_check(retained *keep, obuf *o) {
  int n = 0, bad = 0, nerr = 0;
  while (keep) {
    char *now = snap_of(keep->kind, keep->obj);
    n++; if (keep->kind == 0) nerr++;
    if (strcmp(now, keep->snap)) { bad++; ob_put(o, "retained-changed kind=%d was{%s} now{%s}\n", keep->kind, keep->snap, now); }
    free(now); free(keep->snap);
    switch (keep->kind) { case 0: xrl_error_free(keep->obj); break; case 1: Crystal_Free(keep->obj); break; case 2: FreeCompoundData(keep->obj); break;
                          case 3: FreeCompoundDataNIST(keep->obj); break; default: FreeRadioNuclideData(keep->obj); }
    retained *nx = keep->next; free(keep); keep = nx;
  }
  ob_put(o, "retained %d changed %d errors %d\n", n, bad, nerr);
  return bad;
}

static int xrl_split(char *line, char **tok, int max) {
  int nt = 0;
  for (char *p = strtok_r(line, " \n", &line); p && nt < max; p = strtok_r(NULL, " \n", &line)) tok[nt++] = p;
  return nt;
}
#endif
