/* C06 correspondence driver: the 21 `_CP` functions (src/cs_cp.c) and the refractive-index entry points
   (src/refractive_indices.c) of the library built from the working tree.

   Built by ./check C06 against the library objects compiled from VERIF_REPO (ASan+UBSan) and linked with
     -Wl,--wrap=malloc,--wrap=calloc,--wrap=realloc,--wrap=free,--wrap=strdup,--wrap=strndup,--wrap=vasprintf
     -Wl,--wrap=CompoundParser,--wrap=GetCompoundDataNISTByName,--wrap=Fi,--wrap=CS_Total
   The allocation wrappers count live heap blocks (observer).  The two lookup wrappers pass every call through to the real
   function, except for the name of an `inj` line, for which they return the composition given on that line: this lets the
   run exercise the code shape with lookups the real parser/catalogue never produce together (both succeed: precedence;
   a failing element BEFORE a good one; a zero mass fraction).  The wrappers of Fi and CS_Total pass through as well, except on a
   `zero` line, where they answer 0.0 WITHOUT an error for one element: the corner `value 0 = failure signal` of the code
   (theorems cp_zero_product_witness, refr_re_zero_witness, refr_im_zero_witness) replayed on the real functions.

   Line protocol (strings %-escaped: every byte outside [A-Za-z0-9.()_-] is %XX, the empty string is `%`, the token `%00NULL` is the
   NULL pointer (passed as such to the function under study and to the two lookups); doubles x<16 hex>):
     tables
         -> `sym Z:Symbol ...` (Z with an atomic weight) and `nist <name> ...`
     <fn> <E|N> <compound> <double>...
         fn = one of the 21 elemental names (the `_CP` function is called), or Refractive_Index_Re / _Im / Refractive_Index /
         Refractive_Index2 (doubles: E density); E|N = &error / NULL
     inj <Pspec> <Nspec> <fn> <E|N> <compound> <double>...
         Pspec: `-` real parser | `0` NULL | Z:w,Z:w,...        Nspec: `-` real catalogue | `0` NULL | rho;Z:w,...
     zero <Zfi> <Zcs> <one of the two forms above>
         Fi(Zfi, .) and CS_Total(Zcs, .) answer 0.0 with no error during this line (0 = nobody)
   Answer (one line):
     ok <value>[ <value2>] <slot> live=<blocks still allocated after the call, error object excluded>
        | P=<-|blocks;Z:w,...> N=<-|blocks;rho;Z:w,...> V=<Z:outcome[/outcome/outcome],...> L=<blocks the lookups themselves left>
     slot: N (NULL passed) | E (no error) | F<code>:<message>        outcome: x<bits> | e<code>:<message>
     P/N = what CompoundParser(compound, NULL) / GetCompoundDataNISTByName(compound, NULL) return for this name;
     V   = what the elemental function(s) return for every element of P and N with the same arguments and a fresh slot
           (refractive: Fi / AtomicWeight / CS_Total).  The model is run with exactly these parameters. */
#include "config.h"
#include <stdio.h>
#include <stdlib.h>
#include <string.h>
#include <stdint.h>
#include <stdarg.h>
#include "xraylib.h"

/* hidden-state poisoning: the library must not READ errno (or any other thread state the application may have left behind).
   Before every operation the driver leaves a different value there, as an application that has just overflowed a strtod, taken
   the log of a negative number or failed an allocation would; the answers must not depend on it.  (Seeded changes C02-9, C06-9,
   C07-9, C12-9, C15-10, C16-7: "errno == ERANGE" tests without clearing errno first.) */
#include <errno.h>
#include <fenv.h>
static void xv_poison_errno(void) { static unsigned k; static const int v[4] = {ERANGE, EDOM, ENOMEM, 0};
  /* likewise the floating-point exception flags an application may have raised (seeded change C05-11: fetestexcept without feclearexcept) */
  feclearexcept(FE_ALL_EXCEPT); if ((k >> 2) & 1) feraiseexcept(FE_DIVBYZERO | FE_INVALID | FE_OVERFLOW);
  errno = v[k++ & 3]; }

/* ---------------- allocation counter ------------------------------------------------------- */
static long live_blocks = 0;
void *__real_malloc(size_t); void *__real_calloc(size_t, size_t); void *__real_realloc(void *, size_t);
void __real_free(void *); char *__real_strdup(const char *); char *__real_strndup(const char *, size_t);
int __real_vasprintf(char **, const char *, va_list);
void *__wrap_malloc(size_t n) { void *p = __real_malloc(n); if (p) live_blocks++; return p; }
void *__wrap_calloc(size_t a, size_t b) { void *p = __real_calloc(a, b); if (p) live_blocks++; return p; }
void *__wrap_realloc(void *q, size_t n) { void *p = __real_realloc(q, n); if (!q && p) live_blocks++; return p; }
void __wrap_free(void *p) { if (p) live_blocks--; __real_free(p); }
char *__wrap_strdup(const char *s) { char *p = __real_strdup(s); if (p) live_blocks++; return p; }
char *__wrap_strndup(const char *s, size_t n) { char *p = __real_strndup(s, n); if (p) live_blocks++; return p; }
int __wrap_vasprintf(char **out, const char *fmt, va_list ap) { int r = __real_vasprintf(out, fmt, ap); if (r >= 0 && *out) live_blocks++; return r; }

/* ---------------- helpers ------------------------------------------------------------------ */
static double un_d(const char *s) { uint64_t b = strtoull(s + 1, NULL, 16); double d; memcpy(&d, &b, 8); return d; }
static void pr_d(double d) { uint64_t b; memcpy(&b, &d, 8); printf("x%016llx", (unsigned long long)b); }
static int plain(unsigned char c) {
  return (c >= 'A' && c <= 'Z') || (c >= 'a' && c <= 'z') || (c >= '0' && c <= '9') || c == '.' || c == '(' || c == ')' || c == '_' || c == '-';
}
static void pr_esc(const char *s) {
  if (!s) { printf("%%00NULL"); return; }
  if (!*s) { printf("%%"); return; }
  for (; *s; s++) { unsigned char c = (unsigned char)*s; if (plain(c)) putchar(c); else printf("%%%02X", c); }
}
static int hexv(int c) { return c <= '9' ? c - '0' : (c | 32) - 'a' + 10; }
static char *unesc(const char *s, char *out) {
  char *o = out;
  if (s[0] == '%' && s[1] == 0) { *o = 0; return out; }
  while (*s) {
    if (*s == '%' && s[1] && s[2]) { *o++ = (char)(hexv((unsigned char)s[1]) * 16 + hexv((unsigned char)s[2])); s += 3; }
    else *o++ = *s++;
  }
  *o = 0; return out;
}

/* ---------------- lookup wrappers (injection) ------------------------------------------------ */
struct compoundData *__real_CompoundParser(const char *, xrl_error **);
struct compoundDataNIST *__real_GetCompoundDataNISTByName(const char *, xrl_error **);
#define MAXEL 64
static int inj_on = 0; static const char *inj_key = NULL;
static int injP_mode = 0, injN_mode = 0;            /* 0 pass through, 1 NULL, 2 synthetic */
static int injP_n, injN_n, injP_Z[MAXEL], injN_Z[MAXEL];
static double injP_w[MAXEL], injN_w[MAXEL], injN_rho;

struct compoundData *__wrap_CompoundParser(const char *s, xrl_error **error) {
  if (inj_on && s && !strcmp(s, inj_key) && injP_mode) {
    if (injP_mode == 1) return NULL;
    struct compoundData *cd = malloc(sizeof *cd);
    cd->nElements = injP_n; cd->nAtomsAll = injP_n; cd->molarMass = 1.0;
    cd->Elements = malloc(sizeof(int) * (injP_n + 1)); cd->massFractions = malloc(sizeof(double) * (injP_n + 1));
    cd->nAtoms = malloc(sizeof(double) * (injP_n + 1));
    for (int i = 0; i < injP_n; i++) { cd->Elements[i] = injP_Z[i]; cd->massFractions[i] = injP_w[i]; cd->nAtoms[i] = 1.0; }
    return cd;
  }
  return __real_CompoundParser(s, error);
}
struct compoundDataNIST *__wrap_GetCompoundDataNISTByName(const char *s, xrl_error **error) {
  if (inj_on && s && !strcmp(s, inj_key) && injN_mode) {
    if (injN_mode == 1) return NULL;
    struct compoundDataNIST *c = malloc(sizeof *c);
    c->name = strdup(s); c->nElements = injN_n; c->density = injN_rho;
    c->Elements = malloc(sizeof(int) * (injN_n + 1)); c->massFractions = malloc(sizeof(double) * (injN_n + 1));
    for (int i = 0; i < injN_n; i++) { c->Elements[i] = injN_Z[i]; c->massFractions[i] = injN_w[i]; }
    return c;
  }
  return __real_GetCompoundDataNISTByName(s, error);
}
static int rd_els(char *p, int *Z, double *w) {       /* Z:w,Z:w,... */
  int n = 0;
  while (*p && n < MAXEL) {
    char *q; Z[n] = (int)strtol(p, &q, 10); if (*q != ':') return -1;
    w[n] = un_d(q + 1); n++;
    p = strchr(q, ','); if (!p) break; p++;
  }
  return n;
}
static int set_inj(char *ps, char *ns, const char *key) {
  inj_key = key; injP_mode = injN_mode = 0;
  if (!strcmp(ps, "0")) injP_mode = 1;
  else if (strcmp(ps, "-")) { injP_mode = 2; injP_n = rd_els(ps, injP_Z, injP_w); if (injP_n < 0) return 0; }
  if (!strcmp(ns, "0")) injN_mode = 1;
  else if (strcmp(ns, "-")) {
    injN_mode = 2; char *sc = strchr(ns, ';'); if (!sc) return 0;
    injN_rho = un_d(ns); injN_n = sc[1] ? rd_els(sc + 1, injN_Z, injN_w) : 0; if (injN_n < 0) return 0;
  }
  inj_on = 1; return 1;
}

/* ---------------- elemental wrappers (a successful value of exactly 0) ------------------------- */
double __real_Fi(int, double, xrl_error **);
double __real_CS_Total(int, double, xrl_error **);
static int zero_fi = 0, zero_cs = 0;
double __wrap_Fi(int Z, double E, xrl_error **error) { if (zero_fi && Z == zero_fi) return 0.0; return __real_Fi(Z, E, error); }
double __wrap_CS_Total(int Z, double E, xrl_error **error) { if (zero_cs && Z == zero_cs) return 0.0; return __real_CS_Total(Z, E, error); }

/* ---------------- the functions under study --------------------------------------------------- */
typedef double (*f1_t)(int, double, xrl_error **);
typedef double (*f2_t)(int, double, double, xrl_error **);
typedef double (*f3_t)(int, double, double, double, xrl_error **);
typedef double (*c1_t)(const char *, double, xrl_error **);
typedef double (*c2_t)(const char *, double, double, xrl_error **);
typedef double (*c3_t)(const char *, double, double, double, xrl_error **);
struct ent { const char *name; int ar; void *el; void *cp; };
#define F1(x) { #x, 1, (void *)x, (void *)x##_CP }
#define F2(x) { #x, 2, (void *)x, (void *)x##_CP }
#define F3(x) { #x, 3, (void *)x, (void *)x##_CP }
static struct ent TAB[] = {
  F1(CS_Total), F1(CS_Photo), F1(CS_Rayl), F1(CS_Compt), F1(CSb_Total), F1(CSb_Photo), F1(CSb_Rayl), F1(CSb_Compt), F1(CS_Energy),
  F2(DCS_Rayl), F2(DCS_Compt), F2(DCSb_Rayl), F2(DCSb_Compt), F3(DCSP_Rayl), F3(DCSP_Compt), F3(DCSPb_Rayl), F3(DCSPb_Compt),
  F1(CS_Photo_Total), F1(CSb_Photo_Total), F1(CS_Total_Kissel), F1(CSb_Total_Kissel) };
#define NTAB ((int)(sizeof TAB / sizeof TAB[0]))
void Refractive_Index2(const char compound[], double E, double density, xrlComplex *result, xrl_error **error);

static void pr_out(double v, xrl_error **e) {
  if (*e) { printf("e%d:", (int)(*e)->code); pr_esc((*e)->message); xrl_clear_error(e); if (v != 0.0) { printf("!"); pr_d(v); } }
  else pr_d(v);
}
static double call_el(struct ent *t, int Z, double *a, xrl_error **e) {
  if (t->ar == 1) return ((f1_t)t->el)(Z, a[0], e);
  if (t->ar == 2) return ((f2_t)t->el)(Z, a[0], a[1], e);
  return ((f3_t)t->el)(Z, a[0], a[1], a[2], e);
}
static void pr_slot(int mode_null, xrl_error **e) {
  if (mode_null) printf(" N");
  else if (*e) { printf(" F%d:", (int)(*e)->code); pr_esc((*e)->message); xrl_clear_error(e); }
  else printf(" E");
}

static void do_call(const char *fn, const char *mode, const char *compound, double *a, int na) {
  struct ent *t = NULL; int refr = 0;
  for (int i = 0; i < NTAB; i++) if (!strcmp(TAB[i].name, fn)) t = &TAB[i];
  if (!t) {
    if (!strcmp(fn, "Refractive_Index_Re")) refr = 1; else if (!strcmp(fn, "Refractive_Index_Im")) refr = 2;
    else if (!strcmp(fn, "Refractive_Index")) refr = 3; else if (!strcmp(fn, "Refractive_Index2")) refr = 4;
    else { printf("bad-op\n"); return; }
  }
  if ((t && na != t->ar) || (refr && na != 2)) { printf("bad-op\n"); return; }
  int null_mode = mode[0] == 'N';
  /* ---- the call under study ---- */
  xrl_error *e = NULL; xrl_error **ep = null_mode ? NULL : &e;
  long base = live_blocks; double v = 0, v2 = 0;
  if (t) {
    if (t->ar == 1) v = ((c1_t)t->cp)(compound, a[0], ep);
    else if (t->ar == 2) v = ((c2_t)t->cp)(compound, a[0], a[1], ep);
    else v = ((c3_t)t->cp)(compound, a[0], a[1], a[2], ep);
  } else if (refr == 1) v = Refractive_Index_Re(compound, a[0], a[1], ep);
  else if (refr == 2) v = Refractive_Index_Im(compound, a[0], a[1], ep);
  else if (refr == 3) { xrlComplex z = Refractive_Index(compound, a[0], a[1], ep); v = z.re; v2 = z.im; }
  else { xrlComplex z = {7.0, 7.0}; Refractive_Index2(compound, a[0], a[1], &z, ep); v = z.re; v2 = z.im; }
  printf("ok "); pr_d(v); if (refr >= 3) { putchar(' '); pr_d(v2); }
  pr_slot(null_mode, &e);
  printf(" live=%ld", live_blocks - base);
  /* ---- the parameters of the model: what the lookups and the elemental functions answer ---- */
  int Zs[2 * MAXEL + 4], nz = 0; long leaked = 0;
  base = live_blocks;
  struct compoundData *cd = CompoundParser(compound, NULL);
  printf(" | P=");
  if (!cd) printf("-");
  else {
    printf("%ld;", live_blocks - base);
    for (int i = 0; i < cd->nElements; i++) { printf("%s%d:", i ? "," : "", cd->Elements[i]); pr_d(cd->massFractions[i]); if (nz < 2 * MAXEL) Zs[nz++] = cd->Elements[i]; }
    FreeCompoundData(cd);
  }
  leaked += live_blocks - base; base = live_blocks;
  struct compoundDataNIST *cdn = GetCompoundDataNISTByName(compound, NULL);
  printf(" N=");
  if (!cdn) printf("-");
  else {
    printf("%ld;", live_blocks - base); pr_d(cdn->density); putchar(';');
    for (int i = 0; i < cdn->nElements; i++) { printf("%s%d:", i ? "," : "", cdn->Elements[i]); pr_d(cdn->massFractions[i]); if (nz < 2 * MAXEL) Zs[nz++] = cdn->Elements[i]; }
    FreeCompoundDataNIST(cdn);
  }
  leaked += live_blocks - base;
  printf(" V=");
  int first = 1;
  for (int i = 0; i < nz; i++) {
    int dup = 0; for (int j = 0; j < i; j++) if (Zs[j] == Zs[i]) dup = 1;
    if (dup) continue;
    xrl_error *ee = NULL;
    printf("%s%d:", first ? "" : ",", Zs[i]); first = 0;
    if (t) { double x = call_el(t, Zs[i], a, &ee); pr_out(x, &ee); }
    else {
      double x = Fi(Zs[i], a[0], &ee); pr_out(x, &ee); putchar('/');
      x = AtomicWeight(Zs[i], &ee); pr_out(x, &ee); putchar('/');
      x = CS_Total(Zs[i], a[0], &ee); pr_out(x, &ee);
    }
  }
  if (first) printf("-");
  printf(" L=%ld\n", leaked);
}

int main(void) {
  static char line[1 << 16], buf[1 << 16];
  char *tok[20];
  setvbuf(stdout, NULL, _IOFBF, 1 << 16);
  while (fgets(line, sizeof line, stdin)) {
    xv_poison_errno();
    int nt = 0;
    for (char *p = strtok(line, " \n"); p && nt < 20; p = strtok(NULL, " \n")) tok[nt++] = p;
    if (nt == 0) continue;
    if (!strcmp(tok[0], "tables")) {
      printf("sym");
      for (int Z = 1; Z <= 120; Z++) {
        char *s = AtomicNumberToSymbol(Z, NULL);
        if (s) { if (AtomicWeight(Z, NULL) > 0) { printf(" %d:", Z); pr_esc(s); } xrlFree(s); }
      }
      printf("\nnist");
      int n = 0; char **l = GetCompoundDataNISTList(&n, NULL);
      for (int i = 0; i < n; i++) { putchar(' '); pr_esc(l[i]); xrlFree(l[i]); }
      xrlFree(l);
      printf("\n");
      continue;
    }
    int o = 0, z = 0;
    zero_fi = zero_cs = 0;
    if (!strcmp(tok[0], "zero")) {
      if (nt < 6) { printf("bad-op\n"); continue; }
      zero_fi = atoi(tok[1]); zero_cs = atoi(tok[2]); z = 3;
    }
    if (!strcmp(tok[z], "inj")) {
      if (nt < z + 6) { printf("bad-op\n"); continue; }
      o = 3;
    }
    o += z;
    if (nt < o + 3) { printf("bad-op\n"); continue; }
    unesc(tok[o + 2], buf);
    int null_compound = !strcmp(tok[o + 2], "%00NULL");
    if (o > z && (null_compound || !set_inj(tok[z + 1], tok[z + 2], buf))) { printf("bad-op\n"); continue; }
    double a[4]; int na = 0;
    for (int i = o + 3; i < nt && na < 4; i++) a[na++] = un_d(tok[i]);
    do_call(tok[o], tok[o + 1], null_compound ? NULL : buf, a, na);
    inj_on = 0; zero_fi = zero_cs = 0;
  }
  fflush(stdout);
  return 0;
}
