/* C reference driver of the C18 (C++ wrappers) and C19 (Java port) checks.
   Line protocol (tools/xapi.py):   <function> <arg>* E     ints decimal, doubles x<16 hex digits>, strings s<%-escaped>
   answer:                           ok <value>* <E|F<code>> L<live-block delta> [m<%-escaped message>]
   The live-block delta is measured around the call *after* the driver released the result object and the error
   (allocwrap.c); a sanitizer abort kills the process and the Python side records `died`.
   Built by ./check against the library objects compiled from the working tree of /repo (ASan+UBSan). */
#include "config.h"
#include <stdio.h>
#include <stdlib.h>
#include <string.h>
#include <stdint.h>
#include <math.h>
#include "xraylib.h"
#include "xrf_cross_sections_aux.h"

long xv_live(void);
void xv_fail_after(long n);

static double pd(const char *s) { uint64_t b = strtoull(s + 1, NULL, 16); double d; memcpy(&d, &b, 8); return d; }
static char *ps(char *s) {      /* s<%-escaped>, decoded in place */
  char *r = s + 1, *w = s + 1, *start = s + 1;
  while (*r) {
    if (*r == '%' && r[1] && r[2]) { char h[3] = {r[1], r[2], 0}; *w++ = (char)strtol(h, NULL, 16); r += 3; }
    else *w++ = *r++;
  }
  *w = 0;
  return start;
}
static void pr_esc(const char *s) {
  for (const unsigned char *p = (const unsigned char *)s; *p; p++) {
    if ((*p >= '0' && *p <= '9') || (*p >= 'A' && *p <= 'Z') || (*p >= 'a' && *p <= 'z') || strchr("()._-+,", *p)) putchar(*p);
    else printf("%%%02x", *p);
  }
}
static int started;
static void pr_head(void) { if (!started) { fputs("ok", stdout); started = 1; } }
static void pr_d(double d) { uint64_t b; memcpy(&b, &d, 8); pr_head(); printf(" x%016llx", (unsigned long long)b); }
static void pr_i(int v) { pr_head(); printf(" %d", v); }
static void pr_s(const char *s) { pr_head(); fputs(" s", stdout); pr_esc(s ? s : "(null)"); }

static xrl_error *e; static long live0;
#define BEGIN() do { e = NULL; started = 0; live0 = xv_live(); } while (0)
static void END(void) {
  static char msg[4096]; int code = -1;
  pr_head();
  if (e) { code = (int)e->code; snprintf(msg, sizeof msg, "%s", e->message ? e->message : "(null)"); xrl_error_free(e); e = NULL; }
  xv_fail_after(0);
  long d = xv_live() - live0;
  if (code < 0) printf(" E L%ld\n", d);
  else { printf(" F%d L%ld m", code, d); pr_esc(msg); putchar('\n'); }
}

#include "xdrv_gen.inc"

/* hidden-state poisoning: the library must not READ errno (or any other thread state the application may have left behind).
   Before every operation the driver leaves a different value there, as an application that has just overflowed a strtod, taken
   the log of a negative number or failed an allocation would; the answers must not depend on it.  (Seeded changes C02-9, C06-9,
   C07-9, C12-9, C15-10, C16-7: "errno == ERANGE" tests without clearing errno first.) */
#include <errno.h>
#include <fenv.h>
static void xv_poison_errno(void) { static unsigned k; static const int v[4] = {ERANGE, EDOM, ENOMEM, 0};
  /* likewise the floating-point exception flags an application may have raised (seeded change C05-11: fetestexcept without feclearexcept) */
  feclearexcept(FE_ALL_EXCEPT); if ((k >> 2) & 1) feraiseexcept(FE_DIVBYZERO | FE_INVALID | FE_OVERFLOW);
  errno = v[k++ & 3]; }

static void pr_cs(Crystal_Struct *c) {
  pr_s(c->name); pr_d(c->a); pr_d(c->b); pr_d(c->c); pr_d(c->alpha); pr_d(c->beta); pr_d(c->gamma); pr_d(c->volume); pr_i(c->n_atom);
  for (int i = 0; i < c->n_atom; i++) { pr_i(c->atom[i].Zatom); pr_d(c->atom[i].fraction); pr_d(c->atom[i].x); pr_d(c->atom[i].y); pr_d(c->atom[i].z); }
}
static void pr_list(char **l, int n) {
  pr_i(n);
  for (int i = 0; i < n; i++) { pr_s(l[i]); xrlFree(l[i]); }
  xrlFree(l);
}
static void pr_cdn(struct compoundDataNIST *c) {
  pr_s(c->name); pr_i(c->nElements);
  for (int i = 0; i < c->nElements; i++) pr_i(c->Elements[i]);
  for (int i = 0; i < c->nElements; i++) pr_d(c->massFractions[i]);
  pr_d(c->density);
}
static void pr_rnd(struct radioNuclideData *r) {
  pr_s(r->name); pr_i(r->Z); pr_i(r->A); pr_i(r->N); pr_i(r->Z_xray); pr_i(r->nXrays);
  for (int i = 0; i < r->nXrays; i++) pr_i(r->XrayLines[i]);
  for (int i = 0; i < r->nXrays; i++) pr_d(r->XrayIntensities[i]);
  pr_i(r->nGammas);
  for (int i = 0; i < r->nGammas; i++) pr_d(r->GammaEnergies[i]);
  for (int i = 0; i < r->nGammas; i++) pr_d(r->GammaIntensities[i]);
}
/* the C twin of xrlpp::Crystal::Struct's public constructor (xraylib++.h:247-278) */
static Crystal_Struct *cs_build(const char *name, Crystal_Struct *src) {
  Crystal_Struct *cs = (Crystal_Struct *)xrl_malloc(sizeof(Crystal_Struct));
  cs->name = xrl_strdup(name);
  cs->a = src->a; cs->b = src->b; cs->c = src->c; cs->alpha = src->alpha; cs->beta = src->beta; cs->gamma = src->gamma;
  cs->volume = src->volume; cs->n_atom = src->n_atom;
  cs->atom = (Crystal_Atom *)xrl_malloc(sizeof(Crystal_Atom) * src->n_atom);
  for (int i = 0; i < src->n_atom; i++) cs->atom[i] = src->atom[i];
  return cs;
}

/* C19 only: with XDRV_CRYSTALS=<path of data/Crystals.dat> the crystal queries are served from a user array read from
   the data file (full double precision) instead of the built-in table (which src/pr_data.c writes as float literals) */
static Crystal_Array *carr = NULL;

#define IS(nm, n) (!strcmp(tok[0], nm) && nt == (n) + 2)
static int dispatch_hand(char **tok, int nt) {
  if (IS("CompoundParser", 1)) {
    char *s = ps(tok[1]); BEGIN(); struct compoundData *cd = CompoundParser(s, &e);
    if (cd) { pr_i(cd->nElements); for (int i = 0; i < cd->nElements; i++) pr_i(cd->Elements[i]);
      for (int i = 0; i < cd->nElements; i++) pr_d(cd->massFractions[i]); pr_d(cd->nAtomsAll);
      for (int i = 0; i < cd->nElements; i++) pr_d(cd->nAtoms[i]); pr_d(cd->molarMass); FreeCompoundData(cd); }
    END(); return 1; }
  if (IS("AtomicNumberToSymbol", 1)) { int Z = atoi(tok[1]); BEGIN(); char *r = AtomicNumberToSymbol(Z, &e); if (r) { pr_s(r); xrlFree(r); } END(); return 1; }
  if (IS("GetCompoundDataNISTByName", 1)) { char *s = ps(tok[1]); BEGIN(); struct compoundDataNIST *c = GetCompoundDataNISTByName(s, &e); if (c) { pr_cdn(c); FreeCompoundDataNIST(c); } END(); return 1; }
  if (IS("GetCompoundDataNISTByIndex", 1)) { int k = atoi(tok[1]); BEGIN(); struct compoundDataNIST *c = GetCompoundDataNISTByIndex(k, &e); if (c) { pr_cdn(c); FreeCompoundDataNIST(c); } END(); return 1; }
  if (IS("GetCompoundDataNISTList", 0)) { BEGIN(); int n = 0; char **l = GetCompoundDataNISTList(&n, &e); if (l) pr_list(l, n); END(); return 1; }
  if (IS("GetRadioNuclideDataByName", 1)) { char *s = ps(tok[1]); BEGIN(); struct radioNuclideData *c = GetRadioNuclideDataByName(s, &e); if (c) { pr_rnd(c); FreeRadioNuclideData(c); } END(); return 1; }
  if (IS("GetRadioNuclideDataByIndex", 1)) { int k = atoi(tok[1]); BEGIN(); struct radioNuclideData *c = GetRadioNuclideDataByIndex(k, &e); if (c) { pr_rnd(c); FreeRadioNuclideData(c); } END(); return 1; }
  if (IS("GetRadioNuclideDataList", 0)) { BEGIN(); int n = 0; char **l = GetRadioNuclideDataList(&n, &e); if (l) pr_list(l, n); END(); return 1; }
  if (IS("Refractive_Index", 3)) { char *s = ps(tok[1]); double E = pd(tok[2]), d = pd(tok[3]); BEGIN(); xrlComplex r = Refractive_Index(s, E, d, &e); pr_d(r.re); pr_d(r.im); END(); return 1; }
  if (IS("Atomic_FactorsM", 5)) { int Z = atoi(tok[1]); double E = pd(tok[2]), q = pd(tok[3]), df = pd(tok[4]); int mk = atoi(tok[5]); double f0 = 0, fp = 0, fpp = 0;
    BEGIN(); int r = Atomic_Factors(Z, E, q, df, (mk & 1) ? &f0 : NULL, (mk & 2) ? &fp : NULL, (mk & 4) ? &fpp : NULL, &e); pr_i(r); if (r) { pr_d(f0); pr_d(fp); pr_d(fpp); } END(); return 1; }
  if (IS("Atomic_Factors", 4)) { int Z = atoi(tok[1]); double E = pd(tok[2]), q = pd(tok[3]), df = pd(tok[4]); double f0 = 0, fp = 0, fpp = 0;
    BEGIN(); int r = Atomic_Factors(Z, E, q, df, &f0, &fp, &fpp, &e); pr_i(r); if (r) { pr_d(f0); pr_d(fp); pr_d(fpp); } END(); return 1; }
  if (IS("Crystal_GetCrystalsList", 0)) { BEGIN(); int n = 0; char **l = Crystal_GetCrystalsList(carr, &n, &e); if (l) pr_list(l, n); END(); return 1; }
  if (IS("Crystal_GetCrystal", 1)) { char *s = ps(tok[1]); BEGIN(); Crystal_Struct *c = Crystal_GetCrystal(s, carr, &e); if (c) { pr_cs(c); Crystal_Free(c); } END(); return 1; }
  /* crystal queries: the crystal is named; the lookup is part of the call */
#define WITH_CS(stmt) { char *s = ps(tok[1]); BEGIN(); Crystal_Struct *c = Crystal_GetCrystal(s, carr, &e); if (c) { stmt; Crystal_Free(c); } END(); return 1; }
  if (IS("Bragg_angle", 5)) WITH_CS(pr_d(Bragg_angle(c, pd(tok[2]), atoi(tok[3]), atoi(tok[4]), atoi(tok[5]), &e)))
  if (IS("Q_scattering_amplitude", 6)) WITH_CS(pr_d(Q_scattering_amplitude(c, pd(tok[2]), atoi(tok[3]), atoi(tok[4]), atoi(tok[5]), pd(tok[6]), &e)))
  if (IS("Crystal_F_H_StructureFactor", 7)) WITH_CS(xrlComplex r = Crystal_F_H_StructureFactor(c, pd(tok[2]), atoi(tok[3]), atoi(tok[4]), atoi(tok[5]), pd(tok[6]), pd(tok[7]), &e); pr_d(r.re); pr_d(r.im))
  if (IS("Crystal_F_H_StructureFactor_Partial", 10)) WITH_CS(xrlComplex r = Crystal_F_H_StructureFactor_Partial(c, pd(tok[2]), atoi(tok[3]), atoi(tok[4]), atoi(tok[5]), pd(tok[6]), pd(tok[7]), atoi(tok[8]), atoi(tok[9]), atoi(tok[10]), &e); pr_d(r.re); pr_d(r.im))
  if (IS("Crystal_UnitCellVolume", 1)) WITH_CS(pr_d(Crystal_UnitCellVolume(c, &e)))
  if (IS("Crystal_dSpacing", 4)) WITH_CS(pr_d(Crystal_dSpacing(c, atoi(tok[2]), atoi(tok[3]), atoi(tok[4]), &e)))
  /* ---- object-lifetime scenarios of C18 (C twins of what the C++ driver does with xrlpp::Crystal::Struct) ---- */
  if (IS("StructCopy", 5)) {      /* get, copy, release the original, use the copy */
    char *s = ps(tok[1]); BEGIN(); Crystal_Struct *c = Crystal_GetCrystal(s, NULL, &e);
    if (c) { Crystal_Struct *k = Crystal_MakeCopy(c, &e); Crystal_Free(c);
      if (k) { pr_cs(k); pr_d(Crystal_UnitCellVolume(k, NULL)); pr_d(Bragg_angle(k, pd(tok[2]), atoi(tok[3]), atoi(tok[4]), atoi(tok[5]), &e)); Crystal_Free(k); } }
    END(); return 1; }
  if (IS("StructNew", 5)) {       /* build from fields under a new name, release the source, use it */
    char *s = ps(tok[1]); char *nn = ps(tok[2]); BEGIN(); Crystal_Struct *c = Crystal_GetCrystal(s, NULL, &e);
    if (c) { Crystal_Struct *k = cs_build(nn, c); Crystal_Free(c);
      pr_cs(k); pr_d(Crystal_UnitCellVolume(k, NULL)); pr_d(Crystal_dSpacing(k, atoi(tok[3]), atoi(tok[4]), atoi(tok[5]), &e)); Crystal_Free(k); }
    END(); return 1; }
  if (IS("StructAdd", 2) || IS("StructAddF", 2)) {       /* build under a new name, add to the built-in array, release (StructAddF: the C++ side uses the free function) */
    char *s = ps(tok[1]); char *nn = ps(tok[2]); BEGIN(); Crystal_Struct *c = Crystal_GetCrystal(s, NULL, &e);
    if (c) { Crystal_Struct *k = cs_build(nn, c); Crystal_Free(c); int r = Crystal_AddCrystal(k, NULL, &e); pr_i(r); Crystal_Free(k); }
    END(); return 1; }
  if (IS("ProcessError", 2)) {    /* C twin of calling xrlpp::_process_error on an error object with an arbitrary code (-1: NULL) */
    int code = atoi(tok[1]); char *m = ps(tok[2]); BEGIN();
    if (code >= 0) { e = (xrl_error *)xrl_malloc(sizeof(xrl_error)); e->code = (xrl_error_code)code; e->message = xrl_strdup(m); }
    END(); return 1; }
  if (IS("!failalloc", 0) || (!strcmp(tok[0], "!failalloc") && nt == 2)) { xv_fail_after(atol(tok[1])); printf("set\n"); return 1; }
  return 0;
}

/* ---- C19 history sessions (additive; no line of C18 starts with '@', '!mut', '!show', '!copy', '!drop' or carries a '$' argument) ----
   The C twin of what harness/java/XrlDrv.java does with the objects the Java port hands out:
     @<k> <function> <arg>* E    call an object-returning function, print the object as usual and KEEP it in slot k (the caller owns it)
     !mut <k> E                  the caller writes into every array element and every scalar field of the object in slot k
     !show <k> E                 print the object in slot k
     !copy <j> <k> E             slot j = a deep copy of slot k made by the caller (Crystal_MakeCopy for crystals)
     !drop <k> E                 release slot k with the library's release function
     <crystal function> $<k> <arg>* E    the crystal function on the object in slot k instead of a fresh lookup
   Every object the C library returns is a malloc'ed deep copy (property C15), so nothing the caller does to it can change a later answer. */
enum { K_NONE, K_CD, K_CDN, K_RND, K_CS, K_LIST, K_STR, K_VALS };
#define NSLOT 16
static struct { int kind; void *p; int n; double d[4]; int lead; int has_lead; } slot[NSLOT];
static void pr_cd(struct compoundData *cd) {
  pr_i(cd->nElements); for (int i = 0; i < cd->nElements; i++) pr_i(cd->Elements[i]);
  for (int i = 0; i < cd->nElements; i++) pr_d(cd->massFractions[i]); pr_d(cd->nAtomsAll);
  for (int i = 0; i < cd->nElements; i++) pr_d(cd->nAtoms[i]); pr_d(cd->molarMass);
}
static void slot_drop(int k) {
  switch (slot[k].kind) {
    case K_CD: FreeCompoundData((struct compoundData *)slot[k].p); break;
    case K_CDN: FreeCompoundDataNIST((struct compoundDataNIST *)slot[k].p); break;
    case K_RND: FreeRadioNuclideData((struct radioNuclideData *)slot[k].p); break;
    case K_CS: Crystal_Free((Crystal_Struct *)slot[k].p); break;
    case K_LIST: { char **l = (char **)slot[k].p; for (int i = 0; i < slot[k].n; i++) xrlFree(l[i]); xrlFree(l); break; }
    case K_STR: xrlFree(slot[k].p); break;
    default: break;
  }
  slot[k].kind = K_NONE; slot[k].p = NULL; slot[k].n = 0; slot[k].has_lead = 0;
}
static void slot_show(int k) {
  switch (slot[k].kind) {
    case K_CD: pr_cd((struct compoundData *)slot[k].p); break;
    case K_CDN: pr_cdn((struct compoundDataNIST *)slot[k].p); break;
    case K_RND: pr_rnd((struct radioNuclideData *)slot[k].p); break;
    case K_CS: pr_cs((Crystal_Struct *)slot[k].p); break;
    case K_LIST: { char **l = (char **)slot[k].p; pr_i(slot[k].n); for (int i = 0; i < slot[k].n; i++) pr_s(l[i]); break; }
    case K_STR: pr_s((char *)slot[k].p); break;
    case K_VALS: if (slot[k].has_lead) pr_i(slot[k].lead); for (int i = 0; i < slot[k].n; i++) pr_d(slot[k].d[i]); break;
    default: break;
  }
}
static void mut_str(char *s) { for (; s && *s; s++) *s = '#'; }
static int slot_mut(int k) {
  int w = 0;
#define MI(x) do { (x) = -(7770 + w); w++; } while (0)
#define MD(x) do { (x) = -(1234.5 + w); w++; } while (0)
  switch (slot[k].kind) {
    case K_CD: { struct compoundData *c = (struct compoundData *)slot[k].p;
      for (int i = 0; i < c->nElements; i++) { MI(c->Elements[i]); MD(c->massFractions[i]); MD(c->nAtoms[i]); } MD(c->nAtomsAll); MD(c->molarMass); break; }
    case K_CDN: { struct compoundDataNIST *c = (struct compoundDataNIST *)slot[k].p;
      for (int i = 0; i < c->nElements; i++) { MI(c->Elements[i]); MD(c->massFractions[i]); } MD(c->density); mut_str(c->name); w++; break; }
    case K_RND: { struct radioNuclideData *r = (struct radioNuclideData *)slot[k].p;
      for (int i = 0; i < r->nXrays; i++) { MI(r->XrayLines[i]); MD(r->XrayIntensities[i]); }
      for (int i = 0; i < r->nGammas; i++) { MD(r->GammaEnergies[i]); MD(r->GammaIntensities[i]); }
      MI(r->Z); MI(r->A); MI(r->N); MI(r->Z_xray); mut_str(r->name); w++; break; }
    case K_CS: { Crystal_Struct *c = (Crystal_Struct *)slot[k].p;
      for (int i = 0; i < c->n_atom; i++) { MI(c->atom[i].Zatom); MD(c->atom[i].fraction); MD(c->atom[i].x); MD(c->atom[i].y); MD(c->atom[i].z); }
      MD(c->a); MD(c->b); MD(c->c); MD(c->alpha); MD(c->beta); MD(c->gamma); MD(c->volume); mut_str(c->name); w++; break; }
    case K_LIST: { char **l = (char **)slot[k].p; for (int i = 0; i < slot[k].n; i++) { mut_str(l[i]); w++; } break; }
    case K_STR: mut_str((char *)slot[k].p); w++; break;
    case K_VALS: for (int i = 0; i < slot[k].n; i++) MD(slot[k].d[i]); break;
    default: break;
  }
  return w;
}
static void *dupmem(const void *p, size_t n) { void *q = xrl_malloc(n ? n : 1); if (n) memcpy(q, p, n); return q; }
static int slot_copy(int j, int k) {
  if (j == k) return 0;
  slot_drop(j);
  slot[j] = slot[k];
  switch (slot[k].kind) {
    case K_CD: { struct compoundData *s = (struct compoundData *)slot[k].p, *c = (struct compoundData *)dupmem(s, sizeof *s);
      c->Elements = (int *)dupmem(s->Elements, sizeof(int) * s->nElements); c->massFractions = (double *)dupmem(s->massFractions, sizeof(double) * s->nElements);
      c->nAtoms = (double *)dupmem(s->nAtoms, sizeof(double) * s->nElements); slot[j].p = c; break; }
    case K_CDN: { struct compoundDataNIST *s = (struct compoundDataNIST *)slot[k].p, *c = (struct compoundDataNIST *)dupmem(s, sizeof *s);
      c->name = xrl_strdup(s->name); c->Elements = (int *)dupmem(s->Elements, sizeof(int) * s->nElements);
      c->massFractions = (double *)dupmem(s->massFractions, sizeof(double) * s->nElements); slot[j].p = c; break; }
    case K_RND: { struct radioNuclideData *s = (struct radioNuclideData *)slot[k].p, *c = (struct radioNuclideData *)dupmem(s, sizeof *s);
      c->name = xrl_strdup(s->name); c->XrayLines = (int *)dupmem(s->XrayLines, sizeof(int) * s->nXrays); c->XrayIntensities = (double *)dupmem(s->XrayIntensities, sizeof(double) * s->nXrays);
      c->GammaEnergies = (double *)dupmem(s->GammaEnergies, sizeof(double) * s->nGammas); c->GammaIntensities = (double *)dupmem(s->GammaIntensities, sizeof(double) * s->nGammas);
      slot[j].p = c; break; }
    case K_CS: slot[j].p = Crystal_MakeCopy((Crystal_Struct *)slot[k].p, NULL); if (!slot[j].p) { slot[j].kind = K_NONE; return 0; } break;
    case K_LIST: { char **s = (char **)slot[k].p, **l = (char **)xrl_malloc(sizeof(char *) * (slot[k].n ? slot[k].n : 1));
      for (int i = 0; i < slot[k].n; i++) l[i] = xrl_strdup(s[i]); slot[j].p = l; break; }
    case K_STR: slot[j].p = xrl_strdup((char *)slot[k].p); break;
    default: break;
  }
  return 1;
}
static int slot_no(const char *s) { int k = atoi(s); return (k >= 0 && k < NSLOT) ? k : -1; }
static void keep(int k, int kind, void *p, int n) { slot_drop(k); slot[k].kind = kind; slot[k].p = p; slot[k].n = n; }
static void keep_vals(int k, int has_lead, int lead, int n, const double *d) {
  slot_drop(k); slot[k].kind = K_VALS; slot[k].n = n; slot[k].lead = lead; slot[k].has_lead = has_lead; for (int i = 0; i < n; i++) slot[k].d[i] = d[i];
}
static int dispatch_hist(char **tok, int nt) {
  if (nt < 2) return 0;
  if (tok[0][0] == '@') {              /* @<k> <function> <arg>* E */
    int k = slot_no(tok[0] + 1); if (k < 0) return 0;
    tok++; nt--;
    if (IS("CompoundParser", 1)) { char *s = ps(tok[1]); BEGIN(); struct compoundData *c = CompoundParser(s, &e); if (c) { pr_cd(c); keep(k, K_CD, c, 0); } END(); return 1; }
    if (IS("AtomicNumberToSymbol", 1)) { int Z = atoi(tok[1]); BEGIN(); char *r = AtomicNumberToSymbol(Z, &e); if (r) { pr_s(r); keep(k, K_STR, r, 0); } END(); return 1; }
    if (IS("GetCompoundDataNISTByName", 1)) { char *s = ps(tok[1]); BEGIN(); struct compoundDataNIST *c = GetCompoundDataNISTByName(s, &e); if (c) { pr_cdn(c); keep(k, K_CDN, c, 0); } END(); return 1; }
    if (IS("GetCompoundDataNISTByIndex", 1)) { int i = atoi(tok[1]); BEGIN(); struct compoundDataNIST *c = GetCompoundDataNISTByIndex(i, &e); if (c) { pr_cdn(c); keep(k, K_CDN, c, 0); } END(); return 1; }
    if (IS("GetRadioNuclideDataByName", 1)) { char *s = ps(tok[1]); BEGIN(); struct radioNuclideData *c = GetRadioNuclideDataByName(s, &e); if (c) { pr_rnd(c); keep(k, K_RND, c, 0); } END(); return 1; }
    if (IS("GetRadioNuclideDataByIndex", 1)) { int i = atoi(tok[1]); BEGIN(); struct radioNuclideData *c = GetRadioNuclideDataByIndex(i, &e); if (c) { pr_rnd(c); keep(k, K_RND, c, 0); } END(); return 1; }
    if (IS("GetCompoundDataNISTList", 0) || IS("GetRadioNuclideDataList", 0) || IS("Crystal_GetCrystalsList", 0)) {
      BEGIN(); int n = 0; char **l = tok[0][3] == 'C' ? GetCompoundDataNISTList(&n, &e) : tok[0][3] == 'R' ? GetRadioNuclideDataList(&n, &e) : Crystal_GetCrystalsList(carr, &n, &e);
      if (l) { keep(k, K_LIST, l, n); slot_show(k); } END(); return 1; }
    if (IS("Crystal_GetCrystal", 1)) { char *s = ps(tok[1]); BEGIN(); Crystal_Struct *c = Crystal_GetCrystal(s, carr, &e); if (c) { pr_cs(c); keep(k, K_CS, c, 0); } END(); return 1; }
    if (IS("Refractive_Index", 3)) { char *s = ps(tok[1]); double E = pd(tok[2]), d = pd(tok[3]); BEGIN(); xrlComplex r = Refractive_Index(s, E, d, &e); pr_d(r.re); pr_d(r.im);
      if (!e) { double v[2] = {r.re, r.im}; keep_vals(k, 0, 0, 2, v); } END(); return 1; }
    if (IS("Atomic_Factors", 4)) { int Z = atoi(tok[1]); double E = pd(tok[2]), q = pd(tok[3]), df = pd(tok[4]); double v[3] = {0, 0, 0};
      BEGIN(); int r = Atomic_Factors(Z, E, q, df, &v[0], &v[1], &v[2], &e); pr_i(r); if (r) { pr_d(v[0]); pr_d(v[1]); pr_d(v[2]); keep_vals(k, 1, r, 3, v); } END(); return 1; }
    if (IS("Crystal_F_H_StructureFactor", 7) || IS("Crystal_F_H_StructureFactor_Partial", 10)) {
      char *s = ps(tok[1]); BEGIN(); Crystal_Struct *c = Crystal_GetCrystal(s, carr, &e);
      if (c) { xrlComplex r = nt == 9 ? Crystal_F_H_StructureFactor(c, pd(tok[2]), atoi(tok[3]), atoi(tok[4]), atoi(tok[5]), pd(tok[6]), pd(tok[7]), &e)
                                     : Crystal_F_H_StructureFactor_Partial(c, pd(tok[2]), atoi(tok[3]), atoi(tok[4]), atoi(tok[5]), pd(tok[6]), pd(tok[7]), atoi(tok[8]), atoi(tok[9]), atoi(tok[10]), &e);
        pr_d(r.re); pr_d(r.im); if (!e) { double v[2] = {r.re, r.im}; keep_vals(k, 0, 0, 2, v); } Crystal_Free(c); }
      END(); return 1; }
    return 0;
  }
  if (!strcmp(tok[0], "!mut") && nt == 3) { int k = slot_no(tok[1]); if (k < 0) return 0; BEGIN(); pr_i(slot_mut(k)); END(); return 1; }
  if (!strcmp(tok[0], "!show") && nt == 3) { int k = slot_no(tok[1]); if (k < 0 || slot[k].kind == K_NONE) return 0; BEGIN(); slot_show(k); END(); return 1; }
  if (!strcmp(tok[0], "!drop") && nt == 3) { int k = slot_no(tok[1]); if (k < 0) return 0; BEGIN(); slot_drop(k); pr_i(0); END(); return 1; }
  if (!strcmp(tok[0], "!copy") && nt == 4) { int j = slot_no(tok[1]), k = slot_no(tok[2]); if (j < 0 || k < 0) return 0; BEGIN(); pr_i(slot_copy(j, k)); END(); return 1; }
  if (tok[1][0] == '$') {              /* crystal function on a kept object */
    int k = slot_no(tok[1] + 1); if (k < 0 || slot[k].kind != K_CS) return 0;
    Crystal_Struct *c = (Crystal_Struct *)slot[k].p;
    if (IS("Bragg_angle", 5)) { BEGIN(); pr_d(Bragg_angle(c, pd(tok[2]), atoi(tok[3]), atoi(tok[4]), atoi(tok[5]), &e)); END(); return 1; }
    if (IS("Q_scattering_amplitude", 6)) { BEGIN(); pr_d(Q_scattering_amplitude(c, pd(tok[2]), atoi(tok[3]), atoi(tok[4]), atoi(tok[5]), pd(tok[6]), &e)); END(); return 1; }
    if (IS("Crystal_F_H_StructureFactor", 7)) { BEGIN(); xrlComplex r = Crystal_F_H_StructureFactor(c, pd(tok[2]), atoi(tok[3]), atoi(tok[4]), atoi(tok[5]), pd(tok[6]), pd(tok[7]), &e); pr_d(r.re); pr_d(r.im); END(); return 1; }
    if (IS("Crystal_F_H_StructureFactor_Partial", 10)) { BEGIN(); xrlComplex r = Crystal_F_H_StructureFactor_Partial(c, pd(tok[2]), atoi(tok[3]), atoi(tok[4]), atoi(tok[5]), pd(tok[6]), pd(tok[7]), atoi(tok[8]), atoi(tok[9]), atoi(tok[10]), &e); pr_d(r.re); pr_d(r.im); END(); return 1; }
    if (IS("Crystal_UnitCellVolume", 1)) { BEGIN(); pr_d(Crystal_UnitCellVolume(c, &e)); END(); return 1; }
    if (IS("Crystal_dSpacing", 4)) { BEGIN(); pr_d(Crystal_dSpacing(c, atoi(tok[2]), atoi(tok[3]), atoi(tok[4]), &e)); END(); return 1; }
    return 0;
  }
  return 0;
}

int main(void) {
  static char line[1 << 16];
  char *tok[64];
  setvbuf(stdout, NULL, _IOFBF, 1 << 16);
  if (getenv("XDRV_CRYSTALS")) {
    xrl_error *ie = NULL;
    carr = Crystal_ArrayInit(128, &ie);
    if (!carr || !Crystal_ReadFile(getenv("XDRV_CRYSTALS"), carr, &ie)) { printf("cannot read crystals: %s\n", ie ? ie->message : "?"); return 2; }
  }
  printf("ready\n"); fflush(stdout);
  while (fgets(line, sizeof line, stdin)) {
    xv_poison_errno();
    int nt = 0;
    for (char *p = strtok(line, " \n"); p && nt < 64; p = strtok(NULL, " \n")) tok[nt++] = p;
    if (nt == 0) continue;
    if (!dispatch_hist(tok, nt) && !dispatch_gen(tok, nt) && !dispatch_hand(tok, nt)) printf("bad-op\n");
    fflush(stdout);
  }
  return 0;
}
