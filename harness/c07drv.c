/* C07 correspondence driver for the real formula parser (src/xraylib-parser.c).

   Built by ./check C07 against the library objects compiled from the working tree (ASan+UBSan) and linked with
   -Wl,--wrap=malloc,--wrap=calloc,--wrap=realloc,--wrap=free,--wrap=strdup,--wrap=strndup,--wrap=vasprintf,--wrap=strtod
   so that every block the library allocates or releases passes the counter below (the counter is an observer
   of the correspondence run only; see DESIGN 2.5/6), and every `strtod` the parser calls passes the locale observer:
   it records the LC_NUMERIC locale in force at the call (audit clause 19: the switch to "C" before the conversions).

   Line protocol (one op per line, strings %-escaped: every byte outside [A-Za-z0-9.()] is written %XX;
   the empty string is written `%`):
     tables                         -> MendelArray, MendelArraySorted, AtomicWeight_arr of the linked library
     parse <locale> <string>        -> CompoundParser under LC_NUMERIC=<locale>
     null                           -> CompoundParser(NULL)
     add <wA> <wB> <cdA> <cdB>      -> add_compound_data; cd = nAll;molar;Z:n:f,Z:n:f,...   (decimal text)
     z2s <Z>                        -> AtomicNumberToSymbol
     s2z <string>                   -> SymbolToAtomicNumber
     s2znull                        -> SymbolToAtomicNumber(NULL)
   Answers:
     ok n=<k> Z:<nAtoms>:<frac> ... all=<nAtomsAll> mm=<molarMass> live=<after call>,<after free> loc=<before>,<after> conv=<k>
     err <code> <message %-escaped> live=<after call>,<after call> loc=<before>,<after> conv=<k>
   conv = number of strtod calls made by CompoundParser; followed by ` convloc=<name>` when one of them was made while
   LC_NUMERIC was not "C"/"POSIX" (the first such name), by ` lcall=1` when setlocale(LC_ALL, NULL) changed across the call.
   doubles are printed as x<16 hex digits>. */
#include "config.h"
#include <stdio.h>
#include <stdlib.h>
#include <string.h>
#include <stdint.h>
#include <stdarg.h>
#include <locale.h>
#include "xraylib.h"
#include "xrayglob.h"

/* hidden-state poisoning: the library must not READ errno (or any other thread state the application may have left behind).
   Before every operation the driver leaves a different value there, as an application that has just overflowed a strtod, taken
   the log of a negative number or failed an allocation would; the answers must not depend on it.  (Seeded changes C02-9, C06-9,
   C07-9, C12-9, C15-10, C16-7: "errno == ERANGE" tests without clearing errno first.) */
#include <errno.h>
#include <fenv.h>
static void xv_poison_errno(void) { static unsigned k; static const int v[4] = {ERANGE, EDOM, ENOMEM, 0};
  /* likewise the floating-point exception flags an application may have raised (seeded change C05-11: fetestexcept without feclearexcept) */
  feclearexcept(FE_ALL_EXCEPT); if ((k >> 2) & 1) feraiseexcept(FE_DIVBYZERO | FE_INVALID | FE_OVERFLOW);
  errno = v[k++ & 3]; }

/* ---------------- allocation counter ------------------------------------------------------- */
static long live_blocks = 0;
void *__real_malloc(size_t); void *__real_calloc(size_t, size_t); void *__real_realloc(void *, size_t);
void __real_free(void *); char *__real_strdup(const char *); char *__real_strndup(const char *, size_t);
int __real_vasprintf(char **, const char *, va_list);
void *__wrap_malloc(size_t n) { void *p = __real_malloc(n); if (p) live_blocks++; return p; }
void *__wrap_calloc(size_t a, size_t b) { void *p = __real_calloc(a, b); if (p) live_blocks++; return p; }
void *__wrap_realloc(void *q, size_t n) { void *p = __real_realloc(q, n); if (!q && p) live_blocks++; return p; }
void __wrap_free(void *p) { if (p) live_blocks--; __real_free(p); }
char *__wrap_strdup(const char *s) { char *p = __real_strdup(s); if (p) live_blocks++; return p; }
char *__wrap_strndup(const char *s, size_t n) { char *p = __real_strndup(s, n); if (p) live_blocks++; return p; }
int __wrap_vasprintf(char **out, const char *fmt, va_list ap) { int r = __real_vasprintf(out, fmt, ap); if (r >= 0 && *out) live_blocks++; return r; }

/* ---------------- strtod observer ---------------------------------------------------------- */
double __real_strtod(const char *, char **);
static int conv_watch = 0;          /* 1 while CompoundParser runs */
static long conv_calls = -1;        /* strtod calls seen during the watched call (-1: no watched call: ops other than parse) */
static char conv_badloc[64] = "";   /* LC_NUMERIC at the first watched strtod call made outside the "C" locale */
double __wrap_strtod(const char *s, char **end) {
  if (conv_watch) {
    const char *l = setlocale(LC_NUMERIC, NULL);
    conv_calls++;
    if (l && strcmp(l, "C") != 0 && strcmp(l, "POSIX") != 0 && !conv_badloc[0]) { strncpy(conv_badloc, l, sizeof conv_badloc - 1); }
  }
  return __real_strtod(s, end);
}

/* ---------------- helpers ------------------------------------------------------------------ */
static void pr_d(double d) { uint64_t b; memcpy(&b, &d, 8); printf("x%016llx", (unsigned long long)b); }
static int plain(unsigned char c) {
  return (c >= 'A' && c <= 'Z') || (c >= 'a' && c <= 'z') || (c >= '0' && c <= '9') || c == '.' || c == '(' || c == ')';
}
static void pr_esc(const char *s) {
  if (!s) { printf("%%00NULL"); return; }
  if (!*s) { printf("%%"); return; }
  for (; *s; s++) { unsigned char c = (unsigned char)*s; if (plain(c)) putchar(c); else printf("%%%02X", c); }
}
static int hexv(int c) { return c <= '9' ? c - '0' : (c | 32) - 'a' + 10; }
static char *unesc(const char *s, char *out) {      /* in-place safe: out may equal a separate buffer */
  char *o = out;
  if (s[0] == '%' && s[1] == 0) { *o = 0; return out; }
  while (*s) {
    if (*s == '%' && s[1] && s[2]) { *o++ = (char)(hexv((unsigned char)s[1]) * 16 + hexv((unsigned char)s[2])); s += 3; }
    else *o++ = *s++;
  }
  *o = 0; return out;
}
static int lcall_changed = 0;
static void pr_tail(long l1, long l2, const char *loc0) {
  const char *loc1 = setlocale(LC_NUMERIC, NULL);
  printf(" live=%ld,%ld loc=", l1, l2); pr_esc(loc0); putchar(','); pr_esc(loc1);
  if (conv_calls >= 0) printf(" conv=%ld", conv_calls);
  if (conv_badloc[0]) { printf(" convloc="); pr_esc(conv_badloc); }
  if (lcall_changed) printf(" lcall=1");      /* setlocale(LC_ALL, NULL) differs from before the call */
  putchar('\n'); lcall_changed = 0; conv_calls = -1; conv_badloc[0] = 0;
}
static void pr_cd(struct compoundData *cd) {
  printf("ok n=%d", cd->nElements);
  for (int i = 0; i < cd->nElements; i++) {
    printf(" %d:", cd->Elements[i]); pr_d(cd->nAtoms[i]); putchar(':'); pr_d(cd->massFractions[i]);
  }
  printf(" all="); pr_d(cd->nAtomsAll); printf(" mm="); pr_d(cd->molarMass);
}
static void pr_err(xrl_error **e) {
  if (*e) { printf("err %d ", (int)(*e)->code); pr_esc((*e)->message); xrl_clear_error(e); }
  else printf("err none %%");
}

static void do_parse(const char *locname, const char *str) {
  static char loc0[256];
  xrl_error *e = NULL;
  /* the whole process locale is `locname` (all categories), so that a parser that touches a category other than LC_NUMERIC is seen */
  if (!setlocale(LC_ALL, locname) || !setlocale(LC_NUMERIC, locname)) { printf("bad-locale\n"); return; }
  strncpy(loc0, setlocale(LC_NUMERIC, NULL), sizeof loc0 - 1);
  static char all0[512]; strncpy(all0, setlocale(LC_ALL, NULL), sizeof all0 - 1);
  long base = live_blocks;
  conv_calls = 0; conv_badloc[0] = 0; conv_watch = 1;
  struct compoundData *cd = CompoundParser(str, &e);
  conv_watch = 0;
  lcall_changed = strcmp(all0, setlocale(LC_ALL, NULL)) != 0;
  if (cd) {
    pr_cd(cd);
    if (e) { printf(" SPURIOUS-ERROR"); xrl_clear_error(&e); }
    long l1 = live_blocks - base;
    FreeCompoundData(cd);
    pr_tail(l1, live_blocks - base, loc0);
  } else {
    pr_err(&e);
    pr_tail(live_blocks - base, live_blocks - base, loc0);
  }
}

/* cd = nAll;molar;Z:n:f,Z:n:f,...  */
static int rd_cd(char *s, struct compoundData *cd) {
  char *p = s, *q;
  cd->nAtomsAll = strtod(p, &q); if (*q != ';') return 0; p = q + 1;
  cd->molarMass = strtod(p, &q); if (*q != ';') return 0; p = q + 1;
  int n = 0; for (char *t = p; *t; t++) if (*t == ':') n++;
  n /= 2;
  cd->nElements = n;
  cd->Elements = __real_malloc(sizeof(int) * (n + 1)); cd->nAtoms = __real_malloc(sizeof(double) * (n + 1));
  cd->massFractions = __real_malloc(sizeof(double) * (n + 1));
  for (int i = 0; i < n; i++) {
    cd->Elements[i] = (int)strtol(p, &q, 10); if (*q != ':') return 0; p = q + 1;
    cd->nAtoms[i] = strtod(p, &q); if (*q != ':') return 0; p = q + 1;
    cd->massFractions[i] = strtod(p, &q); if (*q != ',' && *q != 0) return 0; p = *q ? q + 1 : q;
  }
  return 1;
}
static void free_cd_in(struct compoundData *cd) { __real_free(cd->Elements); __real_free(cd->nAtoms); __real_free(cd->massFractions); }

static void do_add(char *wa, char *wb, char *a, char *b) {
  struct compoundData A, B;
  static char loc0[256];
  setlocale(LC_NUMERIC, "C");   /* ops without a locale argument run in the C locale, whatever an earlier parse op left */
  if (!rd_cd(a, &A) || !rd_cd(b, &B)) { printf("bad-op\n"); return; }
  double wA = strtod(wa, NULL), wB = strtod(wb, NULL);
  strncpy(loc0, setlocale(LC_NUMERIC, NULL), sizeof loc0 - 1);
  long base = live_blocks;
  struct compoundData *cd = add_compound_data(A, wA, B, wB);
  if (!cd) { printf("err none %%"); pr_tail(live_blocks - base, live_blocks - base, loc0); }
  else {
    pr_cd(cd);
    long l1 = live_blocks - base;
    FreeCompoundData(cd);
    pr_tail(l1, live_blocks - base, loc0);
  }
  free_cd_in(&A); free_cd_in(&B);
}

int main(void) {
  static char line[1 << 16], buf[1 << 16];
  char *tok[8];
  setvbuf(stdout, NULL, _IOFBF, 1 << 16);
  while (fgets(line, sizeof line, stdin)) {
    xv_poison_errno();
    int nt = 0;
    for (char *p = strtok(line, " \n"); p && nt < 8; p = strtok(NULL, " \n")) tok[nt++] = p;
    if (nt == 0) continue;
    if (!strcmp(tok[0], "tables")) {
      printf("mendel %d", MENDEL_MAX);
      for (int i = 0; i < MENDEL_MAX; i++) { printf(" %d:", MendelArray[i].Zatom); pr_esc(MendelArray[i].name); }
      printf("\nsorted %d", MENDEL_MAX);
      for (int i = 0; i < MENDEL_MAX; i++) { printf(" %d:", MendelArraySorted[i].Zatom); pr_esc(MendelArraySorted[i].name); }
      printf("\nweights %d", ZMAX + 1);
      for (int i = 0; i <= ZMAX; i++) { putchar(' '); pr_d(AtomicWeight_arr[i]); }
      printf("\n");
    }
    else if (!strcmp(tok[0], "parse") && nt == 3) { char l[256]; unesc(tok[1], l); do_parse(l, unesc(tok[2], buf)); }
    else if (!strcmp(tok[0], "null") && nt == 1) {
      xrl_error *e = NULL; static char loc0[256];
      setlocale(LC_NUMERIC, "C");
      strncpy(loc0, setlocale(LC_NUMERIC, NULL), sizeof loc0 - 1);
      long base = live_blocks;
      struct compoundData *cd = CompoundParser(NULL, &e);
      if (cd) printf("ok n=-1"); else pr_err(&e);
      pr_tail(live_blocks - base, live_blocks - base, loc0);
    }
    else if (!strcmp(tok[0], "add") && nt == 5) do_add(tok[1], tok[2], tok[3], tok[4]);
    else if (!strcmp(tok[0], "z2s") && nt == 2) {
      xrl_error *e = NULL; long base = live_blocks;
      char *s = AtomicNumberToSymbol(atoi(tok[1]), &e);
      if (s) { printf("ok "); pr_esc(s); if (e) { printf(" SPURIOUS-ERROR"); xrl_clear_error(&e); } long l1 = live_blocks - base; xrlFree(s); printf(" live=%ld,%ld\n", l1, live_blocks - base); }
      else { pr_err(&e); printf(" live=%ld,%ld\n", live_blocks - base, live_blocks - base); }
    }
    else if (!strcmp(tok[0], "s2z") && nt == 2) {
      xrl_error *e = NULL; long base = live_blocks;
      int z = SymbolToAtomicNumber(unesc(tok[1], buf), &e);
      if (z) { printf("ok %d", z); if (e) { printf(" SPURIOUS-ERROR"); xrl_clear_error(&e); } }
      else pr_err(&e);
      printf(" live=%ld,%ld\n", live_blocks - base, live_blocks - base);
    }
    else if (!strcmp(tok[0], "s2znull") && nt == 1) {
      xrl_error *e = NULL; long base = live_blocks;
      int z = SymbolToAtomicNumber(NULL, &e);
      if (z) printf("ok %d", z); else pr_err(&e);
      printf(" live=%ld,%ld\n", live_blocks - base, live_blocks - base);
    }
    else printf("bad-op\n");
  }
  fflush(stdout);
  return 0;
}
