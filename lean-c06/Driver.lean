import XrlC06.Core.Basic
import XrlC06.Hand.CP
/-!
# `c06-model`: the hand model of the `_CP` / refractive-index functions in the `Float` reading, behind a line protocol

request (one per line):   `<kind> <slot> <E> <density> P=<…> N=<…> V=<…>`
  kind    : `cp` | `re` | `im` | `cx` | `cx2`
  slot    : `E` (address of an empty slot) | `N` (NULL)
  E, density : doubles as `x<16 hex digits>` (ignored by `cp`: the elemental values already carry the arguments)
  P       : `-` (CompoundParser returned NULL) | `<blocks>;Z:w,Z:w,…`
  N       : `-` (GetCompoundDataNISTByName returned NULL) | `<blocks>;<density>;Z:w,…`
  V       : `-` | `Z:<o>,…` with `<o>` = `x<bits>` (success) or `e<code>:<message>` (failure); for the refractive kinds
            `Z:<Fi>/<AtomicWeight>/<CS_Total>`
answer: `ok <value>[ <value2>] <slot> live=<final − initial live blocks>`  |  `abort <why>`  |  `bad-request`
Messages are %-escaped tokens; those of the elemental functions are passed through as they are.
-/
open XrlC06 XrlC06.CP

def hexVal (c : Char) : Nat :=
  if c.isDigit then c.toNat - '0'.toNat
  else if 'a' ≤ c ∧ c ≤ 'f' then c.toNat - 'a'.toNat + 10
  else if 'A' ≤ c ∧ c ≤ 'F' then c.toNat - 'A'.toNat + 10 else 0

def pF (s : String) : Float :=
  Float.ofBits (UInt64.ofNat ((s.drop 1).toString.foldl (fun acc c => acc * 16 + hexVal c) 0))

def hexDigit (n : Nat) : Char := if n < 10 then Char.ofNat (48 + n) else Char.ofNat (87 + n)

def fmtF (x : Float) : String :=
  let b := x.toBits.toNat
  "x" ++ String.ofList ((List.range 16).map (fun i => hexDigit ((b >>> (4 * (15 - i))) % 16)))

def upHex (n : Nat) : Char := if n < 10 then Char.ofNat (48 + n) else Char.ofNat (55 + n)

/-- the %-escape of the harness: bytes outside `[A-Za-z0-9.()_-]` as `%XX` (the model's own messages are ASCII) -/
def esc (s : String) : String :=
  if s.isEmpty then "%" else
  s.foldl (fun acc c =>
    if c.isAlphanum || c == '.' || c == '(' || c == ')' || c == '_' || c == '-' then acc.push c
    else (acc.push '%').push (upHex (c.toNat / 16 % 16)) |>.push (upHex (c.toNat % 16))) ""

/-- a slot as the harness prints it; messages stored by the model itself are escaped here, those passed through from the
elemental functions already are (they are marked by a leading `\x01`, removed here) -/
def fmtSlot : Slot → String
  | .null => "N"
  | .empty => "E"
  | .full e =>
    "F" ++ toString e.code ++ ":" ++ (if e.msg.startsWith "\x01" then (e.msg.drop 1).toString else esc e.msg)

def fmtAbort : Abort → String
  | .ub w => "abort ub " ++ w
  | .nf w => "abort nf " ++ w
  | .overwrite => "abort overwrite"

/-- `Z:w,Z:w,…` -/
def pEls (s : String) : Option (Els Float) :=
  if s.isEmpty then some [] else
  (s.splitOn ",").mapM fun it =>
    match it.splitOn ":" with
    | [z, w] => z.toInt?.map fun Z => (Z, pF w)
    | _ => none

def pParsed (s : String) : Option (Option (Parsed Float)) :=
  if s == "-" then some none else
  match s.splitOn ";" with
  | [b, els] => do let e ← pEls els; let n ← b.toNat?; pure (some ⟨e, n⟩)
  | _ => none

def pNist (s : String) : Option (Option (Nist Float)) :=
  if s == "-" then some none else
  match s.splitOn ";" with
  | [b, rho, els] => do let e ← pEls els; let n ← b.toNat?; pure (some ⟨e, pF rho, n⟩)
  | _ => none

inductive Out where
  | val (x : Float)
  | err (code : Nat) (msg : String)

def pOut (s : String) : Option Out :=
  if s.startsWith "x" then some (.val (pF s))
  else if s.startsWith "e" then
    match (s.drop 1).toString.splitOn ":" with
    | [c, m] => c.toNat?.map fun code => .err code ("\x01" ++ m)
    | _ => none
  else none

/-- `Z:o[/o/o],…` → per element the list of outcomes -/
def pVals (s : String) : Option (List (Int × List Out)) :=
  if s == "-" then some [] else
  (s.splitOn ",").mapM fun it =>
    match it.splitOn ":" with
    | z :: rest => do
      let Z ← z.toInt?
      let os ← ((":".intercalate rest).splitOn "/").mapM pOut
      pure (Z, os)
    | _ => none

/-- the elemental function the harness observed, as the model's parameter: success leaves the slot alone, failure stores
the observed error through the slot and returns 0 -/
def elemental (tab : List (Int × List Out)) (k : Nat) (Z : Int) (s : Slot) : M (Float × Slot) :=
  match (tab.lookup Z).bind (·[k]?) with
  | some (.val x) => pure (x, s)
  | some (.err c m) => do let s ← setErr s c m; pure (0.0, s)
  | none => throw (.ub ("no observed outcome for Z=" ++ toString Z))

def BASE : Nat := 1000000

def fmtLive (n : Nat) : String := " live=" ++ toString ((n : Int) - (BASE : Int))

def answer1 (r : M ((Float × Slot) × Nat)) : String :=
  match r with
  | .ok ((v, s), l) => "ok " ++ fmtF v ++ " " ++ fmtSlot s ++ fmtLive l
  | .error e => fmtAbort e

def answer2 (r : M (((Float × Float) × Slot) × Nat)) : String :=
  match r with
  | .ok (((a, b), s), l) => "ok " ++ fmtF a ++ " " ++ fmtF b ++ " " ++ fmtSlot s ++ fmtLive l
  | .error e => fmtAbort e

def handle (fixed rfixed : Bool) (t : Array String) : Option String := do
  if t.size != 7 then none
  let kind := t[0]!
  let slot := if t[1]! == "N" then Slot.null else Slot.empty
  let E := pF t[2]!
  let density := pF t[3]!
  if !(t[4]!.startsWith "P=" && t[5]!.startsWith "N=" && t[6]!.startsWith "V=") then none
  let parse ← pParsed (t[4]!.drop 2).toString
  let nist ← pNist (t[5]!.drop 2).toString
  let vals ← pVals (t[6]!.drop 2).toString
  match kind with
  | "cp" => some (answer1 ((if fixed then cpFixed else cp) parse nist (elemental vals 0) slot BASE))
  | "re" => some (answer1 ((if rfixed then refrReFixed else refrRe) parse nist (elemental vals 0) (elemental vals 1) E density slot BASE))
  | "im" => some (answer1 ((if rfixed then refrImFixed else refrIm) parse nist (elemental vals 2) E density slot BASE))
  | "cx" => some (answer2 ((if rfixed then refrFixed else refr) parse nist (elemental vals 0) (elemental vals 1) (elemental vals 2) E density slot BASE))
  | "cx2" => some (answer2 ((if rfixed then refr2Fixed else refr2) parse nist (elemental vals 0) (elemental vals 1) (elemental vals 2) E density slot BASE))
  | _ => none

partial def loop (fixed rfixed : Bool) (h : IO.FS.Stream) (out : IO.FS.Stream) : IO Unit := do
  let line ← h.getLine
  if line.isEmpty then return ()
  let t := ((line.trimAscii.toString.splitOn " ").filter (· ≠ "")).toArray
  if t.size = 0 then loop fixed rfixed h out else
  match handle fixed rfixed t with
  | some s => out.putStrLn s
  | none => out.putStrLn "bad-request"
  loop fixed rfixed h out

/-- `c06-model [fixed] [rfixed]`: `fixed` selects the `_CP` body after the repair C06-1, `rfixed` the refractive-index bodies after the proposed
repair C06-7 (the check passes each switch when the AST shows that body) -/
def main (argv : List String) : IO UInt32 := do
  let out ← IO.getStdout
  loop (argv.contains "fixed") (argv.contains "rfixed") (← IO.getStdin) out
  out.flush
  return 0
