#!/bin/sh
# Prebuild of the C06 Lean project (run once after a fresh restore, offline): re-extracts the shape table of src/cs_cp.c and
# src/refractive_indices.c from the clang AST of /repo (VERIF_REPO honoured) into XrlC06/Gen/Table.lean (git-ignored, rewritten
# by every ./check C06), then builds the model, the lemmas, the property theorems (pays the cold Mathlib import once; leaves
# lean-c06/.lake populated) and the compiled model driver `c06-model`.  Nothing of /repo is compiled permanently: ./check C06
# rebuilds the C side from the working tree in a scratch directory on every run.
set -e
cd "$(dirname "$0")"
B=$(mktemp -d /var/tmp/xrlv.XXXXXX)
trap 'rm -rf "$B"' EXIT
python3 ../tools/c06extract.py "$B" XrlC06/Gen/Table.lean "$B/meta.json"
lake build XrlC06 c06-model
