import XrlC06.Props.C06
import XrlC06.Lemmas.RefrFixed
/-!
# C06, refractive index at full strength: mixture clause, failure clause, agreement of the three entry points

Property theorems only (helper lemmas: `Lemmas/RefrFixed.lean`).  Two bodies are covered, the one the check finds in the
working tree is the one that counts (`refr_template_conforms`):

* the bodies as shipped (`refrReOf`, `refrImOf`, `refrOf`): the failure test is `value == 0.0`.  The full statements are FALSE for them
  (`…_full_fails`, concrete witnesses) and TRUE on every table on which no successful `Fi` / `CS_Total` value is exactly 0 (`…_full_of_nonzero`);
* the bodies after the proposed repair notes/proposed_fixes/C06-7.diff (`refrReOfFixed`, …): the full statements hold (`…_full_fixed`).

The agreement clause of the property ("the complex, real and imaginary entry points agreeing") is read as: on the same
(compound, E, density), with the guards passed, the complex entry point fails exactly when the real-part entry point fails or
the imaginary-part entry point fails, and when it succeeds its two parts are the values the other two return.  In particular
`Refractive_Index_Re` may succeed where `Refractive_Index` fails (an element that has `Fi` but no `CS_Total`: Z = 99, 100; an
energy above the `CS_Total` table): that is the specification, not a disagreement.
-/
namespace XrlC06
namespace C06
open CP Spec

set_option linter.unusedSimpArgs false
set_option linter.unusedVariables false

abbrev El := Int → Slot → M (ℝ × Slot)
abbrev ReImpl := Resolved ℝ → El → El → ℝ → ℝ → Slot → Nat → M ((ℝ × Slot) × Nat)
abbrev ImImpl := Resolved ℝ → El → ℝ → ℝ → Slot → Nat → M ((ℝ × Slot) × Nat)
abbrev CxImpl := Resolved ℝ → El → El → El → ℝ → ℝ → Slot → Nat → M (((ℝ × ℝ) × Slot) × Nat)

/-- "no successful value of this elemental function is exactly 0" — the side condition under which the bodies as shipped are right -/
def NonZero (g : El) : Prop := ∀ (Z : Int) (v : ℝ), OkU (g Z) v → v ≠ 0
/-- no side condition: the statement at full strength -/
def Always (_ : El) : Prop := True

/-- the call failed: value 0, exactly one valid error handed to the caller, heap as found -/
def FailsL (r : M ((ℝ × Slot) × Nat)) (error : Slot) (live : Nat) : Prop :=
  ∃ e : Err, e.msg ≠ "" ∧ e.code ≤ XRL_ERROR_RUNTIME ∧ r = .ok ((0, error.withErr e), live)
def FailsCx (r : M (((ℝ × ℝ) × Slot) × Nat)) (error : Slot) (live : Nat) : Prop :=
  ∃ e : Err, e.msg ≠ "" ∧ e.code ≤ XRL_ERROR_RUNTIME ∧ r = .ok (((0, 0), error.withErr e), live)

/-! ## 1. The statements -/

/-- REAL PART, first clause at full strength: guards passed, `Fi` and `AtomicWeight` succeed on every element (any values; the
atomic weights not 0, the formula divides by them) ⇒ `1 − ρ·Σ w_i·K·(Z_i + f'_i)/A_i / E²`, no error, heap as found -/
def ReMixtureFull (side : El → Prop) (impl : ReImpl) : Prop :=
  ∀ (fi aw : El) (r : Resolved ℝ) (els : Els ℝ) (ρ E density : ℝ) (f' A : Int → ℝ) (error : Slot) (live : Nat),
    error.isFull = false → side fi → Ready r els ρ E density →
    (∀ p ∈ els, OkU (fi p.1) (f' p.1)) → (∀ p ∈ els, OkU (aw p.1) (A p.1)) → (∀ p ∈ els, A p.1 ≠ 0) →
    impl r fi aw E density error live = .ok ((Spec.refrRe els f' A E ρ, error), live)

/-- REAL PART, second clause: an element for which `Fi` or `AtomicWeight` fails makes the call fail -/
def ReFailsFull (side : El → Prop) (impl : ReImpl) : Prop :=
  ∀ (fi aw : El) (r : Resolved ℝ) (els : Els ℝ) (ρ E density : ℝ) (error : Slot) (live : Nat),
    error.isFull = false → side fi → (∀ Z, UContract (fi Z)) → (∀ Z, UContract (aw Z)) → AwPos aw → Ready r els ρ E density →
    (∃ p ∈ els, FailsU (fi p.1) ∨ FailsU (aw p.1)) →
    FailsL (impl r fi aw E density error live) error live

def ImMixtureFull (side : El → Prop) (impl : ImImpl) : Prop :=
  ∀ (cs : El) (r : Resolved ℝ) (els : Els ℝ) (ρ E density : ℝ) (μ : Int → ℝ) (error : Slot) (live : Nat),
    error.isFull = false → side cs → Ready r els ρ E density →
    (∀ p ∈ els, OkU (cs p.1) (μ p.1)) →
    impl r cs E density error live = .ok ((Spec.refrIm els μ E ρ, error), live)

def ImFailsFull (side : El → Prop) (impl : ImImpl) : Prop :=
  ∀ (cs : El) (r : Resolved ℝ) (els : Els ℝ) (ρ E density : ℝ) (error : Slot) (live : Nat),
    error.isFull = false → side cs → (∀ Z, UContract (cs Z)) → Ready r els ρ E density →
    (∃ p ∈ els, FailsU (cs p.1)) →
    FailsL (impl r cs E density error live) error live

def CxMixtureFull (side : El → Prop) (impl : CxImpl) : Prop :=
  ∀ (fi aw cs : El) (r : Resolved ℝ) (els : Els ℝ) (ρ E density : ℝ) (f' A μ : Int → ℝ) (error : Slot) (live : Nat),
    error.isFull = false → side fi → side cs → Ready r els ρ E density →
    (∀ p ∈ els, OkU (fi p.1) (f' p.1)) → (∀ p ∈ els, OkU (aw p.1) (A p.1)) → (∀ p ∈ els, A p.1 ≠ 0) →
    (∀ p ∈ els, OkU (cs p.1) (μ p.1)) →
    impl r fi aw cs E density error live = .ok (((Spec.refrRe els f' A E ρ, Spec.refrIm els μ E ρ), error), live)

def CxFailsFull (side : El → Prop) (impl : CxImpl) : Prop :=
  ∀ (fi aw cs : El) (r : Resolved ℝ) (els : Els ℝ) (ρ E density : ℝ) (error : Slot) (live : Nat),
    error.isFull = false → side fi → side cs → (∀ Z, UContract (fi Z)) → (∀ Z, UContract (aw Z)) → (∀ Z, UContract (cs Z)) → AwPos aw →
    Ready r els ρ E density →
    (∃ p ∈ els, FailsU (fi p.1) ∨ FailsU (aw p.1) ∨ FailsU (cs p.1)) →
    FailsCx (impl r fi aw cs E density error live) error live

/-- AGREEMENT OF THE THREE ENTRY POINTS on the same `(compound, E, density)` (guards passed; each elemental function behaving in the
same way whatever slot it is handed).  With `ReBad` = "`Fi` or `AtomicWeight` fails for some element" and `ImBad` = "`CS_Total` fails
for some element":  the real part fails iff `ReBad`, the imaginary part fails iff `ImBad`, the complex entry point fails iff
`ReBad ∨ ImBad`; and when it does not fail its two parts are exactly what the other two entry points return. -/
def EntryPointsAgree (side : El → Prop) (reI : ReImpl) (imI : ImImpl) (cxI : CxImpl) : Prop :=
  ∀ (fi aw cs : El) (r : Resolved ℝ) (els : Els ℝ) (ρ E density : ℝ) (error : Slot) (live : Nat),
    error.isFull = false → side fi → side cs →
    (∀ Z, UContract (fi Z)) → (∀ Z, UContract (aw Z)) → (∀ Z, UContract (cs Z)) → AwPos aw → Ready r els ρ E density →
    let ReBad := ∃ p ∈ els, FailsU (fi p.1) ∨ FailsU (aw p.1)
    let ImBad := ∃ p ∈ els, FailsU (cs p.1)
    let re := reI r fi aw E density error live
    let im := imI r cs E density error live
    let cx := cxI r fi aw cs E density error live
    (ReBad → FailsL re error live) ∧ (ImBad → FailsL im error live) ∧ (ReBad ∨ ImBad → FailsCx cx error live) ∧
    (¬ ReBad → ∃ x, re = .ok ((x, error), live)) ∧ (¬ ImBad → ∃ y, im = .ok ((y, error), live)) ∧
    (¬ ReBad → ¬ ImBad → ∃ x y, re = .ok ((x, error), live) ∧ im = .ok ((y, error), live) ∧ cx = .ok (((x, y), error), live))

/-! ## 2. Any implementation meeting the six full statements has agreeing entry points -/

theorem entry_points_agree_of_full (side : El → Prop) (reI : ReImpl) (imI : ImImpl) (cxI : CxImpl)
    (h1 : ReMixtureFull side reI) (h2 : ReFailsFull side reI) (h3 : ImMixtureFull side imI) (h4 : ImFailsFull side imI)
    (h5 : CxMixtureFull side cxI) (h6 : CxFailsFull side cxI) : EntryPointsAgree side reI imI cxI := by
  intro fi aw cs r els ρ E density error live he sfi scs ufi uaw ucs hp hr
  -- the tables of values the elemental functions return where they succeed
  let f' := fun Z => valOf (fi Z) Slot.empty
  let A := fun Z => valOf (aw Z) Slot.empty
  let μ := fun Z => valOf (cs Z) Slot.empty
  have reOk : (¬ ∃ p ∈ els, FailsU (fi p.1) ∨ FailsU (aw p.1)) →
      (∀ p ∈ els, OkU (fi p.1) (f' p.1)) ∧ (∀ p ∈ els, OkU (aw p.1) (A p.1)) ∧ (∀ p ∈ els, A p.1 ≠ 0) := by
    intro hn
    have hfi : ∀ p ∈ els, OkU (fi p.1) (f' p.1) := fun p hp' => okU_of_not_failsU (ufi p.1) (fun hf => hn ⟨p, hp', Or.inl hf⟩)
    have haw : ∀ p ∈ els, OkU (aw p.1) (A p.1) := fun p hp' => okU_of_not_failsU (uaw p.1) (fun hf => hn ⟨p, hp', Or.inr hf⟩)
    exact ⟨hfi, haw, fun p hp' => hp p.1 _ (haw p hp' Slot.empty rfl)⟩
  have imOk : (¬ ∃ p ∈ els, FailsU (cs p.1)) → ∀ p ∈ els, OkU (cs p.1) (μ p.1) :=
    fun hn p hp' => okU_of_not_failsU (ucs p.1) (fun hf => hn ⟨p, hp', hf⟩)
  refine ⟨fun hb => h2 fi aw r els ρ E density error live he sfi ufi uaw hp hr hb,
    fun hb => h4 cs r els ρ E density error live he scs ucs hr hb, ?_, ?_, ?_, ?_⟩
  · intro hb
    refine h6 fi aw cs r els ρ E density error live he sfi scs ufi uaw ucs hp hr ?_
    rcases hb with ⟨p, hp', h | h⟩ | ⟨p, hp', h⟩
    · exact ⟨p, hp', Or.inl h⟩
    · exact ⟨p, hp', Or.inr (Or.inl h)⟩
    · exact ⟨p, hp', Or.inr (Or.inr h)⟩
  · intro hn
    obtain ⟨a, b, c⟩ := reOk hn
    exact ⟨_, h1 fi aw r els ρ E density f' A error live he sfi hr a b c⟩
  · intro hn
    exact ⟨_, h3 cs r els ρ E density μ error live he scs hr (imOk hn)⟩
  · intro hn hm
    obtain ⟨a, b, c⟩ := reOk hn
    exact ⟨_, _, h1 fi aw r els ρ E density f' A error live he sfi hr a b c, h3 cs r els ρ E density μ error live he scs hr (imOk hm),
      h5 fi aw cs r els ρ E density f' A μ error live he sfi scs hr a b c (imOk hm)⟩

/-- the same, read off the caller's (empty) slot: the complex entry point stores an error iff the real-part or the imaginary-part
entry point does -/
def Stored {β : Type} (r : M ((β × Slot) × Nat)) : Prop := ∃ x e l, r = .ok ((x, Slot.full e), l)

theorem complex_fails_iff_of_agree (side : El → Prop) (reI : ReImpl) (imI : ImImpl) (cxI : CxImpl) (h : EntryPointsAgree side reI imI cxI)
    (fi aw cs : El) (r : Resolved ℝ) (els : Els ℝ) (ρ E density : ℝ) (live : Nat) (sfi : side fi) (scs : side cs)
    (ufi : ∀ Z, UContract (fi Z)) (uaw : ∀ Z, UContract (aw Z)) (ucs : ∀ Z, UContract (cs Z)) (hp : AwPos aw) (hr : Ready r els ρ E density) :
    Stored (cxI r fi aw cs E density Slot.empty live) ↔
      (Stored (reI r fi aw E density Slot.empty live) ∨ Stored (imI r cs E density Slot.empty live)) := by
  obtain ⟨a, b, c, d, e, f⟩ := h fi aw cs r els ρ E density Slot.empty live rfl sfi scs ufi uaw ucs hp hr
  have st1 : ∀ {r' : M ((ℝ × Slot) × Nat)}, FailsL r' Slot.empty live → Stored r' := by
    rintro r' ⟨e', _, _, h'⟩; exact ⟨_, e', _, by simpa [Slot.withErr] using h'⟩
  have st2 : ∀ {r' : M (((ℝ × ℝ) × Slot) × Nat)}, FailsCx r' Slot.empty live → Stored r' := by
    rintro r' ⟨e', _, _, h'⟩; exact ⟨_, e', _, by simpa [Slot.withErr] using h'⟩
  by_cases hR : ∃ p ∈ els, FailsU (fi p.1) ∨ FailsU (aw p.1)
  · exact ⟨fun _ => Or.inl (st1 (a hR)), fun _ => st2 (c (Or.inl hR))⟩
  · by_cases hI : ∃ p ∈ els, FailsU (cs p.1)
    · exact ⟨fun _ => Or.inr (st1 (b hI)), fun _ => st2 (c (Or.inr hI))⟩
    · obtain ⟨x, y, hx, hy, hc⟩ := f hR hI
      constructor
      · rintro ⟨z, e', l, hz⟩; rw [hc] at hz; simp at hz
      · rintro (⟨z, e', l, hz⟩ | ⟨z, e', l, hz⟩)
        · rw [hx] at hz; simp at hz
        · rw [hy] at hz; simp at hz

/-! ## 3. The bodies after the proposed repair C06-7: every statement holds at full strength -/

theorem refr_re_mixture_full_fixed : ReMixtureFull Always refrReOfFixed := by
  intro fi aw r els ρ E density f' A error live he _ hr hfi haw hA
  have hE : E ≠ 0 := hr.E_pos.ne'
  unfold refrReOfFixed
  simp only [refrBegin_ready hr, bind_ok, zero_lit, one_lit,
    reLoopFixed_value fi aw error E hE f' A els _ (fun p hp => ⟨hfi p hp _ rfl, haw p hp _ rfl, hA p hp⟩), pure_eq_ok, release_alloc, re_final]

theorem refr_re_fails_full_fixed : ReFailsFull Always refrReOfFixed := by
  intro fi aw r els ρ E density error live he _ hfi haw hp hr ⟨q, hq, hbad⟩
  have hE : E ≠ 0 := hr.E_pos.ne'
  let f' := fun Z => valOf (fi Z) Slot.empty
  let A := fun Z => valOf (aw Z) Slot.empty
  rcases first_bad (OkRe fi aw f' A) els with hall | ⟨pre, ⟨Z, w⟩, post, hels, hpre, hnot⟩
  · exfalso
    obtain ⟨h1, h2, _⟩ := hall q hq
    rcases hbad with hb | hb
    · obtain ⟨e, hf⟩ := hb.empty; rw [fw_empty hf] at h1; simp at h1
    · obtain ⟨e, hf⟩ := hb.empty; rw [fw_empty hf] at h2; simp at h2
  · have hs : ∃ e : Err, e.msg ≠ "" ∧ e.code ≤ XRL_ERROR_RUNTIME ∧ ReStopF fi aw Z e := by
      rcases (hfi Z).contract Slot.empty rfl with ⟨x, hx⟩ | ⟨e, hf⟩
      · rcases (haw Z).contract Slot.empty rfl with ⟨a, ha⟩ | ⟨e, hf⟩
        · exfalso; apply hnot
          refine ⟨?_, ?_, ?_⟩
          · show fi Z Slot.empty = .ok (valOf (fi Z) Slot.empty, Slot.empty); rw [valOf_ok hx]; exact hx
          · show aw Z Slot.empty = .ok (valOf (aw Z) Slot.empty, Slot.empty); rw [valOf_ok ha]; exact ha
          · show valOf (aw Z) Slot.empty ≠ 0; rw [valOf_ok ha]; exact hp Z a ha
        · exact ⟨e, hf.1, hf.2.1, .aw x 0 hx (fw_empty hf)⟩
      · exact ⟨e, hf.1, hf.2.1, .fi 0 (fw_empty hf)⟩
    obtain ⟨e, e1, e2, hs⟩ := hs
    refine ⟨e, e1, e2, ?_⟩
    subst hels
    unfold refrReOfFixed
    simp only [refrBegin_ready hr, bind_ok, zero_lit, reLoopFixed_stop fi aw error E he hE f' A Z w e post hs pre 0 hpre, pure_eq_ok,
      release_alloc]

theorem refr_im_mixture_full_fixed : ImMixtureFull Always refrImOfFixed := by
  intro cs r els ρ E density μ error live he _ hr hcs
  have hE : E ≠ 0 := hr.E_pos.ne'
  unfold refrImOfFixed
  simp only [refrBegin_ready hr, bind_ok, zero_lit, imLoopFixed_value cs error μ els _ (fun p hp => hcs p hp _ rfl), imFinal_real _ _ _ hE,
    pure_eq_ok, release_alloc, im_final]

theorem refr_im_fails_full_fixed : ImFailsFull Always refrImOfFixed := by
  intro cs r els ρ E density error live he _ hcs hr ⟨q, hq, hbad⟩
  let μ := fun Z => valOf (cs Z) Slot.empty
  rcases first_bad (OkIm cs μ) els with hall | ⟨pre, ⟨Z, w⟩, post, hels, hpre, hnot⟩
  · exfalso
    have h1 := hall q hq
    obtain ⟨e, hf⟩ := hbad.empty; simp only [OkIm] at h1; rw [fw_empty hf] at h1; simp at h1
  · rcases (hcs Z).contract Slot.empty rfl with ⟨x, hx⟩ | ⟨e, hf⟩
    · exfalso; apply hnot
      show cs Z Slot.empty = .ok (valOf (cs Z) Slot.empty, Slot.empty); rw [valOf_ok hx]; exact hx
    · refine ⟨e, hf.1, hf.2.1, ?_⟩
      subst hels
      unfold refrImOfFixed
      simp only [refrBegin_ready hr, bind_ok, zero_lit, imLoopFixed_stop cs error he μ Z w 0 e post (fw_empty hf) pre 0 hpre, pure_eq_ok,
        release_alloc]

theorem refr_complex_mixture_full_fixed : CxMixtureFull Always refrOfFixed := by
  intro fi aw cs r els ρ E density f' A μ error live he _ _ hr hfi haw hA hcs
  have hE : E ≠ 0 := hr.E_pos.ne'
  unfold refrOfFixed
  simp only [refrBegin_ready hr, bind_ok, zero_lit, one_lit,
    cxLoopFixed_value fi aw cs error E hE f' A μ els _ _ (fun p hp => ⟨hfi p hp _ rfl, haw p hp _ rfl, hA p hp⟩) (fun p hp => hcs p hp _ rfl),
    imFinal_real _ _ _ hE, pure_eq_ok, release_alloc, re_final, im_final]

theorem refr_complex_fails_full_fixed : CxFailsFull Always refrOfFixed := by
  intro fi aw cs r els ρ E density error live he _ _ hfi haw hcs hp hr ⟨q, hq, hbad⟩
  have hE : E ≠ 0 := hr.E_pos.ne'
  let f' := fun Z => valOf (fi Z) Slot.empty
  let A := fun Z => valOf (aw Z) Slot.empty
  let μ := fun Z => valOf (cs Z) Slot.empty
  rcases first_bad (fun p => OkRe fi aw f' A p ∧ OkIm cs μ p) els with hall | ⟨pre, ⟨Z, w⟩, post, hels, hpre, hnot⟩
  · exfalso
    obtain ⟨⟨h1, h2, _⟩, h3⟩ := hall q hq
    simp only [OkIm] at h3
    rcases hbad with hb | hb | hb
    · obtain ⟨e, hf⟩ := hb.empty; rw [fw_empty hf] at h1; simp at h1
    · obtain ⟨e, hf⟩ := hb.empty; rw [fw_empty hf] at h2; simp at h2
    · obtain ⟨e, hf⟩ := hb.empty; rw [fw_empty hf] at h3; simp at h3
  · have hs : ∃ e : Err, e.msg ≠ "" ∧ e.code ≤ XRL_ERROR_RUNTIME ∧ CxStopF fi aw cs Z e := by
      rcases (hfi Z).contract Slot.empty rfl with ⟨x, hx⟩ | ⟨e, hf⟩
      · rcases (haw Z).contract Slot.empty rfl with ⟨a, ha⟩ | ⟨e, hf⟩
        · rcases (hcs Z).contract Slot.empty rfl with ⟨c, hc⟩ | ⟨e, hf⟩
          · exfalso; apply hnot
            refine ⟨⟨?_, ?_, ?_⟩, ?_⟩
            · show fi Z Slot.empty = .ok (valOf (fi Z) Slot.empty, Slot.empty); rw [valOf_ok hx]; exact hx
            · show aw Z Slot.empty = .ok (valOf (aw Z) Slot.empty, Slot.empty); rw [valOf_ok ha]; exact ha
            · show valOf (aw Z) Slot.empty ≠ 0; rw [valOf_ok ha]; exact hp Z a ha
            · show cs Z Slot.empty = .ok (valOf (cs Z) Slot.empty, Slot.empty); rw [valOf_ok hc]; exact hc
          · exact ⟨e, hf.1, hf.2.1, .cs x a 0 hx ha (fw_empty hf)⟩
        · exact ⟨e, hf.1, hf.2.1, .aw x 0 hx (fw_empty hf)⟩
      · exact ⟨e, hf.1, hf.2.1, .fi 0 (fw_empty hf)⟩
    obtain ⟨e, e1, e2, hs⟩ := hs
    refine ⟨e, e1, e2, ?_⟩
    subst hels
    unfold refrOfFixed
    simp only [refrBegin_ready hr, bind_ok, zero_lit,
      cxLoopFixed_stop fi aw cs error E he hE f' A μ Z w e post hs pre 0 0 (fun p hp => (hpre p hp).1) (fun p hp => (hpre p hp).2),
      pure_eq_ok, release_alloc]

/-- repaired bodies: the three entry points agree (complex fails iff real part fails or imaginary part fails; equal parts otherwise) -/
theorem refr_entry_points_agree_fixed : EntryPointsAgree Always refrReOfFixed refrImOfFixed refrOfFixed :=
  entry_points_agree_of_full Always _ _ _ refr_re_mixture_full_fixed refr_re_fails_full_fixed refr_im_mixture_full_fixed
    refr_im_fails_full_fixed refr_complex_mixture_full_fixed refr_complex_fails_full_fixed

section examples
/-- non-vacuity of `EntryPointsAgree` and the asymmetry itself: einsteinium oxide — Z = 99 has `Fi` and an atomic weight but no
`CS_Total`: the real part SUCCEEDS, the imaginary part and the complex entry point FAIL (and `Fi` of oxygen being exactly 0 is no
longer an obstacle) -/
example :
    let fi := tableFn (fun Z => if Z = 8 then 0 else -0.02) (fun _ => false)
    let aw := tableFn (fun Z => if Z = 8 then 16 else 252) (fun _ => false)
    let cs := tableFn (fun _ => 5.952) (fun Z => Z == 99)
    let r : Resolved ℝ := .formula ⟨[(8, 0.16), (99, 0.84)], 4⟩
    (∃ x, refrReOfFixed r fi aw 10 1 Slot.empty 0 = .ok ((x, Slot.empty), 0)) ∧
    FailsL (refrImOfFixed r cs 10 1 Slot.empty 0) Slot.empty 0 ∧ FailsCx (refrOfFixed r fi aw cs 10 1 Slot.empty 0) Slot.empty 0 := by
  intro fi aw cs r
  have hp : AwPos aw := by
    exact tableFn_awPos _ (fun Z => by split_ifs <;> norm_num)
  have hr : Ready r [(8, 0.16), (99, 0.84)] 1 10 1 := ⟨rfl, rfl, by norm_num, by norm_num⟩
  obtain ⟨_, b, c, d, _, _⟩ := refr_entry_points_agree_fixed fi aw cs r _ 1 10 1 Slot.empty 0 rfl trivial trivial
    (tableFn_ucontract _ _) (tableFn_ucontract _ _) (tableFn_ucontract _ _) hp hr
  have hbad : ∃ p ∈ [((8 : Int), (0.16 : ℝ)), (99, 0.84)], FailsU (cs p.1) :=
    ⟨(99, 0.84), by simp, ⟨1, "Z out of range"⟩, fun s hs => ⟨by decide, by decide, by simp [cs, tableFn]⟩⟩
  have hgood : ¬ ∃ p ∈ [((8 : Int), (0.16 : ℝ)), (99, 0.84)], FailsU (fi p.1) ∨ FailsU (aw p.1) := by
    rintro ⟨p, _, h | h⟩
    · exact (tableFn_okU _ _ p.1 rfl).not_failsU h
    · exact (tableFn_okU _ _ p.1 rfl).not_failsU h
  exact ⟨d hgood, b hbad, c (Or.inr hbad)⟩
end examples

/-- repaired bodies, read off the caller's slot: `Refractive_Index` stores an error iff `Refractive_Index_Re` or `Refractive_Index_Im` does -/
theorem refr_complex_fails_iff_fixed (fi aw cs : El) (r : Resolved ℝ) (els : Els ℝ) (ρ E density : ℝ) (live : Nat)
    (ufi : ∀ Z, UContract (fi Z)) (uaw : ∀ Z, UContract (aw Z)) (ucs : ∀ Z, UContract (cs Z)) (hp : AwPos aw) (hr : Ready r els ρ E density) :
    Stored (refrOfFixed r fi aw cs E density Slot.empty live) ↔
      (Stored (refrReOfFixed r fi aw E density Slot.empty live) ∨ Stored (refrImOfFixed r cs E density Slot.empty live)) :=
  complex_fails_iff_of_agree Always _ _ _ refr_entry_points_agree_fixed fi aw cs r els ρ E density live trivial trivial ufi uaw ucs hp hr

example : Stored (refrOfFixed (.formula ⟨[(99, (1 : ℝ))], 4⟩) (tableFn (fun _ => -0.02) (fun _ => false)) (tableFn (fun _ => 252) (fun _ => false))
    (tableFn (fun _ => 5.952) (fun Z => Z == 99)) 10 1 Slot.empty 0) := by
  refine (refr_complex_fails_iff_fixed _ _ _ _ [(99, 1)] 1 10 1 0 (tableFn_ucontract _ _) (tableFn_ucontract _ _) (tableFn_ucontract _ _) ?_
    ⟨rfl, rfl, by norm_num, by norm_num⟩).mpr (Or.inr ?_)
  · exact tableFn_awPos _ (fun Z => by norm_num)
  · obtain ⟨e, _, _, h⟩ := refr_im_fails_full_fixed (tableFn (fun _ => 5.952) (fun Z => Z == 99)) (.formula ⟨[(99, (1 : ℝ))], 4⟩) [(99, 1)] 1 10 1
      Slot.empty 0 rfl trivial (tableFn_ucontract _ _) ⟨rfl, rfl, by norm_num, by norm_num⟩
      ⟨(99, 1), by simp, ⟨1, "Z out of range"⟩, fun s hs => ⟨by decide, by decide, by simp [tableFn]⟩⟩
    exact ⟨_, e, _, by simpa [Slot.withErr] using h⟩

/-- the former corner under the repaired body: a successful `Fi` value of exactly 0 is an ordinary term — the call returns the
rule's value (compare `refr_re_zero_witness`) -/
example : refrReOfFixed (.formula ⟨[(8, (1 : ℝ))], 4⟩) (fun _ s => .ok (0, s)) (fun _ s => .ok (16, s)) 10 1 Slot.empty 0
    = .ok ((Spec.refrRe [(8, (1 : ℝ))] (fun _ => 0) (fun _ => 16) 10 1, Slot.empty), 0) :=
  refr_re_mixture_full_fixed _ _ _ [(8, 1)] 1 10 1 (fun _ => 0) (fun _ => 16) Slot.empty 0 rfl trivial ⟨rfl, rfl, by norm_num, by norm_num⟩
    (fun p hp s hs => rfl) (fun p hp s hs => rfl) (fun p hp => by norm_num)

/-- … and an element without data AFTER an element whose `Fi` is exactly 0 still makes the call fail (compare `refr_re_fails_full_fails`) -/
example : FailsL (refrReOfFixed (.formula ⟨[(1, (0.004 : ℝ)), (101, 0.996)], 4⟩) (tableFn (fun _ => 0) (fun Z => Z == 101))
    (tableFn (fun _ => 16) (fun _ => false)) 10 1 Slot.empty 0) Slot.empty 0 := by
  refine refr_re_fails_full_fixed _ _ _ [(1, 0.004), (101, 0.996)] 1 10 1 Slot.empty 0 rfl trivial (tableFn_ucontract _ _)
    (tableFn_ucontract _ _) ?_ ⟨rfl, rfl, by norm_num, by norm_num⟩
    ⟨(101, 0.996), by simp, Or.inl ⟨⟨1, "Z out of range"⟩, fun s hs => ⟨by decide, by decide, by simp [tableFn]⟩⟩⟩
  exact tableFn_awPos _ (fun Z => by norm_num)

/-- `Refractive_Index2` is the repaired `Refractive_Index` on every input -/
theorem refr2_eq_fixed (fi aw cs : El) (error : Slot) (live : Nat) (r : Resolved ℝ) (E density : ℝ) :
    refr2OfFixed r fi aw cs E density error live = refrOfFixed r fi aw cs E density error live := by
  unfold refr2OfFixed
  cases refrOfFixed r fi aw cs E density error live with
  | error e => rfl
  | ok x => rfl

/-- the three error exits of `REFR_BEGIN` are untouched by the repair -/
theorem refr_guard_errors_fixed (fi aw cs : El) (error : Slot) (live : Nat) (he : error.isFull = false) (r : Resolved ℝ) (E density : ℝ) (m : String)
    (hg : (r.elements = none ∧ m = UNKNOWN_COMPOUND) ∨
          (r.elements ≠ none ∧ effDensity r density ≤ 0 ∧ m = NEGATIVE_DENSITY) ∨
          (r.elements ≠ none ∧ 0 < effDensity r density ∧ E ≤ 0 ∧ m = NEGATIVE_ENERGY)) :
    refrReOfFixed r fi aw E density error live = .ok ((0, error.withErr ⟨XRL_ERROR_INVALID_ARGUMENT, m⟩), live) ∧
    refrImOfFixed r cs E density error live = .ok ((0, error.withErr ⟨XRL_ERROR_INVALID_ARGUMENT, m⟩), live) ∧
    refrOfFixed r fi aw cs E density error live = .ok (((0, 0), error.withErr ⟨XRL_ERROR_INVALID_ARGUMENT, m⟩), live) := by
  have hb : refrBegin r E density error live = .ok (.inl (error.withErr ⟨XRL_ERROR_INVALID_ARGUMENT, m⟩, live)) := by
    rcases hg with ⟨h, rfl⟩ | ⟨h, hd, rfl⟩ | ⟨h, hd, hE, rfl⟩
    · exact refrBegin_unknown h E density he live
    · obtain ⟨els, hels⟩ := Option.ne_none_iff_exists'.mp h
      exact refrBegin_density hels E density hd he live
    · obtain ⟨els, hels⟩ := Option.ne_none_iff_exists'.mp h
      exact refrBegin_energy hels E density hd hE he live
  refine ⟨?_, ?_, ?_⟩
  · unfold refrReOfFixed; simp only [hb, bind_ok, pure_eq_ok, zero_lit]
  · unfold refrImOfFixed; simp only [hb, bind_ok, pure_eq_ok, zero_lit]
  · unfold refrOfFixed; simp only [hb, bind_ok, pure_eq_ok, zero_lit]

/-- the NULL compound pointer (both lookups answer NULL) at energy 0 and density −1: UNKNOWN_COMPOUND comes first -/
example : refrOfFixed (Resolved.none : Resolved ℝ) (fun _ s => .ok (1, s)) (fun _ s => .ok (1, s)) (fun _ s => .ok (1, s)) 0 (-1) Slot.empty 5
    = .ok (((0, 0), Slot.full ⟨1, UNKNOWN_COMPOUND⟩), 5) :=
  (refr_guard_errors_fixed _ _ _ Slot.empty 5 rfl _ 0 (-1) UNKNOWN_COMPOUND (Or.inl ⟨rfl, rfl⟩)).2.2

/-- TEMPORARIES RELEASED ON EVERY EXIT of the four repaired entry points (elemental functions within their contract, a successful
atomic weight not 0) -/
theorem refr_temporaries_released_fixed (fi aw cs : El) (error : Slot) (live : Nat)
    (hfi : ∀ Z, Contract (fi Z)) (haw : ∀ Z, Contract (aw Z)) (hcs : ∀ Z, Contract (cs Z)) (hp : AwPos aw)
    (he : error.isFull = false) (parse : Option (Parsed ℝ)) (nist : Option (Nist ℝ)) (E density : ℝ) :
    (∃ x, CP.refrReFixed parse nist fi aw E density error live = .ok (x, live)) ∧
    (∃ x, CP.refrImFixed parse nist cs E density error live = .ok (x, live)) ∧
    (∃ x, refrFixed parse nist fi aw cs E density error live = .ok (x, live)) ∧
    (∃ x, refr2Fixed parse nist fi aw cs E density error live = .ok (x, live)) := by
  have hcx : ∃ x, refrFixed parse nist fi aw cs E density error live = .ok (x, live) := by
    unfold refrFixed refrOfFixed
    rcases refrBegin_cases (resolve parse nist) E density he live with ⟨s, hb⟩ | ⟨els, ρ, hr, hb⟩
    · simp only [hb, bind_ok, pure_eq_ok]; exact ⟨_, rfl⟩
    · have hE : E ≠ 0 := hr.E_pos.ne'
      obtain ⟨y, hy⟩ := cxLoopFixed_total fi aw cs error E he hE hfi haw hcs hp els (0, 0)
      simp only [hb, bind_ok, zero_lit, hy]
      rcases y with s | ⟨⟨d, im⟩, s⟩
      · simp only [pure_eq_ok, release_alloc]; exact ⟨_, rfl⟩
      · simp only [imFinal_real _ _ _ hE, bind_ok, pure_eq_ok, release_alloc]; exact ⟨_, rfl⟩
  refine ⟨?_, ?_, hcx, ?_⟩
  · unfold CP.refrReFixed refrReOfFixed
    rcases refrBegin_cases (resolve parse nist) E density he live with ⟨s, hb⟩ | ⟨els, ρ, hr, hb⟩
    · simp only [hb, bind_ok, pure_eq_ok]; exact ⟨_, rfl⟩
    · obtain ⟨y, hy⟩ := reLoopFixed_total fi aw error E he hr.E_pos.ne' hfi haw hp els 0
      simp only [hb, bind_ok, zero_lit, hy]
      rcases y with s | ⟨rv, s⟩ <;> simp only [pure_eq_ok, release_alloc] <;> exact ⟨_, rfl⟩
  · unfold CP.refrImFixed refrImOfFixed
    rcases refrBegin_cases (resolve parse nist) E density he live with ⟨s, hb⟩ | ⟨els, ρ, hr, hb⟩
    · simp only [hb, bind_ok, pure_eq_ok]; exact ⟨_, rfl⟩
    · obtain ⟨y, hy⟩ := imLoopFixed_total cs error he hcs els 0
      simp only [hb, bind_ok, zero_lit, hy]
      rcases y with s | ⟨rv, s⟩
      · simp only [pure_eq_ok, release_alloc]; exact ⟨_, rfl⟩
      · simp only [imFinal_real _ _ _ hr.E_pos.ne', bind_ok, pure_eq_ok, release_alloc]; exact ⟨_, rfl⟩
  · obtain ⟨x, hx⟩ := hcx
    unfold refrFixed at hx
    unfold refr2Fixed
    rw [refr2_eq_fixed, hx]; exact ⟨_, rfl⟩

example : ∃ x, CP.refrImFixed (none : Option (Parsed ℝ)) (some ⟨[(1, 0.5), (8, 0.5)], 1.0, 4⟩)
    (tableFn (fun _ => 3) (fun Z => Z == 8)) 10 0 Slot.empty 11 = .ok (x, 11) :=
  (refr_temporaries_released_fixed (tableFn (fun _ => 1) (fun _ => false)) (tableFn (fun _ => 1) (fun _ => false)) _ Slot.empty 11
    (fun Z => (tableFn_ucontract _ _ Z).contract) (fun Z => (tableFn_ucontract _ _ Z).contract) (fun Z => (tableFn_ucontract _ _ Z).contract)
    (by
      exact tableFn_awPos _ (fun Z => by norm_num))
    rfl none _ 10 0).2.1

/-! ## 4. The bodies as shipped: the full statements fail (history once C06-7 is applied), and hold where no elemental value is 0 -/

/-- as shipped, first clause: FALSE — a successful `Fi` value of exactly 0 gives 0 instead of `1 − …` (`refr_re_zero_witness`) -/
theorem refr_re_mixture_full_fails : ¬ ReMixtureFull Always refrReOf := by
  intro h
  have h1 := h (fun _ s => .ok (0, s)) (fun _ s => .ok (16, s)) (.formula ⟨[(8, (1 : ℝ))], 4⟩) [(8, 1)] 1 10 1 (fun _ => 0) (fun _ => 16)
    Slot.empty 0 rfl trivial ⟨rfl, rfl, by norm_num, by norm_num⟩ (fun p hp s hs => rfl) (fun p hp s hs => rfl) (fun p hp => by norm_num)
  rw [refr_re_zero_witness.1] at h1
  have h2 := refr_re_zero_witness.2
  simp only [Except.ok.injEq, Prod.mk.injEq, and_true] at h1
  exact h2 h1.symm

/-- as shipped, second clause: FALSE — hydrogen's `Fi` exactly 0, then mendelevium (no `Fi` data): the loop stops at hydrogen, Md is
never asked, 0 comes back WITHOUT an error -/
theorem refr_re_fails_full_fails : ¬ ReFailsFull Always refrReOf := by
  intro h
  have hp : AwPos (tableFn (fun _ => 16) (fun _ => false)) := by
    exact tableFn_awPos _ (fun Z => by norm_num)
  obtain ⟨e, _, _, h1⟩ := h (tableFn (fun _ => 0) (fun Z => Z == 101)) (tableFn (fun _ => 16) (fun _ => false))
    (.formula ⟨[(1, (0.004 : ℝ)), (101, 0.996)], 4⟩) [(1, 0.004), (101, 0.996)] 1 10 1 Slot.empty 0 rfl trivial
    (tableFn_ucontract _ _) (tableFn_ucontract _ _) hp ⟨rfl, rfl, by norm_num, by norm_num⟩
    ⟨(101, 0.996), by simp, Or.inl ⟨⟨1, "Z out of range"⟩, fun s hs => ⟨by decide, by decide, by simp [tableFn]⟩⟩⟩
  have h2 := refr_re_element_stops (tableFn (fun _ => 0) (fun Z => Z == 101)) (tableFn (fun _ => 16) (fun _ => false)) Slot.empty 0
    (.formula ⟨[(1, (0.004 : ℝ)), (101, 0.996)], 4⟩) [] [(101, 0.996)] 1 0.004 1 10 1 ⟨rfl, rfl, by norm_num, by norm_num⟩ (fun _ => 0) (fun _ => 16)
    (by simp) Slot.empty (Or.inl (by simp [tableFn]))
  rw [h2] at h1
  simp [Slot.withErr] at h1

theorem refr_im_mixture_full_fails : ¬ ImMixtureFull Always refrImOf := by
  intro h
  have h1 := h (fun Z s => .ok (if Z = 1 then 0 else 3, s)) (.formula ⟨[(1, (0.5 : ℝ)), (8, 0.5)], 4⟩) [(1, 0.5), (8, 0.5)] 1 10 1
    (fun Z => if Z = 1 then 0 else 3) Slot.empty 0 rfl trivial ⟨rfl, rfl, by norm_num, by norm_num⟩ (fun p hp s hs => rfl)
  rw [refr_im_zero_witness.1] at h1
  have h2 := refr_im_zero_witness.2
  simp only [Except.ok.injEq, Prod.mk.injEq, and_true] at h1
  exact h2 h1.symm

theorem refr_im_fails_full_fails : ¬ ImFailsFull Always refrImOf := by
  intro h
  obtain ⟨e, _, _, h1⟩ := h (tableFn (fun _ => 0) (fun Z => Z == 99)) (.formula ⟨[(1, (0.004 : ℝ)), (99, 0.996)], 4⟩) [(1, 0.004), (99, 0.996)]
    1 10 1 Slot.empty 0 rfl trivial (tableFn_ucontract _ _) ⟨rfl, rfl, by norm_num, by norm_num⟩
    ⟨(99, 0.996), by simp, ⟨1, "Z out of range"⟩, fun s hs => ⟨by decide, by decide, by simp [tableFn]⟩⟩
  have h2 := refr_im_element_stops (tableFn (fun _ => 0) (fun Z => Z == 99)) Slot.empty 0
    (.formula ⟨[(1, (0.004 : ℝ)), (99, 0.996)], 4⟩) [] [(99, 0.996)] 1 0.004 1 10 1 ⟨rfl, rfl, by norm_num, by norm_num⟩ (fun _ => 0)
    (by simp) Slot.empty (by simp [tableFn])
  rw [h2] at h1
  simp [Slot.withErr] at h1

theorem refr_complex_mixture_full_fails : ¬ CxMixtureFull Always refrOf := by
  intro h
  have h1 := h (fun _ s => .ok (0, s)) (fun _ s => .ok (16, s)) (fun _ s => .ok (3, s)) (.formula ⟨[(8, (1 : ℝ))], 4⟩) [(8, 1)] 1 10 1
    (fun _ => 0) (fun _ => 16) (fun _ => 3) Slot.empty 0 rfl trivial trivial ⟨rfl, rfl, by norm_num, by norm_num⟩
    (fun p hp s hs => rfl) (fun p hp s hs => rfl) (fun p hp => by norm_num) (fun p hp s hs => rfl)
  have h2 := (refr_complex_element_stops (fun _ s => .ok (0, s)) (fun _ s => .ok (16, s)) (fun _ s => .ok (3, s)) Slot.empty 0
    (.formula ⟨[(8, (1 : ℝ))], 4⟩) [] [] 8 1 1 10 1 ⟨rfl, rfl, by norm_num, by norm_num⟩ (fun _ => 0) (fun _ => 16) (fun _ => 3)
    (by simp) (by simp) Slot.empty (CxStop.fi rfl)).1
  rw [h2] at h1
  have h3 := refr_re_zero_witness.2
  simp only [Except.ok.injEq, Prod.mk.injEq, and_true] at h1
  exact h3 h1.1.symm

theorem refr_complex_fails_full_fails : ¬ CxFailsFull Always refrOf := by
  intro h
  have hp : AwPos (tableFn (fun _ => 16) (fun _ => false)) := by
    exact tableFn_awPos _ (fun Z => by norm_num)
  obtain ⟨e, _, _, h1⟩ := h (tableFn (fun _ => 0) (fun Z => Z == 101)) (tableFn (fun _ => 16) (fun _ => false)) (tableFn (fun _ => 3) (fun _ => false))
    (.formula ⟨[(1, (0.004 : ℝ)), (101, 0.996)], 4⟩) [(1, 0.004), (101, 0.996)] 1 10 1 Slot.empty 0 rfl trivial trivial
    (tableFn_ucontract _ _) (tableFn_ucontract _ _) (tableFn_ucontract _ _) hp
    ⟨rfl, rfl, by norm_num, by norm_num⟩
    ⟨(101, 0.996), by simp, Or.inl ⟨⟨1, "Z out of range"⟩, fun s hs => ⟨by decide, by decide, by simp [tableFn]⟩⟩⟩
  have h2 := (refr_complex_element_stops (tableFn (fun _ => 0) (fun Z => Z == 101)) (tableFn (fun _ => 16) (fun _ => false))
    (tableFn (fun _ => 3) (fun _ => false)) Slot.empty 0
    (.formula ⟨[(1, (0.004 : ℝ)), (101, 0.996)], 4⟩) [] [(101, 0.996)] 1 0.004 1 10 1 ⟨rfl, rfl, by norm_num, by norm_num⟩ (fun _ => 0) (fun _ => 16)
    (fun _ => 3) (by simp) (by simp) Slot.empty (CxStop.fi (by simp [tableFn]))).1
  rw [h2] at h1
  simp [Slot.withErr] at h1

/-- AS SHIPPED, ON TABLES WITHOUT AN EXACT ZERO: if no successful `Fi` value is 0, `Refractive_Index_Re` meets both clauses -/
theorem refr_re_full_of_nonzero : ReMixtureFull NonZero refrReOf ∧ ReFailsFull NonZero refrReOf := by
  constructor
  · intro fi aw r els ρ E density f' A error live he hnz hr hfi haw hA
    exact refr_re_spec fi aw error live r els ρ E density hr f' A
      (fun p hp => ⟨hfi p hp error he, hnz _ _ (hfi p hp), haw p hp error he, hA p hp⟩)
  · intro fi aw r els ρ E density error live he hnz hfi haw hp hr ⟨q, hq, hbad⟩
    let f' := fun Z => valOf (fi Z) error
    let A := fun Z => valOf (aw Z) error
    rcases first_bad (GoodRe fi aw error f' A) els with hall | ⟨pre, ⟨Z, w⟩, post, hels, hpre, hnot⟩
    · exfalso
      obtain ⟨h1, h1', h2, h2'⟩ := hall q hq
      rcases hbad with ⟨e, hb⟩ | ⟨e, hb⟩
      · rw [fw_eq0 (hb error he)] at h1
        simp only [Except.ok.injEq, Prod.mk.injEq] at h1
        exact h1' h1.1.symm
      · rw [fw_eq0 (hb error he)] at h2
        simp only [Except.ok.injEq, Prod.mk.injEq] at h2
        exact h2' h2.1.symm
    · subst hels
      have hs : ∃ e : Err, e.msg ≠ "" ∧ e.code ≤ XRL_ERROR_RUNTIME ∧
          (FailsWith (fi Z error) error e ∨ (∃ x, fi Z error = .ok (x, error) ∧ x ≠ 0 ∧ FailsWith (aw Z error) error e)) := by
        rcases hfi Z with ⟨x, hx⟩ | ⟨e, hf⟩
        · rcases haw Z with ⟨a, ha⟩ | ⟨e, hf⟩
          · exfalso; apply hnot
            refine ⟨?_, ?_, ?_, ?_⟩
            · show fi Z error = .ok (valOf (fi Z) error, error); rw [valOf_ok (hx error he)]; exact hx error he
            · show valOf (fi Z) error ≠ 0; rw [valOf_ok (hx error he)]; exact hnz Z x hx
            · show aw Z error = .ok (valOf (aw Z) error, error); rw [valOf_ok (ha error he)]; exact ha error he
            · show valOf (aw Z) error ≠ 0; rw [valOf_ok (ha error he)]; exact hp Z a (ha Slot.empty rfl)
          · exact ⟨e, (hf error he).1, (hf error he).2.1, Or.inr ⟨x, hx error he, hnz Z x hx, hf error he⟩⟩
        · exact ⟨e, (hf error he).1, (hf error he).2.1, Or.inl (hf error he)⟩
      obtain ⟨e, e1, e2, hs⟩ := hs
      exact ⟨e, e1, e2, refr_re_element_fails fi aw error live r pre post Z w ρ E density hr f' A hpre e hs⟩

/-- as shipped: if no successful `CS_Total` value is 0, `Refractive_Index_Im` meets both clauses -/
theorem refr_im_full_of_nonzero : ImMixtureFull NonZero refrImOf ∧ ImFailsFull NonZero refrImOf := by
  constructor
  · intro cs r els ρ E density μ error live he hnz hr hcs
    exact refr_im_spec cs error live r els ρ E density hr μ (fun p hp => ⟨hcs p hp error he, hnz _ _ (hcs p hp)⟩)
  · intro cs r els ρ E density error live he hnz hcs hr ⟨q, hq, e0, hb⟩
    let μ := fun Z => valOf (cs Z) error
    rcases first_bad (GoodIm cs error μ) els with hall | ⟨pre, ⟨Z, w⟩, post, hels, hpre, hnot⟩
    · exfalso
      obtain ⟨h1, h1'⟩ := hall q hq
      rw [fw_eq0 (hb error he)] at h1
      simp only [Except.ok.injEq, Prod.mk.injEq] at h1
      exact h1' h1.1.symm
    · subst hels
      rcases hcs Z with ⟨x, hx⟩ | ⟨e, hf⟩
      · exfalso; apply hnot
        refine ⟨?_, ?_⟩
        · show cs Z error = .ok (valOf (cs Z) error, error); rw [valOf_ok (hx error he)]; exact hx error he
        · show valOf (cs Z) error ≠ 0; rw [valOf_ok (hx error he)]; exact hnz Z x hx
      · exact ⟨e, (hf error he).1, (hf error he).2.1, refr_im_element_fails cs error live r pre post Z w ρ E density hr μ hpre e (hf error he)⟩

/-- as shipped: if no successful `Fi` and no successful `CS_Total` value is 0, `Refractive_Index` meets both clauses -/
theorem refr_complex_full_of_nonzero : CxMixtureFull NonZero refrOf ∧ CxFailsFull NonZero refrOf := by
  constructor
  · intro fi aw cs r els ρ E density f' A μ error live he hnz hnzc hr hfi haw hA hcs
    exact (refr_complex_spec fi aw cs error live r els ρ E density hr f' A μ
      (fun p hp => ⟨hfi p hp error he, hnz _ _ (hfi p hp), haw p hp error he, hA p hp⟩)
      (fun p hp => ⟨hcs p hp error he, hnzc _ _ (hcs p hp)⟩)).1
  · intro fi aw cs r els ρ E density error live he hnz hnzc hfi haw hcs hp hr ⟨q, hq, hbad⟩
    let f' := fun Z => valOf (fi Z) error
    let A := fun Z => valOf (aw Z) error
    let μ := fun Z => valOf (cs Z) error
    rcases first_bad (fun p => GoodRe fi aw error f' A p ∧ GoodIm cs error μ p) els with hall | ⟨pre, ⟨Z, w⟩, post, hels, hpre, hnot⟩
    · exfalso
      obtain ⟨⟨h1, h1', h2, h2'⟩, h3, h3'⟩ := hall q hq
      rcases hbad with ⟨e, hb⟩ | ⟨e, hb⟩ | ⟨e, hb⟩
      · rw [fw_eq0 (hb error he)] at h1
        simp only [Except.ok.injEq, Prod.mk.injEq] at h1
        exact h1' h1.1.symm
      · rw [fw_eq0 (hb error he)] at h2
        simp only [Except.ok.injEq, Prod.mk.injEq] at h2
        exact h2' h2.1.symm
      · rw [fw_eq0 (hb error he)] at h3
        simp only [Except.ok.injEq, Prod.mk.injEq] at h3
        exact h3' h3.1.symm
    · subst hels
      have hs : ∃ e : Err, e.msg ≠ "" ∧ e.code ≤ XRL_ERROR_RUNTIME ∧ CxStop fi aw cs error Z (error.withErr e) := by
        rcases hfi Z with ⟨x, hx⟩ | ⟨e, hf⟩
        · rcases haw Z with ⟨a, ha⟩ | ⟨e, hf⟩
          · rcases hcs Z with ⟨c, hc⟩ | ⟨e, hf⟩
            · exfalso; apply hnot
              refine ⟨⟨?_, ?_, ?_, ?_⟩, ?_, ?_⟩
              · show fi Z error = .ok (valOf (fi Z) error, error); rw [valOf_ok (hx error he)]; exact hx error he
              · show valOf (fi Z) error ≠ 0; rw [valOf_ok (hx error he)]; exact hnz Z x hx
              · show aw Z error = .ok (valOf (aw Z) error, error); rw [valOf_ok (ha error he)]; exact ha error he
              · show valOf (aw Z) error ≠ 0; rw [valOf_ok (ha error he)]; exact hp Z a (ha Slot.empty rfl)
              · show cs Z error = .ok (valOf (cs Z) error, error); rw [valOf_ok (hc error he)]; exact hc error he
              · show valOf (cs Z) error ≠ 0; rw [valOf_ok (hc error he)]; exact hnzc Z c hc
            · exact ⟨e, (hf error he).1, (hf error he).2.1,
                .cs x a (hx error he) (hnz Z x hx) (ha error he) (hp Z a (ha Slot.empty rfl)) (fw_eq0 (hf error he))⟩
          · exact ⟨e, (hf error he).1, (hf error he).2.1, .aw x (hx error he) (hnz Z x hx) (fw_eq0 (hf error he))⟩
        · exact ⟨e, (hf error he).1, (hf error he).2.1, .fi (fw_eq0 (hf error he))⟩
      obtain ⟨e, e1, e2, hs⟩ := hs
      exact ⟨e, e1, e2, (refr_complex_element_stops fi aw cs error live r pre post Z w ρ E density hr f' A μ
        (fun p hp => (hpre p hp).1) (fun p hp => (hpre p hp).2) _ hs).1⟩

/-- as shipped, on tables without an exact zero, the three entry points agree in the sense of `EntryPointsAgree` -/
theorem refr_entry_points_agree_nonzero : EntryPointsAgree NonZero refrReOf refrImOf refrOf :=
  entry_points_agree_of_full NonZero _ _ _ refr_re_full_of_nonzero.1 refr_re_full_of_nonzero.2 refr_im_full_of_nonzero.1
    refr_im_full_of_nonzero.2 refr_complex_full_of_nonzero.1 refr_complex_full_of_nonzero.2

theorem refr_complex_fails_iff_nonzero (fi aw cs : El) (r : Resolved ℝ) (els : Els ℝ) (ρ E density : ℝ) (live : Nat)
    (nfi : NonZero fi) (ncs : NonZero cs)
    (ufi : ∀ Z, UContract (fi Z)) (uaw : ∀ Z, UContract (aw Z)) (ucs : ∀ Z, UContract (cs Z)) (hp : AwPos aw) (hr : Ready r els ρ E density) :
    Stored (refrOf r fi aw cs E density Slot.empty live) ↔
      (Stored (refrReOf r fi aw E density Slot.empty live) ∨ Stored (refrImOf r cs E density Slot.empty live)) :=
  complex_fails_iff_of_agree NonZero _ _ _ refr_entry_points_agree_nonzero fi aw cs r els ρ E density live nfi ncs ufi uaw ucs hp hr

/-- non-vacuity of the `NonZero` theorems, on the shape the shipped data has: H2O at 900 keV — `Fi` is tabulated, `CS_Total` is not:
as shipped, `Refractive_Index_Re` succeeds, `Refractive_Index` stores an error -/
example :
    let fi := tableFn (fun _ => -0.02) (fun _ => false)
    let aw := tableFn (fun Z => if Z = 1 then 1.008 else 16) (fun _ => false)
    let cs := tableFn (fun _ => 1) (fun _ => true)
    let r : Resolved ℝ := .formula ⟨[(1, 0.111898), (8, 0.888102)], 4⟩
    Stored (refrOf r fi aw cs 900 1 Slot.empty 0) ∧ ∃ x, refrReOf r fi aw 900 1 Slot.empty 0 = .ok ((x, Slot.empty), 0) := by
  intro fi aw cs r
  have nz : ∀ (ok : Int → ℝ) (bad : Int → Bool), (∀ Z, ok Z ≠ 0) → NonZero (tableFn ok bad) := by
    intro ok bad h Z v hv
    have hv := hv Slot.empty rfl
    by_cases hb : bad Z = true
    · simp [tableFn, hb, Slot.withErr] at hv
    · simp only [tableFn, hb, Bool.false_eq_true, if_false] at hv
      have : ok Z = v := by
        have := congrArg (fun x => match x with | Except.ok (v, _) => v | _ => 0) hv
        simpa using this
      rw [← this]; exact h Z
  have hp : AwPos aw := tableFn_awPos _ (fun Z => by split_ifs <;> norm_num)
  have hr : Ready r [(1, 0.111898), (8, 0.888102)] 1 900 1 := ⟨rfl, rfl, by norm_num, by norm_num⟩
  have hI : Stored (refrImOf r cs 900 1 Slot.empty 0) := by
    obtain ⟨e, _, _, h⟩ := refr_im_full_of_nonzero.2 cs r _ 1 900 1 Slot.empty 0 rfl (nz _ _ (fun _ => by norm_num))
      (tableFn_ucontract _ _) hr
      ⟨(1, 0.111898), by simp, ⟨1, "Z out of range"⟩, fun s hs => ⟨by decide, by decide, by simp [cs, tableFn]⟩⟩
    exact ⟨_, e, _, by simpa [Slot.withErr] using h⟩
  refine ⟨(refr_complex_fails_iff_nonzero fi aw cs r _ 1 900 1 0 (nz _ _ (fun _ => by norm_num)) (nz _ _ (fun _ => by norm_num))
    (tableFn_ucontract _ _) (tableFn_ucontract _ _) (tableFn_ucontract _ _) hp hr).mpr (Or.inr hI), ?_⟩
  exact ⟨_, refr_re_full_of_nonzero.1 fi aw r _ 1 900 1 (fun _ => -0.02) (fun Z => if Z = 1 then 1.008 else 16) Slot.empty 0 rfl
    (nz _ _ (fun _ => by norm_num)) hr (fun p hp => tableFn_okU _ _ p.1 rfl) (fun p hp => tableFn_okU _ _ p.1 rfl)
    (fun p hp => by split_ifs <;> norm_num)⟩

end C06
end XrlC06
