import XrlC06.Lemmas.Begin
import XrlC06.Lemmas.Fixed
import XrlC06.Gen.Table
/-!
# C06 — compound quantities follow the mass-fraction mixture rule

Property theorems only (continued in `Props/C06r.lean`: refractive index at full strength for both bodies, agreement of the entry points).
Model: `XrlC06/Hand/CP.lean` (mirrors src/cs_cp.c and src/refractive_indices.c, each in its as-shipped and its `tmp_error` form);
specification: `XrlC06/Spec/Mixture.lean` (written from the property text); helper lemmas: `XrlC06/Lemmas/*`.

Quantifiers: every theorem holds for compositions of ANY length (induction over the element list), for ALL outcomes of the
two lookups (`parse`, `nist` — C07's and C15's subject), for ALL elemental functions meeting the hypotheses written in
the statement (C01–C05's subject), for every slot that does not already hold an error (`NULL` or empty) and every heap
counter value.
-/
namespace XrlC06
namespace C06
open CP Spec

set_option linter.unusedSimpArgs false
set_option linter.unusedVariables false

/-! ## 1. The generated shape table (re-extracted from the clang AST on every run) -/

/-- the argument list a `_CP` function must forward: the element, then its own parameters between `compound` and
`error` in order, then the slot (the caller's, or — after the proposed repair — the local one) -/
def forwarded (pnames : List String) (slotArg : String) : List String :=
  ["Elements[i]"] ++ (pnames.drop 1).dropLast ++ [slotArg]

def entryConforms (slotArg : String) (e : Gen.CpEntry) : Bool :=
  e.name == e.callee ++ "_CP" && e.ret == "double" &&
  e.ptypes == ["const char *"] ++ List.replicate (e.ptypes.length - 2) "double" ++ ["xrl_error **"] &&
  e.pnames.head? == some "compound" && e.pnames.getLast? == some "error" && e.pnames.length == e.ptypes.length &&
  e.args == forwarded e.pnames slotArg && e.weight == "massFractions[i]" && e.tmpl == 0

/-- every `X_CP` of cs_cp.c calls `X`, forwards its arguments in order, multiplies by `massFractions[i]`, uses template 0;
and the functions defined are exactly the 21 of the property, each once -/
theorem cp_table_conforms :
    Gen.cpTable.all (entryConforms (slotArgOf Gen.cpTemplates)) = true ∧ Gen.cpTable.map (·.callee) = cpFunctions := by
  decide +kernel

/-- all 21 expanded bodies are the same template, and it is, line by line, the one `CP.cpOf`/`CP.cpLoop` mirror:
formula lookup first, NIST second, UNKNOWN_COMPOUND, the loop with `tmp == 0.0 → rv = 0.0; break`, the two frees —
or, line by line, the body after the proposed repair C06-1 that `CP.cpOfFixed`/`CP.cpLoopFixed` mirror (the check runs the
model with the switch the AST shows) -/
theorem cp_template_conforms :
    Gen.cpTemplates = [expectedCpTemplate] ∨ Gen.cpTemplates = [expectedCpTemplateFixed] := by
  decide +kernel

/-- the four refractive-index bodies are, line by line, the ones `CP.refrReOf`, `refrImOf`, `refrOf`, `refr2Of` mirror (as shipped:
`value == 0.0` is the failure test) — or, line by line, the bodies after the proposed repair C06-7 that `CP.refrReOfFixed`,
`refrImOfFixed`, `refrOfFixed`, `refr2OfFixed` mirror (`tmp_error != NULL` is the failure test); never a mixture of the two.
The check runs the model with the switch the AST shows. -/
theorem refr_template_conforms :
    ((Gen.refr_Refractive_Index_Re.body = expectedRe ∧ Gen.refr_Refractive_Index_Im.body = expectedIm ∧
      Gen.refr_Refractive_Index.body = expectedCx) ∨
     (Gen.refr_Refractive_Index_Re.body = expectedReFixed ∧ Gen.refr_Refractive_Index_Im.body = expectedImFixed ∧
      Gen.refr_Refractive_Index.body = expectedCxFixed)) ∧
    Gen.refr_Refractive_Index2.body = expectedCx2 ∧
    Gen.refrNames = ["Refractive_Index_Re", "Refractive_Index_Im", "Refractive_Index", "Refractive_Index2"] := by
  decide +kernel

/-! ## 2. `_CP` functions -/

section cp
variable (f : Int → Slot → M (ℝ × Slot)) (error : Slot) (live : Nat)

/-- the value part `(return value, slot)` of a model result -/
def val {β : Type} (r : M ((β × Slot) × Nat)) : M (β × Slot) := r.map Prod.fst

/-- MIXTURE RULE.  If the lookups yield the composition `els` and every elemental call succeeds with `v_i·w_i ≠ 0`, the
compound call returns `Σ w_i·v_i`, stores no error, and leaves the heap as it found it. -/
theorem cp_value (r : Resolved ℝ) (els : Els ℝ) (hr : r.elements = some els) (v : Int → ℝ)
    (hf : ∀ p ∈ els, f p.1 error = .ok (v p.1, error)) (hnz : ∀ p ∈ els, v p.1 * p.2 ≠ 0) :
    cpOf r f error live = .ok ((mixture els v, error), live) := by
  unfold cpOf
  simp only [hr, cpLoop_value f error v els _ hf hnz, bind_ok, pure_eq_ok, release_alloc, zero_lit, zero_add]

example : cpOf (.formula ⟨[(1, 0.111898), (8, 0.888102)], 4⟩)
    (fun Z s => .ok (if Z = 1 then 0.3855 else 5.952, s)) Slot.empty 7
    = .ok ((mixture [(1, (0.111898 : ℝ)), (8, 0.888102)] (fun Z => if Z = 1 then 0.3855 else 5.952), Slot.empty), 7) := by
  refine cp_value _ _ _ _ _ rfl _ ?_ ?_
  · intro p hp; simp at hp; rcases hp with rfl | rfl <;> simp
  · intro p hp; simp at hp; rcases hp with rfl | rfl <;> norm_num

/-- ONE FAILING ELEMENT FAILS THE COMPOUND, NO PARTIAL SUM.  If the elements before `(Z, w)` succeed (non-zero products)
and the call for `Z` fails with error `e`, the compound call returns 0 with exactly that error handed to the caller —
whatever had been accumulated, whatever follows (the later elements are not even called) — and the heap is as found. -/
theorem cp_element_fails (r : Resolved ℝ) (pre post : Els ℝ) (Z : Int) (w : ℝ) (hr : r.elements = some (pre ++ (Z, w) :: post))
    (v : Int → ℝ) (hpre : ∀ p ∈ pre, f p.1 error = .ok (v p.1, error)) (hnz : ∀ p ∈ pre, v p.1 * p.2 ≠ 0)
    (e : Err) (hZ : FailsWith (f Z error) error e) :
    cpOf r f error live = .ok ((0, error.withErr e), live) ∧ FailsWith (val (cpOf r f error live)) error e := by
  have h : cpOf r f error live = .ok ((0, error.withErr e), live) := by
    unfold cpOf
    simp only [hr, cpLoop_stop f error v Z w 0 (error.withErr e) post pre _ hpre hnz (fw_eq0 hZ) (zero_mul w), bind_ok,
      pure_eq_ok, release_alloc]
  refine ⟨h, hZ.1, hZ.2.1, ?_⟩
  rw [h]; simp [val, Except.map, zero_lit]

example : FailsWith (val (cpOf (.formula ⟨[(8, (0.1 : ℝ)), (99, 0.9)], 4⟩)
    (fun Z s => if Z = 99 then .ok (0.0, s.withErr ⟨1, "Z out of range"⟩) else .ok (5.952, s)) Slot.empty 0)) Slot.empty
    ⟨1, "Z out of range"⟩ := by
  refine (cp_element_fails _ _ _ _ [(8, 0.1)] [] 99 0.9 rfl (fun _ => 5.952) ?_ ?_ _ ?_).2
  · intro p hp; simp at hp; subst hp; simp
  · intro p hp; simp at hp; subst hp; norm_num
  · exact ⟨by decide, by decide, by simp⟩

/-- a name that is neither a formula nor a NIST compound: error UNKNOWN_COMPOUND, value 0, nothing allocated -/
theorem cp_unknown_compound (he : error.isFull = false) :
    cp (none : Option (Parsed ℝ)) none f error live
      = .ok ((0, error.withErr ⟨XRL_ERROR_INVALID_ARGUMENT, UNKNOWN_COMPOUND⟩), live) ∧
    FailsWith (val (cp (none : Option (Parsed ℝ)) none f error live)) error ⟨XRL_ERROR_INVALID_ARGUMENT, UNKNOWN_COMPOUND⟩ := by
  have h : cp (none : Option (Parsed ℝ)) none f error live
      = .ok ((0, error.withErr ⟨XRL_ERROR_INVALID_ARGUMENT, UNKNOWN_COMPOUND⟩), live) := by
    unfold cp cpOf resolve
    simp only [Resolved.elements, setErr_notFull he, bind_ok, pure_eq_ok, zero_lit]
  refine ⟨h, by decide, by decide, ?_⟩
  rw [h]; simp [val, Except.map, zero_lit]

example : cp (none : Option (Parsed ℝ)) none (fun _ s => .ok (1, s)) Slot.null 3
    = .ok ((0, Slot.null), 3) := (cp_unknown_compound _ Slot.null 3 rfl).1

/-- formula resolution takes precedence over the NIST catalogue: when the parser accepts the name, the result does not
depend on what the catalogue would have answered -/
theorem cp_formula_precedence (p : Parsed ℝ) (nist nist' : Option (Nist ℝ)) :
    resolve (some p) nist = .formula p ∧ cp (some p) nist f error live = cp (some p) nist' f error live := by
  constructor <;> rfl

/-- … and the catalogue is used exactly when the parser rejected the name -/
theorem cp_nist_fallback (n : Nist ℝ) : resolve (none : Option (Parsed ℝ)) (some n) = .nist n := rfl

/-- an implementation of the shared `_CP` body -/
abbrev Impl := Resolved ℝ → (Int → Slot → M (ℝ × Slot)) → Slot → Nat → M ((ℝ × Slot) × Nat)

/-- THE PROPERTY AT FULL STRENGTH, first clause: "all elemental calls succeed ⇒ the result is Σ w_i·v_i" … -/
def MixtureFull (impl : Impl) : Prop :=
  ∀ (f : Int → Slot → M (ℝ × Slot)) (r : Resolved ℝ) (els : Els ℝ) (v : Int → ℝ) (error : Slot) (live : Nat),
    error.isFull = false → r.elements = some els →
    (∀ p ∈ els, ∀ s : Slot, s.isFull = false → f p.1 s = .ok (v p.1, s)) →
    impl r f error live = .ok ((mixture els v, error), live)

/-- … second clause: "an element for which the elemental function fails makes the compound call fail" -/
def FailsFull (impl : Impl) : Prop :=
  ∀ (f : Int → Slot → M (ℝ × Slot)) (r : Resolved ℝ) (els : Els ℝ) (error : Slot) (live : Nat),
    error.isFull = false → (∀ Z, Contract (f Z)) → r.elements = some els →
    (∃ p ∈ els, ∀ s : Slot, s.isFull = false → ∃ e, FailsWith (f p.1 s) s e) →
    Fails (val (impl r f error live)) error

/-- THE CORNER THE CODE REALLY HAS: a successful elemental value with `v_i·w_i = 0` makes the call return 0 WITHOUT an
error, dropping what the other elements contribute (`tmp == 0.0 → rv = 0.0; break`, cs_cp.c:48-51). -/
theorem cp_zero_product_witness :
    cpOf (.formula ⟨[(1, (0.5 : ℝ)), (8, 0.5)], 4⟩) (fun Z s => .ok (if Z = 1 then 0 else 3, s)) Slot.empty 0
      = .ok ((0, Slot.empty), 0) ∧
    mixture [(1, (0.5 : ℝ)), (8, 0.5)] (fun Z => if Z = 1 then 0 else 3) = 1.5 := by
  constructor
  · simp [cpOf, Resolved.elements, Resolved.alloc, Resolved.release, cpLoop, zero_lit]
  · simp [mixture]; norm_num

/-- the first clause is false for the code as it is (not reachable through the real lookups and elemental functions as
long as mass fractions are positive and a zero elemental value is zero for every element: see the report) -/
theorem cp_mixture_full_fails : ¬ MixtureFull cpOf := by
  intro h
  have h1 := h (fun Z s => .ok (if Z = 1 then 0 else 3, s)) (.formula ⟨[(1, (0.5 : ℝ)), (8, 0.5)], 4⟩)
    [(1, 0.5), (8, 0.5)] (fun Z => if Z = 1 then 0 else 3) Slot.empty 0 rfl rfl (by intro p hp s hs; rfl)
  rw [cp_zero_product_witness.1, cp_zero_product_witness.2] at h1
  norm_num at h1

/-- the second clause is false for the code as it is, and this one IS reachable (known finding `cs_cp.c:48-51`):
`DCSP_Rayl_CP("MdH", 1.0, π/2, 0)` — hydrogen's polarised Rayleigh cross section is exactly 0 in that direction, the loop
stops there, mendelevium (no data) is never asked, and the call returns 0 with no error -/
theorem cp_fails_full_fails : ¬ FailsFull cpOf := by
  intro h
  have hc : ∀ Z, Contract ((fun (Z : Int) (s : Slot) =>
      if Z = 101 then (.ok (0.0, s.withErr ⟨1, "Z out of range"⟩) : M (ℝ × Slot)) else .ok (0, s)) Z) := by
    intro Z s hs
    by_cases hz : Z = 101
    · right; exact ⟨⟨1, "Z out of range"⟩, by decide, by decide, by simp [hz]⟩
    · left; exact ⟨0, by simp [hz]⟩
  have h1 := h _ (.formula ⟨[(1, (0.004 : ℝ)), (101, 0.996)], 4⟩) [(1, 0.004), (101, 0.996)] Slot.empty 0 rfl hc rfl
    ⟨(101, 0.996), by simp, fun s hs => ⟨⟨1, "Z out of range"⟩, by decide, by decide, by simp⟩⟩
  obtain ⟨e, _, _, h2⟩ := h1
  simp [val, cpOf, Resolved.elements, Resolved.alloc, Resolved.release, cpLoop, zero_lit, Except.map, Slot.withErr] at h2

/-- the general form of the corner: first element with a zero product, succeeding — value 0, no error, heap as found -/
theorem cp_zero_product (r : Resolved ℝ) (pre post : Els ℝ) (Z : Int) (w x : ℝ) (hr : r.elements = some (pre ++ (Z, w) :: post))
    (v : Int → ℝ) (hpre : ∀ p ∈ pre, f p.1 error = .ok (v p.1, error)) (hnz : ∀ p ∈ pre, v p.1 * p.2 ≠ 0)
    (hZ : f Z error = .ok (x, error)) (hx : x * w = 0) :
    cpOf r f error live = .ok ((0, error), live) := by
  unfold cpOf
  simp only [hr, cpLoop_stop f error v Z w x error post pre _ hpre hnz hZ hx, bind_ok, pure_eq_ok, release_alloc]

/-- FOR ALL BEHAVIOURS OF THE ELEMENTAL FUNCTION THAT MEET THE CONTRACT (success with the slot untouched, or value 0 and
exactly one error), the compound call does exactly one of three things, and always restores the heap:
 (1) unknown compound → UNKNOWN_COMPOUND;
 (2) all elements succeed with non-zero products → `Σ w_i·v_i`, no error;
 (3) otherwise, at the FIRST element that fails or yields a zero product: value 0, and the slot holds that element's
     error (failure) or nothing (zero product — the corner above). -/
theorem cp_spec (hc : ∀ Z, Contract (f Z)) (he : error.isFull = false) (parse : Option (Parsed ℝ)) (nist : Option (Nist ℝ)) :
    let r := resolve parse nist
    let v := fun Z => valOf (f Z) error
    (r.elements = none ∧ cp parse nist f error live = .ok ((0, error.withErr ⟨XRL_ERROR_INVALID_ARGUMENT, UNKNOWN_COMPOUND⟩), live)) ∨
    (∃ els, r.elements = some els ∧ (∀ p ∈ els, f p.1 error = .ok (v p.1, error) ∧ v p.1 * p.2 ≠ 0) ∧
        cp parse nist f error live = .ok ((mixture els v, error), live)) ∨
    (∃ pre Z w post, r.elements = some (pre ++ (Z, w) :: post) ∧
        (∀ p ∈ pre, f p.1 error = .ok (v p.1, error) ∧ v p.1 * p.2 ≠ 0) ∧
        ((∃ e, FailsWith (f Z error) error e ∧ cp parse nist f error live = .ok ((0, error.withErr e), live)) ∨
         (f Z error = .ok (v Z, error) ∧ v Z * w = 0 ∧ cp parse nist f error live = .ok ((0, error), live)))) := by
  intro r v
  cases hr : r.elements with
  | none =>
    left
    refine ⟨rfl, ?_⟩
    show cpOf r f error live = _
    unfold cpOf
    simp only [hr, setErr_notFull he, bind_ok, pure_eq_ok, zero_lit]
  | some els =>
    right
    rcases first_bad (fun p : Int × ℝ => f p.1 error = .ok (v p.1, error) ∧ v p.1 * p.2 ≠ 0) els with hall | ⟨pre, ⟨Z, w⟩, post, rfl, hpre, hbad⟩
    · left
      exact ⟨els, rfl, hall, cp_value f error live r els hr v (fun p hp => (hall p hp).1) (fun p hp => (hall p hp).2)⟩
    · right
      refine ⟨pre, Z, w, post, rfl, hpre, ?_⟩
      rcases hc Z error he with ⟨x, hx⟩ | ⟨e, hf⟩
      · right
        have hv : v Z = x := valOf_ok hx
        have h0 : v Z * w = 0 := by
          by_contra hne
          exact hbad ⟨by simpa [hv] using hx, hne⟩
        refine ⟨by simpa [hv] using hx, h0, ?_⟩
        exact cp_zero_product f error live r pre post Z w x hr v (fun p hp => (hpre p hp).1) (fun p hp => (hpre p hp).2) hx (by rw [← hv]; exact h0)
      · left
        exact ⟨e, hf, (cp_element_fails f error live r pre post Z w hr v (fun p hp => (hpre p hp).1) (fun p hp => (hpre p hp).2) e hf).1⟩

/-- the contract is satisfiable by a function that succeeds, fails, and returns an honest 0 on different elements -/
example : ∀ Z, Contract ((fun (Z : Int) (s : Slot) =>
    if Z = 99 then (.ok (0.0, s.withErr ⟨1, "no data"⟩) : M (ℝ × Slot)) else .ok (if Z = 1 then 0 else 3, s)) Z) := by
  intro Z s hs
  by_cases h : Z = 99
  · right; exact ⟨⟨1, "no data"⟩, by decide, by decide, by simp [h]⟩
  · left; exact ⟨if Z = 1 then 0 else 3, by simp [h]⟩

/-- TEMPORARIES RELEASED ON EVERY EXIT of a `_CP` function: whatever the lookups answer and whatever the elemental
function does within its contract, the call terminates normally and the live-block counter is back at its initial value -/
theorem cp_temporaries_released (hc : ∀ Z, Contract (f Z)) (he : error.isFull = false) (parse : Option (Parsed ℝ)) (nist : Option (Nist ℝ)) :
    ∃ x, cp parse nist f error live = .ok (x, live) := by
  rcases cp_spec f error live hc he parse nist with ⟨_, h⟩ | ⟨_, _, _, h⟩ | ⟨_, _, _, _, _, _, ⟨_, _, h⟩ | ⟨_, _, h⟩⟩ <;> exact ⟨_, h⟩

example : ∃ x, cp (none : Option (Parsed ℝ)) (some ⟨[(1, 0.5), (8, 0.5)], 1.0, 4⟩)
    (fun Z s => if Z = 8 then .ok (0.0, s.withErr ⟨1, "no data"⟩) else .ok (3, s)) Slot.empty 11 = .ok (x, 11) := by
  refine cp_temporaries_released _ _ _ ?_ rfl _ _
  intro Z s hs
  by_cases h : Z = 8
  · right; exact ⟨⟨1, "no data"⟩, by decide, by decide, by simp [h]⟩
  · left; exact ⟨3, by simp [h]⟩

/-! ### after the proposed repair (notes/proposed_fixes/C06-1.diff): both clauses hold at full strength -/

/-- repaired body: every element succeeds ⇒ `Σ w_i·v_i`, zero values included -/
theorem cp_mixture_full_fixed : MixtureFull cpOfFixed := by
  intro f r els v error live he hr hf
  unfold cpOfFixed
  simp only [hr, cpLoopFixed_value f error v els _ (fun p hp => hf p hp Slot.empty rfl), bind_ok, pure_eq_ok, release_alloc,
    zero_lit, zero_add]

/-- repaired body: the first failing element fails the compound call with its own error, whatever came before -/
theorem cp_element_fails_fixed (he : error.isFull = false) (r : Resolved ℝ) (pre post : Els ℝ) (Z : Int) (w : ℝ)
    (hr : r.elements = some (pre ++ (Z, w) :: post)) (v : Int → ℝ)
    (hpre : ∀ p ∈ pre, f p.1 Slot.empty = .ok (v p.1, Slot.empty)) (e : Err) (hZ : FailsWith (f Z Slot.empty) Slot.empty e) :
    cpOfFixed r f error live = .ok ((0, error.withErr e), live) := by
  unfold cpOfFixed
  simp only [hr, cpLoopFixed_stop f error he v Z w 0 e post pre _ hpre (fw_eq0 hZ), bind_ok, pure_eq_ok, release_alloc]

example : cpOfFixed (.formula ⟨[(1, (0.004 : ℝ)), (101, 0.996)], 4⟩)
    (fun Z s => if Z = 101 then .ok (0.0, s.withErr ⟨1, "Z out of range"⟩) else .ok (0, s)) Slot.empty 0
    = .ok ((0, Slot.full ⟨1, "Z out of range"⟩), 0) := by
  refine cp_element_fails_fixed _ _ _ rfl _ [(1, 0.004)] [] 101 0.996 rfl (fun _ => 0) ?_ _ ⟨by decide, by decide, by simp [Slot.withErr]⟩
  intro p hp; simp at hp; subst hp; simp

theorem cp_fails_full_fixed : FailsFull cpOfFixed := by
  intro f r els error live he hc hr ⟨q, hq, hfail⟩
  let v := fun Z => valOf (f Z) Slot.empty
  rcases first_bad (fun p : Int × ℝ => f p.1 Slot.empty = .ok (v p.1, Slot.empty)) els with hall | ⟨pre, ⟨Z, w⟩, post, rfl, hpre, hbad⟩
  · exfalso
    obtain ⟨e, he1, he2, he3⟩ := hfail Slot.empty rfl
    have := hall q hq
    rw [he3] at this
    simp [Slot.withErr] at this
  · rcases hc Z Slot.empty rfl with ⟨x, hx⟩ | ⟨e, hf⟩
    · exact absurd (by simpa [v, valOf_ok hx] using hx) hbad
    · have h := cp_element_fails_fixed f error live he r pre post Z w hr v hpre e hf
      refine ⟨e, hf.1, hf.2.1, ?_⟩
      rw [h]; simp [val, Except.map, zero_lit]

/-- repaired body: released on every exit -/
theorem cp_temporaries_released_fixed (hc : ∀ Z, Contract (f Z)) (he : error.isFull = false) (parse : Option (Parsed ℝ)) (nist : Option (Nist ℝ)) :
    ∃ x, cpFixed parse nist f error live = .ok (x, live) := by
  unfold cpFixed
  cases hr : (resolve parse nist).elements with
  | none => unfold cpOfFixed; simp only [hr, setErr_notFull he, bind_ok, pure_eq_ok]; exact ⟨_, rfl⟩
  | some els =>
    let v := fun Z => valOf (f Z) Slot.empty
    rcases first_bad (fun p : Int × ℝ => f p.1 Slot.empty = .ok (v p.1, Slot.empty)) els with hall | ⟨pre, ⟨Z, w⟩, post, rfl, hpre, hbad⟩
    · unfold cpOfFixed
      simp only [hr, cpLoopFixed_value f error v els _ hall, bind_ok, pure_eq_ok, release_alloc]; exact ⟨_, rfl⟩
    · rcases hc Z Slot.empty rfl with ⟨x, hx⟩ | ⟨e, hf⟩
      · exact absurd (by simpa [v, valOf_ok hx] using hx) hbad
      · exact ⟨_, cp_element_fails_fixed f error live he _ pre post Z w hr v hpre e hf⟩

/-- repaired body: a name that is neither a formula nor a NIST compound (in particular the NULL pointer, for which both lookups
answer NULL): error UNKNOWN_COMPOUND, value 0, nothing allocated -/
theorem cp_unknown_compound_fixed (he : error.isFull = false) :
    cpFixed (none : Option (Parsed ℝ)) none f error live
      = .ok ((0, error.withErr ⟨XRL_ERROR_INVALID_ARGUMENT, UNKNOWN_COMPOUND⟩), live) ∧
    FailsWith (val (cpFixed (none : Option (Parsed ℝ)) none f error live)) error ⟨XRL_ERROR_INVALID_ARGUMENT, UNKNOWN_COMPOUND⟩ := by
  have h : cpFixed (none : Option (Parsed ℝ)) none f error live
      = .ok ((0, error.withErr ⟨XRL_ERROR_INVALID_ARGUMENT, UNKNOWN_COMPOUND⟩), live) := by
    unfold cpFixed cpOfFixed resolve
    simp only [Resolved.elements, setErr_notFull he, bind_ok, pure_eq_ok, zero_lit]
  refine ⟨h, by decide, by decide, ?_⟩
  rw [h]; simp [val, Except.map, zero_lit]

example : cpFixed (none : Option (Parsed ℝ)) none (fun _ s => .ok (1, s)) Slot.empty 3
    = .ok ((0, Slot.full ⟨1, UNKNOWN_COMPOUND⟩), 3) := (cp_unknown_compound_fixed _ Slot.empty 3 rfl).1

end cp

/-! ## 3. Refractive index -/

section refr
variable (fi aw cs : Int → Slot → M (ℝ × Slot)) (error : Slot) (live : Nat)

/-- the three error exits of `REFR_BEGIN`, identical for the real, imaginary and complex entry points: unknown compound;
non-positive density (after a NIST entry has supplied its own); non-positive energy.  Value 0 (resp. (0,0)), exactly that
error, heap as found. -/
theorem refr_guard_errors (he : error.isFull = false) (r : Resolved ℝ) (E density : ℝ) (m : String)
    (hg : (r.elements = none ∧ m = UNKNOWN_COMPOUND) ∨
          (r.elements ≠ none ∧ effDensity r density ≤ 0 ∧ m = NEGATIVE_DENSITY) ∨
          (r.elements ≠ none ∧ 0 < effDensity r density ∧ E ≤ 0 ∧ m = NEGATIVE_ENERGY)) :
    refrReOf r fi aw E density error live = .ok ((0, error.withErr ⟨XRL_ERROR_INVALID_ARGUMENT, m⟩), live) ∧
    refrImOf r cs E density error live = .ok ((0, error.withErr ⟨XRL_ERROR_INVALID_ARGUMENT, m⟩), live) ∧
    refrOf r fi aw cs E density error live = .ok (((0, 0), error.withErr ⟨XRL_ERROR_INVALID_ARGUMENT, m⟩), live) := by
  have hb : refrBegin r E density error live = .ok (.inl (error.withErr ⟨XRL_ERROR_INVALID_ARGUMENT, m⟩, live)) := by
    rcases hg with ⟨h, rfl⟩ | ⟨h, hd, rfl⟩ | ⟨h, hd, hE, rfl⟩
    · exact refrBegin_unknown h E density he live
    · obtain ⟨els, hels⟩ := Option.ne_none_iff_exists'.mp h
      exact refrBegin_density hels E density hd he live
    · obtain ⟨els, hels⟩ := Option.ne_none_iff_exists'.mp h
      exact refrBegin_energy hels E density hd hE he live
  refine ⟨?_, ?_, ?_⟩
  · unfold refrReOf; simp only [hb, bind_ok, pure_eq_ok, zero_lit]
  · unfold refrImOf; simp only [hb, bind_ok, pure_eq_ok, zero_lit]
  · unfold refrOf; simp only [hb, bind_ok, pure_eq_ok, zero_lit]

/-- water at density −1 (a formula: no substitution) and at energy 0 -/
example : refrReOf (.formula ⟨[(1, (0.111898 : ℝ)), (8, 0.888102)], 4⟩) fi aw 10 (-1) Slot.empty 5
    = .ok ((0, Slot.full ⟨1, NEGATIVE_DENSITY⟩), 5) :=
  (refr_guard_errors fi aw (fun _ s => .ok (1, s)) Slot.empty 5 rfl _ 10 (-1) NEGATIVE_DENSITY
    (Or.inr (Or.inl ⟨by simp [Resolved.elements], by simp [effDensity], rfl⟩))).1

/-- NIST DENSITY SUBSTITUTION: a NIST entry supplies its own density exactly when the caller's is not positive; a formula
never does; the caller's positive density is never ignored -/
theorem refr_nist_density (n : Nist ℝ) (p : Parsed ℝ) (density : ℝ) :
    (density ≤ 0 → effDensity (.nist n) density = n.density) ∧
    (0 < density → effDensity (.nist n) density = density) ∧
    effDensity (.formula p) density = density := by
  refine ⟨fun h => ?_, fun h => ?_, rfl⟩
  · simp [effDensity, zero_lit, h]
  · simp [effDensity, zero_lit, not_le.mpr h]

/-- REAL PART.  Lookups answered, effective density `ρ > 0`, `E > 0`, every `Fi` and `AtomicWeight` call succeeding with
a non-zero value: the result is `1 − ρ·Σ w_i·K·(Z_i + f'_i)/A_i / E²`, no error, heap as found. -/
theorem refr_re_spec (r : Resolved ℝ) (els : Els ℝ) (ρ E density : ℝ) (hr : Ready r els ρ E density) (f' A : Int → ℝ)
    (hg : ∀ p ∈ els, GoodRe fi aw error f' A p) :
    refrReOf r fi aw E density error live = .ok ((Spec.refrRe els f' A E ρ, error), live) := by
  have hE : E ≠ 0 := hr.E_pos.ne'
  unfold refrReOf
  simp only [refrBegin_ready hr, bind_ok, zero_lit, one_lit, reLoop_value fi aw error E hE f' A els _ hg, pure_eq_ok,
    release_alloc, re_final]

/-- liquid water from the NIST catalogue, caller's density 0: the entry's own density 1.0 is used -/
example : refrReOf (.nist ⟨[(1, (0.111898 : ℝ)), (8, 0.888102)], 1.0, 4⟩) (fun _ s => .ok (-0.02, s)) (fun Z s => .ok (if Z = 1 then 1.01 else 16.0, s))
    10 0 Slot.empty 2
    = .ok ((Spec.refrRe [(1, (0.111898 : ℝ)), (8, 0.888102)] (fun _ => -0.02) (fun Z => if Z = 1 then 1.01 else 16.0) 10 1.0, Slot.empty), 2) := by
  refine refr_re_spec _ _ _ _ _ _ 1.0 10 0 ⟨rfl, ?_, by norm_num, by norm_num⟩ _ _ ?_
  · simp [effDensity, zero_lit]
  · intro p hp; simp at hp
    rcases hp with rfl | rfl <;> refine ⟨rfl, by norm_num, by simp, by norm_num⟩

/-- the first call that returns 0 — `Fi`, or `AtomicWeight` after a non-zero `Fi` — ends `Refractive_Index_Re` with value
0 and the slot as that call left it -/
theorem refr_re_element_stops (r : Resolved ℝ) (pre post : Els ℝ) (Z : Int) (w ρ E density : ℝ)
    (hr : Ready r (pre ++ (Z, w) :: post) ρ E density) (f' A : Int → ℝ) (hg : ∀ p ∈ pre, GoodRe fi aw error f' A p) (s' : Slot)
    (hZ : fi Z error = .ok (0, s') ∨ (∃ x, fi Z error = .ok (x, error) ∧ x ≠ 0 ∧ aw Z error = .ok (0, s'))) :
    refrReOf r fi aw E density error live = .ok ((0, s'), live) := by
  have hE : E ≠ 0 := hr.E_pos.ne'
  have hl : reLoop fi aw E (pre ++ (Z, w) :: post) 0 error = .ok (.inl s') := by
    rcases hZ with h | ⟨x, h1, hx, h⟩
    · exact reLoop_stop_fi fi aw error E hE f' A Z w _ post pre 0 hg h
    · exact reLoop_stop_aw fi aw error E hE f' A Z w x _ post pre 0 hg h1 hx h
  unfold refrReOf
  simp only [refrBegin_ready hr, bind_ok, zero_lit, hl, pure_eq_ok, release_alloc]

/-- the first element whose `Fi` or `AtomicWeight` call FAILS makes the real part fail with that call's error, value 0 -/
theorem refr_re_element_fails (r : Resolved ℝ) (pre post : Els ℝ) (Z : Int) (w ρ E density : ℝ)
    (hr : Ready r (pre ++ (Z, w) :: post) ρ E density) (f' A : Int → ℝ) (hg : ∀ p ∈ pre, GoodRe fi aw error f' A p) (e : Err)
    (hZ : FailsWith (fi Z error) error e ∨
          (∃ x, fi Z error = .ok (x, error) ∧ x ≠ 0 ∧ FailsWith (aw Z error) error e)) :
    refrReOf r fi aw E density error live = .ok ((0, error.withErr e), live) := by
  refine refr_re_element_stops fi aw error live r pre post Z w ρ E density hr f' A hg _ ?_
  rcases hZ with h | ⟨x, h1, hx, h⟩
  · exact Or.inl (fw_eq0 h)
  · exact Or.inr ⟨x, h1, hx, fw_eq0 h⟩

example : refrReOf (.formula ⟨[(8, (0.1 : ℝ)), (101, 0.9)], 4⟩)
    (fun Z s => if Z = 101 then .ok (0.0, s.withErr ⟨1, "Z out of range"⟩) else .ok (-0.02, s)) (fun _ s => .ok (16.0, s))
    10 1 Slot.empty 0 = .ok ((0, Slot.full ⟨1, "Z out of range"⟩), 0) := by
  refine refr_re_element_fails _ _ _ _ _ [(8, 0.1)] [] 101 0.9 1 10 1 ⟨rfl, rfl, by norm_num, by norm_num⟩ (fun _ => -0.02) (fun _ => 16.0) ?_ _
    (Or.inl ⟨by decide, by decide, by simp⟩)
  intro p hp; simp at hp; subst hp
  exact ⟨by simp, by norm_num, rfl, by norm_num⟩

/-- what happens without the hypothesis `f'_i ≠ 0` (resp. `A_i ≠ 0`): a SUCCESSFUL `Fi` value that is exactly 0 makes
`Refractive_Index_Re` return 0 — not `1 − …` — without any error (refractive_indices.c:74-77) -/
theorem refr_re_zero_witness :
    refrReOf (.formula ⟨[(8, (1 : ℝ))], 4⟩) (fun _ s => .ok (0, s)) (fun _ s => .ok (16, s)) 10 1 Slot.empty 0
      = .ok ((0, Slot.empty), 0) ∧
    Spec.refrRe [(8, (1 : ℝ))] (fun _ => 0) (fun _ => 16) 10 1 ≠ 0 := by
  constructor
  · exact refr_re_element_stops _ _ _ _ _ [] [] 8 1 1 10 1 ⟨rfl, rfl, by norm_num, by norm_num⟩ (fun _ => 0) (fun _ => 16) (by simp) _
      (Or.inl rfl)
  · simp [Spec.refrRe, K, one_lit]; norm_num

/-- IMAGINARY PART.  Same guards, every `CS_Total` call succeeding with a non-zero value:
`ρ·(Σ w_i·μ_i)·9.8663479e-9 / E`. -/
theorem refr_im_spec (r : Resolved ℝ) (els : Els ℝ) (ρ E density : ℝ) (hr : Ready r els ρ E density) (μ : Int → ℝ)
    (hg : ∀ p ∈ els, GoodIm cs error μ p) :
    refrImOf r cs E density error live = .ok ((Spec.refrIm els μ E ρ, error), live) := by
  have hE : E ≠ 0 := hr.E_pos.ne'
  unfold refrImOf
  simp only [refrBegin_ready hr, bind_ok, zero_lit, imLoop_value cs error μ els _ hg, imFinal_real _ _ _ hE, pure_eq_ok,
    release_alloc, im_final]

example : refrImOf (.formula ⟨[(1, (0.111898 : ℝ)), (8, 0.888102)], 4⟩) (fun Z s => .ok (if Z = 1 then 0.3855 else 5.952, s))
    10 1 Slot.null 2
    = .ok ((Spec.refrIm [(1, (0.111898 : ℝ)), (8, 0.888102)] (fun Z => if Z = 1 then 0.3855 else 5.952) 10 1, Slot.null), 2) := by
  refine refr_im_spec _ _ _ _ _ 1 10 1 ⟨rfl, rfl, by norm_num, by norm_num⟩ _ ?_
  intro p hp; simp at hp
  rcases hp with rfl | rfl <;> exact ⟨by simp, by norm_num⟩

/-- the first `CS_Total` call that returns 0 ends `Refractive_Index_Im` with value 0 and the slot as that call left it -/
theorem refr_im_element_stops (r : Resolved ℝ) (pre post : Els ℝ) (Z : Int) (w ρ E density : ℝ)
    (hr : Ready r (pre ++ (Z, w) :: post) ρ E density) (μ : Int → ℝ) (hg : ∀ p ∈ pre, GoodIm cs error μ p) (s' : Slot)
    (hZ : cs Z error = .ok (0, s')) :
    refrImOf r cs E density error live = .ok ((0, s'), live) := by
  unfold refrImOf
  simp only [refrBegin_ready hr, bind_ok, zero_lit, imLoop_stop cs error μ Z w _ post pre 0 hg hZ, pure_eq_ok, release_alloc]

theorem refr_im_element_fails (r : Resolved ℝ) (pre post : Els ℝ) (Z : Int) (w ρ E density : ℝ)
    (hr : Ready r (pre ++ (Z, w) :: post) ρ E density) (μ : Int → ℝ) (hg : ∀ p ∈ pre, GoodIm cs error μ p) (e : Err)
    (hZ : FailsWith (cs Z error) error e) :
    refrImOf r cs E density error live = .ok ((0, error.withErr e), live) :=
  refr_im_element_stops cs error live r pre post Z w ρ E density hr μ hg _ (fw_eq0 hZ)

example : refrImOf (.formula ⟨[(8, (0.1 : ℝ)), (99, 0.9)], 4⟩)
    (fun Z s => if Z = 99 then .ok (0.0, s.withErr ⟨1, "Z out of range"⟩) else .ok (5.952, s))
    10 1 Slot.empty 0 = .ok ((0, Slot.full ⟨1, "Z out of range"⟩), 0) := by
  refine refr_im_element_fails _ _ _ _ [(8, 0.1)] [] 99 0.9 1 10 1 ⟨rfl, rfl, by norm_num, by norm_num⟩ (fun _ => 5.952) ?_ _
    ⟨by decide, by decide, by simp⟩
  intro p hp; simp at hp; subst hp
  exact ⟨by simp, by norm_num⟩

/-- a successful `CS_Total` value that is exactly 0: `Refractive_Index_Im` returns 0 without an error (:106-109) — here the
value the rule gives is not 0 because the other element contributes -/
theorem refr_im_zero_witness :
    refrImOf (.formula ⟨[(1, (0.5 : ℝ)), (8, 0.5)], 4⟩) (fun Z s => .ok (if Z = 1 then 0 else 3, s)) 10 1 Slot.empty 0
      = .ok ((0, Slot.empty), 0) ∧
    Spec.refrIm [(1, (0.5 : ℝ)), (8, 0.5)] (fun Z => if Z = 1 then 0 else 3) 10 1 ≠ 0 := by
  constructor
  · exact refr_im_element_stops _ _ _ _ [] [(8, 0.5)] 1 0.5 1 10 1 ⟨rfl, rfl, by norm_num, by norm_num⟩ (fun _ => 3) (by simp) _
      (by simp)
  · simp [Spec.refrIm, mixture, hc4pi]; norm_num

/-- COMPLEX ENTRY POINTS.  When all three elemental functions succeed with non-zero values on every element,
`Refractive_Index` returns the pair of the specification's real and imaginary parts — the very values
`Refractive_Index_Re` and `Refractive_Index_Im` return — and `Refractive_Index2` stores the same pair. -/
theorem refr_complex_spec (r : Resolved ℝ) (els : Els ℝ) (ρ E density : ℝ) (hr : Ready r els ρ E density) (f' A μ : Int → ℝ)
    (hg : ∀ p ∈ els, GoodRe fi aw error f' A p) (hm : ∀ p ∈ els, GoodIm cs error μ p) :
    refrOf r fi aw cs E density error live = .ok (((Spec.refrRe els f' A E ρ, Spec.refrIm els μ E ρ), error), live) ∧
    refr2Of r fi aw cs E density error live = refrOf r fi aw cs E density error live ∧
    refrReOf r fi aw E density error live = .ok ((Spec.refrRe els f' A E ρ, error), live) ∧
    refrImOf r cs E density error live = .ok ((Spec.refrIm els μ E ρ, error), live) := by
  have hE : E ≠ 0 := hr.E_pos.ne'
  have h : refrOf r fi aw cs E density error live = .ok (((Spec.refrRe els f' A E ρ, Spec.refrIm els μ E ρ), error), live) := by
    unfold refrOf
    simp only [refrBegin_ready hr, bind_ok, zero_lit, one_lit, cxLoop_value fi aw cs error E hE f' A μ els _ _ hg hm,
      imFinal_real _ _ _ hE, pure_eq_ok, release_alloc, re_final, im_final]
  refine ⟨h, ?_, refr_re_spec fi aw error live r els ρ E density hr f' A hg, refr_im_spec cs error live r els ρ E density hr μ hm⟩
  unfold refr2Of; rw [h]; rfl

example : ∃ z, refrOf (.formula ⟨[(1, (0.111898 : ℝ)), (8, 0.888102)], 4⟩) (fun _ s => .ok (-0.02, s))
    (fun Z s => .ok (if Z = 1 then 1.01 else 16.0, s)) (fun Z s => .ok (if Z = 1 then 0.3855 else 5.952, s)) 10 1 Slot.empty 2
    = .ok ((z, Slot.empty), 2) := by
  refine ⟨_, (refr_complex_spec _ _ _ _ _ _ _ 1 10 1 ⟨rfl, rfl, by norm_num, by norm_num⟩ (fun _ => -0.02) (fun Z => if Z = 1 then 1.01 else 16.0)
    (fun Z => if Z = 1 then 0.3855 else 5.952) ?_ ?_).1⟩
  · intro p hp; simp at hp
    rcases hp with rfl | rfl <;> refine ⟨rfl, by norm_num, by simp, by norm_num⟩
  · intro p hp; simp at hp
    rcases hp with rfl | rfl <;> exact ⟨by simp, by norm_num⟩

/-- the first call (order `Fi`, `AtomicWeight`, `CS_Total` within an element) that returns 0 after only non-zero successes
ends `Refractive_Index` with (0, 0) and that call's slot: the call's error if it failed, nothing if it succeeded with 0 -/
theorem refr_complex_element_stops (r : Resolved ℝ) (pre post : Els ℝ) (Z : Int) (w ρ E density : ℝ)
    (hr : Ready r (pre ++ (Z, w) :: post) ρ E density) (f' A μ : Int → ℝ)
    (hg : ∀ p ∈ pre, GoodRe fi aw error f' A p) (hm : ∀ p ∈ pre, GoodIm cs error μ p) (s' : Slot)
    (hs : CxStop fi aw cs error Z s') :
    refrOf r fi aw cs E density error live = .ok (((0, 0), s'), live) ∧
    refr2Of r fi aw cs E density error live = .ok (((0, 0), s'), live) := by
  have hE : E ≠ 0 := hr.E_pos.ne'
  have h : refrOf r fi aw cs E density error live = .ok (((0, 0), s'), live) := by
    unfold refrOf
    simp only [refrBegin_ready hr, bind_ok, zero_lit, cxLoop_stop fi aw cs error E hE f' A μ Z w s' post hs pre 0 0 hg hm,
      pure_eq_ok, release_alloc]
  refine ⟨h, ?_⟩
  unfold refr2Of; rw [h]; rfl

/-- Es has `Fi` and an atomic weight but no `CS_Total`: the complex call fails with the `CS_Total` error -/
example : refrOf (.formula ⟨[(8, (0.1 : ℝ)), (100, 0.9)], 4⟩) (fun _ s => .ok (-0.02, s)) (fun _ s => .ok (16.0, s))
    (fun Z s => if Z = 100 then .ok (0, s.withErr ⟨1, "Z out of range"⟩) else .ok (5.952, s))
    10 1 Slot.empty 0 = .ok (((0, 0), Slot.full ⟨1, "Z out of range"⟩), 0) := by
  refine (refr_complex_element_stops _ _ _ _ _ _ [(8, 0.1)] [] 100 0.9 1 10 1 ⟨rfl, rfl, by norm_num, by norm_num⟩ (fun _ => -0.02) (fun _ => 16.0)
    (fun _ => 5.952) ?_ ?_ _ (CxStop.cs (-0.02) 16.0 rfl (by norm_num) rfl (by norm_num) (by simp [Slot.withErr]))).1
  · intro p hp; simp at hp; subst hp
    exact ⟨rfl, by norm_num, rfl, by norm_num⟩
  · intro p hp; simp at hp; subst hp
    exact ⟨by simp, by norm_num⟩

/-- `Refractive_Index2` is `Refractive_Index` on every input (also on aborting ones) -/
theorem refr2_eq (r : Resolved ℝ) (E density : ℝ) :
    refr2Of r fi aw cs E density error live = refrOf r fi aw cs E density error live := by
  unfold refr2Of
  cases refrOf r fi aw cs E density error live with
  | error e => rfl
  | ok x => rfl

/-- TEMPORARIES RELEASED ON EVERY EXIT of the four refractive-index entry points (the current tree; before /repo commit
ee95daf the failure returns did not): for all lookups, all densities and energies, all elemental behaviours within the
contract, each call terminates normally with the live-block counter at its initial value. -/
theorem refr_temporaries_released (hfi : ∀ Z, Contract (fi Z)) (haw : ∀ Z, Contract (aw Z)) (hcs : ∀ Z, Contract (cs Z))
    (he : error.isFull = false) (parse : Option (Parsed ℝ)) (nist : Option (Nist ℝ)) (E density : ℝ) :
    (∃ x, CP.refrRe parse nist fi aw E density error live = .ok (x, live)) ∧
    (∃ x, CP.refrIm parse nist cs E density error live = .ok (x, live)) ∧
    (∃ x, refr parse nist fi aw cs E density error live = .ok (x, live)) ∧
    (∃ x, refr2 parse nist fi aw cs E density error live = .ok (x, live)) := by
  have hcx : ∃ x, refr parse nist fi aw cs E density error live = .ok (x, live) := by
    unfold refr refrOf
    rcases refrBegin_cases (resolve parse nist) E density he live with ⟨s, hb⟩ | ⟨els, ρ, hr, hb⟩
    · simp only [hb, bind_ok, pure_eq_ok]; exact ⟨_, rfl⟩
    · have hE : E ≠ 0 := hr.E_pos.ne'
      obtain ⟨y, hy⟩ := cxLoop_total fi aw cs error he E hE hfi haw hcs els (0, 0)
      simp only [hb, bind_ok, zero_lit, hy]
      rcases y with s | ⟨⟨d, im⟩, s⟩
      · simp only [pure_eq_ok, release_alloc]; exact ⟨_, rfl⟩
      · simp only [imFinal_real _ _ _ hE, bind_ok, pure_eq_ok, release_alloc]; exact ⟨_, rfl⟩
  refine ⟨?_, ?_, hcx, ?_⟩
  · unfold CP.refrRe refrReOf
    rcases refrBegin_cases (resolve parse nist) E density he live with ⟨s, hb⟩ | ⟨els, ρ, hr, hb⟩
    · simp only [hb, bind_ok, pure_eq_ok]; exact ⟨_, rfl⟩
    · obtain ⟨y, hy⟩ := reLoop_total fi aw error he E hr.E_pos.ne' hfi haw els 0
      simp only [hb, bind_ok, zero_lit, hy]
      rcases y with s | ⟨rv, s⟩ <;> simp only [pure_eq_ok, release_alloc] <;> exact ⟨_, rfl⟩
  · unfold CP.refrIm refrImOf
    rcases refrBegin_cases (resolve parse nist) E density he live with ⟨s, hb⟩ | ⟨els, ρ, hr, hb⟩
    · simp only [hb, bind_ok, pure_eq_ok]; exact ⟨_, rfl⟩
    · obtain ⟨y, hy⟩ := imLoop_total cs error he hcs els 0
      simp only [hb, bind_ok, zero_lit, hy]
      rcases y with s | ⟨rv, s⟩
      · simp only [pure_eq_ok, release_alloc]; exact ⟨_, rfl⟩
      · simp only [imFinal_real _ _ _ hr.E_pos.ne', bind_ok, pure_eq_ok, release_alloc]; exact ⟨_, rfl⟩
  · obtain ⟨x, hx⟩ := hcx
    unfold refr at hx
    unfold refr2
    rw [refr2_eq, hx]; exact ⟨_, rfl⟩

/-- a NIST compound, density 0 (so the entry's own is used), one element without data: still nothing left allocated -/
example : ∃ x, CP.refrIm (none : Option (Parsed ℝ)) (some ⟨[(1, 0.5), (8, 0.5)], 1.0, 4⟩)
    (fun Z s => if Z = 8 then .ok (0.0, s.withErr ⟨1, "no data"⟩) else .ok (3, s)) 10 0 Slot.empty 11 = .ok (x, 11) := by
  have hc : ∀ Z, Contract ((fun (Z : Int) (s : Slot) =>
      if Z = 8 then (.ok (0.0, s.withErr ⟨1, "no data"⟩) : M (ℝ × Slot)) else .ok (3, s)) Z) := by
    intro Z s hs
    by_cases h : Z = 8
    · right; exact ⟨⟨1, "no data"⟩, by decide, by decide, by simp [h]⟩
    · left; exact ⟨3, by simp [h]⟩
  exact (refr_temporaries_released _ _ _ Slot.empty 11 hc hc hc rfl none _ 10 0).2.1

end refr

end C06
end XrlC06
