import XrlC06.Lemmas.Refr
/-!
# Under the contract of the elemental functions no loop aborts (needed for "released on EVERY exit")
-/
namespace XrlC06
open CP Spec

theorem fw_eq0 {g : Slot → M (ℝ × Slot)} {s : Slot} {e : Err} (h : FailsWith (g s) s e) :
    g s = .ok (0, s.withErr e) := by
  have := h.2.2; rw [this]; norm_num

variable (fi aw cs : Int → Slot → M (ℝ × Slot)) (error : Slot) (he : error.isFull = false) (E : ℝ)
include he

theorem cpLoop_total (f : Int → Slot → M (ℝ × Slot)) (hc : ∀ Z, Contract (f Z)) :
    ∀ (els : Els ℝ) (rv : ℝ), ∃ y, cpLoop f els rv error = .ok y
  | [], rv => ⟨(rv, error), by simp [cpLoop]⟩
  | (Z, w) :: rest, rv => by
    unfold cpLoop
    rcases hc Z error he with ⟨v, hv⟩ | ⟨e, hf⟩
    · simp only [hv, bind_ok]
      split_ifs
      · exact ⟨_, rfl⟩
      · exact cpLoop_total f hc rest _
    · simp only [fw_eq0 hf, bind_ok, deq_real, zero_lit, zero_mul, if_true]
      exact ⟨_, rfl⟩

theorem reLoop_total (hE : E ≠ 0) (hfi : ∀ Z, Contract (fi Z)) (haw : ∀ Z, Contract (aw Z)) :
    ∀ (els : Els ℝ) (rv : ℝ), ∃ y, reLoop fi aw E els rv error = .ok y
  | [], rv => ⟨.inr (rv, error), by simp [reLoop]⟩
  | (Z, w) :: rest, rv => by
    unfold reLoop
    rcases hfi Z error he with ⟨v, hv⟩ | ⟨e, hf⟩
    · simp only [hv, bind_ok]
      split_ifs with h0
      · exact ⟨_, rfl⟩
      · rcases haw Z error he with ⟨a, ha⟩ | ⟨e, hf⟩
        · simp only [ha, bind_ok]
          split_ifs with h1
          · exact ⟨_, rfl⟩
          · rw [deq_real, zero_lit] at h1
            simp only [deltaTerm_real Z w v a E h1 hE, bind_ok]
            exact reLoop_total hE hfi haw rest _
        · simp only [fw_eq0 hf, bind_ok, deq_real, zero_lit, if_true]
          exact ⟨_, rfl⟩
    · simp only [fw_eq0 hf, bind_ok, deq_real, zero_lit, if_true]
      exact ⟨_, rfl⟩

theorem imLoop_total (hcs : ∀ Z, Contract (cs Z)) :
    ∀ (els : Els ℝ) (rv : ℝ), ∃ y, imLoop cs els rv error = .ok y
  | [], rv => ⟨.inr (rv, error), by simp [imLoop]⟩
  | (Z, w) :: rest, rv => by
    unfold imLoop
    rcases hcs Z error he with ⟨v, hv⟩ | ⟨e, hf⟩
    · simp only [hv, bind_ok]
      split_ifs
      · exact ⟨_, rfl⟩
      · exact imLoop_total hcs rest _
    · simp only [fw_eq0 hf, bind_ok, deq_real, zero_lit, if_true]
      exact ⟨_, rfl⟩

theorem cxLoop_total (hE : E ≠ 0) (hfi : ∀ Z, Contract (fi Z)) (haw : ∀ Z, Contract (aw Z)) (hcs : ∀ Z, Contract (cs Z)) :
    ∀ (els : Els ℝ) (acc : ℝ × ℝ), ∃ y, cxLoop fi aw cs E els acc error = .ok y
  | [], acc => ⟨.inr (acc, error), by simp [cxLoop]⟩
  | (Z, w) :: rest, (d, im) => by
    unfold cxLoop
    rcases hfi Z error he with ⟨v, hv⟩ | ⟨e, hf⟩
    · simp only [hv, bind_ok]
      split_ifs with h0
      · exact ⟨_, rfl⟩
      · rcases haw Z error he with ⟨a, ha⟩ | ⟨e, hf⟩
        · simp only [ha, bind_ok]
          split_ifs with h1
          · exact ⟨_, rfl⟩
          · rw [deq_real, zero_lit] at h1
            rcases hcs Z error he with ⟨c, hc⟩ | ⟨e, hf⟩
            · simp only [hc, bind_ok]
              split_ifs
              · exact ⟨_, rfl⟩
              · simp only [deltaTerm_real Z w v a E h1 hE, bind_ok]
                exact cxLoop_total hE hfi haw hcs rest _
            · simp only [fw_eq0 hf, bind_ok, deq_real, zero_lit, if_true]
              exact ⟨_, rfl⟩
        · simp only [fw_eq0 hf, bind_ok, deq_real, zero_lit, if_true]
          exact ⟨_, rfl⟩
    · simp only [fw_eq0 hf, bind_ok, deq_real, zero_lit, if_true]
      exact ⟨_, rfl⟩

end XrlC06
