import XrlC06.Lemmas.Total
/-!
# The `_CP` loop after the proposed repair (notes/proposed_fixes/C06-1.diff): failure is detected through a local error
-/
namespace XrlC06
open CP Spec

theorem propagateErr_notFull {s : Slot} (h : s.isFull = false) (e : Err) : propagateErr s e = .ok (s.withErr e) := by
  cases s <;> simp_all [Slot.isFull, Slot.withErr, propagateErr]

variable (f : Int → Slot → M (ℝ × Slot)) (error : Slot)

/-- every element succeeds (on the local, empty slot): the loop adds `Σ w_i·v_i` — zero values included -/
theorem cpLoopFixed_value (v : Int → ℝ) : ∀ (els : Els ℝ) (rv : ℝ),
    (∀ p ∈ els, f p.1 Slot.empty = .ok (v p.1, Slot.empty)) →
    cpLoopFixed f els rv error = .ok (rv + mixture els v, error)
  | [], rv, _ => by simp [cpLoopFixed, mixture]
  | (Z, w) :: rest, rv, hf => by
    have h1 := hf (Z, w) (by simp)
    simp only at h1
    have ih := cpLoopFixed_value v rest (rv + v Z * w) (fun p hp => hf p (by simp [hp]))
    unfold cpLoopFixed
    simp only [h1, bind_ok]
    rw [ih]
    simp [mixture]; ring

/-- the first failing element ends the loop with value 0 and its error propagated — whatever values came before -/
theorem cpLoopFixed_stop (he : error.isFull = false) (v : Int → ℝ) (Z : Int) (w x : ℝ) (e : Err) (post : Els ℝ) :
    ∀ (pre : Els ℝ) (rv : ℝ),
    (∀ p ∈ pre, f p.1 Slot.empty = .ok (v p.1, Slot.empty)) → f Z Slot.empty = .ok (x, Slot.full e) →
    cpLoopFixed f (pre ++ (Z, w) :: post) rv error = .ok (0, error.withErr e)
  | [], rv, _, hZ => by
    simp only [List.nil_append]
    unfold cpLoopFixed
    simp only [hZ, bind_ok, propagateErr_notFull he, zero_lit]
    rfl
  | (Z', w') :: pre, rv, hf, hZ => by
    have h1 := hf (Z', w') (by simp)
    simp only at h1
    have ih := cpLoopFixed_stop he v Z w x e post pre (rv + v Z' * w') (fun p hp => hf p (by simp [hp])) hZ
    simp only [List.cons_append]
    unfold cpLoopFixed
    simp only [h1, bind_ok]
    exact ih

end XrlC06
