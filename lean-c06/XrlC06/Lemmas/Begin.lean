import XrlC06.Lemmas.Total
/-!
# `REFR_BEGIN`, the heap counter, and the algebra between the loop's accumulation and the specification's formula
-/
namespace XrlC06
open CP Spec

theorem release_alloc (r : Resolved ℝ) (live : Nat) : r.release (r.alloc live) = live := by
  cases r <;> simp [Resolved.release, Resolved.alloc]

@[simp] theorem ofInt_real (Z : Int) : (XNum.ofInt Z : ℝ) = (Z : ℝ) := rfl

/-- the two lookups answered, the (effective) density and the energy are positive -/
structure Ready (r : Resolved ℝ) (els : Els ℝ) (ρ E density : ℝ) : Prop where
  els : r.elements = some els
  rho : effDensity r density = ρ
  rho_pos : 0 < ρ
  E_pos : 0 < E

theorem refrBegin_ready {r : Resolved ℝ} {els : Els ℝ} {ρ E density : ℝ} (h : Ready r els ρ E density) (error : Slot) (live : Nat) :
    refrBegin r E density error live = .ok (.inr (els, ρ, r.alloc live)) := by
  unfold refrBegin
  simp only [h.els, h.rho, zero_lit, not_le.mpr h.rho_pos, not_le.mpr h.E_pos, if_false]
  rfl

theorem refrBegin_unknown {r : Resolved ℝ} (h : r.elements = none) (E density : ℝ) {error : Slot} (he : error.isFull = false) (live : Nat) :
    refrBegin r E density error live = .ok (.inl (error.withErr ⟨XRL_ERROR_INVALID_ARGUMENT, UNKNOWN_COMPOUND⟩, live)) := by
  unfold refrBegin
  simp only [h, setErr_notFull he, bind_ok]
  rfl

theorem refrBegin_density {r : Resolved ℝ} {els : Els ℝ} (h : r.elements = some els) (E density : ℝ)
    (hd : effDensity r density ≤ 0) {error : Slot} (he : error.isFull = false) (live : Nat) :
    refrBegin r E density error live = .ok (.inl (error.withErr ⟨XRL_ERROR_INVALID_ARGUMENT, NEGATIVE_DENSITY⟩, live)) := by
  unfold refrBegin
  simp only [h, zero_lit, hd, if_true, setErr_notFull he, bind_ok, release_alloc]
  rfl

theorem refrBegin_energy {r : Resolved ℝ} {els : Els ℝ} (h : r.elements = some els) (E density : ℝ)
    (hd : 0 < effDensity r density) (hE : E ≤ 0) {error : Slot} (he : error.isFull = false) (live : Nat) :
    refrBegin r E density error live = .ok (.inl (error.withErr ⟨XRL_ERROR_INVALID_ARGUMENT, NEGATIVE_ENERGY⟩, live)) := by
  unfold refrBegin
  simp only [h, zero_lit, not_le.mpr hd, hE, if_true, if_false, setErr_notFull he, bind_ok, release_alloc]
  rfl

/-- `REFR_BEGIN` never aborts on a slot without an error, and either returns early with every block released or hands the
loop the heap with the temporary allocated -/
theorem refrBegin_cases (r : Resolved ℝ) (E density : ℝ) {error : Slot} (he : error.isFull = false) (live : Nat) :
    (∃ s, refrBegin r E density error live = .ok (.inl (s, live))) ∨
    (∃ els ρ, Ready r els ρ E density ∧ refrBegin r E density error live = .ok (.inr (els, ρ, r.alloc live))) := by
  cases hr : r.elements with
  | none => exact Or.inl ⟨_, refrBegin_unknown hr E density he live⟩
  | some els =>
    by_cases hd : effDensity r density ≤ 0
    · exact Or.inl ⟨_, refrBegin_density hr E density hd he live⟩
    · by_cases hE : E ≤ 0
      · exact Or.inl ⟨_, refrBegin_energy hr E density (not_le.mp hd) hE he live⟩
      · have h : Ready r els (effDensity r density) E density := ⟨hr, rfl, not_le.mp hd, not_le.mp hE⟩
        exact Or.inr ⟨els, _, h, refrBegin_ready h error live⟩

/-- the loop divides every term by `E` twice; the specification divides the sum by `E²` once -/
theorem sumOver_reTerm (f' A : Int → ℝ) (E : ℝ) (els : Els ℝ) :
    sumOver els (reTerm f' A E) = sumOver els (fun Z w => w * K * (XNum.ofInt Z + f' Z) / A Z) / (E * E) := by
  induction els with
  | nil => simp
  | cons p els ih =>
    obtain ⟨Z, w⟩ := p
    simp only [sumOver_cons, ih, reTerm, KD, K, ofInt_real]
    ring

theorem imFinal_real (rv ρ E : ℝ) (hE : E ≠ 0) : imFinal rv ρ E = .ok (rv * ρ * HC_4PI / E) := by
  unfold imFinal; exact ddiv_real hE


/-- `1.0 - (rv * density)` with `rv` the loop's accumulation from 0 is the specification's real part -/
theorem re_final (f' A : Int → ℝ) (E ρ : ℝ) (els : Els ℝ) :
    (1 : ℝ) - (0 + sumOver els (reTerm f' A E)) * ρ = Spec.refrRe els f' A E ρ := by
  rw [sumOver_reTerm]; unfold Spec.refrRe; rw [one_lit]
  generalize sumOver els _ = S
  ring

/-- `rv * density * 9.8663479e-9 / E` with `rv` the loop's accumulation from 0 is the specification's imaginary part -/
theorem im_final (μ : Int → ℝ) (E ρ : ℝ) (els : Els ℝ) :
    (0 + mixture els μ) * ρ * HC_4PI / E = Spec.refrIm els μ E ρ := by
  unfold Spec.refrIm HC_4PI hc4pi
  ring

end XrlC06
