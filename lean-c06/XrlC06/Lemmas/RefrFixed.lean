import XrlC06.Lemmas.Begin
import XrlC06.Lemmas.Fixed
/-!
# The refractive-index loops after the proposed repair (notes/proposed_fixes/C06-7.diff): failure is detected through a local error

Induction lemmas (any list length) about `reLoopFixed`, `imLoopFixed`, `cxLoopFixed`, and the vocabulary the full-strength
statements of `Props/C06r.lean` use.
-/
namespace XrlC06
open CP Spec

/-- the elemental call behaves in the same way whatever slot it is handed: it succeeds with one value, leaving the slot
untouched, or it fails — value 0, exactly one (valid) error stored through the slot.  (`Contract` says the same per slot;
this form lets the three entry points, which hand different slots to the same function, be compared.) -/
def OkU (g : Slot → M (ℝ × Slot)) (v : ℝ) : Prop := ∀ s : Slot, s.isFull = false → g s = .ok (v, s)
def FailsU (g : Slot → M (ℝ × Slot)) : Prop := ∃ e, ∀ s : Slot, s.isFull = false → FailsWith (g s) s e
def UContract (g : Slot → M (ℝ × Slot)) : Prop := (∃ v, OkU g v) ∨ FailsU g

theorem UContract.contract {g : Slot → M (ℝ × Slot)} (h : UContract g) : Contract g := by
  intro s hs
  rcases h with ⟨v, hv⟩ | ⟨e, he⟩
  · exact Or.inl ⟨v, hv s hs⟩
  · exact Or.inr ⟨e, he s hs⟩

theorem OkU.not_failsU {g : Slot → M (ℝ × Slot)} {v : ℝ} (h : OkU g v) : ¬ FailsU g := by
  rintro ⟨e, he⟩
  have h1 := h Slot.empty rfl
  have h2 := (he Slot.empty rfl).2.2
  rw [h1] at h2
  simp [Slot.withErr] at h2

theorem FailsU.empty {g : Slot → M (ℝ × Slot)} (h : FailsU g) : ∃ e, FailsWith (g Slot.empty) Slot.empty e := by
  obtain ⟨e, he⟩ := h; exact ⟨e, he Slot.empty rfl⟩

/-- a failing call on the empty slot, in the form the loops read it: value 0, `tmp_error` set -/
theorem fw_empty {g : Slot → M (ℝ × Slot)} {e : Err} (h : FailsWith (g Slot.empty) Slot.empty e) :
    g Slot.empty = .ok (0, Slot.full e) := by
  have := fw_eq0 h; simpa [Slot.withErr] using this

section
variable (g : Int → Slot → M (ℝ × Slot)) (error : Slot)

theorem callTmp_ok {Z : Int} {v : ℝ} (h : g Z Slot.empty = .ok (v, Slot.empty)) : callTmp g Z error = .ok (.inr v) := by
  unfold callTmp; simp only [h, bind_ok]; rfl

theorem callTmp_fail (he : error.isFull = false) {Z : Int} {x : ℝ} {e : Err} (h : g Z Slot.empty = .ok (x, Slot.full e)) :
    callTmp g Z error = .ok (.inl (error.withErr e)) := by
  unfold callTmp; simp only [h, bind_ok, propagateErr_notFull he]; rfl

/-- under the contract a call through the local slot never aborts, and answers one of the two ways -/
theorem callTmp_cases (he : error.isFull = false) (hc : ∀ Z, Contract (g Z)) (Z : Int) :
    (∃ v, g Z Slot.empty = .ok (v, Slot.empty) ∧ callTmp g Z error = .ok (.inr v)) ∨
    (∃ e, FailsWith (g Z Slot.empty) Slot.empty e ∧ callTmp g Z error = .ok (.inl (error.withErr e))) := by
  rcases hc Z Slot.empty rfl with ⟨v, hv⟩ | ⟨e, hf⟩
  · exact Or.inl ⟨v, hv, callTmp_ok g error hv⟩
  · exact Or.inr ⟨e, hf, callTmp_fail g error he (fw_empty hf)⟩
end


theorem okU_of_not_failsU {g : Slot → M (ℝ × Slot)} (h : UContract g) (hn : ¬ FailsU g) : OkU g (valOf g Slot.empty) := by
  rcases h with ⟨v, hv⟩ | hf
  · have : valOf g Slot.empty = v := valOf_ok (hv Slot.empty rfl)
    rw [this]; exact hv
  · exact absurd hf hn

/-- an elemental function given by a table of outcomes (what the model driver builds from the library's answers); used by the
non-vacuity examples and the witnesses -/
noncomputable def tableFn (ok : Int → ℝ) (bad : Int → Bool) : Int → Slot → M (ℝ × Slot) :=
  fun Z s => if bad Z then .ok (0.0, s.withErr ⟨1, "Z out of range"⟩) else .ok (ok Z, s)

theorem tableFn_okU (ok : Int → ℝ) (bad : Int → Bool) (Z : Int) (h : bad Z = false) : OkU (tableFn ok bad Z) (ok Z) := by
  intro s hs; simp [tableFn, h]

theorem tableFn_ucontract (ok : Int → ℝ) (bad : Int → Bool) (Z : Int) : UContract (tableFn ok bad Z) := by
  by_cases h : bad Z = true
  · right; exact ⟨⟨1, "Z out of range"⟩, fun s hs => ⟨by decide, by decide, by simp [tableFn, h]⟩⟩
  · left; exact ⟨ok Z, tableFn_okU ok bad Z (by simpa using h)⟩

variable (fi aw cs : Int → Slot → M (ℝ × Slot)) (error : Slot) (E : ℝ)

/-- element `p` behaves, for the real part of the REPAIRED body: `Fi` and `AtomicWeight` succeed (on the local slot) and the
atomic weight is not 0 — the formula divides by it; the value of `Fi` is unconstrained -/
def OkRe (f' A : Int → ℝ) (p : Int × ℝ) : Prop :=
  fi p.1 Slot.empty = .ok (f' p.1, Slot.empty) ∧ aw p.1 Slot.empty = .ok (A p.1, Slot.empty) ∧ A p.1 ≠ 0

def OkIm (μ : Int → ℝ) (p : Int × ℝ) : Prop := cs p.1 Slot.empty = .ok (μ p.1, Slot.empty)

theorem reLoopFixed_value (hE : E ≠ 0) (f' A : Int → ℝ) : ∀ (els : Els ℝ) (rv : ℝ),
    (∀ p ∈ els, OkRe fi aw f' A p) →
    reLoopFixed fi aw E els rv error = .ok (.inr (rv + sumOver els (reTerm f' A E), error))
  | [], rv, _ => by simp [reLoopFixed]
  | (Z, w) :: rest, rv, h => by
    obtain ⟨h1, h3, h4⟩ := h (Z, w) (by simp)
    simp only at h1 h3 h4
    have ih := reLoopFixed_value hE f' A rest (rv + reTerm f' A E Z w) (fun p hp => h p (by simp [hp]))
    unfold reLoopFixed
    simp only [callTmp_ok fi error h1, callTmp_ok aw error h3, bind_ok, deltaTerm_real Z w _ _ E h4 hE]
    rw [show w * KD * ((Z : ℝ) + f' Z) / A Z / E / E = reTerm f' A E Z w from rfl, ih]
    simp; ring

/-- what the first element that does not behave does in the repaired real-part loop: `Fi` fails, or `Fi` succeeds and
`AtomicWeight` fails -/
inductive ReStopF (Z : Int) (e : Err) : Prop where
  | fi (x : ℝ) (h : fi Z Slot.empty = .ok (x, Slot.full e))
  | aw (x y : ℝ) (h1 : fi Z Slot.empty = .ok (x, Slot.empty)) (h : aw Z Slot.empty = .ok (y, Slot.full e))

theorem reLoopFixed_stop (he : error.isFull = false) (hE : E ≠ 0) (f' A : Int → ℝ) (Z : Int) (w : ℝ) (e : Err) (post : Els ℝ)
    (hs : ReStopF fi aw Z e) : ∀ (pre : Els ℝ) (rv : ℝ),
    (∀ p ∈ pre, OkRe fi aw f' A p) →
    reLoopFixed fi aw E (pre ++ (Z, w) :: post) rv error = .ok (.inl (error.withErr e))
  | [], rv, _ => by
    simp only [List.nil_append]; unfold reLoopFixed
    rcases hs with ⟨x, h⟩ | ⟨x, y, h1, h⟩
    · simp only [callTmp_fail fi error he h, bind_ok]; rfl
    · simp only [callTmp_ok fi error h1, callTmp_fail aw error he h, bind_ok]; rfl
  | (Z', w') :: pre, rv, h => by
    obtain ⟨h1, h3, h4⟩ := h (Z', w') (by simp)
    simp only at h1 h3 h4
    have ih := reLoopFixed_stop he hE f' A Z w e post hs pre (rv + reTerm f' A E Z' w') (fun p hp => h p (by simp [hp]))
    simp only [List.cons_append]; unfold reLoopFixed
    simp only [callTmp_ok fi error h1, callTmp_ok aw error h3, bind_ok, deltaTerm_real Z' w' _ _ E h4 hE]
    exact ih

theorem imLoopFixed_value (μ : Int → ℝ) : ∀ (els : Els ℝ) (rv : ℝ),
    (∀ p ∈ els, OkIm cs μ p) →
    imLoopFixed cs els rv error = .ok (.inr (rv + mixture els μ, error))
  | [], rv, _ => by simp [imLoopFixed, mixture]
  | (Z, w) :: rest, rv, h => by
    have h1 := h (Z, w) (by simp)
    simp only [OkIm] at h1
    have ih := imLoopFixed_value μ rest (rv + μ Z * w) (fun p hp => h p (by simp [hp]))
    unfold imLoopFixed
    simp only [callTmp_ok cs error h1, bind_ok]
    rw [ih]; simp [mixture]; ring

theorem imLoopFixed_stop (he : error.isFull = false) (μ : Int → ℝ) (Z : Int) (w x : ℝ) (e : Err) (post : Els ℝ)
    (hZ : cs Z Slot.empty = .ok (x, Slot.full e)) : ∀ (pre : Els ℝ) (rv : ℝ),
    (∀ p ∈ pre, OkIm cs μ p) →
    imLoopFixed cs (pre ++ (Z, w) :: post) rv error = .ok (.inl (error.withErr e))
  | [], rv, _ => by
    simp only [List.nil_append]; unfold imLoopFixed
    simp only [callTmp_fail cs error he hZ, bind_ok]; rfl
  | (Z', w') :: pre, rv, h => by
    have h1 := h (Z', w') (by simp)
    simp only [OkIm] at h1
    have ih := imLoopFixed_stop he μ Z w x e post hZ pre (rv + μ Z' * w') (fun p hp => h p (by simp [hp]))
    simp only [List.cons_append]; unfold imLoopFixed
    simp only [callTmp_ok cs error h1, bind_ok]
    exact ih

theorem cxLoopFixed_value (hE : E ≠ 0) (f' A μ : Int → ℝ) : ∀ (els : Els ℝ) (d im : ℝ),
    (∀ p ∈ els, OkRe fi aw f' A p) → (∀ p ∈ els, OkIm cs μ p) →
    cxLoopFixed fi aw cs E els (d, im) error = .ok (.inr ((d + sumOver els (reTerm f' A E), im + mixture els μ), error))
  | [], d, im, _, _ => by simp [cxLoopFixed, mixture]
  | (Z, w) :: rest, d, im, h, g => by
    obtain ⟨h1, h3, h4⟩ := h (Z, w) (by simp)
    have g1 := g (Z, w) (by simp)
    simp only [OkIm] at h1 h3 h4 g1
    have ih := cxLoopFixed_value hE f' A μ rest (d + reTerm f' A E Z w) (im + μ Z * w) (fun p hp => h p (by simp [hp]))
      (fun p hp => g p (by simp [hp]))
    unfold cxLoopFixed
    simp only [callTmp_ok fi error h1, callTmp_ok aw error h3, callTmp_ok cs error g1, bind_ok, deltaTerm_real Z w _ _ E h4 hE]
    rw [show w * KD * ((Z : ℝ) + f' Z) / A Z / E / E = reTerm f' A E Z w from rfl, ih]
    simp [mixture]; constructor <;> ring

/-- the first of the three calls of an element that FAILS, in the repaired complex loop (the calls before it succeeded) -/
inductive CxStopF (Z : Int) (e : Err) : Prop where
  | fi (x : ℝ) (h : fi Z Slot.empty = .ok (x, Slot.full e))
  | aw (x y : ℝ) (h1 : fi Z Slot.empty = .ok (x, Slot.empty)) (h : aw Z Slot.empty = .ok (y, Slot.full e))
  | cs (x a y : ℝ) (h1 : fi Z Slot.empty = .ok (x, Slot.empty)) (h2 : aw Z Slot.empty = .ok (a, Slot.empty))
      (h : cs Z Slot.empty = .ok (y, Slot.full e))

theorem cxLoopFixed_stop (he : error.isFull = false) (hE : E ≠ 0) (f' A μ : Int → ℝ) (Z : Int) (w : ℝ) (e : Err) (post : Els ℝ)
    (hs : CxStopF fi aw cs Z e) : ∀ (pre : Els ℝ) (d im : ℝ),
    (∀ p ∈ pre, OkRe fi aw f' A p) → (∀ p ∈ pre, OkIm cs μ p) →
    cxLoopFixed fi aw cs E (pre ++ (Z, w) :: post) (d, im) error = .ok (.inl (error.withErr e))
  | [], d, im, _, _ => by
    simp only [List.nil_append]; unfold cxLoopFixed
    rcases hs with ⟨x, h⟩ | ⟨x, y, h1, h⟩ | ⟨x, a, y, h1, h2, h⟩
    · simp only [callTmp_fail fi error he h, bind_ok]; rfl
    · simp only [callTmp_ok fi error h1, callTmp_fail aw error he h, bind_ok]; rfl
    · simp only [callTmp_ok fi error h1, callTmp_ok aw error h2, callTmp_fail cs error he h, bind_ok]; rfl
  | (Z', w') :: pre, d, im, h, g => by
    obtain ⟨h1, h3, h4⟩ := h (Z', w') (by simp)
    have g1 := g (Z', w') (by simp)
    simp only [OkIm] at h1 h3 h4 g1
    have ih := cxLoopFixed_stop he hE f' A μ Z w e post hs pre (d + reTerm f' A E Z' w') (im + μ Z' * w')
      (fun p hp => h p (by simp [hp])) (fun p hp => g p (by simp [hp]))
    simp only [List.cons_append]; unfold cxLoopFixed
    simp only [callTmp_ok fi error h1, callTmp_ok aw error h3, callTmp_ok cs error g1, bind_ok, deltaTerm_real Z' w' _ _ E h4 hE]
    exact ih

/-! ## no abort under the contract (needed for "released on every exit" of the repaired bodies)

The repaired bodies no longer look at the value of `AtomicWeight`; that a SUCCESSFUL atomic weight is not 0 is part of that
function's own contract (`atomicweight.c`: a zero table entry is reported as an error), stated here as `AwPos` (on the empty slot, where
success and failure cannot be confused). -/

def AwPos (aw : Int → Slot → M (ℝ × Slot)) : Prop := ∀ (Z : Int) (a : ℝ), aw Z Slot.empty = .ok (a, Slot.empty) → a ≠ 0

theorem tableFn_awPos (ok : Int → ℝ) (h : ∀ Z, ok Z ≠ 0) : AwPos (tableFn ok (fun _ => false)) := by
  intro Z a ha
  simp only [tableFn, Bool.false_eq_true, if_false] at ha
  have : ok Z = a := by
    have := congrArg (fun x => match x with | Except.ok (v, _) => v | _ => 0) ha
    simpa using this
  rw [← this]; exact h Z

section total
variable (he : error.isFull = false)
include he

theorem reLoopFixed_total (hE : E ≠ 0) (hfi : ∀ Z, Contract (fi Z)) (haw : ∀ Z, Contract (aw Z)) (hp : AwPos aw) :
    ∀ (els : Els ℝ) (rv : ℝ), ∃ y, reLoopFixed fi aw E els rv error = .ok y
  | [], rv => ⟨.inr (rv, error), by simp [reLoopFixed]⟩
  | (Z, w) :: rest, rv => by
    unfold reLoopFixed
    rcases callTmp_cases fi error he hfi Z with ⟨v, _, hv⟩ | ⟨e, _, hf⟩
    · rcases callTmp_cases aw error he haw Z with ⟨a, ha0, ha⟩ | ⟨e, _, hf⟩
      · simp only [hv, ha, bind_ok, deltaTerm_real Z w v a E (hp Z a ha0) hE]
        exact reLoopFixed_total hE hfi haw hp rest _
      · simp only [hv, hf, bind_ok]; exact ⟨_, rfl⟩
    · simp only [hf, bind_ok]; exact ⟨_, rfl⟩

theorem imLoopFixed_total (hcs : ∀ Z, Contract (cs Z)) :
    ∀ (els : Els ℝ) (rv : ℝ), ∃ y, imLoopFixed cs els rv error = .ok y
  | [], rv => ⟨.inr (rv, error), by simp [imLoopFixed]⟩
  | (Z, w) :: rest, rv => by
    unfold imLoopFixed
    rcases callTmp_cases cs error he hcs Z with ⟨v, _, hv⟩ | ⟨e, _, hf⟩
    · simp only [hv, bind_ok]; exact imLoopFixed_total hcs rest _
    · simp only [hf, bind_ok]; exact ⟨_, rfl⟩

theorem cxLoopFixed_total (hE : E ≠ 0) (hfi : ∀ Z, Contract (fi Z)) (haw : ∀ Z, Contract (aw Z)) (hcs : ∀ Z, Contract (cs Z))
    (hp : AwPos aw) : ∀ (els : Els ℝ) (acc : ℝ × ℝ), ∃ y, cxLoopFixed fi aw cs E els acc error = .ok y
  | [], acc => ⟨.inr (acc, error), by simp [cxLoopFixed]⟩
  | (Z, w) :: rest, (d, im) => by
    unfold cxLoopFixed
    rcases callTmp_cases fi error he hfi Z with ⟨v, _, hv⟩ | ⟨e, _, hf⟩
    · rcases callTmp_cases aw error he haw Z with ⟨a, ha0, ha⟩ | ⟨e, _, hf⟩
      · rcases callTmp_cases cs error he hcs Z with ⟨c, _, hc⟩ | ⟨e, _, hf⟩
        · simp only [hv, ha, hc, bind_ok, deltaTerm_real Z w v a E (hp Z a ha0) hE]
          exact cxLoopFixed_total hE hfi haw hcs hp rest _
        · simp only [hv, ha, hf, bind_ok]; exact ⟨_, rfl⟩
      · simp only [hv, hf, bind_ok]; exact ⟨_, rfl⟩
    · simp only [hf, bind_ok]; exact ⟨_, rfl⟩

end total

end XrlC06
