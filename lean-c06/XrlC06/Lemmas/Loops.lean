import XrlC06.Core.Real
import XrlC06.Spec.Basic
import XrlC06.Spec.Mixture
import XrlC06.Hand.CP
/-!
# Induction lemmas about the element loops of the hand model (any list length)
-/
namespace XrlC06
open CP Spec

theorem zero_lit : (0.0 : ℝ) = 0 := by norm_num
theorem one_lit : (1.0 : ℝ) = 1 := by norm_num

@[simp] theorem sumOver_nil (term : Int → ℝ → ℝ) : sumOver ([] : List (Int × ℝ)) term = 0 := by
  simp [sumOver, zero_lit]
@[simp] theorem sumOver_cons (term : Int → ℝ → ℝ) (Z : Int) (w : ℝ) (rest : List (Int × ℝ)) :
    sumOver ((Z, w) :: rest) term = term Z w + sumOver rest term := by
  simp [sumOver]

theorem sumOver_append (term : Int → ℝ → ℝ) (a b : List (Int × ℝ)) :
    sumOver (a ++ b) term = sumOver a term + sumOver b term := by
  induction a with
  | nil => simp
  | cons p a ih => obtain ⟨Z, w⟩ := p; simp [ih]; ring

variable (f : Int → Slot → M (ℝ × Slot)) (error : Slot)

/-- every element succeeds with a non-zero product: the loop adds `Σ w_i·v_i` to the accumulator, slot untouched -/
theorem cpLoop_value (v : Int → ℝ) : ∀ (els : Els ℝ) (rv : ℝ),
    (∀ p ∈ els, f p.1 error = .ok (v p.1, error)) → (∀ p ∈ els, v p.1 * p.2 ≠ 0) →
    cpLoop f els rv error = .ok (rv + mixture els v, error)
  | [], rv, _, _ => by simp [cpLoop, mixture]
  | (Z, w) :: rest, rv, hf, hnz => by
    have h1 := hf (Z, w) (by simp)
    have h2 := hnz (Z, w) (by simp)
    simp only at h1 h2
    have ih := cpLoop_value v rest (rv + v Z * w) (fun p hp => hf p (by simp [hp])) (fun p hp => hnz p (by simp [hp]))
    unfold cpLoop
    simp only [h1, bind_ok, deq_real, zero_lit, h2, if_false]
    rw [ih]
    simp [mixture]; ring

/-- the good prefix is summed, then element `(Z, w)` answers `(x, s')` with `x·w = 0`: the loop stops with value 0 and the
slot as that element left it — whatever the accumulator held (no partial sum) and whatever follows -/
theorem cpLoop_stop (v : Int → ℝ) (Z : Int) (w x : ℝ) (s' : Slot) (post : Els ℝ) : ∀ (pre : Els ℝ) (rv : ℝ),
    (∀ p ∈ pre, f p.1 error = .ok (v p.1, error)) → (∀ p ∈ pre, v p.1 * p.2 ≠ 0) →
    f Z error = .ok (x, s') → x * w = 0 →
    cpLoop f (pre ++ (Z, w) :: post) rv error = .ok (0, s')
  | [], rv, _, _, hZ, hx => by
    simp only [List.nil_append]
    unfold cpLoop
    simp only [hZ, bind_ok, deq_real, zero_lit, hx, if_true]
    rfl
  | (Z', w') :: pre, rv, hf, hnz, hZ, hx => by
    have h1 := hf (Z', w') (by simp)
    have h2 := hnz (Z', w') (by simp)
    simp only at h1 h2
    have ih := cpLoop_stop v Z w x s' post pre (rv + v Z' * w') (fun p hp => hf p (by simp [hp]))
      (fun p hp => hnz p (by simp [hp])) hZ hx
    simp only [List.cons_append]
    unfold cpLoop
    simp only [h1, bind_ok, deq_real, zero_lit, h2, if_false]
    exact ih

/-- a list either satisfies `P` everywhere or splits at the first element that does not -/
theorem first_bad {β : Type} (P : β → Prop) : ∀ l : List β,
    (∀ p ∈ l, P p) ∨ ∃ pre p post, l = pre ++ p :: post ∧ (∀ q ∈ pre, P q) ∧ ¬ P p
  | [] => Or.inl (by simp)
  | a :: l => by
    by_cases ha : P a
    · rcases first_bad P l with h | ⟨pre, p, post, rfl, hpre, hp⟩
      · exact Or.inl (by intro p hp; rcases List.mem_cons.mp hp with rfl | h'; exact ha; exact h p h')
      · refine Or.inr ⟨a :: pre, p, post, by simp, ?_, hp⟩
        intro q hq; rcases List.mem_cons.mp hq with rfl | h'; exact ha; exact hpre q h'
    · exact Or.inr ⟨[], a, l, by simp, by simp, ha⟩

/-- the contract every elemental function is assumed to meet (C03's subject): on a slot that holds no error it succeeds
leaving the slot untouched, or fails — value 0 and exactly one error stored through the slot -/
def Contract (g : Slot → M (ℝ × Slot)) : Prop :=
  ∀ s : Slot, s.isFull = false → (∃ v, g s = .ok (v, s)) ∨ (∃ e, FailsWith (g s) s e)

/-- the value an elemental call returns on `error` (0 if it aborts; under `Contract` it never does) -/
noncomputable def valOf (g : Slot → M (ℝ × Slot)) (error : Slot) : ℝ :=
  match g error with
  | .ok (x, _) => x
  | .error _ => 0

theorem valOf_ok {g : Slot → M (ℝ × Slot)} {error s : Slot} {x : ℝ} (h : g error = .ok (x, s)) : valOf g error = x := by
  simp [valOf, h]

end XrlC06
