import XrlC06.Lemmas.Loops
/-!
# Induction lemmas about the three refractive-index loops
-/
namespace XrlC06
open CP Spec

theorem deltaTerm_real (Z : Int) (w x a E : ℝ) (ha : a ≠ 0) (hE : E ≠ 0) :
    deltaTerm Z w x a E = .ok (w * KD * ((Z : ℝ) + x) / a / E / E) := by
  unfold deltaTerm
  simp only [ddiv_real ha, ddiv_real hE, bind_ok]
  rfl

variable (fi aw cs : Int → Slot → M (ℝ × Slot)) (error : Slot) (E : ℝ)

/-- what "element `p` behaves" means for the real part: `Fi` and `AtomicWeight` succeed with non-zero values -/
def GoodRe (f' A : Int → ℝ) (p : Int × ℝ) : Prop :=
  fi p.1 error = .ok (f' p.1, error) ∧ f' p.1 ≠ 0 ∧ aw p.1 error = .ok (A p.1, error) ∧ A p.1 ≠ 0

def GoodIm (μ : Int → ℝ) (p : Int × ℝ) : Prop :=
  cs p.1 error = .ok (μ p.1, error) ∧ μ p.1 ≠ 0

noncomputable def reTerm (f' A : Int → ℝ) (E : ℝ) (Z : Int) (w : ℝ) : ℝ := w * KD * ((Z : ℝ) + f' Z) / A Z / E / E

theorem reLoop_value (hE : E ≠ 0) (f' A : Int → ℝ) : ∀ (els : Els ℝ) (rv : ℝ),
    (∀ p ∈ els, GoodRe fi aw error f' A p) →
    reLoop fi aw E els rv error = .ok (.inr (rv + sumOver els (reTerm f' A E), error))
  | [], rv, _ => by simp [reLoop]
  | (Z, w) :: rest, rv, h => by
    obtain ⟨h1, h2, h3, h4⟩ := h (Z, w) (by simp)
    simp only at h1 h2 h3 h4
    have ih := reLoop_value hE f' A rest (rv + reTerm f' A E Z w) (fun p hp => h p (by simp [hp]))
    unfold reLoop
    simp only [h1, h3, bind_ok, deq_real, zero_lit, h2, h4, if_false, deltaTerm_real Z w _ _ E h4 hE]
    rw [show w * KD * ((Z : ℝ) + f' Z) / A Z / E / E = reTerm f' A E Z w from rfl, ih]
    simp; ring

/-- `Fi` of the first element that does not behave returns 0 (failing, or — the corner — succeeding with 0): early return -/
theorem reLoop_stop_fi (hE : E ≠ 0) (f' A : Int → ℝ) (Z : Int) (w : ℝ) (s' : Slot) (post : Els ℝ) : ∀ (pre : Els ℝ) (rv : ℝ),
    (∀ p ∈ pre, GoodRe fi aw error f' A p) → fi Z error = .ok (0, s') →
    reLoop fi aw E (pre ++ (Z, w) :: post) rv error = .ok (.inl s')
  | [], rv, _, hZ => by
    simp only [List.nil_append]; unfold reLoop
    simp only [hZ, bind_ok, deq_real, zero_lit, if_true]; rfl
  | (Z', w') :: pre, rv, h, hZ => by
    obtain ⟨h1, h2, h3, h4⟩ := h (Z', w') (by simp)
    simp only at h1 h2 h3 h4
    have ih := reLoop_stop_fi hE f' A Z w s' post pre (rv + reTerm f' A E Z' w') (fun p hp => h p (by simp [hp])) hZ
    simp only [List.cons_append]; unfold reLoop
    simp only [h1, h3, bind_ok, deq_real, zero_lit, h2, h4, if_false, deltaTerm_real Z' w' _ _ E h4 hE]
    exact ih

theorem reLoop_stop_aw (hE : E ≠ 0) (f' A : Int → ℝ) (Z : Int) (w x : ℝ) (s' : Slot) (post : Els ℝ) : ∀ (pre : Els ℝ) (rv : ℝ),
    (∀ p ∈ pre, GoodRe fi aw error f' A p) → fi Z error = .ok (x, error) → x ≠ 0 → aw Z error = .ok (0, s') →
    reLoop fi aw E (pre ++ (Z, w) :: post) rv error = .ok (.inl s')
  | [], rv, _, hZ, hx, hA => by
    simp only [List.nil_append]; unfold reLoop
    simp only [hZ, hA, bind_ok, deq_real, zero_lit, hx, if_true, if_false]; rfl
  | (Z', w') :: pre, rv, h, hZ, hx, hA => by
    obtain ⟨h1, h2, h3, h4⟩ := h (Z', w') (by simp)
    simp only at h1 h2 h3 h4
    have ih := reLoop_stop_aw hE f' A Z w x s' post pre (rv + reTerm f' A E Z' w') (fun p hp => h p (by simp [hp])) hZ hx hA
    simp only [List.cons_append]; unfold reLoop
    simp only [h1, h3, bind_ok, deq_real, zero_lit, h2, h4, if_false, deltaTerm_real Z' w' _ _ E h4 hE]
    exact ih

theorem imLoop_value (μ : Int → ℝ) : ∀ (els : Els ℝ) (rv : ℝ),
    (∀ p ∈ els, GoodIm cs error μ p) →
    imLoop cs els rv error = .ok (.inr (rv + mixture els μ, error))
  | [], rv, _ => by simp [imLoop, mixture]
  | (Z, w) :: rest, rv, h => by
    obtain ⟨h1, h2⟩ := h (Z, w) (by simp)
    simp only at h1 h2
    have ih := imLoop_value μ rest (rv + μ Z * w) (fun p hp => h p (by simp [hp]))
    unfold imLoop
    simp only [h1, bind_ok, deq_real, zero_lit, h2, if_false]
    rw [ih]; simp [mixture]; ring

theorem imLoop_stop (μ : Int → ℝ) (Z : Int) (w : ℝ) (s' : Slot) (post : Els ℝ) : ∀ (pre : Els ℝ) (rv : ℝ),
    (∀ p ∈ pre, GoodIm cs error μ p) → cs Z error = .ok (0, s') →
    imLoop cs (pre ++ (Z, w) :: post) rv error = .ok (.inl s')
  | [], rv, _, hZ => by
    simp only [List.nil_append]; unfold imLoop
    simp only [hZ, bind_ok, deq_real, zero_lit, if_true]; rfl
  | (Z', w') :: pre, rv, h, hZ => by
    obtain ⟨h1, h2⟩ := h (Z', w') (by simp)
    simp only at h1 h2
    have ih := imLoop_stop μ Z w s' post pre (rv + μ Z' * w') (fun p hp => h p (by simp [hp])) hZ
    simp only [List.cons_append]; unfold imLoop
    simp only [h1, bind_ok, deq_real, zero_lit, h2, if_false]
    exact ih

/-- the complex loop runs the two accumulations side by side -/
theorem cxLoop_value (hE : E ≠ 0) (f' A μ : Int → ℝ) : ∀ (els : Els ℝ) (d im : ℝ),
    (∀ p ∈ els, GoodRe fi aw error f' A p) → (∀ p ∈ els, GoodIm cs error μ p) →
    cxLoop fi aw cs E els (d, im) error = .ok (.inr ((d + sumOver els (reTerm f' A E), im + mixture els μ), error))
  | [], d, im, _, _ => by simp [cxLoop, mixture]
  | (Z, w) :: rest, d, im, h, g => by
    obtain ⟨h1, h2, h3, h4⟩ := h (Z, w) (by simp)
    obtain ⟨g1, g2⟩ := g (Z, w) (by simp)
    simp only at h1 h2 h3 h4 g1 g2
    have ih := cxLoop_value hE f' A μ rest (d + reTerm f' A E Z w) (im + μ Z * w) (fun p hp => h p (by simp [hp]))
      (fun p hp => g p (by simp [hp]))
    unfold cxLoop
    simp only [h1, h3, g1, bind_ok, deq_real, zero_lit, h2, h4, g2, if_false, deltaTerm_real Z w _ _ E h4 hE]
    rw [show w * KD * ((Z : ℝ) + f' Z) / A Z / E / E = reTerm f' A E Z w from rfl, ih]
    simp [mixture]; constructor <;> ring

/-- what the first element that does not behave may do in the complex loop: the first of its three calls that returns 0
(all calls before it having succeeded with non-zero values) ends the loop with that call's slot -/
inductive CxStop (Z : Int) (s' : Slot) : Prop where
  | fi (h : fi Z error = .ok (0, s'))
  | aw (x : ℝ) (h1 : fi Z error = .ok (x, error)) (hx : x ≠ 0) (h : aw Z error = .ok (0, s'))
  | cs (x a : ℝ) (h1 : fi Z error = .ok (x, error)) (hx : x ≠ 0) (h2 : aw Z error = .ok (a, error)) (ha : a ≠ 0)
      (h : cs Z error = .ok (0, s'))

theorem cxLoop_stop (hE : E ≠ 0) (f' A μ : Int → ℝ) (Z : Int) (w : ℝ) (s' : Slot) (post : Els ℝ)
    (hs : CxStop fi aw cs error Z s') : ∀ (pre : Els ℝ) (d im : ℝ),
    (∀ p ∈ pre, GoodRe fi aw error f' A p) → (∀ p ∈ pre, GoodIm cs error μ p) →
    cxLoop fi aw cs E (pre ++ (Z, w) :: post) (d, im) error = .ok (.inl s')
  | [], d, im, _, _ => by
    simp only [List.nil_append]; unfold cxLoop
    rcases hs with h | ⟨x, h1, hx, h⟩ | ⟨x, a, h1, hx, h2, ha, h⟩
    · simp only [h, bind_ok, deq_real, zero_lit, if_true]; rfl
    · simp only [h1, h, bind_ok, deq_real, zero_lit, hx, if_true, if_false]; rfl
    · simp only [h1, h2, h, bind_ok, deq_real, zero_lit, hx, ha, if_true, if_false]; rfl
  | (Z', w') :: pre, d, im, h, g => by
    obtain ⟨h1, h2, h3, h4⟩ := h (Z', w') (by simp)
    obtain ⟨g1, g2⟩ := g (Z', w') (by simp)
    simp only at h1 h2 h3 h4 g1 g2
    have ih := cxLoop_stop hE f' A μ Z w s' post hs pre (d + reTerm f' A E Z' w') (im + μ Z' * w')
      (fun p hp => h p (by simp [hp])) (fun p hp => g p (by simp [hp]))
    simp only [List.cons_append]; unfold cxLoop
    simp only [h1, h3, g1, bind_ok, deq_real, zero_lit, h2, h4, g2, if_false, deltaTerm_real Z' w' _ _ E h4 hE]
    exact ih

end XrlC06
