import XrlC06.Core.Basic
/-!
# Specification vocabulary (copied from /verif/lean/Xrl/Spec/Basic.lean)

* `Returns r v error` : the call succeeded with value `v` and left the caller's slot as it was;
* `Fails r error`     : sentinel value 0, and *exactly one* error — valid code, non-empty message — was stored
                        into the caller's slot (nothing if the slot is NULL).
* `FailsWith r error e` : `Fails` with exactly the error `e`.
-/
namespace XrlC06
namespace Spec

inductive Expect (α : Type) where
  | value (v : α)
  | fails
  | any          -- the specification makes no claim for this input
  deriving Repr

section
variable {α : Type} [OfScientific α]

def Returns (r : M (α × Slot)) (v : α) (error : Slot) : Prop := r = Except.ok (v, error)

def Fails (r : M (α × Slot)) (error : Slot) : Prop :=
  ∃ e : Err, e.msg ≠ "" ∧ e.code ≤ XRL_ERROR_RUNTIME ∧ r = Except.ok ((0.0 : α), error.withErr e)

/-- fails, and the error handed to the caller is exactly `e` -/
def FailsWith (r : M (α × Slot)) (error : Slot) (e : Err) : Prop :=
  e.msg ≠ "" ∧ e.code ≤ XRL_ERROR_RUNTIME ∧ r = Except.ok ((0.0 : α), error.withErr e)

theorem FailsWith.fails {r : M (α × Slot)} {error : Slot} {e : Err} (h : FailsWith r error e) : Fails r error :=
  ⟨e, h.1, h.2.1, h.2.2⟩

def Meets (r : M (α × Slot)) (error : Slot) : Expect α → Prop
  | .value v => Returns r v error
  | .fails => Fails r error
  | .any => True

end
end Spec
end XrlC06
