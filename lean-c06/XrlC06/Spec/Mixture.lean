import XrlC06.Core.Basic
/-!
# C06 specification, written from the property text (not from the code)

"the result equals the sum over the compound's elements of mass fraction times the corresponding elemental function; the
refractive index has real part `1 - rho*sum(w_i*K*(Z_i+f'_i)/A_i)/E^2` and imaginary part proportional to `rho*mu_total/E`"

A composition is a list of `(Z_i, w_i)`; the elemental values are functions of `Z` (`v`, `f'`, `A`, `μ`).
-/
namespace XrlC06
namespace Spec

section
variable {α : Type} [Add α] [Sub α] [Mul α] [Div α] [OfScientific α] [XNum α]

/-- `Σ_i term(Z_i, w_i)` -/
def sumOver (els : List (Int × α)) (term : Int → α → α) : α :=
  els.foldr (fun p acc => term p.1 p.2 + acc) (0.0 : α)

/-- `Σ_i w_i · v(Z_i)` -/
def mixture (els : List (Int × α)) (v : Int → α) : α := sumOver els (fun Z w => w * v Z)

/-- the constant `K` of the real part, `r_e·N_A·(hc)²/2π` in the units of the library (keV, g/cm³) -/
def K : α := 4.15179082788e-4
/-- the proportionality constant of the imaginary part, `hc/4π` in keV·cm -/
def hc4pi : α := 9.8663479e-9

/-- real part: `1 − ρ·Σ w_i·K·(Z_i + f'_i)/A_i / E²` -/
def refrRe (els : List (Int × α)) (f' A : Int → α) (E ρ : α) : α :=
  (1.0 : α) - ρ * sumOver els (fun Z w => w * K * (XNum.ofInt Z + f' Z) / A Z) / (E * E)

/-- imaginary part: `ρ·(Σ w_i·μ_i)·(hc/4π)/E` -/
def refrIm (els : List (Int × α)) (μ : Int → α) (E ρ : α) : α :=
  ρ * mixture els μ * hc4pi / E

end
end Spec
end XrlC06
