import XrlC06.Core.Basic
import Mathlib.Data.Real.Basic
import Mathlib.Tactic.Linarith
import Mathlib.Tactic.NormNum
import Mathlib.Tactic.Ring
import Mathlib.Tactic.FieldSimp
/-!
# The real-number reading of the carrier (proofs only)
-/
namespace XrlC06

noncomputable instance : XNum ℝ where
  ofInt := fun i => (i : ℝ)

@[simp] theorem deq_real (a b : ℝ) : deq a b ↔ a = b := by
  unfold deq; exact le_antisymm_iff.symm

@[simp] theorem setErr_null (c : ErrCode) (m : String) : setErr Slot.null c m = Except.ok Slot.null := rfl
@[simp] theorem setErr_empty (c : ErrCode) (m : String) : setErr Slot.empty c m = Except.ok (Slot.full ⟨c, m⟩) := rfl

theorem setErr_notFull {s : Slot} (h : s.isFull = false) (c : ErrCode) (m : String) :
    setErr s c m = Except.ok (s.withErr ⟨c, m⟩) := by
  cases s <;> simp_all [Slot.isFull, Slot.withErr, setErr]
  all_goals rfl

@[simp] theorem bind_ok {β γ : Type} (a : β) (f : β → M γ) : (Except.ok a : M β) >>= f = f a := rfl
@[simp] theorem bind_error {β γ : Type} (e : Abort) (f : β → M γ) : (Except.error e : M β) >>= f = Except.error e := rfl
@[simp] theorem pure_eq_ok {β : Type} (a : β) : (pure a : M β) = Except.ok a := rfl
@[simp] theorem throw_eq_error {β : Type} (e : Abort) : (throw e : M β) = Except.error e := rfl

theorem ddiv_real {a b : ℝ} (h : b ≠ 0) : ddiv a b = Except.ok (a / b) := by
  unfold ddiv
  have : ¬ deq b (0.0 : ℝ) := by rw [deq_real]; norm_num; exact h
  rw [if_neg this]; rfl

end XrlC06
