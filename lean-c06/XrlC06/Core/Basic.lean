/-!
# Core: outcomes, error slot, numeric carrier (copied from /verif/lean/Xrl/Core/Basic.lean, trimmed to what C06 uses)

Core Lean only (no Mathlib) so that the driver links as a `lean_exe`.

* `Abort` : why a model run stops (a non-finite double would be produced, an error stored over an existing error).
* `Slot`  : the `xrl_error **error` argument as a value (`NULL` / `*error == NULL` / `*error` set).
* `XNum`  : int→double conversion for the two carriers (ℝ in proofs, `Float` in the driver).
-/
namespace XrlC06

inductive Abort where
  | ub (what : String)        -- undefined behaviour
  | nf (what : String)        -- a non-finite value would be produced (x/0)
  | overwrite                 -- xrl_set_error on a slot that already holds an error
  deriving Repr, DecidableEq, Inhabited

abbrev M := Except Abort

/-- error codes of `xrl_error_code` (include/xraylib-error.h) -/
abbrev ErrCode := Nat
def XRL_ERROR_MEMORY : ErrCode := 0
def XRL_ERROR_INVALID_ARGUMENT : ErrCode := 1
def XRL_ERROR_IO : ErrCode := 2
def XRL_ERROR_TYPE : ErrCode := 3
def XRL_ERROR_UNSUPPORTED : ErrCode := 4
def XRL_ERROR_RUNTIME : ErrCode := 5

structure Err where
  code : ErrCode
  msg : String
  deriving Repr, DecidableEq, Inhabited

/-- `xrl_error **error` : `NULL`, pointing at a `NULL` error, pointing at an error. -/
inductive Slot where
  | null
  | empty
  | full (e : Err)
  deriving Repr, DecidableEq, Inhabited

/-- `xrl_set_error_literal` / `xrl_set_error` (src/xraylib-error.c:121-158): `NULL` swallows, an empty
slot takes the error, a full slot keeps its error and the C code prints a diagnostic — the model
outcome `overwrite`. -/
def setErr (s : Slot) (code : ErrCode) (msg : String) : M Slot :=
  match s with
  | .null => pure .null
  | .empty => pure (.full ⟨code, msg⟩)
  | .full _ => throw .overwrite

/-- what a slot looks like after exactly one error `e` was stored into it -/
def Slot.withErr (s : Slot) (e : Err) : Slot :=
  match s with
  | .null => .null
  | _ => .full e

def Slot.isFull : Slot → Bool
  | .full _ => true
  | _ => false

/-- int→double conversion (`Elements[i] + fi` promotes the int) -/
class XNum (α : Type) where
  ofInt : Int → α

instance : XNum Float where
  ofInt := Float.ofInt

section
variable {α : Type} [LE α] [OfScientific α] [DecidableLE α] [Div α]

/-- `a == b` on doubles, written with `≤` only (false on NaN like IEEE `==`) -/
@[reducible] def deq (a b : α) : Prop := a ≤ b ∧ b ≤ a
instance (a b : α) : Decidable (deq a b) := by unfold deq; infer_instance

/-- checked division: `x / 0` is the outcome `nf` -/
def ddiv (a b : α) : M α := if deq b (0.0 : α) then throw (.nf "div0") else pure (a / b)

end

end XrlC06
