import XrlC06.Core.Basic
/-!
# Hand model of the compound (`_CP`) functions and of the refractive-index entry points

Mirrors two bodies of each file — `value == 0.0` as the failure test (as shipped) and `tmp_error != NULL` (cs_cp.c since /repo b08b629 = repair
C06-1; refractive_indices.c after the proposed repair notes/proposed_fixes/C06-7.diff): `cpOf`/`cpOfFixed`, `refrReOf`/`refrReOfFixed`, … .  Which one
the working tree has is decided on every run from the AST (`cp_template_conforms`, `refr_template_conforms`).  Line numbers below: the as-shipped text,

* `src/cs_cp.c:20-60`   — the one body `CS_CP_BEGIN … CS_CP_END` shared by the 21 `_CP` functions
                          (macros `CS_CP_F`, `CS_CP_FF`, `CS_CP_FFF`, lines 62-83, instantiated on lines 85-105);
* `src/refractive_indices.c:22-59`   — `REFR_BEGIN` / `REFR_END`;
* `src/refractive_indices.c:61-90`   — `Refractive_Index_Re`;
* `src/refractive_indices.c:95-117`  — `Refractive_Index_Im`;
* `src/refractive_indices.c:119-161` — `Refractive_Index`;
* `src/refractive_indices.c:166-171` — `Refractive_Index2`.

What is a PARAMETER here (subject of other properties): the outcome of `CompoundParser(compound, NULL)` (C07) and of
`GetCompoundDataNISTByName(compound, NULL)` (C15) for the given name, and the elemental functions (`CS_Total`, `Fi`,
`AtomicWeight`, …; C01–C05) as functions `Int → Slot → M (α × Slot)` with the remaining arguments (`E`, `theta`, `phi`)
already applied.  The element arrays `Elements[0..nElements)`, `massFractions[0..nElements)` are one list of pairs.

The temporaries `cd` / `cdn` are modelled by a live-block counter: a successful lookup adds the number of heap blocks its
result consists of, `FreeCompoundData` / `FreeCompoundDataNIST` subtract it.  "Released on every exit" is then a statement
about the last component of the model's result.

Core Lean only; polymorphic in the carrier (ℝ in the theorems, `Float` in the driver).
-/
namespace XrlC06
namespace CP

/-- src/xraylib-error-private.h:66, :49, :48 (the literals are re-extracted from the AST of the two C files on every run
and compared with these by `cp_template_conforms` / `refr_template_conforms`) -/
def UNKNOWN_COMPOUND : String := "Compound is not a valid chemical formula and is not present in the NIST compound database"
def NEGATIVE_DENSITY : String := "Density must be strictly positive"
def NEGATIVE_ENERGY : String := "Energy must be strictly positive"

/-- `(Elements[i], massFractions[i])`, `i = 0 … nElements-1` -/
abbrev Els (α : Type) := List (Int × α)

/-- a non-NULL `struct compoundData *` as far as these functions read it; `blocks` = heap blocks it consists of -/
structure Parsed (α : Type) where
  els : Els α
  blocks : Nat

/-- a non-NULL `struct compoundDataNIST *` -/
structure Nist (α : Type) where
  els : Els α
  density : α
  blocks : Nat

/-- the state of the two temporaries after the `if / else if / else` chain -/
inductive Resolved (α : Type) where
  | formula (p : Parsed α)     -- cd != NULL, cdn == NULL
  | nist (n : Nist α)          -- cd == NULL, cdn != NULL
  | none                       -- both NULL
  deriving Inhabited

/-- cs_cp.c:29-42 / refractive_indices.c:27-43: the formula parser is asked first; the NIST catalogue only when the
parser returned NULL. -/
def resolve {α : Type} (parse : Option (Parsed α)) (nist : Option (Nist α)) : Resolved α :=
  match parse with
  | some p => .formula p
  | none =>
    match nist with
    | some n => .nist n
    | none => .none

/-- the arrays the loop walks: `nElements`, `Elements`, `massFractions` copied from `cd` or `cdn` (cs_cp.c:30-32, 35-37) -/
def Resolved.elements {α : Type} : Resolved α → Option (Els α)
  | .formula p => some p.els
  | .nist n => some n.els
  | .none => Option.none

/-- heap after the successful lookup -/
def Resolved.alloc {α : Type} (r : Resolved α) (live : Nat) : Nat :=
  match r with
  | .formula p => live + p.blocks
  | .nist n => live + n.blocks
  | .none => live

/-- `if (cd) FreeCompoundData(cd); else if (cdn) FreeCompoundDataNIST(cdn);` (cs_cp.c:55-58, REFR_END refractive_indices.c:55-59) -/
def Resolved.release {α : Type} (r : Resolved α) (live : Nat) : Nat :=
  match r with
  | .formula p => live - p.blocks
  | .nist n => live - n.blocks
  | .none => live

section
variable {α : Type} [Add α] [Sub α] [Mul α] [Div α] [LE α] [DecidableLE α] [OfScientific α] [XNum α]

/-! ## cs_cp.c -/

/-- cs_cp.c:44-53, the loop with accumulator `rv`; `f Z error` is `function(Elements[i], E[, theta[, phi]], error)` -/
def cpLoop (f : Int → Slot → M (α × Slot)) : Els α → α → Slot → M (α × Slot)
  | [], rv, error => pure (rv, error)                         -- :44   i == nElements
  | (Z, w) :: rest, rv, error => do
    let (v, error) ← f Z error                                -- :65/73/81   function(Elements[i], …, error)
    let tmp := v * w                                          --             … * massFractions[i]
    if deq tmp (0.0 : α) then pure ((0.0 : α), error)         -- :48-51      rv = 0.0; break;
    else cpLoop f rest (rv + tmp) error                       -- :52         rv += tmp;

/-- the body shared by the 21 functions once the two lookups have answered; result = ((return value, slot), live blocks) -/
def cpOf (r : Resolved α) (f : Int → Slot → M (α × Slot)) (error : Slot) (live : Nat) : M ((α × Slot) × Nat) :=
  match r.elements with
  | none => do
    let error ← setErr error XRL_ERROR_INVALID_ARGUMENT UNKNOWN_COMPOUND     -- :40
    pure (((0.0 : α), error), live)                                          -- :41   return 0.0 (nothing was allocated)
  | some els => do
    let live := r.alloc live                                                 -- :29 / :34
    let out ← cpLoop f els (0.0 : α) error                                   -- :24, :44-53
    let live := r.release live                                               -- :55-58
    pure (out, live)                                                         -- :60

/-! ### the same body after the proposed repair notes/proposed_fixes/C06-1.diff

The repair detects a failing element through a local error object instead of through the value 0:
`tmp = function(Elements[i], …, &tmp_error) * massFractions[i]; if (tmp_error != NULL) { xrl_propagate_error(error, tmp_error); rv = 0.0; break; } rv += tmp;`
The check recognises which of the two bodies the working tree has from the AST (`cp_template_conforms`) and runs the model
with the same switch. -/

/-- `xrl_propagate_error(dest, src)` with `src != NULL` (src/xraylib-error.c:151-170): a NULL `dest` frees `src`, an empty one takes
it, a full one keeps its error and the C code prints the overwrite diagnostic -/
def propagateErr (dest : Slot) (e : Err) : M Slot :=
  match dest with
  | .null => pure .null
  | .empty => pure (.full e)
  | .full _ => throw .overwrite

def cpLoopFixed (f : Int → Slot → M (α × Slot)) : Els α → α → Slot → M (α × Slot)
  | [], rv, error => pure (rv, error)
  | (Z, w) :: rest, rv, error => do
    let (v, tmp_error) ← f Z Slot.empty                       -- function(Elements[i], …, &tmp_error), tmp_error == NULL before
    let tmp := v * w
    match tmp_error with
    | .full e => do                                           -- if (tmp_error != NULL)
      let error ← propagateErr error e                        --   xrl_propagate_error(error, tmp_error);
      pure ((0.0 : α), error)                                 --   rv = 0.0; break;
    | _ => cpLoopFixed f rest (rv + tmp) error                -- rv += tmp;

def cpOfFixed (r : Resolved α) (f : Int → Slot → M (α × Slot)) (error : Slot) (live : Nat) : M ((α × Slot) × Nat) :=
  match r.elements with
  | none => do
    let error ← setErr error XRL_ERROR_INVALID_ARGUMENT UNKNOWN_COMPOUND
    pure (((0.0 : α), error), live)
  | some els => do
    let live := r.alloc live
    let out ← cpLoopFixed f els (0.0 : α) error
    let live := r.release live
    pure (out, live)

def cpFixed (parse : Option (Parsed α)) (nist : Option (Nist α)) (f : Int → Slot → M (α × Slot)) (error : Slot) (live : Nat) :
    M ((α × Slot) × Nat) :=
  cpOfFixed (resolve parse nist) f error live

/-- `function_CP(compound, …, error)` -/
def cp (parse : Option (Parsed α)) (nist : Option (Nist α)) (f : Int → Slot → M (α × Slot)) (error : Slot) (live : Nat) :
    M ((α × Slot) × Nat) :=
  cpOf (resolve parse nist) f error live

/-! ## refractive_indices.c -/

/-- refractive_indices.c:15 -/
def KD : α := 4.15179082788e-4
/-- refractive_indices.c:116, :158 -/
def HC_4PI : α := 9.8663479e-9

/-- refractive_indices.c:36-38: a NIST entry supplies its own density when the caller's is not positive -/
def effDensity (r : Resolved α) (density : α) : α :=
  match r with
  | .nist n => if density ≤ (0.0 : α) then n.density else density
  | _ => density

/-- what `REFR_BEGIN` leaves behind: an early return (slot, live blocks; the return value is `rv`'s initial value) or the
loop's inputs (elements, effective density, live blocks) -/
def refrBegin (r : Resolved α) (E density : α) (error : Slot) (live : Nat) : M (Sum (Slot × Nat) (Els α × α × Nat)) :=
  match r.elements with
  | none => do
    let error ← setErr error XRL_ERROR_INVALID_ARGUMENT UNKNOWN_COMPOUND     -- :41
    pure (.inl (error, live))                                                -- :42   return rv
  | some els => do
    let live := r.alloc live                                                 -- :27 / :32
    let density := effDensity r density                                      -- :36-38
    if density ≤ (0.0 : α) then do                                           -- :44
      let error ← setErr error XRL_ERROR_INVALID_ARGUMENT NEGATIVE_DENSITY   -- :45
      pure (.inl (error, r.release live))                                    -- :46-47  REFR_END return rv
    else if E ≤ (0.0 : α) then do                                            -- :49
      let error ← setErr error XRL_ERROR_INVALID_ARGUMENT NEGATIVE_ENERGY    -- :50
      pure (.inl (error, r.release live))                                    -- :51-52
    else pure (.inr (els, density, live))

/-- one term of delta: `massFractions[i] * KD * (Elements[i] + fi) / atomic_weight / E / E` (:83, :152), left to right -/
def deltaTerm (Z : Int) (w fi aw E : α) : M α := do
  let t ← ddiv (w * KD * (XNum.ofInt Z + fi)) aw
  let t ← ddiv t E
  ddiv t E

/-- :70-84; `inl` = an early `return 0.0` after REFR_END -/
def reLoop (fi aw : Int → Slot → M (α × Slot)) (E : α) : Els α → α → Slot → M (Sum Slot (α × Slot))
  | [], rv, error => pure (.inr (rv, error))
  | (Z, w) :: rest, rv, error => do
    let (f, error) ← fi Z error                               -- :73
    if deq f (0.0 : α) then pure (.inl error)                 -- :74-77
    else do
      let (a, error) ← aw Z error                             -- :78
      if deq a (0.0 : α) then pure (.inl error)               -- :79-82
      else do
        let t ← deltaTerm Z w f a E
        reLoop fi aw E rest (rv + t) error                    -- :83

/-- `Refractive_Index_Re(compound, E, density, error)` -/
def refrReOf (r : Resolved α) (fi aw : Int → Slot → M (α × Slot)) (E density : α) (error : Slot) (live : Nat) :
    M ((α × Slot) × Nat) := do
  match ← refrBegin r E density error live with
  | .inl (error, live) => pure (((0.0 : α), error), live)                      -- return rv  (:64 rv = 0.0)
  | .inr (els, density, live) =>
    match ← reLoop fi aw E els (0.0 : α) error with
    | .inl error => pure (((0.0 : α), error), r.release live)                  -- :75-76, :80-81
    | .inr (rv, error) => pure (((1.0 : α) - rv * density, error), r.release live)   -- :86-89

/-- :103-111 -/
def imLoop (cs : Int → Slot → M (α × Slot)) : Els α → α → Slot → M (Sum Slot (α × Slot))
  | [], rv, error => pure (.inr (rv, error))
  | (Z, w) :: rest, rv, error => do
    let (c, error) ← cs Z error                               -- :105
    if deq c (0.0 : α) then pure (.inl error)                 -- :106-109
    else imLoop cs rest (rv + c * w) error                    -- :110

/-- `rv * density * 9.8663479e-9 / E` (:116, :158) -/
def imFinal (rv density E : α) : M α := ddiv (rv * density * HC_4PI) E

/-- `Refractive_Index_Im(compound, E, density, error)` -/
def refrImOf (r : Resolved α) (cs : Int → Slot → M (α × Slot)) (E density : α) (error : Slot) (live : Nat) :
    M ((α × Slot) × Nat) := do
  match ← refrBegin r E density error live with
  | .inl (error, live) => pure (((0.0 : α), error), live)
  | .inr (els, density, live) =>
    match ← imLoop cs els (0.0 : α) error with
    | .inl error => pure (((0.0 : α), error), r.release live)                  -- :107-108
    | .inr (rv, error) => do
      let v ← imFinal rv density E                                             -- :116
      pure ((v, error), r.release live)                                        -- :113

/-- :129-153; accumulators `(delta, im)` -/
def cxLoop (fi aw cs : Int → Slot → M (α × Slot)) (E : α) : Els α → α × α → Slot → M (Sum Slot ((α × α) × Slot))
  | [], acc, error => pure (.inr (acc, error))
  | (Z, w) :: rest, (delta, im), error => do
    let (f, error) ← fi Z error                               -- :133
    if deq f (0.0 : α) then pure (.inl error)                 -- :134-137
    else do
      let (a, error) ← aw Z error                             -- :139
      if deq a (0.0 : α) then pure (.inl error)               -- :140-143
      else do
        let (c, error) ← cs Z error                           -- :145
        if deq c (0.0 : α) then pure (.inl error)             -- :146-149
        else do
          let t ← deltaTerm Z w f a E
          cxLoop fi aw cs E rest (delta + t, im + c * w) error     -- :151-152

/-- `Refractive_Index(compound, E, density, error)`; the value is `(re, im)` -/
def refrOf (r : Resolved α) (fi aw cs : Int → Slot → M (α × Slot)) (E density : α) (error : Slot) (live : Nat) :
    M (((α × α) × Slot) × Nat) := do
  match ← refrBegin r E density error live with
  | .inl (error, live) => pure ((((0.0 : α), (0.0 : α)), error), live)          -- :123  rv = {0.0, 0.0}
  | .inr (els, density, live) =>
    match ← cxLoop fi aw cs E els ((0.0 : α), (0.0 : α)) error with
    | .inl error => pure ((((0.0 : α), (0.0 : α)), error), r.release live)
    | .inr ((delta, im), error) => do
      let imv ← imFinal im density E                                             -- :158
      pure ((((1.0 : α) - delta * density, imv), error), r.release live)         -- :155-160

/-- `Refractive_Index2(compound, E, density, result, error)`: `*result = Refractive_Index(…)` field by field (:166-171) -/
def refr2Of (r : Resolved α) (fi aw cs : Int → Slot → M (α × Slot)) (E density : α) (error : Slot) (live : Nat) :
    M (((α × α) × Slot) × Nat) := do
  let ((z, error), live) ← refrOf r fi aw cs E density error live
  pure (((z.1, z.2), error), live)

/-! ### the refractive-index bodies after the proposed repair notes/proposed_fixes/C06-7.diff

Same repair as C06-1 for `cs_cp.c`: `REFR_BEGIN` declares `xrl_error *tmp_error = NULL;`, every elemental call receives `&tmp_error`, and the
failure test is `if (tmp_error != NULL) { xrl_propagate_error(error, tmp_error); REFR_END return …; }` instead of `value == 0.0`.
A successful value of exactly 0 is then an ordinary term of the sum.  The check recognises which bodies the working tree has from the AST
(`refr_template_conforms`) and runs the model with the same switch (`c06-model rfixed`). -/

/-- one elemental call of the repaired bodies: `x = g(Elements[i], …, &tmp_error); if (tmp_error != NULL) { xrl_propagate_error(error, tmp_error); …` —
`inl` = the caller's slot after the propagation (the early return follows), `inr` = the value (tmp_error still NULL) -/
def callTmp (g : Int → Slot → M (α × Slot)) (Z : Int) (error : Slot) : M (Sum Slot α) := do
  let (x, tmp_error) ← g Z Slot.empty
  match tmp_error with
  | .full e => do
    let error ← propagateErr error e
    pure (.inl error)
  | _ => pure (.inr x)

/-- `Refractive_Index_Re` loop after the repair -/
def reLoopFixed (fi aw : Int → Slot → M (α × Slot)) (E : α) : Els α → α → Slot → M (Sum Slot (α × Slot))
  | [], rv, error => pure (.inr (rv, error))
  | (Z, w) :: rest, rv, error => do
    match ← callTmp fi Z error with                           -- fi = Fi(Elements[i], E, &tmp_error); if (tmp_error != NULL) …
    | .inl error => pure (.inl error)
    | .inr f =>
      match ← callTmp aw Z error with                         -- atomic_weight = AtomicWeight(Elements[i], &tmp_error); if (tmp_error != NULL) …
      | .inl error => pure (.inl error)
      | .inr a => do
        let t ← deltaTerm Z w f a E
        reLoopFixed fi aw E rest (rv + t) error

def refrReOfFixed (r : Resolved α) (fi aw : Int → Slot → M (α × Slot)) (E density : α) (error : Slot) (live : Nat) :
    M ((α × Slot) × Nat) := do
  match ← refrBegin r E density error live with
  | .inl (error, live) => pure (((0.0 : α), error), live)
  | .inr (els, density, live) =>
    match ← reLoopFixed fi aw E els (0.0 : α) error with
    | .inl error => pure (((0.0 : α), error), r.release live)
    | .inr (rv, error) => pure (((1.0 : α) - rv * density, error), r.release live)

def imLoopFixed (cs : Int → Slot → M (α × Slot)) : Els α → α → Slot → M (Sum Slot (α × Slot))
  | [], rv, error => pure (.inr (rv, error))
  | (Z, w) :: rest, rv, error => do
    match ← callTmp cs Z error with                           -- cs = CS_Total(Elements[i], E, &tmp_error); if (tmp_error != NULL) …
    | .inl error => pure (.inl error)
    | .inr c => imLoopFixed cs rest (rv + c * w) error

def refrImOfFixed (r : Resolved α) (cs : Int → Slot → M (α × Slot)) (E density : α) (error : Slot) (live : Nat) :
    M ((α × Slot) × Nat) := do
  match ← refrBegin r E density error live with
  | .inl (error, live) => pure (((0.0 : α), error), live)
  | .inr (els, density, live) =>
    match ← imLoopFixed cs els (0.0 : α) error with
    | .inl error => pure (((0.0 : α), error), r.release live)
    | .inr (rv, error) => do
      let v ← imFinal rv density E
      pure ((v, error), r.release live)

def cxLoopFixed (fi aw cs : Int → Slot → M (α × Slot)) (E : α) : Els α → α × α → Slot → M (Sum Slot ((α × α) × Slot))
  | [], acc, error => pure (.inr (acc, error))
  | (Z, w) :: rest, (delta, im), error => do
    match ← callTmp fi Z error with
    | .inl error => pure (.inl error)
    | .inr f =>
      match ← callTmp aw Z error with
      | .inl error => pure (.inl error)
      | .inr a =>
        match ← callTmp cs Z error with
        | .inl error => pure (.inl error)
        | .inr c => do
          let t ← deltaTerm Z w f a E
          cxLoopFixed fi aw cs E rest (delta + t, im + c * w) error

def refrOfFixed (r : Resolved α) (fi aw cs : Int → Slot → M (α × Slot)) (E density : α) (error : Slot) (live : Nat) :
    M (((α × α) × Slot) × Nat) := do
  match ← refrBegin r E density error live with
  | .inl (error, live) => pure ((((0.0 : α), (0.0 : α)), error), live)
  | .inr (els, density, live) =>
    match ← cxLoopFixed fi aw cs E els ((0.0 : α), (0.0 : α)) error with
    | .inl error => pure ((((0.0 : α), (0.0 : α)), error), r.release live)
    | .inr ((delta, im), error) => do
      let imv ← imFinal im density E
      pure ((((1.0 : α) - delta * density, imv), error), r.release live)

/-- `Refractive_Index2` is untouched by the repair: it forwards to (the repaired) `Refractive_Index` -/
def refr2OfFixed (r : Resolved α) (fi aw cs : Int → Slot → M (α × Slot)) (E density : α) (error : Slot) (live : Nat) :
    M (((α × α) × Slot) × Nat) := do
  let ((z, error), live) ← refrOfFixed r fi aw cs E density error live
  pure (((z.1, z.2), error), live)

def refrReFixed (parse : Option (Parsed α)) (nist : Option (Nist α)) := refrReOfFixed (α := α) (resolve parse nist)
def refrImFixed (parse : Option (Parsed α)) (nist : Option (Nist α)) := refrImOfFixed (α := α) (resolve parse nist)
def refrFixed (parse : Option (Parsed α)) (nist : Option (Nist α)) := refrOfFixed (α := α) (resolve parse nist)
def refr2Fixed (parse : Option (Parsed α)) (nist : Option (Nist α)) := refr2OfFixed (α := α) (resolve parse nist)

def refrRe (parse : Option (Parsed α)) (nist : Option (Nist α)) := refrReOf (α := α) (resolve parse nist)
def refrIm (parse : Option (Parsed α)) (nist : Option (Nist α)) := refrImOf (α := α) (resolve parse nist)
def refr (parse : Option (Parsed α)) (nist : Option (Nist α)) := refrOf (α := α) (resolve parse nist)
def refr2 (parse : Option (Parsed α)) (nist : Option (Nist α)) := refr2Of (α := α) (resolve parse nist)

end

/-! ## The shapes the model mirrors, as the AST renderer (tools/c06extract.py) prints them

`Props/C06.lean` proves `Gen.cpTemplates = [expectedCpTemplate]` and the analogous statements for the four refractive
functions: a change of the C text that is not a change of these lines cannot happen unnoticed. -/

def resolveLines (refr : Bool) (ret : String) : List String := [
  "if ((cd = CompoundParser(compound, NULL)) != NULL) {",
  "  nElements = cd->nElements;",
  "  Elements = cd->Elements;",
  "  massFractions = cd->massFractions;",
  "} else {",
  "  if ((cdn = GetCompoundDataNISTByName(compound, NULL)) != NULL) {",
  "    nElements = cdn->nElements;",
  "    Elements = cdn->Elements;",
  "    massFractions = cdn->massFractions;"] ++
  (if refr then [
  "    if (density <= 0.0) {",
  "      density = cdn->density;",
  "    }"] else []) ++ [
  "  } else {",
  "    xrl_set_error_literal(error, XRL_ERROR_INVALID_ARGUMENT, \"" ++ UNKNOWN_COMPOUND ++ "\");",
  "    return " ++ ret ++ ";",
  "  }",
  "}"]

def freeLines (pad : String) : List String := [
  pad ++ "if (cd) {",
  pad ++ "  FreeCompoundData(cd);",
  pad ++ "} else {",
  pad ++ "  if (cdn) {",
  pad ++ "    FreeCompoundDataNIST(cdn);",
  pad ++ "  }",
  pad ++ "}"]

def expectedCpTemplate : List String := [
  "struct compoundData * cd = NULL;",
  "struct compoundDataNIST * cdn = NULL;",
  "int i;",
  "double rv = 0.0;",
  "int nElements = 0;",
  "int * Elements = NULL;",
  "double * massFractions = NULL;"] ++ resolveLines false "0.0" ++ [
  "for (i = 0; i < nElements; i++) {",
  "  double tmp = 0.0;",
  "  tmp = @F(@ARGS) * massFractions[i];",
  "  if (tmp == 0.0) {",
  "    rv = 0.0;",
  "    break;",
  "  }",
  "  rv += tmp;",
  "}"] ++ freeLines "" ++ [
  "return rv;"]

/-- the body after notes/proposed_fixes/C06-1.diff -/
def expectedCpTemplateFixed : List String := [
  "struct compoundData * cd = NULL;",
  "struct compoundDataNIST * cdn = NULL;",
  "int i;",
  "double rv = 0.0;",
  "int nElements = 0;",
  "int * Elements = NULL;",
  "double * massFractions = NULL;",
  "xrl_error * tmp_error = NULL;"] ++ resolveLines false "0.0" ++ [
  "for (i = 0; i < nElements; i++) {",
  "  double tmp = 0.0;",
  "  tmp = @F(@ARGS) * massFractions[i];",
  "  if (tmp_error != NULL) {",
  "    xrl_propagate_error(error, tmp_error);",
  "    rv = 0.0;",
  "    break;",
  "  }",
  "  rv += tmp;",
  "}"] ++ freeLines "" ++ [
  "return rv;"]

/-- the slot argument the elemental call receives in the body with the given template -/
def slotArgOf (templates : List (List String)) : String :=
  if templates = [expectedCpTemplateFixed] then "&tmp_error" else "error"

def guardLines : List String := [
  "if (density <= 0.0) {",
  "  xrl_set_error_literal(error, XRL_ERROR_INVALID_ARGUMENT, \"" ++ NEGATIVE_DENSITY ++ "\");"] ++ freeLines "  " ++ [
  "  return rv;",
  "}",
  "if (E <= 0.0) {",
  "  xrl_set_error_literal(error, XRL_ERROR_INVALID_ARGUMENT, \"" ++ NEGATIVE_ENERGY ++ "\");"] ++ freeLines "  " ++ [
  "  return rv;",
  "}"]

def refrDecls : List String := [
  "int nElements = 0;",
  "int * Elements = NULL;",
  "double * massFractions = NULL;"]

def zeroTest (var ret : String) : List String := [
  "  if (" ++ var ++ " == 0.0) {"] ++ freeLines "    " ++ [
  "    return " ++ ret ++ ";",
  "  }"]

def deltaLine (acc : String) : String :=
  "  " ++ acc ++ " += massFractions[i] * 0.000415179082788 * (Elements[i] + fi) / atomic_weight / E / E;"

def expectedRe : List String := [
  "struct compoundData * cd = NULL;",
  "struct compoundDataNIST * cdn = NULL;",
  "double rv = 0.0;",
  "int i;"] ++ refrDecls ++ resolveLines true "rv" ++ guardLines ++ [
  "for (i = 0; i < nElements; i++) {",
  "  double fi = 0.0;",
  "  double atomic_weight = 0.0;",
  "  fi = Fi(Elements[i], E, error);"] ++ zeroTest "fi" "0.0" ++ [
  "  atomic_weight = AtomicWeight(Elements[i], error);"] ++ zeroTest "atomic_weight" "0.0" ++ [
  deltaLine "rv",
  "}"] ++ freeLines "" ++ [
  "return 1.0 - (rv * density);"]

def expectedIm : List String := [
  "struct compoundData * cd = NULL;",
  "struct compoundDataNIST * cdn = NULL;",
  "int i;",
  "double rv = 0.0;"] ++ refrDecls ++ resolveLines true "rv" ++ guardLines ++ [
  "for (i = 0; i < nElements; i++) {",
  "  double cs = 0.0;",
  "  cs = CS_Total(Elements[i], E, error);"] ++ zeroTest "cs" "0.0" ++ [
  "  rv += cs * massFractions[i];",
  "}"] ++ freeLines "" ++ [
  "return rv * density * 9.8663479e-09 / E;"]

def expectedCx : List String := [
  "struct compoundData * cd = NULL;",
  "struct compoundDataNIST * cdn = NULL;",
  "int i;",
  "xrlComplex rv = {0.0, 0.0};",
  "double delta = 0.0;",
  "double im = 0.0;"] ++ refrDecls ++ resolveLines true "rv" ++ guardLines ++ [
  "for (i = 0; i < nElements; i++) {",
  "  double fi = 0.0;",
  "  double atomic_weight = 0.0;",
  "  double cs = 0.0;",
  "  fi = Fi(Elements[i], E, error);"] ++ zeroTest "fi" "rv" ++ [
  "  atomic_weight = AtomicWeight(Elements[i], error);"] ++ zeroTest "atomic_weight" "rv" ++ [
  "  cs = CS_Total(Elements[i], E, error);"] ++ zeroTest "cs" "rv" ++ [
  "  im += cs * massFractions[i];",
  deltaLine "delta",
  "}"] ++ freeLines "" ++ [
  "rv.re = 1.0 - (delta * density);",
  "rv.im = im * density * 9.8663479e-09 / E;",
  "return rv;"]

/-! the three bodies after notes/proposed_fixes/C06-7.diff -/

def refrDeclsFixed : List String := refrDecls ++ ["xrl_error * tmp_error = NULL;"]

def errTest (ret : String) : List String := [
  "  if (tmp_error != NULL) {",
  "    xrl_propagate_error(error, tmp_error);"] ++ freeLines "    " ++ [
  "    return " ++ ret ++ ";",
  "  }"]

def expectedReFixed : List String := [
  "struct compoundData * cd = NULL;",
  "struct compoundDataNIST * cdn = NULL;",
  "double rv = 0.0;",
  "int i;"] ++ refrDeclsFixed ++ resolveLines true "rv" ++ guardLines ++ [
  "for (i = 0; i < nElements; i++) {",
  "  double fi = 0.0;",
  "  double atomic_weight = 0.0;",
  "  fi = Fi(Elements[i], E, &tmp_error);"] ++ errTest "0.0" ++ [
  "  atomic_weight = AtomicWeight(Elements[i], &tmp_error);"] ++ errTest "0.0" ++ [
  deltaLine "rv",
  "}"] ++ freeLines "" ++ [
  "return 1.0 - (rv * density);"]

def expectedImFixed : List String := [
  "struct compoundData * cd = NULL;",
  "struct compoundDataNIST * cdn = NULL;",
  "int i;",
  "double rv = 0.0;"] ++ refrDeclsFixed ++ resolveLines true "rv" ++ guardLines ++ [
  "for (i = 0; i < nElements; i++) {",
  "  double cs = 0.0;",
  "  cs = CS_Total(Elements[i], E, &tmp_error);"] ++ errTest "0.0" ++ [
  "  rv += cs * massFractions[i];",
  "}"] ++ freeLines "" ++ [
  "return rv * density * 9.8663479e-09 / E;"]

def expectedCxFixed : List String := [
  "struct compoundData * cd = NULL;",
  "struct compoundDataNIST * cdn = NULL;",
  "int i;",
  "xrlComplex rv = {0.0, 0.0};",
  "double delta = 0.0;",
  "double im = 0.0;"] ++ refrDeclsFixed ++ resolveLines true "rv" ++ guardLines ++ [
  "for (i = 0; i < nElements; i++) {",
  "  double fi = 0.0;",
  "  double atomic_weight = 0.0;",
  "  double cs = 0.0;",
  "  fi = Fi(Elements[i], E, &tmp_error);"] ++ errTest "rv" ++ [
  "  atomic_weight = AtomicWeight(Elements[i], &tmp_error);"] ++ errTest "rv" ++ [
  "  cs = CS_Total(Elements[i], E, &tmp_error);"] ++ errTest "rv" ++ [
  "  im += cs * massFractions[i];",
  deltaLine "delta",
  "}"] ++ freeLines "" ++ [
  "rv.re = 1.0 - (delta * density);",
  "rv.im = im * density * 9.8663479e-09 / E;",
  "return rv;"]

def expectedCx2 : List String := [
  "xrlComplex z = Refractive_Index(compound, E, density, error);",
  "result->re = z.re;",
  "result->im = z.im;"]

/-- the 21 functions of the property (DESIGN §3 C06 / include/xraylib.h), in the order of cs_cp.c:85-105 -/
def cpFunctions : List String := [
  "CS_Total", "CS_Photo", "CS_Rayl", "CS_Compt", "CSb_Total", "CSb_Photo", "CSb_Rayl", "CSb_Compt", "CS_Energy",
  "DCS_Rayl", "DCS_Compt", "DCSb_Rayl", "DCSb_Compt", "DCSP_Rayl", "DCSP_Compt", "DCSPb_Rayl", "DCSPb_Compt",
  "CS_Photo_Total", "CSb_Photo_Total", "CS_Total_Kissel", "CSb_Total_Kissel"]

end CP
end XrlC06
