-- root of the `XrlC06` library (C06: compound quantities follow the mass-fraction mixture rule)
import XrlC06.Core.Basic
import XrlC06.Core.Real
import XrlC06.Spec.Basic
import XrlC06.Spec.Mixture
import XrlC06.Hand.CP
import XrlC06.Gen.Table
import XrlC06.Lemmas.Loops
import XrlC06.Lemmas.Refr
import XrlC06.Lemmas.Total
import XrlC06.Lemmas.Begin
import XrlC06.Lemmas.Fixed
import XrlC06.Lemmas.RefrFixed
import XrlC06.Props.C06
import XrlC06.Props.C06r
