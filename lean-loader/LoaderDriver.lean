/-
loader-model: run the Lean model of XRayInitFromPath on a real data directory and print every cell.

  loader-model load <dir-containing-data/> <outfile>
      first line `OK` or `FAIL <exit1|ub|abort|unsupported> <why>`; then, if OK, every table:
        F <name> <scale> <ncells> <ncols>      then ncells lines  `<exact> <print11> <tie>`
        I <name> <ncols> <ncells>              then ncells lines  `<int>`
        V <name> <ncols> <nvecs>               then per vector `N` (NULL) or `L <len>` + len lines `<exact> <print11> <tie>`
      <exact> is the exact decimal `<m>e<e>` held by the model (unit conversion applied), <print11> what `%.10E` leaves.
  loader-model records <file> <2|3>
      the records the model's `fscanf` loop reads from one file: `R <Z> <name> <exact>` …, then `T <how the stream ended>`.
Core Lean only (no Mathlib).
-/
import Loader
import LoaderGen.Names
open Loader

def readChars (path : System.FilePath) : IO (Option (List Char)) := do
  try
    let b ← IO.FS.readBinFile path
    let mut l : List Char := []
    let mut i := b.size
    while i > 0 do
      i := i - 1
      l := Char.ofNat (b.get! i).toNat :: l
    return some l
  catch _ => return none

def cellLine (d : Dec) : String :=
  d.toStr ++ " " ++ (d.print11).toStr ++ (if d.isTie then " 1\n" else " 0\n")

def emit (h : IO.FS.Handle) (o : Out) : IO Unit := do
  match o with
  | .F name scale t =>
    h.putStr s!"F {name} {scale} {t.data.size} {t.ncols}\n"
    let mut buf := ""
    for d in t.data do
      buf := buf ++ cellLine d
      if buf.length > 60000 then h.putStr buf; buf := ""
    h.putStr buf
  | .I name ncols vals =>
    h.putStr s!"I {name} {ncols} {vals.size}\n"
    let mut buf := ""
    for v in vals do buf := buf ++ toString v ++ "\n"
    h.putStr buf
  | .V name ncols vecs =>
    h.putStr s!"V {name} {ncols} {vecs.size}\n"
    for v in vecs do
      match v with
      | none => h.putStr "N\n"
      | some a =>
        let mut buf := s!"L {a.size}\n"
        for d in a do buf := buf ++ cellLine d
        h.putStr buf

def failLine : Fail → String
  | .exit1 w => "FAIL exit1 " ++ w
  | .ub w => "FAIL ub " ++ w
  | .abort w => "FAIL abort " ++ w
  | .unsupported w => "FAIL unsupported " ++ w

def tailStr : Tail → String
  | .clean => "clean"
  | .partialName n => "partialName " ++ n
  | .unsupported w => "unsupported " ++ w

def main (args : List String) : IO UInt32 := do
  match args with
  | ["load", dir, out] =>
    let N := LoaderGen.names
    -- the files are read one at a time, in the order of the C, by the same step list `loadAll` folds over
    let mut outs : Array Out := #[]
    let mut failed : Option Fail := none
    for s in steps N do
      if failed.isSome then break
      match ← readChars (System.FilePath.mk dir / "data" / s.file) with
      | none => failed := some (.exit1 ("File " ++ s.file ++ " not found"))
      | some text =>
        match s.run text with
        | .error f => failed := some f
        | .ok o => outs := outs ++ o.toArray
    let h ← IO.FS.Handle.mk out .write
    match failed with
    | some f => h.putStr (failLine f ++ "\n")
    | none =>
      h.putStr "OK\n"
      for o in outs do emit h o
    h.flush
    return 0
  | ["records", file, k] =>
    match ← readChars file with
    | none => IO.println "T missing"; return 0
    | some text =>
      let (recs, tail) := if k == "2" then records2 text else records3 text
      let mut buf := ""
      for r in recs do
        buf := buf ++ s!"R {r.Z} {r.name} {r.v.toStr}\n"
        if buf.length > 60000 then IO.print buf; buf := ""
      IO.print buf
      IO.println ("T " ++ tailStr tail)
      return 0
  | _ =>
    IO.eprintln "usage: loader-model load <root> <out> | records <file> <2|3>"
    return 2
