#!/bin/sh
# Prebuild the lean-loader project (C01, loader half): regenerate LoaderGen/Names.lean from the tree under verification
# (VERIF_REPO honoured, default /repo) and build model, theorems and the model executable, so that later runs of
# props/c01_loader.py only re-elaborate what changed.  Nothing is written under /repo; the scratch directory is removed.
set -e
cd "$(dirname "$0")/.."
python3 - <<'PY'
import sys, os, subprocess
sys.path.insert(0, os.getcwd())
from vlib import cbuild
with cbuild.Scratch() as sc:
    b = sc.path('b'); os.makedirs(b)
    v = cbuild.project_version(cbuild.REPO)
    open(os.path.join(b, 'config.h'), 'w').write(cbuild.CONFIG_H % (v, v))
    subprocess.run([sys.executable, 'tools/loader_extract.py', b, 'lean-loader/LoaderGen/Names.lean'], check=True,
                   env=dict(os.environ, VERIF_REPO=cbuild.REPO))
PY
cd lean-loader && lake build Loader LoaderGen LoaderProps loader-model
