import LoaderProps.C01L
