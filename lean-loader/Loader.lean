import Loader.Dec
import Loader.Scan
import Loader.Table
import Loader.Named
import Loader.Blocks
import Loader.Files
