/-
Facts about the name tables of the working tree (LoaderGen/Names.lean, regenerated from src/xrayvars.c and the public
headers on every run), decided by the kernel.  A swapped, misspelled, duplicated, missing or extra name, or a macro
whose value no longer designates its name's slot, makes one of these fail.
-/
import LoaderProps.NamesCheck
import LoaderGen.Names
namespace Loader
namespace NamesDecided
open NamesCheck LoaderGen

set_option maxRecDepth 100000

theorem shell_distinct : distinctB shellCodes = true := by decide +kernel
theorem line_distinct : distinctB lineCodes = true := by decide +kernel
theorem trans_distinct : distinctB transCodes = true := by decide +kernel
theorem auger_distinct : distinctB augerCodes = true := by decide +kernel
theorem augerTotal_distinct : distinctB augerTotalCodes = true := by decide +kernel
/-- auger_rates.dat searches both Auger tables for every record: no name is in both -/
theorem augerBoth_distinct : distinctB (augerTotalCodes ++ augerCodes) = true := by decide +kernel

theorem shell_valid : validB shellCodes = true := by decide +kernel
theorem line_valid : validB lineCodes = true := by decide +kernel
theorem trans_valid : validB transCodes = true := by decide +kernel
theorem auger_valid : validB augerCodes = true := by decide +kernel
theorem augerTotal_valid : validB augerTotalCodes = true := by decide +kernel

theorem line_match : matchFrom id sufLINE lineSlot 0 lineMacros lineCodes = true := by decide +kernel
/-- the first SHELLNUM shell macros name the rows of ShellName; the others (Q1…Q3) lie beyond the table -/
theorem shell_match : matchFrom id sufSHELL id 0 (shellMacros.take SHELLNUM) shellCodes = true := by decide +kernel
theorem shell_rest : (shellMacros.drop SHELLNUM).all (fun p => decide ((SHELLNUM : Int) ≤ p.2)) = true := by decide +kernel
/-- slot 0 of TransName ("F1") has no macro; the family starts at 1 -/
theorem trans_match : matchFrom insertL sufTRANS id 1 transMacros transCodes.tail = true := by decide +kernel
theorem auger_match : matchFrom underscoreFirst sufAUGER id 0 augerMacros augerCodes = true := by decide +kernel
theorem aliases_resolve : aliasesResolve lineAliases lineMacros = true := by decide +kernel

theorem lengths :
    (shellCodes.length = SHELLNUM ∧ lineCodes.length = LINENUM ∧ transCodes.length = TRANSNUM ∧
      augerCodes.length = AUGERNUM ∧ augerTotalCodes.length = SHELLNUM_A) ∧
    (shellTerminated && lineTerminated && transTerminated && augerTerminated && augerTotalTerminated) = true := by
  decide +kernel

/-- every name fits the buffer the loader reads it into, and its own row: rows are `char[width]`, buffers 25/25/5/10/10 -/
theorem widths :
    (shellCodes.all (fun l => decide (l.length < shellWidth)) && lineCodes.all (fun l => decide (l.length < lineWidth)) &&
     transCodes.all (fun l => decide (l.length < transWidth)) && augerCodes.all (fun l => decide (l.length < augerWidth)) &&
     augerTotalCodes.all (fun l => decide (l.length < augerTotalWidth))) = true := by decide +kernel

end NamesDecided
end Loader
