/-
Lemmas about the record loop `loadNamed` (Loader/Named.lean), all by induction over the record list.
-/
import Loader.Named
import LoaderProps.TableLemmas
namespace Loader

/-! ### the linear search -/

theorem findName_eq_some {names : List String} {nm : String} {i : Nat} (h : findName names nm = some i) :
    ∃ hi : i < names.length, names[i] = nm := by
  unfold findName at h
  by_cases hlt : List.idxOf nm names < names.length
  · simp [hlt] at h
    subst h
    exact ⟨hlt, List.getElem_idxOf hlt⟩
  · simp [hlt] at h

theorem findName_eq_none_iff {names : List String} {nm : String} : findName names nm = none ↔ nm ∉ names := by
  unfold findName
  by_cases hlt : List.idxOf nm names < names.length
  · simp [hlt, List.idxOf_lt_length_iff.mp hlt]
  · have : nm ∉ names := fun hm => hlt (List.idxOf_lt_length_iff.mpr hm)
    simp [hlt, this]

theorem idxOf_getElem_of_nodup : ∀ {names : List String}, names.Nodup → ∀ {i : Nat} (hi : i < names.length),
    List.idxOf names[i] names = i
  | [], _, i, hi => by simp at hi
  | a :: as, hnd, 0, _ => by simp
  | a :: as, hnd, i + 1, hi => by
    have hnd' := List.nodup_cons.mp hnd
    have hi' : i < as.length := by simpa using hi
    have hmem : as[i] ∈ as := List.getElem_mem hi'
    have hne : a ≠ as[i] := fun e => hnd'.1 (e ▸ hmem)
    simp only [List.getElem_cons_succ, List.idxOf_cons]
    have : (a == as[i]) = false := by simpa using hne
    rw [this]
    simp [idxOf_getElem_of_nodup hnd'.2 hi']

/-- with pairwise distinct names the search for `names[i]` stops at `i` -/
theorem findName_getElem {names : List String} (hnd : names.Nodup) {i : Nat} (hi : i < names.length) :
    findName names names[i] = some i := by
  unfold findName
  rw [idxOf_getElem_of_nodup hnd hi]
  simp [hi]

/-! ### one store -/

theorem apply1_ncols (names : List String) (zmax : Nat) (scale : Int) (t : Tbl) (r : Rec) :
    (apply1 names zmax scale t r).ncols = t.ncols := by
  unfold apply1
  split
  · split <;> rfl
  · rfl

theorem apply1_shaped {names : List String} {zmax : Nat} {scale : Int} {t : Tbl} {n : Nat} (h : t.Shaped n) (r : Rec) :
    (apply1 names zmax scale t r).Shaped n := by
  unfold apply1
  split
  · split
    · exact Tbl.shaped_set h _ _ _
    · exact h
  · exact h

/-- a record whose name is not in the table stores nothing -/
theorem apply1_unknown {names : List String} {zmax : Nat} {scale : Int} {t : Tbl} {r : Rec} (h : r.name ∉ names) :
    apply1 names zmax scale t r = t := by
  unfold apply1
  rw [findName_eq_none_iff.mpr h]

/-- what one record does to cell (Z,i): it becomes `scale·v` if the record is `(Z, names[i], v)`, and is untouched otherwise -/
theorem apply1_get {names : List String} (hnd : names.Nodup) {zmax : Nat} (scale : Int) {t : Tbl}
    (hsh : t.Shaped (zmax + 1)) (hc : t.ncols = names.length) (r : Rec)
    {Z : Nat} (hZ : Z ≤ zmax) {i : Nat} (hi : i < names.length) :
    (apply1 names zmax scale t r).get Z i =
      if r.Z = (Z : Int) ∧ r.name = names[i] then r.v.scale10 scale else t.get Z i := by
  unfold apply1
  cases hf : findName names r.name with
  | none =>
    have hnm : r.name ∉ names := findName_eq_none_iff.mp hf
    have : ¬ (r.Z = (Z : Int) ∧ r.name = names[i]) := fun h => hnm (h.2 ▸ List.getElem_mem hi)
    simp [this]
  | some j =>
    obtain ⟨hj, hnj⟩ := findName_eq_some hf
    by_cases hr : zInRange zmax r.Z = true
    · simp only [hr, if_true]
      have hr' : 0 ≤ r.Z ∧ r.Z ≤ (zmax : Int) := by simpa [zInRange] using hr
      by_cases hm : r.Z = (Z : Int) ∧ r.name = names[i]
      · -- the record is (Z, names[i], v): j = i and the row is Z
        have hji : j = i := by
          have h1 := findName_getElem hnd hi
          rw [← hm.2, hf] at h1
          exact Option.some.inj h1
        have hzn : r.Z.toNat = Z := by omega
        subst hji
        rw [hzn, if_pos hm]
        exact Tbl.get_set_same hsh (by omega) (by omega) _
      · rw [if_neg hm]
        apply Tbl.get_set_other (by omega) (by omega)
        intro hh
        apply hm
        constructor
        · omega
        · rw [← hnj]; simp [hh.2]
    · have hr0 : zInRange zmax r.Z = false := by simpa using hr
      simp only [hr0]
      have : ¬ (r.Z = (Z : Int) ∧ r.name = names[i]) := by
        intro h
        have : zInRange zmax r.Z = true := by
          simp only [zInRange, h.1, Bool.and_eq_true, decide_eq_true_eq]
          omega
        rw [hr0] at this
        exact Bool.noConfusion this
      simp [this]

/-! ### "the last record" -/

theorem lastRecord_nil (Z : Int) (nm : String) : lastRecord [] Z nm = none := rfl

theorem lastRecord_cons (r : Rec) (rs : List Rec) (Z : Int) (nm : String) :
    lastRecord (r :: rs) Z nm =
      match lastRecord rs Z nm with
      | some v => some v
      | none => if r.Z = Z ∧ r.name = nm then some r.v else none := by
  unfold lastRecord
  rw [List.reverse_cons, List.find?_append]
  cases h : List.find? (fun r => r.Z == Z && r.name == nm) rs.reverse with
  | some x => simp
  | none =>
    by_cases hm : r.Z = Z ∧ r.name = nm
    · simp [hm]
    · have : (r.Z == Z && r.name == nm) = false := by
        cases hz : decide (r.Z = Z) <;> cases hn : decide (r.name = nm) <;> simp_all
      simp [this, hm]

/-- `lastRecord` finds a record of the list with that key -/
theorem lastRecord_some_mem {recs : List Rec} {Z : Int} {nm : String} {v : Dec} (h : lastRecord recs Z nm = some v) :
    ∃ r ∈ recs, r.Z = Z ∧ r.name = nm ∧ r.v = v := by
  unfold lastRecord at h
  cases hf : List.find? (fun r => r.Z == Z && r.name == nm) recs.reverse with
  | none => simp [hf] at h
  | some x =>
    simp [hf] at h
    have hp := List.find?_some hf
    have hm := List.mem_of_find?_eq_some hf
    refine ⟨x, by simpa using hm, ?_, ?_, h⟩
    · simp at hp; exact hp.1
    · simp at hp; exact hp.2

/-- `lastRecord` is `none` exactly when no record has that key -/
theorem lastRecord_none_iff {recs : List Rec} {Z : Int} {nm : String} :
    lastRecord recs Z nm = none ↔ ∀ r ∈ recs, ¬ (r.Z = Z ∧ r.name = nm) := by
  unfold lastRecord
  simp only [Option.map_eq_none_iff, List.find?_eq_none, List.mem_reverse]
  constructor
  · intro h r hr hm
    have := h r hr
    simp [hm.1, hm.2] at this
  · intro h r hr
    have := h r hr
    simp only [Bool.and_eq_true, beq_iff_eq]
    exact this

/-- records after the last one with the key do not matter: the last record of `pre ++ [r] ++ post` with key of `r`,
when no record of `post` has that key, is `r` -/
theorem lastRecord_append_of_none (pre post : List Rec) (r : Rec)
    (h : ∀ q ∈ post, ¬ (q.Z = r.Z ∧ q.name = r.name)) : lastRecord (pre ++ r :: post) r.Z r.name = some r.v := by
  unfold lastRecord
  rw [List.reverse_append, List.reverse_cons, List.find?_append, List.find?_append]
  have h1 : List.find? (fun q => q.Z == r.Z && q.name == r.name) post.reverse = none := by
    rw [List.find?_eq_none]
    intro q hq
    have := h q (by simpa using hq)
    simp only [Bool.and_eq_true, beq_iff_eq]
    exact this
  simp [h1]

/-! ### the fold of stores -/

theorem foldl_apply1_shape {names : List String} {zmax : Nat} {scale : Int} {n : Nat} :
    ∀ (recs : List Rec) (t : Tbl), t.Shaped n →
      (recs.foldl (apply1 names zmax scale) t).Shaped n ∧ (recs.foldl (apply1 names zmax scale) t).ncols = t.ncols
  | [], t, h => ⟨h, rfl⟩
  | r :: rs, t, h => by
    have := foldl_apply1_shape (names := names) (zmax := zmax) (scale := scale) rs (apply1 names zmax scale t r) (apply1_shaped h r)
    rw [apply1_ncols] at this
    exact this

/-- cell (Z,i) after all the stores of a record list: the scaled value of the LAST record `(Z, names[i], v)`, or what was
there before when the list has none.  Induction over the list, any length. -/
theorem foldl_apply1_get {names : List String} (hnd : names.Nodup) {zmax : Nat} (scale : Int) :
    ∀ (recs : List Rec) (t : Tbl), t.Shaped (zmax + 1) → t.ncols = names.length →
      ∀ {Z : Nat}, Z ≤ zmax → ∀ {i : Nat} (hi : i < names.length),
      (recs.foldl (apply1 names zmax scale) t).get Z i =
        match lastRecord recs (Z : Int) names[i] with
        | some v => v.scale10 scale
        | none => t.get Z i
  | [], t, _, _, Z, _, i, hi => by simp [lastRecord_nil]
  | r :: rs, t, hsh, hc, Z, hZ, i, hi => by
    rw [List.foldl_cons, foldl_apply1_get hnd scale rs (apply1 names zmax scale t r) (apply1_shaped hsh r)
      (by rw [apply1_ncols]; exact hc) hZ hi, lastRecord_cons]
    cases lastRecord rs (Z : Int) names[i] with
    | some v => rfl
    | none =>
      simp only
      rw [apply1_get hnd scale hsh hc r hZ hi]
      by_cases hm : r.Z = (Z : Int) ∧ r.name = names[i]
      · simp [hm]
      · simp [hm]

/-! ### the loop: success, first fatal record, the error flag -/

theorem step_ok {cfg : NamedCfg} {st st' : St} {r : Rec} (h : step cfg st r = .ok st') :
    recFatal cfg r = none ∧ st'.t1 = apply1 cfg.names cfg.zmax cfg.scale st.t1 r ∧
      st'.t2 = apply1 cfg.names2 cfg.zmax cfg.scale st.t2 r ∧ st'.err = nextErr cfg.policy st.err (known cfg r) := by
  unfold step at h
  cases hf : recFatal cfg r with
  | some f => simp [hf] at h
  | none =>
    simp [hf] at h
    subst h
    exact ⟨rfl, rfl, rfl, rfl⟩

theorem step_of_not_fatal {cfg : NamedCfg} (st : St) {r : Rec} (h : recFatal cfg r = none) :
    step cfg st r = .ok { t1 := apply1 cfg.names cfg.zmax cfg.scale st.t1 r, t2 := apply1 cfg.names2 cfg.zmax cfg.scale st.t2 r,
                          err := nextErr cfg.policy st.err (known cfg r) } := by
  unfold step; simp [h]

theorem step_of_fatal {cfg : NamedCfg} (st : St) {r : Rec} {f : Fail} (h : recFatal cfg r = some f) :
    step cfg st r = .error f := by
  unfold step; simp [h]

/-- a load that ends normally: no record was fatal and the tables are the folds of the stores -/
theorem loadNamed_ok {cfg : NamedCfg} : ∀ (recs : List Rec) (st0 st : St), loadNamed cfg recs st0 = .ok st →
    (∀ r ∈ recs, recFatal cfg r = none) ∧
    st.t1 = recs.foldl (apply1 cfg.names cfg.zmax cfg.scale) st0.t1 ∧
    st.t2 = recs.foldl (apply1 cfg.names2 cfg.zmax cfg.scale) st0.t2
  | [], st0, st, h => by
    simp [loadNamed] at h; subst h; simp
  | r :: rs, st0, st, h => by
    unfold loadNamed at h
    cases hs : step cfg st0 r with
    | error f => simp [hs] at h
    | ok st1 =>
      simp [hs] at h
      obtain ⟨hf, h1, h2, _⟩ := step_ok hs
      obtain ⟨ha, hb, hc⟩ := loadNamed_ok rs st1 st h
      refine ⟨?_, ?_, ?_⟩
      · intro q hq
        cases List.mem_cons.mp hq with
        | inl e => exact e ▸ hf
        | inr m => exact ha q m
      · rw [List.foldl_cons, ← h1]; exact hb
      · rw [List.foldl_cons, ← h2]; exact hc

/-- conversely, if no record is fatal the load ends normally -/
theorem loadNamed_of_no_fatal {cfg : NamedCfg} : ∀ (recs : List Rec) (st0 : St), (∀ r ∈ recs, recFatal cfg r = none) →
    ∃ st, loadNamed cfg recs st0 = .ok st
  | [], st0, _ => ⟨st0, rfl⟩
  | r :: rs, st0, h => by
    unfold loadNamed
    rw [step_of_not_fatal st0 (h r (List.mem_cons_self))]
    exact loadNamed_of_no_fatal rs _ (fun q hq => h q (List.mem_cons_of_mem _ hq))

/-- the program stops at the FIRST fatal record, with that record's failure; nothing after it is looked at -/
theorem loadNamed_first_fatal {cfg : NamedCfg} {r : Rec} {f : Fail} (hf : recFatal cfg r = some f) (post : List Rec) :
    ∀ (pre : List Rec) (st0 : St), (∀ q ∈ pre, recFatal cfg q = none) → loadNamed cfg (pre ++ r :: post) st0 = .error f
  | [], st0, _ => by
    simp only [List.nil_append, loadNamed, step_of_fatal st0 hf]
  | q :: qs, st0, h => by
    simp only [List.cons_append, loadNamed]
    rw [step_of_not_fatal st0 (h q (List.mem_cons_self))]
    exact loadNamed_first_fatal hf post qs _ (fun x hx => h x (List.mem_cons_of_mem _ hx))

/-- the error flag under `exitAtEnd`: set once any record had an unknown name -/
theorem loadNamed_err_exitAtEnd {cfg : NamedCfg} (hp : cfg.policy = .exitAtEnd) :
    ∀ (recs : List Rec) (st0 st : St), loadNamed cfg recs st0 = .ok st →
      st.err = (st0.err || recs.any (fun r => !known cfg r))
  | [], st0, st, h => by simp [loadNamed] at h; subst h; simp
  | r :: rs, st0, st, h => by
    unfold loadNamed at h
    cases hs : step cfg st0 r with
    | error f => simp [hs] at h
    | ok st1 =>
      simp [hs] at h
      obtain ⟨_, _, _, he⟩ := step_ok hs
      rw [loadNamed_err_exitAtEnd hp rs st1 st h, he, hp]
      simp [nextErr, Bool.or_assoc]

/-- the error flag under `ignore`: never set by a record -/
theorem loadNamed_err_ignore {cfg : NamedCfg} (hp : cfg.policy = .ignore) :
    ∀ (recs : List Rec) (st0 st : St), loadNamed cfg recs st0 = .ok st → st.err = (if recs.isEmpty then st0.err else false)
  | [], st0, st, h => by simp [loadNamed] at h; subst h; simp
  | r :: rs, st0, st, h => by
    unfold loadNamed at h
    cases hs : step cfg st0 r with
    | error f => simp [hs] at h
    | ok st1 =>
      simp [hs] at h
      obtain ⟨_, _, _, he⟩ := step_ok hs
      rw [loadNamed_err_ignore hp rs st1 st h, he, hp]
      cases rs <;> simp [nextErr]

/-- the error flag under `exitIfLastUnknown` (atomiclevelswidth.dat): only the LAST record counts -/
theorem loadNamed_err_lastOnly {cfg : NamedCfg} (hp : cfg.policy = .exitIfLastUnknown) :
    ∀ (recs : List Rec) (last : Rec) (st0 st : St), loadNamed cfg (recs ++ [last]) st0 = .ok st →
      st.err = !known cfg last
  | [], last, st0, st, h => by
    simp only [List.nil_append, loadNamed] at h
    cases hs : step cfg st0 last with
    | error f => simp [hs] at h
    | ok st1 =>
      simp [hs] at h
      obtain ⟨_, _, _, he⟩ := step_ok hs
      rw [← h, he, hp]; rfl
  | r :: rs, last, st0, st, h => by
    simp only [List.cons_append, loadNamed] at h
    cases hs : step cfg st0 r with
    | error f => simp [hs] at h
    | ok st1 =>
      simp [hs] at h
      exact loadNamed_err_lastOnly hp rs last st1 st h

end Loader
