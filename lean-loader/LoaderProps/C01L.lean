/-
C01, loader half — "each tabulated scalar query returns the value recorded for that element and named quantity in the
shipped data file (unit-converted, to the 11 significant digits the build preserves)".

The accessor half (table cell → return value / error) is `Xrl.Props.C01` in /verif/lean.  Here: data-file record → table
cell, for the model of XRayInitFromPath in Loader/*.lean (tied to src/xrayfiles.c by props/c01_loader.py on every run).
Every theorem about the record loop is for EVERY record list (induction, no bound), every name table and every ZMAX;
the theorems about the name tables are decided by the kernel on the tables regenerated from the working tree.
-/
import Loader
import LoaderGen.Names
import LoaderProps.NamedLemmas
import LoaderProps.DecLemmas
import LoaderProps.NamesDecided
import LoaderProps.BlocksLemmas
namespace Loader
namespace C01L
open Loader

/-! ## 1. record list → table cell -/

/-- **load_spec.**  After the loop has run over `recs` and ended normally, and the names of the table are pairwise
distinct, cell (Z,i) — any 0 ≤ Z ≤ ZMAX, any column i — holds `10^scale · v` of the LAST record `(Z, names[i], v)` of the
list, and what it held before the file was read (`ArrayInit`'s value) when the list has no such record. -/
theorem load_spec (cfg : NamedCfg) (recs : List Rec) (st0 st : St) (hload : loadNamed cfg recs st0 = .ok st)
    (hnd : cfg.names.Nodup) (hsh : st0.t1.Shaped (cfg.zmax + 1)) (hc : st0.t1.ncols = cfg.names.length)
    {Z : Nat} (hZ : Z ≤ cfg.zmax) {i : Nat} (hi : i < cfg.names.length) :
    st.t1.get Z i =
      match lastRecord recs (Z : Int) cfg.names[i] with
      | some v => v.scale10 cfg.scale
      | none => st0.t1.get Z i := by
  obtain ⟨_, h1, _⟩ := loadNamed_ok recs st0 st hload
  rw [h1]
  exact foldl_apply1_get hnd cfg.scale recs st0.t1 hsh hc hZ hi

/-- the same for the second table a record is searched in (auger_rates.dat: `AugerName` → `Auger_Transition_Individual`) -/
theorem load_spec₂ (cfg : NamedCfg) (recs : List Rec) (st0 st : St) (hload : loadNamed cfg recs st0 = .ok st)
    (hnd : cfg.names2.Nodup) (hsh : st0.t2.Shaped (cfg.zmax + 1)) (hc : st0.t2.ncols = cfg.names2.length)
    {Z : Nat} (hZ : Z ≤ cfg.zmax) {i : Nat} (hi : i < cfg.names2.length) :
    st.t2.get Z i =
      match lastRecord recs (Z : Int) cfg.names2[i] with
      | some v => v.scale10 cfg.scale
      | none => st0.t2.get Z i := by
  obtain ⟨_, _, h2⟩ := loadNamed_ok recs st0 st hload
  rw [h2]
  exact foldl_apply1_get hnd cfg.scale recs st0.t2 hsh hc hZ hi

/-- **frame.**  One record changes at most the cell its own (Z, name) designates: every other cell (Z,i) of the table
is the same before and after the record. -/
theorem load_frame (cfg : NamedCfg) (st st' : St) (r : Rec) (hstep : step cfg st r = .ok st')
    (hnd : cfg.names.Nodup) (hsh : st.t1.Shaped (cfg.zmax + 1)) (hc : st.t1.ncols = cfg.names.length)
    {Z : Nat} (hZ : Z ≤ cfg.zmax) {i : Nat} (hi : i < cfg.names.length)
    (hother : ¬ (r.Z = (Z : Int) ∧ r.name = cfg.names[i])) :
    st'.t1.get Z i = st.t1.get Z i := by
  obtain ⟨_, h1, _, _⟩ := step_ok hstep
  rw [h1, apply1_get hnd cfg.scale hsh hc r hZ hi, if_neg hother]

/-- and the cell it designates receives exactly the scaled value -/
theorem load_hit (cfg : NamedCfg) (st st' : St) (r : Rec) (hstep : step cfg st r = .ok st')
    (hnd : cfg.names.Nodup) (hsh : st.t1.Shaped (cfg.zmax + 1)) (hc : st.t1.ncols = cfg.names.length)
    {Z : Nat} (hZ : Z ≤ cfg.zmax) {i : Nat} (hi : i < cfg.names.length)
    (hkey : r.Z = (Z : Int) ∧ r.name = cfg.names[i]) :
    st'.t1.get Z i = r.v.scale10 cfg.scale := by
  obtain ⟨_, h1, _, _⟩ := step_ok hstep
  rw [h1, apply1_get hnd cfg.scale hsh hc r hZ hi, if_pos hkey]

/-- later duplicates overwrite: if `r` is the last record of the list with its key, the cell holds `r`'s value -/
theorem load_last_wins (cfg : NamedCfg) (pre post : List Rec) (r : Rec) (st0 st : St)
    (hload : loadNamed cfg (pre ++ r :: post) st0 = .ok st)
    (hnd : cfg.names.Nodup) (hsh : st0.t1.Shaped (cfg.zmax + 1)) (hc : st0.t1.ncols = cfg.names.length)
    {Z : Nat} (hZ : Z ≤ cfg.zmax) {i : Nat} (hi : i < cfg.names.length)
    (hkey : r.Z = (Z : Int) ∧ r.name = cfg.names[i])
    (hpost : ∀ q ∈ post, ¬ (q.Z = r.Z ∧ q.name = r.name)) :
    st.t1.get Z i = r.v.scale10 cfg.scale := by
  rw [load_spec cfg _ st0 st hload hnd hsh hc hZ hi, ← hkey.1, ← hkey.2, lastRecord_append_of_none pre post r hpost]

/-! ## 2. when the loop ends normally, and how it ends otherwise -/

/-- a record's name fits the C buffer and passes the `strlen` check of its loader -/
def NameFits (cfg : NamedCfg) (r : Rec) : Prop :=
  r.name.length < cfg.cap ∧ ∀ L, cfg.maxLen = some L → r.name.length ≤ L

/-- what makes a record fatal, spelled out: the name overflows the buffer, or fails the `strlen` check, or the name is
found and Z indexes outside `[0, ZMAX]` -/
theorem recFatal_none_iff (cfg : NamedCfg) (r : Rec) :
    recFatal cfg r = none ↔ NameFits cfg r ∧ (known cfg r = true → zInRange cfg.zmax r.Z = true) := by
  unfold recFatal NameFits
  cases hml : cfg.maxLen with
  | none =>
    by_cases h1 : cfg.cap ≤ r.name.length
    · simp [h1]; omega
    · by_cases h3 : known cfg r = true
      · by_cases h4 : zInRange cfg.zmax r.Z = true
        · simp [h1, h3, h4]; omega
        · simp [h1, h3, h4]
      · simp [h1, h3]; omega
  | some L =>
    by_cases h1 : cfg.cap ≤ r.name.length
    · simp [h1]; omega
    · by_cases h2 : L < r.name.length
      · simp [h1, h2]; omega
      · by_cases h3 : known cfg r = true
        · by_cases h4 : zInRange cfg.zmax r.Z = true
          · simp [h1, h2, h3, h4]; omega
          · simp [h1, h2, h3, h4]
        · simp [h1, h2, h3]; omega

/-- the loop ends normally exactly when no record is fatal -/
theorem load_ok_iff (cfg : NamedCfg) (recs : List Rec) (st0 : St) :
    (∃ st, loadNamed cfg recs st0 = .ok st) ↔ ∀ r ∈ recs, recFatal cfg r = none :=
  ⟨fun ⟨st, h⟩ => (loadNamed_ok recs st0 st h).1, loadNamed_of_no_fatal recs st0⟩

/-- **load_bad_Z.**  The C does not range-check Z: a record whose name IS in the table and whose Z is outside
`[0, ZMAX]` makes the real loader write outside the array; the model stops there with `ub`, whatever follows. -/
theorem load_bad_Z (cfg : NamedCfg) (pre post : List Rec) (r : Rec) (st0 : St)
    (hpre : ∀ q ∈ pre, recFatal cfg q = none) (hfit : NameFits cfg r) (hk : known cfg r = true)
    (hz : r.Z < 0 ∨ (cfg.zmax : Int) < r.Z) :
    ∃ why, loadNamed cfg (pre ++ r :: post) st0 = .error (.ub why) := by
  have hnz : zInRange cfg.zmax r.Z = false := by
    simp only [zInRange, Bool.and_eq_false_iff, decide_eq_false_iff_not]; omega
  have h1 : ¬ cfg.cap ≤ r.name.length := by have := hfit.1; omega
  have hf : ∃ why, recFatal cfg r = some (.ub why) := by
    unfold recFatal
    cases hml : cfg.maxLen with
    | none =>
      simp only [h1, if_false, hk, hnz]
      exact ⟨_, rfl⟩
    | some L =>
      have h2 : ¬ L < r.name.length := by have := hfit.2 L hml; omega
      simp only [h1, if_false, h2, decide_false, hk, hnz]
      exact ⟨_, rfl⟩
  obtain ⟨why, hf⟩ := hf
  exact ⟨why, loadNamed_first_fatal hf post pre st0 hpre⟩

/-- … while a record with an out-of-range Z and a name that is NOT in the table is harmless: nothing is stored -/
theorem load_bad_Z_unknown (cfg : NamedCfg) (r : Rec) (hfit : NameFits cfg r) (hk : known cfg r = false) :
    recFatal cfg r = none :=
  (recFatal_none_iff cfg r).mpr ⟨hfit, fun h => by rw [hk] at h; exact Bool.noConfusion h⟩

/-- Z = 0 and Z = ZMAX are in bounds (the arrays have ZMAX+1 rows) -/
theorem load_Z_bounds (zmax : Nat) : zInRange zmax 0 = true ∧ zInRange zmax zmax = true ∧
    zInRange zmax (-1) = false ∧ zInRange zmax (zmax + 1) = false := by
  simp only [zInRange, Bool.and_eq_true, decide_eq_true_eq, Bool.and_eq_false_iff, decide_eq_false_iff_not]
  omega

/-- a name of `cap` or more characters overflows `char name[cap]` (`%s` has no field width): `ub` -/
theorem load_long_name (cfg : NamedCfg) (pre post : List Rec) (r : Rec) (st0 : St)
    (hpre : ∀ q ∈ pre, recFatal cfg q = none) (hlong : cfg.cap ≤ r.name.length) :
    ∃ why, loadNamed cfg (pre ++ r :: post) st0 = .error (.ub why) := by
  have hf : ∃ why, recFatal cfg r = some (.ub why) := by
    unfold recFatal
    simp only [hlong, if_true]
    exact ⟨_, rfl⟩
  obtain ⟨why, hf⟩ := hf
  exact ⟨why, loadNamed_first_fatal hf post pre st0 hpre⟩

/-- a name that fits the buffer but is longer than the loader's `strlen` limit: the loader's own `exit(1)` -/
theorem load_name_check (cfg : NamedCfg) (pre post : List Rec) (r : Rec) (st0 : St) (L : Nat)
    (hpre : ∀ q ∈ pre, recFatal cfg q = none) (hcap : r.name.length < cfg.cap) (hml : cfg.maxLen = some L) (hl : L < r.name.length) :
    ∃ why, loadNamed cfg (pre ++ r :: post) st0 = .error (.exit1 why) := by
  have h1 : ¬ cfg.cap ≤ r.name.length := by omega
  have hf : ∃ why, recFatal cfg r = some (.exit1 why) := by
    unfold recFatal
    simp only [h1, if_false, hml, hl, decide_true, if_true]
    exact ⟨_, rfl⟩
  obtain ⟨why, hf⟩ := hf
  exact ⟨why, loadNamed_first_fatal hf post pre st0 hpre⟩

/-- when the buffer is not larger than the limit + 1 (coskron.dat: `char trans_name[5]`, `strlen > 4`) the check can
never fire: the overflow has happened first -/
theorem name_check_dead (cfg : NamedCfg) (L : Nat) (hml : cfg.maxLen = some L) (hcap : cfg.cap ≤ L + 1) (r : Rec) :
    ∀ why, recFatal cfg r ≠ some (.exit1 why) := by
  intro why h
  unfold recFatal at h
  by_cases h1 : cfg.cap ≤ r.name.length
  · simp [h1] at h
  · have h2 : ¬ L < r.name.length := by omega
    simp only [h1, if_false, hml, h2, decide_false] at h
    split at h <;> simp_all

/-! ## 3. names that are not in the table -/

/-- **load_unknown_name.**  A record whose name (fitting the buffer) is in neither table stores nothing, whatever its Z;
only the error flag moves, as the loader's policy says. -/
theorem load_unknown_name (cfg : NamedCfg) (st : St) (r : Rec) (hfit : NameFits cfg r)
    (h1 : r.name ∉ cfg.names) (h2 : r.name ∉ cfg.names2) :
    step cfg st r = .ok { t1 := st.t1, t2 := st.t2, err := nextErr cfg.policy st.err false } := by
  have hk : known cfg r = false := by
    simp [known, findName_eq_none_iff.mpr h1, findName_eq_none_iff.mpr h2]
  rw [step_of_not_fatal st (load_bad_Z_unknown cfg r hfit hk), apply1_unknown h1, apply1_unknown h2, hk]

/-- edges, fluor_yield, jump, coskron (`ignore`): unknown names are silently dropped — the file loads -/
theorem unknown_ignored (cfg : NamedCfg) (hp : cfg.policy = .ignore) (recs : List Rec) (st0 : St) (he : st0.err = false)
    (hok : ∀ r ∈ recs, recFatal cfg r = none) : ∃ st, loadRecs cfg recs .clean st0 = .ok st := by
  obtain ⟨st, hst⟩ := loadNamed_of_no_fatal recs st0 hok
  have herr : st.err = false := by
    rw [loadNamed_err_ignore hp recs st0 st hst]
    cases recs <;> simp [he]
  exact ⟨st, by simp [loadRecs, hst, finish, herr]⟩

/-- fluor_lines, radrate, auger_rates (`exitAtEnd`): one unknown name anywhere and the loader exits after the file -/
theorem unknown_exits (cfg : NamedCfg) (hp : cfg.policy = .exitAtEnd) (recs : List Rec) (st0 : St)
    (hok : ∀ r ∈ recs, recFatal cfg r = none) (r : Rec) (hr : r ∈ recs) (hunk : known cfg r = false) :
    ∃ why, loadRecs cfg recs .clean st0 = .error (.exit1 why) := by
  obtain ⟨st, hst⟩ := loadNamed_of_no_fatal recs st0 hok
  have herr : st.err = true := by
    rw [loadNamed_err_exitAtEnd hp recs st0 st hst]
    have : recs.any (fun r => !known cfg r) = true := List.any_eq_true.mpr ⟨r, hr, by simp [hunk]⟩
    simp [this]
  exact ⟨cfg.file ++ ": unknown names", by simp [loadRecs, hst, finish, herr]⟩

/-- … and without unknown names it does not -/
theorem known_loads (cfg : NamedCfg) (hp : cfg.policy = .exitAtEnd) (recs : List Rec) (st0 : St) (he : st0.err = false)
    (hok : ∀ r ∈ recs, recFatal cfg r = none) (hk : ∀ r ∈ recs, known cfg r = true) :
    ∃ st, loadRecs cfg recs .clean st0 = .ok st := by
  obtain ⟨st, hst⟩ := loadNamed_of_no_fatal recs st0 hok
  have herr : st.err = false := by
    rw [loadNamed_err_exitAtEnd hp recs st0 st hst, he]
    have : recs.any (fun r => !known cfg r) = false := by
      rw [List.any_eq_false]; intro r hr; simp [hk r hr]
    simp [this]
  exact ⟨st, by simp [loadRecs, hst, finish, herr]⟩

/-- atomiclevelswidth.dat (`exitIfLastUnknown`; the counter is reset for every record, src/xrayfiles.c:336-338):
the loader exits exactly when the LAST record's name is unknown … -/
theorem unknown_last_only (cfg : NamedCfg) (hp : cfg.policy = .exitIfLastUnknown) (recs : List Rec) (last : Rec) (st0 : St)
    (hok : ∀ r ∈ recs ++ [last], recFatal cfg r = none) :
    (∃ why, loadRecs cfg (recs ++ [last]) .clean st0 = .error (.exit1 why)) ↔ known cfg last = false := by
  obtain ⟨st, hst⟩ := loadNamed_of_no_fatal (recs ++ [last]) st0 hok
  have herr := loadNamed_err_lastOnly hp recs last st0 st hst
  cases hk : known cfg last with
  | true =>
    have : st.err = false := by rw [herr, hk]; rfl
    simp [loadRecs, hst, finish, this]
  | false =>
    have : st.err = true := by rw [herr, hk]; rfl
    simp [loadRecs, hst, finish, this]

/-- … so an unknown shell name anywhere but in the last record is silently dropped (finding C01L-1) -/
theorem levelwidth_drops_unknown (cfg : NamedCfg) (hp : cfg.policy = .exitIfLastUnknown) (recs : List Rec) (last : Rec) (st0 : St)
    (hok : ∀ r ∈ recs ++ [last], recFatal cfg r = none) (hk : known cfg last = true) :
    ∃ st, loadRecs cfg (recs ++ [last]) .clean st0 = .ok st := by
  obtain ⟨st, hst⟩ := loadNamed_of_no_fatal (recs ++ [last]) st0 hok
  have : st.err = false := by rw [loadNamed_err_lastOnly hp recs last st0 st hst, hk]; rfl
  exact ⟨st, by simp [loadRecs, hst, finish, this]⟩

/-! ## 4. whole files -/

theorem finish_ok {cfg : NamedCfg} {tail : Tail} {st st' : St} (h : finish cfg tail st = .ok st') : st' = st := by
  unfold finish at h
  split at h
  · simp at h
  · split at h
    · simp at h
    · split at h
      · simp at h
      · exact (Except.ok.inj h).symm
  · split at h
    · simp at h
    · exact (Except.ok.inj h).symm

/-- **file_spec.**  For a `%d %s %lf` file with any contents: if the loader returns, cell (Z,i) of the table it fills,
starting from `ArrayInit`'s value `init`, is `10^scale · v` of the last record `(Z, names[i], v)` that the model's
`fscanf` loop reads from the text, and `init` if it reads none. -/
theorem file_spec (cfg : NamedCfg) (text : List Char) (nrows2 ncols2 : Nat) (init : Dec) (st : St)
    (hload : loadFile3 cfg text { t1 := Tbl.init (cfg.zmax + 1) cfg.names.length init, t2 := Tbl.init nrows2 ncols2 init, err := false } = .ok st)
    (hnd : cfg.names.Nodup) {Z : Nat} (hZ : Z ≤ cfg.zmax) {i : Nat} (hi : i < cfg.names.length) :
    st.t1.get Z i =
      match lastRecord (records3 text).1 (Z : Int) cfg.names[i] with
      | some v => v.scale10 cfg.scale
      | none => init := by
  unfold loadFile3 loadRecs at hload
  simp only at hload
  cases hl : loadNamed cfg (records3 text).1 { t1 := Tbl.init (cfg.zmax + 1) cfg.names.length init, t2 := Tbl.init nrows2 ncols2 init, err := false } with
  | error f => simp [hl] at hload
  | ok st1 =>
    simp only [hl] at hload
    rw [finish_ok hload, load_spec cfg _ _ st1 hl hnd (Tbl.shaped_init _ _ _) rfl hZ hi]
    simp only [Tbl.get_init (Nat.lt_succ_of_le hZ) hi]

/-- the same for the second table of a file that searches two name tables (auger_rates.dat) -/
theorem file_spec_second (cfg : NamedCfg) (text : List Char) (nrows1 ncols1 : Nat) (init : Dec) (st : St)
    (hload : loadFile3 cfg text { t1 := Tbl.init nrows1 ncols1 init, t2 := Tbl.init (cfg.zmax + 1) cfg.names2.length init, err := false } = .ok st)
    (hnd : cfg.names2.Nodup) {Z : Nat} (hZ : Z ≤ cfg.zmax) {i : Nat} (hi : i < cfg.names2.length) :
    st.t2.get Z i =
      match lastRecord (records3 text).1 (Z : Int) cfg.names2[i] with
      | some v => v.scale10 cfg.scale
      | none => init := by
  unfold loadFile3 loadRecs at hload
  simp only at hload
  cases hl : loadNamed cfg (records3 text).1 { t1 := Tbl.init nrows1 ncols1 init, t2 := Tbl.init (cfg.zmax + 1) cfg.names2.length init, err := false } with
  | error f => simp [hl] at hload
  | ok st1 =>
    simp only [hl] at hload
    rw [finish_ok hload, load_spec₂ cfg _ _ st1 hl hnd (Tbl.shaped_init _ _ _) rfl hZ hi]
    simp only [Tbl.get_init (Nat.lt_succ_of_le hZ) hi]

/-- the same for the per-element scalars (`%d %lf`: atomicweight.dat, densities.dat): the one column is named "" -/
theorem file_spec₂ (cfg : NamedCfg) (hn : cfg.names = [""]) (text : List Char) (init : Dec) (st : St)
    (hload : loadFile2 cfg text { t1 := Tbl.init (cfg.zmax + 1) 1 init, t2 := Tbl.init (cfg.zmax + 1) 0 init, err := false } = .ok st)
    {Z : Nat} (hZ : Z ≤ cfg.zmax) :
    st.t1.get Z 0 =
      match lastRecord (records2 text).1 (Z : Int) "" with
      | some v => v.scale10 cfg.scale
      | none => init := by
  unfold loadFile2 loadRecs at hload
  simp only at hload
  cases hl : loadNamed cfg (records2 text).1 { t1 := Tbl.init (cfg.zmax + 1) 1 init, t2 := Tbl.init (cfg.zmax + 1) 0 init, err := false } with
  | error f => simp [hl] at hload
  | ok st1 =>
    simp only [hl] at hload
    have hnd : cfg.names.Nodup := by rw [hn]; simp
    have hi : 0 < cfg.names.length := by rw [hn]; simp
    have hc : (Tbl.init (cfg.zmax + 1) 1 init).ncols = cfg.names.length := by rw [hn]; rfl
    have := load_spec cfg _ _ st1 hl hnd (Tbl.shaped_init _ _ _) hc hZ hi
    rw [finish_ok hload, this]
    have e : cfg.names[0] = "" := by simp [hn]
    rw [e]
    simp only [Tbl.get_init (Nat.lt_succ_of_le hZ) (by decide : 0 < 1)]

/-! ## 5. the printer -/

/-- **print11_exact.**  `%.10E` leaves a value of at most 11 significant digits as it is: this is the case of every
record of atomicweight, densities, edges, fluor_lines, coskron, radrate, atomiclevelswidth and auger_rates -/
theorem print11_exact (d : Dec) (h : d.m.natAbs < 10 ^ 11) : d.print11 = d := Dec.print11_of_lt d h

/-- **print11_error.**  In general the exponent grows by some k ≥ 0 and the mantissa moves by at most half a unit of
the last digit kept: `2·|m'·10^k − m| ≤ 10^k` (so the printed value is within half a unit of the 11th digit) -/
theorem print11_error (d : Dec) : ∃ k : Nat, d.print11.e = d.e + k ∧ 2 * (d.print11.m * 10 ^ k - d.m).natAbs ≤ 10 ^ k :=
  Dec.print11_err d

/-! ## 6. the name tables of the working tree (kernel-decided on every run) -/

open LoaderGen NamesCheck

/-- **names_distinct.**  The names of each of the five tables of src/xrayvars.c are pairwise distinct (hypothesis `hnd` of
`load_spec` for every loader of the tree); no name is in both Auger tables. -/
theorem names_distinct :
    names.shell.Nodup ∧ names.line.Nodup ∧ names.trans.Nodup ∧ names.auger.Nodup ∧ names.augerTotal.Nodup ∧
    (names.augerTotal ++ names.auger).Nodup := by
  refine ⟨names_nodup NamesDecided.shell_distinct NamesDecided.shell_valid,
    names_nodup NamesDecided.line_distinct NamesDecided.line_valid,
    names_nodup NamesDecided.trans_distinct NamesDecided.trans_valid,
    names_nodup NamesDecided.auger_distinct NamesDecided.auger_valid,
    names_nodup NamesDecided.augerTotal_distinct NamesDecided.augerTotal_valid, ?_⟩
  have hv : validB (augerTotalCodes ++ augerCodes) = true := by
    simp only [validB, List.all_append, Bool.and_eq_true]
    exact ⟨NamesDecided.augerTotal_valid, NamesDecided.auger_valid⟩
  have := names_nodup NamesDecided.augerBoth_distinct hv
  simpa [names, List.map_append] using this

/-- **table lengths.**  ShellName, LineName, TransName, AugerName, AugerNameTotal have exactly SHELLNUM, LINENUM,
TRANSNUM, AUGERNUM, SHELLNUM_A rows (the C declares `char X[][w]`: a missing row would make the loader's search read
beyond the table), and every row is NUL-terminated -/
theorem lengths :
    names.shell.length = SHELLNUM ∧ names.line.length = LINENUM ∧ names.trans.length = TRANSNUM ∧
    names.auger.length = AUGERNUM ∧ names.augerTotal.length = SHELLNUM_A := by
  have h := NamesDecided.lengths.1
  simp only [names, List.length_map]
  exact h

/-- **names_match_macros (lines).**  For every literal `#define X_LINE v` of include/xraylib-lines.h: `LineName[-v-1]`
exists and the macro is spelled `LineName[-v-1] ++ "_LINE"` -/
theorem names_match_macros_line : ∀ p ∈ lineMacros, ∃ (i : Nat) (nm : String),
    -p.2 - 1 = (i : Int) ∧ names.line[i]? = some nm ∧ decode p.1 = nm ++ "_LINE" := by
  intro p hp
  obtain ⟨i, nc, hs, _, hn, hd⟩ := matchFrom_mem NamesDecided.line_match hp
  refine ⟨i, decode nc, ?_, hn, ?_⟩
  · simpa [lineSlot] using hs
  · rw [hd, decode_sufLINE]; rfl

/-- … and every row of LineName is designated by such a macro -/
theorem every_line_has_macro : ∀ i (hi : i < names.line.length), ∃ p ∈ lineMacros,
    -p.2 - 1 = (i : Int) ∧ decode p.1 = names.line[i] ++ "_LINE" := by
  intro i hi
  have hi' : i < lineCodes.length := by simpa [names] using hi
  obtain ⟨p, hp, hs, hd⟩ := matchFrom_slot NamesDecided.line_match hi'
  refine ⟨p, hp, by simpa [lineSlot] using hs, ?_⟩
  rw [hd, decode_sufLINE]; simp [names]

/-- **names_match_macros (shells).**  For every `#define X_SHELL v` of include/xraylib-shells.h: either `ShellName[v]`
exists and the macro is `ShellName[v] ++ "_SHELL"`, or v ≥ SHELLNUM (Q1…Q3: electron-configuration slots without data-file rows) -/
theorem names_match_macros_shell : ∀ p ∈ shellMacros,
    (∃ (i : Nat) (nm : String), p.2 = (i : Int) ∧ names.shell[i]? = some nm ∧ decode p.1 = nm ++ "_SHELL") ∨ (SHELLNUM : Int) ≤ p.2 := by
  intro p hp
  rw [← List.take_append_drop SHELLNUM shellMacros] at hp
  cases List.mem_append.mp hp with
  | inl h =>
    left
    obtain ⟨i, nc, hs, _, hn, hd⟩ := matchFrom_mem NamesDecided.shell_match h
    exact ⟨i, decode nc, by simpa using hs, hn, by rw [hd, decode_sufSHELL]; rfl⟩
  | inr h =>
    right
    have := List.all_eq_true.mp NamesDecided.shell_rest p h
    simpa using this

theorem every_shell_has_macro : ∀ i (hi : i < names.shell.length), ∃ p ∈ shellMacros,
    p.2 = (i : Int) ∧ decode p.1 = names.shell[i] ++ "_SHELL" := by
  intro i hi
  have hi' : i < shellCodes.length := by simpa [names] using hi
  obtain ⟨p, hp, hs, hd⟩ := matchFrom_slot NamesDecided.shell_match hi'
  refine ⟨p, List.mem_of_mem_take hp, by simpa using hs, ?_⟩
  rw [hd, decode_sufSHELL]; simp [names]

/-- **names_match_macros (Coster–Kronig).**  For every `#define X_TRANS v` of include/xraylib.h, v ≥ 1, `TransName[v]`
exists and the macro is that name with the L-shell `L` re-inserted (`insertL`: "F12" ↦ FL12, "FP13" ↦ FLP13, "FM12" ↦ FM12)
followed by `_TRANS`.  Slot 0 ("F1") has no macro. -/
theorem names_match_macros_trans : ∀ p ∈ transMacros, ∃ (i : Nat) (nc : List Nat),
    p.2 = ((1 + i : Nat) : Int) ∧ names.trans[1 + i]? = some (decode nc) ∧ decode p.1 = decode (insertL nc) ++ "_TRANS" := by
  intro p hp
  obtain ⟨i, nc, hs, _, hn, hd⟩ := matchFrom_mem NamesDecided.trans_match hp
  refine ⟨i, nc, by simpa using hs, ?_, by rw [hd, decode_sufTRANS]⟩
  have : (List.map decode transCodes.tail)[i]? = (List.map decode transCodes)[1 + i]? := by
    rw [List.map_tail, List.getElem?_tail, Nat.add_comm]
  rw [this] at hn
  exact hn

/-- **names_match_macros (Auger).**  For every `#define X_AUGER v` of include/xraylib-auger.h: `AugerName[v]` exists and
the macro is that name with its first `-` written `_`, followed by `_AUGER` ("K-L1L1" ↔ K_L1L1_AUGER) -/
theorem names_match_macros_auger : ∀ p ∈ augerMacros, ∃ (i : Nat) (nc : List Nat),
    p.2 = (i : Int) ∧ names.auger[i]? = some (decode nc) ∧ decode p.1 = decode (underscoreFirst nc) ++ "_AUGER" := by
  intro p hp
  obtain ⟨i, nc, hs, _, hn, hd⟩ := matchFrom_mem NamesDecided.auger_match hp
  exact ⟨i, nc, by simpa using hs, hn, by rw [hd, decode_sufAUGER]⟩

theorem every_auger_has_macro : ∀ i (hi : i < augerCodes.length), ∃ p ∈ augerMacros,
    p.2 = (i : Int) ∧ decode p.1 = decode (underscoreFirst augerCodes[i]) ++ "_AUGER" := by
  intro i hi
  obtain ⟨p, hp, hs, hd⟩ := matchFrom_slot NamesDecided.auger_match hi
  exact ⟨p, hp, by simpa using hs, by rw [hd, decode_sufAUGER]⟩

/-- the Siegbahn aliases (`#define KA1_LINE KL3_LINE` …) resolve to literal macros of the family -/
theorem aliases_resolve : ∀ a ∈ lineAliases, (a.2.1, a.2.2) ∈ lineMacros :=
  fun _ ha => aliasesResolve_sound NamesDecided.aliases_resolve ha

/-! ## 7. the loaders of the tree satisfy the hypotheses of `file_spec` -/

/-- edges.dat → `EdgeEnergy_arr`: eV → keV (`10^-3`), initial value OUTD; likewise (with their own scale and initial
value) the other files whose names are shell names -/
theorem edges_spec (text : List Char) (st : St)
    (h : loadFile3 (cfgEdges names) text (st0 names names.shell.length OUTD) = .ok st)
    {Z : Nat} (hZ : Z ≤ ZMAX) {i : Nat} (hi : i < names.shell.length) :
    st.t1.get Z i = match lastRecord (records3 text).1 (Z : Int) names.shell[i] with
      | some v => v.scale10 (-3)
      | none => Dec.ofInt OUTD :=
  file_spec (cfgEdges names) text _ _ _ st h names_distinct.1 hZ hi

theorem levelwidth_spec (text : List Char) (st : St)
    (h : loadFile3 (cfgLevelWidth names) text (st0 names names.shell.length OUTD) = .ok st)
    {Z : Nat} (hZ : Z ≤ ZMAX) {i : Nat} (hi : i < names.shell.length) :
    st.t1.get Z i = match lastRecord (records3 text).1 (Z : Int) names.shell[i] with
      | some v => v.scale10 (-3)
      | none => Dec.ofInt OUTD :=
  file_spec (cfgLevelWidth names) text _ _ _ st h names_distinct.1 hZ hi

theorem fluoryield_spec (text : List Char) (st : St)
    (h : loadFile3 (cfgFluorYield names) text (st0 names names.shell.length OUTD) = .ok st)
    {Z : Nat} (hZ : Z ≤ ZMAX) {i : Nat} (hi : i < names.shell.length) :
    st.t1.get Z i = match lastRecord (records3 text).1 (Z : Int) names.shell[i] with
      | some v => v.scale10 0
      | none => Dec.ofInt OUTD :=
  file_spec (cfgFluorYield names) text _ _ _ st h names_distinct.1 hZ hi

theorem jump_spec (text : List Char) (st : St)
    (h : loadFile3 (cfgJump names) text (st0 names names.shell.length OUTD) = .ok st)
    {Z : Nat} (hZ : Z ≤ ZMAX) {i : Nat} (hi : i < names.shell.length) :
    st.t1.get Z i = match lastRecord (records3 text).1 (Z : Int) names.shell[i] with
      | some v => v.scale10 0
      | none => Dec.ofInt OUTD :=
  file_spec (cfgJump names) text _ _ _ st h names_distinct.1 hZ hi

/-- fluor_lines.dat → `LineEnergy_arr`: eV → keV, initial value 0 -/
theorem fluorlines_spec (text : List Char) (st : St)
    (h : loadFile3 (cfgFluorLines names) text (st0 names names.line.length 0) = .ok st)
    {Z : Nat} (hZ : Z ≤ ZMAX) {i : Nat} (hi : i < names.line.length) :
    st.t1.get Z i = match lastRecord (records3 text).1 (Z : Int) names.line[i] with
      | some v => v.scale10 (-3)
      | none => Dec.ofInt 0 :=
  file_spec (cfgFluorLines names) text _ _ _ st h names_distinct.2.1 hZ hi

theorem radrate_spec (text : List Char) (st : St)
    (h : loadFile3 (cfgRadRate names) text (st0 names names.line.length 0) = .ok st)
    {Z : Nat} (hZ : Z ≤ ZMAX) {i : Nat} (hi : i < names.line.length) :
    st.t1.get Z i = match lastRecord (records3 text).1 (Z : Int) names.line[i] with
      | some v => v.scale10 0
      | none => Dec.ofInt 0 :=
  file_spec (cfgRadRate names) text _ _ _ st h names_distinct.2.1 hZ hi

theorem coskron_spec (text : List Char) (st : St)
    (h : loadFile3 (cfgCosKron names) text (st0 names names.trans.length 0) = .ok st)
    {Z : Nat} (hZ : Z ≤ ZMAX) {i : Nat} (hi : i < names.trans.length) :
    st.t1.get Z i = match lastRecord (records3 text).1 (Z : Int) names.trans[i] with
      | some v => v.scale10 0
      | none => Dec.ofInt 0 :=
  file_spec (cfgCosKron names) text _ _ _ st h names_distinct.2.2.1 hZ hi

/-- auger_rates.dat → `Auger_Transition_Total` (names "K-TOTAL" …) -/
theorem auger_total_spec (text : List Char) (st : St)
    (h : loadFile3 (cfgAuger names) text (st0 names names.augerTotal.length 0 names.auger.length) = .ok st)
    {Z : Nat} (hZ : Z ≤ ZMAX) {i : Nat} (hi : i < names.augerTotal.length) :
    st.t1.get Z i = match lastRecord (records3 text).1 (Z : Int) names.augerTotal[i] with
      | some v => v.scale10 0
      | none => Dec.ofInt 0 :=
  file_spec (cfgAuger names) text _ _ _ st h names_distinct.2.2.2.2.1 hZ hi

/-- auger_rates.dat → `Auger_Transition_Individual` (names "K-L1L1" …, the second search of every record) -/
theorem auger_individual_spec (text : List Char) (st : St)
    (h : loadFile3 (cfgAuger names) text (st0 names names.augerTotal.length 0 names.auger.length) = .ok st)
    {Z : Nat} (hZ : Z ≤ ZMAX) {i : Nat} (hi : i < names.auger.length) :
    st.t2.get Z i = match lastRecord (records3 text).1 (Z : Int) names.auger[i] with
      | some v => v.scale10 0
      | none => Dec.ofInt 0 :=
  file_spec_second (cfgAuger names) text _ _ _ st h names_distinct.2.2.2.1 hZ hi

/-- atomicweight.dat → `AtomicWeight_arr`, densities.dat → `ElementDensity_arr`: no unit conversion, initial value OUTD -/
theorem atomicweight_spec (text : List Char) (st : St)
    (h : loadFile2 (cfgAtomicWeight names) text (st0 names 1 OUTD) = .ok st) {Z : Nat} (hZ : Z ≤ ZMAX) :
    st.t1.get Z 0 = match lastRecord (records2 text).1 (Z : Int) "" with
      | some v => v.scale10 0
      | none => Dec.ofInt OUTD :=
  file_spec₂ (cfgAtomicWeight names) rfl text _ st h hZ

theorem densities_spec (text : List Char) (st : St)
    (h : loadFile2 (cfgDensities names) text (st0 names 1 OUTD) = .ok st) {Z : Nat} (hZ : Z ≤ ZMAX) :
    st.t1.get Z 0 = match lastRecord (records2 text).1 (Z : Int) "" with
      | some v => v.scale10 0
      | none => Dec.ofInt OUTD :=
  file_spec₂ (cfgDensities names) rfl text _ st h hZ

/-- the `strlen` check of coskron.dat is dead code (finding C01L-3): `char trans_name[5]` has overflowed before -/
theorem coskron_check_dead (r : Rec) : ∀ why, recFatal (cfgCosKron names) r ≠ some (.exit1 why) :=
  name_check_dead (cfgCosKron names) 4 rfl (by decide) r

/-! ## 8. the blocked (spline) files -/

/-- CS_Photo, CS_Rayl, CS_Compt, FF, SF, fi, fii: when the loop returns, it has read at most ZMAX blocks and every block
carries exactly `max N 0` rows for its count `N` (a short block aborts, see `readRows`) -/
theorem blocks_shape (file : String) (zmax : Nat) (text : List Char) (bs : List Block)
    (h : loadBlocks file zmax text [] = .ok bs) : bs.length ≤ zmax ∧ ∀ b ∈ bs, b.rows.length = b.n.toNat := by
  have := loadBlocks_shape file zmax text [] bs h (by intro b hb; simp at hb)
  simpa using this

/-! ## 8b. the positional files: kissel_pe.dat (`Electron_Config_Kissel`) and comptonprofiles.dat (`UOCCUP_ComptonProfiles`)

No names here: block number = atomic number, place in the record = sub-shell.  `KisselStart f K j text pos` / `ComptonStart …`
(LoaderProps/BlocksLemmas.lean) say that `pos` is the stream position after `j` complete blocks; `nthLf s p` is the `s`-th `%lf`
token from position `p` on. -/

/-- the table `Electron_Config_Kissel` among what the kissel_pe.dat step delivers (Loader/Files.lean `kisselOuts`) -/
def kisselConfigOf (N : NameTables) (bs : List KisselBlock) : Option Tbl :=
  (kisselOuts N bs).findSome? fun o => match o with
    | .F name _ t => if name = "Electron_Config_Kissel" then some t else none
    | _ => none

/-- the vectors `UOCCUP_ComptonProfiles[Z]` among what the comptonprofiles.dat step delivers (`comptonOuts`) -/
def comptonUoccupOf (N : NameTables) (bs : List ComptonBlock) : Option (Array (Option (Array Dec))) :=
  (comptonOuts N bs).findSome? fun o => match o with
    | .V name _ v => if name = "UOCCUP_ComptonProfiles" then some v else none
    | _ => none

/-- **cell ← block.**  Cell (Z, s) of `Electron_Config_Kissel` is the `s`-th entry of the CONFIGURATION record of block Z (the
Z-th block of the file), and `ArrayInit`'s OUTD when the file has fewer than Z blocks -/
theorem kissel_config_cell (N : NameTables) (bs : List KisselBlock) (t : Tbl) (ht : kisselConfigOf N bs = some t)
    {Z : Nat} (hZ1 : 1 ≤ Z) (hZ : Z ≤ N.zmax) {s : Nat} (hs : s < N.shellnumK) :
    t.get Z s = match bs[Z - 1]? with
      | some b => (b.config[s]?).getD (Dec.ofInt OUTD)
      | none => Dec.ofInt OUTD := by
  unfold kisselConfigOf kisselOuts at ht
  simp only [List.findSome?, if_true, Option.some.injEq] at ht
  subst ht
  have hlt := flat_lt hs (Nat.lt_succ_of_le hZ)
  obtain ⟨hd, hm⟩ := flat_div_mod (Z := Z) hs
  have hK0 : ¬ N.shellnumK = 0 := by omega
  have hge : ¬ (Z * N.shellnumK + s < N.shellnumK) := by
    have : N.shellnumK ≤ Z * N.shellnumK := Nat.le_mul_of_pos_left _ (by omega)
    omega
  simp [Tbl.get, Array.getD_eq_getD_getElem?, hlt, hd, hm, hK0, hge]
  cases bs[Z - 1]? <;> rfl

/-- **kissel_config_spec.**  If the loader returns from kissel_pe.dat, then for every element Z = 1..ZMAX that has a block and
every sub-shell `s < SHELLNUM_K`: cell (Z, s) of `Electron_Config_Kissel` is the value of the `s`-th `%lf` token after the total
cross-section rows of the Z-th block of the file (the CONFIGURATION record as tools/regen_kissel.py writes it: SHELLNUM_K
occupation numbers, in the shell order of the public macros); an element without block keeps `ArrayInit`'s OUTD. -/
theorem kissel_config_spec (N : NameTables) (text : List Char) (bs : List KisselBlock)
    (h : loadKissel "kissel_pe.dat" N.shellnumK N.zmax text [] = .ok bs) (t : Tbl) (ht : kisselConfigOf N bs = some t)
    {Z : Nat} (hZ1 : 1 ≤ Z) (hZ : Z ≤ N.zmax) {s : Nat} (hs : s < N.shellnumK) :
    (Z ≤ bs.length → ∃ pos n s1 rows s2, KisselStart "kissel_pe.dat" N.shellnumK (Z - 1) text pos ∧ scanIntI pos = .ok n s1 ∧
        readRows "kissel_pe.dat" n.toNat s1 [] = .ok (rows, s2) ∧ nthLf s s2 = some (t.get Z s)) ∧
    (bs.length < Z → t.get Z s = Dec.ofInt OUTD) := by
  obtain ⟨new, hnew, hb⟩ := loadKissel_blocks _ _ _ _ _ _ h
  simp only [List.reverse_nil, List.nil_append] at hnew
  subst hnew
  have hc := kissel_config_cell N bs t ht hZ1 hZ hs
  constructor
  · intro hle
    have hj : Z - 1 < bs.length := by omega
    obtain ⟨pos, s1, s2, s3, hst, h1, h2, h3⟩ := hb.get (Z - 1) hj
    refine ⟨pos, _, s1, _, s2, hst, h1, h2, ?_⟩
    have hlen := h3.length
    have hget := h3.get s hs
    have hs' : s < bs[Z - 1].config.length := by omega
    simp only [hc, List.getElem?_eq_getElem hj]
    rw [← hget, List.getElem?_eq_getElem hs']
    rfl
  · intro hlt
    rw [hc, List.getElem?_eq_none (by omega)]

/-- the same for the tables of the working tree -/
theorem kissel_spec (text : List Char) (bs : List KisselBlock)
    (h : loadKissel "kissel_pe.dat" SHELLNUM_K ZMAX text [] = .ok bs) (t : Tbl) (ht : kisselConfigOf names bs = some t)
    {Z : Nat} (hZ1 : 1 ≤ Z) (hZ : Z ≤ ZMAX) {s : Nat} (hs : s < SHELLNUM_K) :
    (Z ≤ bs.length → ∃ pos n s1 rows s2, KisselStart "kissel_pe.dat" SHELLNUM_K (Z - 1) text pos ∧ scanIntI pos = .ok n s1 ∧
        readRows "kissel_pe.dat" n.toNat s1 [] = .ok (rows, s2) ∧ nthLf s s2 = some (t.get Z s)) ∧
    (bs.length < Z → t.get Z s = Dec.ofInt OUTD) :=
  kissel_config_spec names text bs h t ht hZ1 hZ hs

/-- the shipped kissel_pe.dat is EMPTY: no block is read and every cell keeps OUTD (`ElectronConfig` then always fails) -/
theorem kissel_empty_file (N : NameTables) (t : Tbl) (hz : 0 < N.zmax)
    (ht : kisselConfigOf N [] = some t) {Z : Nat} (hZ1 : 1 ≤ Z) (hZ : Z ≤ N.zmax) {s : Nat} (hs : s < N.shellnumK) :
    loadKissel "kissel_pe.dat" N.shellnumK N.zmax [] [] = .ok [] ∧ t.get Z s = Dec.ofInt OUTD := by
  constructor
  · obtain ⟨m, hm⟩ : ∃ m, N.zmax = m + 1 := ⟨N.zmax - 1, by omega⟩
    rw [hm]
    rfl
  · rw [kissel_config_cell N [] t ht hZ1 hZ hs]
    simp

/-- **vector ← block.**  `UOCCUP_ComptonProfiles[Z]` is the occupancy record of block Z; NULL when the file has fewer blocks -/
theorem compton_uoccup_cell (N : NameTables) (bs : List ComptonBlock) (v : Array (Option (Array Dec)))
    (hv : comptonUoccupOf N bs = some v) {Z : Nat} (hZ1 : 1 ≤ Z) (hZ : Z ≤ N.zmax) :
    v[Z]? = some ((bs[Z - 1]?).map fun b => b.uoccup.toArray) := by
  unfold comptonUoccupOf comptonOuts at hv
  simp only [List.findSome?, if_true, Option.some.injEq] at hv
  subst hv
  have hZ0 : ¬ Z = 0 := by omega
  have hlt : Z < N.zmax + 1 := by omega
  simp [hlt, hZ0]

/-- **compton_uoccup_spec.**  If the loader returns from comptonprofiles.dat, then for every element Z = 1..ZMAX that has a
block: `NShells_ComptonProfiles[Z]` is the first `%d` token of the Z-th block, and `UOCCUP_ComptonProfiles[Z][s]`
(`s < NShells`) is the value of the `s`-th `%lf` token after the block's two counts — the occupancy record -/
theorem compton_uoccup_spec (N : NameTables) (text : List Char) (bs : List ComptonBlock)
    (h : loadCompton "comptonprofiles.dat" N.shellnumC N.zmax text [] = .ok bs) (v : Array (Option (Array Dec)))
    (hv : comptonUoccupOf N bs = some v) {Z : Nat} (hZ1 : 1 ≤ Z) (hZ : Z ≤ N.zmax) :
    (Z ≤ bs.length → ∃ pos ns s1 np s2, ∃ occ : Array Dec, ComptonStart "comptonprofiles.dat" N.shellnumC (Z - 1) text pos ∧
        scanInt pos = .ok ns s1 ∧ scanInt s1 = .ok np s2 ∧ v[Z]? = some (some occ) ∧ occ.size = ns.toNat ∧
        ∀ s, s < ns.toNat → occ[s]? = nthLf s s2) ∧
    (bs.length < Z → v[Z]? = some none) := by
  obtain ⟨new, hnew, hb⟩ := loadCompton_blocks _ _ _ _ _ _ h
  simp only [List.reverse_nil, List.nil_append] at hnew
  subst hnew
  have hc := compton_uoccup_cell N bs v hv hZ1 hZ
  constructor
  · intro hle
    have hj : Z - 1 < bs.length := by omega
    obtain ⟨pos, s1, s2, s3, hst, h1, h2, h3⟩ := hb.get (Z - 1) hj
    refine ⟨pos, _, s1, _, s2, bs[Z - 1].uoccup.toArray, hst, h1, h2, ?_, ?_, ?_⟩
    · rw [hc, List.getElem?_eq_getElem hj]; rfl
    · simpa using h3.length
    · intro s hs
      have := h3.get s hs
      simpa using this
  · intro hlt
    rw [hc, List.getElem?_eq_none (by omega)]; rfl

theorem compton_spec (text : List Char) (bs : List ComptonBlock)
    (h : loadCompton "comptonprofiles.dat" SHELLNUM_C ZMAX text [] = .ok bs) (v : Array (Option (Array Dec)))
    (hv : comptonUoccupOf names bs = some v) {Z : Nat} (hZ1 : 1 ≤ Z) (hZ : Z ≤ ZMAX) :
    (Z ≤ bs.length → ∃ pos ns s1 np s2, ∃ occ : Array Dec, ComptonStart "comptonprofiles.dat" SHELLNUM_C (Z - 1) text pos ∧
        scanInt pos = .ok ns s1 ∧ scanInt s1 = .ok np s2 ∧ v[Z]? = some (some occ) ∧ occ.size = ns.toNat ∧
        ∀ s, s < ns.toNat → occ[s]? = nthLf s s2) ∧
    (bs.length < Z → v[Z]? = some none) :=
  compton_uoccup_spec names text bs h v hv hZ1 hZ

/-! ## 9. non-vacuity: every hypothesis above is satisfiable, on concrete non-trivial inputs -/

section Examples

def cfgT : NamedCfg := { file := "t.dat", names := ["K", "L1", "L2"], zmax := 3, scale := -3, cap := 25, maxLen := some 5, policy := .exitAtEnd }
def stT : St := { t1 := Tbl.init 4 3 (Dec.ofInt OUTD), t2 := Tbl.init 4 0 (Dec.ofInt OUTD), err := false }
def recsT : List Rec := [⟨1, "K", ⟨136, -1⟩⟩, ⟨2, "L1", ⟨5, 0⟩⟩, ⟨1, "K", ⟨140, -1⟩⟩, ⟨0, "L2", ⟨7, 0⟩⟩, ⟨3, "K", ⟨9, 0⟩⟩]

/-- hypotheses of `load_spec` hold for `cfgT`, `recsT`; the duplicate key (1,"K") takes the later value, scaled -/
example : cfgT.names.Nodup ∧ stT.t1.Shaped (cfgT.zmax + 1) ∧ stT.t1.ncols = cfgT.names.length :=
  ⟨by decide, Tbl.shaped_init _ _ _, rfl⟩
example : (match loadNamed cfgT recsT stT with
    | .ok st => st.t1.get 1 0 == ⟨140, -4⟩ && st.t1.get 2 1 == ⟨5, -3⟩ && st.t1.get 0 2 == ⟨7, -3⟩ && st.t1.get 3 0 == ⟨9, -3⟩ &&
                st.t1.get 2 0 == Dec.ofInt OUTD && !st.err
    | .error _ => false) = true := by decide
example : lastRecord recsT 1 "K" = some ⟨140, -1⟩ ∧ lastRecord recsT 2 "K" = none := by decide
/-- `load_bad_Z`: Z = 4 > ZMAX = 3 with a known name is `ub`; with an unknown name the record is skipped (and counted) -/
example : (match loadNamed cfgT (recsT ++ [⟨4, "K", ⟨1, 0⟩⟩] ++ recsT) stT with | .error (.ub _) => true | _ => false) = true := by decide
example : (match loadNamed cfgT (recsT ++ [⟨-1, "L2", ⟨1, 0⟩⟩]) stT with | .error (.ub _) => true | _ => false) = true := by decide
example : (match loadNamed cfgT (recsT ++ [⟨4, "XX", ⟨1, 0⟩⟩]) stT with | .ok st => st.err | _ => false) = true := by decide
/-- `load_name_check` / `load_long_name`: 6 characters → exit(1); 25 characters → buffer overflow -/
example : (match loadNamed cfgT [⟨1, "ABCDEF", ⟨1, 0⟩⟩] stT with | .error (.exit1 _) => true | _ => false) = true := by decide
example : (match loadNamed cfgT [⟨1, "ABCDEFGHIJKLMNOPQRSTUVWXY", ⟨1, 0⟩⟩] stT with | .error (.ub _) => true | _ => false) = true := by decide
/-- `unknown_exits` vs `levelwidth_drops_unknown`: the same records, the two policies -/
example : (match loadRecs cfgT [⟨1, "XX", ⟨1, 0⟩⟩, ⟨1, "K", ⟨24, -2⟩⟩] .clean stT with | .error (.exit1 _) => true | _ => false) = true := by decide
example : (match loadRecs { cfgT with policy := .exitIfLastUnknown } [⟨1, "XX", ⟨1, 0⟩⟩, ⟨1, "K", ⟨24, -2⟩⟩] .clean stT with
    | .ok st => st.t1.get 1 0 == ⟨24, -5⟩ | _ => false) = true := by decide
example : (match loadRecs { cfgT with policy := .exitIfLastUnknown } [⟨1, "K", ⟨24, -2⟩⟩, ⟨1, "XX", ⟨1, 0⟩⟩] .clean stT with
    | .error (.exit1 _) => true | _ => false) = true := by decide

/-- the lexer: records are not line-oriented, tokens may be glued, a malformed token ends the file silently -/
example : records3 "1 K 13.6\n 2\tL1\r\n5e0 12K 3.5".toList =
    ([⟨1, "K", ⟨136, -1⟩⟩, ⟨2, "L1", ⟨5, 0⟩⟩, ⟨12, "K", ⟨35, -1⟩⟩], .clean) := by decide
example : records3 "3 K 1.2.3 4 K 1".toList = ([⟨3, "K", ⟨12, -1⟩⟩], .clean) := by decide
example : records3 "3 K 9.00000000000345E-0005 4 L1".toList = ([⟨3, "K", ⟨900000000000345, -19⟩⟩], .partialName "L1") := by decide
example : records3 "4294967297 K 1e".toList = ([⟨1, "K", ⟨1, 0⟩⟩], .clean) := by decide
example : records2 "1\t1.010\n2\t4.000\n".toList = ([⟨1, "", ⟨1010, -3⟩⟩, ⟨2, "", ⟨4000, -3⟩⟩], .clean) := by decide

/-- the printer: 15 digits → 11; an exact tie; a short value unchanged -/
example : Dec.print11 ⟨900000000000345, -19⟩ = ⟨90000000000, -15⟩ := by decide
example : Dec.print11 ⟨192318274995000, -12⟩ = ⟨19231827500, -8⟩ ∧ Dec.isTie ⟨192318274995000, -12⟩ = true := by decide
example : Dec.print11 ⟨-728801895925000, -13⟩ = ⟨-72880189592, -9⟩ ∧ Dec.isTie ⟨-728801895925000, -13⟩ = true := by decide
example : Dec.print11 ⟨136, -4⟩ = ⟨136, -4⟩ ∧ Dec.isTie ⟨136, -4⟩ = false := by decide

/-- the name tables of the tree: the families are inhabited and say what one expects -/
example : ([75, 76, 51, 95, 76, 73, 78, 69], (-3 : Int)) ∈ lineMacros ∧ decode [75, 76, 51, 95, 76, 73, 78, 69] = "KL3_LINE" := by decide +kernel
example : names.line[2]? = some "KL3" ∧ names.shell[1]? = some "L1" ∧ names.trans[3]? = some "FP13" ∧ names.auger[0]? = some "K-L1L1" := by decide +kernel
example : decode (insertL [70, 80, 49, 51]) = "FLP13" ∧ decode (insertL [70, 77, 49, 50]) = "FM12" ∧ decode (underscoreFirst [75, 45, 76, 49, 76, 49]) = "K_L1L1" := by decide

/-- a whole (small) edges.dat through the loader of the tree: the hypotheses of `edges_spec` are satisfiable -/
example : (match loadFile3 (cfgEdges names) "1  K       13.6\n2  K       24.6\n3 L1 5.3\n1 K 14".toList (st0 names names.shell.length OUTD) with
    | .ok st => st.t1.get 1 0 == ⟨14, -3⟩ && st.t1.get 2 0 == ⟨246, -4⟩ && st.t1.get 3 1 == ⟨53, -4⟩ && st.t1.get 4 0 == Dec.ofInt OUTD
    | .error _ => false) = true := by decide +kernel

/-- a short block aborts, a complete file does not -/
example : (match loadBlocks "f" 120 "2 1 2 3 4 5".toList [] with | .error (.abort _) => true | _ => false) = true := by decide
example : (match loadBlocks "f" 120 "2 1 2 3 4 5 6 0 1 7 8 9".toList [] with | .ok bs => bs.length == 3 | _ => false) = true := by decide


/-- the positional files: a two-block kissel_pe.dat with `SHELLNUM_K = 2` (block 1: one row, occupancies 2 and 1.5, no sub-shell
tables; block 2: no rows, occupancies 2 and 6) — cell (2, 1) is the second token of the second block's record; element 3 has no block -/
def nT : NameTables := { zmax := 3, shell := [], line := [], trans := [], auger := [], augerTotal := [], shellnumK := 2, shellnumC := 2 }
example : (match loadKissel "kissel_pe.dat" 2 3 "1\n 0.5 1.5 0.25\n 2.000000\n1.500000\n0\n0\n0\n2.000000 6.000000\n0 0\n".toList [] with
    | .ok bs => (match kisselConfigOf nT bs with
      | some t => bs.length == 2 && t.get 1 0 == ⟨2000000, -6⟩ && t.get 1 1 == ⟨1500000, -6⟩ && t.get 2 1 == ⟨6000000, -6⟩ &&
                  t.get 3 0 == Dec.ofInt OUTD
      | none => false)
    | .error _ => false) = true := by decide +kernel
example : nthLf 1 " 2.000000 6.000000\n0 0\n".toList = some ⟨6000000, -6⟩ := by decide +kernel
/-- comptonprofiles.dat: one block, 2 sub-shells with occupancies 2 and 0 (the second has no partial profile), 1 momentum -/
example : (match loadCompton "comptonprofiles.dat" 2 3 "2 1\n 2 0\n 0.0\n 1.5\n 0.1\n 1.25\n 0.2\n".toList [] with
    | .ok bs => (match comptonUoccupOf nT bs with
      | some v => bs.length == 1 && v[1]? == some (some #[⟨2, 0⟩, ⟨0, 0⟩]) && v[2]? == some none
      | none => false)
    | .error _ => false) = true := by decide +kernel

end Examples

end C01L
end Loader
