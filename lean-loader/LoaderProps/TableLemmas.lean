/-
Read-after-write lemmas for `Loader.Tbl` (flat `[nrows][ncols]` arrays): everything the loader theorems know about tables.
-/
import Loader.Table
namespace Loader
namespace Tbl

theorem ncols_set (t : Tbl) (Z i : Nat) (v : Dec) : (t.set Z i v).ncols = t.ncols := rfl

theorem shaped_set {t : Tbl} {n : Nat} (h : t.Shaped n) (Z i : Nat) (v : Dec) : (t.set Z i v).Shaped n := by
  unfold Shaped at *
  simp only [set, Array.size_setIfInBounds]
  exact h

theorem shaped_init (n c : Nat) (v : Dec) : (Tbl.init n c v).Shaped n := by
  simp [Shaped, Tbl.init]

/-- flat index of an in-range cell is inside the array -/
theorem index_lt {t : Tbl} {n Z i : Nat} (h : t.Shaped n) (hZ : Z < n) (hi : i < t.ncols) : Z * t.ncols + i < t.data.size := by
  unfold Shaped at h
  rw [h]
  calc Z * t.ncols + i < Z * t.ncols + t.ncols := by omega
    _ = (Z + 1) * t.ncols := by rw [Nat.add_mul, Nat.one_mul]
    _ ≤ n * t.ncols := Nat.mul_le_mul_right _ hZ

/-- distinct in-range cells have distinct flat indices -/
theorem index_inj {c Z i Z' i' : Nat} (hi : i < c) (hi' : i' < c) (h : Z * c + i = Z' * c + i') : Z = Z' ∧ i = i' := by
  have hc : 0 < c := by omega
  have h1 : (Z * c + i) / c = Z := by
    rw [Nat.mul_comm, Nat.mul_add_div hc, Nat.div_eq_of_lt hi, Nat.add_zero]
  have h2 : (Z' * c + i') / c = Z' := by
    rw [Nat.mul_comm, Nat.mul_add_div hc, Nat.div_eq_of_lt hi', Nat.add_zero]
  have hZ : Z = Z' := by rw [← h1, ← h2, h]
  subst hZ
  exact ⟨rfl, by omega⟩

/-- reading the cell just written (in range) gives the value written -/
theorem get_set_same {t : Tbl} {n Z i : Nat} (h : t.Shaped n) (hZ : Z < n) (hi : i < t.ncols) (v : Dec) :
    (t.set Z i v).get Z i = v := by
  have hlt := index_lt h hZ hi
  simp [get, set, Array.getD_eq_getD_getElem?, hlt]

/-- a write does not change any other in-range cell (frame) -/
theorem get_set_other {t : Tbl} {Z i Z' i' : Nat} (hi : i < t.ncols) (hi' : i' < t.ncols) (hne : ¬ (Z = Z' ∧ i = i')) (v : Dec) :
    (t.set Z i v).get Z' i' = t.get Z' i' := by
  have hidx : Z * t.ncols + i ≠ Z' * t.ncols + i' := fun e => hne (index_inj hi hi' e)
  simp [get, set, Array.getD_eq_getD_getElem?, hidx]

/-- every cell of the initial table holds the initial value -/
theorem get_init {n c Z i : Nat} (hZ : Z < n) (hi : i < c) (v : Dec) : (Tbl.init n c v).get Z i = v := by
  have hlt : Z * c + i < n * c := by
    calc Z * c + i < Z * c + c := by omega
      _ = (Z + 1) * c := by rw [Nat.add_mul, Nat.one_mul]
      _ ≤ n * c := Nat.mul_le_mul_right _ hZ
  simp [get, Tbl.init, Array.getD_eq_getD_getElem?, hlt]

end Tbl
end Loader
