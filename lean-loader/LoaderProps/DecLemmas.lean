/-
`print11` (the `%.10E` of src/pr_data.c on exact decimals): it is the identity on decimals of at most 11 significant
digits, and otherwise moves the value by at most half a unit of the 11th digit.
-/
import Loader.Dec
namespace Loader
namespace Dec

theorem ndigitsAux_spec : ∀ (fuel n acc : Nat), n < fuel →
    (n = 0 → ndigitsAux fuel n acc = acc) ∧
    (0 < n → ∃ d, ndigitsAux fuel n acc = acc + d ∧ 0 < d ∧ 10 ^ (d - 1) ≤ n ∧ n < 10 ^ d)
  | 0, n, acc, h => by omega
  | fuel + 1, n, acc, h => by
    constructor
    · intro h0; simp [ndigitsAux, h0]
    · intro hpos
      have hne : n ≠ 0 := by omega
      have hlt : n / 10 < fuel := by
        have : n / 10 < n := Nat.div_lt_self hpos (by decide)
        omega
      obtain ⟨ih0, ihp⟩ := ndigitsAux_spec fuel (n / 10) (acc + 1) hlt
      simp only [ndigitsAux, hne, if_false]
      by_cases hq : n / 10 = 0
      · refine ⟨1, ?_, by decide, ?_, ?_⟩
        · rw [ih0 hq]
        · simp; omega
        · simp; omega
      · obtain ⟨d, hd, hdpos, hlo, hhi⟩ := ihp (by omega)
        refine ⟨d + 1, ?_, by omega, ?_, ?_⟩
        · rw [hd]; omega
        · have e : 10 ^ (d + 1 - 1) = 10 ^ (d - 1) * 10 := by
            have : d + 1 - 1 = (d - 1) + 1 := by omega
            rw [this, Nat.pow_succ]
          rw [e]; omega
        · rw [Nat.pow_succ]; omega

theorem ndigits_zero : ndigits 0 = 0 := by
  simp [ndigits, ndigitsAux]

/-- `ndigits n` is the number of decimal digits of a positive `n` -/
theorem ndigits_spec {n : Nat} (h : 0 < n) : 0 < ndigits n ∧ 10 ^ (ndigits n - 1) ≤ n ∧ n < 10 ^ ndigits n := by
  obtain ⟨d, hd, hdpos, hlo, hhi⟩ := (ndigitsAux_spec (n + 1) n 0 (by omega)).2 h
  have : ndigits n = d := by simp [ndigits, hd]
  rw [this]; exact ⟨hdpos, hlo, hhi⟩

/-- a number below `10^k` has at most `k` digits -/
theorem ndigits_le_of_lt {n k : Nat} (h : n < 10 ^ k) : ndigits n ≤ k := by
  by_cases h0 : n = 0
  · subst h0; rw [ndigits_zero]; omega
  · obtain ⟨_, hlo, _⟩ := ndigits_spec (by omega : 0 < n)
    apply Classical.byContradiction
    intro hc
    have hk : k ≤ ndigits n - 1 := by omega
    have : 10 ^ k ≤ 10 ^ (ndigits n - 1) := Nat.pow_le_pow_right (by decide) hk
    omega

/-- `%.10E` does not change a decimal that has at most 11 significant digits -/
theorem print11_of_short (d : Dec) (h : ndigits d.m.natAbs ≤ SIG) : print11 d = d := by
  unfold print11
  simp [h]

/-- the same, stated on the mantissa: |m| < 10^11 -/
theorem print11_of_lt (d : Dec) (h : d.m.natAbs < 10 ^ 11) : print11 d = d :=
  print11_of_short d (ndigits_le_of_lt h)

/-- `roundHE n k` is a nearest multiple: `|roundHE n k · 10^k − n| ≤ 10^k / 2` -/
theorem roundHE_err (n k : Nat) : 2 * (roundHE n k * 10 ^ k) ≤ 2 * n + 10 ^ k ∧ 2 * n ≤ 2 * (roundHE n k * 10 ^ k) + 10 ^ k := by
  have hp : 0 < 10 ^ k := Nat.pow_pos (by decide)
  have hdm : 10 ^ k * (n / 10 ^ k) + n % 10 ^ k = n := Nat.div_add_mod n (10 ^ k)
  have hr : n % 10 ^ k < 10 ^ k := Nat.mod_lt _ hp
  unfold roundHE
  simp only
  generalize 10 ^ k = p at *
  generalize hq : n / p = q at *
  generalize hrr : n % p = r at *
  have hqp : q * p = p * q := Nat.mul_comm _ _
  have hq1 : (q + 1) * p = p * q + p := by rw [Nat.add_mul, Nat.one_mul, hqp]
  generalize hpq : p * q = pq at *
  split
  · rw [hqp]; omega
  · split
    · rw [hq1]; omega
    · split
      · rw [hqp]; omega
      · rw [hq1]; omega

/-- exponent never decreases, and the mantissa is moved by at most half a unit of the digit that is dropped to:
with `k = (print11 d).e − d.e`,  `2·|(print11 d).m · 10^k − d.m| ≤ 10^k` -/
theorem print11_err (d : Dec) : ∃ k : Nat, (print11 d).e = d.e + k ∧
    2 * ((print11 d).m * 10 ^ k - d.m).natAbs ≤ 10 ^ k := by
  unfold print11
  simp only
  by_cases h : ndigits d.m.natAbs ≤ SIG
  · refine ⟨0, ?_, ?_⟩ <;> simp [h]
  · simp only [h, if_false]
    refine ⟨ndigits d.m.natAbs - SIG, by simp, ?_⟩
    obtain ⟨h1, h2⟩ := roundHE_err d.m.natAbs (ndigits d.m.natAbs - SIG)
    generalize ndigits d.m.natAbs - SIG = k at *
    generalize hq : roundHE d.m.natAbs k = q at *
    have hcast : ((10 : Int) ^ k) = ((10 ^ k : Nat) : Int) := by simp
    rw [hcast]
    generalize hp : 10 ^ k = p at *
    generalize hqp : q * p = qp at *
    by_cases hneg : d.m < 0
    · simp only [hneg, if_true]
      have e : (-(q : Int)) * (p : Int) = -((qp : Nat) : Int) := by
        rw [← hqp]; simp [Int.neg_mul]
      rw [e]
      omega
    · simp only [hneg, if_false]
      have e : (q : Int) * (p : Int) = ((qp : Nat) : Int) := by
        rw [← hqp]; simp
      rw [e]
      omega

end Dec
end Loader
