/-
Boolean checkers for the generated name tables and their soundness proofs.  The tables arrive as character codes
(`List (List Nat)`, see tools/loader_extract.py): the kernel evaluates the checkers on Nat lists in seconds, and the
String tables of the model are DEFINED as `codes.map Loader.decode`, so every fact transfers by `decode` lemmas.

* `distinctB codes`: insertion-sort the base-256 values (from the right: an ascending table, as the shipped ones are,
  costs one comparison per name; any other order is still handled, only slower), check the result strictly ascending.
* `matchFrom toMacro suf slot k macros names`: walk the macro list (sorted by slot by the extractor) and the name table
  in step: the j-th macro designates slot k+j and is spelled `toMacro name ++ suf`.
-/
import Loader.Files
namespace Loader
namespace NamesCheck

/-! ### distinctness -/

def encN (l : List Nat) : Nat := l.foldl (fun acc c => acc * 256 + c) 0

def insertAsc (x : Nat) : List Nat → List Nat
  | [] => [x]
  | y :: ys => if Nat.ble x y then x :: y :: ys else y :: insertAsc x ys

def sortAsc : List Nat → List Nat
  | [] => []
  | x :: xs => insertAsc x (sortAsc xs)

def strictAsc : List Nat → Bool
  | [] => true
  | [_] => true
  | x :: y :: t => Nat.blt x y && strictAsc (y :: t)

def distinctB (codes : List (List Nat)) : Bool := strictAsc (sortAsc (codes.map encN))

/-- every code is 7-bit ASCII: `decode` is then injective -/
def validB (codes : List (List Nat)) : Bool := codes.all fun l => l.all fun c => Nat.blt c 128

theorem insertAsc_perm (x : Nat) : ∀ l : List Nat, (insertAsc x l).Perm (x :: l)
  | [] => List.Perm.refl _
  | y :: ys => by
    unfold insertAsc
    split
    · exact List.Perm.refl _
    · exact ((insertAsc_perm x ys).cons y).trans (List.Perm.swap x y ys)

theorem sortAsc_perm : ∀ l : List Nat, (sortAsc l).Perm l
  | [] => List.Perm.refl _
  | x :: xs => (insertAsc_perm x (sortAsc xs)).trans ((sortAsc_perm xs).cons x)

theorem strictAsc_pairwise : ∀ l : List Nat, strictAsc l = true → l.Pairwise (· < ·)
  | [], _ => List.Pairwise.nil
  | [_], _ => by simp
  | x :: y :: t, h => by
    simp only [strictAsc, Bool.and_eq_true] at h
    have hxy : x < y := by
      have := h.1
      simpa [Nat.blt_eq] using this
    have ih := strictAsc_pairwise (y :: t) h.2
    refine List.Pairwise.cons ?_ ih
    intro z hz
    cases List.mem_cons.mp hz with
    | inl e => exact e ▸ hxy
    | inr m => exact Nat.lt_trans hxy ((List.pairwise_cons.mp ih).1 z m)

theorem nodup_of_map {α β : Type} (f : α → β) : ∀ l : List α, (l.map f).Nodup → l.Nodup
  | [], _ => List.nodup_nil
  | a :: as, h => by
    rw [List.map_cons, List.nodup_cons] at h
    rw [List.nodup_cons]
    refine ⟨fun hm => h.1 (List.mem_map_of_mem hm), nodup_of_map f as h.2⟩

/-- the checker is sound: the code lists are pairwise distinct -/
theorem distinctB_sound {codes : List (List Nat)} (h : distinctB codes = true) : codes.Nodup := by
  have hp := strictAsc_pairwise _ h
  have hnd : (sortAsc (codes.map encN)).Nodup := hp.imp (fun hlt => Nat.ne_of_lt hlt)
  have := ((sortAsc_perm (codes.map encN)).nodup_iff).mp hnd
  exact nodup_of_map encN codes this

theorem toNat_ofNat_ascii : ∀ n, n < 128 → (Char.ofNat n).toNat = n := by decide

theorem map_ofNat_inj : ∀ (a b : List Nat), (∀ c ∈ a, c < 128) → (∀ c ∈ b, c < 128) →
    a.map Char.ofNat = b.map Char.ofNat → a = b
  | [], [], _, _, _ => rfl
  | [], _ :: _, _, _, h => by simp at h
  | _ :: _, [], _, _, h => by simp at h
  | x :: xs, y :: ys, hx, hy, h => by
    simp only [List.map_cons, List.cons.injEq] at h
    have e : x = y := by
      have := congrArg Char.toNat h.1
      rwa [toNat_ofNat_ascii x (hx x List.mem_cons_self), toNat_ofNat_ascii y (hy y List.mem_cons_self)] at this
    rw [e, map_ofNat_inj xs ys (fun c hc => hx c (List.mem_cons_of_mem _ hc)) (fun c hc => hy c (List.mem_cons_of_mem _ hc)) h.2]

/-- on ASCII code lists `decode` is injective -/
theorem decode_inj {a b : List Nat} (ha : ∀ c ∈ a, c < 128) (hb : ∀ c ∈ b, c < 128) (h : decode a = decode b) : a = b :=
  map_ofNat_inj a b ha hb (String.ofList_injective h)

theorem validB_mem {codes : List (List Nat)} (h : validB codes = true) {l : List Nat} (hl : l ∈ codes) : ∀ c ∈ l, c < 128 := by
  intro c hc
  have := (List.all_eq_true.mp (List.all_eq_true.mp h l hl)) c hc
  simpa [Nat.blt_eq] using this

theorem nodup_map_decode : ∀ (codes : List (List Nat)), validB codes = true → codes.Nodup → (codes.map decode).Nodup
  | [], _, _ => List.nodup_nil
  | a :: as, hv, hnd => by
    rw [List.nodup_cons] at hnd
    have hvas : validB as = true := by
      simp only [validB, List.all_cons, Bool.and_eq_true] at hv ⊢
      exact hv.2
    rw [List.map_cons, List.nodup_cons]
    refine ⟨?_, nodup_map_decode as hvas hnd.2⟩
    intro hm
    obtain ⟨b, hb, hab⟩ := List.mem_map.mp hm
    have : b = a := decode_inj (validB_mem hv (List.mem_cons_of_mem _ hb)) (validB_mem hv List.mem_cons_self) hab
    exact hnd.1 (this ▸ hb)

/-- the String table decoded from checked codes has pairwise distinct names -/
theorem names_nodup {codes : List (List Nat)} (hd : distinctB codes = true) (hv : validB codes = true) :
    (codes.map decode).Nodup := nodup_map_decode codes hv (distinctB_sound hd)

theorem decode_append (a b : List Nat) : decode (a ++ b) = decode a ++ decode b := by
  simp [decode, List.map_append, String.ofList_append]

/-! ### macro name ↔ table name -/

def eqN : List Nat → List Nat → Bool
  | [], [] => true
  | c :: cs, d :: ds => Nat.beq c d && eqN cs ds
  | _, _ => false

theorem eqN_sound : ∀ (a b : List Nat), eqN a b = true → a = b
  | [], [], _ => rfl
  | [], _ :: _, h => by simp [eqN] at h
  | _ :: _, [], h => by simp [eqN] at h
  | c :: cs, d :: ds, h => by
    simp only [eqN, Bool.and_eq_true] at h
    have e : c = d := Nat.eq_of_beq_eq_true h.1
    rw [e, eqN_sound cs ds h.2]

/-- the table name as it is spelled inside the macro of the Auger family: first `-` → `_` ("K-L1L1" ↦ K_L1L1_AUGER) -/
def underscoreFirst : List Nat → List Nat
  | [] => []
  | c :: cs => if Nat.beq c 45 then 95 :: cs else c :: underscoreFirst cs

/-- the table name as it is spelled inside the macro of the Coster–Kronig family: the L-shell transitions carry an
extra `L` ("F12" ↦ FL12_TRANS, "FP13" ↦ FLP13_TRANS), the M-shell ones do not ("FM12" ↦ FM12_TRANS) -/
def insertL : List Nat → List Nat
  | 70 :: 77 :: rest => 70 :: 77 :: rest
  | 70 :: rest => 70 :: 76 :: rest
  | l => l

def lineSlot (v : Int) : Int := -v - 1

def sufLINE : List Nat := [95, 76, 73, 78, 69]
def sufSHELL : List Nat := [95, 83, 72, 69, 76, 76]
def sufTRANS : List Nat := [95, 84, 82, 65, 78, 83]
def sufAUGER : List Nat := [95, 65, 85, 71, 69, 82]

theorem decode_sufLINE : decode sufLINE = "_LINE" := by decide
theorem decode_sufSHELL : decode sufSHELL = "_SHELL" := by decide
theorem decode_sufTRANS : decode sufTRANS = "_TRANS" := by decide
theorem decode_sufAUGER : decode sufAUGER = "_AUGER" := by decide

def matchFrom (toMacro : List Nat → List Nat) (suf : List Nat) (slot : Int → Int) :
    Nat → List (List Nat × Int) → List (List Nat) → Bool
  | _, [], [] => true
  | k, p :: ms, n :: ns => (slot p.2 == (k : Int)) && eqN p.1 (toMacro n ++ suf) && matchFrom toMacro suf slot (k + 1) ms ns
  | _, _, _ => false

/-- soundness: same length, and the j-th macro designates slot k+j and is spelled `toMacro name ++ suf` -/
theorem matchFrom_sound (toMacro : List Nat → List Nat) (suf : List Nat) (slot : Int → Int) :
    ∀ (k : Nat) (ms : List (List Nat × Int)) (ns : List (List Nat)), matchFrom toMacro suf slot k ms ns = true →
      ms.length = ns.length ∧
      ∀ (j : Nat) (hj : j < ms.length) (hj' : j < ns.length), slot ms[j].2 = ((k + j : Nat) : Int) ∧ ms[j].1 = toMacro ns[j] ++ suf
  | k, [], [], _ => ⟨rfl, fun j hj => by simp at hj⟩
  | k, [], _ :: _, h => by simp [matchFrom] at h
  | k, _ :: _, [], h => by simp [matchFrom] at h
  | k, p :: ms, n :: ns, h => by
    simp only [matchFrom, Bool.and_eq_true, beq_iff_eq] at h
    obtain ⟨⟨h1, h2⟩, h3⟩ := h
    obtain ⟨hl, hall⟩ := matchFrom_sound toMacro suf slot (k + 1) ms ns h3
    refine ⟨by simp [hl], ?_⟩
    intro j hj hj'
    cases j with
    | zero => exact ⟨by simpa using h1, by simpa using eqN_sound _ _ h2⟩
    | succ j =>
      have := hall j (by simpa using hj) (by simpa using hj')
      simp only [List.getElem_cons_succ]
      refine ⟨?_, this.2⟩
      rw [this.1]; congr 1; omega

/-- the reader's form: every macro of the family designates a slot of the (decoded) name table, and the macro is spelled
`toMacro name ++ suffix` -/
theorem matchFrom_mem {toMacro : List Nat → List Nat} {suf : List Nat} {slot : Int → Int} {k : Nat}
    {ms : List (List Nat × Int)} {ns : List (List Nat)}
    (h : matchFrom toMacro suf slot k ms ns = true) {p : List Nat × Int} (hp : p ∈ ms) :
    ∃ (i : Nat) (nc : List Nat), slot p.2 = ((k + i : Nat) : Int) ∧ ns[i]? = some nc ∧ (ns.map decode)[i]? = some (decode nc) ∧
      decode p.1 = decode (toMacro nc) ++ decode suf := by
  obtain ⟨hl, hall⟩ := matchFrom_sound toMacro suf slot k ms ns h
  obtain ⟨j, hj, rfl⟩ := List.getElem_of_mem hp
  have hj' : j < ns.length := hl ▸ hj
  refine ⟨j, ns[j], (hall j hj hj').1, by simp [hj'], by simp [hj'], ?_⟩
  rw [(hall j hj hj').2, decode_append]

/-- and conversely every slot k … k+len-1 of the name table is designated by a macro of the family -/
theorem matchFrom_slot {toMacro : List Nat → List Nat} {suf : List Nat} {slot : Int → Int} {k : Nat}
    {ms : List (List Nat × Int)} {ns : List (List Nat)}
    (h : matchFrom toMacro suf slot k ms ns = true) {i : Nat} (hi : i < ns.length) :
    ∃ p ∈ ms, slot p.2 = ((k + i : Nat) : Int) ∧ decode p.1 = decode (toMacro ns[i]) ++ decode suf := by
  obtain ⟨hl, hall⟩ := matchFrom_sound toMacro suf slot k ms ns h
  have hj : i < ms.length := hl ▸ hi
  refine ⟨ms[i], List.getElem_mem hj, (hall i hj hi).1, ?_⟩
  rw [(hall i hj hi).2, decode_append]

/-- every alias `#define A_LINE T_LINE` names an existing literal macro, at the slot its value designates -/
def aliasesResolve (aliases : List (List Nat × List Nat × Int)) (macros : List (List Nat × Int)) : Bool :=
  aliases.all fun a => match macros[(lineSlot a.2.2).toNat]? with
    | some p => eqN p.1 a.2.1 && (p.2 == a.2.2) && decide (0 ≤ lineSlot a.2.2)
    | none => false

theorem aliasesResolve_sound {aliases : List (List Nat × List Nat × Int)} {macros : List (List Nat × Int)}
    (h : aliasesResolve aliases macros = true) {a : List Nat × List Nat × Int} (ha : a ∈ aliases) : (a.2.1, a.2.2) ∈ macros := by
  have := List.all_eq_true.mp h a ha
  cases hm : macros[(lineSlot a.2.2).toNat]? with
  | none => simp [hm] at this
  | some p =>
    simp only [hm, Bool.and_eq_true, beq_iff_eq, decide_eq_true_eq] at this
    have e1 : p.1 = a.2.1 := eqN_sound _ _ this.1.1
    have e2 : p.2 = a.2.2 := this.1.2
    have hp : p ∈ macros := List.mem_of_getElem? hm
    have : p = (a.2.1, a.2.2) := by rw [← e1, ← e2]
    exact this ▸ hp

end NamesCheck
end Loader
