/-
Shape of what the blocked loaders return (Loader/Blocks.lean): at most ZMAX blocks, each with exactly `max N 0` rows.
-/
import Loader.Blocks
namespace Loader

theorem readRows_length (file : String) : ∀ (k : Nat) (s : List Char) (acc rows : List Row) (s' : List Char),
    readRows file k s acc = .ok (rows, s') → rows.length = acc.length + k
  | 0, s, acc, rows, s', h => by
    simp only [readRows, Except.ok.injEq, Prod.mk.injEq] at h
    rw [← h.1]; simp
  | k + 1, s, acc, rows, s', h => by
    unfold readRows at h
    split at h <;> try (simp at h)
    split at h <;> try (simp at h)
    split at h <;> try (simp at h)
    have := readRows_length file k _ _ rows s' h
    simp only [List.length_cons] at this
    omega

/-- every block the loop delivers has exactly `N` rows (none when the count is ≤ 0), and the loop visits at most `todo`
(= ZMAX) elements: what follows the ZMAX-th block in the file is never read -/
theorem loadBlocks_shape (file : String) : ∀ (todo : Nat) (s : List Char) (acc bs : List Block),
    loadBlocks file todo s acc = .ok bs → (∀ b ∈ acc, b.rows.length = b.n.toNat) →
    bs.length ≤ acc.length + todo ∧ ∀ b ∈ bs, b.rows.length = b.n.toNat
  | 0, s, acc, bs, h, hacc => by
    simp only [loadBlocks, Except.ok.injEq] at h
    subst h
    exact ⟨by simp, fun b hb => hacc b (by simpa using hb)⟩
  | todo + 1, s, acc, bs, h, hacc => by
    unfold loadBlocks at h
    split at h
    · simp only [Except.ok.injEq] at h
      subst h
      exact ⟨by simp, fun b hb => hacc b (by simpa using hb)⟩
    · simp at h
    · rename_i n s1 _
      split at h
      · simp at h
      · rename_i rows s2 hr
        have hlen := readRows_length file _ _ _ _ _ hr
        have := loadBlocks_shape file todo s2 (⟨n, rows⟩ :: acc) bs h (by
          intro b hb
          cases List.mem_cons.mp hb with
          | inl e => subst e; simpa using hlen
          | inr m => exact hacc b m)
        simp only [List.length_cons] at this
        exact ⟨by omega, this.2⟩

/-! ### positional records: kissel_pe.dat (CONFIGURATION record) and comptonprofiles.dat (occupancy record)

These two files carry no names: a value is designated by its POSITION — block number = atomic number, place in the record =
sub-shell.  `LfSeq k s w s'` says "`k` consecutive `%lf` conversions starting at stream position `s` deliver the values `w` and
leave the stream at `s'`"; `nthLf i s` is the `i`-th of them. -/

inductive LfSeq : Nat → List Char → List Dec → List Char → Prop
  | nil (s : List Char) : LfSeq 0 s [] s
  | cons {k : Nat} {s s1 s' : List Char} {a : Dec} {w : List Dec} :
      scanDbl s = .ok a s1 → LfSeq k s1 w s' → LfSeq (k + 1) s (a :: w) s'

/-- the value of the `i`-th (0-based) `%lf` conversion from `s` on -/
def nthLf : Nat → List Char → Option Dec
  | 0, s => match scanDbl s with
    | .ok a _ => some a
    | _ => none
  | i + 1, s => match scanDbl s with
    | .ok _ s1 => nthLf i s1
    | _ => none

theorem LfSeq.length {k : Nat} {s s' : List Char} {w : List Dec} (h : LfSeq k s w s') : w.length = k := by
  induction h with
  | nil => rfl
  | cons _ _ ih => simp [ih]

theorem LfSeq.get {k : Nat} {s s' : List Char} {w : List Dec} (h : LfSeq k s w s') :
    ∀ i, i < k → w[i]? = nthLf i s := by
  induction h with
  | nil => intro i hi; omega
  | cons hs _ ih =>
    intro i hi
    cases i with
    | zero => simp [nthLf, hs]
    | succ j =>
      simp only [List.getElem?_cons_succ, nthLf, hs]
      exact ih j (by omega)

theorem readVals_ok (file : String) : ∀ (k : Nat) (s : List Char) (acc vs : List Dec) (s' : List Char),
    readVals file k s acc = .ok (vs, s') → ∃ w, vs = acc.reverse ++ w ∧ LfSeq k s w s'
  | 0, s, acc, vs, s', h => by
    simp only [readVals, Except.ok.injEq, Prod.mk.injEq] at h
    exact ⟨[], by simp [h.1], by rw [← h.2]; exact LfSeq.nil s⟩
  | k + 1, s, acc, vs, s', h => by
    unfold readVals at h
    split at h
    · simp at h
    · simp at h
    · rename_i a s1 hs
      obtain ⟨w, hw, hl⟩ := readVals_ok file k s1 (a :: acc) vs s' h
      exact ⟨a :: w, by simp [hw], LfSeq.cons hs hl⟩

/-- the loop of kissel_pe.dat as a relation: the blocks it delivers, each with its count token, its rows, its CONFIGURATION
record (the `K` values following the rows) and its sub-shell tables, in file order; it stops at end of data or after `todo` blocks -/
inductive KisselBlocks (file : String) (K : Nat) : Nat → List Char → List KisselBlock → Prop
  | limit (s : List Char) : KisselBlocks file K 0 s []
  | eof {todo : Nat} {s : List Char} : scanIntI s = .fail → KisselBlocks file K (todo + 1) s []
  | block {todo : Nat} {s s1 s2 s3 s4 : List Char} {n : Int} {rows : List Row} {cfg : List Dec} {sh : List KisselShell}
      {rest : List KisselBlock} :
      scanIntI s = .ok n s1 → readRows file n.toNat s1 [] = .ok (rows, s2) → LfSeq K s2 cfg s3 →
      readKisselShells file K s3 [] = .ok (sh, s4) → KisselBlocks file K todo s4 rest →
      KisselBlocks file K (todo + 1) s (⟨n, rows, cfg, sh⟩ :: rest)

theorem loadKissel_blocks (file : String) (K : Nat) : ∀ (todo : Nat) (s : List Char) (acc bs : List KisselBlock),
    loadKissel file K todo s acc = .ok bs → ∃ new, bs = acc.reverse ++ new ∧ KisselBlocks file K todo s new
  | 0, s, acc, bs, h => by
    simp only [loadKissel, Except.ok.injEq] at h
    exact ⟨[], by simp [h], KisselBlocks.limit s⟩
  | todo + 1, s, acc, bs, h => by
    unfold loadKissel at h
    split at h
    · rename_i hs
      simp only [Except.ok.injEq] at h
      exact ⟨[], by simp [h], KisselBlocks.eof hs⟩
    · simp at h
    · rename_i n s1 hs
      cases hr : readRows file n.toNat s1 [] with
      | error f => rw [hr] at h; cases h
      | ok p1 =>
        obtain ⟨rows, s2⟩ := p1
        cases hv : readVals file K s2 [] with
        | error f => simp [hr, hv, bind, Except.bind] at h
        | ok p2 =>
          obtain ⟨cfg, s3⟩ := p2
          cases hk : readKisselShells file K s3 [] with
          | error f => simp [hr, hv, hk, bind, Except.bind] at h
          | ok p3 =>
            obtain ⟨sh, s4⟩ := p3
            simp only [hr, hv, hk, bind, Except.bind] at h
            have h' : loadKissel file K todo s4 (⟨n, rows, cfg, sh⟩ :: acc) = .ok bs := h
            obtain ⟨new, hnew, hb⟩ := loadKissel_blocks file K todo s4 _ bs h'
            obtain ⟨w, hw, hl⟩ := readVals_ok file K s2 [] cfg s3 hv
            simp only [List.reverse_nil, List.nil_append] at hw
            subst hw
            exact ⟨⟨n, rows, cfg, sh⟩ :: new, by simp [hnew], KisselBlocks.block hs hr hl hk hb⟩

/-- where block `j` (0-based) of kissel_pe.dat starts: after `j` complete blocks -/
inductive KisselStart (file : String) (K : Nat) : Nat → List Char → List Char → Prop
  | zero (s : List Char) : KisselStart file K 0 s s
  | succ {j : Nat} {s s1 s2 s3 s4 pos : List Char} {n : Int} {rows : List Row} {cfg : List Dec} {sh : List KisselShell} :
      scanIntI s = .ok n s1 → readRows file n.toNat s1 [] = .ok (rows, s2) → LfSeq K s2 cfg s3 →
      readKisselShells file K s3 [] = .ok (sh, s4) → KisselStart file K j s4 pos → KisselStart file K (j + 1) s pos

/-- **block `j` of the file is element `j+1`'s block**: its count is the `%i` token at the block's start, its rows follow, and its
CONFIGURATION record is the `K` `%lf` tokens that follow the rows -/
theorem KisselBlocks.get {file : String} {K todo : Nat} {s : List Char} {bs : List KisselBlock} (h : KisselBlocks file K todo s bs) :
    ∀ (j : Nat) (hj : j < bs.length), ∃ pos s1 s2 s3, KisselStart file K j s pos ∧ scanIntI pos = .ok bs[j].n s1 ∧
      readRows file bs[j].n.toNat s1 [] = .ok (bs[j].rows, s2) ∧ LfSeq K s2 bs[j].config s3 := by
  induction h with
  | limit s => intro j hj; simp at hj
  | eof _ => intro j hj; simp at hj
  | block hs hr hl hk _ ih =>
    intro j hj
    cases j with
    | zero => exact ⟨_, _, _, _, KisselStart.zero _, hs, hr, hl⟩
    | succ i =>
      obtain ⟨pos, t1, t2, t3, hst, h1, h2, h3⟩ := ih i (by simpa using hj)
      exact ⟨pos, t1, t2, t3, KisselStart.succ hs hr hl hk hst, by simpa using h1, by simpa using h2, by simpa using h3⟩

theorem KisselBlocks.length_le {file : String} {K todo : Nat} {s : List Char} {bs : List KisselBlock}
    (h : KisselBlocks file K todo s bs) : bs.length ≤ todo := by
  induction h with
  | limit => simp
  | eof => simp
  | block _ _ _ _ _ ih => simp; omega

/-! comptonprofiles.dat: the occupancy record -/

/-- the loop of comptonprofiles.dat as a relation (what follows the occupancy record of a block is summarised by the position
`s'` at which the next block starts) -/
inductive ComptonBlocks (file : String) (nslots : Nat) : Nat → List Char → List ComptonBlock → Prop
  | limit (s : List Char) : ComptonBlocks file nslots 0 s []
  | eof1 {todo : Nat} {s : List Char} : scanInt s = .fail → ComptonBlocks file nslots (todo + 1) s []
  | eof2 {todo : Nat} {s s1 : List Char} {ns : Int} : scanInt s = .ok ns s1 → scanInt s1 = .fail → ComptonBlocks file nslots (todo + 1) s []
  | block {todo : Nat} {s s1 s2 s3 s' : List Char} {b : ComptonBlock} {rest : List ComptonBlock} :
      scanInt s = .ok b.nshells s1 → scanInt s1 = .ok b.npz s2 → LfSeq b.nshells.toNat s2 b.uoccup s3 →
      ComptonBlocks file nslots todo s' rest → ComptonBlocks file nslots (todo + 1) s (b :: rest)

theorem loadCompton_blocks (file : String) (nslots : Nat) : ∀ (todo : Nat) (s : List Char) (acc bs : List ComptonBlock),
    loadCompton file nslots todo s acc = .ok bs → ∃ new, bs = acc.reverse ++ new ∧ ComptonBlocks file nslots todo s new
  | 0, s, acc, bs, h => by
    simp only [loadCompton, Except.ok.injEq] at h
    exact ⟨[], by simp [h], ComptonBlocks.limit s⟩
  | todo + 1, s, acc, bs, h => by
    unfold loadCompton at h
    split at h
    · rename_i hs
      simp only [Except.ok.injEq] at h
      exact ⟨[], by simp [h], ComptonBlocks.eof1 hs⟩
    · simp at h
    · rename_i ns s1 hs
      split at h
      · rename_i hs1
        simp only [Except.ok.injEq] at h
        exact ⟨[], by simp [h], ComptonBlocks.eof2 hs hs1⟩
      · simp at h
      · rename_i np s2 hs1
        cases h1 : readVals file ns.toNat s2 [] with
        | error f => simp [h1, bind, Except.bind] at h
        | ok p1 =>
          obtain ⟨uo, s3⟩ := p1
          cases h2 : readVals file np.toNat s3 [] with
          | error f => simp [h1, h2, bind, Except.bind] at h
          | ok p2 =>
            obtain ⟨pz, s4⟩ := p2
            cases h3 : readVals file np.toNat s4 [] with
            | error f => simp [h1, h2, h3, bind, Except.bind] at h
            | ok p3 =>
              obtain ⟨tot, s5⟩ := p3
              cases h4 : readVals file np.toNat s5 [] with
              | error f => simp [h1, h2, h3, h4, bind, Except.bind] at h
              | ok p4 =>
                obtain ⟨tot2, s6⟩ := p4
                cases h5 : readPartials file nslots np.toNat uo 0 s6 [] with
                | error f => simp [h1, h2, h3, h4, h5, bind, Except.bind] at h
                | ok p5 =>
                  obtain ⟨q1, s7⟩ := p5
                  cases h6 : readPartials file nslots np.toNat uo 0 s7 [] with
                  | error f => simp [h1, h2, h3, h4, h5, h6, bind, Except.bind] at h
                  | ok p6 =>
                    obtain ⟨q2, s8⟩ := p6
                    simp only [h1, h2, h3, h4, h5, h6, bind, Except.bind] at h
                    obtain ⟨new, hnew, hb⟩ := loadCompton_blocks file nslots todo s8 _ bs h
                    obtain ⟨w, hw, hl⟩ := readVals_ok file ns.toNat s2 [] uo s3 h1
                    simp only [List.reverse_nil, List.nil_append] at hw
                    subst hw
                    exact ⟨⟨ns, np, uo, pz, tot, tot2, q1, q2⟩ :: new, by simp [hnew],
                      ComptonBlocks.block (b := ⟨ns, np, uo, pz, tot, tot2, q1, q2⟩) hs hs1 hl hb⟩

/-- where block `j` (0-based) of comptonprofiles.dat starts -/
inductive ComptonStart (file : String) (nslots : Nat) : Nat → List Char → List Char → Prop
  | zero (s : List Char) : ComptonStart file nslots 0 s s
  | succ {j todo : Nat} {s pos : List Char} {b : ComptonBlock} {rest : List ComptonBlock} {s1 s2 s3 s' : List Char} :
      scanInt s = .ok b.nshells s1 → scanInt s1 = .ok b.npz s2 → LfSeq b.nshells.toNat s2 b.uoccup s3 →
      ComptonBlocks file nslots todo s' rest → ComptonStart file nslots j s' pos → ComptonStart file nslots (j + 1) s pos

theorem ComptonBlocks.get {file : String} {nslots todo : Nat} {s : List Char} {bs : List ComptonBlock}
    (h : ComptonBlocks file nslots todo s bs) :
    ∀ (j : Nat) (hj : j < bs.length), ∃ pos s1 s2 s3, ComptonStart file nslots j s pos ∧ scanInt pos = .ok bs[j].nshells s1 ∧
      scanInt s1 = .ok bs[j].npz s2 ∧ LfSeq bs[j].nshells.toNat s2 bs[j].uoccup s3 := by
  induction h with
  | limit s => intro j hj; simp at hj
  | eof1 _ => intro j hj; simp at hj
  | eof2 _ _ => intro j hj; simp at hj
  | block hs hs1 hl hb ih =>
    intro j hj
    cases j with
    | zero => exact ⟨_, _, _, _, ComptonStart.zero _, hs, hs1, hl⟩
    | succ i =>
      obtain ⟨pos, t1, t2, t3, hst, h1, h2, h3⟩ := ih i (by simpa using hj)
      exact ⟨pos, t1, t2, t3, ComptonStart.succ hs hs1 hl hb hst, by simpa using h1, by simpa using h2, by simpa using h3⟩

/-! flat indices of a `[rows][K]` table -/

theorem flat_div_mod {K Z s : Nat} (hs : s < K) : (Z * K + s) / K = Z ∧ (Z * K + s) % K = s := by
  have hK : 0 < K := by omega
  constructor
  · rw [Nat.mul_comm, Nat.mul_add_div hK, Nat.div_eq_of_lt hs, Nat.add_zero]
  · rw [Nat.mul_comm, Nat.mul_add_mod, Nat.mod_eq_of_lt hs]

theorem flat_lt {K Z s n : Nat} (hs : s < K) (hZ : Z < n) : Z * K + s < n * K :=
  calc Z * K + s < Z * K + K := by omega
    _ = (Z + 1) * K := by rw [Nat.add_mul, Nat.one_mul]
    _ ≤ n * K := Nat.mul_le_mul_right _ hZ

end Loader
