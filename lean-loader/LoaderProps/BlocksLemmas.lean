/-
Shape of what the blocked loaders return (Loader/Blocks.lean): at most ZMAX blocks, each with exactly `max N 0` rows.
-/
import Loader.Blocks
namespace Loader

theorem readRows_length (file : String) : ∀ (k : Nat) (s : List Char) (acc rows : List Row) (s' : List Char),
    readRows file k s acc = .ok (rows, s') → rows.length = acc.length + k
  | 0, s, acc, rows, s', h => by
    simp only [readRows, Except.ok.injEq, Prod.mk.injEq] at h
    rw [← h.1]; simp
  | k + 1, s, acc, rows, s', h => by
    unfold readRows at h
    split at h <;> try (simp at h)
    split at h <;> try (simp at h)
    split at h <;> try (simp at h)
    have := readRows_length file k _ _ rows s' h
    simp only [List.length_cons] at this
    omega

/-- every block the loop delivers has exactly `N` rows (none when the count is ≤ 0), and the loop visits at most `todo`
(= ZMAX) elements: what follows the ZMAX-th block in the file is never read -/
theorem loadBlocks_shape (file : String) : ∀ (todo : Nat) (s : List Char) (acc bs : List Block),
    loadBlocks file todo s acc = .ok bs → (∀ b ∈ acc, b.rows.length = b.n.toNat) →
    bs.length ≤ acc.length + todo ∧ ∀ b ∈ bs, b.rows.length = b.n.toNat
  | 0, s, acc, bs, h, hacc => by
    simp only [loadBlocks, Except.ok.injEq] at h
    subst h
    exact ⟨by simp, fun b hb => hacc b (by simpa using hb)⟩
  | todo + 1, s, acc, bs, h, hacc => by
    unfold loadBlocks at h
    split at h
    · simp only [Except.ok.injEq] at h
      subst h
      exact ⟨by simp, fun b hb => hacc b (by simpa using hb)⟩
    · simp at h
    · rename_i n s1 _
      split at h
      · simp at h
      · rename_i rows s2 hr
        have hlen := readRows_length file _ _ _ _ _ hr
        have := loadBlocks_shape file todo s2 (⟨n, rows⟩ :: acc) bs h (by
          intro b hb
          cases List.mem_cons.mp hb with
          | inl e => subst e; simpa using hlen
          | inr m => exact hacc b m)
        simp only [List.length_cons] at this
        exact ⟨by omega, this.2⟩

end Loader
