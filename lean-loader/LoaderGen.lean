import LoaderGen.Names
