/-
A `[ZMAX+1][ncols]` table of exact decimals, flat like the C arrays of src/xrayglob.c.
Writes are only ever issued in bounds by the loaders (an out-of-range Z is reported as undefined behaviour
before the write, see `Named.lean`); `set` outside the array is the identity so that the function is total.
-/
import Loader.Dec
namespace Loader

structure Tbl where
  ncols : Nat
  data : Array Dec
deriving Repr

namespace Tbl

/-- `nrows × ncols` cells, all `init` (ArrayInit, src/xrayfiles.c:710-753) -/
def init (nrows ncols : Nat) (v : Dec) : Tbl := ⟨ncols, Array.replicate (nrows * ncols) v⟩

def get (t : Tbl) (Z i : Nat) : Dec := t.data.getD (Z * t.ncols + i) default

def set (t : Tbl) (Z i : Nat) (v : Dec) : Tbl := { t with data := t.data.setIfInBounds (Z * t.ncols + i) v }

def nrows (t : Tbl) : Nat := if t.ncols = 0 then 0 else t.data.size / t.ncols

/-- well-formed for `nrows` rows: this is what the theorems assume of the initial table -/
def Shaped (t : Tbl) (nrows : Nat) : Prop := t.data.size = nrows * t.ncols

end Tbl
end Loader
