/-
The blocked files of XRayInitFromPath (src/xrayfiles.c:140-249, 542-707): per element a count, then that many
rows.  CS_Photo, CS_Rayl, CS_Compt, FF, SF, fi, fii share one loop shape (`loadBlocks`); CS_Energy has a leading
element count and does not check its `fscanf`s; kissel_pe.dat and comptonprofiles.dat have nested blocks.

    for (Z = 1; Z <= ZMAX; Z++) {
      ex = fscanf(fp, "%d", &N[Z]);  if (ex != 1) break;          /* end of data: not an error              */
      A[Z] = malloc(N[Z]*sizeof(double)); …
      for (iE = 0; iE < N[Z]; iE++) assert(fscanf(fp, "%lf%lf%lf", &A[Z][iE], &B[Z][iE], &C[Z][iE]) == 3);
    }

`assert` is live (NDEBUG is #undef'd, src/xrayfiles.c:19-22): a short block aborts.  A count ≤ 0 reads no row.
Anything after the ZMAX-th block is never read.
-/
import Loader.Scan
import Loader.Named
namespace Loader

abbrev Row := Dec × Dec × Dec

/-- `N` (as read; `OUTD` when the block does not exist) and the rows of one element -/
structure Block where
  n : Int
  rows : List Row
deriving Repr, Inhabited

/-- `for (iE = 0; iE < n; iE++) assert(fscanf(fp, "%lf%lf%lf", …) == 3)` -/
def readRows (file : String) : Nat → List Char → List Row → R (List Row × List Char)
  | 0, s, acc => .ok (acc.reverse, s)
  | k + 1, s, acc =>
    match scanDbl s with
    | .unsupported => .error (.unsupported (file ++ ": %lf"))
    | .fail => .error (.abort (file ++ ": assert(fscanf(…) == 3)"))
    | .ok a s1 =>
      match scanDbl s1 with
      | .unsupported => .error (.unsupported (file ++ ": %lf"))
      | .fail => .error (.abort (file ++ ": assert(fscanf(…) == 3)"))
      | .ok b s2 =>
        match scanDbl s2 with
        | .unsupported => .error (.unsupported (file ++ ": %lf"))
        | .fail => .error (.abort (file ++ ": assert(fscanf(…) == 3)"))
        | .ok c s3 => readRows file k s3 ((a, b, c) :: acc)

/-- `for (i = 0; i < n; i++) assert(fscanf(fp, "%lf", …) == 1)` -/
def readVals (file : String) : Nat → List Char → List Dec → R (List Dec × List Char)
  | 0, s, acc => .ok (acc.reverse, s)
  | k + 1, s, acc =>
    match scanDbl s with
    | .unsupported => .error (.unsupported (file ++ ": %lf"))
    | .fail => .error (.abort (file ++ ": assert(fscanf(…) == 1)"))
    | .ok a s1 => readVals file k s1 (a :: acc)

/-- the loop `for (Z = 1; Z <= ZMAX; Z++)`; `todo` = number of elements still to visit -/
def loadBlocks (file : String) : Nat → List Char → List Block → R (List Block)
  | 0, _, acc => .ok acc.reverse
  | todo + 1, s, acc =>
    match scanInt s with
    | .fail => .ok acc.reverse
    | .unsupported => .error (.unsupported (file ++ ": %d"))
    | .ok n s1 =>
      match readRows file n.toNat s1 [] with
      | .error f => .error f
      | .ok (rows, s2) => loadBlocks file todo s2 (⟨n, rows⟩ :: acc)

/-- CS_Energy.dat (src/xrayfiles.c:689-707): `fscanf(fp, "%i", &NZ)` unchecked, `for (Z = 1; Z <= NZ; Z++)` with
`fscanf(fp, "%d", &NE_Energy[Z])` unchecked: NZ > ZMAX writes outside `NE_Energy` (reported when the loop gets
there); a count that cannot be read leaves `OUTD` in place and the loop goes on. -/
def loadEnergyLoop (file : String) (zmax : Nat) (outd : Int) : Nat → Nat → List Char → List Block → R (List Block)
  | 0, _, _, acc => .ok acc.reverse
  | todo + 1, Z, s, acc =>
    if zmax < Z then .error (.ub (file ++ ": element count exceeds ZMAX: NE_Energy[" ++ toString Z ++ "] is outside the array"))
    else match scanInt s with
    | .unsupported => .error (.unsupported (file ++ ": %d"))
    | .fail =>
      if (skipWs s).isEmpty then loadEnergyLoop file zmax outd todo (Z + 1) s (⟨outd, []⟩ :: acc)
      else .error (.unsupported (file ++ ": unreadable count in mid-file (how much glibc consumes is not modelled)"))
    | .ok n s1 =>
      match readRows file n.toNat s1 [] with
      | .error f => .error f
      | .ok (rows, s2) => loadEnergyLoop file zmax outd todo (Z + 1) s2 (⟨n, rows⟩ :: acc)

def loadEnergy (file : String) (zmax : Nat) (outd : Int) (text : List Char) : R (List Block) :=
  match scanIntI text with
  | .unsupported => .error (.unsupported (file ++ ": %i"))
  | .fail => .error (.ub (file ++ ": NZ is read uninitialised"))
  | .ok nz s => loadEnergyLoop file zmax outd nz.toNat 1 s []

/-! ### comptonprofiles.dat (src/xrayfiles.c:629-687) -/

structure ComptonBlock where
  nshells : Int
  npz : Int
  uoccup : List Dec
  pz : List Dec
  total : List Dec
  total2 : List Dec
  partialP : List (Option (List Dec))    -- per shell < NShells: `none` = NULL (UOCCUP ≤ 0)
  partialP2 : List (Option (List Dec))
deriving Repr, Inhabited

/-- `for (shell = 0; shell < NShells; shell++) if (UOCCUP[shell] > 0.0) { malloc; read Npz values } else NULL`;
`Partial_ComptonProfiles[Z]` has SHELLNUM_C slots, a shell index beyond them is an out-of-bounds write -/
def readPartials (file : String) (nslots npz : Nat) : List Dec → Nat → List Char → List (Option (List Dec)) → R (List (Option (List Dec)) × List Char)
  | [], _, s, acc => .ok (acc.reverse, s)
  | u :: us, shell, s, acc =>
    if nslots ≤ shell then .error (.ub (file ++ ": shell index " ++ toString shell ++ " outside Partial_ComptonProfiles[Z]"))
    else if 0 < u.m then
      match readVals file npz s [] with
      | .error f => .error f
      | .ok (vs, s1) => readPartials file nslots npz us (shell + 1) s1 (some vs :: acc)
    else readPartials file nslots npz us (shell + 1) s (none :: acc)

def loadCompton (file : String) (nslots : Nat) : Nat → List Char → List ComptonBlock → R (List ComptonBlock)
  | 0, _, acc => .ok acc.reverse
  | todo + 1, s, acc =>
    match scanInt s with
    | .fail => .ok acc.reverse
    | .unsupported => .error (.unsupported (file ++ ": %d"))
    | .ok ns s1 =>
      match scanInt s1 with
      | .fail => .ok acc.reverse
      | .unsupported => .error (.unsupported (file ++ ": %d"))
      | .ok np s2 => do
        let (uo, s3) ← readVals file ns.toNat s2 []
        let (pz, s4) ← readVals file np.toNat s3 []
        let (tot, s5) ← readVals file np.toNat s4 []
        let (tot2, s6) ← readVals file np.toNat s5 []
        let (p1, s7) ← readPartials file nslots np.toNat uo 0 s6 []
        let (p2, s8) ← readPartials file nslots np.toNat uo 0 s7 []
        loadCompton file nslots todo s8 (⟨ns, np, uo, pz, tot, tot2, p1, p2⟩ :: acc)

/-! ### kissel_pe.dat (src/xrayfiles.c:590-627) -/

structure KisselShell where
  n : Int                 -- NE_Photo_Partial_Kissel[Z][shell]
  edge : Option Dec       -- EdgeEnergy_Kissel[Z][shell], read only when n ≠ 0
  rows : List Row
deriving Repr, Inhabited

structure KisselBlock where
  n : Int
  rows : List Row
  config : List Dec       -- SHELLNUM_K occupancies
  shells : List KisselShell
deriving Repr, Inhabited

def readKisselShells (file : String) : Nat → List Char → List KisselShell → R (List KisselShell × List Char)
  | 0, s, acc => .ok (acc.reverse, s)
  | k + 1, s, acc =>
    match scanInt s with
    | .unsupported => .error (.unsupported (file ++ ": %d"))
    | .fail => .error (.abort (file ++ ": assert(fscanf(fp,\"%d\",…) == 1)"))
    | .ok n s1 =>
      if n = 0 then readKisselShells file k s1 (⟨0, none, []⟩ :: acc)
      else match scanDbl s1 with
      | .unsupported => .error (.unsupported (file ++ ": %lf"))
      | .fail => .error (.abort (file ++ ": assert(fscanf(fp,\"%lf\",…) == 1)"))
      | .ok e s2 =>
        match readRows file n.toNat s2 [] with
        | .error f => .error f
        | .ok (rows, s3) => readKisselShells file k s3 (⟨n, some e, rows⟩ :: acc)

def loadKissel (file : String) (nshells : Nat) : Nat → List Char → List KisselBlock → R (List KisselBlock)
  | 0, _, acc => .ok acc.reverse
  | todo + 1, s, acc =>
    match scanIntI s with
    | .fail => .ok acc.reverse
    | .unsupported => .error (.unsupported (file ++ ": %i"))
    | .ok n s1 => do
      let (rows, s2) ← readRows file n.toNat s1 []
      let (cfg, s3) ← readVals file nshells s2 []
      let (sh, s4) ← readKisselShells file nshells s3 []
      loadKissel file nshells todo s4 (⟨n, rows, cfg, sh⟩ :: acc)

end Loader
