/-
The record loaders of XRayInitFromPath (src/xrayfiles.c:82-122, 251-540): one loop shape, ten files.

    while (!feof(fp)) {
      ex = fscanf(fp, "%d %s %lf", &Z, name, &E);     /* or "%d %lf" */
      if (ex != 3) break;                               /* a malformed record ENDS the file silently       */
      [ if (strlen(name) > L) exit(1); ]                /* fluor_lines, radrate (L=5), coskron (L=4)        */
      [ E /= 1000.0; ]                                  /* edges, fluor_lines, atomiclevelswidth            */
      for (i = 0; i < N; i++) if (strcmp(name, Names[i]) == 0) { Table[Z][i] = E; [read_error = 0;] break; }
      [ bookkeeping of unknown names ]                  /* fluor_lines, atomiclevelswidth, radrate, auger   */
    }
    [ if (nerror_lines > 0) exit(1); ]

Facts of the C that the model reproduces as they are:
* `feof` never decides anything: the loop ends at the first `fscanf` that does not deliver a full record.
* `Z` is NOT range-checked: `Table[Z][i] = E` with Z outside 0..ZMAX is an out-of-bounds write (undefined
  behaviour; UBSan: "index … out of bounds").  Z = 0 is in bounds.  The write only happens when the name is found.
* `%s` has no field width: a token of `cap` or more characters overflows `char name[cap]` (undefined behaviour),
  also in the last, incomplete record.
* an unknown name is silently dropped by edges, fluor_yield, jump, coskron (`ErrPolicy.ignore`); fluor_lines, radrate
  and auger_rates count it and `exit(1)` after the file (`exitAtEnd`); atomiclevelswidth resets its counter
  for every record (src/xrayfiles.c:336-338), so only an unknown name in the LAST record exits (`exitIfLastUnknown`).
* auger_rates searches two name tables for every record and stores into two tables (src/xrayfiles.c:497-512).
-/
import Loader.Scan
import Loader.Table
namespace Loader

structure Rec where
  Z : Int
  name : String
  v : Dec
deriving Repr, DecidableEq, Inhabited

/-- how the program ended when it did not end with loaded tables -/
inductive Fail where
  | exit1 (why : String)        -- the loader's own `exit(1)`
  | ub (why : String)           -- undefined behaviour in the real loader (out-of-bounds write, buffer overflow, uninitialised read)
  | abort (why : String)        -- `assert` failed (NDEBUG is undefined in src/xrayfiles.c:19-22)
  | unsupported (why : String)  -- input outside the lexer model
deriving Repr, DecidableEq, Inhabited

abbrev R := Except Fail

/-- how the record stream of a file ended -/
inductive Tail where
  | clean                       -- end of input / mismatch before any name was stored in the buffer
  | partialName (name : String) -- `%d %s` succeeded, `%lf` did not: the name buffer was written
  | unsupported (why : String)
deriving Repr, DecidableEq

/-- `fscanf(fp, "%d %s %lf", …)` until it fails -/
def parseRecs3 : Nat → List Char → List Rec → List Rec × Tail
  | 0, _, acc => (acc.reverse, .clean)
  | fuel + 1, s, acc =>
    match scanInt s with
    | .fail => (acc.reverse, .clean)
    | .unsupported => (acc.reverse, .unsupported "%d")
    | .ok z s1 =>
      match scanStr s1 with
      | .fail => (acc.reverse, .clean)
      | .unsupported => (acc.reverse, .unsupported "%s")
      | .ok nm s2 =>
        match scanDbl s2 with
        | .fail => (acc.reverse, .partialName nm)
        | .unsupported => (acc.reverse, .unsupported ("%lf after " ++ nm))
        | .ok v s3 => parseRecs3 fuel s3 (⟨z, nm, v⟩ :: acc)

/-- `fscanf(fp, "%d %lf", …)` until it fails; the record gets the empty name (the one "column" of a per-Z scalar) -/
def parseRecs2 : Nat → List Char → List Rec → List Rec × Tail
  | 0, _, acc => (acc.reverse, .clean)
  | fuel + 1, s, acc =>
    match scanInt s with
    | .fail => (acc.reverse, .clean)
    | .unsupported => (acc.reverse, .unsupported "%d")
    | .ok z s1 =>
      match scanDbl s1 with
      | .fail => (acc.reverse, .clean)
      | .unsupported => (acc.reverse, .unsupported "%lf")
      | .ok v s2 => parseRecs2 fuel s2 (⟨z, "", v⟩ :: acc)

/-- every iteration consumes at least one character, so the length of the text is enough fuel -/
def records3 (text : List Char) : List Rec × Tail := parseRecs3 (text.length + 1) text []
def records2 (text : List Char) : List Rec × Tail := parseRecs2 (text.length + 1) text []

inductive ErrPolicy where
  | ignore | exitAtEnd | exitIfLastUnknown
deriving Repr, DecidableEq

structure NamedCfg where
  file : String
  names : List String            -- the name table searched (ShellName, LineName, TransName, AugerNameTotal, or [""] )
  names2 : List String := []     -- second table searched for the same record (auger_rates: AugerName)
  zmax : Nat                     -- ZMAX
  scale : Int := 0               -- power of ten applied to the value before the store
  cap : Nat                      -- size of the `char[]` that receives `%s`
  maxLen : Option Nat := none    -- `if (strlen(name) > L) exit(1)`
  policy : ErrPolicy := .ignore
deriving Repr

structure St where
  t1 : Tbl
  t2 : Tbl
  err : Bool      -- nerror_lines > 0
deriving Repr

/-- `for (i = 0; i < N; i++) if (strcmp(name, Names[i]) == 0) { …; break; }`: first index whose name is equal -/
def findName (names : List String) (nm : String) : Option Nat :=
  let i := names.idxOf nm
  if i < names.length then some i else none

def zInRange (zmax : Nat) (Z : Int) : Bool := 0 ≤ Z && Z ≤ (zmax : Int)

/-- the store a record performs on the table of one name list: `Table[Z][i] = scale·v` for the first `i` with
`Names[i] = name`.  A record whose Z is outside the table never gets here (`recFatal` stops the program before);
the guard only makes the function total. -/
def apply1 (names : List String) (zmax : Nat) (scale : Int) (t : Tbl) (r : Rec) : Tbl :=
  match findName names r.name with
  | some i => if zInRange zmax r.Z then t.set r.Z.toNat i (r.v.scale10 scale) else t
  | none => t

def known (cfg : NamedCfg) (r : Rec) : Bool := (findName cfg.names r.name).isSome || (findName cfg.names2 r.name).isSome

/-- the event, if any, with which the real loader stops at this record, in the order of the C statements -/
def recFatal (cfg : NamedCfg) (r : Rec) : Option Fail :=
  if cfg.cap ≤ r.name.length then some (.ub (cfg.file ++ ": name of " ++ toString r.name.length ++ " characters overflows the buffer"))
  else if (match cfg.maxLen with | some L => decide (L < r.name.length) | none => false) then some (.exit1 (cfg.file ++ ": name too long"))
  else if known cfg r && !zInRange cfg.zmax r.Z then some (.ub (cfg.file ++ ": Z = " ++ toString r.Z ++ " indexes outside the table"))
  else none

def nextErr (p : ErrPolicy) (err : Bool) (isKnown : Bool) : Bool :=
  match p with
  | .ignore => false
  | .exitAtEnd => err || !isKnown
  | .exitIfLastUnknown => !isKnown

def step (cfg : NamedCfg) (st : St) (r : Rec) : R St :=
  match recFatal cfg r with
  | some f => .error f
  | none => .ok { t1 := apply1 cfg.names cfg.zmax cfg.scale st.t1 r, t2 := apply1 cfg.names2 cfg.zmax cfg.scale st.t2 r,
                  err := nextErr cfg.policy st.err (known cfg r) }

/-- the loop over the complete records of a file -/
def loadNamed (cfg : NamedCfg) : List Rec → St → R St
  | [], st => .ok st
  | r :: rs, st => match step cfg st r with
    | .error f => .error f
    | .ok st' => loadNamed cfg rs st'

/-- what happens after the last complete record: the incomplete one may have overflowed the buffer; then the
`if (nerror_lines > 0) exit(1)` of the file -/
def finish (cfg : NamedCfg) (tail : Tail) (st : St) : R St :=
  match tail with
  | .unsupported why => .error (.unsupported (cfg.file ++ ": " ++ why))
  | .partialName nm =>
    if cfg.cap ≤ nm.length then .error (.ub (cfg.file ++ ": name of the incomplete last record overflows the buffer"))
    else if st.err then .error (.exit1 (cfg.file ++ ": unknown names")) else .ok st
  | .clean => if st.err then .error (.exit1 (cfg.file ++ ": unknown names")) else .ok st

def loadRecs (cfg : NamedCfg) (recs : List Rec) (tail : Tail) (st : St) : R St :=
  match loadNamed cfg recs st with
  | .error f => .error f
  | .ok st' => finish cfg tail st'

/-- a whole `%d %s %lf` file -/
def loadFile3 (cfg : NamedCfg) (text : List Char) (st : St) : R St :=
  let (recs, tail) := records3 text
  loadRecs cfg recs tail st

/-- a whole `%d %lf` file (no name buffer) -/
def loadFile2 (cfg : NamedCfg) (text : List Char) (st : St) : R St :=
  let (recs, tail) := records2 text
  loadRecs cfg recs tail st

/-- "the LAST record (Z, name, v) of the list", written from the property text; the model does not use it -/
def lastRecord (recs : List Rec) (Z : Int) (name : String) : Option Dec :=
  (recs.reverse.find? (fun r => r.Z == Z && r.name == name)).map (·.v)

end Loader
