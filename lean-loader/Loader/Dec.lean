/-
Exact decimals and the `%.10E` printer of src/pr_data.c as a function on them.

Core Lean only (the driver links this file).  A data-file number is kept as the exact decimal the token
denotes, `m · 10^e`; the unit conversions of src/xrayfiles.c (`E /= 1000.0`) are shifts of the exponent;
`print11` is "round to 11 significant digits", which is what `fprintf(filePtr, "%.10E", x)`
(src/pr_data.c:1062,1065) does to the value it is given.

What is NOT modelled here: binary floating point.  The real loader holds `strtod(token)` (and its quotient
by 1000.0) in a `double`, and `printf` rounds *that* double.  The correspondence run of props/c01_loader.py
compares, for every cell, the correctly rounded conversion of the exact decimal with the double the real
loader holds, and `print11` with the compiled table; the only cells where the two readings can differ are
exact decimal ties (`isTie`), which the driver flags.
-/
namespace Loader

/-- the exact decimal `m · 10^e` -/
structure Dec where
  m : Int
  e : Int
deriving DecidableEq, Repr, Inhabited

namespace Dec

def zero : Dec := ⟨0, 0⟩
def ofInt (n : Int) : Dec := ⟨n, 0⟩

/-- multiply by `10^k`; `E /= 1000.0` (src/xrayfiles.c:260,288,335) is `scale10 (-3)` -/
def scale10 (k : Int) (d : Dec) : Dec := ⟨d.m, d.e + k⟩

/-- number of decimal digits of `n` (0 for 0), by counting divisions; `fuel` = any bound ≥ the answer -/
def ndigitsAux : Nat → Nat → Nat → Nat
  | 0, _, acc => acc
  | fuel + 1, n, acc => if n = 0 then acc else ndigitsAux fuel (n / 10) (acc + 1)

/-- number of decimal digits of `n`; `ndigits 0 = 0` -/
def ndigits (n : Nat) : Nat := ndigitsAux (n + 1) n 0

/-- `n / 10^k` rounded to nearest, ties to even (what an exactly-rounding printer does on an exact tie) -/
def roundHE (n k : Nat) : Nat :=
  let p := 10 ^ k
  let q := n / p
  let r := n % p
  if 2 * r < p then q else if p < 2 * r then q + 1 else if q % 2 = 0 then q else q + 1

/-- significant digits kept by `%.10E` -/
def SIG : Nat := 11

/-- `%.10E` (src/pr_data.c:1056-1072) on an exact decimal: at most 11 significant digits survive -/
def print11 (d : Dec) : Dec :=
  let n := d.m.natAbs
  let nd := ndigits n
  if nd ≤ SIG then d
  else
    let k := nd - SIG
    let q := roundHE n k
    ⟨if d.m < 0 then -(q : Int) else (q : Int), d.e + k⟩

/-- the decimal lies exactly half-way between two 11-digit neighbours: the printed digit then depends on the binary
rounding of the `double`, which this model does not see -/
def isTie (d : Dec) : Bool :=
  let n := d.m.natAbs
  let nd := ndigits n
  if nd ≤ SIG then false else 2 * (n % 10 ^ (nd - SIG)) == 10 ^ (nd - SIG)

/-- `123e-5`: a literal every correctly-rounding reader (Python `float`, `strtod`) understands -/
def toStr (d : Dec) : String := toString d.m ++ "e" ++ toString d.e

end Dec
end Loader
