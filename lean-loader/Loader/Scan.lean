/-
The conversions `%d`, `%i`, `%s`, `%lf` of glibc's `fscanf`, on a character stream, as src/xrayfiles.c uses them.

A white-space directive in the format (`"%d %s %lf"`) matches any amount of white space including none, and every
conversion used here skips leading white space itself, so `"%d %s %lf"` = `"%d%s%lf"`: records are NOT
line-oriented and tokens need not be separated (`12K 3.5` is the record (12, "K", 3.5); `3 K 1.2.3` reads 1.2 and
leaves `.3` for the next `%d`, which then fails).  Probed against glibc 2.36 (notes/C01L_REPORT.md §lexer).

Outside the model (`ScanR.unsupported`): `inf`/`nan`, hexadecimal floats, `%i` with a `0` prefix (octal/hex).
-/
import Loader.Dec
namespace Loader

/-- C `isspace` in the "C" locale -/
def isSpace (c : Char) : Bool :=
  c == ' ' || c == '\t' || c == '\n' || c == '\x0b' || c == '\x0c' || c == '\r'

def isDigit (c : Char) : Bool := '0' ≤ c && c ≤ '9'

def skipWs : List Char → List Char
  | [] => []
  | c :: cs => if isSpace c then skipWs cs else c :: cs

/-- read decimal digits: accumulated value, how many, rest -/
def spanDigits : List Char → Nat → Nat → Nat × Nat × List Char
  | [], acc, n => (acc, n, [])
  | c :: cs, acc, n => if isDigit c then spanDigits cs (acc * 10 + (c.toNat - 48)) (n + 1) else (acc, n, c :: cs)

inductive ScanR (α : Type) where
  | ok (v : α) (rest : List Char)
  | fail           -- matching failure or end of input: fscanf stops and returns the count so far
  | unsupported    -- input class not modelled
deriving Repr

/-- `(int) strtol(...)`: clamp to `long`, keep the low 32 bits (two's complement) -/
def toInt32 (v : Int) : Int :=
  let c := if v > 9223372036854775807 then 9223372036854775807 else if v < -9223372036854775808 then -9223372036854775808 else v
  let w := c % 4294967296
  if w ≥ 2147483648 then w - 4294967296 else w

/-- `%d` -/
def scanInt (s : List Char) : ScanR Int :=
  let s := skipWs s
  let (neg, s1) := match s with
    | '-' :: t => (true, t)
    | '+' :: t => (false, t)
    | _ => (false, s)
  let (v, n, rest) := spanDigits s1 0 0
  if n = 0 then .fail else .ok (toInt32 (if neg then -(v : Int) else (v : Int))) rest

/-- `%i`: as `%d` for a decimal token; a leading `0` followed by a digit or `x` selects another base (not modelled) -/
def scanIntI (s : List Char) : ScanR Int :=
  let s' := skipWs s
  let body := match s' with
    | '-' :: t => t
    | '+' :: t => t
    | _ => s'
  match body with
  | '0' :: c :: _ => if isDigit c || c == 'x' || c == 'X' then .unsupported else scanInt s
  | _ => scanInt s

def spanNonSpace : List Char → List Char → List Char × List Char
  | [], acc => (acc.reverse, [])
  | c :: cs, acc => if isSpace c then (acc.reverse, c :: cs) else spanNonSpace cs (c :: acc)

/-- `%s` (no field width in src/xrayfiles.c: the caller's buffer may overflow — see `NamedCfg.cap`) -/
def scanStr (s : List Char) : ScanR String :=
  let (tok, rest) := spanNonSpace (skipWs s) []
  if tok.isEmpty then .fail else .ok (String.ofList tok) rest

/-- `%lf` / `%lg`: `[sign] digits [. digits] [(e|E) [sign] digits]` with at least one mantissa digit; an exponent marker
without digits is consumed and means exponent 0 (glibc).  The value is the exact decimal. -/
def scanDbl (s : List Char) : ScanR Dec :=
  let s := skipWs s
  let (neg, s1) := match s with
    | '-' :: t => (true, t)
    | '+' :: t => (false, t)
    | _ => (false, s)
  match s1 with
  | 'i' :: _ => .unsupported
  | 'I' :: _ => .unsupported
  | 'n' :: _ => .unsupported
  | 'N' :: _ => .unsupported
  | '0' :: 'x' :: _ => .unsupported
  | '0' :: 'X' :: _ => .unsupported
  | _ =>
    let (ip, ni, s2) := spanDigits s1 0 0
    let (m, nf, s3) := match s2 with
      | '.' :: t => let (m, nf, r) := spanDigits t ip 0; (m, nf, r)
      | _ => (ip, 0, s2)
    if ni + nf = 0 then .fail
    else
      let (ex, s4) := match s3 with
        | c :: t =>
          if c == 'e' || c == 'E' then
            let (eneg, t1) := match t with
              | '-' :: u => (true, u)
              | '+' :: u => (false, u)
              | _ => (false, t)
            let (ev, _, t2) := spanDigits t1 0 0
            ((if eneg then -(ev : Int) else (ev : Int)), t2)
          else ((0 : Int), s3)
        | [] => ((0 : Int), s3)
      .ok ⟨(if neg then -(m : Int) else (m : Int)), ex - (nf : Int)⟩ s4

end Loader
