/-
XRayInitFromPath (src/xrayfiles.c:38-708) as a sequence of file steps, in the order of the C, each producing the
tables it fills.  The name tables and dimensions are parameters (`NameTables`); the driver instantiates them with
`LoaderGen.Names`, which tools/loader_extract.py regenerates from src/xrayvars.c and include/xraylib-defs.h.

Not modelled: Crystals.dat (Crystal_ReadFile; property C14), the Mendeleev table sort.
-/
import Loader.Named
import Loader.Blocks
namespace Loader

structure NameTables where
  zmax : Nat
  shell : List String        -- ShellName
  line : List String         -- LineName
  trans : List String        -- TransName
  auger : List String        -- AugerName
  augerTotal : List String   -- AugerNameTotal
  shellnumK : Nat            -- SHELLNUM_K
  shellnumC : Nat            -- SHELLNUM_C
deriving Repr

/-- a name given as its character codes (LoaderGen/Names.lean carries the tables of src/xrayvars.c in this form) -/
def decode (l : List Nat) : String := String.ofList (l.map Char.ofNat)

/-- `#define OUTD -9999` (src/xrayfiles.c:27) -/
def OUTD : Int := -9999

/-- what a file step delivers -/
inductive Out where
  | F (name : String) (scale : Int) (t : Tbl)                                    -- `double name[ZMAX+1][ncols]`
  | I (name : String) (ncols : Nat) (vals : Array Int)                           -- `int name[ZMAX+1]([ncols])`
  | V (name : String) (ncols : Nat) (vecs : Array (Option (Array Dec)))          -- `double *name[ZMAX+1]([ncols])`; none = NULL
deriving Repr

def emptyTbl : Tbl := ⟨0, #[]⟩

def st0 (N : NameTables) (ncols : Nat) (init : Int) (ncols2 : Nat := 0) : St :=
  { t1 := Tbl.init (N.zmax + 1) ncols (Dec.ofInt init), t2 := Tbl.init (N.zmax + 1) ncols2 (Dec.ofInt init), err := false }

/-! ### configurations of the ten record files -/

def cfgAtomicWeight (N : NameTables) : NamedCfg := { file := "atomicweight.dat", names := [""], zmax := N.zmax, cap := 1 }
def cfgDensities (N : NameTables) : NamedCfg := { file := "densities.dat", names := [""], zmax := N.zmax, cap := 1 }
/-- src/xrayfiles.c:251-269; `char shell_name[25]` -/
def cfgEdges (N : NameTables) : NamedCfg := { file := "edges.dat", names := N.shell, zmax := N.zmax, scale := -3, cap := 25 }
/-- src/xrayfiles.c:271-323; `char line_name[25]`, `strlen(line_name) > 5` -/
def cfgFluorLines (N : NameTables) : NamedCfg :=
  { file := "fluor_lines.dat", names := N.line, zmax := N.zmax, scale := -3, cap := 25, maxLen := some 5, policy := .exitAtEnd }
/-- src/xrayfiles.c:325-372; the counter is reset inside the loop (lines 336-338) -/
def cfgLevelWidth (N : NameTables) : NamedCfg :=
  { file := "atomiclevelswidth.dat", names := N.shell, zmax := N.zmax, scale := -3, cap := 25, policy := .exitIfLastUnknown }
def cfgFluorYield (N : NameTables) : NamedCfg := { file := "fluor_yield.dat", names := N.shell, zmax := N.zmax, cap := 25 }
def cfgJump (N : NameTables) : NamedCfg := { file := "jump.dat", names := N.shell, zmax := N.zmax, cap := 25 }
/-- src/xrayfiles.c:412-433; `char trans_name[5]`, `strlen(trans_name) > 4` -/
def cfgCosKron (N : NameTables) : NamedCfg := { file := "coskron.dat", names := N.trans, zmax := N.zmax, cap := 5, maxLen := some 4 }
/-- src/xrayfiles.c:435-483 -/
def cfgRadRate (N : NameTables) : NamedCfg :=
  { file := "radrate.dat", names := N.line, zmax := N.zmax, cap := 25, maxLen := some 5, policy := .exitAtEnd }
/-- src/xrayfiles.c:485-540; `char auger_name[10]`, two searches per record -/
def cfgAuger (N : NameTables) : NamedCfg :=
  { file := "auger_rates.dat", names := N.augerTotal, names2 := N.auger, zmax := N.zmax, cap := 10, policy := .exitAtEnd }

/-! ### tables out of block lists -/

/-- `N[Z]` for Z = 0..zmax: `OUTD` where no block was read (ArrayInit) -/
def countsOf (zmax : Nat) (bs : Array Block) : Array Int :=
  (Array.range (zmax + 1)).map fun Z => if Z = 0 then OUTD else match bs[Z - 1]? with | some b => b.n | none => OUTD

/-- column `sel` of the rows of element Z; NULL where no block was read (static storage) -/
def vecsOf (zmax : Nat) (bs : Array Block) (sel : Row → Dec) : Array (Option (Array Dec)) :=
  (Array.range (zmax + 1)).map fun Z => if Z = 0 then none else match bs[Z - 1]? with
    | some b => some (b.rows.map sel).toArray
    | none => none

def blockOuts (zmax : Nat) (nName a b c : String) (bs : List Block) : List Out :=
  let bs := bs.toArray
  [.I nName 1 (countsOf zmax bs), .V a 1 (vecsOf zmax bs (·.1)), .V b 1 (vecsOf zmax bs (·.2.1)), .V c 1 (vecsOf zmax bs (·.2.2))]

def comptonOuts (N : NameTables) (bs : List ComptonBlock) : List Out :=
  let bs := bs.toArray
  let zs := Array.range (N.zmax + 1)
  let blk (Z : Nat) : Option ComptonBlock := if Z = 0 then none else bs[Z - 1]?
  let i1 (f : ComptonBlock → Int) : Array Int := zs.map fun Z => match blk Z with | some b => f b | none => OUTD
  let v1 (f : ComptonBlock → List Dec) : Array (Option (Array Dec)) := zs.map fun Z => (blk Z).map fun b => (f b).toArray
  let v2 (f : ComptonBlock → List (Option (List Dec))) : Array (Option (Array Dec)) :=
    (Array.range ((N.zmax + 1) * N.shellnumC)).map fun k =>
      match blk (k / N.shellnumC) with
      | some b => match (f b)[k % N.shellnumC]? with
        | some (some l) => some l.toArray
        | _ => none
      | none => none
  [.I "NShells_ComptonProfiles" 1 (i1 (·.nshells)), .I "Npz_ComptonProfiles" 1 (i1 (·.npz)),
   .V "UOCCUP_ComptonProfiles" 1 (v1 (·.uoccup)), .V "pz_ComptonProfiles" 1 (v1 (·.pz)),
   .V "Total_ComptonProfiles" 1 (v1 (·.total)), .V "Total_ComptonProfiles2" 1 (v1 (·.total2)),
   .V "Partial_ComptonProfiles" N.shellnumC (v2 (·.partialP)), .V "Partial_ComptonProfiles2" N.shellnumC (v2 (·.partialP2))]

def kisselOuts (N : NameTables) (bs : List KisselBlock) : List Out :=
  let bs := bs.toArray
  let K := N.shellnumK
  let blk (Z : Nat) : Option KisselBlock := if Z = 0 then none else bs[Z - 1]?
  let cells := Array.range ((N.zmax + 1) * K)
  let cfgT : Tbl := ⟨K, cells.map fun k => match blk (k / K) with
    | some b => (b.config[k % K]?).getD (Dec.ofInt OUTD)
    | none => Dec.ofInt OUTD⟩
  let edgeT : Tbl := ⟨K, cells.map fun k => match blk (k / K) with
    | some b => match b.shells[k % K]? with
      | some sh => sh.edge.getD Dec.zero
      | none => Dec.zero
    | none => Dec.zero⟩
  let nePart : Array Int := cells.map fun k => match blk (k / K) with
    | some b => match b.shells[k % K]? with
      | some sh => sh.n
      | none => OUTD
    | none => OUTD
  let vPart (sel : Row → Dec) : Array (Option (Array Dec)) := cells.map fun k => match blk (k / K) with
    | some b => match b.shells[k % K]? with
      | some sh => if sh.n = 0 then none else some (sh.rows.map sel).toArray
      | none => none
    | none => none
  let tot : Array Block := bs.map fun b => ⟨b.n, b.rows⟩
  [.I "NE_Photo_Total_Kissel" 1 (countsOf N.zmax tot), .V "E_Photo_Total_Kissel" 1 (vecsOf N.zmax tot (·.1)),
   .V "Photo_Total_Kissel" 1 (vecsOf N.zmax tot (·.2.1)), .V "Photo_Total_Kissel2" 1 (vecsOf N.zmax tot (·.2.2)),
   .F "Electron_Config_Kissel" 0 cfgT, .F "EdgeEnergy_Kissel" 0 edgeT, .I "NE_Photo_Partial_Kissel" K nePart,
   .V "E_Photo_Partial_Kissel" K (vPart (·.1)), .V "Photo_Partial_Kissel" K (vPart (·.2.1)), .V "Photo_Partial_Kissel2" K (vPart (·.2.2))]

/-! ### the file steps, in the order of the C -/

structure FileStep where
  file : String
  run : List Char → R (List Out)

def named1 (cfg : NamedCfg) (three : Bool) (st : St) (tname : String) : FileStep :=
  { file := cfg.file
    run := fun text => do
      let st' ← (if three then loadFile3 cfg text st else loadFile2 cfg text st)
      pure [.F tname cfg.scale st'.t1] }

def blocked (N : NameTables) (file nName a b c : String) : FileStep :=
  { file := file, run := fun text => do
      let bs ← loadBlocks file N.zmax text []
      pure (blockOuts N.zmax nName a b c bs) }

def steps (N : NameTables) : List FileStep :=
  [ named1 (cfgAtomicWeight N) false (st0 N 1 OUTD) "AtomicWeight_arr",
    named1 (cfgDensities N) false (st0 N 1 OUTD) "ElementDensity_arr",
    blocked N "CS_Photo.dat" "NE_Photo" "E_Photo_arr" "CS_Photo_arr" "CS_Photo_arr2",
    blocked N "CS_Rayl.dat" "NE_Rayl" "E_Rayl_arr" "CS_Rayl_arr" "CS_Rayl_arr2",
    blocked N "CS_Compt.dat" "NE_Compt" "E_Compt_arr" "CS_Compt_arr" "CS_Compt_arr2",
    blocked N "FF.dat" "Nq_Rayl" "q_Rayl_arr" "FF_Rayl_arr" "FF_Rayl_arr2",
    blocked N "SF.dat" "Nq_Compt" "q_Compt_arr" "SF_Compt_arr" "SF_Compt_arr2",
    named1 (cfgEdges N) true (st0 N N.shell.length OUTD) "EdgeEnergy_arr",
    named1 (cfgFluorLines N) true (st0 N N.line.length 0) "LineEnergy_arr",
    named1 (cfgLevelWidth N) true (st0 N N.shell.length OUTD) "AtomicLevelWidth_arr",
    named1 (cfgFluorYield N) true (st0 N N.shell.length OUTD) "FluorYield_arr",
    named1 (cfgJump N) true (st0 N N.shell.length OUTD) "JumpFactor_arr",
    named1 (cfgCosKron N) true (st0 N N.trans.length 0) "CosKron_arr",
    named1 (cfgRadRate N) true (st0 N N.line.length 0) "RadRate_arr",
    { file := "auger_rates.dat", run := fun text => do
        let st' ← loadFile3 (cfgAuger N) text (st0 N N.augerTotal.length 0 N.auger.length)
        pure [.F "Auger_Transition_Total" 0 st'.t1, .F "Auger_Transition_Individual" 0 st'.t2] },
    blocked N "fi.dat" "NE_Fi" "E_Fi_arr" "Fi_arr" "Fi_arr2",
    blocked N "fii.dat" "NE_Fii" "E_Fii_arr" "Fii_arr" "Fii_arr2",
    { file := "kissel_pe.dat", run := fun text => do
        let bs ← loadKissel "kissel_pe.dat" N.shellnumK N.zmax text []
        pure (kisselOuts N bs) },
    { file := "comptonprofiles.dat", run := fun text => do
        let bs ← loadCompton "comptonprofiles.dat" N.shellnumC N.zmax text []
        pure (comptonOuts N bs) },
    { file := "CS_Energy.dat", run := fun text => do
        let bs ← loadEnergy "CS_Energy.dat" N.zmax OUTD text
        pure (blockOuts N.zmax "NE_Energy" "E_Energy_arr" "CS_Energy_arr" "CS_Energy_arr2" bs) } ]

/-- the whole of XRayInitFromPath over a directory given as a function from file name to contents
(`none`: `fopen` fails, the loader prints "File … not found" and exits) -/
def loadAll (N : NameTables) (dir : String → Option (List Char)) : R (List Out) :=
  (steps N).foldlM (fun acc s =>
    match dir s.file with
    | none => .error (.exit1 ("File " ++ s.file ++ " not found"))
    | some text => do
      let o ← s.run text
      pure (acc ++ o)) []

end Loader
