import XrlCrystals.Hand.Caller
import XrlCrystals.Hand.Reader
import XrlCrystals.Spec.Dict
/-!
# `c14-model`: runs histories through the hand model (`model`) or the specification (`spec`)

usage: c14-model (model|spec) <bcap> <history-file>...
       c14-model parse <crystal-file>...
Prints, per history, the same lines as `harness/c14drv.c` (see there for the syntax).
In `model` mode the content of a crystal file is what the character-level model of the reading loop
(`Hand/Reader.lean`) makes of the BYTES of `f<k>.dat` next to the history file (the tokens that follow on the `read`
line are the generator's prediction and are used by the `spec` mode only).  `parse` prints that reading of each
file as such tokens.  Doubles travel as bit
patterns (`UInt64`); the volume parameter is the formula of `Crystal_UnitCellVolume`
(crystal_diffraction.c:445-447) evaluated with the same libm.
-/
open XrlCrystals

abbrev D := UInt64

def hexVal (c : Char) : Nat :=
  if c.isDigit then c.toNat - '0'.toNat
  else if 'a' ≤ c ∧ c ≤ 'f' then c.toNat - 'a'.toNat + 10
  else if 'A' ≤ c ∧ c ≤ 'F' then c.toNat - 'A'.toNat + 10 else 0

def pd (s : String) : D :=
  UInt64.ofNat ((s.drop 1).toString.foldl (fun acc c => acc * 16 + hexVal c) 0)

def hex16 (v : D) : String :=
  let ds := (Nat.toDigits 16 v.toNat)
  String.ofList (List.replicate (16 - ds.length) '0' ++ ds)

def fl (v : D) : Float := Float.ofBits v

/-- crystal_diffraction.c:445-447 with `cosd(x) = cos(x * (PI / 180.0))`, `pow2(x) = pow(x, 2)` -/
def volF (c : Cell D) : D :=
  let degrad : Float := 3.1415926535897932384626433832795 / 180.0
  let cosd (x : Float) := Float.cos (x * degrad)
  let pow2 (x : Float) := Float.pow x 2
  let a := fl c.a; let b := fl c.b; let cc := fl c.c
  let al := fl c.alpha; let be := fl c.beta; let ga := fl c.gamma
  (a * b * cc * Float.sqrt ((1 - pow2 (cosd al) - pow2 (cosd be) - pow2 (cosd ga)) + 2 * cosd al * cosd be * cosd ga)).toBits

def fnv (h w : UInt64) : UInt64 := (h ^^^ w) * 0x100000001b3

def crystalStr (c : Crystal D) : String :=
  let h0 : UInt64 := 0xcbf29ce484222325
  let h := [c.cell.a, c.cell.b, c.cell.c, c.cell.alpha, c.cell.beta, c.cell.gamma].foldl fnv h0
  let h := c.atoms.foldl (fun h a => [Int64.toUInt64 (Int64.ofInt a.Z), a.fraction, a.x, a.y, a.z].foldl fnv h) h
  s!"{c.name} n={c.atoms.length} h={hex16 h} v=x{hex16 c.volume}"

/-! ### exact decimals to `double` (what `strtod` does: correctly rounded, ties to even) -/

def decToBits (d : Dec) : D :=
  let sign : UInt64 := if d.neg then 0x8000000000000000 else 0
  if d.m == 0 then sign
  else
    let nd : Int := ((toString d.m).length : Nat)
    let mag : Int := nd + d.e
    if mag > 320 then sign ||| 0x7FF0000000000000
    else if mag < -340 then sign
    else
      let N : Nat := if d.e ≥ 0 then d.m * 10 ^ d.e.toNat else d.m
      let Dn : Nat := if d.e ≥ 0 then 1 else 10 ^ (-d.e).toNat
      let e0 : Int := (N.log2 : Int) - (Dn.log2 : Int)
      let ge (e : Int) : Bool := if e ≥ 0 then decide (N ≥ Dn * 2 ^ e.toNat) else decide (N * 2 ^ (-e).toNat ≥ Dn)
      let e : Int := if ge (e0 + 1) then e0 + 1 else if ge e0 then e0 else e0 - 1
      let shift : Int := if e ≥ -1022 then 52 - e else 1074
      let num : Nat := if shift ≥ 0 then N * 2 ^ shift.toNat else N
      let den : Nat := if shift ≥ 0 then Dn else Dn * 2 ^ (-shift).toNat
      let q0 := num / den
      let r := num % den
      let q := if 2 * r > den || (2 * r == den && q0 % 2 == 1) then q0 + 1 else q0
      if e ≥ -1022 then
        let e' : Int := if q ≥ 2 ^ 53 then e + 1 else e
        let q' : Nat := if q ≥ 2 ^ 53 then q / 2 else q
        if e' > 1023 then sign ||| 0x7FF0000000000000
        else sign ||| (UInt64.ofNat ((e' + 1023).toNat) <<< 52) ||| UInt64.ofNat (q' - 2 ^ 52)
      else sign ||| UInt64.ofNat q

def cellToD (c : Cell Dec) : Cell D :=
  ⟨decToBits c.a, decToBits c.b, decToBits c.c, decToBits c.alpha, decToBits c.beta, decToBits c.gamma⟩

def crystalToD (c : Crystal Dec) : Crystal D :=
  ⟨c.name, cellToD c.cell, decToBits c.volume, c.atoms.map (fun a => ⟨a.Z, decToBits a.fraction, decToBits a.x, decToBits a.y, decToBits a.z⟩)⟩

def parsedToD (p : Parsed Dec) : Parsed D := ⟨p.good.map crystalToD, p.bad⟩

/-- the bytes of a file as characters 0..255 -/
def readBytes (path : System.FilePath) : IO (Option (List Char)) := do
  try
    let b ← IO.FS.readBinFile path
    let mut l : List Char := []
    let mut i := b.size
    while i > 0 do
      i := i - 1
      l := Char.ofNat (b.get! i).toNat :: l
    return some l
  catch _ => return none

/-- a parsed file in the token syntax of the `read` line -/
def crystalTokens (c : Crystal D) : String :=
  let cell := [c.cell.a, c.cell.b, c.cell.c, c.cell.alpha, c.cell.beta, c.cell.gamma, c.volume].map (fun v => "x" ++ hex16 v)
  let atoms := c.atoms.map (fun a => s!"{a.Z} x{hex16 a.fraction} x{hex16 a.x} x{hex16 a.y} x{hex16 a.z}")
  " ".intercalate ([c.name] ++ cell ++ [toString c.atoms.length] ++ atoms)

def parsedTokens (p : Parsed D) : String :=
  let g := p.good.map (fun c => "G " ++ crystalTokens c)
  let b := match p.bad with
    | none => []
    | some .sLine => ["E S"]
    | some (.noUcell n) => [s!"E U0 {n}"]
    | some (.multiUcell n) => [s!"E U2 {n}"]
    | some (.badUcell n) => [s!"E UM {n}"]
    | some (.eof n) => [s!"E EOF {n}"]
    | some (.atomLine n l k) => [s!"E AT {n} {l} {k}"]
  " ".intercalate (g ++ b)

/-! ### bulk operations: the generated crystal families of `harness/c14drv.c: gen_many`

`addmany <arr> <count> <seed>` is, by definition, the `count` single operations `add <arr> L <genMany seed i>` (i = 0 … count-1) issued one
after the other; the driver runs them through the unchanged `cstep` / `astep` and reports how many were accepted, the index of the first
refused one and its error.  `readmany <arr> <k> <n> <seed>` is a `read` of a file that holds the crystals `genMany seed 0 … n-1`
(model mode: whatever the reader model makes of the bytes of `f<k>.dat`; spec mode: the generated list).
Integer arithmetic and dyadic fractions only: the doubles are bit-identical with the C harness'. -/

def pad5 (n : Nat) : String :=
  let s := toString n
  String.ofList (List.replicate (5 - s.length) '0') ++ s

def genMany (seed i : Nat) : Crystal D :=
  let perm := (i * 7919 + 13 * seed) % 10007
  let f (n : Nat) : Float := Float.ofNat n
  let b (x : Float) : D := x.toBits
  let ang : Float × Float × Float :=
    if perm % 3 == 0 then (90, 90, 90) else if perm % 3 == 1 then (90, 90, 120)
    else (f (80 + i % 15), f (85 + perm % 9), f (95 + i % 11))
  let cell : Cell D := ⟨b (f (3 + perm % 11) + 0.25 * f (i % 4)), b (f 4 + 0.5 * f (i % 7)), b (f (5 + perm % 5)), b ang.1, b ang.2.1, b ang.2.2⟩
  let atoms := (List.range (1 + i % 4)).map (fun j =>
    (⟨((1 + (perm + 13 * j) % 92 : Nat) : Int), b (if j % 2 == 1 then 0.5 else 1.0), b (f ((i + j) % 8) / 8.0), b (f (perm % 4) / 4.0), b (f (j % 2) * 0.5)⟩ : Atom D))
  ⟨s!"M{seed % 1000}_{pad5 perm}", cell, b 0.0, atoms⟩

/-- an operation line of a history as the driver executes it -/
inductive DOp where
  | one (op : Op D)
  | many (arr : ARef) (cs : List (Crystal D))
  | stop (why : String)

/-! ### parsing the history syntax -/

def parseAtoms : Nat → List String → List (Atom D) × List String
  | 0, ts => ([], ts)
  | n + 1, z :: f :: x :: y :: zz :: ts =>
      let (as, rest) := parseAtoms n ts
      (⟨z.toInt!, pd f, pd x, pd y, pd zz⟩ :: as, rest)
  | _, ts => ([], ts)

/-- `<name> a b c alpha beta gamma volume natoms {Z f x y z}` -/
def parseCrystal : List String → Option (Crystal D × List String)
  | name :: a :: b :: c :: al :: be :: ga :: v :: n :: ts =>
      let (as, rest) := parseAtoms n.toNat! ts
      some (⟨name, ⟨pd a, pd b, pd c, pd al, pd be, pd ga⟩, pd v, as⟩, rest)
  | _ => none

def parseARef (t : String) : ARef :=
  if t == "B" then .builtin else .user (t.drop 1).toString.toNat!

def parseSrc : List String → Src D
  | "N" :: _ => .null
  | "L" :: ts => match parseCrystal ts with | some (c, _) => .lit c | none => .null
  | t :: _ => .obj (t.drop 1).toString.toNat!
  | [] => .null

/-- `{G <crystal>} [E <kind> …]` -/
partial def parseEntries (ts : List String) (acc : List (Crystal D)) : Parsed D :=
  match ts with
  | "G" :: ts =>
      match parseCrystal ts with
      | some (c, rest) => parseEntries rest (acc ++ [c])
      | none => ⟨acc, none⟩
  | "E" :: "S" :: _ => ⟨acc, some .sLine⟩
  | "E" :: "U0" :: n :: _ => ⟨acc, some (.noUcell n)⟩
  | "E" :: "U2" :: n :: _ => ⟨acc, some (.multiUcell n)⟩
  | "E" :: "UM" :: n :: _ => ⟨acc, some (.badUcell n)⟩
  | "E" :: "EOF" :: n :: _ => ⟨acc, some (.eof n)⟩
  | "E" :: "AT" :: n :: l :: k :: _ => ⟨acc, some (.atomLine n l.toNat! k.toNat!)⟩
  | _ => ⟨acc, none⟩

def parseOp : List String → Option (Op D)
  | ["init", n] => some (.init n.toInt!)
  | "add" :: a :: ts => some (.add (parseARef a) (parseSrc ts))
  | "read" :: a :: "NULLNAME" :: _ => some (.read (parseARef a) .nullName)
  | "read" :: a :: "NOFILE" :: _ => some (.read (parseARef a) .cannotOpen)
  | "read" :: a :: _ :: ts => some (.read (parseARef a) (.content (parseEntries ts [])))
  | ["readmany", a, _, n, seed] => some (.read (parseARef a) (.content ⟨(List.range n.toNat!).map (genMany seed.toNat!), none⟩))
  | ["get", a, n] => some (.get (parseARef a) (if n == "~" then none else some n))
  | ["list", a] => some (.list (parseARef a))
  | "copy" :: ts => some (.copy (parseSrc ts))
  | ["free", j] => some (.free j.toNat!)
  | ["afree", i] => some (.afree i.toNat!)
  | ["scrib", j, w] => some (.scrib j.toNat! (pd w))
  | _ => none

def errStr : Option Err → String
  | none => " err=-"
  | some e => s!" err={e.code}:{e.msg}"

def retStr : Ret → String
  | .ptr b => if b then "P" else "0"
  | .int v => toString v
  | .names n l => toString n ++ String.join (l.map ("," ++ ·))
  | .unit => "-"

def ubStr : UB → String
  | .useAfterFree => "useAfterFree" | .doubleFree => "doubleFree" | .outOfBounds => "outOfBounds"
  | .uninit => "uninit" | .nullDeref => "nullDeref" | .badHandle => "badHandle"

/-! ### what the harness observes after every operation, computed on the model through the model's API -/

def derefM (m : Mem D) (c : CStruct D) : M (Crystal D) := do
  let s ← m.strs.get c.name
  let av ← m.atms.get c.atom
  if c.n_atom ≤ av.length then pure ⟨s, c.cell, c.volume, av.take c.n_atom⟩ else .error .outOfBounds

def observeColl (m : Mem D) (nm : String) (arr : Option Nat) (raw : Bool) (pool : List String) : M (List String) := do
  let mut out : List String := []
  if raw then
    match arr with
    | some a =>
      let h ← m.hdrs.get a
      out := out ++ [s!"{nm} n={h.n_crystal} alloc={h.n_alloc}"]
      let cs ← m.slotsOf h
      let mut i := 0
      for c in cs do
        let cv ← derefM m c
        out := out ++ [s!"{nm}[{i}] {crystalStr cv}"]
        i := i + 1
    | none => pure ()
  let (m1, v, n, e) ← Crystal_GetCrystalsList m arr
  match v with
  | some v =>
    let (_, names) ← releaseList m1 v
    out := out ++ [s!"{nm} list {n}" ++ String.join (names.map (" " ++ ·)) ++ errStr e]
  | none => out := out ++ [s!"{nm} list {n}" ++ errStr e]
  for p in pool do
    let (m2, q, e) ← Crystal_GetCrystal m (some p) arr
    match q with
    | some o =>
      let c ← m2.css.get o
      let cv ← derefM m2 c
      let _ ← Crystal_Free m2 (some o)
      out := out ++ [s!"{nm} ? {p} F {crystalStr cv}" ++ errStr e]
    | none => out := out ++ [s!"{nm} ? {p} A" ++ errStr e]
  pure out

structure Flags where
  arrDead : List Bool := []
  objDead : List Bool := []

def observeModel (σ : CState D) (fl : Flags) (pool : List String) (base : Nat) : M (List String) := do
  let mut out := [s!"live {σ.mem.live - base} fds {σ.mem.files}"]
  out := out ++ (← observeColl σ.mem "B" none false pool)
  let mut i := 0
  for (p, dead) in σ.arrs.zip fl.arrDead do
    match p with
    | some a => if !dead then out := out ++ (← observeColl σ.mem s!"A{i}" (some a) true pool)
    | none => pure ()
    i := i + 1
  let mut j := 0
  for (p, dead) in σ.objs.zip fl.objDead do
    match p with
    | some o =>
      if !dead then
        let c ← σ.mem.css.get o
        let cv ← derefM σ.mem c
        out := out ++ [s!"O{j} {crystalStr cv}"]
    | none => pure ()
    j := j + 1
  pure out

def opName (ts : List String) : String := ts.headD "?"

def updFlags (fl : Flags) (σ : CState D) (op : Op D) : Flags :=
  let fl := { fl with arrDead := fl.arrDead ++ List.replicate (σ.arrs.length - fl.arrDead.length) false,
                      objDead := fl.objDead ++ List.replicate (σ.objs.length - fl.objDead.length) false }
  match op with
  | .free j => { fl with objDead := fl.objDead.set j true }
  | .afree i => { fl with arrDead := fl.arrDead.set i true }
  | _ => fl

/-! ### the specification's view -/

def observeDict (nm : String) (d : Dict D) (raw : Bool) (pool : List String) : List String :=
  let rawL := if raw then
      s!"{nm} n={d.size}" :: ((List.range d.size).zip d.items).map (fun (i, c) => s!"{nm}[{i}] {crystalStr c}")
    else []
  rawL ++ [s!"{nm} list {d.size}" ++ String.join (d.names.map (" " ++ ·)) ++ " err=-"] ++
    pool.map (fun p => match d.find p with
      | some c => s!"{nm} ? {p} F {crystalStr c} err=-"
      | none => s!"{nm} ? {p} A err=+")

def observeSpec (s : AState D) (b0 : Nat) (pool : List String) : List String :=
  let quiet := s.arrs.all (fun | .live _ => false | _ => true) && s.objs.all (fun | .live _ => false | _ => true)
  let l0 := if quiet then s!"live {2 * (s.builtin.size - b0)} fds 0" else "live ? fds 0"
  let arrs := ((List.range s.arrs.length).zip s.arrs).flatMap (fun (i, h) => match h with
    | .live d => observeDict s!"A{i}" d true pool
    | _ => [])
  let objs := ((List.range s.objs.length).zip s.objs).filterMap (fun (j, h) => match h with
    | .live c => some s!"O{j} {crystalStr c}"
    | _ => none)
  [l0] ++ observeDict "B" s.builtin false pool ++ arrs ++ objs

/-! ### main loop -/

def parseBuiltinFile (path : String) : IO (List (Crystal D)) := do
  let txt ← IO.FS.readFile path
  let mut out : List (Crystal D) := []
  for l in txt.splitOn "\n" do
    match (l.splitOn " ").filter (· ≠ "") with
    | "builtin" :: cs =>
      match parseCrystal cs with
      | some (c, _) => out := out ++ [c]
      | none => pure ()
    | _ => pure ()
  pure out

def runHistory (cache : IO.Ref (Option (String × List (Crystal D)))) (mode : String) (bcap : Nat) (path : String) : IO Unit := do
  let txt ← IO.FS.readFile path
  let lines := (txt.splitOn "\n").map (fun l => (l.splitOn " ").filter (· ≠ ""))
  let mut pool : List String := []
  let mut builtin : List (Crystal D) := []
  let mut ops : List (List String × DOp) := []
  for ts in lines do
    match ts with
    | [] => pure ()
    | "pool" :: ns => pool := pool ++ ns
    | "builtin" :: cs =>
      match parseCrystal cs with
      | some (c, _) => builtin := builtin ++ [c]
      | none => pure ()
    | ["builtinfile", bp] =>
      -- the initial state of the built-in collection, shared by all histories of a run: parsed once per process
      match ← cache.get with
      | some (p, b) =>
        if p == bp then builtin := b
        else
          let b ← parseBuiltinFile bp
          cache.set (some (bp, b)); builtin := b
      | none =>
        let b ← parseBuiltinFile bp
        cache.set (some (bp, b)); builtin := b
    | ["addmany", a, count, seed] =>
      ops := ops ++ [(ts, .many (parseARef a) ((List.range count.toNat!).map (genMany seed.toNat!)))]
    | t :: _ =>
      if t.startsWith "#" then pure ()
      else match parseOp ts with
        | some op =>
          -- model mode: the content of a crystal file is what the reader model makes of its bytes
          match mode, ts with
          | "model", rd :: a :: k :: _ =>
            if rd != "read" && rd != "readmany" then ops := ops ++ [(ts, .one op)]
            else if k == "NULLNAME" || k == "NOFILE" then ops := ops ++ [(ts, .one op)]
            else
              let dir := (System.FilePath.mk path).parent.getD (System.FilePath.mk ".")
              match ← readBytes (dir / s!"f{k}.dat") with
              | none => ops := ops ++ [(ts, .one (.read (parseARef a) .cannotOpen))]
              | some text =>
                match Reader.readText text with
                | .parsed p => ops := ops ++ [(ts, .one (.read (parseARef a) (.content (parsedToD p))))]
                | .ub u => ops := ops ++ [(ts, .stop ("ub " ++ ubStr u))]
                | .unsupported => ops := ops ++ [(ts, .stop "unsupported")]
          | _, _ => ops := ops ++ [(ts, .one op)]
        | none => IO.println s!"bad-op {ts}"
  let out ← IO.getStdout
  if mode == "model" then
    let mut σ : CState D := initState bcap builtin
    let base := σ.mem.live
    let mut fl : Flags := {}
    let mut k := 0
    for (ts, dop) in ops do
      match dop with
      | .stop why =>
        out.putStrLn s!"op {k} {opName ts} {why}"
        return
      | .many arr cs =>
        -- the single additions, one after the other, through the unchanged model
        let mut added := 0
        let mut first : Int := -1
        let mut ferr : Option Err := none
        let mut idx : Nat := 0
        for c in cs do
          match cstep volF σ (.add arr (.lit c)) with
          | .error u =>
            out.putStrLn s!"op {k} {opName ts} ub {ubStr u}"
            return
          | .ok (σ', o) =>
            σ := σ'
            if o.ret == .int 1 && o.err.isNone then added := added + 1
            else if first < 0 then
              first := idx
              ferr := o.err
          idx := idx + 1
        fl := updFlags fl σ (.list arr)
        out.putStrLn s!"op {k} {opName ts} ret={added}/{first}{errStr ferr}"
      | .one op =>
        match cstep volF σ op with
        | .error u =>
          out.putStrLn s!"op {k} {opName ts} ub {ubStr u}"
          return
        | .ok (σ', o) =>
          σ := σ'
          fl := updFlags fl σ op
          out.putStrLn s!"op {k} {opName ts} ret={retStr o.ret}{errStr o.err}"
      match observeModel σ fl pool base with
      | .error u =>
        out.putStrLn s!"observe ub {ubStr u}"
        return
      | .ok ls => for l in ls do out.putStrLn l
      k := k + 1
    out.putStrLn "end"
  else
    let mut s : AState D := initAbs builtin
    let b0 := builtin.length
    let mut k := 0
    for (ts, dop) in ops do
      match dop with
      | .stop _ => return
      | .many arr cs =>
        let mut added := 0
        let mut first : Int := -1
        let mut idx : Nat := 0
        for c in cs do
          match astep volF bcap s (.add arr (.lit c)) with
          | none =>
            out.putStrLn s!"op {k} {opName ts} illegal"
            return
          | some (s', o) =>
            s := s'
            if o.ret == .int 1 && !o.failed then added := added + 1
            else if first < 0 then first := idx
          idx := idx + 1
        out.putStrLn s!"op {k} {opName ts} ret={added}/{first} err={if first < 0 then "-" else "+"}"
      | .one op =>
        match astep volF bcap s op with
        | none =>
          out.putStrLn s!"op {k} {opName ts} illegal"
          return
        | some (s', o) =>
          s := s'
          out.putStrLn s!"op {k} {opName ts} ret={retStr o.ret} err={if o.failed then "+" else "-"}"
      for l in observeSpec s b0 pool do out.putStrLn l
      k := k + 1
    out.putStrLn "end"

def main (args : List String) : IO UInt32 := do
  match args with
  | "parse" :: files =>
    for f in files do
      match ← readBytes f with
      | none => IO.println s!"file {f} NOFILE"
      | some text =>
        match Reader.readText text with
        | .parsed p => IO.println s!"file {f} P {parsedTokens (parsedToD p)}"
        | .ub u => IO.println s!"file {f} UB {ubStr u}"
        | .unsupported => IO.println s!"file {f} UNSUPPORTED"
    (← IO.getStdout).flush
    pure 0
  | mode :: bcap :: files =>
    let cache ← IO.mkRef (none : Option (String × List (Crystal D)))
    for f in files do
      IO.println s!"history {f}"
      runHistory cache mode bcap.toNat! f
    (← IO.getStdout).flush
    pure 0
  | _ =>
    IO.eprintln "usage: c14-model (model|spec) <bcap> <history-file>..."
    pure 2
