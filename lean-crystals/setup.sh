#!/bin/sh
# Run once after a fresh restore (offline): builds the Lean project of C14 (model, specification, lemmas, property
# theorems, the model driver `c14-model`); pays the cold Mathlib import once and leaves .lake populated.
# Nothing of /repo is compiled here: every ./check C14 rebuilds the C artefacts in a scratch directory and regenerates
# XrlCrystals/Gen/Builtin.lean (the shipped collection's names) and XrlCrystals/Gen/Facts.lean (the structure of the container code,
# tools/c14_facts.py; needed by XrlCrystals.Props.C14c, which is therefore built by the check only) from the working tree.
set -e
cd "$(dirname "$0")"
lake build XrlCrystals XrlCrystals.Props.C14 XrlCrystals.Props.C14b c14-model
