import XrlCrystals.Hand.Crystals
import XrlCrystals.Hand.Caller
import XrlCrystals.Spec.Dict
