import XrlCrystals.Hand.Crystals
import XrlCrystals.Hand.Caller
import XrlCrystals.Hand.Reader
import XrlCrystals.Hand.Skeleton
import XrlCrystals.Spec.Dict
