import XrlCrystals.Hand.Caller
/-!
# Specification of C14: a collection is a dictionary (core Lean only, executable)

Written from the property text, not from the code:

* a collection is a map from names to crystals, listed in sorted order of the names (`Dict`);
* adding a crystal whose name is present is rejected; an accepted crystal is stored with its geometry and
  atoms as given and its cell volume recomputed (`vol`); nothing else changes;
* a user-owned collection has no capacity; the built-in one holds at most `bcap` crystals and refuses more
  with an error;
* loading a file adds all of its crystals or — when the file is malformed, repeats a name, names a crystal
  already present, or would overflow the built-in collection — none;
* lookups hand out independent copies: what the caller later does to a copy changes that copy only;
* a NULL collection argument means the built-in collection (documented in the header);
* releasing is the end of a handle's life: an operation through a released handle is outside the property
  (`astep = none`), everything else is inside.

The abstract state knows nothing about memory: no addresses, no capacity of user arrays, no blocks.
It reuses only the *vocabulary* of the caller (`Op`, `Ret`, the value type `Crystal`, the parsed file).
-/
namespace XrlCrystals
variable {α : Type}

structure Dict (α : Type) where
  items : List (Crystal α)
  deriving Inhabited

namespace Dict

def empty : Dict α := ⟨[]⟩
def find (d : Dict α) (n : String) : Option (Crystal α) := d.items.find? (fun c => c.name == n)
def names (d : Dict α) : List String := d.items.map (·.name)
def size (d : Dict α) : Nat := d.items.length
def has (d : Dict α) (n : String) : Bool := d.names.contains n

/-- insertion keeping the listing in `strcmp` order -/
def ins (c : Crystal α) : List (Crystal α) → List (Crystal α)
  | [] => [c]
  | x :: xs => if c.name < x.name then c :: x :: xs else x :: ins c xs

/-- store `c` with its volume recomputed -/
def put (vol : Cell α → α) (d : Dict α) (c : Crystal α) : Dict α :=
  ⟨ins { c with volume := vol c.cell } d.items⟩

def putAll (vol : Cell α → α) (d : Dict α) (cs : List (Crystal α)) : Dict α :=
  cs.foldl (put vol) d

end Dict

/-- what a caller's variable holds -/
inductive Held (β : Type) where
  | null
  | live (v : β)
  | released
  deriving Inhabited

structure AState (α : Type) where
  builtin : Dict α
  arrs : List (Held (Dict α))
  objs : List (Held (Crystal α))
  deriving Inhabited

/-- what an abstract step hands back: the return value, and whether the call failed (an error is reported) -/
structure AOut where
  ret : Ret
  failed : Bool
  deriving Repr, DecidableEq, Inhabited

/-- the collection an `ARef` denotes: `none` = the built-in one, `some i` = the live user array `i`.
Outer `none`: the handle was released (or never existed) — outside the property. -/
def AState.target (s : AState α) : ARef → Option (Option Nat)
  | .builtin => some none
  | .user i =>
    match s.arrs[i]? with
    | some .null => some none
    | some (.live _) => some (some i)
    | _ => none

def AState.dict (s : AState α) : Option Nat → Dict α
  | none => s.builtin
  | some i =>
    match s.arrs[i]? with
    | some (.live d) => d
    | _ => .empty

def AState.setDict (s : AState α) (t : Option Nat) (d : Dict α) : AState α :=
  match t with
  | none => { s with builtin := d }
  | some i => { s with arrs := s.arrs.set i (.live d) }

/-- the crystal a `Src` denotes: `some none` = NULL pointer; outer `none` = released handle -/
def AState.srcVal (s : AState α) : Src α → Option (Option (Crystal α))
  | .null => some none
  | .lit c => some (some c)
  | .obj j =>
    match s.objs[j]? with
    | some .null => some none
    | some (.live v) => some (some v)
    | _ => none

def scribCrystal (w : α) (c : Crystal α) : Crystal α :=
  ⟨scribName c.name, scribCell w, w, c.atoms.map (fun _ => scribAtom w)⟩

/-- does the collection `t` have room for `k` more crystals? (only the built-in one is bounded) -/
def AState.room (bcap : Nat) (s : AState α) (t : Option Nat) (k : Nat) : Bool :=
  match t with
  | none => decide (s.builtin.size + k ≤ bcap)
  | some _ => true

def astep (vol : Cell α → α) (bcap : Nat) (s : AState α) : Op α → Option (AState α × AOut)
  | .init n =>
      if n < 0 then some ({ s with arrs := s.arrs ++ [.null] }, ⟨.ptr false, true⟩)
      else some ({ s with arrs := s.arrs ++ [.live .empty] }, ⟨.ptr true, false⟩)
  | .add arr src => do
      let t ← s.target arr
      let v ← s.srcVal src
      match v with
      | none => some (s, ⟨.int 0, true⟩)
      | some c =>
        if (s.dict t).has c.name || !(s.room bcap t 1) then some (s, ⟨.int 0, true⟩)
        else some (s.setDict t ((s.dict t).put vol c), ⟨.int 1, false⟩)
  | .read arr f => do
      let t ← s.target arr
      match f with
      | .nullName => some (s, ⟨.int 0, true⟩)
      | .cannotOpen => some (s, ⟨.int 0, true⟩)
      | .content p =>
        let ns := p.good.map (·.name)
        if p.bad.isSome || !(decide ns.Nodup) || ns.any (s.dict t).has || !(s.room bcap t ns.length) then
          some (s, ⟨.int 0, true⟩)
        else some (s.setDict t ((s.dict t).putAll vol p.good), ⟨.int 1, false⟩)
  | .get arr name => do
      let t ← s.target arr
      match name.bind (s.dict t).find with
      | none => some ({ s with objs := s.objs ++ [.null] }, ⟨.ptr false, true⟩)
      | some c => some ({ s with objs := s.objs ++ [.live c] }, ⟨.ptr true, false⟩)
  | .list arr => do
      let t ← s.target arr
      some (s, ⟨.names (s.dict t).size (s.dict t).names, false⟩)
  | .copy src => do
      let v ← s.srcVal src
      match v with
      | none => some ({ s with objs := s.objs ++ [.null] }, ⟨.ptr false, true⟩)
      | some c => some ({ s with objs := s.objs ++ [.live c] }, ⟨.ptr true, false⟩)
  | .free j =>
      match s.objs[j]? with
      | some .null => some (s, ⟨.unit, false⟩)
      | some (.live _) => some ({ s with objs := s.objs.set j .released }, ⟨.unit, false⟩)
      | _ => none
  | .afree i =>
      match s.arrs[i]? with
      | some .null => some (s, ⟨.unit, false⟩)
      | some (.live _) => some ({ s with arrs := s.arrs.set i .released }, ⟨.unit, false⟩)
      | _ => none
  | .scrib j w =>
      match s.objs[j]? with
      | some .null => some (s, ⟨.unit, false⟩)
      | some (.live c) => some ({ s with objs := s.objs.set j (.live (scribCrystal w c)) }, ⟨.unit, false⟩)
      | _ => none

def arun (vol : Cell α → α) (bcap : Nat) (s : AState α) : List (Op α) → Option (AState α × List AOut)
  | [] => some (s, [])
  | op :: ops => do
      let (s, o) ← astep vol bcap s op
      let (s, os) ← arun vol bcap s ops
      some (s, o :: os)

def initAbs (builtin : List (Crystal α)) : AState α := ⟨⟨builtin⟩, [], []⟩

/-- a concrete answer agrees with an abstract one: same return value, an error object iff the call failed -/
def Out.agrees (o : Out) (a : AOut) : Prop := o.ret = a.ret ∧ o.err.isSome = a.failed

end XrlCrystals
